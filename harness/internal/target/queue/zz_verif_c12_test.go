package queue

// C12 harness: queue scheduler (time wheel) — dispatch once, not early, safe shutdown.
//
// timewheel.go and queue.go are compiled from mechanically rewritten copies (tools/extract
// c12rewrite) with a c12sched.Point before every synchronisation statement.
//
//   TestVerifC12Sched  controlled mode: the REAL queue (spool files, time wheel, dispatch goroutines,
//                      Close) is driven step by step along a schedule; the same schedule is run by the
//                      Lean model and the states are compared (correspondence); the monitor evaluates
//                      the property on the real execution, then drains the system and inspects the spool.
//   TestVerifC12Free   free mode: real scheduler and clock with seeded yields/delays at the same
//                      points, concurrent producers, retries and one shutdown, then a restart on the
//                      same spool; monitor only.
//
// Both modes configure a scripted bounce pipeline (c12Dsn): the failure report of a message rejected for good /
// out of tries is part of the attempt Close waits for; work an attempt leaves behind in another goroutine is
// scheduled last (controlled) / held until the shutdown has begun (free): C12/work-running-after-close,
// C12/outcome-lost-at-close, C12/outcome-lost, C12/failure-report-twice.  `tp<i>.<n>`, 16 <= n < 20: the next hop
// rejects for good and the bounce pipeline panics while it takes the report.

import (
	"context"
	"errors"
	"fmt"
	"os"
	"path/filepath"
	"reflect"
	"sort"
	"strconv"
	"strings"
	"sync"
	"sync/atomic"
	"testing"
	"time"
	"unsafe"

	"github.com/emersion/go-message/textproto"
	"github.com/emersion/go-smtp"
	"github.com/foxcpp/maddy/framework/buffer"
	"github.com/foxcpp/maddy/framework/exterrors"
	"github.com/foxcpp/maddy/framework/log"
	"github.com/foxcpp/maddy/framework/module"
	"github.com/foxcpp/maddy/internal/verifshim/c12sched"
	"github.com/foxcpp/maddy/internal/verifshim/vh"
)

// ---------------------------------------------------------------- labels

func c12Base(label string) string {
	if i := strings.IndexByte(label, ':'); i >= 0 {
		return label[:i]
	}
	return label
}

var c12PcOf = map[string]string{
	"TimeWheel.Add/atomic#1":            "check",
	"TimeWheel.Add/lock#1":              "lock",
	"TimeWheel.Add/unlock#1":            "push",
	"TimeWheel.Add/send#1":              "send", // pinned tree: plain send
	"TimeWheel.Add/select#1":            "send", // repaired: select { send; <-done }
	"Queue.dispatch.func1/send#1":       "acquire",
	"c12target/deliver":                 "deliver",
	"Queue.dispatch.func1.func1/recv#1": "release",
	"Queue.discardBroken/entry#1":       "discard",
	"TimeWheel.tick/now#1":              "top",
	"TimeWheel.tick/lock#1":             "scanLock",
	"TimeWheel.tick/unlock#1":           "scan",
	"TimeWheel.tick/newtimer#1":         "mkTimer",
	"TimeWheel.tick/select#1":           "waitEmpty",
	"TimeWheel.tick/select#2":           "waitTimer",
	"TimeWheel.tick/lock#2":             "rmLock",
	"TimeWheel.tick/unlock#2":           "rm",
	"Queue.dispatch/wgadd#1":            "dispatch",
	"TimeWheel.tick/send#1":             "ack",
	"TimeWheel.tick/send#2":             "ack",
	"TimeWheel.Close/atomic#1":          "setStopped",
	"TimeWheel.Close/send#1":            "sendStop",
	"TimeWheel.Close/recv#1":            "recvAck",
	"TimeWheel.Close/close#1":           "closeChan",
	"Queue.Close/wgwait#1":              "wgWait",
}

var c12AutoSeen sync.Map

// ---------------------------------------------------------------- points by what they do
//
// The NAME of a point (c12PcOf: exact label -> program counter of the model) is what the
// correspondence compares.  What a parked goroutine CAN DO is decided from the kind of the
// statement and its operand alone (lock / send / recv / select / wgwait / …), resolved against the
// real objects by reflection: labels the table does not know (a refactored tick loop, helper
// methods of the slot collection with their own lock, an extra critical section) are still
// scheduled, only the model comparison diverges.

type c12Alt struct{ dir, ch string } // dir: send | recv | default

type c12Pt struct {
	label, fn, kind, operand string
	alts                     []c12Alt
}

var c12PtCache sync.Map

func c12Parse(label string) *c12Pt {
	if v, ok := c12PtCache.Load(label); ok {
		return v.(*c12Pt)
	}
	p := &c12Pt{label: label}
	rest := label
	if i := strings.IndexByte(rest, '/'); i >= 0 {
		p.fn, rest = rest[:i], rest[i+1:]
	}
	if i := strings.IndexByte(rest, ':'); i >= 0 {
		p.operand, rest = rest[i+1:], rest[:i]
	}
	if i := strings.IndexByte(rest, '#'); i >= 0 {
		rest = rest[:i]
	}
	p.kind = rest
	switch p.kind {
	case "send", "recv":
		p.alts = []c12Alt{{p.kind, p.operand}}
	case "select":
		for _, a := range strings.Split(p.operand, "|") {
			if a == "default" {
				p.alts = append(p.alts, c12Alt{"default", ""})
			} else if i := strings.IndexByte(a, ':'); i >= 0 {
				p.alts = append(p.alts, c12Alt{a[:i], a[i+1:]})
			}
		}
	}
	c12PtCache.Store(label, p)
	return p
}

// c12Clean: the same value with the "obtained through an unexported field" mark removed.
func c12Clean(v reflect.Value) reflect.Value {
	if v.IsValid() && v.CanAddr() {
		return reflect.NewAt(v.Type(), unsafe.Pointer(v.UnsafeAddr())).Elem()
	}
	return v
}

// c12Field: field `name` of the struct v is (or points to).
func c12Field(v reflect.Value, name string) reflect.Value {
	v = c12Clean(v)
	for v.IsValid() && (v.Kind() == reflect.Ptr || v.Kind() == reflect.Interface) {
		if v.IsNil() {
			return reflect.Value{}
		}
		v = c12Clean(v.Elem())
	}
	if !v.IsValid() || v.Kind() != reflect.Struct {
		return reflect.Value{}
	}
	f := v.FieldByName(name)
	if !f.IsValid() {
		return f
	}
	return c12Clean(f)
}

var c12SlotType = reflect.TypeOf(TimeSlot{})

// c12Walk calls f for every TimeSlot reachable from v (list, heap, slice, map, ring, wrapper
// structs, embedded TimeSlot … whatever the wheel keeps its entries in).
type c12Seen struct {
	p uintptr
	t reflect.Type
}

func c12Walk(v reflect.Value, seen map[c12Seen]bool, budget *int, f func(TimeSlot)) {
	if !v.IsValid() || *budget <= 0 {
		return
	}
	*budget--
	v = c12Clean(v)
	if v.Type() == c12SlotType {
		if v.CanInterface() {
			f(v.Interface().(TimeSlot))
		}
		return
	}
	switch v.Kind() {
	case reflect.Ptr:
		if v.IsNil() {
			return
		}
		et := v.Type().Elem()
		if et.Kind() == reflect.Struct && (et.Name() == "Queue" || et.PkgPath() == "sync" || et.PkgPath() == "time") {
			return
		}
		k := c12Seen{v.Pointer(), et}
		if seen[k] {
			return
		}
		seen[k] = true
		c12Walk(v.Elem(), seen, budget, f)
	case reflect.Interface:
		if !v.IsNil() {
			c12Walk(v.Elem(), seen, budget, f)
		}
	case reflect.Struct:
		switch v.Type().PkgPath() {
		case "sync", "sync/atomic", "time":
			return
		}
		if !v.CanAddr() {
			if !v.CanInterface() {
				return
			}
			c := reflect.New(v.Type()).Elem()
			c.Set(v)
			v = c
		}
		for i := 0; i < v.NumField(); i++ {
			c12Walk(v.Field(i), seen, budget, f)
		}
	case reflect.Slice, reflect.Array:
		if v.Kind() == reflect.Slice && v.IsNil() {
			return
		}
		for i := 0; i < v.Len(); i++ {
			c12Walk(v.Index(i), seen, budget, f)
		}
	case reflect.Map:
		if v.IsNil() {
			return
		}
		it := v.MapRange()
		for it.Next() {
			c12Walk(it.Key(), seen, budget, f)
			c12Walk(it.Value(), seen, budget, f)
		}
	}
}

type c12Ent struct {
	msg  int
	time int64
}

func (e c12Ent) String() string { return fmt.Sprintf("%d@%d", e.msg, e.time) }

// c12WheelEntries: the multiset of entries the real wheel holds right now.
func c12WheelEntries(tw *TimeWheel, units func(time.Time) int64) map[c12Ent]int {
	out := map[c12Ent]int{}
	if tw == nil {
		return out
	}
	budget := 200000
	c12Walk(reflect.ValueOf(tw), map[c12Seen]bool{}, &budget, func(s TimeSlot) {
		qs, ok := s.Value.(queueSlot)
		if !ok {
			return
		}
		out[c12Ent{c12MsgIdx(qs.ID), units(s.Time)}]++
	})
	return out
}

// c12DispatchField: the wheel's dispatch callback (a field of type func(TimeSlot)), whatever its name.
func c12DispatchField(tw *TimeWheel) reflect.Value {
	v := reflect.ValueOf(tw).Elem()
	want := reflect.TypeOf((func(TimeSlot))(nil))
	for i := 0; i < v.NumField(); i++ {
		if v.Field(i).Type() == want {
			return c12Clean(v.Field(i))
		}
	}
	panic("c12: TimeWheel has no field of type func(TimeSlot): cannot observe dispatch callbacks")
}

// c12WrapDispatch replaces the callback by wrap(inner).
func c12WrapDispatch(tw *TimeWheel, wrap func(inner func(TimeSlot)) func(TimeSlot)) {
	f := c12DispatchField(tw)
	inner := f.Interface().(func(TimeSlot))
	f.Set(reflect.ValueOf(wrap(inner)))
}

// c12Mutexes: every sync.Mutex / sync.RWMutex that is a field of the wheel or of an object one
// level below it.
func c12Mutexes(tw *TimeWheel) []interface{} {
	var out []interface{}
	var scan func(v reflect.Value, depth int)
	scan = func(v reflect.Value, depth int) {
		v = c12Clean(v)
		for v.IsValid() && v.Kind() == reflect.Ptr {
			if v.IsNil() {
				return
			}
			v = c12Clean(v.Elem())
		}
		if !v.IsValid() || v.Kind() != reflect.Struct || !v.CanAddr() {
			return
		}
		switch m := v.Addr().Interface().(type) {
		case *sync.Mutex:
			out = append(out, m)
			return
		case *sync.RWMutex:
			out = append(out, m)
			return
		}
		if p := v.Type().PkgPath(); p == "sync" || p == "sync/atomic" || p == "time" || p == "container/list" {
			return
		}
		if depth >= 2 {
			return
		}
		for i := 0; i < v.NumField(); i++ {
			scan(v.Field(i), depth+1)
		}
	}
	scan(reflect.ValueOf(tw), 0)
	return out
}

func c12LockFree(m interface{}, read bool) bool {
	switch x := m.(type) {
	case *sync.Mutex:
		if x.TryLock() {
			x.Unlock()
			return true
		}
		return false
	case *sync.RWMutex:
		if read {
			if x.TryRLock() {
				x.RUnlock()
				return true
			}
			return false
		}
		if x.TryLock() {
			x.Unlock()
			return true
		}
		return false
	}
	return true
}

// c12WgCounter: the counter of a sync.WaitGroup (go1.23 layout: state atomic.Uint64, high 32 bits).
func c12WgCounter(v reflect.Value) (int, bool) {
	st := c12Field(v, "state")
	if st.IsValid() && st.Kind() == reflect.Struct {
		st = c12Field(st, "v")
	}
	if !st.IsValid() || st.Kind() != reflect.Uint64 || !st.CanAddr() {
		return 0, false
	}
	return int(int32(atomic.LoadUint64((*uint64)(unsafe.Pointer(st.UnsafeAddr()))) >> 32)), true
}

// c12Flag reads a stop flag whatever its type (uint32 used with sync/atomic, bool, atomic.Bool, …).
func c12Flag(v reflect.Value) (bool, bool) {
	v = c12Clean(v)
	if !v.IsValid() {
		return false, false
	}
	switch v.Kind() {
	case reflect.Bool:
		return v.Bool(), true
	case reflect.Int, reflect.Int32, reflect.Int64, reflect.Int8, reflect.Int16:
		return v.Int() != 0, true
	case reflect.Uint, reflect.Uint32, reflect.Uint64, reflect.Uint8, reflect.Uint16:
		return v.Uint() != 0, true
	case reflect.Struct:
		return c12Flag(c12Field(v, "v"))
	}
	return false, false
}

// ---------------------------------------------------------------- scripted target

type c12Target struct {
	mu       sync.Mutex
	decision map[string]int   // msg id -> 0 terminal outcome, 1 temporary failure   (controlled mode)
	plan     map[string][]int // free mode: outcome of attempt k
	attempts map[string]int
	running  map[string]int
	okCount  map[string]int  // final outcomes: accepted, or rejected for good
	accepted map[string]int  // … of these: accepted by the next hop
	panicAt  map[string]int  // controlled mode: the next attempt of the message panics (stage n%4, kind of panic value n/4)
	panicked map[string]int  // panics thrown so far, per message
	rejectNx map[string]bool // controlled mode: the next attempt of the message is rejected for good
	events   []string
	viol     []string
	yield    bool
	stat     func(string)
}

func c12OrigID(id string) string {
	if i := strings.LastIndexByte(id, '-'); i >= 0 {
		return id[:i]
	}
	return id
}

// where in the SMTP-like dialogue the scripted next hop answers with its error
const (
	c12AtStart = iota
	c12AtRcpt
	c12AtBody
	c12AtCommit
)

type c12Delivery struct {
	t     *c12Target
	id    string
	err   error // nil: the message is accepted
	stage int
	final bool // err is a permanent rejection
	ended bool
	boom  int // >= 0: the target panics at stage boom%4 with a panic value of kind boom/4
}

// A fault of the code the queue calls (delivery target, modifier, a library below them): it panics
// in the middle of an attempt.  The kinds of panic value: a string, an error, a genuine
// runtime.Error (assignment to an entry of a nil map), a value of a type of its own.
type c12Oops struct{ what string }

var c12PanicKindName = []string{"string", "error", "runtime-error", "custom-type"}

func c12Panic(kind int) {
	switch kind % 4 {
	case 0:
		panic("c12: scripted panic of the delivery target")
	case 1:
		panic(errors.New("c12: scripted panic of the delivery target (error value)"))
	case 2:
		var m map[string]int
		m["c12"] = 1
	}
	panic(c12Oops{"c12: scripted panic of the delivery target (custom type)"})
}

// boomAt: the scripted panic of this delivery is due at this stage of the dialogue.
func (d *c12Delivery) boomAt(stage int) {
	if d.boom >= 0 && d.boom%4 == stage {
		d.end()
		c12Panic(d.boom / 4)
	}
}

// answer with the scripted error; a permanent one is a final outcome of the message
func (d *c12Delivery) reject() error {
	if d.final {
		d.final = false
		d.t.mu.Lock()
		d.t.okCount[d.id]++
		d.t.mu.Unlock()
	}
	return d.err
}

var c12StageName = []string{"start", "rcpt", "body", "commit"}

// c12Outcome: what attempt k of message id answers.  fail = temporary failure (the queue retries or
// gives up at max_tries); otherwise the outcome is final: delivered, or (every third final outcome)
// a permanent rejection.  The stage of the dialogue at which the error comes is a function of
// (message, attempt): all four are exercised, a replay sees the same ones.
func c12Outcome(id string, k int, fail bool) (error, int) {
	h := k*5 + c12MsgIdx(id)*3
	if fail {
		return exterrors.WithTemporary(errors.New("c12: try later"), true), h % 4
	}
	if h%3 == 2 {
		return exterrors.WithTemporary(errors.New("c12: rejected for good"), false), (h / 3) % 4
	}
	return nil, 0
}

func (t *c12Target) Start(ctx context.Context, msgMeta *module.MsgMetadata, mailFrom string) (module.Delivery, error) {
	id := c12OrigID(msgMeta.ID)
	t.mu.Lock()
	t.running[id]++
	if t.running[id] > 1 {
		t.viol = append(t.viol, "two attempts of message "+id+" run concurrently")
	}
	t.mu.Unlock()
	if t.yield {
		c12sched.Point("c12target/deliver")
	}
	t.mu.Lock()
	defer t.mu.Unlock()
	k := t.attempts[id]
	t.attempts[id]++
	fail := false
	boom := -1
	if t.plan != nil {
		p := t.plan[id]
		fail = k < len(p) && p[k] == 1
		if k < len(p) && p[k] >= 2 {
			boom = (p[k] - 2) % 16
		}
	} else {
		fail = t.decision[id] == 1
		if n, ok := t.panicAt[id]; ok {
			delete(t.panicAt, id)
			boom = n % 16
		}
	}
	if boom >= 0 {
		t.panicked[id]++
		if t.stat != nil {
			t.stat("target.panic-at-" + c12StageName[boom%4])
			t.stat("target.panic-value-" + c12PanicKindName[boom/4])
		}
		if boom%4 == c12AtStart {
			t.running[id]--
			c12Panic(boom / 4) // (the deferred Unlock runs)
		}
		return &c12Delivery{t: t, id: id, boom: boom}, nil
	}
	d := &c12Delivery{t: t, id: id, boom: -1}
	d.err, d.stage = c12Outcome(id, k, fail)
	if t.rejectNx[id] {
		delete(t.rejectNx, id)
		fail = false
		d.err, d.stage = exterrors.WithTemporary(errors.New("c12: rejected for good"), false), (k+c12MsgIdx(id))%4
	}
	d.final = d.err != nil && !fail
	if t.stat != nil {
		switch {
		case d.err == nil:
			t.stat("target.accepted")
		case fail:
			t.stat("target.temporary-error-at-" + c12StageName[d.stage])
		default:
			t.stat("target.permanent-error-at-" + c12StageName[d.stage])
		}
	}
	if d.err != nil && d.stage == c12AtStart {
		t.running[id]--
		if d.final {
			t.okCount[id]++
		}
		return nil, d.err
	}
	return d, nil
}

func (d *c12Delivery) AddRcpt(ctx context.Context, to string, _ smtp.RcptOptions) error {
	d.boomAt(c12AtRcpt)
	if d.err != nil && d.stage == c12AtRcpt {
		return d.reject()
	}
	return nil
}
func (d *c12Delivery) Body(ctx context.Context, header textproto.Header, body buffer.Buffer) error {
	d.boomAt(c12AtBody)
	if d.err != nil && d.stage == c12AtBody {
		return d.reject()
	}
	return nil
}
func (d *c12Delivery) end() {
	d.t.mu.Lock()
	if !d.ended {
		d.ended = true
		d.t.running[d.id]--
	}
	d.t.mu.Unlock()
}
func (d *c12Delivery) Abort(ctx context.Context) error { d.end(); return nil }
func (d *c12Delivery) Commit(ctx context.Context) error {
	d.boomAt(c12AtCommit)
	if d.err != nil && d.stage == c12AtCommit {
		d.end() // the queue does not call Abort after a failed Commit
		return d.reject()
	}
	d.t.mu.Lock()
	d.t.okCount[d.id]++
	d.t.accepted[d.id]++
	d.t.mu.Unlock()
	d.end()
	return nil
}

// ---------------------------------------------------------------- scripted bounce pipeline
//
// What the queue hands the failure report (DSN) of a message to (Queue.dsnPipeline).  The original message is
// recognised by the recipient of the report (the sender "sender-m<i>@example.com" of message i).  A report is
// "answered" once the pipeline has given its final answer: committed, or refused (every third message: the bounce
// pipeline rejects the recipient of the report; the queue can only log that).  A SLOW bounce pipeline: in controlled
// mode a submission made by a goroutine that is not a dispatch goroutine (i.e. work the attempt left behind) parks at
// the scheduling point "c12dsn/submit" and is only let through when everything else has run; a submission made by
// the attempt goroutine itself is part of the attempt's step (what the model has).  Free mode: the submission
// waits until Queue.Close has been called (bounded), so a shutdown always overlaps with it.
type c12Dsn struct {
	mu        sync.Mutex
	started   int
	answered  map[int]int
	committed map[int]int
	refused   map[int]int
	panicFor  map[int]int // the bounce pipeline panics while it takes the report of this message (kind of panic value)
	park      bool
	hold      func() // free mode
	stat      func(string)
}

type c12DsnDelivery struct {
	t   *c12Dsn
	idx int
}

func c12NewDsn() *c12Dsn {
	return &c12Dsn{answered: map[int]int{}, committed: map[int]int{}, refused: map[int]int{}, panicFor: map[int]int{}}
}

func c12Sender(i int) string { return "sender-m" + strconv.Itoa(i) + "@example.com" }

// the return path of message i: every fourth message has the null return path (no failure report is due)
func c12ReturnPath(i int) string {
	if i%4 == 3 {
		return ""
	}
	return c12Sender(i)
}

func (t *c12Dsn) Start(ctx context.Context, msgMeta *module.MsgMetadata, mailFrom string) (module.Delivery, error) {
	t.mu.Lock()
	t.started++
	t.mu.Unlock()
	if t.park {
		if g := c12sched.Current(); g != nil && g.Tag != "attempt" {
			if t.stat != nil {
				t.stat("dsn.submitted-by-background-goroutine")
			}
			c12sched.Point("c12dsn/submit")
		}
	}
	if t.hold != nil {
		t.hold()
	}
	return &c12DsnDelivery{t: t, idx: -1}, nil
}

func (d *c12DsnDelivery) AddRcpt(ctx context.Context, to string, _ smtp.RcptOptions) error {
	d.idx = c12MsgIdx(strings.TrimSuffix(strings.TrimPrefix(to, "sender-"), "@example.com"))
	d.t.mu.Lock()
	kind, boom := d.t.panicFor[d.idx]
	delete(d.t.panicFor, d.idx)
	d.t.mu.Unlock()
	if boom {
		c12Panic(kind)
	}
	if d.idx >= 0 && d.idx%3 == 2 {
		d.t.mu.Lock()
		d.t.answered[d.idx]++
		d.t.refused[d.idx]++
		d.t.mu.Unlock()
		if d.t.stat != nil {
			d.t.stat("dsn.refused-by-bounce-pipeline")
		}
		return exterrors.WithTemporary(errors.New("c12: the bounce pipeline does not take this"), false)
	}
	return nil
}
func (d *c12DsnDelivery) Body(ctx context.Context, header textproto.Header, body buffer.Buffer) error {
	return nil
}
func (d *c12DsnDelivery) Abort(ctx context.Context) error { return nil }
func (d *c12DsnDelivery) Commit(ctx context.Context) error {
	d.t.mu.Lock()
	d.t.answered[d.idx]++
	d.t.committed[d.idx]++
	d.t.mu.Unlock()
	if d.t.stat != nil {
		d.t.stat("dsn.committed")
	}
	return nil
}

func c12NewTarget() *c12Target {
	return &c12Target{decision: map[string]int{}, attempts: map[string]int{}, running: map[string]int{}, okCount: map[string]int{}, accepted: map[string]int{},
		panicAt: map[string]int{}, panicked: map[string]int{}, rejectNx: map[string]bool{}}
}

// ---------------------------------------------------------------- common set-up

func c12TempDir() string {
	base := ""
	if st, err := os.Stat("/dev/shm"); err == nil && st.IsDir() {
		base = "/dev/shm"
	}
	dir, err := os.MkdirTemp(base, "verif-c12-")
	if err != nil {
		panic(err)
	}
	return dir
}

func c12NewQueue(dir string, tgt module.DeliveryTarget, maxTries int) *Queue {
	mod, _ := NewQueue("", "queue", nil, nil)
	q := mod.(*Queue)
	q.initialRetryTime = 0
	q.retryTimeScale = 1
	q.postInitDelay = 0
	q.maxTries = maxTries
	q.location = dir
	q.Target = tgt
	q.hostname = "mx.example.org"
	q.autogenMsgDomain = "example.org"
	q.Log = log.Logger{Out: log.NopOutput{}}
	return q
}

func c12MsgID(i int) string { return "m" + strconv.Itoa(i) }
func c12MsgIdx(id string) int {
	v, err := strconv.Atoi(strings.TrimPrefix(id, "m"))
	if err != nil {
		return -1
	}
	return v
}

// c12Spool stores message i through the queue's own delivery object; commit=false leaves it
// spooled but not scheduled (what a restart finds on disk).
func c12Spool(q *Queue, i int) *queueDelivery {
	ctx := context.Background()
	meta := &module.MsgMetadata{ID: c12MsgID(i), OriginalFrom: c12ReturnPath(i), DontTraceSender: true}
	d, err := q.Start(ctx, meta, c12Sender(i))
	if err != nil {
		panic(err)
	}
	if err := d.AddRcpt(ctx, "rcpt@example.org", smtp.RcptOptions{}); err != nil {
		panic(err)
	}
	hdr := textproto.Header{}
	hdr.Add("Subject", "verif")
	if err := d.Body(ctx, hdr, buffer.MemoryBuffer{Slice: []byte("hello\r\n")}); err != nil {
		panic(err)
	}
	return d.(*queueDelivery)
}

type c12SpoolState struct {
	meta, header, body, broken bool
}

func c12ReadSpool(dir string, n int) []c12SpoolState {
	out := make([]c12SpoolState, n)
	ents, _ := os.ReadDir(dir)
	for _, e := range ents {
		name := e.Name()
		ext := filepath.Ext(name)
		i := c12MsgIdx(strings.TrimSuffix(name, ext))
		if i < 0 || i >= n {
			continue
		}
		switch ext {
		case ".meta", ".meta_hidden": // _hidden: the harness itself made the entry unopenable for a while
			out[i].meta = true
		case ".header":
			out[i].header = true
		case ".body":
			out[i].body = true
		case ".meta_broken":
			out[i].broken = true
		}
	}
	return out
}

// ---------------------------------------------------------------- controlled scenarios

type c12Scn struct {
	variant   string
	cap       int
	withClose bool
	times     []int
	budget    int
}

type c12Disp struct {
	msg      int
	time     int64
	now      int64
	afterEnd bool
	mem      bool // the entry carries the message (Commit): Queue.dispatch does not open the spool entry
}

type c12World struct {
	out           *vh.Out
	scn           c12Scn
	ctl           *c12sched.Ctl
	q             *Queue
	tgt           *c12Target
	dir           string
	tick          *c12sched.G
	clo           *c12sched.G
	thr           []*c12sched.G
	kind          []string
	msgOf         []int // message of thread i
	wg            int   // deliveryWg as the harness counts it (fallback when the real counter cannot be read)
	closed        map[uintptr]bool
	closeReturned bool
	disp          []c12Disp
	pushedE       map[c12Ent]int // entries seen to appear in the real wheel
	terminal      map[int]bool
	discardSeen   bool
	dispDone      int
	lateAttempts  []string
	tickAlive     string
	hang          string
	bad           map[int]func() // attempt goroutine -> restore the spool entry that was made unopenable for it
	hidden        []func()
	tickNow       int64 // clock value the tick goroutine read last / had when it armed its timer
	mkNow         int64
	late          string
	resolved      map[string]reflect.Value
	mutexes       []interface{}
	lastEntries   map[c12Ent]int
	boomG         map[int]bool // attempt goroutines whose delivery was scripted to panic
	boomMsg       map[int]bool // their messages
	quarLate      int          // Close returned while the quarantine rename of such a message was still to come
	dsn           *c12Dsn
	extra         []*c12sched.G // goroutines the queue's code started that are neither the scheduler nor a dispatch goroutine
	extraBy       []string
	lateWork      []string // … of these: still running when Close returned
	lostAtClose   []string // messages gone from the spool when Close returned, terminal outcome not recorded anywhere
}

func (w *c12World) pc(g *c12sched.G) string {
	if g == nil {
		return "-"
	}
	if g.Finished {
		if g.Panic != nil {
			return "panicked"
		}
		return "done"
	}
	if p, ok := c12PcOf[c12Base(g.Label)]; ok {
		return p
	}
	return "?" + c12Base(g.Label)
}

func (w *c12World) wheel() *TimeWheel {
	if w.q == nil {
		return nil
	}
	return w.q.wheel
}

// mutexFree: nobody is inside a critical section of the wheel.
func (w *c12World) mutexFree() bool {
	if w.wheel() == nil {
		return true
	}
	if w.mutexes == nil {
		w.mutexes = c12Mutexes(w.wheel())
	}
	for _, m := range w.mutexes {
		if !c12LockFree(m, false) {
			return false
		}
	}
	return true
}

// resolve: the object an operand of a synchronisation statement ("tw.slotsLock", "q.deliveryWg",
// "&tw.stopped", "h.mu" in a helper method) denotes: the path after the receiver is followed from the
// wheel, from the queue, and from the objects the wheel's fields hold.
var c12OperandClean = strings.NewReplacer("&", "", "*", "", "(", "", ")", "")

func (w *c12World) resolve(operand string) reflect.Value {
	tw := w.wheel()
	if tw != nil {
		if v, ok := w.resolved[operand]; ok {
			return v // the field itself (its storage): what it holds is read when it is used
		}
	}
	v := w.resolve1(operand)
	if tw != nil {
		w.resolved[operand] = v
	}
	return v
}

func (w *c12World) resolve1(operand string) reflect.Value {
	parts := strings.Split(c12OperandClean.Replace(operand), ".")
	if len(parts) < 2 || w.q == nil {
		return reflect.Value{}
	}
	follow := func(v reflect.Value) reflect.Value {
		for _, p := range parts[1:] {
			v = c12Field(v, p)
			if !v.IsValid() {
				return v
			}
		}
		return v
	}
	var roots []reflect.Value
	if tw := w.wheel(); tw != nil {
		roots = append(roots, reflect.ValueOf(tw).Elem())
	}
	roots = append(roots, reflect.ValueOf(w.q).Elem())
	for _, r := range roots {
		if v := follow(r); v.IsValid() {
			return v
		}
	}
	if tw := w.wheel(); tw != nil {
		r := reflect.ValueOf(tw).Elem()
		for i := 0; i < r.NumField(); i++ {
			f := c12Clean(r.Field(i))
			for f.IsValid() && f.Kind() == reflect.Ptr && !f.IsNil() {
				f = c12Clean(f.Elem())
			}
			if f.IsValid() && f.Kind() == reflect.Struct && f.Type().PkgPath() != "sync" && f.Type().PkgPath() != "time" {
				if v := follow(f); v.IsValid() {
					return v
				}
			}
		}
	}
	return reflect.Value{}
}

func (w *c12World) chanOf(operand string) (reflect.Value, bool) {
	v := w.resolve(operand)
	if v.IsValid() && v.Kind() == reflect.Chan {
		return v, true
	}
	return v, false
}

// isTimerAlt: a receive from a channel that is neither the wheel's nor the queue's (timer.C, the
// result of time.After kept in a local variable, …): the expiry of the pending timer.
func (w *c12World) isTimerAlt(a c12Alt) bool {
	if a.dir != "recv" {
		return false
	}
	_, ok := w.chanOf(a.ch)
	return !ok
}

// soloAlt: can this communication complete without another goroutine arriving?
func (w *c12World) soloAlt(a c12Alt) bool {
	if a.dir == "default" {
		return true
	}
	ch, ok := w.chanOf(a.ch)
	if !ok || ch.IsNil() {
		return false // unknown channel (a timer: see kt) or nil channel: blocks
	}
	if w.closed[ch.Pointer()] {
		return true // receive of the zero value; a send panics (which is a step, too)
	}
	if a.dir == "send" {
		return ch.Len() < ch.Cap()
	}
	return ch.Len() > 0
}

func (w *c12World) wgOf(operand string) (int, bool) {
	if v := w.resolve(operand); v.IsValid() {
		if n, ok := c12WgCounter(v); ok {
			return n, true
		}
	}
	return 0, false
}

// wgReal: the real counter of the queue's delivery WaitGroup (first sync.WaitGroup field of Queue).
func (w *c12World) wgReal() int {
	v := reflect.ValueOf(w.q).Elem()
	wt := reflect.TypeOf(sync.WaitGroup{})
	for i := 0; i < v.NumField(); i++ {
		if v.Field(i).Type() == wt {
			if n, ok := c12WgCounter(v.Field(i)); ok {
				return n
			}
		}
	}
	return w.wg
}

// solo: the goroutine parked before this statement can execute it now without a partner.
// Written from Go's semantics of the primitive, probing the real objects; not from the model.
func (w *c12World) solo(p *c12Pt) bool {
	if p == nil {
		return false
	}
	switch p.kind {
	case "lock":
		v := w.resolve(p.operand)
		if v.IsValid() && v.Kind() == reflect.Ptr && !v.IsNil() {
			v = c12Clean(v.Elem())
		}
		if v.IsValid() && v.CanAddr() {
			return c12LockFree(v.Addr().Interface(), strings.Contains(p.label, "RLock"))
		}
		return w.mutexFree()
	case "send", "recv", "select":
		for _, a := range p.alts {
			if w.soloAlt(a) {
				return true
			}
		}
		return false
	case "wgwait":
		if n, ok := w.wgOf(p.operand); ok {
			return n == 0
		}
		return w.wg == 0
	}
	return true // atomic, unlock, close, clock read, timer creation, wgadd, go, entry, deliver
}

// meet: snd is parked before a send on an unbuffered, open channel and rcv before a receive from
// the same channel: both together can take one joint step (rendezvous).  Not when one of them has an
// alternative that is ready by itself: which one its select takes would be the runtime's choice
// (such a goroutine moves alone).
func (w *c12World) meet(snd, rcv *c12Pt) bool {
	if snd == nil || rcv == nil || w.solo(snd) || w.solo(rcv) {
		return false
	}
	for _, a := range snd.alts {
		if a.dir != "send" {
			continue
		}
		ch, ok := w.chanOf(a.ch)
		if !ok || ch.IsNil() || ch.Cap() != 0 || w.closed[ch.Pointer()] {
			continue
		}
		for _, b := range rcv.alts {
			if b.dir != "recv" {
				continue
			}
			if ch2, ok := w.chanOf(b.ch); ok && !ch2.IsNil() && ch2.Pointer() == ch.Pointer() {
				return true
			}
		}
	}
	return false
}

func (w *c12World) pt(g *c12sched.G) *c12Pt {
	if g == nil || g.Finished || g.Label == "" {
		return nil
	}
	return c12Parse(g.Label)
}

// passed: bookkeeping for a point a goroutine goes through (parked and granted, or not parked at all).
func (w *c12World) passed(p *c12Pt) {
	switch p.kind {
	case "close":
		if ch, ok := w.chanOf(p.operand); ok && !ch.IsNil() {
			w.closed[ch.Pointer()] = true
		}
	case "wgadd":
		w.wg++
	case "wgdone":
		w.wg--
	case "now":
		if strings.HasPrefix(p.fn, "TimeWheel.") {
			w.tickNow = w.ctl.VNow()
		}
	case "newtimer", "after":
		if strings.HasPrefix(p.fn, "TimeWheel.") {
			w.mkNow = w.ctl.VNow()
		}
	}
}

// quiescent: no goroutine can take a step; only the clock can change that.
func (w *c12World) quiescent() bool {
	for _, k := range []string{"c", "ks", "k", "kt"} {
		if w.can(c12Tok{kind: k}) {
			return false
		}
	}
	for i := range w.thr {
		if w.can(c12Tok{kind: "ku", i: i}) || w.can(c12Tok{kind: "t", i: i}) {
			return false
		}
	}
	return true
}

// checkTimely: if nothing can move and the tick goroutine waits for a timer, it must be the right one.
func (w *c12World) checkTimely() {
	if w.late != "" || w.tick == nil || w.tick.Finished {
		return
	}
	tm := w.ctl.LiveTimer()
	p := w.pt(w.tick)
	if tm == nil || p == nil || tm.Deadline <= w.ctl.VNow() {
		return
	}
	for _, a := range p.alts {
		if w.isTimerAlt(a) {
			if w.quiescent() {
				w.checkEarliest(tm.Deadline)
			}
			return
		}
	}
}

// checkEarliest: nothing can move and the tick goroutine waits for its timer.  Every wake-up has
// been delivered, so the timer must be the one of the earliest pending entry: armed at mkNow for
// (entry time - clock value read at the top of the loop).  A later deadline means an entry is going
// to be dispatched late, only when an unrelated timer fires.
func (w *c12World) checkEarliest(deadline int64) {
	if w.late != "" {
		return
	}
	first := true
	var min c12Ent
	for e := range w.entries() {
		if first || e.time < min.time || (e.time == min.time && e.msg < min.msg) {
			min, first = e, false
		}
	}
	if first {
		return
	}
	d := min.time - w.tickNow
	if d < 0 {
		d = 0
	}
	if deadline > w.mkNow+d {
		w.late = fmt.Sprintf("nothing left to run at clock %d and the wheel sleeps until %d, but entry %s is pending (loop read the clock at %d, timer armed at %d: its timer would expire at %d): it is dispatched only when an unrelated timer fires",
			w.ctl.VNow(), deadline, min, w.tickNow, w.mkNow, w.mkNow+d)
	}
}

// auto: which points are passed without a scheduling decision.  Everything the table names is a
// decision; so is any other statement that may block (lock, channel operation, WaitGroup.Wait) on an
// object of the wheel or the queue; the rest (the `go` statement, deliveryWg.Done, clock reads outside
// tick, non-blocking statements the table does not know) is merged into the step before it.
func (w *c12World) auto(label string) bool {
	base := c12Base(label)
	if _, ok := c12PcOf[base]; ok {
		return false
	}
	if strings.HasPrefix(base, "c12dsn/") {
		return false
	}
	p := c12Parse(label)
	switch p.kind {
	case "lock", "wgwait":
		if w.resolve(p.operand).IsValid() {
			return false
		}
	case "send", "recv", "select":
		for _, a := range p.alts {
			if _, ok := w.chanOf(a.ch); ok {
				return false
			}
		}
	}
	c12AutoSeen.Store(base, true)
	w.passed(p)
	return true
}

func (w *c12World) entries() map[c12Ent]int {
	return c12WheelEntries(w.wheel(), w.ctl.Units)
}

func (w *c12World) grant(gs ...*c12sched.G) {
	before := w.lastEntries
	for _, g := range gs {
		if p := w.pt(g); p != nil {
			w.passed(p)
		}
	}
	if !w.ctl.Grant(gs...) {
		var where []string
		for _, g := range gs {
			where = append(where, g.Name+"@"+g.Label)
		}
		w.hang = strings.Join(where, "+")
		return
	}
	w.lastEntries = w.entries()
	for e, n := range w.lastEntries {
		if n > before[e] {
			w.pushedE[e] += n - before[e]
		}
	}
	for i, g := range w.thr {
		if !g.Finished && w.pc(g) == "discard" && !w.boomG[i] {
			w.discardSeen = true // a panic nobody scripted: the queue's own
		}
	}
	if w.clo != nil && w.clo.Finished && !w.closeReturned {
		w.closeReturned = true
		// Close returns only after every in-flight attempt has finished (nothing of the old process
		// touches the spool once the restart may begin), and the scheduler goroutine is gone
		for i, g := range w.thr {
			if w.kind[i] == "a" && !g.Finished && w.boomG[i] && w.pc(g) == "discard" {
				// the attempt is over (semaphore released, deliveryWg.Done); what is left is the quarantine of
				// the message whose delivery panicked: the code calls discardBroken after Done
				// (Lean: C12_quarantine_may_follow_close); the rename itself is checked after the drain
				w.quarLate++
				continue
			}
			if w.kind[i] == "a" && !g.Finished {
				w.lateAttempts = append(w.lateAttempts, fmt.Sprintf("attempt goroutine %d (message %d) still at %s", i, w.msgOf[i], w.pc(g)))
			}
		}
		if w.tick != nil && !w.tick.Finished {
			w.tickAlive = w.pc(w.tick)
		}
		// … nothing an attempt left behind is still at work, and what is gone from the spool has its terminal outcome
		for i, g := range w.extra {
			if fin, _ := g.Result(); !fin {
				w.lateWork = append(w.lateWork, fmt.Sprintf("goroutine %q started by %s is still running (at %s)", g.Name, w.extraBy[i], c12Base(g.Label)))
			}
		}
		w.lostAtClose = w.outcomeLost()
	}
}

// outcomeLost: the messages that are gone from the spool (nothing for a restart to pick up) although their terminal
// outcome is recorded nowhere: not accepted by the next hop, and the failure report that is due (non-null return
// path, bounce pipeline configured) has not been answered by the bounce pipeline.
func (w *c12World) outcomeLost() []string {
	var lost []string
	sp := c12ReadSpool(w.dir, len(w.scn.times))
	for i, s := range sp {
		if s.meta || s.broken || s.header || s.body {
			continue
		}
		if _, err := os.Stat(filepath.Join(w.dir, c12MsgID(i)+".meta_hidden")); err == nil {
			continue
		}
		w.tgt.mu.Lock()
		acc, tried := w.tgt.accepted[c12MsgID(i)], w.tgt.attempts[c12MsgID(i)]
		w.tgt.mu.Unlock()
		w.dsn.mu.Lock()
		ans := w.dsn.answered[i]
		w.dsn.mu.Unlock()
		if tried == 0 || acc > 0 || ans > 0 || c12ReturnPath(i) == "" {
			continue
		}
		lost = append(lost, fmt.Sprintf("message %d (attempts %d, every one failed) is gone from the spool and its failure report has not been taken by the bounce pipeline", i, tried))
	}
	return lost
}

type c12Tok struct {
	kind string // t tp c k kb kt ku ks a
	i    int
	c    int
}

func c12ParseTok(s string) (c12Tok, bool) {
	switch {
	case s == "c" || s == "k" || s == "kt" || s == "ks":
		return c12Tok{kind: s}, true
	case strings.HasPrefix(s, "ku"):
		v, err := strconv.Atoi(s[2:])
		return c12Tok{kind: "ku", i: v}, err == nil
	case strings.HasPrefix(s, "kb"):
		v, err := strconv.Atoi(s[2:])
		return c12Tok{kind: "kb", c: v}, err == nil && v >= 1 && v <= 3
	case strings.HasPrefix(s, "a"):
		v, err := strconv.Atoi(s[1:])
		return c12Tok{kind: "a", c: v}, err == nil
	case strings.HasPrefix(s, "tp"):
		f := strings.Split(s[2:], ".")
		if len(f) != 2 {
			return c12Tok{}, false
		}
		i, e1 := strconv.Atoi(f[0])
		c, e2 := strconv.Atoi(f[1])
		return c12Tok{kind: "tp", i: i, c: c}, e1 == nil && e2 == nil && i >= 0 && c >= 0 && c < 20
	case strings.HasPrefix(s, "t"):
		f := strings.Split(s[1:], ".")
		if len(f) != 2 {
			return c12Tok{}, false
		}
		i, e1 := strconv.Atoi(f[0])
		c, e2 := strconv.Atoi(f[1])
		return c12Tok{kind: "t", i: i, c: c}, e1 == nil && e2 == nil
	}
	return c12Tok{}, false
}

func (t c12Tok) String() string {
	switch t.kind {
	case "ku":
		return "ku" + strconv.Itoa(t.i)
	case "kb":
		return "kb" + strconv.Itoa(t.c)
	case "a":
		return "a" + strconv.Itoa(t.c)
	case "t":
		return fmt.Sprintf("t%d.%d", t.i, t.c)
	case "tp":
		return fmt.Sprintf("tp%d.%d", t.i, t.c)
	}
	return t.kind
}

// atDispatch: the tick goroutine is about to run Queue.dispatch's deliveryWg.Add + go for the entry
// the callback was just called with.
func (w *c12World) atDispatch() bool {
	p := w.pt(w.tick)
	return p != nil && p.kind == "wgadd" && strings.HasPrefix(p.fn, "Queue.dispatch") && len(w.disp) > w.dispDone
}

// can: is the step enabled?
func (w *c12World) can(t c12Tok) bool {
	if w.hang != "" {
		return false
	}
	switch t.kind {
	case "a":
		return true
	case "t":
		if t.i < 0 || t.i >= len(w.thr) {
			return false
		}
		return w.solo(w.pt(w.thr[t.i]))
	case "tp":
		// the attempt is inside the delivery (parked in the scripted target's Start): the target can panic
		if t.i < 0 || t.i >= len(w.thr) || t.c < 0 || t.c >= 20 {
			return false
		}
		g := w.thr[t.i]
		return !g.Finished && c12Base(g.Label) == "c12target/deliver"
	case "c":
		return w.solo(w.pt(w.clo))
	case "k":
		p := w.pt(w.tick)
		return w.solo(p) || (p != nil && p.kind == "send" && w.meet(p, w.pt(w.clo)))
	case "kb":
		// the environment can make the spool entry unopenable only when the entry does not carry the message
		return t.c >= 1 && t.c <= 3 && w.atDispatch() && !w.disp[len(w.disp)-1].mem && w.solo(w.pt(w.tick))
	case "kt":
		p := w.pt(w.tick)
		if p == nil || w.solo(p) { // with another alternative ready the runtime would choose
			return false
		}
		for _, a := range p.alts {
			if w.isTimerAlt(a) {
				tm := w.ctl.LiveTimer()
				return tm != nil && tm.Deadline <= w.ctl.VNow()
			}
		}
		return false
	case "ku":
		if t.i < 0 || t.i >= len(w.thr) {
			return false
		}
		return w.meet(w.pt(w.thr[t.i]), w.pt(w.tick))
	case "ks":
		return w.meet(w.pt(w.clo), w.pt(w.tick))
	}
	return false
}

// hide makes the spool entry of message m unopenable (kind 1: meta-data file missing, 2: meta-data
// undecodable, 3: header undecodable — none of them makes openMessage remove anything) and returns
// the function that restores it.
func (w *c12World) hide(m int, kind int) func() {
	id := c12MsgID(m)
	var restore func()
	switch kind {
	case 1:
		from, to := filepath.Join(w.dir, id+".meta"), filepath.Join(w.dir, id+".meta_hidden")
		if os.Rename(from, to) != nil {
			return func() {}
		}
		restore = func() { os.Rename(to, from) }
	default:
		path := filepath.Join(w.dir, id+".meta")
		garbage := []byte("{\"MsgMeta\": [")
		if kind == 3 {
			path = filepath.Join(w.dir, id+".header")
			garbage = []byte("this is not a header field\r\n\r\n")
		}
		orig, err := os.ReadFile(path)
		if err != nil || os.WriteFile(path, garbage, 0o600) != nil {
			return func() {}
		}
		restore = func() { os.WriteFile(path, orig, 0o600) }
	}
	done := false
	r := func() {
		if !done {
			done = true
			restore()
		}
	}
	w.hidden = append(w.hidden, r)
	return r
}

func (w *c12World) restoreAll() {
	for _, r := range w.hidden {
		r()
	}
	w.hidden = nil
	w.bad = map[int]func(){}
}

func (w *c12World) do(t c12Tok) {
	switch t.kind {
	case "a":
		w.ctl.Advance(int64(t.c))
	case "t":
		g := w.thr[t.i]
		switch w.pc(g) {
		case "deliver":
			id := c12MsgID(w.msgOf[t.i])
			w.tgt.mu.Lock()
			if t.c == 0 {
				w.tgt.decision[id] = 0
			} else {
				w.tgt.decision[id] = 1
			}
			w.tgt.mu.Unlock()
			if t.c > 0 {
				w.q.initialRetryTime = time.Duration(t.c-1) * c12sched.Unit
			}
			w.grant(g)
			if w.pc(g) == "release" || g.Finished {
				w.terminal[w.msgOf[t.i]] = true
				if t.c == 0 {
					w.out.Stat("sched.deliver.final-outcome")
				} else {
					w.out.Stat("sched.deliver.max-tries-reached")
				}
			} else {
				w.out.Stat("sched.deliver.retry")
			}
		case "check":
			w.grant(g)
			if w.pc(g) == "lock" {
				w.out.Stat("sched.add.stopped-check-passed")
			} else {
				w.out.Stat("sched.add.dropped-after-stop")
			}
		case "send":
			w.grant(g)
			w.out.Stat("sched.add.released-by-close")
		case "acquire":
			w.grant(g)
			if _, isBad := w.bad[t.i]; isBad {
				if w.pc(g) == "release" {
					w.out.Stat("sched.open-failed.attempt-ended-in-deferred-function")
				} else {
					w.out.Stat("sched.open-failed.attempt-at-" + w.pc(g))
				}
			}
		default:
			w.grant(g)
		}
		// the window in which the entry could not be opened ends with the attempt's first step
		if r, ok := w.bad[t.i]; ok {
			r()
			delete(w.bad, t.i)
		}
	case "tp":
		g := w.thr[t.i]
		if t.c >= 16 && c12ReturnPath(w.msgOf[t.i]) == "" {
			t.c %= 16 // no failure report is due for this message: the next hop itself panics
		}
		w.tgt.mu.Lock()
		if t.c >= 16 {
			// the next hop rejects the message for good and the bounce pipeline panics while it takes the failure
			// report (kind of panic value n-16): still inside the attempt, still a panic of code the queue calls
			id := c12MsgID(w.msgOf[t.i])
			w.tgt.decision[id] = 0
			w.tgt.rejectNx[id] = true
			w.tgt.panicked[id]++
			w.dsn.mu.Lock()
			w.dsn.panicFor[w.msgOf[t.i]] = t.c - 16
			w.dsn.mu.Unlock()
			w.out.Stat("target.panic-in-bounce-pipeline")
			w.out.Stat("target.panic-value-" + c12PanicKindName[t.c-16])
		} else {
			w.tgt.panicAt[c12MsgID(w.msgOf[t.i])] = t.c
		}
		w.tgt.mu.Unlock()
		w.boomG[t.i] = true
		w.boomMsg[w.msgOf[t.i]] = true
		w.out.Stat("sched.target-panic.close-at-" + w.pc(w.clo))
		w.out.Stat(fmt.Sprintf("sched.target-panic.other-attempts-in-flight.%d", w.wgReal()-1))
		w.grant(g)
		w.out.Stat("sched.target-panic.then-at-" + w.pc(g))
	case "c":
		w.grant(w.clo)
	case "k", "kb":
		if w.atDispatch() {
			// the model's dispatch step is deliveryWg.Add + go: stamp the callback with the clock of this step
			n := len(w.disp)
			w.disp[n-1].now = w.ctl.VNow()
			w.disp[n-1].afterEnd = w.closeReturned
			w.dispDone = n
			var restore func()
			if t.kind == "kb" {
				restore = w.hide(w.disp[n-1].msg, t.c)
				w.out.Stat(fmt.Sprintf("sched.open-failed.kind-%d", t.c))
			}
			nthr := len(w.thr)
			w.grant(w.tick)
			if restore != nil {
				if len(w.thr) > nthr && !w.thr[nthr].Finished {
					w.bad[nthr] = restore
				} else {
					restore() // no goroutine, or it is gone already
				}
			}
			return
		}
		if p := w.pt(w.tick); w.solo(p) {
			w.grant(w.tick)
		} else {
			w.grant(w.tick, w.clo) // the acknowledgement of the stop request
		}
	case "kt":
		w.ctl.LiveTimer().Fire()
		w.grant(w.tick)
	case "ku":
		before := w.pc(w.tick)
		w.grant(w.thr[t.i], w.tick)
		w.out.Stat("sched.update." + before + "->" + w.pc(w.tick))
	case "ks":
		w.grant(w.clo, w.tick)
	}
}

func (w *c12World) stopped() string {
	if tw := w.wheel(); tw != nil {
		v := reflect.ValueOf(tw).Elem()
		for i := 0; i < v.NumField(); i++ {
			if strings.Contains(strings.ToLower(v.Type().Field(i).Name), "stop") && v.Field(i).Kind() != reflect.Chan {
				if b, ok := c12Flag(v.Field(i)); ok {
					if b {
						return "1"
					}
					return "0"
				}
			}
		}
	}
	return "?"
}

func (w *c12World) observe(bits string) string {
	if w.hang != "" {
		return "HANG " + w.hang + " en=" + bits
	}
	join := func(l []string) string {
		if len(l) == 0 {
			return "-"
		}
		return strings.Join(l, ",")
	}
	var thr []string
	for i, g := range w.thr {
		thr = append(thr, w.kind[i]+":"+w.pc(g))
	}
	// the collection is only looked at while nobody is inside a critical section (the code does the
	// operation right after Lock, the model right before Unlock: same thing for every observer); as a
	// multiset, sorted: the real collection may be a list, a heap, a map …
	var slots []string
	if !w.mutexFree() {
		slots = []string{"locked"}
	} else {
		var es []c12Ent
		for e, n := range w.entries() {
			for ; n > 0; n-- {
				es = append(es, e)
			}
		}
		sort.Slice(es, func(i, j int) bool {
			if es[i].msg != es[j].msg {
				return es[i].msg < es[j].msg
			}
			return es[i].time < es[j].time
		})
		for _, e := range es {
			slots = append(slots, e.String())
		}
	}
	var disp []string
	for _, d := range w.disp[:w.dispDone] { // the callback runs at the end of the step before the model's dispatch step
		disp = append(disp, fmt.Sprintf("%d@%d/%d", d.msg, d.time, d.now))
	}
	sp := c12ReadSpool(w.dir, len(w.scn.times))
	var broken, removed []string
	for i, s := range sp {
		if s.broken {
			broken = append(broken, strconv.Itoa(i))
		}
		if !s.meta && !s.broken {
			removed = append(removed, strconv.Itoa(i))
		}
	}
	clo := "-"
	if w.clo != nil {
		clo = w.pc(w.clo)
	}
	if bits == "" {
		bits = "-"
	}
	tick := w.pc(w.tick)
	if tick == "done" {
		tick = "exited"
	}
	return fmt.Sprintf("en=%s now=%d stopped=%s tick=%s closer=%s thr=%s slots=%s disp=%s broken=%s removed=%s wg=%d sem=%d crashed=0",
		bits, w.ctl.VNow(), w.stopped(), tick, clo, join(thr), join(slots), join(disp),
		join(broken), join(removed), w.wgReal(), len(w.q.deliverySemaphore))
}

func c12ParseScn(toks []string) (c12Scn, []c12Tok, bool) {
	// C12 run <u|f> <cap> <withClose> <prods> <sched>
	var s c12Scn
	if len(toks) != 7 || toks[1] != "run" {
		return s, nil, false
	}
	s.variant = toks[2]
	s.cap, _ = strconv.Atoi(toks[3])
	s.withClose = toks[4] == "1"
	s.budget = -1
	if toks[5] != "-" {
		for _, p := range strings.Split(toks[5], ",") {
			f := strings.Split(p, ":")
			if len(f) != 2 {
				return s, nil, false
			}
			t, _ := strconv.Atoi(f[0])
			b, _ := strconv.Atoi(f[1])
			if s.budget >= 0 && b != s.budget {
				return s, nil, false // one max_tries per queue
			}
			s.budget = b
			s.times = append(s.times, t)
		}
	}
	if s.budget < 0 {
		s.budget = 0
	}
	var sched []c12Tok
	if toks[6] != "-" {
		for _, x := range strings.Split(toks[6], ",") {
			t, ok := c12ParseTok(x)
			if !ok {
				return s, nil, false
			}
			sched = append(sched, t)
		}
	}
	return s, sched, true
}

func (s c12Scn) opPrefix() string {
	var ps []string
	for _, t := range s.times {
		ps = append(ps, fmt.Sprintf("%d:%d", t, s.budget))
	}
	p := "-"
	if len(ps) > 0 {
		p = strings.Join(ps, ",")
	}
	wc := "0"
	if s.withClose {
		wc = "1"
	}
	return fmt.Sprintf("C12 run %s %d %s %s", s.variant, s.cap, wc, p)
}

func c12Setup(out *vh.Out, scn c12Scn) *c12World {
	w := &c12World{out: out, scn: scn, pushedE: map[c12Ent]int{}, terminal: map[int]bool{}, closed: map[uintptr]bool{}, bad: map[int]func(){}, resolved: map[string]reflect.Value{},
		boomG: map[int]bool{}, boomMsg: map[int]bool{}}
	w.dir = c12TempDir()
	w.ctl = c12sched.NewControlled()
	w.ctl.Auto = w.auto
	w.ctl.Timeout = 20 * time.Second
	w.tgt = c12NewTarget()
	w.tgt.yield = true
	w.tgt.stat = out.Stat
	w.q = c12NewQueue(w.dir, w.tgt, scn.budget+1)
	w.dsn = c12NewDsn()
	w.dsn.park = true
	w.dsn.stat = out.Stat
	w.q.dsnPipeline = w.dsn
	var spawnMu sync.Mutex
	w.ctl.OnSpawn = func(parent, child *c12sched.G) {
		if parent == nil {
			return
		}
		spawnMu.Lock()
		defer spawnMu.Unlock()
		switch {
		case strings.HasPrefix(child.Name, "NewTimeWheel/go"):
			w.tick = child
		case strings.HasPrefix(child.Name, "Queue.dispatch") && parent.Tag == nil:
			child.Tag = "attempt"
			w.thr = append(w.thr, child)
			w.kind = append(w.kind, "a")
			msg := -1
			if len(w.disp) > 0 {
				msg = w.disp[len(w.disp)-1].msg
			}
			w.msgOf = append(w.msgOf, msg)
		default:
			// work an attempt (or anybody else) leaves behind: it is scheduled last ("slow"), see c12Dsn
			child.Tag = "background"
			w.extra = append(w.extra, child)
			w.extraBy = append(w.extraBy, parent.Name)
		}
	}
	if _, ok := w.ctl.Spawn("start", func() {
		if err := w.q.start(scn.cap); err != nil {
			panic(err)
		}
	}); !ok || w.tick == nil {
		w.hang = "start"
		return w
	}
	// record dispatch callbacks (entry, its time, clock)
	c12WrapDispatch(w.q.wheel, func(inner func(TimeSlot)) func(TimeSlot) {
		return func(s TimeSlot) {
			qs, _ := s.Value.(queueSlot)
			w.disp = append(w.disp, c12Disp{msg: c12MsgIdx(qs.ID), time: w.ctl.Units(s.Time), now: w.ctl.VNow(), afterEnd: w.closeReturned, mem: qs.Meta != nil})
			inner(s)
		}
	})
	for i, t := range scn.times {
		i, t := i, t
		var fn func()
		if t == 0 {
			fn = func() { // SMTP path: spool, then Commit → wheel.Add(time.Time{}, …)
				d := c12Spool(w.q, i)
				if err := d.Commit(context.Background()); err != nil {
					panic(err)
				}
			}
		} else {
			fn = func() { // restart path (readDiskQueue): the entry is on disk, Add with its next try time
				c12Spool(w.q, i)
				w.q.wheel.Add(w.ctl.At(int64(t)), queueSlot{ID: c12MsgID(i)})
			}
		}
		g, ok := w.ctl.Spawn("producer"+strconv.Itoa(i), fn)
		if !ok {
			w.hang = "producer-start"
			return w
		}
		w.thr = append(w.thr, g)
		w.kind = append(w.kind, "p")
		w.msgOf = append(w.msgOf, i)
	}
	if scn.withClose {
		g, ok := w.ctl.Spawn("closer", func() { w.q.Close() })
		if !ok {
			w.hang = "closer-start"
			return w
		}
		w.clo = g
	}
	return w
}

// lazyTick: the scheduler goroutine is seldom given the processor in this scenario (producers and
// attempts run in bursts between two of its steps).
func (w *c12World) candidates(r *vh.Rng, lazyTick bool) []c12Tok {
	var c []c12Tok
	for i := range w.thr {
		ch := 0
		if w.pc(w.thr[i]) == "deliver" && r.Chance(55) {
			ch = 2 + r.Intn(6)
		}
		c = append(c, c12Tok{kind: "t", i: i, c: ch})
		c = append(c, c12Tok{kind: "ku", i: i})
		// the delivery panics (any stage of the dialogue, any kind of panic value); now and then offered
		// to a goroutine that is not inside a delivery (not enabled)
		if (w.pc(w.thr[i]) == "deliver" && r.Chance(14)) || r.Chance(1) {
			c = append(c, c12Tok{kind: "tp", i: i, c: r.Intn(20)})
		}
	}
	if r.Chance(5) {
		c = append(c, c12Tok{kind: "t", i: len(w.thr) + r.Intn(2)}, c12Tok{kind: "ku", i: len(w.thr)})
	}
	c = append(c, c12Tok{kind: "c"}, c12Tok{kind: "ks"})
	if !lazyTick {
		c = append(c, c12Tok{kind: "k"}, c12Tok{kind: "k"}, c12Tok{kind: "kt"})
	}
	if w.atDispatch() && !lazyTick {
		// the message of the entry being handed over cannot be opened (entries that carry their message
		// included, now and then: the choice is not enabled for them)
		if !w.disp[len(w.disp)-1].mem && r.Chance(60) {
			kb := c12Tok{kind: "kb", c: 1 + r.Intn(3)}
			c = append(c, kb, kb, kb)
		} else if r.Chance(10) {
			c = append(c, c12Tok{kind: "kb", c: 1 + r.Intn(3)})
		}
	} else if r.Chance(3) {
		c = append(c, c12Tok{kind: "kb", c: 1 + r.Intn(3)})
	}
	if r.Chance(12) {
		c = append(c, c12Tok{kind: "a", c: 1 + r.Intn(4)})
	}
	return c
}

// c12RunControlled runs one scenario.  sched == nil: the schedule is generated on the fly.
func c12RunControlled(out *vh.Out, scn c12Scn, sched []c12Tok, r *vh.Rng, steps int, closeAfter int, closeInflight int) {
	w := c12Setup(out, scn)
	defer os.RemoveAll(w.dir)
	defer w.ctl.Abandon()
	var bits strings.Builder
	var done []string
	var pcs map[*c12sched.G]string
	pcBefore := func(g *c12sched.G) string { return pcs[g] }
	exec := func(t c12Tok) bool {
		pcs = map[*c12sched.G]string{w.tick: w.pc(w.tick), w.clo: w.pc(w.clo)}
		for _, g := range w.thr {
			pcs[g] = w.pc(g)
		}
		en := w.can(t)
		if t.kind == "a" {
			w.checkTimely() // before time passes
		}
		if en {
			w.do(t)
			bits.WriteByte('1')
		} else {
			bits.WriteByte('0')
		}
		done = append(done, t.String())
		what := t.kind
		switch t.kind {
		case "t", "tp":
			if t.i < len(w.thr) {
				what = t.kind + "." + pcBefore(w.thr[t.i])
			} else {
				what = t.kind + ".no-such-goroutine"
			}
		case "k", "kb":
			what = t.kind + "." + pcBefore(w.tick)
		case "c":
			what = "c." + pcBefore(w.clo)
		}
		out.Stat("tok." + what + map[bool]string{true: ".enabled", false: ".blocked"}[en])
		return en
	}
	inflightAtStop := -1
	if sched != nil {
		for _, t := range sched {
			wasSet := w.pc(w.clo) == "setStopped"
			exec(t)
			if wasSet && w.pc(w.clo) != "setStopped" {
				inflightAtStop = w.wgReal()
			}
		}
	} else {
		lazy := r.Chance(35)
		for n := 0; n < steps && w.hang == ""; n++ {
			lazyNow := lazy && !r.Chance(20)
			cands := w.candidates(r, lazyNow)
			var t c12Tok
			if r.Chance(88) {
				var en []c12Tok
				for pass := 0; pass < 2 && len(en) == 0; pass++ {
					if pass == 1 {
						if !lazyNow {
							break
						}
						cands = w.candidates(r, false) // nobody else can move
					}
					for _, c := range cands {
						if c.kind == "c" && w.pc(w.clo) == "setStopped" && (n < closeAfter || (w.wgReal() < closeInflight && n < steps-25)) {
							continue
						}
						if w.can(c) {
							en = append(en, c)
						}
					}
				}
				if len(en) == 0 {
					// quiescent: only the clock can enable something (a pending timer), else stop here
					tm := w.ctl.LiveTimer()
					if w.pc(w.clo) == "setStopped" && (r.Chance(50) || w.pc(w.tick) != "waitTimer") {
						t = c12Tok{kind: "c"} // held back so far
					} else if w.pc(w.tick) != "waitTimer" || tm == nil || tm.Deadline <= w.ctl.VNow() {
						break
					} else {
						t = c12Tok{kind: "a", c: int(tm.Deadline-w.ctl.VNow()) - r.Intn(2)}
					}
				} else {
					t = en[r.Intn(len(en))]
				}
			} else {
				t = cands[r.Intn(len(cands))]
				if t.kind == "c" && w.pc(w.clo) == "setStopped" && (n < closeAfter || (w.wgReal() < closeInflight && n < steps-25)) {
					t = c12Tok{kind: "k"}
				}
			}
			wasSet := w.pc(w.clo) == "setStopped"
			exec(t)
			if wasSet && w.pc(w.clo) != "setStopped" {
				inflightAtStop = w.wgReal()
			}
		}
	}
	s := "-"
	if len(done) > 0 {
		s = strings.Join(done, ",")
	}
	op := scn.opPrefix() + " " + s
	out.Corr(op, w.observe(bits.String()))
	if w.hang != "" {
		w.restoreAll()
		atomic.AddInt32(&c12SchedHangs, 1)
		out.Violation("C12/hang", op, "goroutine did not reach its next synchronisation point: "+w.hang)
		return
	}
	out.Stat(fmt.Sprintf("sched.producers.%d", len(scn.times)))
	if inflightAtStop >= 0 {
		out.Stat(fmt.Sprintf("sched.inflight-at-stop.%d", inflightAtStop))
	}
	out.Stat("sched.tick-at-end." + w.pc(w.tick))
	if w.clo != nil {
		out.Stat("sched.closer-at-end." + w.pc(w.clo))
	}
	for _, g := range w.thr {
		out.Stat("sched.thr-at-end." + w.pc(g))
	}

	// ---- monitor part 1: drain.  Everything that can move is moved (attempts end with a final
	// outcome, the clock is advanced when only a timer is pending) until nothing is enabled.
	for n := 0; n < 5000 && w.hang == ""; n++ {
		var t *c12Tok
		try := func(c c12Tok) bool {
			if t == nil && w.can(c) {
				t = &c
				return true
			}
			return false
		}
		try(c12Tok{kind: "c"})
		try(c12Tok{kind: "ks"})
		try(c12Tok{kind: "k"})
		for i := range w.thr {
			try(c12Tok{kind: "ku", i: i})
			try(c12Tok{kind: "t", i: i, c: 0})
		}
		try(c12Tok{kind: "kt"})
		if t == nil {
			if tm := w.ctl.LiveTimer(); tm != nil && tm.Deadline > w.ctl.VNow() && !w.tick.Finished {
				w.checkTimely()
				w.ctl.Advance(tm.Deadline - w.ctl.VNow())
				if w.can(c12Tok{kind: "kt"}) {
					continue
				}
			}
			// the slow background work, when nothing else is left
			moved := false
			for _, g := range w.extra {
				if fin, _ := g.Result(); fin || g.Label == "" {
					continue
				}
				if strings.HasPrefix(g.Label, "c12dsn/") || strings.HasPrefix(g.Label, "c12target/") || w.solo(w.pt(g)) {
					w.grant(g)
					moved = true
					break
				}
			}
			if moved {
				continue
			}
			break
		}
		w.do(*t)
	}
	w.restoreAll()
	if w.hang != "" {
		atomic.AddInt32(&c12SchedHangs, 1)
		out.Violation("C12/hang", op, "while draining: "+w.hang)
		return
	}
	c12Monitor(w, op)
}

// c12Monitor: the property itself on the real execution (after the drain).
func c12Monitor(w *c12World, op string) {
	out := w.out
	// shutdown terminates; nobody is left blocked
	if w.clo != nil && !w.clo.Finished {
		out.Violation("C12/close-hang", op, fmt.Sprintf("Queue.Close blocked at %s with nothing left to run; tick at %s; deliveryWg counter %d", w.pc(w.clo), w.pc(w.tick), w.wgReal()))
	}
	alive := 0
	for i, g := range w.thr {
		if !g.Finished {
			alive++
			out.Violation("C12/goroutine-stuck", op, fmt.Sprintf("goroutine %d (%s) blocked forever at %s", i, w.kind[i], w.pc(g)))
		}
		if g.Panic != nil && w.boomG[i] {
			// the harness's own recover at the top of the goroutine caught it: in the real process nothing would have
			out.Violation("C12/panic-not-contained", op, fmt.Sprintf("the delivery attempt of message %d panicked (%v) and the panic left the dispatch goroutine: the process would have crashed (shutdown does not terminate, the other messages are not delivered) instead of the message being set aside", w.msgOf[i], g.Panic))
		} else if g.Panic != nil {
			out.Violation("C12/panic", op, fmt.Sprintf("goroutine %d (%s) panicked: %v", i, w.kind[i], g.Panic))
		}
	}
	if w.quarLate > 0 {
		out.Stat("sched.target-panic.quarantine-pending-when-close-returned")
	}
	if w.clo != nil && w.clo.Panic != nil {
		out.Violation("C12/panic", op, fmt.Sprintf("Close panicked: %v", w.clo.Panic))
	}
	if w.tick.Panic != nil {
		out.Violation("C12/panic", op, fmt.Sprintf("tick goroutine panicked: %v", w.tick.Panic))
	}
	if w.discardSeen {
		out.Violation("C12/panic", op, "a panic was recovered in the dispatch goroutine (discardBroken entered)")
	}
	if w.late != "" {
		out.Violation("C12/late-dispatch", op, w.late)
	}
	if w.tickAlive != "" {
		out.Violation("C12/scheduler-alive-after-close", op, "Queue.Close returned while the tick goroutine was still running (at "+w.tickAlive+"): it goes on dispatching")
	}
	// every dispatch ends with deliveryWg.Done and the semaphore released, whatever happened to it
	if alive == 0 {
		if n := w.wgReal(); n != 0 {
			out.Violation("C12/waitgroup-leak", op, fmt.Sprintf("every dispatch goroutine has ended but the deliveryWg counter is %d: Queue.Close blocks for ever", n))
		}
		if n := len(w.q.deliverySemaphore); n != 0 {
			out.Violation("C12/semaphore-leak", op, fmt.Sprintf("every dispatch goroutine has ended but %d delivery slots are still taken", n))
		}
	}
	// dispatch once, not early, not after Close returned: per entry …
	left := w.entries()
	dispE := map[c12Ent]int{}
	nd := map[int]int{}
	pushes := map[int]int{}
	for _, d := range w.disp {
		nd[d.msg]++
		dispE[c12Ent{d.msg, d.time}]++
		if d.time > d.now {
			out.Violation("C12/early-dispatch", op, fmt.Sprintf("message %d scheduled for %d dispatched at %d", d.msg, d.time, d.now))
		}
		if d.afterEnd {
			out.Violation("C12/dispatch-after-close", op, fmt.Sprintf("message %d dispatched after Close returned", d.msg))
		}
	}
	for e, n := range w.pushedE {
		pushes[e.msg] += n
	}
	var ents []c12Ent
	for e := range w.pushedE {
		ents = append(ents, e)
	}
	for e := range dispE {
		if w.pushedE[e] == 0 {
			ents = append(ents, e)
		}
	}
	sort.Slice(ents, func(i, j int) bool {
		if ents[i].msg != ents[j].msg {
			return ents[i].msg < ents[j].msg
		}
		return ents[i].time < ents[j].time
	})
	for _, e := range ents {
		p, d, l := w.pushedE[e], dispE[e], left[e]
		switch {
		case p == 0:
			out.Violation("C12/dispatched-not-added", op, fmt.Sprintf("entry %s was dispatched %d times but never put into the wheel", e, d))
		case d > p:
			out.Violation("C12/dispatched-twice", op, fmt.Sprintf("entry %s: put into the wheel %d times, dispatched %d times", e, p, d))
		case d+l < p:
			out.Violation("C12/never-dispatched", op, fmt.Sprintf("entry %s: put into the wheel %d times, dispatched %d times, %d still in the wheel: it was taken out without being dispatched", e, p, d, l))
		case w.clo == nil && l > 0:
			out.Violation("C12/never-dispatched", op, fmt.Sprintf("entry %s is still in the wheel and nothing is left to run (no shutdown)", e))
		}
	}
	// … and per message
	for m, n := range nd {
		if n > pushes[m] {
			out.Violation("C12/duplicate-dispatch", op, fmt.Sprintf("message %d: %d entries added, %d dispatches", m, pushes[m], n))
		}
	}
	if w.clo == nil {
		for m, n := range pushes {
			if nd[m] != n {
				out.Violation("C12/missing-dispatch", op, fmt.Sprintf("message %d: %d entries added, %d dispatches, nothing left to run", m, n, nd[m]))
			}
		}
	}
	for _, v := range w.tgt.viol {
		out.Violation("C12/concurrent-attempts", op, v)
	}
	for _, v := range w.lateAttempts {
		out.Violation("C12/attempt-running-after-close", op, "Queue.Close returned but "+v)
	}
	for _, v := range w.lateWork {
		out.Violation("C12/work-running-after-close", op, "Queue.Close returned but "+v+": a process that exits now loses it, nobody waits for it")
	}
	for _, v := range w.lostAtClose {
		out.Violation("C12/outcome-lost-at-close", op, "when Queue.Close returned "+v+": removed without its terminal outcome, nothing is left for the restart")
	}
	if w.clo == nil || !w.closeReturned {
		for _, v := range w.outcomeLost() {
			out.Violation("C12/outcome-lost", op, "nothing is left to run and "+v)
		}
	}
	for i, g := range w.extra {
		fin, pv := g.Result()
		if !fin {
			out.Violation("C12/goroutine-stuck", op, fmt.Sprintf("goroutine %q started by %s blocked forever at %s", g.Name, w.extraBy[i], c12Base(g.Label)))
		} else if pv != nil {
			out.Violation("C12/panic-not-contained", op, fmt.Sprintf("goroutine %q started by %s panicked (%v): the process would have crashed", g.Name, w.extraBy[i], pv))
		}
	}
	w.dsn.mu.Lock()
	for i, n := range w.dsn.answered {
		out.Stat(fmt.Sprintf("dsn.reports-per-message.%d", n))
		if n > 1 {
			out.Violation("C12/failure-report-twice", op, fmt.Sprintf("message %d: %d failure reports were handed to the bounce pipeline", i, n))
		}
		w.tgt.mu.Lock()
		acc := w.tgt.accepted[c12MsgID(i)]
		w.tgt.mu.Unlock()
		if acc > 0 {
			out.Violation("C12/failure-report-twice", op, fmt.Sprintf("message %d was accepted by the next hop and a failure report was sent too", i))
		}
	}
	w.dsn.mu.Unlock()
	if len(w.extra) > 0 {
		out.Stat("sched.background-goroutines")
	}
	// spool after shutdown / quiescence
	sp := c12ReadSpool(w.dir, len(w.scn.times))
	for i, s := range sp {
		w.tgt.mu.Lock()
		boomed := w.tgt.panicked[c12MsgID(i)] > 0
		w.tgt.mu.Unlock()
		if s.broken && boomed {
			out.Stat("sched.target-panic.quarantined")
			if !(s.header && s.body) || s.meta {
				out.Violation("C12/removed-without-outcome", op, fmt.Sprintf("message %d was quarantined after its delivery panicked but its spool entry is not intact (meta=%v header=%v body=%v)", i, s.meta, s.header, s.body))
			}
			continue
		}
		if s.broken {
			out.Violation("C12/meta-broken", op, fmt.Sprintf("message %d was renamed to .meta_broken: a restart does not pick it up", i))
			continue
		}
		if boomed {
			out.Violation("C12/panic-not-quarantined", op, fmt.Sprintf("the delivery of message %d panicked and nothing is left to run, but the message was not set aside (.meta_broken): it is dispatched and panics again after every restart", i))
			continue
		}
		if w.terminal[i] {
			if s.meta || s.header || s.body {
				out.Violation("C12/terminal-not-removed", op, fmt.Sprintf("message %d had its terminal outcome but is still spooled", i))
			}
			continue
		}
		if !(s.meta && s.header && s.body) {
			out.Violation("C12/removed-without-outcome", op, fmt.Sprintf("message %d has no terminal outcome but its spool entry is incomplete (meta=%v header=%v body=%v)", i, s.meta, s.header, s.body))
			continue
		}
		if _, err := w.q.readMessageMeta(c12MsgID(i)); err != nil {
			out.Violation("C12/removed-without-outcome", op, fmt.Sprintf("message %d: meta-data unreadable after shutdown: %v", i, err))
		}
		out.Stat("sched.left-for-restart")
	}
	out.Stat(fmt.Sprintf("sched.dispatches.%d", len(w.disp)))
}

// The schedule of the property text: Add passes the stopped check, Close completes, Add sends.
// (1) inside the dispatch goroutine (retry): recovered panic → .meta_broken; (2) in a producer.
var c12Corpus = []string{
	"C12 run f 1 1 0:1 t0.0,t0.0,t0.0,k,k,k,k,ku0,kt,k,k,k,t1.0,t1.6,t1.0,c,k,k,k,ks,k,c,t1.0,t1.0,t1.0,t1.0,c,t1.0",
	"C12 run f 1 1 0:0 t0.0,c,k,k,k,ks,k,c,t0.0,t0.0,t0.0",
	"C12 run f 2 1 0:1,3:1 t0.0,t1.0,c,t0.0,t1.0,k,k,k,ks,t0.0,t1.0,k,c,c,t0.0,t1.0",
	"C12 run f 1 0 5:0,2:0 t0.0,t0.0,t0.0,k,k,k,k,ku0,t1.0,t1.0,t1.0,ku1,k,k,k,k,a2,kt,k,k,k,a3,k,k,k,k,kt",
	// an entry that has to be re-read from the spool is dispatched while its meta-data cannot be read; Close meanwhile
	"C12 run f 1 1 3:0 t0.0,t0.0,t0.0,k,k,k,k,ku0,a3,kt,k,k,kb1,c,k,k,k,ks,k,c,c,t1.0,c,t1.0,c",
	"C12 run f 1 0 0:1,4:1 t0.0,t0.0,t0.0,t1.0,t1.0,t1.0,k,k,k,k,ku0,ku1,kt,k,k,kb2,k,t2.0,t2.3,t2.0,t2.0,t2.0,k,k,k,k,ku2,t2.0,a4,kt,k,k,kb3,t3.0,t3.0,k,k,k,k,kt,k,k,kb2,t4.0,t4.0",
	// an earlier entry is added between the expiry of the timer and the removal of the entry the wheel slept for
	"C12 run f 2 0 5:0,2:0 t0.0,t0.0,t0.0,k,k,k,k,ku0,a5,kt,t1.0,t1.0,t1.0,k,k,k,ku1,k,k,k,k,kt,k,k,k,t2.0,t3.0",
	"C12 run f 2 1 5:0,2:0 t0.0,t0.0,t0.0,k,k,k,k,ku0,t1.0,t1.0,t1.0,a5,kt,k,k,k,ku1,k,k,k,k,kt,k,k,k,c,t2.0,t3.0",
	// the delivery of a message panics (in Commit, error value) while Close waits in deliveryWg.Wait() and another
	// producer has not yet called Add (Lean: panicSched); … at Start with a runtime error, no shutdown, a second
	// message due at the same time; … in Body (custom type) with the semaphore full and another message waiting for it
	"C12 run f 1 1 0:0,2:0 t0.0,t0.0,t0.0,k,k,k,k,ku0,kt,k,k,k,t2.0,c,k,k,k,ks,k,c,c,tp2.7,c,t2.0,c,t2.0",
	"C12 run f 2 0 0:0,0:0 t0.0,t0.0,t0.0,t1.0,t1.0,t1.0,k,k,k,k,ku0,ku1,kt,k,k,k,k,k,k,k,kt,k,k,k,t2.0,t3.0,tp2.8,t3.0,t2.0,t3.0,t2.0",
	"C12 run f 1 1 0:1,0:1 t0.0,t0.0,t0.0,t1.0,t1.0,t1.0,k,k,k,k,ku0,ku1,kt,k,k,k,k,k,k,k,kt,k,k,k,t2.0,t3.0,tp2.14,c,t2.0,t3.0,t2.0,t3.3",
}

func TestVerifC12Sched(t *testing.T) {
	out := vh.Open("c12sched")
	defer out.Close()
	dontRecover = false
	log.DefaultLogger.Out = log.NopOutput{}
	// which shutdown handshake the tree under test has (from the regenerated skeleton): the model
	// variant the executions are compared with
	variant := "f"
	if v := os.Getenv("VERIF_C12_VARIANT"); v == "u" {
		variant = "u"
	}
	runOp := func(op string) {
		scn, sched, ok := c12ParseScn(strings.Fields(op))
		if !ok {
			out.Note("unparsable op: " + op)
			return
		}
		c12RunControlled(out, scn, sched, nil, 0, 0, 0)
	}
	if ops := vh.Replay(); ops != nil {
		for _, op := range ops {
			if strings.HasPrefix(op, "C12 run") {
				runOp(op)
			}
		}
		return
	}
	for _, op := range c12Corpus {
		runOp(strings.Replace(op, "C12 run f ", "C12 run "+variant+" ", 1))
		out.Stat("sched.corpus")
	}
	n := vh.N(400)
	type job struct {
		scn        c12Scn
		seed       uint64
		steps      int
		closeAfter int
		inflight   int
	}
	jobs := make(chan job, 64)
	var wg sync.WaitGroup
	for k := 0; k < 12; k++ {
		wg.Add(1)
		go func() {
			defer wg.Done()
			for j := range jobs {
				if atomic.LoadInt32(&c12SchedHangs) >= c12MaxHangs {
					out.Stat("sched.skipped-after-hangs")
					continue
				}
				c12RunControlled(out, j.scn, nil, vh.NewRng(j.seed), j.steps, j.closeAfter, j.inflight)
			}
		}()
	}
	r := vh.NewRng(vh.Seed() + 1201)
	for i := 0; i < n; i++ {
		scn := c12Scn{variant: variant, cap: 1 + r.Intn(3), withClose: r.Chance(68), budget: r.Intn(3)}
		np := 1 + r.Intn(4)
		for p := 0; p < np; p++ {
			tm := 0
			if r.Chance(45) {
				tm = 1 + r.Intn(6)
			}
			scn.times = append(scn.times, tm)
		}
		steps := 15 + r.Intn(90)
		closeAfter := 0
		if r.Chance(70) {
			closeAfter = r.Intn(steps)
		}
		inflight := 0
		if r.Chance(60) {
			inflight = 1 + r.Intn(3)
			steps += 30
		}
		jobs <- job{scn, r.Next(), steps, closeAfter, inflight}
	}
	close(jobs)
	wg.Wait()
	var autos []string
	c12AutoSeen.Range(func(k, _ interface{}) bool { autos = append(autos, k.(string)); return true })
	sort.Strings(autos)
	out.Note("points passed without a scheduling decision: " + strings.Join(autos, " "))
}

// ---------------------------------------------------------------- free mode

// scenarios that ended in a 15 s (free mode) / 20 s (controlled mode) time-out so far: after a few
// of them the rest of the batch is skipped (the verdict is clear, a broken tree would take many minutes)
var c12FreeHangs, c12SchedHangs, c12FreeQuarMisses int32

const c12MaxHangs = 8

func c12RunFree(out *vh.Out, seed uint64) {
	op := fmt.Sprintf("C12 free %d", seed)
	r := vh.NewRng(seed)
	np := 1 + r.Intn(4)
	budget := r.Intn(4)
	capac := 1 + r.Intn(3)
	retry := time.Duration(200+r.Intn(2500)) * time.Microsecond
	nd := r.Intn(3) // delay bound 2
	var delays []int64
	for i := 0; i < nd; i++ {
		delays = append(delays, int64(1+r.Intn(25*np+20)))
	}
	ctl := c12sched.NewFree(r.Next(), []int{0, 10, 30, 60}[r.Intn(4)], delays, time.Duration(300+r.Intn(2500))*time.Microsecond)
	dir := c12TempDir()
	defer os.RemoveAll(dir)
	tgt := c12NewTarget()
	tgt.plan = map[string][]int{}
	for i := 0; i < np; i++ {
		var p []int
		for k := 0; k < 4; k++ {
			if r.Chance(55) {
				p = append(p, 1)
			} else {
				p = append(p, 0)
			}
		}
		tgt.plan[c12MsgID(i)] = p
	}
	// in a quarter of the scenarios the delivery of one message panics at its first or second attempt
	// (plan value 2+n: stage n%4 of the dialogue, kind of panic value n/4); panic recovery is active
	// (not the message whose meta-data file is going to be out of reach for a while: the quarantine is a rename of that file)
	victim := -1
	if r.Chance(35) {
		victim = r.Intn(np)
	}
	if r.Chance(25) {
		if m := r.Intn(np); m != victim {
			tgt.plan[c12MsgID(m)][r.Intn(2)] = 2 + r.Intn(16)
		}
	}
	q := c12NewQueue(dir, tgt, budget+1)
	q.initialRetryTime = retry
	// a bounce pipeline is configured; in a third of the scenarios it is SLOW: it holds every failure report until the
	// shutdown has begun and a while longer (it ends in another queue's disk write, a remote delivery), so the shutdown
	// overlaps with the submission.  Close has to wait for it: what is gone from the spool when Close returns has its
	// terminal outcome.
	closing := make(chan struct{})
	dsn := c12NewDsn()
	dsn.stat = out.Stat
	if r.Chance(33) {
		dsn.hold = func() {
			select {
			case <-closing:
			case <-time.After(10 * time.Second):
			}
			time.Sleep(4 * time.Millisecond)
		}
		out.Stat("free.slow-bounce-pipeline")
	}
	q.dsnPipeline = dsn
	started := make(chan struct{})
	var dmu sync.Mutex
	var early, dispN int
	ctl.Spawn("start", func() {
		if err := q.start(capac); err != nil {
			panic(err)
		}
		c12WrapDispatch(q.wheel, func(inner func(TimeSlot)) func(TimeSlot) {
			return func(s TimeSlot) {
				dmu.Lock()
				dispN++
				if !s.Time.IsZero() && time.Now().Before(s.Time) {
					early++
				}
				dmu.Unlock()
				inner(s)
			}
		})
		close(started)
	})
	<-started
	var gs []*c12sched.G
	for i := 0; i < np; i++ {
		i := i
		d := time.Duration(r.Intn(1500)) * time.Microsecond
		g, _ := ctl.Spawn("producer", func() {
			time.Sleep(d)
			qd := c12Spool(q, i)
			if err := qd.Commit(context.Background()); err != nil {
				panic(err)
			}
		})
		gs = append(gs, g)
	}
	// the operator's hand (or a full file table): once the first attempt of one message has failed, its
	// meta-data file is out of reach until the shutdown is over; a retry dispatched meanwhile cannot
	// open the message
	hideAfter := time.Duration(r.Intn(400)) * time.Microsecond
	stopHide := make(chan struct{})
	hideDone := make(chan struct{})
	hidden := false
	go func() {
		defer close(hideDone)
		if victim < 0 {
			return
		}
		id := c12MsgID(victim)
		for {
			select {
			case <-stopHide:
				return
			default:
			}
			tgt.mu.Lock()
			n := tgt.attempts[id]
			tgt.mu.Unlock()
			if n > 0 {
				break
			}
			time.Sleep(50 * time.Microsecond)
		}
		time.Sleep(hideAfter)
		hidden = os.Rename(filepath.Join(dir, id+".meta"), filepath.Join(dir, id+".meta_hidden")) == nil
	}()
	unhide := func() {
		close(stopHide)
		<-hideDone
		if !hidden {
			return
		}
		id := c12MsgID(victim)
		from, to := filepath.Join(dir, id+".meta_hidden"), filepath.Join(dir, id+".meta")
		_, errMeta := os.Stat(to)
		_, errBody := os.Stat(filepath.Join(dir, id+".body"))
		if errMeta == nil || errBody != nil {
			os.Remove(from) // rewritten by an attempt that had opened it before, or the message is gone
			out.Stat("free.hidden-meta.superseded")
			return
		}
		os.Rename(from, to)
		out.Stat("free.hidden-meta.restored")
	}
	closeDelay := time.Duration(r.Intn(6000)) * time.Microsecond
	cg, _ := ctl.Spawn("closer", func() {
		time.Sleep(closeDelay)
		close(closing)
		q.Close()
	})
	if !cg.Wait(25 * time.Second) {
		unhide()
		atomic.AddInt32(&c12FreeHangs, 1)
		out.Violation("C12/free-run/close-hang", op, "Queue.Close did not return within 25s")
		return
	}
	for i, s := range c12ReadSpool(dir, np) {
		if s.meta || s.broken || s.header || s.body || c12ReturnPath(i) == "" {
			continue
		}
		tgt.mu.Lock()
		acc, tried := tgt.accepted[c12MsgID(i)], tgt.attempts[c12MsgID(i)]
		tgt.mu.Unlock()
		dsn.mu.Lock()
		ans := dsn.answered[i]
		dsn.mu.Unlock()
		if tried > 0 && acc == 0 && ans == 0 {
			out.Violation("C12/free-run/outcome-lost-at-close", op, fmt.Sprintf("when Queue.Close returned message %d (attempts %d, every one failed) was gone from the spool and its failure report had not been taken by the bounce pipeline: removed without its terminal outcome, nothing is left for the restart", i, tried))
		}
	}
	unhide()
	tgt.mu.Lock()
	for id, n := range tgt.running {
		if n > 0 {
			out.Violation("C12/free-run/attempt-running-after-close", op, "Queue.Close returned while a delivery attempt of message "+id+" was in progress")
		}
	}
	tgt.mu.Unlock()
	for _, g := range gs {
		if !g.Wait(15 * time.Second) {
			atomic.AddInt32(&c12FreeHangs, 1)
			out.Violation("C12/free-run/goroutine-stuck", op, "a producer's Commit did not return within 15s of the shutdown")
			return
		}
	}
	// the quarantine rename happens after deliveryWg.Done: give a late one the chance to show
	time.Sleep(3 * time.Millisecond)
	for _, g := range append(gs, cg) {
		if _, pv := g.Result(); pv != nil {
			out.Violation("C12/free-run/panic", op, fmt.Sprintf("%s panicked: %v", g.Name, pv))
		}
	}
	tgt.mu.Lock()
	boomed := map[string]bool{}
	nboom := 0
	for id, n := range tgt.panicked {
		boomed[id] = n > 0
		nboom += n
	}
	tgt.mu.Unlock()
	died := 0
	for _, g := range ctl.All() {
		if fin, pv := g.Result(); fin && pv != nil && strings.HasPrefix(g.Name, "Queue.dispatch") {
			died++
			if nboom > 0 {
				out.Violation("C12/free-run/panic-not-contained", op, fmt.Sprintf("the panic of a delivery attempt left the dispatch goroutine (%v): the process would have crashed instead of setting the message aside", pv))
			} else {
				out.Violation("C12/free-run/panic", op, fmt.Sprintf("dispatch goroutine died: %v", pv))
			}
		}
	}
	if nboom > 0 && died == 0 {
		// the quarantine rename comes after deliveryWg.Done: wait for it (generously; no verdict depends on how long
		// it takes; once a few scenarios have waited in vain the verdict is clear and the rest waits 300 ms only)
		patience := 10 * time.Second
		if atomic.LoadInt32(&c12FreeQuarMisses) >= 4 {
			patience = 300 * time.Millisecond
		}
		missing := false
		for end := time.Now().Add(patience); time.Now().Before(end); time.Sleep(200 * time.Microsecond) {
			missing = false
			for id := range boomed {
				if _, err := os.Stat(filepath.Join(dir, id+".meta_broken")); err != nil {
					missing = true
				}
			}
			if !missing {
				break
			}
		}
		if missing {
			atomic.AddInt32(&c12FreeQuarMisses, 1)
		}
		out.Stat("free.target-panic")
	}
	ctl.Abandon()
	if n := ctl.Count("Queue.discardBroken/entry#1"); n > nboom {
		out.Violation("C12/free-run/panic", op, "a panic was recovered in the dispatch goroutine (discardBroken entered)")
	}
	dmu.Lock()
	if early > 0 {
		out.Violation("C12/free-run/early-dispatch", op, fmt.Sprintf("%d dispatches before the entry's time", early))
	}
	out.Stat(fmt.Sprintf("free.dispatches-before-close.%d", min(dispN, 9)))
	dmu.Unlock()
	tgt.mu.Lock()
	for _, v := range tgt.viol {
		out.Violation("C12/free-run/concurrent-attempts", op, v)
	}
	okBefore := map[string]int{}
	for k, v := range tgt.okCount {
		okBefore[k] = v
	}
	attempts := map[string]int{}
	for k, v := range tgt.attempts {
		attempts[k] = v
	}
	tgt.mu.Unlock()
	sp := c12ReadSpool(dir, np)
	left := 0
	for i, s := range sp {
		id := c12MsgID(i)
		if s.broken && boomed[id] {
			out.Stat("free.target-panic.quarantined")
			continue
		}
		if s.broken {
			out.Violation("C12/free-run/meta-broken", op, fmt.Sprintf("message %d was renamed to .meta_broken", i))
			continue
		}
		if boomed[id] {
			out.Violation("C12/free-run/panic-not-quarantined", op, fmt.Sprintf("the delivery of message %d panicked but the message was not set aside (.meta_broken)", i))
			continue
		}
		// terminal: delivered, or failed for good (temporary failure on the last allowed attempt)
		p := tgt.plan[id]
		terminal := okBefore[id] > 0
		if !terminal && attempts[id] >= budget+1 {
			terminal = true
			for k := 0; k <= budget && k < len(p); k++ {
				if p[k] == 0 {
					terminal = false
				}
			}
		}
		if okBefore[id] > 1 {
			out.Violation("C12/free-run/duplicate-dispatch", op, fmt.Sprintf("message %d delivered %d times", i, okBefore[id]))
		}
		if terminal {
			if s.meta {
				out.Violation("C12/free-run/terminal-not-removed", op, fmt.Sprintf("message %d", i))
			}
			continue
		}
		if !(s.meta && s.header && s.body) {
			out.Violation("C12/free-run/removed-without-outcome", op, fmt.Sprintf("message %d has no terminal outcome (attempts %d, delivered %d) but its spool entry is incomplete (meta=%v header=%v body=%v)", i, attempts[id], okBefore[id], s.meta, s.header, s.body))
			continue
		}
		left++
	}
	out.Stat(fmt.Sprintf("free.left-for-restart.%d", left))
	out.Stat(fmt.Sprintf("free.producers.%d", np))
	// restart on the same spool: everything without a terminal outcome is picked up and delivered once
	tgt2 := c12NewTarget()
	tgt2.plan = map[string][]int{}
	q2 := c12NewQueue(dir, tgt2, 5)
	if err := q2.start(2); err != nil {
		out.Violation("C12/free-run/restart-failed", op, err.Error())
		return
	}
	deadline := time.Now().Add(20 * time.Second)
	for time.Now().Before(deadline) {
		ents, _ := os.ReadDir(dir)
		live := 0
		for _, e := range ents {
			if strings.HasSuffix(e.Name(), ".meta") { // a quarantined entry leaves its header and body behind
				live++
			}
		}
		if live == 0 {
			break
		}
		time.Sleep(200 * time.Microsecond)
	}
	q2.Close()
	tgt2.mu.Lock()
	defer tgt2.mu.Unlock()
	for i, s := range sp {
		id := c12MsgID(i)
		want := 0
		if s.meta && s.header && s.body && !s.broken {
			want = 1
		}
		if tgt2.okCount[id] != want {
			sig := "C12/free-run/not-recovered-after-restart"
			if tgt2.okCount[id] > want {
				sig = "C12/free-run/duplicate-dispatch"
			}
			out.Violation(sig, op, fmt.Sprintf("message %d: delivered %d times after the restart, expected %d (delivered %d times before)", i, tgt2.okCount[id], want, okBefore[id]))
		}
	}
	if ents, _ := os.ReadDir(dir); len(ents) != 0 {
		var names []string
		for _, e := range ents {
			// a quarantined message keeps its files
			if i := c12MsgIdx(strings.TrimSuffix(e.Name(), filepath.Ext(e.Name()))); i >= 0 && i < len(sp) && sp[i].broken && filepath.Ext(e.Name()) != ".meta" {
				continue
			}
			names = append(names, e.Name())
		}
		out.Stat("free.spool-not-empty-after-restart")
		if len(names) > 0 {
			out.Violation("C12/free-run/not-recovered-after-restart", op, "left in the spool: "+strings.Join(names, ","))
		}
	}
}

func TestVerifC12Free(t *testing.T) {
	out := vh.Open("c12free")
	defer out.Close()
	dontRecover = false
	log.DefaultLogger.Out = log.NopOutput{}
	if ops := vh.Replay(); ops != nil {
		for _, op := range ops {
			f := strings.Fields(op)
			if len(f) == 3 && f[1] == "free" {
				seed, _ := strconv.ParseUint(f[2], 10, 64)
				for k := 0; k < 200; k++ { // not deterministic: repeat
					c12RunFree(out, seed)
				}
			}
		}
		return
	}
	n := vh.N(300)
	jobs := make(chan uint64, 64)
	var wg sync.WaitGroup
	for k := 0; k < 8; k++ {
		wg.Add(1)
		go func() {
			defer wg.Done()
			for s := range jobs {
				if atomic.LoadInt32(&c12FreeHangs) >= c12MaxHangs {
					out.Stat("free.skipped-after-hangs")
					continue
				}
				c12RunFree(out, s)
			}
		}()
	}
	r := vh.NewRng(vh.Seed() + 1299)
	for i := 0; i < n; i++ {
		jobs <- r.Next() % 1000000007
	}
	close(jobs)
	wg.Wait()
}
