package queue

import "github.com/emersion/go-smtp"

// VerifC16ToSMTPErr exposes the conversion the queue applies to a per-recipient error before it
// stores it and prints it into a failure report (overlay-only file, see /verif/DESIGN.md).
func VerifC16ToSMTPErr(err error) *smtp.SMTPError { return toSMTPErr(err) }
