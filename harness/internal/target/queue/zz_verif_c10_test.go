package queue

// C10 — one message through the REAL queue under a history of delivery attempts and restarts.
//
//   C10 run <hist> <hdr> <body> S=<strings> J=<i:j..|-> from=<i> to=<i.i> orc=<i:j..|-> f=<5 bits> auth=<0|1|2> late=<0|1> dsn=<0|1|2> X=<i.i|-> peer=<-|i.i/hist> pre=<-|h,b,m>
//
// pre: files of the message's own names (ID.header, ID.body, ID.meta.new) that lie in the spool directory
// already when the queue stores it (see c10Pre); the observation starts with the spool's header and body
// file right after acceptance (`st[...]`).
// dsn: the queue has no bounce pipeline / one that takes the failure reports / one that refuses them
// at the body stage.  X: the strings address.SelectIDNA(<the message's SMTPUTF8 flag>, s) fails for
// (library oracle for the model: a report that has to name such an address cannot be generated).
// peer: a SECOND queue instance (own spool, own target, own history) fed by the same source with the
// same metadata pointer, the same header value and the same body - what msgpipeline does for a
// message with two targets; queue A runs up to the end of its first run of attempts (reports
// included) before queue B's Commit, i.e. before B's first, in-memory attempt.
//
// (format documented in lean/Driver/C10.lean).  The recording target's view of every attempt is the
// correspondence observation; the monitor compares it, byte for byte, with what was handed to the
// queue, and greps every spool file for the credentials of the fake authenticated connection.
//
// The monitor also judges the other half of the property - the target IS handed the message for as
// long as recipients are pending: by the recording target's OWN answers it knows who is pending
// after every attempt (each deferred address once - an address listed twice in the envelope is one
// recipient from the first attempt on, fix 6b03754); a further attempt step of the history that does not take place, or a spool
// entry that is gone / incomplete / altered at rest while somebody is pending, is
// C10/pending-message-dropped (resp. C10/spool-content-changed).  First step `R`: Commit is answered
// by a queue that is already shutting down (time wheel stopped: nothing is dispatched, the client
// still gets its 250), then the server restarts - a restart BEFORE the first attempt of an accepted
// message.  First step `r`: crash between Body and Commit (the message was never acknowledged: the
// drop rule does not apply, everything else does).

import (
	"regexp"
	"bytes"
	"context"
	"crypto/tls"
	"encoding/base64"
	"encoding/json"
	"errors"
	"fmt"
	"io"
	"net"
	"os"
	"path/filepath"
	"sort"
	"strconv"
	"strings"
	"sync"
	"sync/atomic"
	"testing"
	"time"
	"unicode/utf8"

	"github.com/emersion/go-message/textproto"
	"github.com/emersion/go-smtp"
	"github.com/foxcpp/maddy/framework/address"
	"github.com/foxcpp/maddy/framework/buffer"
	"github.com/foxcpp/maddy/framework/exterrors"
	"github.com/foxcpp/maddy/framework/future"
	"github.com/foxcpp/maddy/framework/log"
	"github.com/foxcpp/maddy/framework/module"
	"github.com/foxcpp/maddy/internal/verifshim/vh"
)

func c10Digest(b []byte) uint32 {
	h := uint32(2166136261)
	for _, c := range b {
		h = (h ^ uint32(c)) * 16777619
	}
	return h
}

// ---- case description ----

type c10Step struct {
	restart  bool
	commit   bool // first step only: restart after a Commit that dispatched nothing
	partial  bool
	letters  string // per ORIGINAL recipient position
	panicAt  byte   // attempt: the target PANICS at 's' Start, 'r' its first AddRcpt, 'b' the body stage (the final Abort when nobody was accepted), 'c' the final Commit/Abort; 0 = never
	left     byte   // restart: '0'..'9' = a leftover ID.meta.new of that class lies beside the intact ID.meta when the new instance starts; 0 = none
}

// token renders the step (letters: the plan letters to print).
func (st c10Step) token(letters string) string {
	if st.restart {
		t := "r"
		if st.commit {
			t = "R"
		}
		if st.left != 0 {
			t += "n" + string(st.left)
		}
		return t
	}
	t := "aA"
	if st.partial {
		t = "aP"
	}
	t += letters
	if st.panicAt != 0 {
		t += "!" + string(st.panicAt)
	}
	return t
}

type c10Field struct {
	gen  bool // added with Header.Add(key, value): formatted at write time
	k, v string
	raw  []byte
}

type c10Case struct {
	op      string
	steps   []c10Step
	fields  []c10Field
	bufKind byte
	bodyK   int
	bodyLen int
	bodySeed uint64
	strs    []string
	from    int
	ofrom   int // MsgMetadata.OriginalFrom (string index); = from unless the op line says from=<n>/<m>
	to      []int
	orc     [][2]int
	orcNil  bool
	utf8, rtls, tro, quar, dts bool
	auth    int
	late    bool
	dsn     int
	peerTo  []int
	peerSteps []c10Step
	pre     c10Pre
}

// c10Pre: files of the name the NEW message's spool files will have that lie in the spool directory
// already when the queue stores it - dangling ID.header / ID.body of a server killed between the
// header/body writes and the rename of ID.meta (the start-up scan leaves files without ID.meta
// alone), a leftover ID.meta.new, a message id that is used a second time.  Per file "x" (no such
// file) or, for header and body, the signed difference between the length of the leftover and the
// length of what is about to be stored ("+17" longer, "+0" the same length, "-3" shorter, floor 0),
// for ID.meta.new the absolute length of the leftover.  The leftover header is a well-formed header
// blob of "another message" (blank line included), the leftover body other text, the leftover
// ID.meta.new a JSON document with another sender and another recipient.
type c10Pre struct{ hdr, body, meta string }

func (p c10Pre) any() bool { return p.hdr != "x" || p.body != "x" || p.meta != "x" }

func (p c10Pre) String() string {
	if !p.any() {
		return "-"
	}
	return p.hdr + "," + p.body + "," + p.meta
}

func c10ParsePre(s string) (c10Pre, error) {
	if s == "-" {
		return c10Pre{"x", "x", "x"}, nil
	}
	f := strings.Split(s, ",")
	if len(f) != 3 {
		return c10Pre{}, fmt.Errorf("bad pre %q", s)
	}
	for i, x := range f {
		if x == "x" {
			continue
		}
		if i < 2 && !strings.HasPrefix(x, "+") && !strings.HasPrefix(x, "-") {
			return c10Pre{}, fmt.Errorf("bad pre %q", s)
		}
		if _, err := strconv.Atoi(x); err != nil {
			return c10Pre{}, fmt.Errorf("bad pre %q", s)
		}
	}
	return c10Pre{f[0], f[1], f[2]}, nil
}

func c10FillTo(unit string, n int) []byte {
	if n <= 0 {
		return []byte{}
	}
	return []byte(strings.Repeat(unit, n/len(unit)+1)[:n])
}

// c10StaleHeader: a header blob of another message of exactly n bytes (a prefix of one when n is tiny).
func c10StaleHeader(n int) []byte {
	const head, tail = "Subject: stale leftover of another message\r\nX-Stale: ", "\r\n\r\n"
	if n < len(head)+len(tail)+1 {
		return c10FillTo("Stale: leftover\r\n\r\n", n)
	}
	return []byte(head + strings.Repeat("s", n-len(head)-len(tail)) + tail)
}

func c10StaleBody(n int) []byte { return c10FillTo("stale body line of another message\r\n", n) }

// c10StaleMeta: a complete meta-data document (as json.Encoder writes it: one line) naming another
// sender and another recipient, of exactly n bytes (a prefix of one when n is tiny).
func c10StaleMeta(n int) []byte {
	const head, tail = `{"MsgMeta":{"ID":"stale","OriginalFrom":"stale-sender@stale.example","TLSRequireOverride":true},"From":"stale-sender@stale.example","To":["`, `@stale.example"]}` + "\n"
	if n < len(head)+len(tail)+1 {
		return c10FillTo(head+"s"+tail, n)
	}
	return []byte(head + strings.Repeat("s", n-len(head)-len(tail)) + tail)
}

// plantPre puts the leftovers of the case into the spool directory (right before the queue's Body).
func (w *c10World) plantPre(id string, p c10Pre, hdrLen, bodyLen int) {
	rel := func(spec string, n int) (int, bool) {
		if spec == "x" || spec == "" {
			return 0, false
		}
		d, _ := strconv.Atoi(spec)
		if n += d; n < 0 {
			n = 0
		}
		return n, true
	}
	put := func(suffix string, data []byte, newLen int) {
		if err := os.WriteFile(filepath.Join(w.spool, id+suffix), data, 0o600); err != nil {
			panic(err)
		}
		cls := "shorter"
		switch {
		case len(data) == 0 && newLen != 0:
			cls = "empty"
		case len(data) > newLen:
			cls = "longer"
		case len(data) == newLen:
			cls = "same-length"
		}
		if newLen >= 0 {
			w.prePlanted = append(w.prePlanted, suffix[1:]+"."+cls)
		}
	}
	if n, ok := rel(p.hdr, hdrLen); ok {
		put(".header", c10StaleHeader(n), hdrLen)
	}
	if n, ok := rel(p.body, bodyLen); ok {
		put(".body", c10StaleBody(n), bodyLen)
	}
	if n, ok := rel(p.meta, 0); ok {
		put(".meta.new", c10StaleMeta(n), -1)
		w.preMetaLen = n
	}
}

// c10Stored: the spool files of the message right after the queue has accepted it (Body returned).
type c10Stored struct {
	names            string
	hdrOK, bodyOK    bool // the file could be read
	hdrLen, bodyLen  int
	hdrDig, bodyDig  uint32
	hdrEq, bodyEq    bool
	metaLen          int
	metaErr          string // ID.meta is not exactly one JSON document
}

// c10StrictMeta: the whole file is one JSON value (plus white space) - encoding/json's Decoder, which
// the queue reads it with, stops after the first value and does not look at what follows.
func c10StrictMeta(blob []byte) string {
	var v map[string]interface{}
	if err := json.Unmarshal(blob, &v); err != nil {
		return err.Error()
	}
	return ""
}

func (w *c10World) captureStored(id string, hdr, body []byte) {
	st := &c10Stored{}
	ents, _ := os.ReadDir(w.spool)
	var names []string
	for _, e := range ents {
		n := e.Name()
		if strings.HasPrefix(n, id) {
			n = "ID" + n[len(id):]
		}
		names = append(names, n)
	}
	sort.Strings(names)
	st.names = strings.Join(names, ",")
	if b, err := os.ReadFile(filepath.Join(w.spool, id+".header")); err == nil {
		st.hdrOK, st.hdrLen, st.hdrDig, st.hdrEq = true, len(b), c10Digest(b), bytes.Equal(b, hdr)
	}
	if b, err := os.ReadFile(filepath.Join(w.spool, id+".body")); err == nil {
		st.bodyOK, st.bodyLen, st.bodyDig, st.bodyEq = true, len(b), c10Digest(b), bytes.Equal(b, body)
	}
	if b, err := os.ReadFile(filepath.Join(w.spool, id+".meta")); err == nil {
		st.metaLen, st.metaErr = len(b), c10StrictMeta(b)
	} else {
		st.metaErr = "cannot be read"
	}
	w.stored = st
}

func (st *c10Stored) obs() string {
	if st == nil || !st.hdrOK || !st.bodyOK {
		return "st[?]"
	}
	return fmt.Sprintf("st[hdr=%d.%d body=%d.%d]", st.hdrLen, st.hdrDig, st.bodyLen, st.bodyDig)
}

func c10GenBody(kind, n int, seed uint64) []byte {
	r := vh.NewRng(seed)
	b := make([]byte, 0, n+80)
	switch kind {
	case 0: // text lines
		for len(b) < n {
			for j := r.Intn(70); j > 0; j-- {
				b = append(b, byte(' '+r.Intn(95)))
			}
			b = append(b, '\r', '\n')
		}
	case 1: // binary, all byte values
		for len(b) < n {
			v := r.Next()
			for j := 0; j < 8; j++ {
				b = append(b, byte(v>>(8*j)))
			}
		}
	case 2: // dots and end-of-data look-alikes
		pieces := []string{".\r\n", "\r\n.\r\n", "..", ".\r\n.\r\n", "x\r\n", "\r\n", "."}
		for len(b) < n {
			b = append(b, pieces[r.Intn(len(pieces))]...)
		}
	case 3: // bare CR / LF, NUL, 8-bit, no final newline
		pieces := []string{"\r", "\n", "\x00", "\xff\xfe", "line", "\r\r\n", "\n\r", "é"}
		for len(b) < n {
			b = append(b, pieces[r.Intn(len(pieces))]...)
		}
	default: // constant NUL bytes
		for len(b) < n {
			b = append(b, 0)
		}
	}
	return b[:n]
}

func c10ParseHist(h string) ([]c10Step, error) {
	var steps []c10Step
	for si, s := range strings.Split(h, ".") {
		var left byte
		if len(s) == 3 && (s[0] == 'r' || s[0] == 'R') && s[1] == 'n' && s[2] >= '0' && s[2] <= '9' {
			left, s = s[2], s[:1]
		}
		switch {
		case s == "r":
			steps = append(steps, c10Step{restart: true, left: left})
		case s == "R" && si == 0:
			steps = append(steps, c10Step{restart: true, commit: true, left: left})
		case len(s) >= 2 && s[0] == 'a' && (s[1] == 'P' || s[1] == 'A'):
			st := c10Step{partial: s[1] == 'P', letters: s[2:]}
			if k := strings.IndexByte(st.letters, '!'); k >= 0 {
				if k+2 != len(st.letters) || !strings.ContainsRune("srbc", rune(st.letters[k+1])) {
					return nil, fmt.Errorf("bad step %q", s)
				}
				st.panicAt, st.letters = st.letters[k+1], st.letters[:k]
			}
			steps = append(steps, st)
		default:
			return nil, fmt.Errorf("bad step %q", s)
		}
	}
	return steps, nil
}

func c10ParseCase(op string) (*c10Case, error) {
	t := strings.Fields(op)
	if len(t) == 13 { // op lines recorded before the bounce pipeline / second queue were added
		t = append(t, "dsn=0", "X=-", "peer=-")
	}
	if len(t) == 16 { // ... before leftover files of the same name were added
		t = append(t, "pre=-")
	}
	if len(t) != 17 || t[0] != "C10" || t[1] != "run" {
		return nil, fmt.Errorf("bad run op (%d tokens)", len(t))
	}
	c := &c10Case{op: op}
	kv := func(i int, key string) (string, error) {
		if !strings.HasPrefix(t[i], key+"=") {
			return "", fmt.Errorf("token %d: want %s=", i, key)
		}
		return t[i][len(key)+1:], nil
	}
	idxs := func(s string) []int {
		if s == "-" {
			return nil
		}
		var out []int
		for _, p := range strings.Split(s, ".") {
			v, _ := strconv.Atoi(p)
			out = append(out, v)
		}
		return out
	}
	var err0 error
	if c.steps, err0 = c10ParseHist(t[2]); err0 != nil {
		return nil, err0
	}
	if t[3] != "-" {
		for _, f := range strings.Split(t[3], ",") {
			p := strings.Split(f, ":")
			switch {
			case len(p) == 2 && p[0] == "r":
				c.fields = append(c.fields, c10Field{raw: vh.UnhexBytes(p[1])})
			case len(p) == 4 && p[0] == "g":
				c.fields = append(c.fields, c10Field{gen: true, k: string(vh.UnhexBytes(p[1])), v: string(vh.UnhexBytes(p[2])), raw: vh.UnhexBytes(p[3])})
			default:
				return nil, fmt.Errorf("bad field %q", f)
			}
		}
	}
	bp := strings.Split(t[4], ":")
	if len(bp) != 5 {
		return nil, fmt.Errorf("bad body %q", t[4])
	}
	c.bufKind = bp[0][0]
	c.bodyK, _ = strconv.Atoi(bp[1])
	c.bodyLen, _ = strconv.Atoi(bp[2])
	c.bodySeed, _ = strconv.ParseUint(bp[3], 10, 64)
	s, err := kv(5, "S")
	if err != nil {
		return nil, err
	}
	for _, h := range strings.Split(s, ",") {
		c.strs = append(c.strs, string(vh.UnhexBytes(h)))
	}
	if _, err = kv(6, "J"); err != nil {
		return nil, err
	}
	if s, err = kv(7, "from"); err != nil {
		return nil, err
	}
	// from=<sender> or from=<sender>/<original sender>: MsgMetadata.OriginalFrom (what the source saw in
	// MAIL FROM) is a dimension of its own - a sender rewritten before the queue (sender modifier, list /
	// VERP-style rewriting of a message that arrived with the null reverse-path, a source that never set it)
	c.ofrom = -1
	if k := strings.IndexByte(s, '/'); k >= 0 {
		if c.ofrom, err = strconv.Atoi(s[k+1:]); err != nil {
			return nil, fmt.Errorf("bad original sender %q", s)
		}
		s = s[:k]
	}
	c.from, _ = strconv.Atoi(s)
	if c.ofrom < 0 {
		c.ofrom = c.from
	}
	if s, err = kv(8, "to"); err != nil {
		return nil, err
	}
	c.to = idxs(s)
	if s, err = kv(9, "orc"); err != nil {
		return nil, err
	}
	if s == "-" {
		c.orcNil = true
	} else {
		for _, p := range strings.Split(s, ".") {
			ab := strings.Split(p, ":")
			a, _ := strconv.Atoi(ab[0])
			b, _ := strconv.Atoi(ab[1])
			c.orc = append(c.orc, [2]int{a, b})
		}
	}
	if s, err = kv(10, "f"); err != nil || len(s) != 5 {
		return nil, fmt.Errorf("bad flags")
	}
	c.utf8, c.rtls, c.tro, c.quar, c.dts = s[0] == '1', s[1] == '1', s[2] == '1', s[3] == '1', s[4] == '1'
	if s, err = kv(11, "auth"); err != nil {
		return nil, err
	}
	c.auth, _ = strconv.Atoi(s)
	if s, err = kv(12, "late"); err != nil {
		return nil, err
	}
	c.late = s == "1"
	if s, err = kv(13, "dsn"); err != nil || (s != "0" && s != "1" && s != "2") {
		return nil, fmt.Errorf("bad dsn token")
	}
	c.dsn, _ = strconv.Atoi(s)
	if _, err = kv(14, "X"); err != nil {
		return nil, err
	}
	if s, err = kv(15, "peer"); err != nil {
		return nil, err
	}
	if s != "-" {
		p := strings.Split(s, "/")
		if len(p) != 2 {
			return nil, fmt.Errorf("bad peer %q", s)
		}
		c.peerTo = idxs(p[0])
		if c.peerSteps, err = c10ParseHist(p[1]); err != nil {
			return nil, err
		}
		if len(c.peerTo) == 0 {
			return nil, fmt.Errorf("peer without recipients")
		}
	}
	if s, err = kv(16, "pre"); err != nil {
		return nil, err
	}
	if c.pre, err = c10ParsePre(s); err != nil {
		return nil, err
	}
	for _, i := range append(append([]int{c.from, c.ofrom}, c.to...), c.peerTo...) {
		if i < 0 || i >= len(c.strs) {
			return nil, fmt.Errorf("string index %d out of range", i)
		}
	}
	for _, st := range c.steps {
		if !st.restart && len(st.letters) != len(c.to) {
			return nil, fmt.Errorf("plan %q does not cover %d recipients", st.letters, len(c.to))
		}
	}
	for _, st := range c.peerSteps {
		if !st.restart && len(st.letters) != len(c.peerTo) {
			return nil, fmt.Errorf("peer plan %q does not cover %d recipients", st.letters, len(c.peerTo))
		}
	}
	return c, nil
}

// ---- recording target ----

type c10Seen struct {
	from                  string
	ofrom                 string // MsgMetadata.OriginalFrom the target was handed
	to                    []string
	utf8, rtls, tro, conn bool
	orc                   map[string]string
	idOK                  bool
	gotBody               bool
	hdr                   []byte
	nfields               int
	hdrErr                string
	bodyLen               int
	bodyDigest            uint32
	bodyEqual             bool
	lenMethod             int
	leak                  string
	answeredTemp          []string // recipients this attempt left pending, by the target's own answers
	panicked              byte     // the target panicked in this attempt, at this stage
	reps                  []*c10Report // failure reports generated right after this attempt, in order
}

// c10Report: what the bounce pipeline was handed for one failure report (failed: the queue logged that
// it could not generate one).
type c10Report struct {
	failed    bool
	to        []string
	utf8      bool
	gotBody   bool
	quoted    []byte // the last MIME part of the report: the header of the failed message
	quotedOK  bool   // that part was found
}

type c10Target struct {
	mu       sync.Mutex
	toStrs   []string  // the accepted recipients, in order (plan letters are per position)
	attempts []c10Step // the attempt steps in order
	holdAt   map[int]bool
	q        *Queue
	seen     []*c10Seen
	done     int
	panicked bool // the target panicked in an attempt (sticky): the queue's recover handler has run or is running
	id       string
	accBody  []byte
	spool    string
	secrets  [][]byte
}

type c10Delivery struct {
	t        *c10Target
	s        *c10Seen
	step     c10Step
	accepted []string
}

type c10DeliveryPartial struct{ *c10Delivery }

func (t *c10Target) letter(step c10Step, rcpt string) byte {
	for pos, s := range t.toStrs {
		if s == rcpt && pos < len(step.letters) {
			return step.letters[pos]
		}
	}
	return '?'
}

func (t *c10Target) Start(ctx context.Context, msgMeta *module.MsgMetadata, mailFrom string) (module.Delivery, error) {
	t.mu.Lock()
	defer t.mu.Unlock()
	k := len(t.seen)
	var step c10Step
	if k < len(t.attempts) {
		step = t.attempts[k]
	} else {
		step = c10Step{partial: true, letters: strings.Repeat("o", len(t.toStrs))} // unplanned attempt: visible as an extra record
	}
	// hold the queue after this attempt when the history continues with a restart (or ends)
	if t.holdAt[k] || k >= len(t.attempts) {
		t.q.initialRetryTime = time.Hour
	} else {
		t.q.initialRetryTime = 0
	}
	s := &c10Seen{from: mailFrom, ofrom: msgMeta.OriginalFrom, utf8: msgMeta.SMTPOpts.UTF8, rtls: msgMeta.SMTPOpts.RequireTLS, tro: msgMeta.TLSRequireOverride,
		conn: msgMeta.Conn != nil, idOK: strings.HasPrefix(msgMeta.ID, t.id+"-")}
	if msgMeta.OriginalRcpts != nil {
		s.orc = map[string]string{}
		for a, b := range msgMeta.OriginalRcpts {
			s.orc[a] = b
		}
	}
	t.seen = append(t.seen, s)
	if step.panicAt == 's' {
		t.panicLocked(s, 's')
	}
	d := &c10Delivery{t: t, s: s, step: step}
	if step.partial {
		return &c10DeliveryPartial{d}, nil
	}
	return d, nil
}

// panicLocked (t.mu held; the callers release it in a deferred call): a defect of the downstream target
// - a nil dereference, an index out of range - in the middle of a delivery attempt.  The attempt counts
// as over for the harness; the queue's deferred handler in dispatch recovers (dontRecover = false).
func (t *c10Target) panicLocked(s *c10Seen, stage byte) {
	s.panicked = stage
	t.panicked = true
	t.done++
	panic("verif c10: scripted panic of the downstream target at stage " + string(stage))
}

var (
	c10TempErr = &exterrors.SMTPError{Code: 451, EnhancedCode: exterrors.EnhancedCode{4, 3, 0}, Message: "try again later"}
	c10PermErr = &exterrors.SMTPError{Code: 550, EnhancedCode: exterrors.EnhancedCode{5, 1, 1}, Message: "no such user"}
)

func (d *c10Delivery) AddRcpt(ctx context.Context, to string, _ smtp.RcptOptions) error {
	d.t.mu.Lock()
	defer d.t.mu.Unlock()
	d.s.to = append(d.s.to, to)
	if d.step.panicAt == 'r' && len(d.s.to) == 1 {
		d.t.panicLocked(d.s, 'r')
	}
	switch d.t.letter(d.step, to) {
	case 'q':
		d.s.answeredTemp = append(d.s.answeredTemp, to)
		return c10TempErr
	case 'p':
		return c10PermErr
	case '?':
		return c10PermErr
	}
	d.accepted = append(d.accepted, to)
	return nil
}

func (d *c10Delivery) record(header textproto.Header, body buffer.Buffer) {
	s := d.s
	s.gotBody = true
	var hb bytes.Buffer
	if err := textproto.WriteHeader(&hb, header); err != nil {
		s.hdrErr = err.Error()
	}
	s.hdr = hb.Bytes()
	s.nfields = header.Len()
	r, err := body.Open()
	if err != nil {
		s.hdrErr += " body.Open: " + err.Error()
		return
	}
	blob, err := io.ReadAll(r)
	r.Close()
	if err != nil {
		s.hdrErr += " body read: " + err.Error()
	}
	s.bodyLen = len(blob)
	s.bodyDigest = c10Digest(blob)
	s.bodyEqual = bytes.Equal(blob, d.t.accBody)
	s.lenMethod = body.Len()
	s.leak = c10ScanSpool(d.t.spool, d.t.secrets)
}

func (d *c10Delivery) bodyFails() bool {
	for _, r := range d.accepted {
		if d.t.letter(d.step, r) == 't' {
			return true
		}
	}
	return false
}

func (d *c10Delivery) Body(ctx context.Context, header textproto.Header, body buffer.Buffer) error {
	d.t.mu.Lock()
	defer d.t.mu.Unlock()
	d.record(header, body)
	if d.step.panicAt == 'b' {
		d.t.panicLocked(d.s, 'b')
	}
	if d.bodyFails() {
		// atomic target: the whole body stage fails temporarily, every accepted recipient stays pending
		var keep []string
		for _, r := range d.s.to {
			l := d.t.letter(d.step, r)
			if l == 'q' || l == 'o' || l == 't' {
				keep = append(keep, r)
			}
		}
		d.s.answeredTemp = keep
		return c10TempErr
	}
	return nil
}

func (d *c10DeliveryPartial) BodyNonAtomic(ctx context.Context, sc module.StatusCollector, header textproto.Header, body buffer.Buffer) {
	d.t.mu.Lock()
	defer d.t.mu.Unlock()
	d.record(header, body)
	if d.step.panicAt == 'b' {
		d.t.panicLocked(d.s, 'b')
	}
	var keep []string
	for _, r := range d.s.to {
		l := d.t.letter(d.step, r)
		if l == 'q' || l == 't' {
			keep = append(keep, r)
		}
	}
	d.s.answeredTemp = keep
	seen := map[string]bool{}
	for _, r := range d.accepted {
		if seen[r] {
			continue
		}
		seen[r] = true
		if d.t.letter(d.step, r) == 't' {
			sc.SetStatus(r, c10TempErr)
		} else {
			sc.SetStatus(r, nil)
		}
	}
}

func (d *c10Delivery) finish() {
	d.t.mu.Lock()
	defer d.t.mu.Unlock()
	if d.step.panicAt == 'c' || d.step.panicAt == 'b' { // 'b': nobody was accepted, the body stage is never reached
		d.t.panicLocked(d.s, d.step.panicAt)
	}
	d.t.done++
}

func (d *c10Delivery) Abort(ctx context.Context) error  { d.finish(); return nil }
func (d *c10Delivery) Commit(ctx context.Context) error { d.finish(); return nil }

// c10ScanSpool greps every file of the spool directory for the credential bytes.
func c10ScanSpool(dir string, secrets [][]byte) string {
	ents, err := os.ReadDir(dir)
	if err != nil {
		return ""
	}
	var hits []string
	for _, e := range ents {
		data, err := os.ReadFile(filepath.Join(dir, e.Name()))
		if err != nil {
			continue // renamed or removed meanwhile
		}
		for i, s := range secrets {
			if len(s) > 0 && bytes.Contains(data, s) {
				suffix := e.Name()
				if j := strings.IndexByte(suffix, '.'); j >= 0 {
					suffix = suffix[j:]
				}
				hits = append(hits, fmt.Sprintf("secret#%d in *%s", i, suffix))
			}
		}
	}
	sort.Strings(hits)
	return strings.Join(hits, "; ")
}

// ---- the bounce pipeline: records the failure reports the queue generates ----
// (what a report has to say is C18's business; here it is an event between attempts - which must not
// change what later attempts, or other holders of the same header / metadata, see)

type c10DsnTarget struct {
	w      *c10World
	refuse bool
}

type c10DsnDelivery struct {
	t   *c10DsnTarget
	rep *c10Report
}

func (w *c10World) addReport(rep *c10Report) {
	w.tgt.mu.Lock()
	defer w.tgt.mu.Unlock()
	if n := len(w.tgt.seen); n > 0 {
		w.tgt.seen[n-1].reps = append(w.tgt.seen[n-1].reps, rep)
	} else {
		w.orphanReports++
	}
	w.nreports++
}

func (t *c10DsnTarget) Start(ctx context.Context, msgMeta *module.MsgMetadata, mailFrom string) (module.Delivery, error) {
	rep := &c10Report{utf8: msgMeta.SMTPOpts.UTF8}
	t.w.addReport(rep)
	return &c10DsnDelivery{t: t, rep: rep}, nil
}

func (d *c10DsnDelivery) AddRcpt(ctx context.Context, to string, _ smtp.RcptOptions) error {
	d.t.w.tgt.mu.Lock()
	d.rep.to = append(d.rep.to, to)
	d.t.w.tgt.mu.Unlock()
	return nil
}

func (d *c10DsnDelivery) Body(ctx context.Context, header textproto.Header, body buffer.Buffer) error {
	r, err := body.Open()
	if err != nil {
		return err
	}
	blob, _ := io.ReadAll(r)
	r.Close()
	quoted, ok := c10QuotedHeader(header.Get("Content-Type"), blob)
	d.t.w.tgt.mu.Lock()
	d.rep.gotBody = true
	d.rep.quoted, d.rep.quotedOK = quoted, ok
	d.t.w.tgt.mu.Unlock()
	if d.t.refuse {
		return &exterrors.SMTPError{Code: 554, EnhancedCode: exterrors.EnhancedCode{5, 7, 1}, Message: "no reports here"}
	}
	return nil
}

func (d *c10DsnDelivery) Abort(ctx context.Context) error  { return nil }
func (d *c10DsnDelivery) Commit(ctx context.Context) error { return nil }

// c10QuotedHeader cuts the last part out of a multipart/report body: "Content-Description:
// Undelivered message header" ... blank line ... <the header as textproto.WriteHeader writes it>
// CRLF "--" boundary "--".
func c10QuotedHeader(contentType string, blob []byte) ([]byte, bool) {
	i := strings.Index(contentType, "boundary=")
	if i < 0 {
		return nil, false
	}
	boundary := strings.Trim(strings.TrimSpace(contentType[i+len("boundary="):]), "\"")
	if j := strings.IndexByte(boundary, ';'); j >= 0 {
		boundary = boundary[:j]
	}
	end := bytes.LastIndex(blob, []byte("\r\n--"+boundary+"--"))
	mark := bytes.LastIndex(blob, []byte("Undelivered message header"))
	if end < 0 || mark < 0 || mark > end {
		return nil, false
	}
	// the part header ends at the first blank line after the first "--boundary" line preceding the mark
	start := bytes.LastIndex(blob[:mark], []byte("--"+boundary+"\r\n"))
	if start < 0 {
		return nil, false
	}
	k := bytes.Index(blob[start:], []byte("\r\n\r\n"))
	if k < 0 || start+k+4 > end {
		return nil, false
	}
	return blob[start+k+4 : end], true
}

type c10LogOut struct {
	mu      *sync.Mutex
	readErr *int
	loaded  *int
	term    *[]string
	genFail func()
}

func (o c10LogOut) Write(_ time.Time, _ bool, msg string) {
	// openMessage failed in dispatch / readDiskQueue could not decode the metadata: in both cases
	// nothing will be delivered by this queue instance
	if strings.Contains(msg, "read message") || strings.Contains(msg, "failed to read meta-data") {
		o.mu.Lock()
		*o.readErr++
		o.mu.Unlock()
	}
	// tryDelivery gave a recipient up (permanent failure or retry budget exhausted; a DSN is due):
	// a terminal outcome was recorded for it
	const gaveUp = "not delivered, permanent error\t"
	if i := strings.Index(msg, gaveUp); i >= 0 {
		var f struct {
			Rcpt string `json:"rcpt"`
		}
		if json.Unmarshal([]byte(msg[i+len(gaveUp):]), &f) == nil {
			o.mu.Lock()
			*o.term = append(*o.term, f.Rcpt)
			o.mu.Unlock()
		}
	}
	// emitDSN: GenerateDSN returned an error, no report for this attempt
	if strings.Contains(msg, "failed to generate fail DSN") && o.genFail != nil {
		o.genFail()
	}
	// readDiskQueue: "loaded %d saved queue entries" - this instance scheduled something from the spool
	if strings.Contains(msg, "loaded ") && strings.Contains(msg, "saved queue entries") {
		o.mu.Lock()
		*o.loaded++
		o.mu.Unlock()
	}
}
func (o c10LogOut) Close() error { return nil }

// ---- the world of one case: spool directory, recording target, queue instances ----

// c10Accepted is what was handed to the queue (the left-hand side of the property).
type c10Accepted struct {
	id               string
	from             string
	ofrom            string // MsgMetadata.OriginalFrom as of Commit (need not be the sender the queue was given)
	to               []string
	utf8, rtls, tro  bool
	orc              map[string]string
	hdr              []byte   // textproto.WriteHeader of the header handed to Body
	fields           [][]byte // its raw fields
	body             []byte
	wf               bool // every raw field is RFC 5322-shaped (always true for a parsed header)
	envUTF8          bool // every envelope string is valid UTF-8
}

type c10World struct {
	spool    string
	tgt      *c10Target
	logMu    sync.Mutex
	readErrs int
	terminal []string // recipients the queue logged a terminal failure for
	loaded   int  // "loaded N saved queue entries" lines of the current queue instance
	fromDisk bool // the current queue instance was started on a spool (after a restart)
	idled    bool // a queue instance started on a non-empty spool scheduled nothing
	acked    bool // Commit returned: the message was acknowledged to whoever handed it over
	q        *Queue
	leaks    []string
	timedOut bool
	events   []string
	tag      string // "" or "queue B: " (prefix of the monitor's details)
	pfx      string // "" or "peer." (prefix of the distribution keys)
	dsnMode  int    // 0 no bounce pipeline, 1 one that accepts, 2 one that refuses at the body stage
	nreports, orphanReports int
	reportsElsewhere int // reports the OTHER queue of a two-queue case had generated before this one's Commit
	afterFirst func() // called once when the first run of attempts is over (or at the end of the history)
	planted  []string // leftover ID.meta.new files put beside the intact ID.meta before a restart: "class:cut/len"
	notPlanted int    // restarts with a leftover in the history at which there was no ID.meta any more
	prePlanted []string // files of the message's own names put into the spool before it was stored: "header.longer", ...
	preMetaLen int
	stored   *c10Stored // the message's spool files right after acceptance
}

// hasMeta: a live spool entry (a file *.meta) exists.
func (w *c10World) hasMeta() bool {
	ents, _ := os.ReadDir(w.spool)
	for _, e := range ents {
		if strings.HasSuffix(e.Name(), ".meta") {
			return true
		}
	}
	return false
}

// plantLeftover: the server was killed while updateMetadataOnDisk was writing ID.meta.new (os.Create,
// a partial write, no Sync, no rename): beside the intact ID.meta lies an ID.meta.new holding the first
// bytes of the same document - nothing (class 0), one byte, a quarter, half, cut inside the first
// recipient string, at the opening of the sender string, without the closing brace, complete but for
// the final newline, complete, cut inside a multi-byte character (else three quarters).
func (w *c10World) plantLeftover(cls byte) {
	ents, _ := os.ReadDir(w.spool)
	name := ""
	for _, e := range ents {
		if strings.HasSuffix(e.Name(), ".meta") {
			name = e.Name()
		}
	}
	if name == "" {
		w.notPlanted++
		return
	}
	data, err := os.ReadFile(filepath.Join(w.spool, name))
	if err != nil {
		w.notPlanted++
		return
	}
	n := len(data)
	cut := n
	after := func(marker string, extra, fallback int) int {
		if i := bytes.Index(data, []byte(marker)); i >= 0 {
			return i + len(marker) + extra
		}
		return fallback
	}
	switch cls {
	case '0':
		cut = 0
	case '1':
		cut = 1
	case '2':
		cut = n / 4
	case '3':
		cut = n / 2
	case '4':
		cut = after("\"To\":[\"", 1, n/3)
	case '5':
		cut = after("\"From\":\"", 0, n/5)
	case '6':
		cut = n - 2
	case '7':
		cut = n - 1
	case '8':
		cut = n
	default:
		cut = 3 * n / 4
		for i, b := range data {
			if b >= 0xc0 {
				cut = i + 1
				break
			}
		}
	}
	if cut < 0 {
		cut = 0
	}
	if cut > n {
		cut = n
	}
	if err := os.WriteFile(filepath.Join(w.spool, name+".new"), data[:cut], 0o666); err != nil {
		panic(err)
	}
	w.planted = append(w.planted, fmt.Sprintf("%c:%d/%d", cls, cut, n))
}

func c10NewWorld(steps []c10Step, secrets [][]byte) *c10World {
	spool, err := os.MkdirTemp("", "verif-c10-spool-")
	if err != nil {
		panic(err)
	}
	w := &c10World{spool: spool}
	w.tgt = &c10Target{holdAt: map[int]bool{}, spool: spool, secrets: secrets}
	for i, st := range steps {
		if st.restart {
			continue
		}
		if i+1 >= len(steps) || steps[i+1].restart {
			w.tgt.holdAt[len(w.tgt.attempts)] = true
		}
		w.tgt.attempts = append(w.tgt.attempts, st)
	}
	return w
}

func (w *c10World) cleanup() { os.RemoveAll(w.spool) }

// newQ starts a queue instance on the spool directory. idle: nothing is delivered by this instance.
func (w *c10World) newQ(idle bool) *Queue {
	mod, _ := NewQueue("", "queue", nil, nil)
	q := mod.(*Queue)
	q.initialRetryTime = 0
	q.retryTimeScale = 1
	q.postInitDelay = 0
	if idle {
		q.postInitDelay = time.Hour
	}
	q.maxTries = 1000
	q.location = w.spool
	q.Target = w.tgt
	q.hostname = "mx.example.org"
	q.Log = log.Logger{Out: c10LogOut{&w.logMu, &w.readErrs, &w.loaded, &w.terminal, func() { w.addReport(&c10Report{failed: true}) }}}
	if w.dsnMode > 0 {
		q.dsnPipeline = &c10DsnTarget{w: w, refuse: w.dsnMode == 2}
	}
	w.logMu.Lock()
	w.loaded = 0
	w.logMu.Unlock()
	w.tgt.mu.Lock()
	w.tgt.q = q
	w.tgt.mu.Unlock()
	if err := q.start(1); err != nil {
		panic(err)
	}
	w.q = q
	return q
}

func (w *c10World) scan(when string) {
	if l := c10ScanSpool(w.spool, w.tgt.secrets); l != "" {
		w.leaks = append(w.leaks, when+": "+l)
	}
}

// after a few time-outs the tree under test is evidently broken: do not spend a minute on every further case
var c10Timeouts int32

func (w *c10World) wait(want int) {
	limit := 60 * time.Second
	if atomic.LoadInt32(&c10Timeouts) >= 3 {
		limit = 500 * time.Millisecond
	}
	deadline := time.Now().Add(limit)
	panDeadline := deadline
	if limit > 10*time.Second {
		panDeadline = time.Now().Add(10 * time.Second)
	}
	var idleSince time.Time
	for {
		w.tgt.mu.Lock()
		done := w.tgt.done
		started := len(w.tgt.seen)
		pan := w.tgt.panicked
		w.tgt.mu.Unlock()
		w.logMu.Lock()
		re := w.readErrs
		ld := w.loaded
		w.logMu.Unlock()
		if pan {
			// the target panicked: dispatch's deferred handler (which runs AFTER deliveryWg.Done) marks the
			// entry as broken - the live ID.meta goes away; nothing is scheduled any more, by this instance
			// or (no ID.meta) by a later one
			if !w.hasMeta() {
				return
			}
			if time.Now().After(panDeadline) {
				w.timedOut = true
				atomic.AddInt32(&c10Timeouts, 1)
				return
			}
			time.Sleep(200 * time.Microsecond)
			continue
		}
		if done >= want || re > 0 {
			return
		}
		// a queue instance whose readDiskQueue did not report a single loaded entry and whose time
		// wheel is empty is not going to deliver anything: no need to sit out the whole limit (never
		// the case on a tree that schedules what is in its spool; half a second of grace for one that schedules
		// without saying so)
		if w.fromDisk && ld == 0 && started == done && c10WheelEmpty(w.q) {
			if idleSince.IsZero() {
				idleSince = time.Now()
			} else if time.Since(idleSince) > 500*time.Millisecond {
				w.idled = true
				return
			}
		} else {
			idleSince = time.Time{}
		}
		if !w.hasMeta() { // removeFromDisk removes ID.meta last (a leftover ID.meta.new may stay behind)
			return
		}
		if time.Now().After(deadline) {
			w.timedOut = true
			atomic.AddInt32(&c10Timeouts, 1)
			return
		}
		time.Sleep(200 * time.Microsecond)
	}
}

func c10WheelEmpty(q *Queue) bool {
	q.wheel.slotsLock.Lock()
	defer q.wheel.slotsLock.Unlock()
	return q.wheel.slots.Len() == 0
}

// drive plays the history on the real queue. The message is already stored (Body returned);
// committed says whether Commit was called (the first attempt is then already dispatched on w.q).
func (w *c10World) drive(steps []c10Step, committed bool) {
	i := 0
	planned := 0
	q := w.q
	for i < len(steps) {
		if !steps[i].restart {
			n := 0
			for i+n < len(steps) && !steps[i+n].restart {
				n++
			}
			planned += n
			w.wait(planned)
			q.deliveryWg.Wait()
			q.Close()
			w.scan(fmt.Sprintf("after the attempts ending at step %d", i+n))
			i += n
			w.runAfterFirst()
			w.logMu.Lock()
			re := w.readErrs
			w.readErrs = 0
			w.logMu.Unlock()
			w.tgt.mu.Lock()
			reached := w.tgt.done
			w.tgt.mu.Unlock()
			if re > 0 || reached < planned {
				// the queue stopped early (message finished, or it could not read its spool):
				// the remaining planned attempts of this segment never happen
				planned = reached
				if re > 0 {
					w.events = append(w.events, "readerr")
				}
			}
			continue
		}
		m := 0
		for i+m < len(steps) && steps[i+m].restart {
			m++
		}
		if i == 0 {
			// nothing was dispatched: crash between Body and Commit (`r`), or Commit answered by a
			// queue whose wheel was already stopped (`R`); Close is idempotent
			q.deliveryWg.Wait()
			q.Close()
		}
		for k := 0; k < m-1; k++ {
			if steps[i+k].left != 0 {
				w.plantLeftover(steps[i+k].left)
			}
			qi := w.newQ(true)
			qi.deliveryWg.Wait()
			qi.Close()
			w.scan(fmt.Sprintf("after the idle restart at step %d", i+k+1))
		}
		if steps[i+m-1].left != 0 {
			w.plantLeftover(steps[i+m-1].left)
		}
		i += m
		if i >= len(steps) {
			qi := w.newQ(true)
			qi.deliveryWg.Wait()
			qi.Close()
			w.scan("after the final restart")
			break
		}
		q = w.newQ(false)
		w.fromDisk = true
	}
	if len(steps) == 0 {
		q.Close()
	}
	w.runAfterFirst()
}

func (w *c10World) runAfterFirst() {
	if f := w.afterFirst; f != nil {
		w.afterFirst = nil
		f()
	}
}

// c10Observation renders what the recording target saw (canonical: strings as table indices).
func (w *c10World) observation(strs []string, id string) (string, string) {
	idx := map[string]int{}
	for i := len(strs) - 1; i >= 0; i-- {
		idx[strs[i]] = i
	}
	showS := func(s string) string {
		if i, ok := idx[s]; ok {
			return strconv.Itoa(i)
		}
		return "?" + vh.HexBytes([]byte(s))
	}
	showL := func(l []string) string {
		if len(l) == 0 {
			return "-"
		}
		var p []string
		for _, s := range l {
			p = append(p, showS(s))
		}
		return strings.Join(p, ".")
	}
	showM := func(m map[string]string) string {
		if len(m) == 0 {
			return "-"
		}
		type pr struct{ a, b string }
		var ps []pr
		for a, b := range m {
			ps = append(ps, pr{showS(a), showS(b)})
		}
		sort.Slice(ps, func(i, j int) bool {
			ai, _ := strconv.Atoi(ps[i].a)
			aj, _ := strconv.Atoi(ps[j].a)
			if ai != aj {
				return ai < aj
			}
			return ps[i].a+":"+ps[i].b < ps[j].a+":"+ps[j].b
		})
		var p []string
		for _, x := range ps {
			p = append(p, x.a+":"+x.b)
		}
		return strings.Join(p, ".")
	}
	w.tgt.mu.Lock()
	seen := w.tgt.seen
	w.tgt.mu.Unlock()
	obs := []string{w.stored.obs()}
	for _, s := range seen {
		cont := "hdr=- body=-"
		if s.gotBody {
			cont = fmt.Sprintf("hdr=%d.%d.%d body=%d.%d", s.nfields, len(s.hdr), c10Digest(s.hdr), s.bodyLen, s.bodyDigest)
		}
		bang := ""
		if s.panicked != 0 {
			bang = "!" // the target panicked in this attempt: what it had been handed until then
		}
		obs = append(obs, fmt.Sprintf("[from=%s to=%s f=%s%s%s orc=%s c=%s %s]%s", showS(s.from), showL(s.to),
			c10Bit(s.utf8), c10Bit(s.rtls), c10Bit(s.tro), showM(s.orc), c10Bit(s.conn), cont, bang))
		for _, rep := range s.reps {
			switch {
			case rep.failed:
				obs = append(obs, "rep[failed]")
			case !rep.gotBody || !rep.quotedOK:
				obs = append(obs, fmt.Sprintf("rep[to=%s u=%s hdr=?]", showL(rep.to), c10Bit(rep.utf8)))
			default:
				obs = append(obs, fmt.Sprintf("rep[to=%s u=%s hdr=%d.%d]", showL(rep.to), c10Bit(rep.utf8), len(rep.quoted), c10Digest(rep.quoted)))
			}
		}
	}
	// a spool read error can only follow the attempts served from memory
	obs = append(obs, w.events...)
	ents, _ := os.ReadDir(w.spool)
	fin := "end=removed"
	var names []string
	hasLive, hasBroken := false, false
	for _, e := range ents {
		n := e.Name()
		if strings.HasPrefix(n, id) {
			n = "ID" + n[len(id):]
		}
		if n == "ID.meta.new" && len(w.planted) > 0 {
			// the leftover the harness put there; the queue overwrites it with its next rewrite or never
			// looks at it again (the model has no such file)
			continue
		}
		hasLive = hasLive || n == "ID.meta"
		hasBroken = hasBroken || n == "ID.meta_broken"
		names = append(names, n)
	}
	sort.Strings(names)
	switch {
	case len(names) == 0:
	case hasBroken && !hasLive:
		// discardBroken after a panic of the target: ID.meta renamed, header and body stay
		fin = "end=broken:?"
		if blob, err := os.ReadFile(filepath.Join(w.spool, id+".meta_broken")); err == nil {
			m := &QueueMetadata{MsgMeta: &module.MsgMetadata{}}
			if json.Unmarshal(blob, m) == nil {
				fin = "end=broken:" + showL(m.To)
			}
		}
		if strings.Join(names, ",") != "ID.body,ID.header,ID.meta_broken" {
			fin += "(files:" + strings.Join(names, ",") + ")"
		}
	default:
		fin = "end=pending:?"
		if m, err := w.q.readMessageMeta(id); err == nil {
			fin = "end=pending:" + showL(m.To)
		}
		if strings.Join(names, ",") != "ID.body,ID.header,ID.meta" {
			fin += "(files:" + strings.Join(names, ",") + ")"
		}
	}
	if w.timedOut {
		fin += " TIMEOUT"
	}
	obs = append(obs, fin, "leak="+c10Bit(len(w.leaks) > 0))
	return strings.Join(obs, " "), fin
}

// monitor: the property itself, evaluated on the real execution against what was accepted.
// strictEnv: the envelope came through the real SMTP endpoint, nothing is outside the domain.
func (w *c10World) monitor(out *vh.Out, op string, acc *c10Accepted, strictEnv bool) {
	viol := func(sig, detail string) { out.Violation(sig, op, w.tag+detail) }
	for _, l := range w.leaks {
		viol("C10/credential-in-spool", l)
	}
	if w.timedOut {
		viol("C10/queue-did-not-settle", "the queue did not reach the planned attempt in time")
	}
	w.tgt.mu.Lock()
	seen := w.tgt.seen
	w.tgt.mu.Unlock()
	expectTo := append([]string{}, acc.to...)
	// the property speaks of "the recipients still pending": compared as a multiset, not as a sequence.
	// The FIRST attempt (from memory or, after a restart, from the spool) is handed the accepted list as
	// it is, an address the client gave twice included.  An attempt classifies every ADDRESS once
	// (Queue.tryDelivery, seenRcpts): what it leaves pending is the addresses the target's own answers
	// deferred, each ONCE (c10EachOnce) - so a later attempt must be handed exactly those, each once:
	// a recipient that disappears, one that appears, and an address handed over twice again are all
	// C10/pending-recipients-changed.
	eqL := func(a, b []string) bool {
		if len(a) != len(b) {
			return false
		}
		x := append([]string{}, a...)
		y := append([]string{}, b...)
		sort.Strings(x)
		sort.Strings(y)
		for i := range x {
			if x[i] != y[i] {
				return false
			}
		}
		return true
	}
	nrep := w.reportsElsewhere // failure reports generated (here or by the other queue) before the attempt
	for k, s := range seen {
		at := fmt.Sprintf("attempt %d: ", k+1)
		if nrep > 0 {
			at = fmt.Sprintf("attempt %d (%d failure report(s) generated before it): ", k+1, nrep)
		}
		for _, rep := range s.reps {
			if !rep.failed {
				nrep++
			}
		}
		if s.leak != "" {
			viol("C10/credential-in-spool", at+s.leak)
		}
		if !acc.wf {
			continue // header outside the property's domain (not something the parser accepts)
		}
		if !acc.envUTF8 && !strictEnv {
			// envelope outside the property's domain: the SMTP endpoint refuses addresses that are
			// not valid UTF-8 (fix commit, checked end to end by TestVerifC10Smtp); the model still
			// has to predict what encoding/json does to them (parameter `co`)
			continue
		}
		if s.from != acc.from {
			viol("C10/sender-changed", fmt.Sprintf("%ssender %q, accepted %q (original sender of the message %q)", at, s.from, acc.from, acc.ofrom))
		}
		if s.ofrom != acc.ofrom {
			viol("C10/original-sender-changed", fmt.Sprintf("%soriginal sender %q, accepted %q (sender %q)", at, s.ofrom, acc.ofrom, acc.from))
		}
		switch s.panicked {
		case 's', 'r':
			// the target panicked before it had been given all recipients: those it was given are pending ones
			if rest := c10MultisetMinus(expectTo, s.to); len(rest)+len(s.to) != len(expectTo) {
				viol("C10/pending-recipients-changed", fmt.Sprintf("%srecipients %q (then the target panicked), still pending %q", at, s.to, expectTo))
			}
		default:
			if !eqL(s.to, expectTo) {
				viol("C10/pending-recipients-changed", fmt.Sprintf("%srecipients %q, still pending %q", at, s.to, expectTo))
			}
		}
		if s.panicked == 0 {
			expectTo = c10EachOnce(s.answeredTemp)
		}
		if s.utf8 != acc.utf8 {
			viol("C10/smtputf8-changed", at+"SMTPUTF8 "+c10Bit(s.utf8))
		}
		if s.rtls != acc.rtls {
			viol("C10/requiretls-changed", at+"REQUIRETLS "+c10Bit(s.rtls))
		}
		if s.tro != acc.tro {
			viol("C10/tls-required-override-changed", at+"TLSRequireOverride "+c10Bit(s.tro))
		}
		if len(s.orc) != len(acc.orc) {
			viol("C10/original-rcpts-changed", fmt.Sprintf("%s%d entries, accepted %d", at, len(s.orc), len(acc.orc)))
		} else {
			for a, b := range acc.orc {
				if s.orc[a] != b {
					viol("C10/original-rcpts-changed", fmt.Sprintf("%s%q -> %q, accepted -> %q", at, a, s.orc[a], b))
					break
				}
			}
		}
		if !s.idOK {
			viol("C10/message-id-changed", at+"delivery id does not extend the accepted id")
		}
		if !s.gotBody {
			continue
		}
		if s.hdrErr != "" {
			viol("C10/content-unreadable", at+s.hdrErr)
		}
		if !bytes.Equal(s.hdr, acc.hdr) {
			viol("C10/header-bytes-changed", fmt.Sprintf("%sheader %s, accepted %s", at, vh.HexBytes(s.hdr), vh.HexBytes(acc.hdr)))
		}
		if !s.bodyEqual {
			viol("C10/body-bytes-changed", fmt.Sprintf("%sbody %d bytes digest %d, accepted %d bytes digest %d", at, s.bodyLen, s.bodyDigest, len(acc.body), c10Digest(acc.body)))
		}
		if s.lenMethod != s.bodyLen {
			viol("C10/body-len-mismatch", fmt.Sprintf("%sBuffer.Len() = %d but %d bytes can be read", at, s.lenMethod, s.bodyLen))
		}
	}
	w.monitorStored(out, op, acc, strictEnv)
	w.monitorPending(out, op, acc, strictEnv, seen, eqL)
	if acc.wf && len(w.events) > 0 {
		viol("C10/spool-unreadable", "the queue could not re-read a message it accepted (well-formed header)")
	}
	if len(seen) > len(w.tgt.attempts) {
		viol("C10/unplanned-attempt", fmt.Sprintf("%d attempts, history has %d", len(seen), len(w.tgt.attempts)))
	}
}

// monitorPending: the other half of the property. "What the queue hands to the downstream target
// is ... the recipients still pending ... on the first attempt, on retries, and after a restart":
// for as long as the target's OWN answers leave somebody pending (temporary failure; no delivery, no
// permanent failure, no exhausted retry budget - the harness allows 1000 tries), the message has to
// be attempted again when the history says so (the harness gives the queue a zero retry delay resp.
// a fresh non-idle instance and a generous time limit) and has to be in the spool, complete and
// unaltered, whenever the queue is at rest.  Judged from the recording target's answers and the
// spool files only - not from the model.
func (w *c10World) monitorPending(out *vh.Out, op string, acc *c10Accepted, strictEnv bool, seen []*c10Seen, eqL func(a, b []string) bool) {
	viol := func(sig, detail string) { out.Violation(sig, op, w.tag+detail) }
	if !acc.wf || (!acc.envUTF8 && !strictEnv) {
		return // outside the property's domain (see monitor)
	}
	if !w.acked {
		out.Stat(w.pfx+"pending-rule.not-applicable.never-acknowledged")
		return
	}
	pend := append([]string{}, acc.to...)
	for _, s := range seen {
		if s.panicked != 0 {
			// the downstream target PANICKED in this attempt: the queue's recover handler marks the entry
			// as broken (ID.meta -> ID.meta_broken, logged) - a recorded terminal outcome, for the
			// administrator to look at; no further attempt is due (what the spool holds from then on is
			// still subject to the credentials rule, and whatever IS handed over to the per-attempt rules)
			out.Stat(w.pfx + "pending-rule.not-applicable.marked-broken-after-a-panic-of-the-target")
			return
		}
		pend = c10EachOnce(s.answeredTemp) // an attempt leaves every deferred address pending ONCE (see monitor)
	}
	// the queue's own record of a terminal outcome (it gave the recipient up and owes a DSN: whether
	// THAT was right is C01/C18's business) ends the obligation for that recipient
	w.logMu.Lock()
	term := append([]string{}, w.terminal...)
	w.logMu.Unlock()
	if len(term) > 0 {
		var still []string
		for _, r := range pend {
			gone := false
			for _, t := range term {
				if t == r {
					gone = true
				}
			}
			if !gone {
				still = append(still, r)
			}
		}
		if len(still) != len(pend) {
			out.Stat(w.pfx+"pending-rule.terminal-outcome-recorded-for-a-deferred-recipient")
		}
		pend = still
	}
	if len(pend) == 0 {
		out.Stat(w.pfx+"pending-rule.nobody-pending-at-the-end")
		return
	}
	spoolState := func() (string, map[string][]byte) {
		ents, _ := os.ReadDir(w.spool)
		files := map[string][]byte{}
		var names []string
		for _, e := range ents {
			n := e.Name()
			if strings.HasPrefix(n, acc.id) {
				n = "ID" + n[len(acc.id):]
			}
			names = append(names, n)
			if n == "ID.header" || n == "ID.body" {
				files[n], _ = os.ReadFile(filepath.Join(w.spool, e.Name()))
			} else {
				files[n] = nil
			}
		}
		sort.Strings(names)
		if len(names) == 0 {
			return "empty", files
		}
		return strings.Join(names, ","), files
	}
	names, files := spoolState()
	after := "before any attempt"
	if len(seen) > 0 {
		after = fmt.Sprintf("after attempt %d", len(seen))
	}
	why := ""
	switch {
	case w.idled:
		why = " (the queue instance started on the spool scheduled nothing)"
	case w.timedOut:
		why = " (waited for the time limit)"
	}
	if len(seen) < len(w.tgt.attempts) {
		out.Stat(w.pfx+"pending-rule.violated.next-attempt-missing")
		viol("C10/pending-message-dropped", fmt.Sprintf("%s recipients %q were still pending (no terminal outcome), but attempt %d of the history never took place%s; spool: %s; accepted body %d bytes, header %d bytes",
			after, pend, len(seen)+1, why, names, len(acc.body), len(acc.hdr)))
		return
	}
	// at rest at the end of the history (possibly after further restarts)
	_, hasMeta := files["ID.meta"]
	hdrFile, hasHdr := files["ID.header"]
	bodyFile, hasBody := files["ID.body"]
	if !hasMeta || !hasHdr || !hasBody {
		out.Stat(w.pfx+"pending-rule.violated.left-the-spool")
		viol("C10/pending-message-dropped", fmt.Sprintf("%s recipients %q are still pending (no terminal outcome), but the message is not in the spool any more; spool: %s; accepted body %d bytes, header %d bytes",
			after, pend, names, len(acc.body), len(acc.hdr)))
		return
	}
	out.Stat(w.pfx+"pending-rule.checked.at-rest")
	if m, err := w.q.readMessageMeta(acc.id); err != nil {
		viol("C10/spool-unreadable", "at rest with recipients pending: "+err.Error())
	} else {
		if !eqL(m.To, pend) {
			viol("C10/pending-recipients-changed", fmt.Sprintf("at rest %s: the spool lists %q, still pending %q", after, m.To, pend))
		}
		if m.From != acc.from {
			viol("C10/sender-changed", fmt.Sprintf("at rest %s: the spool has sender %q, accepted %q", after, m.From, acc.from))
		}
		if m.MsgMeta == nil || m.MsgMeta.OriginalFrom != acc.ofrom {
			viol("C10/original-sender-changed", fmt.Sprintf("at rest %s: the spool's original sender is not the accepted one %q (sender %q)", after, acc.ofrom, acc.from))
		}
	}
	if blob, err := os.ReadFile(filepath.Join(w.spool, acc.id+".meta")); err == nil {
		if e := c10StrictMeta(blob); e != "" {
			viol("C10/spool-content-changed", fmt.Sprintf("at rest %s: ID.meta (%d bytes) is not the one JSON document the queue wrote: %s", after, len(blob), e))
		}
	}
	if !bytes.Equal(hdrFile, acc.hdr) {
		viol("C10/spool-content-changed", fmt.Sprintf("at rest %s: header file %d bytes digest %d, accepted %d bytes digest %d", after, len(hdrFile), c10Digest(hdrFile), len(acc.hdr), c10Digest(acc.hdr)))
	}
	if !bytes.Equal(bodyFile, acc.body) {
		viol("C10/spool-content-changed", fmt.Sprintf("at rest %s: body file %d bytes digest %d, accepted %d bytes digest %d", after, len(bodyFile), c10Digest(bodyFile), len(acc.body), c10Digest(acc.body)))
	}
}

// monitorStored: what the spool holds for the message right after the queue accepted it (Body returned,
// nothing dispatched yet) is what it accepted - whatever files of the same names were lying in the
// spool directory before: the header file byte for byte what textproto.WriteHeader makes of the
// accepted header, the body file the accepted body, ID.meta one JSON document and nothing else.
func (w *c10World) monitorStored(out *vh.Out, op string, acc *c10Accepted, strictEnv bool) {
	st := w.stored
	if st == nil || !acc.wf || (!acc.envUTF8 && !strictEnv) {
		return
	}
	viol := func(sig, detail string) { out.Violation(sig, op, w.tag+detail) }
	before := ""
	if len(w.prePlanted) > 0 {
		before = " (in the spool directory before: " + strings.Join(w.prePlanted, ", ") + ")"
	}
	if !st.hdrOK || !st.bodyOK {
		viol("C10/spool-content-changed", fmt.Sprintf("right after acceptance the spool has no readable header / body file: %s%s", st.names, before))
		return
	}
	if !st.hdrEq {
		viol("C10/spool-content-changed", fmt.Sprintf("right after acceptance: header file %d bytes digest %d, accepted %d bytes digest %d%s", st.hdrLen, st.hdrDig, len(acc.hdr), c10Digest(acc.hdr), before))
	}
	if !st.bodyEq {
		viol("C10/spool-content-changed", fmt.Sprintf("right after acceptance: body file %d bytes digest %d, accepted %d bytes digest %d%s", st.bodyLen, st.bodyDig, len(acc.body), c10Digest(acc.body), before))
	}
	if st.metaErr != "" {
		viol("C10/spool-content-changed", fmt.Sprintf("right after acceptance: ID.meta (%d bytes) is not the one JSON document the queue wrote: %s%s", st.metaLen, st.metaErr, before))
	}
}

// c10EachOnce: the addresses of l, each once, in the order of first occurrence (exact string
// equality: what the queue's walk over QueueMetadata.To with its seenRcpts set keeps).  Written out
// here, independent of the model and of the code under test.
func c10EachOnce(l []string) []string {
	var out []string
	for i, x := range l {
		first := true
		for _, y := range l[:i] {
			if x == y {
				first = false
				break
			}
		}
		if first {
			out = append(out, x)
		}
	}
	return out
}

// c10MultisetMinus: a without (one occurrence each of) the elements of b that occur in it.
func c10MultisetMinus(a, b []string) []string {
	rest := append([]string{}, a...)
	for _, x := range b {
		for i, y := range rest {
			if x == y {
				rest = append(rest[:i], rest[i+1:]...)
				break
			}
		}
	}
	return rest
}

func (w *c10World) stats(out *vh.Out, pfx string, steps []c10Step, acc *c10Accepted, fin string) {
	w.tgt.mu.Lock()
	seen := w.tgt.seen
	w.tgt.mu.Unlock()
	out.Stat(fmt.Sprintf("%s.attempts.%d", pfx, len(seen)))
	nr := 0
	for _, st := range steps {
		if st.restart {
			nr++
		}
	}
	out.Stat(fmt.Sprintf("%s.restarts.%d", pfx, nr))
	out.Stat(pfx + ".end." + strings.SplitN(fin, ":", 2)[0])
	if len(c10EachOnce(acc.to)) != len(acc.to) {
		// an envelope that lists an address twice: was the repeated address deferred (so that the
		// "each once" rule decides what a later attempt is handed), and did a later attempt take place?
		collapsed, later := false, false
		for i, s := range seen {
			if s.panicked != 0 {
				break
			}
			if collapsed && i > 0 {
				later = true
			}
			if len(c10EachOnce(s.answeredTemp)) != len(s.answeredTemp) {
				collapsed = true
			}
		}
		switch {
		case later:
			out.Stat(pfx + ".envelope-repeats-a-recipient.repeated-address-deferred.attempt-after-it")
		case collapsed:
			out.Stat(pfx + ".envelope-repeats-a-recipient.repeated-address-deferred.no-attempt-after-it")
		default:
			out.Stat(pfx + ".envelope-repeats-a-recipient.repeated-address-never-deferred")
		}
	}
	if len(acc.hdr) > 1<<20 {
		fromDisk := 0
		for i, s := range seen {
			if i > 0 && s.gotBody {
				fromDisk++
			}
		}
		out.Stat(fmt.Sprintf("%s.header>1MiB.attempts-with-body-after-the-first.%d", pfx, fromDisk))
	}
	switch n := len(acc.body); {
	case n == 0:
		out.Stat(pfx + ".body.empty")
	case n >= 1<<20:
		out.Stat(pfx + ".body.ge1MiB")
	case n >= 4096:
		out.Stat(pfx + ".body.ge4KiB")
	default:
		out.Stat(pfx + ".body.small")
	}
	// the spool path proper: an attempt that took place after a restart, by body size and header size
	restartSeen, afterRestart := false, false
	na := 0
	for _, st := range steps {
		if st.restart {
			restartSeen = true
		} else {
			if restartSeen && na < len(seen) {
				afterRestart = true
			}
			na++
		}
	}
	if afterRestart {
		cls := ""
		switch n := len(acc.body); {
		case n <= 2:
			cls = strconv.Itoa(n) + "B"
		case n < 4096:
			cls = "lt4KiB"
		case n <= 4097:
			cls = "4KiB+-1"
		case n < 32767:
			cls = "lt32KiB"
		case n <= 32769:
			cls = "32KiB+-1"
		case n < 1<<20-1:
			cls = "lt1MiB"
		case n <= 1<<20+1:
			cls = "1MiB+-1"
		default:
			cls = "gt1MiB"
		}
		out.Stat(pfx + ".attempt-after-restart.body-" + cls)
		if len(acc.fields) == 0 {
			out.Stat(pfx + ".attempt-after-restart.header-without-fields")
		}
		if len(steps) > 0 && steps[0].restart && steps[0].commit {
			out.Stat(pfx + ".first-attempt-after-restart.body-" + cls)
		}
	}
	if len(acc.fields) == 0 {
		out.Stat(pfx + ".header-without-fields")
	}
	out.Stat(pfx + ".wf" + c10Bit(acc.wf))
	out.Stat(pfx + ".envelope-utf8." + c10Bit(acc.envUTF8))
	if len(w.events) > 0 {
		out.Stat(pfx + ".readerr")
	}
	if acc.from == "" {
		out.Stat(pfx + ".null-sender")
	}
	if acc.ofrom != acc.from {
		if acc.ofrom == "" {
			out.Stat(pfx + ".sender-rewritten.from-null")
		} else {
			out.Stat(pfx + ".sender-rewritten.from-address")
		}
	}
	out.Stat(pfx + ".flags." + c10Bit(acc.utf8) + c10Bit(acc.rtls) + c10Bit(acc.tro))
	for _, s := range seen {
		if s.gotBody {
			out.Stat(pfx + ".attempt.with-content")
		} else {
			out.Stat(pfx + ".attempt.no-recipient-accepted")
		}
		if s.conn {
			out.Stat(pfx + ".attempt.from-memory-with-conn")
		}
	}
	out.Stat(fmt.Sprintf("%s.orc.%d", pfx, len(acc.orc)))
	for k, s := range seen {
		if s.panicked != 0 {
			src := "from-the-spool"
			if k == 0 && !(len(steps) > 0 && steps[0].restart) {
				src = "from-memory"
			}
			out.Stat(fmt.Sprintf("%s.target-panic.stage-%c.%s.conn-%s", pfx, s.panicked, src, c10Bit(s.conn)))
			out.Stat(pfx + ".target-panic." + strings.SplitN(fin, ":", 2)[0])
		}
	}
	for _, p := range w.planted {
		out.Stat(pfx + ".leftover-meta-new.class-" + p[:1])
		if strings.HasPrefix(p[2:], "0/") {
			out.Stat(pfx + ".leftover-meta-new.empty")
		} else if a := strings.SplitN(p[2:], "/", 2); a[0] == a[1] {
			out.Stat(pfx + ".leftover-meta-new.complete")
		} else {
			out.Stat(pfx + ".leftover-meta-new.truncated")
		}
	}
	if len(w.planted) > 0 {
		// an attempt took place after the restart that found the leftover
		na, after := 0, false
		for _, st := range steps {
			if st.restart && st.left != 0 {
				after = true
			} else if !st.restart {
				if after && na < len(seen) {
					out.Stat(pfx + ".leftover-meta-new.attempt-after-it")
					break
				}
				na++
			}
		}
	}
	if w.notPlanted > 0 {
		out.Stat(pfx + ".leftover-meta-new.no-entry-left")
	}
	for _, p := range w.prePlanted {
		out.Stat(pfx + ".leftover-before-acceptance." + p)
	}
	if w.preMetaLen > 0 || len(w.prePlanted) > 0 {
		if w.stored != nil && w.preMetaLen > 0 {
			switch {
			case w.preMetaLen > w.stored.metaLen:
				out.Stat(pfx + ".leftover-before-acceptance.meta-new.longer")
			case w.preMetaLen == w.stored.metaLen:
				out.Stat(pfx + ".leftover-before-acceptance.meta-new.same-length")
			default:
				out.Stat(pfx + ".leftover-before-acceptance.meta-new.shorter")
			}
		}
		src := map[bool]string{false: "from-memory", true: "from-the-spool"}
		for k, s := range seen {
			if s.gotBody {
				out.Stat(pfx + ".leftover-before-acceptance.attempt-with-content." + src[k > 0 || (len(steps) > 0 && steps[0].restart)])
			}
		}
	}
	for _, f := range acc.fields {
		if k := bytes.IndexByte(f, ':'); k > 0 && strings.EqualFold(strings.TrimSpace(string(f[:k])), "TLS-Required") {
			v := strings.ToLower(strings.Join(strings.Fields(string(f[k+1:])), " "))
			cls := "other-value"
			if v == "no" {
				cls = "no"
			}
			fromSpool := 0
			for k, s := range seen {
				if k > 0 || (len(steps) > 0 && steps[0].restart) {
					_ = s
					fromSpool++
				}
			}
			out.Stat(fmt.Sprintf("%s.header-with-tls-required.%s.override-%s.requiretls-%s.attempts-from-the-spool-%s", pfx, cls, c10Bit(acc.tro), c10Bit(acc.rtls), c10Bit(fromSpool > 0)))
			break
		}
	}
}

func c10Secrets(tag string) (user, pass string, secrets [][]byte) {
	userCore := "Us3rC0re" + tag + "x"
	passCore := "S3cr3tC0re" + tag + "y"
	user = userCore + "@auth.example"
	pass = "pw\"<" + passCore + ">&\\"
	secrets = [][]byte{[]byte(passCore), []byte(userCore),
		[]byte(base64.StdEncoding.EncodeToString([]byte(pass))), []byte(base64.StdEncoding.EncodeToString([]byte("\x00" + user + "\x00" + pass)))}
	return
}

// ---- running one queue-level case ----

func (w *c10World) reportCount() (generated, failed int) {
	w.tgt.mu.Lock()
	defer w.tgt.mu.Unlock()
	for _, s := range w.tgt.seen {
		for _, rep := range s.reps {
			if rep.failed {
				failed++
			} else {
				generated++
			}
		}
	}
	return
}

// reportStats: where the failure reports fall in the history (distribution).
func (w *c10World) reportStats(out *vh.Out, pfx string, acc *c10Accepted) {
	w.tgt.mu.Lock()
	seen := w.tgt.seen
	w.tgt.mu.Unlock()
	out.Stat(fmt.Sprintf("%s.bounce-pipeline.%d", pfx, w.dsnMode))
	n := w.reportsElsewhere
	for k, s := range seen {
		if n > 0 {
			out.Stat(pfx + ".attempt-after-a-report")
			if k == 0 {
				out.Stat(pfx + ".first-attempt-after-a-report-of-the-other-queue")
			}
			if s.gotBody {
				out.Stat(pfx + ".attempt-after-a-report.with-content")
			}
		}
		for _, rep := range s.reps {
			switch {
			case rep.failed:
				out.Stat(pfx + ".report.generation-failed")
			default:
				n++
				out.Stat(pfx + ".report.generated.utf8-" + c10Bit(rep.utf8) + ".message-utf8-" + c10Bit(acc.utf8))
				if k == 0 {
					out.Stat(pfx + ".report.after-an-attempt-from-memory")
				} else {
					out.Stat(pfx + ".report.after-an-attempt-from-the-spool")
				}
			}
		}
	}
	if w.orphanReports > 0 {
		out.Stat(pfx + ".report.before-any-attempt")
	}
}

func c10Run(out *vh.Out, op string) {
	c, err := c10ParseCase(op)
	if err != nil {
		out.Corr(op, "bad-op")
		out.Note("unparsable op: " + err.Error())
		return
	}
	bufDir, err := os.MkdirTemp("", "verif-c10-buf-")
	if err != nil {
		panic(err)
	}
	defer os.RemoveAll(bufDir)

	id, _ := module.GenerateMsgID()
	body := c10GenBody(c.bodyK, c.bodyLen, c.bodySeed)
	user, pass, secrets := c10Secrets(id)
	w := c10NewWorld(c.steps, secrets)
	defer w.cleanup()
	w.dsnMode = c.dsn
	str := func(i int) string { return c.strs[i] }
	acc := &c10Accepted{id: id, from: str(c.from), ofrom: str(c.ofrom), utf8: c.utf8, rtls: c.rtls, tro: c.tro, body: body, envUTF8: true}
	for _, i := range c.to {
		acc.to = append(acc.to, str(i))
	}
	for _, x := range c.strs {
		if !utf8.ValidString(x) {
			acc.envUTF8 = false
		}
	}
	w.tgt.toStrs = acc.to
	w.tgt.id = id
	w.tgt.accBody = body

	// a second queue fed by the same source (same metadata pointer, same header value, same body)
	peer := len(c.peerTo) > 0
	var wB *c10World
	var accB *c10Accepted
	if peer {
		wB = c10NewWorld(c.peerSteps, secrets)
		defer wB.cleanup()
		wB.dsnMode = c.dsn
		wB.tag, wB.pfx = "queue B: ", "peer."
		cp := *acc
		accB = &cp
		accB.to = nil
		for _, i := range c.peerTo {
			accB.to = append(accB.to, str(i))
		}
		wB.tgt.toStrs = accB.to
		wB.tgt.id = id
		wB.tgt.accBody = body
	}

	// --- accept the message
	q := w.newQ(false)
	ctx := context.Background()
	var orc map[string]string
	if !c.orcNil {
		orc = map[string]string{}
		for _, p := range c.orc {
			orc[str(p[0])] = str(p[1])
		}
	}
	if orc != nil {
		acc.orc = map[string]string{}
		for a, b := range orc {
			acc.orc[a] = b
		}
		if peer {
			accB.orc = acc.orc
		}
	}
	var conn *module.ConnState
	if c.auth > 0 {
		conn = &module.ConnState{Proto: "ESMTPSA", Hostname: "client.example.net",
			LocalAddr:  &net.TCPAddr{IP: net.IPv4(192, 0, 2, 1), Port: 587},
			RemoteAddr: &net.TCPAddr{IP: net.IPv4(198, 51, 100, 7), Port: 40001},
			TLS:        tls.ConnectionState{Version: tls.VersionTLS13, HandshakeComplete: true, ServerName: "mx.example.org"},
			RDNSName:   future.New()}
		conn.RDNSName.Set("client.example.net", nil)
		if c.auth == 2 {
			conn.AuthUser = user
			conn.AuthPassword = pass
		}
	}
	authParam := "authparam@example.org"
	opts := smtp.MailOptions{UTF8: c.utf8, RequireTLS: c.rtls, Size: int64(len(body)) + 100, Body: smtp.Body8BitMIME, EnvelopeID: "env-" + id}
	if c.auth == 2 {
		opts.Auth = &authParam
	}
	msgMeta := &module.MsgMetadata{ID: id, OriginalFrom: str(c.ofrom), DontTraceSender: c.dts, Quarantine: c.quar,
		OriginalRcpts: orc, SMTPOpts: opts, Conn: conn}
	if !c.late {
		msgMeta.TLSRequireOverride = c.tro
	}
	d, err := q.Start(ctx, msgMeta, str(c.from))
	if err != nil {
		panic(err)
	}
	for _, i := range c.to {
		if err := d.AddRcpt(ctx, str(i), smtp.RcptOptions{}); err != nil {
			panic(err)
		}
	}
	var dB module.Delivery
	if peer {
		qB := wB.newQ(false)
		if dB, err = qB.Start(ctx, msgMeta, str(c.from)); err != nil {
			panic(err)
		}
		for _, i := range c.peerTo {
			if err := dB.AddRcpt(ctx, str(i), smtp.RcptOptions{}); err != nil {
				panic(err)
			}
		}
	}
	if c.late { // endpoint/smtp sets the flag in DATA, after MAIL and RCPT went through the pipeline
		msgMeta.TLSRequireOverride = c.tro
	}
	var hdr textproto.Header
	for i := len(c.fields) - 1; i >= 0; i-- {
		f := c.fields[i]
		if f.gen {
			hdr.Add(f.k, f.v)
		} else {
			hdr.AddRaw(f.raw)
		}
	}
	closeAll := func() {
		q.Close()
		if peer {
			wB.q.Close()
		}
	}
	accFields, rawErr := c10RawFields(hdr)
	if rawErr != nil {
		out.Corr(op, "bad-op")
		out.Note("generated field cannot be formatted: " + rawErr.Error())
		closeAll()
		return
	}
	for i, f := range c.fields {
		if !bytes.Equal(accFields[i], f.raw) {
			out.Note("op line's raw bytes of a generated field differ from this tree's formatting: " + op[:80])
			break
		}
	}
	var accHdr bytes.Buffer
	textproto.WriteHeader(&accHdr, hdr)
	acc.hdr = accHdr.Bytes()
	acc.fields = accFields
	acc.wf = c10AllWF(accFields)
	if peer {
		accB.hdr, accB.fields, accB.wf = acc.hdr, acc.fields, acc.wf
	}

	var bodyBuf buffer.Buffer
	if c.bufKind == 'f' {
		bodyBuf, err = buffer.BufferInFile(bytes.NewReader(body), bufDir)
		if err != nil {
			panic(err)
		}
	} else {
		bodyBuf = buffer.MemoryBuffer{Slice: append([]byte(nil), body...)}
	}
	if c.pre.any() {
		w.plantPre(id, c.pre, len(acc.hdr), len(body))
		if peer {
			wB.plantPre(id, c.pre, len(acc.hdr), len(body))
		}
	}
	if err := d.Body(ctx, hdr, bodyBuf); err != nil {
		out.Corr(op, "body-rejected")
		out.Note("queue refused the body: " + err.Error())
		closeAll()
		return
	}
	w.captureStored(id, acc.hdr, body)
	w.scan("after Body")
	if peer {
		// the SAME header value and body buffer go to the second target (msgpipeline: one Body call per target)
		if err := dB.Body(ctx, hdr, bodyBuf); err != nil {
			out.Corr(op, "body-rejected")
			out.Note("queue B refused the body: " + err.Error())
			d.Abort(ctx)
			closeAll()
			return
		}
		wB.captureStored(id, acc.hdr, body)
		wB.scan("after Body")
	}
	// commit: ok=false - a stopping queue refused Commit
	commit := func(w *c10World, d module.Delivery, steps []c10Step) (committed, ok bool) {
		if len(steps) > 0 && (!steps[0].restart || steps[0].commit) {
			if steps[0].commit {
				// the server is shutting down while the transaction completes: Queue.Close has stopped the
				// time wheel, Commit is still answered - nothing is dispatched, the message is in the spool
				w.q.wheel.Close()
			}
			if err := d.Commit(ctx); err != nil {
				if !steps[0].commit {
					panic(err)
				}
				out.Note("a stopping queue refused Commit: " + err.Error())
				return false, false
			}
			w.acked = true
			return true, true
		}
		return false, true
	}
	committed, ok := commit(w, d, c.steps)
	if !ok {
		out.Corr(op, "commit-refused")
		closeAll()
		return
	}
	peerRefused := false
	if peer {
		// queue A gets as far as the end of its first run of attempts - with the failure reports these
		// give rise to - before the source commits to queue B: B's first attempt is served from the
		// in-memory metadata and header it shares with A and with the source
		w.afterFirst = func() {
			wB.reportsElsewhere, _ = w.reportCount()
			committedB, ok := commit(wB, dB, c.peerSteps)
			if !ok {
				peerRefused = true
				wB.q.Close()
				return
			}
			wB.drive(c.peerSteps, committedB)
		}
	}
	bodyBuf.Remove() // endpoint/smtp removes its buffer as soon as DATA returns (every target has stored its copy in Body)

	w.drive(c.steps, committed)
	if peerRefused {
		out.Corr(op, "commit-refused")
		return
	}
	obs, fin := w.observation(c.strs, id)
	if peer {
		obsB, _ := wB.observation(c.strs, id)
		obs += " || " + obsB
	}
	out.Corr(op, obs)
	w.monitor(out, op, acc, false)
	if peer {
		wB.monitor(out, op, accB, false)
	}
	// what the source still holds - the header value and the metadata object every target of the
	// message was given (and every later consumer will be given) - is still what the queue accepted
	c10SharedUnchanged(out, op, hdr, msgMeta, acc)

	// --- distribution
	w.stats(out, "run", c.steps, acc, fin)
	w.reportStats(out, "run", acc)
	if peer {
		out.Stat("run.two-queues")
		wB.reportStats(out, "peer", accB)
		wB.tgt.mu.Lock()
		out.Stat(fmt.Sprintf("peer.attempts.%d", len(wB.tgt.seen)))
		wB.tgt.mu.Unlock()
	}
	for _, f := range acc.fields {
		if k := bytes.IndexByte(f, ':'); k > 0 {
			switch strings.ToLower(strings.TrimSpace(string(f[:k]))) {
			case "bcc", "resent-bcc":
				out.Stat("run.header-with-bcc")
			}
		}
	}
	if len(c.steps) > 0 && c.steps[0].restart {
		if c.steps[0].commit {
			out.Stat("run.restart-after-commit-before-first-attempt")
		} else {
			out.Stat("run.crash-before-commit")
		}
	}
	out.Stat("run.buf." + string(c.bufKind))
	out.Stat(fmt.Sprintf("run.bodykind.%d", c.bodyK))
	out.Stat(fmt.Sprintf("run.auth.%d", c.auth))
	ng := 0
	for _, f := range c.fields {
		if f.gen {
			ng++
		}
	}
	out.StatN("run.fields.raw", len(c.fields)-ng)
	out.StatN("run.fields.generated", ng)
	if c.orcNil {
		out.Stat("run.orc.nil")
	}
}

// c10SharedUnchanged: the header value handed to Body and the metadata object handed to Start are
// shared - with the source, with every other target of the same message (msgpipeline hands the same
// two to each of them), with whoever looks at them later.  textproto.Header is a struct around a
// slice and a map: a by-value copy still shares both.  Whatever the queue did meanwhile (attempts,
// failure reports, restarts), they must still be what it accepted.
func c10SharedUnchanged(out *vh.Out, op string, hdr textproto.Header, m *module.MsgMetadata, acc *c10Accepted) {
	var hb bytes.Buffer
	if err := textproto.WriteHeader(&hb, hdr); err != nil {
		out.Violation("C10/shared-header-changed", op, "the header value the source holds cannot be written any more: "+err.Error())
	} else if !bytes.Equal(hb.Bytes(), acc.hdr) {
		out.Violation("C10/shared-header-changed", op, fmt.Sprintf("after the history the header value the source (and every other target of the message) holds is %s, accepted %s",
			c10Abbrev(hb.Bytes()), c10Abbrev(acc.hdr)))
	}
	var diffs []string
	if m.SMTPOpts.UTF8 != acc.utf8 {
		diffs = append(diffs, "SMTPOpts.UTF8 "+c10Bit(m.SMTPOpts.UTF8))
	}
	if m.SMTPOpts.RequireTLS != acc.rtls {
		diffs = append(diffs, "SMTPOpts.RequireTLS "+c10Bit(m.SMTPOpts.RequireTLS))
	}
	if m.TLSRequireOverride != acc.tro {
		diffs = append(diffs, "TLSRequireOverride "+c10Bit(m.TLSRequireOverride))
	}
	if m.ID != acc.id {
		diffs = append(diffs, "ID")
	}
	if len(m.OriginalRcpts) != len(acc.orc) {
		diffs = append(diffs, fmt.Sprintf("OriginalRcpts has %d entries, accepted %d", len(m.OriginalRcpts), len(acc.orc)))
	} else {
		for a, b := range acc.orc {
			if m.OriginalRcpts[a] != b {
				diffs = append(diffs, fmt.Sprintf("OriginalRcpts[%q] = %q, accepted %q", a, m.OriginalRcpts[a], b))
				break
			}
		}
	}
	if len(diffs) > 0 {
		out.Violation("C10/shared-metadata-changed", op, "after the history the metadata object the source (and every other target of the message) holds has "+strings.Join(diffs, "; "))
	}
}

func c10Abbrev(b []byte) string {
	if len(b) > 600 {
		return fmt.Sprintf("%s...(%d bytes, digest %d)", vh.HexBytes(b[:600]), len(b), c10Digest(b))
	}
	return vh.HexBytes(b)
}

// ---- generators ----

var c10Locals = []string{"user", "User.Name", "a+tag", "\"quoted local\"", "\"quo\\\"te\"", "\"a@b\"", "ю́зер", "用户", "x", "very.long." + strings.Repeat("l", 50),
	"amp&lt<gt>", "back\\slash", "sl/ash", "uni sep", "apo'strophe", "per%cent", "UPPER", "tab\"\t\"", "nul\"\x01\""}
var c10Domains = []string{"example.org", "EXAMPLE.ORG", "xn--e1afmkfd.example", "пример.example", "例え.jp", "sub.domain.example.com", "[192.0.2.1]", "xn--mnchen-3ya.de", "münchen.de", "a.b"}

func c10GenAddr(r *vh.Rng) string {
	a := c10Locals[r.Intn(len(c10Locals))] + "@" + c10Domains[r.Intn(len(c10Domains))]
	if r.Chance(2) { // not valid UTF-8 (outside what the endpoint should accept; see notes)
		a = "inv\xff\xfe" + a
	}
	return a
}

// edge cases (both for `C10 run` and `C10 smtp`): body sizes at the boundaries - empty, one and two
// bytes, around bufio's 4096 and io.Copy's 32 KiB buffers, around the endpoint's 1 MiB spill-to-file
// threshold - crossed with history shapes that put a restart before the first / the next attempt.
var c10EdgeSizes = []int{0, 1, 2, 4095, 4096, 4097, 32767, 32768, 32769, 1<<20 - 1, 1 << 20, 1<<20 + 1}

const c10EdgeShapes = 6

// c10EdgeHistory prefixes the generated history `rest` (which starts with an attempt on all
// recipients) according to the shape; allT = an attempt that leaves everybody pending.
func c10EdgeHistory(shape int, nrcpt int, rest []string, allowNoCommit bool) []string {
	allT := strings.Repeat("t", nrcpt)
	for len(rest) > 0 && (rest[0] == "r" || rest[0] == "R") {
		rest = rest[1:]
	}
	switch shape {
	case 0: // accepted, restart before the first attempt
		return append([]string{"R"}, rest...)
	case 1: // the same, two restarts in a row
		return append([]string{"R", "r"}, rest...)
	case 2: // everybody deferred, restart before the next attempt
		return append([]string{"aP" + allT, "r"}, rest...)
	case 3: // deferred by an atomic and by a partial target, two restarts, next attempt
		return append([]string{"aA" + allT, "aP" + allT, "r", "r"}, rest...)
	case 4: // crash between Body and Commit
		if allowNoCommit {
			return append([]string{"r"}, rest...)
		}
		return append([]string{"aA" + allT, "r"}, rest...)
	}
	// the history ends at rest after a restart with everybody pending
	return []string{"aP" + allT, "r"}
}

func c10GenRun(r *vh.Rng, big bool, edge int) string {
	strs := []string{""}
	add := func(s string) int {
		for i, x := range strs {
			if x == s {
				return i
			}
		}
		strs = append(strs, s)
		return len(strs) - 1
	}
	from := 0
	if !r.Chance(15) {
		from = add(c10GenAddr(r))
	}
	nr := 1 + r.Intn(4)
	if r.Chance(5) {
		nr = 5 + r.Intn(12)
	}
	var to []int
	for len(to) < nr {
		i := add(c10GenAddr(r))
		if i == 0 {
			continue
		}
		to = append(to, i)
	}
	if r.Chance(6) && nr > 1 { // duplicate recipient
		to[nr-1] = to[0]
	}
	orc := "-"
	if !r.Chance(20) {
		m := map[int]int{}
		for _, t := range to {
			if r.Chance(50) {
				m[t] = add(c10GenAddr(r))
			}
		}
		if r.Chance(30) {
			m[add(c10GenAddr(r))] = add(c10GenAddr(r))
		}
		var keys []int
		for k := range m {
			if k != 0 && m[k] != 0 {
				keys = append(keys, k)
			}
		}
		sort.Ints(keys)
		var ps []string
		for _, k := range keys {
			ps = append(ps, fmt.Sprintf("%d:%d", k, m[k]))
		}
		orc = strings.Join(ps, ".")
		if orc == "" {
			orc = "-" // an empty map and a nil map are the same mapping
		}
	}
	// history
	letterOf := map[int]byte{}
	var steps []string
	na := 1 + r.Intn(4)
	if r.Chance(10) {
		na = 5 + r.Intn(6)
	}
	if r.Chance(12) {
		if r.Chance(65) {
			steps = append(steps, "R") // accepted by a queue that is shutting down, restart before the first attempt
		} else {
			steps = append(steps, "r") // crash between Body and Commit
		}
		if r.Chance(30) {
			steps = append(steps, "r")
		}
	}
	keepPct := []int{30, 60, 85, 100}[r.Intn(4)]
	pending := append([]int(nil), to...)
	for a := 0; a < na && len(pending) > 0; a++ {
		kind := "P"
		if r.Chance(30) {
			kind = "A"
		}
		for _, t := range to {
			switch {
			case r.Chance(keepPct):
				letterOf[t] = "tq"[r.Intn(5)/4] // mostly t
			case r.Chance(25):
				letterOf[t] = 'p'
			default:
				letterOf[t] = 'o'
			}
		}
		if r.Chance(4) { // nobody accepted: the body is not handed over in this attempt
			for _, t := range to {
				letterOf[t] = "qp"[r.Intn(2)]
			}
		}
		var ls []byte
		for _, t := range to {
			ls = append(ls, letterOf[t])
		}
		steps = append(steps, "a"+kind+string(ls))
		bodyFail := false
		for _, t := range pending {
			if letterOf[t] == 't' {
				bodyFail = true
			}
		}
		var np []int
		for _, t := range pending {
			l := letterOf[t]
			if l == 'q' || (kind == "P" && l == 't') || (kind == "A" && (l == 'o' || l == 't') && bodyFail) {
				np = append(np, t)
			}
		}
		pending = np
		if r.Chance(3) { // an attempt step after the message is gone (nothing may happen)
			pending = append(pending, to[0])
		}
		for k := r.Intn(3) - 1 + r.Intn(2); k > 0 && (a+1 < na || r.Chance(30)); k-- {
			steps = append(steps, "r")
		}
	}
	if len(steps) == 0 || r.Chance(1) {
		steps = append(steps, "aP"+strings.Repeat("o", len(to)))
	}
	if edge >= 0 {
		steps = c10EdgeHistory((edge/len(c10EdgeSizes))%c10EdgeShapes, len(to), steps, true)
	}
	if big && len(steps) == 1 && steps[0][0] == 'a' {
		// big cases are there for the spool path: a first attempt that keeps everybody pending, a restart, the original attempt
		steps = []string{"aP" + strings.Repeat("t", len(to)), "r", steps[0]}
	}
	// header: what ReadHeader makes of a generated blob (as the endpoint does), plus fields the
	// pipeline adds (Header.Add), plus - rarely - junk through AddRaw (outside the property's domain)
	var fields []string
	if r.Chance(85) {
		ng := 1 + r.Intn(3)
		for i := 0; i < ng; i++ {
			var h textproto.Header
			k, v := c10GenAdded(r)
			h.Add(k, v)
			raw, err := h.Raw(k)
			if err != nil {
				continue
			}
			fields = append(fields, fmt.Sprintf("g:%s:%s:%s", vh.HexBytes([]byte(k)), c10HexOrEmpty([]byte(v)), vh.HexBytes(raw)))
		}
	}
	var parsed [][]byte
	for try := 0; try < 5 && parsed == nil; try++ {
		blob := c10GenBlobWF(r)
		h, err := textproto.ReadHeader(c10Reader(blob))
		if err == nil {
			parsed, _ = c10RawFields(h)
			if parsed == nil {
				parsed = [][]byte{}
			}
		}
	}
	for _, f := range parsed {
		fields = append(fields, "r:"+vh.HexBytes(f))
	}
	if edge >= 0 && (edge+edge/len(c10EdgeSizes))%3 == 0 {
		fields = nil // no field at all: the header blob is the blank line only
	}
	hugeHdr := big && r.Chance(50)
	if hugeHdr {
		// a header larger than any plausible "reasonable header" bound (1 MiB is the endpoint's DEFAULT
		// max_header_size; the limit is configurable and maddy prepends fields of its own): every line
		// at most 998 octets, the last fields short and distinctive so that a truncation shows
		total := []int{1<<20 + 300, 1<<20 + 70000, 2<<20 + 17}[r.Intn(3)]
		if vh.Thorough() && r.Chance(30) {
			total = 5<<20 + 11
		}
		sz := 0
		for i := 0; sz < total; i++ {
			f := []byte(fmt.Sprintf("X-Pad-%d: ", i))
			f = append(f, bytes.Repeat([]byte{byte('a' + i%26)}, 900+r.Intn(80))...)
			f = append(f, '\r', '\n')
			fields = append(fields, "r:"+vh.HexBytes(f))
			sz += len(f)
		}
		fields = append(fields, "r:"+vh.HexBytes([]byte("Subject: after the padding\r\n")), "r:"+vh.HexBytes([]byte("X-Last: 1\r\n")))
	}
	if r.Chance(4) && edge < 0 {
		bad := []int{1, 4, 7, 8, 9, 10}[r.Intn(6)]
		f := c10GenField(r, "\r\n", bad)
		if bytes.IndexByte(f, ':') < 0 {
			f = append([]byte("X:"), f...)
		}
		pos := r.Intn(len(fields) + 1)
		fields = append(fields[:pos], append([]string{"r:" + vh.HexBytes(f)}, fields[pos:]...)...)
	}
	hdr := "-"
	if len(fields) > 0 {
		hdr = strings.Join(fields, ",")
	}
	// body
	sizes := []int{0, 0, 1, 2, 17, 200, 1500, 4095, 4096, 4097, 32768, 70000}
	n := sizes[r.Intn(len(sizes))]
	if big && !hugeHdr {
		n = []int{1<<20 - 1, 1 << 20, 1<<20 + 1, 1<<20 + 4097, 3<<20 + 5}[r.Intn(5)]
	}
	kind := r.Intn(5)
	seed := r.Next() % 1000000007
	buf := "m"
	if r.Chance(35) || n >= 1<<20 {
		buf = "f"
	}
	if edge >= 0 {
		n = c10EdgeSizes[edge%len(c10EdgeSizes)]
		if sh := (edge / len(c10EdgeSizes)) % c10EdgeShapes; n >= 1<<19 && sh != 0 && sh != 2 && !vh.Thorough() {
			n = []int{0, 1, 2}[edge%3] // quick tier: the 1 MiB bodies only with a restart before the first / the next attempt
		}
		buf = []string{"m", "f"}[(edge/(len(c10EdgeSizes)*c10EdgeShapes)+edge/len(c10EdgeSizes)+edge)%2]
	}
	b := c10GenBody(kind, n, seed)
	body := fmt.Sprintf("%s:%d:%d:%d:%d", buf, kind, n, seed, c10Digest(b))
	// a second queue fed by the same source
	peerS := "-"
	if edge < 0 && !big && r.Chance(18) {
		var pt []string
		for n := 1 + r.Intn(3); len(pt) < n; {
			if i := add(c10GenAddr(r)); i != 0 {
				pt = append(pt, strconv.Itoa(i))
			}
		}
		peerS = strings.Join(pt, ".") + "/" + strings.Join(c10GenPeerHist(r, len(pt)), ".")
	}
	flags := c10Bit(r.Bool()) + c10Bit(r.Chance(35)) + c10Bit(r.Chance(35)) + c10Bit(r.Chance(20)) + c10Bit(r.Chance(30))
	auth := []int{0, 1, 2, 2, 2}[r.Intn(5)]
	late := c10Bit(r.Chance(50))
	dsn := []int{1, 1, 1, 1, 1, 1, 1, 2, 0, 0}[r.Intn(10)]
	return c10OpLine(strs, strings.Join(steps, "."), hdr, body, from, to, orc, flags, auth, late, dsn, peerS)
}

// c10OpLine completes the string table (what encoding/json does not give back unchanged; what has no
// representation in a failure report) and renders the op line.
func c10OpLine(strs []string, hist, hdr, body string, from int, to []int, orc, flags string, auth int, late string, dsn int, peer string) string {
	add := func(s string) int {
		for i, x := range strs {
			if x == s {
				return i
			}
		}
		strs = append(strs, s)
		return len(strs) - 1
	}
	// strings encoding/json does not give back unchanged (not valid UTF-8), with what comes back
	var jp []string
	for i, n := 0, len(strs); i < n; i++ {
		if t := c10JSONRoundTrip(strs[i]); t != strs[i] {
			jp = append(jp, fmt.Sprintf("%d:%d", i, add(t)))
		}
	}
	jtab := "-"
	if len(jp) > 0 {
		jtab = strings.Join(jp, ".")
	}
	// addresses a failure report for THIS message cannot name (address.SelectIDNA fails: no ASCII form
	// of a Unicode local part without SMTPUTF8, labels IDNA refuses, no '@')
	var xs []string
	for i, s := range strs {
		if i == 0 {
			continue
		}
		if _, err := address.SelectIDNA(flags[0] == '1', s); err != nil {
			xs = append(xs, strconv.Itoa(i))
		}
	}
	xtab := "-"
	if len(xs) > 0 {
		xtab = strings.Join(xs, ".")
	}
	var ss []string
	for _, s := range strs {
		ss = append(ss, vh.HexBytes([]byte(s)))
	}
	var ts []string
	for _, t := range to {
		ts = append(ts, strconv.Itoa(t))
	}
	return fmt.Sprintf("C10 run %s %s %s S=%s J=%s from=%d to=%s orc=%s f=%s auth=%d late=%s dsn=%d X=%s peer=%s", hist, hdr, body,
		strings.Join(ss, ","), jtab, from, strings.Join(ts, "."), orc, flags, auth, late, dsn, xtab, peer)
}

// c10GenPeerHist: the history of the second queue of a two-queue case (n recipients).
func c10GenPeerHist(r *vh.Rng, n int) []string {
	var steps []string
	if r.Chance(10) {
		steps = append(steps, "R")
	}
	na := 1 + r.Intn(3)
	keep := []int{40, 70, 100}[r.Intn(3)]
	for a := 0; a < na; a++ {
		kind := "P"
		if r.Chance(30) {
			kind = "A"
		}
		var ls []byte
		for i := 0; i < n; i++ {
			switch {
			case r.Chance(keep):
				ls = append(ls, "tq"[r.Intn(5)/4])
			case r.Chance(40):
				ls = append(ls, 'p')
			default:
				ls = append(ls, 'o')
			}
		}
		steps = append(steps, "a"+kind+string(ls))
		if r.Chance(35) && (a+1 < na || r.Chance(30)) {
			steps = append(steps, "r")
		}
	}
	return steps
}

// ---- bounce grid: failure reports between attempts, two queues, headers a report writer may touch ----

// Header fields a report generator (or whoever else gets hold of the header between attempts) has
// reasons to drop, rewrite or re-order: blind-copy recipients, trace fields, signatures, MIME fields.
var c10TouchyFields = []string{
	"Bcc: hidden@example.org, \"Second, Hidden\" <hidden2@example.net>\r\n",
	"bcc:hidden3@example.org\r\n",
	"Resent-Bcc: resent-hidden@example.org\r\n",
	"Return-Path: <bounces+tag@example.com>\r\n",
	"Received: from a.example (a.example [192.0.2.9])\r\n\tby mx.example.org with ESMTPS id 4242;\r\n\tTue, 29 Sep 2026 10:00:00 +0000\r\n",
	"Received: from b.example by a.example; Tue, 29 Sep 2026 09:59:00 +0000\r\n",
	"DKIM-Signature: v=1; a=rsa-sha256; d=example.com; s=sel;\r\n h=From:To:Subject:Bcc; bh=QUJDREVGRw==;\r\n b=abcdEFGH0123+/abcdEFGH0123+/\r\n",
	"Authentication-Results: mx.example.org; spf=pass smtp.mailfrom=example.com\r\n",
	"Content-Type: multipart/mixed; boundary=\"=_outer\"\r\n",
	"Content-Transfer-Encoding: 8bit\r\n",
	"MIME-Version: 1.0\r\n",
	"Message-Id: <original-id@example.com>\r\n",
	"Disposition-Notification-To: sender@example.com\r\n",
	"X-Original-To: alias@example.org\r\n",
	"Delivered-To: someone@example.org\r\n",
	"Subject: =?utf-8?b?0L/RgNC40LLQtdGC?= 8-bit \xd0\xbf\xd1\x80\r\n",
	"From: Sender <sender@example.com>\r\n",
	"To: undisclosed-recipients:;\r\n",
	"Auto-Submitted: no\r\n",
	"X-Empty:\r\n",
	"TLS-Required: No\r\n",
	"tls-required:\r\n no\r\n",
}

// bounce-grid histories: one line per step, letters for (the recipient that is given up first F, the
// one kept to the end K, every other recipient O)
var c10BounceShapes = [][]string{
	{"P:ptt", "P:oto", "r", "P:ooo"},            // report after the first (in-memory) attempt, retry, restart, delivered
	{"A:pqq", "r", "P:ott", "P:ooo"},            // atomic target, restart right after the report
	{"P:ptt", "P:opt", "r", "P:oop"},            // a report in every attempt, the last one removes the message
	{"R", "P:ptq", "P:oto", "P:ooo"},            // the first attempt (already from the spool) ends in a report
	{"P:ttt", "P:ptt", "r", "r", "P:oto", "r"},  // report in the second attempt, at rest with somebody pending
	{"P:pto", "P:otq", "P:oot", "r", "P:ooo"},   // report, two in-process retries, restart
	{"A:ptt", "A:ott", "r", "A:oop", "A:oto"},   // atomic: body-stage deferrals, a second report after the restart
	{"P:ptt", "r", "r", "P:ott", "P:opo", "P:oto", "P:ooo"},
}

func c10GenBounce(r *vh.Rng, k int) string {
	strs := []string{""}
	add := func(s string) int {
		for i, x := range strs {
			if x == s {
				return i
			}
		}
		strs = append(strs, s)
		return len(strs) - 1
	}
	uniLocals := []string{"ю́зер", "用户", "josé.núñez", "δοκιμή"}
	asciiAddr := func() string {
		for {
			a := c10Locals[r.Intn(len(c10Locals))] + "@" + c10Domains[r.Intn(len(c10Domains))]
			ok := true
			for i := 0; i < strings.IndexByte(a, '@'); i++ {
				if a[i] >= 0x80 {
					ok = false
				}
			}
			if ok {
				return a
			}
		}
	}
	uniAddr := func() string { return uniLocals[r.Intn(len(uniLocals))] + "@" + c10Domains[r.Intn(len(c10Domains))] }
	utf8opt := (k/2)%2 == 1
	from := 0
	switch {
	case k%16 == 15: // null sender: no report is due
	case k%5 == 0:
		from = add(uniAddr()) // the report has to name a sender with a Unicode local part
	default:
		from = add(asciiAddr())
	}
	nr := 2 + r.Intn(3)
	var to []int
	for len(to) < nr {
		a := asciiAddr()
		if len(to) == 0 && k%3 != 2 {
			a = uniAddr() // the recipient that is given up has a Unicode local part
		} else if r.Chance(20) {
			a = uniAddr()
		}
		if i := add(a); i != 0 {
			dup := false
			for _, t := range to {
				dup = dup || t == i
			}
			if !dup {
				to = append(to, i)
			}
		}
	}
	orc := "-"
	if k%4 != 3 {
		var ps []string
		if r.Chance(50) { // the failed recipient is reported under its original address
			o := asciiAddr()
			if r.Chance(30) {
				o = uniAddr()
			}
			if oi := add(o); oi != to[0] {
				ps = append(ps, fmt.Sprintf("%d:%d", to[0], oi))
			}
		}
		if r.Chance(60) { // a chain link / an entry of a recipient handled elsewhere
			a, b := add(asciiAddr()), add(asciiAddr())
			known := false
			for _, t := range to {
				known = known || t == a
			}
			if !known && a != b {
				ps = append(ps, fmt.Sprintf("%d:%d", a, b))
			}
		}
		if len(ps) > 0 {
			orc = strings.Join(ps, ".")
		}
	}
	// history
	expand := func(shape []string, n int) []string {
		var steps []string
		for _, st := range shape {
			if st == "r" || st == "R" {
				steps = append(steps, st)
				continue
			}
			ls := []byte{st[2]}
			if n > 1 {
				ls = append(ls, st[3])
			}
			for i := 2; i < n; i++ {
				l := st[4]
				if l == 't' && r.Chance(30) {
					l = "qo"[r.Intn(2)]
				}
				ls = append(ls, l)
			}
			steps = append(steps, "a"+st[:1]+string(ls))
		}
		return steps
	}
	steps := expand(c10BounceShapes[k%len(c10BounceShapes)], nr)
	peerS := "-"
	if k%3 != 0 {
		var pt []string
		var pti []int
		for n := 1 + r.Intn(2); len(pt) < n; {
			a := asciiAddr()
			if r.Chance(25) {
				a = uniAddr()
			}
			if i := add(a); i != 0 {
				pt = append(pt, strconv.Itoa(i))
				pti = append(pti, i)
			}
		}
		var ph []string
		switch (k / 3) % 4 {
		case 0:
			ph = []string{"P:tt", "P:oo"}
		case 1:
			ph = []string{"P:pt", "r", "P:ot", "P:oo"}
		case 2:
			ph = []string{"A:tt", "A:tt", "r", "P:po"}
		default:
			ph = []string{"R", "P:tp", "P:oo"}
		}
		peerS = strings.Join(pt, ".") + "/" + strings.Join(expand(ph, len(pti)), ".")
	}
	// header: trace field on top (added the way maddy adds it), then a mix of touchy fields with at least one Bcc
	var fields []string
	{
		var h textproto.Header
		v := "from client.example.net (client.example.net [198.51.100.7]) by mx.example.org with ESMTPS id deadbeef; Tue, 29 Sep 2026 10:00:00 +0000"
		h.Add("Received", v)
		if raw, err := h.Raw("Received"); err == nil {
			fields = append(fields, fmt.Sprintf("g:%s:%s:%s", vh.HexBytes([]byte("Received")), vh.HexBytes([]byte(v)), vh.HexBytes(raw)))
		}
	}
	nf := 2 + r.Intn(7)
	var mid []string
	for i := 0; i < nf; i++ {
		mid = append(mid, c10TouchyFields[r.Intn(len(c10TouchyFields))])
	}
	if k%8 != 7 { // (one case in eight without any blind-copy field)
		nb := 1 + r.Intn(2)
		for i := 0; i < nb; i++ {
			pos := []int{0, len(mid) / 2, len(mid)}[r.Intn(3)]
			b := c10TouchyFields[r.Intn(3)]
			mid = append(mid[:pos], append([]string{b}, mid[pos:]...)...)
		}
	}
	for _, f := range mid {
		fields = append(fields, "r:"+vh.HexBytes([]byte(f)))
	}
	if r.Chance(40) {
		if h, err := textproto.ReadHeader(c10Reader(c10GenBlobWF(r))); err == nil {
			parsed, _ := c10RawFields(h)
			for _, f := range parsed {
				fields = append(fields, "r:"+vh.HexBytes(f))
			}
		}
	}
	n := []int{0, 17, 200, 1500, 4097}[r.Intn(5)]
	kind := r.Intn(5)
	seed := r.Next() % 1000000007
	buf := []string{"m", "f"}[r.Intn(2)]
	body := fmt.Sprintf("%s:%d:%d:%d:%d", buf, kind, n, seed, c10Digest(c10GenBody(kind, n, seed)))
	flags := c10Bit(utf8opt) + c10Bit(r.Chance(35)) + c10Bit(r.Chance(35)) + c10Bit(r.Chance(20)) + c10Bit(r.Chance(30))
	dsn := 1
	if k%8 == 3 {
		dsn = 2
	} else if k%32 == 6 {
		dsn = 0
	}
	return c10OpLine(strs, strings.Join(steps, "."), strings.Join(fields, ","), body, from, to, orc, flags, []int{0, 1, 2}[r.Intn(3)], c10Bit(r.Chance(50)), dsn, peerS)
}

// ---- crash grid: a target that panics inside an attempt; a kill while ID.meta.new is being written ----

// c10DecorateHist puts, on top of a generated history, a leftover ID.meta.new at some of the restarts
// and - in panicPct % of the cases - a panic of the target into one attempt (half of the time the first).
func c10DecorateHist(r *vh.Rng, hist string, panicPct, leftPct int) string {
	steps := strings.Split(hist, ".")
	var att []int
	for i, st := range steps {
		switch {
		case st == "r" || st == "R":
			if r.Chance(leftPct) {
				steps[i] += "n" + string(byte('0'+r.Intn(10)))
			}
		case strings.HasPrefix(st, "a") && !strings.Contains(st, "!"):
			att = append(att, i)
		}
	}
	if len(att) > 0 && r.Chance(panicPct) {
		k := att[0]
		if r.Chance(50) {
			k = att[r.Intn(len(att))]
		}
		steps[k] += "!" + string("srbc"[r.Intn(4)])
	}
	return strings.Join(steps, ".")
}

// c10DecorateOp: the same for an op line (`C10 run` incl. the second queue's history, `C10 smtp`).
func c10DecorateOp(r *vh.Rng, op string, panicPct, leftPct int) string {
	t := strings.Fields(op)
	if len(t) < 3 {
		return op
	}
	t[2] = c10DecorateHist(r, t[2], panicPct, leftPct)
	if last := t[len(t)-1]; strings.HasPrefix(last, "peer=") && last != "peer=-" {
		if k := strings.IndexByte(last, '/'); k >= 0 {
			t[len(t)-1] = last[:k+1] + c10DecorateHist(r, last[k+1:], panicPct/2, leftPct)
		}
	}
	return strings.Join(t, " ")
}

// crash-grid histories: letters for (the first recipient, every other recipient); %s = the panic stage
// resp. the leftover class.  Every panic shape goes on with steps that must not take place.
var c10PanicShapes = [][]string{
	{"P:tt!%s", "r", "P:oo"},                  // first attempt, served from memory (connection state of the session still attached)
	{"A:tt!%s", "P:oo", "r", "P:oo"},          // the same with an atomic target
	{"R", "P:tt!%s", "r", "P:oo"},             // first attempt, already served from the spool
	{"P:tt", "P:to!%s", "r", "P:oo"},          // in-process retry
	{"P:to", "r", "A:tt!%s", "r", "r", "P:oo"}, // retry after a restart, some delivered before
	{"A:tq", "P:tp!%s", "P:oo"},               // a recipient given up (failure report) in the attempt that panics
}

var c10LeftoverShapes = [][]string{
	{"P:to", "rn%s", "P:oo"},                  // partial first attempt, kill in a later rewrite, restart, delivered
	{"P:tt", "P:to", "rn%s", "r", "A:tt", "P:oo"},
	{"Rn%s", "P:to", "P:oo"},                  // accepted by a stopping queue, leftover before the first attempt ever
	{"P:tt", "rn%s"},                          // at rest after the restart with everybody pending
	{"P:tp", "rn%s", "rn0", "P:oo", "r"},      // a failure report before, two restarts with leftovers
	{"A:tt", "rn%s", "P:tt!c", "r", "P:oo"},   // leftover, then the target panics in the attempt after the restart
}

func c10ExpandShape(shape []string, arg string, n int) string {
	var steps []string
	for _, st := range shape {
		if strings.Contains(st, "%s") {
			st = fmt.Sprintf(st, arg)
		}
		if st[0] == 'r' || st[0] == 'R' {
			steps = append(steps, st)
			continue
		}
		steps = append(steps, "a"+st[:1]+st[2:3]+strings.Repeat(st[3:4], n-1)+st[4:])
	}
	return strings.Join(steps, ".")
}

// c10GenCrash: case k of the crash grid - a generated message (header, body, envelope, options as for the
// random cases) under a grid history; three in four submitted over an authenticated session.
func c10GenCrash(r *vh.Rng, k int) string {
	t := strings.Fields(c10GenRun(r, false, -1))
	n := 1
	for _, tok := range t {
		if strings.HasPrefix(tok, "to=") {
			n = strings.Count(tok, ".") + 1
		}
	}
	np := len(c10PanicShapes) * 4
	if k < np {
		t[2] = c10ExpandShape(c10PanicShapes[k/4], string("srbc"[k%4]), n)
	} else {
		j := k - np
		t[2] = c10ExpandShape(c10LeftoverShapes[(j/10)%len(c10LeftoverShapes)], string(byte('0'+j%10)), n)
	}
	for i, tok := range t {
		if strings.HasPrefix(tok, "auth=") && k%4 != 3 {
			t[i] = "auth=2"
		}
	}
	return strings.Join(t, " ")
}

const c10CrashGrid = 6*4 + 6*10

// ---- header fields that speak about the envelope; leftover files of the message's own names ----

// The TLS-Required field (RFC 8689) in the spellings a header can carry it in: what the queue hands over
// as the TLS-Required OVERRIDE is the flag it accepted with the metadata, whatever the header says (the
// endpoint looks at the header once, before the queue; other sources set or do not set the flag on
// their own).  One entry = the raw fields put into the header, in order.
var c10TLSRequired = [][]string{
	{"TLS-Required: No\r\n"},
	{"tls-required: no\r\n"},
	{"TLS-REQUIRED: NO\r\n"},
	{"TLS-Required:No\r\n"},
	{"TLS-Required:\r\n No\r\n"},
	{"TLS-Required: \tNo \t\r\n"},
	{"TLS-Required : No\r\n"},
	{"Tls-Required:\r\n\t\r\n nO\r\n"},
	{"TLS-Required: No\r\n", "TLS-Required: No\r\n"},
	{"TLS-Required: Yes\r\n", "TLS-Required: No\r\n"},
	{"TLS-Required: No\r\n", "TLS-Required: Yes\r\n"},
	{"TLS-Required: Yes\r\n"},
	{"TLS-Required: No (RFC 8689)\r\n"},
	{"TLS-Required: N\r\n o\r\n"},
	{"TLS-Required:\r\n"},
	{"TLS-Required: \"No\"\r\n"},
	{"X-TLS-Required: No\r\n"},
	{"TLS-Required: None\r\n"},
}

// other fields a spool reader could be tempted to "restore" envelope data from
var c10EnvelopeFields = []string{
	"Return-Path: <someone-else@elsewhere.example>\r\n",
	"Return-Path: <>\r\n",
	"Delivered-To: someone-else@elsewhere.example\r\n",
	"X-Original-To: alias@elsewhere.example\r\n",
	"Original-Recipient: rfc822;alias@elsewhere.example\r\n",
	"X-Envelope-From: <someone-else@elsewhere.example>\r\n",
	"X-Envelope-To: <alias@elsewhere.example>\r\n",
	"Require-Recipient-Valid-Since: alias@elsewhere.example; Sat, 1 Jun 2013 09:23:01 -0700\r\n",
	"Content-Transfer-Encoding: 8bit\r\n",
	"Content-Type: text/plain; charset=utf-8\r\n",
	"X-Maddy-Sender: someone-else@elsewhere.example\r\n",
}

// c10GenEnvelopeFields: mostly a TLS-Required entry, sometimes with / instead one of the other fields.
func c10GenEnvelopeFields(r *vh.Rng) [][]byte {
	var out [][]byte
	if r.Chance(80) {
		for _, f := range c10TLSRequired[r.Intn(len(c10TLSRequired))] {
			out = append(out, []byte(f))
		}
	}
	if len(out) == 0 || r.Chance(30) {
		out = append(out, []byte(c10EnvelopeFields[r.Intn(len(c10EnvelopeFields))]))
	}
	return out
}

// c10InsertFields puts raw fields into the header token of a `C10 run` op line: as a block at the top,
// in the middle or at the bottom, or spread.
func c10InsertFields(r *vh.Rng, hdrTok string, add [][]byte) string {
	var fs []string
	if hdrTok != "-" {
		fs = strings.Split(hdrTok, ",")
	}
	pos := []int{0, len(fs) / 2, len(fs)}[r.Intn(3)]
	spread := r.Chance(25)
	for _, f := range add {
		if spread {
			pos = r.Intn(len(fs) + 1)
		}
		fs = append(fs[:pos], append([]string{"r:" + vh.HexBytes(f)}, fs[pos:]...)...)
		pos++
	}
	return strings.Join(fs, ",")
}

var c10PreDeltas = []string{"+1", "+2", "+17", "+300", "+4096", "+70000", "+0", "-1", "-5", "-300", "-100000000"}

func c10GenPreSpec(r *vh.Rng) c10Pre {
	p := c10Pre{"x", "x", "x"}
	for !p.any() {
		if r.Chance(60) {
			p.hdr = c10PreDeltas[r.Intn(len(c10PreDeltas))]
		}
		if r.Chance(75) {
			p.body = c10PreDeltas[r.Intn(len(c10PreDeltas))]
		}
		if r.Chance(40) {
			p.meta = []string{"0", "1", "150", "700", "3000", "100000"}[r.Intn(6)]
		}
	}
	return p
}

// c10DecorateRun: hdrPct % of the cases get header fields that speak about the envelope (whatever the
// flags of the case say), prePct % leftover files of the message's own names in the spool.
func c10DecorateRun(r *vh.Rng, op string, hdrPct, prePct int) string {
	t := strings.Fields(op)
	if len(t) != 16 {
		return op
	}
	if r.Chance(hdrPct) {
		t[3] = c10InsertFields(r, t[3], c10GenEnvelopeFields(r))
	}
	pre := "-"
	if r.Chance(prePct) {
		pre = c10GenPreSpec(r).String()
	}
	return strings.Join(t, " ") + " pre=" + pre
}

var c10PlainAddr = regexp.MustCompile(`^[a-z0-9.+-]+@[a-z0-9.-]+$`)

// c10DecorateFrom: pct % of the messages with a non-null sender carry an ORIGINAL sender
// (MsgMetadata.OriginalFrom) that is not the sender the queue is given: the null reverse-path (two thirds:
// the message arrived with <> / the source never set the field, and the sender was rewritten on the way) or
// another plain address of the case's string table.
func c10DecorateFrom(r *vh.Rng, op string, pct int) string {
	t := strings.Fields(op)
	if !r.Chance(pct) || len(t) < 9 || !strings.HasPrefix(t[5], "S=") || !strings.HasPrefix(t[7], "from=") || t[7] == "from=0" || strings.Contains(t[7], "/") {
		return op
	}
	of := 0
	if r.Chance(35) {
		var cand []int
		for i, h := range strings.Split(t[5][2:], ",") {
			if a := string(vh.UnhexBytes(h)); i > 0 && strconv.Itoa(i) != t[7][5:] && c10PlainAddr.MatchString(a) {
				cand = append(cand, i)
			}
		}
		if len(cand) > 0 {
			of = cand[r.Intn(len(cand))]
		}
	}
	t[7] += "/" + strconv.Itoa(of)
	return strings.Join(t, " ")
}

func c10NRcpt(t []string) int {
	for _, tok := range t {
		if strings.HasPrefix(tok, "to=") {
			return strings.Count(tok, ".") + 1
		}
	}
	return 1
}

// override grid: every TLS-Required spelling x (accepted override, REQUIRETLS) in all four combinations x
// histories with attempts read back from the spool (in-process retry, after a restart, the first attempt
// after `R`, an atomic target) - message otherwise generated like the random cases
var c10TroShapes = [][]string{
	{"P:tt", "P:oo"},
	{"P:to", "r", "P:oo"},
	{"R", "P:to", "P:oo"},
	{"A:tt", "r", "r", "A:tt", "P:oo"},
	{"P:tq", "P:tt", "r", "P:to", "r"},
}

func c10GenTro(r *vh.Rng, k int) string {
	t := strings.Fields(c10GenRun(r, false, -1))
	n := c10NRcpt(t)
	sp := k % len(c10TLSRequired)
	combo := (k / len(c10TLSRequired)) % 4
	t[2] = c10ExpandShape(c10TroShapes[(k+combo)%len(c10TroShapes)], "", n)
	var add [][]byte
	for _, f := range c10TLSRequired[sp] {
		add = append(add, []byte(f))
	}
	t[3] = c10InsertFields(r, t[3], add)
	for i, tok := range t {
		if strings.HasPrefix(tok, "f=") && len(tok) == 7 {
			t[i] = "f=" + tok[2:3] + c10Bit(combo&1 != 0) + c10Bit(combo&2 != 0) + tok[5:]
		}
		if strings.HasPrefix(tok, "peer=") && k%3 != 0 {
			t[i] = "peer=-"
		}
	}
	return strings.Join(t, " ")
}

// leftover grid: files ID.header / ID.body / ID.meta.new lying in the spool when the message with that
// ID is stored x what is read back when: the first attempt (FileBuffer over the spool's body file),
// in-process retry, after a restart, first attempt after `R` / after a crash before Commit, at rest
var c10PreShapes = [][]string{
	{"P:oo"},
	{"A:oo"},
	{"P:tt", "P:oo"},
	{"P:tt", "r", "P:oo"},
	{"R", "P:to", "P:oo"},
	{"A:tt", "r"},
	{"r", "P:oo"},
	{"P:tq", "rn8", "A:tt", "P:oo"},
}

var c10PreCombos = []c10Pre{
	{"+17", "+1", "x"}, {"x", "+4096", "x"}, {"+0", "+0", "x"}, {"-1", "-1", "x"}, {"-100000000", "-100000000", "0"},
	{"+5000", "x", "100000"}, {"x", "+70000", "5"}, {"x", "x", "100000"}, {"+1", "+2", "3000"}, {"x", "-300", "700"},
}

const c10PreGrid = 8 * 10

func c10GenPreGrid(r *vh.Rng, k int) string {
	t := strings.Fields(c10GenRun(r, false, -1))
	n := c10NRcpt(t)
	t[2] = c10ExpandShape(c10PreShapes[k%len(c10PreShapes)], "", n)
	for i, tok := range t {
		if strings.HasPrefix(tok, "peer=") && k%4 != 1 {
			t[i] = "peer=-"
		}
	}
	return strings.Join(t, " ") + " pre=" + c10PreCombos[(k/len(c10PreShapes))%len(c10PreCombos)].String()
}

// c10JSONRoundTrip: what encoding/json makes of a string (the model's parameter `co`).
func c10JSONRoundTrip(s string) string {
	b, err := json.Marshal(s)
	if err != nil {
		return "MARSHAL-ERROR"
	}
	var t string
	if err := json.Unmarshal(b, &t); err != nil {
		return "UNMARSHAL-ERROR"
	}
	return t
}

func c10HexOrEmpty(b []byte) string {
	if len(b) == 0 {
		return "-"
	}
	return vh.HexBytes(b)
}

// c10GenAdded: fields the way maddy's own modules add them (Header.Add: formatted and folded by
// go-message at write time).
func c10GenAdded(r *vh.Rng) (string, string) {
	switch r.Intn(6) {
	case 0:
		return "Received", "from client.example.net (client.example.net [198.51.100.7]) by mx.example.org (envelope-sender <" + c10GenAddr(r) + ">) with ESMTPS id deadbeef; Tue, 29 Sep 2026 10:00:00 +0000"
	case 1:
		return "Authentication-Results", "mx.example.org; spf=pass smtp.mailfrom=example.com; dkim=pass header.d=example.com; dmarc=pass header.from=example.com; " + strings.Repeat("x=y; ", r.Intn(40))
	case 2:
		return "DKIM-Signature", "v=1; a=rsa-sha256; c=relaxed/relaxed; d=example.org; s=sel; h=From:To:Subject; bh=" + strings.Repeat("QUJD", 11) + "; b=" + strings.Repeat("abcdEFGH0123+/", 20+r.Intn(60))
	case 3:
		return "X-Empty", ""
	case 4:
		return "X-Long-Word", strings.Repeat("w", []int{60, 75, 76, 77, 200, 997, 998, 1100, 2500}[r.Intn(9)])
	}
	return "X-Utf8", strings.Repeat("жёлтый 日本 ", 1+r.Intn(12)) + strings.Repeat(" ", r.Intn(3))
}

// c10GenBlobWF: a header blob as a client would send it (no deliberately broken fields), any line endings.
func c10GenBlobWF(r *vh.Rng) []byte {
	var b []byte
	mode := r.Intn(10)
	eol := func() string {
		switch {
		case mode <= 6:
			return "\r\n"
		case mode <= 8:
			return "\n"
		}
		return []string{"\r\n", "\n"}[r.Intn(2)]
	}
	n := r.Intn(7)
	if r.Chance(8) {
		n = 8 + r.Intn(30)
	}
	for i := 0; i < n; i++ {
		f := c10GenField(r, "\r\n", 0)
		reps := 1
		if r.Chance(12) {
			reps = 2
		}
		for ; reps > 0; reps-- {
			for _, ln := range bytes.SplitAfter(f, []byte("\r\n")) {
				if bytes.HasSuffix(ln, []byte("\r\n")) {
					b = append(b, ln[:len(ln)-2]...)
					b = append(b, eol()...)
				} else {
					b = append(b, ln...)
				}
			}
		}
	}
	b = append(b, eol()...)
	return b
}

// dispatch logs every recovered panic with its stack through the global logger
func c10QuietPanics() { log.DefaultLogger.Out = log.NopOutput{} }

func TestVerifC10Run(t *testing.T) {
	out := vh.Open("c10_run")
	defer out.Close()
	dontRecover = false
	c10QuietPanics()
	if ops := vh.Replay(); ops != nil {
		for _, op := range ops {
			if strings.HasPrefix(op, "C10 run ") {
				c10Run(out, op)
			}
		}
		return
	}
	r := vh.NewRng(vh.Seed() + 2010)
	n := vh.N(600) / 2
	nbig := 6
	if vh.Thorough() {
		nbig = 24
	}
	jobs := make(chan string, 32)
	var wg sync.WaitGroup
	for w := 0; w < 8; w++ {
		wg.Add(1)
		go func() {
			defer wg.Done()
			for op := range jobs {
				c10Run(out, op)
			}
		}()
	}
	rd := vh.NewRng(vh.Seed() + 2014)
	rp := vh.NewRng(vh.Seed() + 2015)
	ro := vh.NewRng(vh.Seed() + 2018)
	for i := 0; i < n; i++ {
		op := c10GenRun(r, i < nbig, -1)
		if i >= nbig {
			op = c10DecorateOp(rd, op, 10, 25)
			op = c10DecorateRun(rp, op, 30, 20)
			op = c10DecorateFrom(ro, op, 25)
		}
		jobs <- op
	}
	nedge := len(c10EdgeSizes) * c10EdgeShapes
	if vh.Thorough() {
		nedge *= 4
	}
	re := vh.NewRng(vh.Seed() + 2011)
	for e := 0; e < nedge; e++ {
		jobs <- c10GenRun(re, false, e)
	}
	// bounce grid: failure reports between attempts, one source feeding two queues, headers with Bcc
	// and other fields a report writer may touch, Unicode local parts without SMTPUTF8
	nbounce := 64
	if vh.Thorough() {
		nbounce *= 8
	}
	rb := vh.NewRng(vh.Seed() + 2012)
	for k := 0; k < nbounce; k++ {
		jobs <- c10GenBounce(rb, k)
	}
	// crash grid: the target panics at Start / AddRcpt / the body stage / Commit of the first attempt (from
	// memory, from the spool), of a retry, after a restart; restarts that find a leftover ID.meta.new
	// (empty, truncated at ten kinds of places, complete) beside the intact ID.meta
	ncrash := c10CrashGrid
	if vh.Thorough() {
		ncrash *= 4
	}
	rc := vh.NewRng(vh.Seed() + 2013)
	for k := 0; k < ncrash; k++ {
		jobs <- c10GenCrash(rc, k%c10CrashGrid)
	}
	// override grid and leftover grid (see c10GenTro, c10GenPreGrid)
	ntro, npre := 4*len(c10TLSRequired), c10PreGrid
	if vh.Thorough() {
		ntro, npre = ntro*4, npre*4
	}
	rt := vh.NewRng(vh.Seed() + 2016)
	for k := 0; k < ntro; k++ {
		jobs <- c10GenTro(rt, k)
	}
	rg := vh.NewRng(vh.Seed() + 2017)
	for k := 0; k < npre; k++ {
		jobs <- c10GenPreGrid(rg, k)
	}
	// fixed cases (whatever the seed): a message with an EMPTY body / with a header without a single
	// field, restarted before its first attempt resp. before its second one
	ha, hb := vh.HexBytes([]byte("a@example.org")), vh.HexBytes([]byte("b@example.org"))
	subj := "r:" + vh.HexBytes([]byte("Subject: x\r\n"))
	for _, f := range [][3]string{{"R.aPo", "-", "m:0:0:1:2166136261"}, {"aPt.r.aPo", subj, "f:0:0:1:2166136261"}, {"aAt.r.r.aPt.r", "-", "m:0:0:1:2166136261"},
		{"R.r.aAo", subj, "m:4:1:1:84696351"}, {"aPt.aPt.r.aPo", "-", "f:4:1:1:84696351"}} {
		jobs <- fmt.Sprintf("C10 run %s %s %s S=-,%s,%s J=- from=1 to=2 orc=- f=00000 auth=0 late=0 dsn=1 X=- peer=-", f[0], f[1], f[2], ha, hb)
	}
	// ... and with a failure report between attempts: one recipient given up in the first attempt while
	// another stays pending; a second queue whose first attempt comes after the first queue's report;
	// a Unicode local part to report for a message accepted without SMTPUTF8
	hf := func(f string) string { return "r:" + vh.HexBytes([]byte(f)) }
	bhdr := strings.Join([]string{hf("Received: from a.example by mx.example.org; Tue, 29 Sep 2026 10:00:00 +0000\r\n"), hf("From: s@example.com\r\n"),
		hf("Bcc: hidden@example.org\r\n"), hf("Subject: x\r\n")}, ",")
	fstrs := func() []string {
		return []string{"", "sender@example.com", "gone@example.org", "kept@example.org", "other@example.net", "ю́зер@example.org", "用户@例え.jp"}
	}
	small := "m:0:17:1:" + strconv.FormatUint(uint64(c10Digest(c10GenBody(0, 17, 1))), 10)
	jobs <- c10OpLine(fstrs(), "aPpt.aPot.r.aPoo", bhdr, small, 1, []int{2, 3}, "-", "00000", 0, "0", 1, "4/aPt.aPo")
	jobs <- c10OpLine(fstrs(), "aPpt.aPot.r.aPoo", bhdr, small, 1, []int{5, 3}, "-", "00000", 1, "0", 1, "-")
	jobs <- c10OpLine(fstrs(), "aApq.r.aPot.aPoo", bhdr, small, 1, []int{2, 3}, "2:6", "01100", 2, "1", 1, "4.5/aPtt.r.aPop")
	jobs <- c10OpLine(fstrs(), "aPtt.aPpt.r.aPot.r", bhdr, small, 6, []int{2, 3}, "-", "10000", 0, "0", 2, "4/R.aPt.aPo")
	// ... a target that panics in the first attempt of a message submitted over an authenticated session
	// (body stage; Start; the final Commit of a retry); a restart that finds a truncated ID.meta.new
	jobs <- c10OpLine(fstrs(), "aPto!b.r.aPoo", bhdr, small, 1, []int{2, 3}, "-", "00000", 2, "0", 1, "-")
	jobs <- c10OpLine(fstrs(), "aAtt!s.aPoo", bhdr, small, 1, []int{2, 3}, "2:6", "11100", 2, "1", 0, "-")
	jobs <- c10OpLine(fstrs(), "aPtt.aAot!c.r.aPoo", bhdr, small, 1, []int{5, 3}, "-", "10000", 2, "0", 1, "4/aPt!r.r.aPo")
	jobs <- c10OpLine(fstrs(), "aPto.rn3.aPoo", bhdr, small, 1, []int{2, 3}, "-", "00000", 2, "0", 1, "-")
	jobs <- c10OpLine(fstrs(), "aPot.rn4.r.aAtt.rn6.aPoo", bhdr, small, 1, []int{2, 3}, "2:6", "01100", 1, "1", 1, "-")
	jobs <- c10OpLine(fstrs(), "Rn1.aPto.rn9.aPpo", bhdr, small, 1, []int{5, 3}, "-", "10000", 0, "0", 1, "-")
	// ... a TLS-Required: No field in the header of a message accepted WITHOUT the override (with and without
	// REQUIRETLS) and a retry / a restart; leftover files of the message's own names, longer / as long as /
	// shorter than what is stored
	thdr := strings.Join([]string{hf("From: s@example.com\r\n"), hf("TLS-Required: No\r\n"), hf("Subject: x\r\n")}, ",")
	jobs <- c10OpLine(fstrs(), "aPtt.aPoo", thdr, small, 1, []int{2, 3}, "-", "00000", 0, "0", 1, "-")
	jobs <- c10OpLine(fstrs(), "aPto.r.aPoo", thdr, small, 1, []int{2, 3}, "-", "01000", 2, "1", 1, "-")
	jobs <- c10OpLine(fstrs(), "R.aAtt.aPoo", strings.Join([]string{hf("tls-required:\r\n NO\r\n"), hf("Subject: x\r\n")}, ","), small, 1, []int{2, 3}, "-", "10000", 0, "0", 1, "4/aPt.aPo")
	jobs <- c10OpLine(fstrs(), "aPoo", bhdr, small, 1, []int{2, 3}, "-", "00000", 0, "0", 1, "-") + " pre=+17,+9,x"
	jobs <- c10OpLine(fstrs(), "aPtt.r.aPoo", bhdr, small, 1, []int{2, 3}, "-", "00000", 2, "0", 1, "-") + " pre=x,+1,x"
	jobs <- c10OpLine(fstrs(), "aAtt.r", bhdr, small, 1, []int{2, 3}, "-", "00000", 0, "0", 1, "-") + " pre=+5,x,100000"
	jobs <- c10OpLine(fstrs(), "aPtt.aPto.r.aPoo", bhdr, small, 1, []int{2, 3}, "-", "00000", 0, "0", 1, "4/aPt.aPo") + " pre=+0,+0,3000"
	jobs <- c10OpLine(fstrs(), "R.aPoo", bhdr, small, 1, []int{2, 3}, "-", "00000", 0, "0", 1, "-") + " pre=-3,-3,0"
	// ... a sender that is not the original one: the message arrived with the null reverse-path (or the source
	// never set OriginalFrom) resp. with another address and was rewritten before the queue - first attempt,
	// in-process retry, after a restart, restarted before the first attempt, with a second queue
	for _, of := range []string{"0", "4"} {
		rw := func(op string) string { return strings.Replace(op, " from=1 ", " from=1/"+of+" ", 1) }
		jobs <- rw(c10OpLine(fstrs(), "aPoo", bhdr, small, 1, []int{2, 3}, "-", "00000", 0, "0", 1, "-"))
		jobs <- rw(c10OpLine(fstrs(), "aPtt.aPto.r.aPoo", bhdr, small, 1, []int{2, 3}, "-", "00000", 2, "0", 1, "-"))
		jobs <- rw(c10OpLine(fstrs(), "R.aAtt.r.aPpo", bhdr, small, 1, []int{2, 3}, "2:6", "10000", 1, "1", 1, "4/aPt.r.aPo"))
		jobs <- rw(c10OpLine(fstrs(), "aPpt.aPot.r", bhdr, small, 1, []int{2, 3}, "-", "00000", 0, "0", 2, "-"))
	}
	close(jobs)
	wg.Wait()
	_ = errors.New
}
