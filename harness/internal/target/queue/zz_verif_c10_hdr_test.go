package queue

// C10 — header bytes: the REAL textproto.ReadHeader / WriteHeader (the functions storeNewMessage,
// openMessage and the SMTP endpoint call) against the Lean model `MaddyVerif.Wire`.
//
//   C10 parse <hex blob>            ReadHeader(blob)                      -> ok <n> <raw fields> | err:<kind>
//   C10 rt <hexfield>,<hexfield>..  ReadHeader(WriteHeader(AddRaw fields)) -> the same + same=<0|1> wf=<0|1>

import (
	"bufio"
	"bytes"
	"fmt"
	"strings"
	"testing"

	"github.com/emersion/go-message/textproto"
	"github.com/foxcpp/maddy/internal/verifshim/vh"
)

// c10RawFields returns the raw bytes of every field in wire order.
func c10RawFields(h textproto.Header) ([][]byte, error) {
	var out [][]byte
	for f := h.Fields(); f.Next(); {
		b, err := f.Raw()
		if err != nil {
			return nil, err
		}
		out = append(out, append([]byte(nil), b...))
	}
	return out, nil
}

func c10ShowFields(fs [][]byte) string {
	if len(fs) == 0 {
		return "-"
	}
	parts := make([]string, len(fs))
	for i, f := range fs {
		parts[i] = vh.HexBytes(f)
	}
	return strings.Join(parts, ",")
}

func c10ParseFieldsHex(s string) [][]byte {
	if s == "-" || s == "" {
		return nil
	}
	var out [][]byte
	for _, p := range strings.Split(s, ",") {
		out = append(out, vh.UnhexBytes(p))
	}
	return out
}

func c10ErrKind(err error) string {
	m := err.Error()
	switch {
	case strings.Contains(m, "malformed MIME header initial line"):
		return "err:initial"
	case strings.Contains(m, "malformed MIME header line"):
		return "err:nocolon"
	case strings.Contains(m, "malformed MIME header key"):
		return "err:badkey"
	}
	return "err:other(" + m + ")"
}

func c10ShowRead(h textproto.Header, err error) (string, [][]byte) {
	if err != nil {
		return c10ErrKind(err), nil
	}
	fs, rerr := c10RawFields(h)
	if rerr != nil {
		return "err:raw(" + rerr.Error() + ")", nil
	}
	return fmt.Sprintf("ok %d %s", len(fs), c10ShowFields(fs)), fs
}

// c10HeaderFromRaw builds a header whose fields, in wire order, have exactly these raw bytes.
func c10HeaderFromRaw(fs [][]byte) textproto.Header {
	var h textproto.Header
	for i := len(fs) - 1; i >= 0; i-- {
		h.AddRaw(fs[i])
	}
	return h
}

func c10ValidKeyByte(c byte) bool { return c >= 33 && c <= 126 && c != ':' }
func c10IsWSP(c byte) bool        { return c == ' ' || c == '\t' }

// c10WF: the well-formedness predicate of the theorem (`Wire.WFField`), written from its text:
// name *WSP ":" text CRLF *( WSP text CRLF ), name = 1*(printable ASCII except ':'), no LF in any text.
func c10WF(f []byte) bool {
	i := 0
	for i < len(f) && c10ValidKeyByte(f[i]) {
		i++
	}
	if i == 0 {
		return false
	}
	for i < len(f) && c10IsWSP(f[i]) {
		i++
	}
	if i >= len(f) || f[i] != ':' {
		return false
	}
	i++
	first := true
	for {
		if !first {
			if i == len(f) {
				return true
			}
			if !c10IsWSP(f[i]) {
				return false
			}
		}
		first = false
		j := bytes.IndexByte(f[i:], '\n')
		if j < 1 || f[i+j-1] != '\r' {
			return false
		}
		i += j + 1
	}
}

func c10AllWF(fs [][]byte) bool {
	for _, f := range fs {
		if !c10WF(f) {
			return false
		}
	}
	return true
}

func c10EqFields(a, b [][]byte) bool {
	if len(a) != len(b) {
		return false
	}
	for i := range a {
		if !bytes.Equal(a[i], b[i]) {
			return false
		}
	}
	return true
}

func c10Parse(out *vh.Out, op string) {
	toks := strings.Fields(op)
	blob := vh.UnhexBytes(toks[2])
	h, err := textproto.ReadHeader(bufio.NewReader(bytes.NewReader(blob)))
	obs, fs := c10ShowRead(h, err)
	out.Corr(op, obs)
	if err != nil {
		out.Stat("parse." + strings.SplitN(obs, "(", 2)[0])
		return
	}
	out.Stat("parse.ok")
	out.StatN("parse.fields", len(fs))
	// monitor: whatever the endpoint's parser accepts must survive the spool's write + re-read
	var buf bytes.Buffer
	if werr := textproto.WriteHeader(&buf, h); werr != nil {
		out.Violation("C10/accepted-header-not-writable", op, werr.Error())
		return
	}
	h2, err2 := textproto.ReadHeader(bufio.NewReader(bytes.NewReader(buf.Bytes())))
	if err2 != nil {
		out.Violation("C10/accepted-header-not-rereadable", op, err2.Error())
		return
	}
	fs2, _ := c10RawFields(h2)
	if !c10EqFields(fs, fs2) {
		out.Violation("C10/accepted-header-changed-by-spool", op, fmt.Sprintf("accepted %s re-read %s", c10ShowFields(fs), c10ShowFields(fs2)))
	}
	if !c10AllWF(fs) {
		// Wire.C10_accepted_fields_wf says this cannot happen; a hit means model and parser differ
		out.Violation("C10/accepted-field-not-wellformed", op, c10ShowFields(fs))
	}
}

func c10RT(out *vh.Out, op string) {
	toks := strings.Fields(op)
	fs := c10ParseFieldsHex(toks[2])
	h := c10HeaderFromRaw(fs)
	var buf bytes.Buffer
	if werr := textproto.WriteHeader(&buf, h); werr != nil {
		out.Corr(op, "err:write")
		return
	}
	h2, err := textproto.ReadHeader(bufio.NewReader(bytes.NewReader(buf.Bytes())))
	obs, fs2 := c10ShowRead(h2, err)
	same := err == nil && c10EqFields(fs, fs2)
	wf := c10AllWF(fs)
	out.Corr(op, fmt.Sprintf("%s same=%s wf=%s", obs, c10Bit(same), c10Bit(wf)))
	out.Stat("rt.wf" + c10Bit(wf) + ".same" + c10Bit(same))
	if wf && !same {
		out.Violation("C10/header-roundtrip", op, "well-formed raw fields changed by WriteHeader+ReadHeader: "+obs)
	}
}

func c10Reader(b []byte) *bufio.Reader { return bufio.NewReader(bytes.NewReader(b)) }

func c10Bit(b bool) string {
	if b {
		return "1"
	}
	return "0"
}

// ---- generators ----

var c10Keys = []string{"Subject", "Received", "DKIM-Signature", "From", "To", "Cc", "Message-ID", "Date", "X-Spam-Flag",
	"TLS-Required", "Content-Type", "MIME-Version", "received", "SUBJECT", "x", "X-!#$%&'*+-.^_`|~", "Authentication-Results",
	"Content-Transfer-Encoding", "List-Unsubscribe", "X-a.b/c=d?e", "Bcc", "Return-Path", "Delivered-To", "Content-Length", "bcc", "Resent-From"}

func c10GenText(r *vh.Rng) []byte {
	var b []byte
	switch r.Intn(12) {
	case 0: // empty value
		return nil
	case 1: // white space only
		for i := r.Intn(4) + 1; i > 0; i-- {
			b = append(b, " \t"[r.Intn(2)])
		}
		return b
	case 2: // very long, no spaces (crosses 998 and the 4096-byte bufio buffer)
		n := []int{997, 998, 999, 1200, 4090, 4094, 4095, 4096, 4097, 5000, 8192, 9000}[r.Intn(12)]
		for i := 0; i < n; i++ {
			b = append(b, byte('a'+r.Intn(26)))
		}
		if r.Chance(40) {
			// CR near the buffer boundary / at the end
			b[len(b)-1-r.Intn(3)] = '\r'
		}
		return b
	case 3: // 8-bit: UTF-8 and raw high bytes
		for i := r.Intn(20) + 1; i > 0; i-- {
			switch r.Intn(4) {
			case 0:
				b = append(b, []byte("жёлтый")...)
			case 1:
				b = append(b, byte(0x80+r.Intn(0x80)))
			case 2:
				b = append(b, []byte("日本")...)
			default:
				b = append(b, ' ', byte('A'+r.Intn(26)))
			}
		}
		return b
	case 4: // control bytes: NUL, bare CR, DEL, colon-rich
		for i := r.Intn(12) + 1; i > 0; i-- {
			b = append(b, []byte{0, '\r', 0x7f, ':', ':', ' ', 'x', 1, 0x0b, 0x0c}[r.Intn(10)])
		}
		return b
	}
	for i := r.Intn(8) + 1; i > 0; i-- {
		if len(b) > 0 {
			b = append(b, ' ')
			if r.Chance(10) {
				b = append(b, ' ', '\t')
			}
		}
		for j := r.Intn(9) + 1; j > 0; j-- {
			b = append(b, "abcdefghijklmnopqrstuvwxyzABCXYZ0123456789<>@.;=/+-_\"()"[r.Intn(55)])
		}
	}
	return b
}

// c10GenField returns one raw field; eol is the line terminator used inside it ("\r\n" for the
// well-formed form).  bad selects a deliberately ill-shaped variant.
func c10GenField(r *vh.Rng, eol string, bad int) []byte {
	var b []byte
	key := c10Keys[r.Intn(len(c10Keys))]
	if r.Chance(5) {
		key = ""
		for i := r.Intn(80) + 1; i > 0; i-- {
			key += string(rune(33 + r.Intn(94)))
		}
		key = strings.ReplaceAll(key, ":", "-")
	}
	switch bad {
	case 1:
		key = "" // empty key: the parser skips the field
	case 2:
		key = "Bad Key"
	case 3:
		key = "K\x80ey"
	case 4:
		key = " " + key // leading white space
	case 5:
		key = "K\rey"
	}
	b = append(b, key...)
	if r.Chance(12) || bad == 1 && r.Chance(50) {
		for i := r.Intn(3) + 1; i > 0; i-- {
			b = append(b, " \t"[r.Intn(2)])
		}
	}
	if bad != 6 {
		b = append(b, ':')
	}
	if r.Chance(85) {
		b = append(b, ' ')
	}
	b = append(b, c10GenText(r)...)
	b = append(b, eol...)
	nc := 0
	if r.Chance(40) {
		nc = 1 + r.Intn(4)
	}
	for i := 0; i < nc; i++ {
		b = append(b, " \t"[r.Intn(2)])
		b = append(b, c10GenText(r)...)
		b = append(b, eol...)
	}
	switch bad {
	case 7: // LF in the middle that is followed by a non-blank: really two lines
		b = append(b, "oops no colon"...)
		b = append(b, eol...)
	case 8: // missing final line terminator
		b = b[:len(b)-len(eol)]
	case 9: // bare LF folding inside a raw field
		b = append(b[:len(b)-len(eol)], '\n', ' ', 'x', '\r', '\n')
	case 10: // an empty line inside the field
		b = append(b, '\r', '\n', ' ', 'y', '\r', '\n')
	}
	return b
}

func c10GenHeaderRaw(r *vh.Rng, badPct int) [][]byte {
	n := r.Intn(7)
	if r.Chance(10) {
		n = 8 + r.Intn(40)
	}
	if r.Chance(3) {
		n = 0
	}
	var fs [][]byte
	for i := 0; i < n; i++ {
		bad := 0
		if r.Chance(badPct) {
			bad = 1 + r.Intn(10)
			if bad == 6 {
				bad = 7 // AddRaw panics without a colon; the parse stream covers that
			}
		}
		f := c10GenField(r, "\r\n", bad)
		if bytes.IndexByte(f, ':') < 0 {
			f = append([]byte("X:"), f...)
		}
		fs = append(fs, f)
		if r.Chance(15) { // duplicate field
			fs = append(fs, append([]byte(nil), f...))
		}
	}
	return fs
}

func c10GenBlob(r *vh.Rng) []byte {
	var b []byte
	mode := r.Intn(10) // 0-5 CRLF, 6-7 LF, 8-9 mixed
	eol := func() string {
		switch {
		case mode <= 5:
			return "\r\n"
		case mode <= 7:
			return "\n"
		}
		return []string{"\r\n", "\n"}[r.Intn(2)]
	}
	badPct := []int{0, 0, 0, 10, 30}[r.Intn(5)]
	if r.Chance(4) {
		b = append(b, " \t"[r.Intn(2)]) // initial white space
	}
	n := r.Intn(8)
	for i := 0; i < n; i++ {
		bad := 0
		if r.Chance(badPct) {
			bad = 1 + r.Intn(10)
		}
		f := c10GenField(r, "\r\n", bad)
		// re-terminate every physical line with the blob's line ending
		for _, ln := range bytes.SplitAfter(f, []byte("\r\n")) {
			if bytes.HasSuffix(ln, []byte("\r\n")) {
				b = append(b, ln[:len(ln)-2]...)
				b = append(b, eol()...)
			} else {
				b = append(b, ln...)
			}
		}
	}
	switch r.Intn(8) {
	case 0: // header without the blank line (EOF)
	case 1:
		b = append(b, '\r') // lone CR at EOF
	default:
		b = append(b, eol()...)
		if r.Chance(60) {
			b = append(b, "body line\r\n second: line\r\n\r\nmore"...)
		}
	}
	return b
}

func TestVerifC10Header(t *testing.T) {
	out := vh.Open("c10_hdr")
	defer out.Close()
	if ops := vh.Replay(); ops != nil {
		for _, op := range ops {
			switch {
			case strings.HasPrefix(op, "C10 parse "):
				c10Parse(out, op)
			case strings.HasPrefix(op, "C10 rt "):
				c10RT(out, op)
			}
		}
		return
	}
	r := vh.NewRng(vh.Seed() + 1010)
	n := vh.N(600)
	for i := 0; i < n; i++ {
		c10Parse(out, "C10 parse "+vh.HexBytes(c10GenBlob(r)))
		badPct := []int{0, 0, 5, 25}[r.Intn(4)]
		c10RT(out, "C10 rt "+c10ShowFields(c10GenHeaderRaw(r, badPct)))
	}
	// fixed corner cases
	for _, s := range []string{"", "\r\n", "\n", "\r", "A:b", "A:b\r", "A:b\r\r\n", "A:b\n c\n\td\n\n", ":x\r\nB:c\r\n\r\n", "A\r\n :b\r\n\r\n",
		"A: b\r\n \r\n\t\r\nB: c\r\n\r\n", "A:\r\nA:\r\nA:\r\n\r\n", " A: b\r\n\r\n", "\tA: b\r\n", "A b\r\n\r\n", "A: b\r\n\r\n C: d\r\n\r\n", "\r\r\n", "A:b\r\n\r\r\n"} {
		c10Parse(out, "C10 parse "+vh.HexBytes([]byte(s)))
	}
}
