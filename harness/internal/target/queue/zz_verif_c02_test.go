package queue

// C02 — spool crash safety.  queue.go is compiled against internal/verifshim/vos instead of os
// (overlay copy made at check time), so every file-system call of the queue is recorded together
// with the state of the message's files before it.  A scenario is run once on the REAL queue; from
// the records the spool directory is rebuilt as a crash would leave it before every mutating call,
// in the middle of every write, and with un-synced data lost; a fresh REAL queue is started on
// every such directory (recursively: the recovery run is recorded and crashed again) with a
// recording target and bounce target.
//
//   correspondence: per message id, the whole history as model choices (see lean/Driver/C02.lean)
//                   ⇒ what the last run did to that id (calls, attempts, deliveries, reports) and
//                   the files it left;
//   monitor:        the property itself on the real events (independent of the model); in
//                   particular, for EVERY recovery run (explorer and hand-made directories) and every
//                   complete stored message it starts from: each pending recipient is attempted and
//                   is then delivered, named in a failure report, or still pending in a loadable
//                   .meta (c02Account).
//
// Envelopes are spelled in several legitimate ways (c02Envs: plain, null reverse-path,
// internationalised + SMTPUTF8, quoted local parts, mixed); recovery runs are scripted with
// temporary and permanent failures from their first attempt on.  Bodies may be empty (header-only
// message: the body file exists with length 0, no write call is made for it) or a single byte,
// headers may have no field or fields with an empty value.  Recovery runs are made with
// max_parallelism 1, 2 or 4 on directories that hold up to five stored messages, and hand-made
// backlogs (`C02 backlog …`: 3-5 complete messages, max_parallelism 1-2, first attempts failing
// temporarily) are run to quiescence.  A run that stops making progress while the queue still owes
// a delivery is abandoned and reported (C02/recovery-hang, and C02/accepted-lost for the messages it
// never attempted) with an op line that reproduces it — never waited for as a harness failure.

import (
	"bufio"
	"bytes"
	"context"
	"crypto/tls"
	"encoding/json"
	"errors"
	"fmt"
	"io"
	"math"
	"net"
	"os"
	"path/filepath"
	"sort"
	"strconv"
	"strings"
	"sync"
	"sync/atomic"
	"testing"
	"time"

	"github.com/emersion/go-message/textproto"
	"github.com/emersion/go-smtp"
	"github.com/foxcpp/maddy/framework/buffer"
	"github.com/foxcpp/maddy/framework/exterrors"
	"github.com/foxcpp/maddy/framework/future"
	"github.com/foxcpp/maddy/framework/log"
	"github.com/foxcpp/maddy/framework/module"
	"github.com/foxcpp/maddy/internal/verifshim/vh"
	"github.com/foxcpp/maddy/internal/verifshim/vos"
)

// ---------------------------------------------------------------- addresses, contents

// Envelope spellings (the `env` letter of a scenario / of a hand-made metadata file):
//
//	p  plain: sender@example.com, r1@a1.example                     (the default; not printed in op lines)
//	i  internationalised + SMTPUTF8: absender@bücher.example, r1ü@a1.bücher.example
//	q  quoted local parts: "the sender"@example.com, "r 1"@a1.example
//	m  plain sender, recipients 1,2,3 spelled plain / internationalised / quoted, SMTPUTF8
//	n  null reverse-path (MAIL FROM:<>, a bounce relayed through the queue), plain recipients
//	z  null reverse-path, recipients spelled as in m
//
// All of them are legitimate envelopes; the queue has to treat them alike, except that no failure
// report can be produced for the null reverse-path.
const c02Envs = "piqmnz"

func c02EnvOK(env byte) bool { return strings.IndexByte(c02Envs, env) >= 0 }

func c02EnvNull(env byte) bool { return env == 'n' || env == 'z' }

func c02EnvUTF8(env byte) bool { return env == 'i' || env == 'm' || env == 'z' }

// c02Sender: reverse-path of the envelope (From and MsgMeta.OriginalFrom are the same here).
func c02Sender(env byte) string {
	switch env {
	case 'n', 'z':
		return ""
	case 'i':
		return "absender@bücher.example"
	case 'q':
		return "\"the sender\"@example.com"
	}
	return "sender@example.com"
}

func c02RcptKind(env byte, idx int) byte {
	switch env {
	case 'i':
		return 'i'
	case 'q':
		return 'q'
	case 'm', 'z':
		return "qpi"[idx%3]
	}
	return 'p'
}

func c02AddrE(env byte, idx int, id string) string {
	switch c02RcptKind(env, idx) {
	case 'i':
		return fmt.Sprintf("r%dü@%s.bücher.example", idx, id)
	case 'q':
		return fmt.Sprintf("\"r %d\"@%s.example", idx, id)
	}
	return fmt.Sprintf("r%d@%s.example", idx, id)
}

func c02Addr(idx int, id string) string { return c02AddrE('p', idx, id) }

// c02AddrG: the address of c02AddrE made apad bytes longer (size dimension, token G<a>,<e>): "+pppp…" is appended to
// the local part (inside the quotes of a quoted one) — sub-addressing, a legitimate spelling.
func c02AddrG(env byte, idx int, id string, apad int) string {
	a := c02AddrE(env, idx, id)
	if apad <= 0 {
		return a
	}
	at := strings.LastIndexByte(a, '@')
	local, dom := a[:at], a[at:]
	pad := "+" + strings.Repeat("p", apad-1)
	if strings.HasSuffix(local, "\"") {
		return local[:len(local)-1] + pad + "\"" + dom
	}
	return local + pad + dom
}

// c02Grow is the size dimension of a case: every recipient address is apad bytes longer, every error text the
// scripted target returns (and every error text of a hand-made meta-data file) epad bytes longer.
type c02Grow struct {
	apad, epad int
	tm         c02Sched // the retry schedule the queue is configured with (token `W…`; rides along with the size dimension)
	conn       int      // the origin of the accepted messages (token `Y<k>`, c02Origin; rides along like `W`)
}

// c02Origin: where the messages of a `run` scenario come from — the module.MsgMetadata the transaction is started
// with.  0 (no token) is what the harness always used: no connection state, DontTraceSender set.  The other forms are
// the ones the endpoints of a running server produce; the stored meta-data record has to be loadable by the next
// process for every one of them (the queue's own encoder / decoder pair decides that, not the harness).
//
//	Y1 mail received by the MX endpoint from a network peer: Conn with TCP addresses (IPv4), HELO name, ESMTP, traced
//	Y2 the same over TLS from an IPv6 peer (zone set), with a resolved rDNS future, traced
//	Y3 Submission: Conn with addresses, AuthUser / AuthPassword set, DontTraceSender
//	Y4 locally generated but traced: no Conn, DontTraceSender false
//	Y5 LMTP over a unix socket (net.UnixAddr), rDNS future that resolved to nil, traced
//	Y6 Conn present but without addresses (a source that only knows the protocol), traced
func c02Origin(k int, id string) (conn *module.ConnState, dontTrace bool) {
	switch k {
	case 1:
		return &module.ConnState{Proto: "ESMTP", Hostname: "peer.example.org",
			LocalAddr:  &net.TCPAddr{IP: net.IPv4(192, 0, 2, 1), Port: 25},
			RemoteAddr: &net.TCPAddr{IP: net.IPv4(198, 51, 100, 7), Port: 41234}}, false
	case 2:
		f := future.New()
		f.Set("peer6.example.org", nil)
		c := &module.ConnState{Proto: "ESMTPS", Hostname: "[IPv6:2001:db8::7]",
			LocalAddr:  &net.TCPAddr{IP: net.ParseIP("2001:db8::1"), Port: 25},
			RemoteAddr: &net.TCPAddr{IP: net.ParseIP("fe80::7"), Port: 50000, Zone: "eth0"},
			RDNSName:   f}
		c.TLS.HandshakeComplete = true
		c.TLS.Version = tls.VersionTLS13
		c.TLS.CipherSuite = tls.TLS_AES_128_GCM_SHA256
		c.TLS.ServerName = "mx.example.org"
		return c, false
	case 3:
		return &module.ConnState{Proto: "ESMTPSA", Hostname: "laptop.local",
			LocalAddr:  &net.TCPAddr{IP: net.IPv4(192, 0, 2, 1), Port: 587},
			RemoteAddr: &net.TCPAddr{IP: net.IPv4(203, 0, 113, 9), Port: 60111},
			AuthUser:   "user@example.org", AuthPassword: "secret-" + id}, true
	case 4:
		return nil, false
	case 5:
		f := future.New()
		f.Set(nil, nil)
		return &module.ConnState{Proto: "LMTP", Hostname: "localhost",
			LocalAddr:  &net.UnixAddr{Name: "/run/maddy/lmtp.sock", Net: "unix"},
			RemoteAddr: &net.UnixAddr{Name: "@", Net: "unix"}, RDNSName: f}, false
	case 6:
		return &module.ConnState{Proto: "ESMTP", Hostname: "nowhere.example.org"}, false
	}
	return nil, true
}

func c02OriginToken(k int) string {
	if k == 0 {
		return ""
	}
	return "Y" + strconv.Itoa(k)
}

func c02ParseOrigin(t string) (int, bool) {
	if len(t) != 2 || t[0] != 'Y' || t[1] < '1' || t[1] > '6' {
		return 0, false
	}
	return int(t[1] - '0'), true
}

// c02GenOrigin: a third of the `run` scenarios accept mail that has an origin; half of those the MX case.
func c02GenOrigin(r *vh.Rng) int {
	if !r.Chance(34) {
		return 0
	}
	return []int{1, 1, 2, 2, 1, 3, 4, 5, 6, 5}[r.Intn(10)]
}

func (g c02Grow) token() string {
	var t []string
	if g.apad != 0 || g.epad != 0 {
		t = append(t, fmt.Sprintf("G%d,%d", g.apad, g.epad))
	}
	if s := g.tm.token(); s != "" {
		t = append(t, s)
	}
	if s := c02OriginToken(g.conn); s != "" {
		t = append(t, s)
	}
	return strings.Join(t, " ")
}

func c02ParseGrow(t string) (c02Grow, bool) {
	if len(t) < 4 || t[0] != 'G' {
		return c02Grow{}, false
	}
	p := strings.Split(t[1:], ",")
	if len(p) != 2 {
		return c02Grow{}, false
	}
	a, e1 := strconv.Atoi(p[0])
	e, e2 := strconv.Atoi(p[1])
	if e1 != nil || e2 != nil || a < 0 || e < 0 || a > 200 || e > 100000 {
		return c02Grow{}, false
	}
	return c02Grow{apad: a, epad: e}, true
}

// c02Sched: the retry schedule of the queue under test — token `W<i>,<s>,<p>`: initial_retry_time i microseconds,
// retry_time_scale s/100, post-init delay p microseconds.  The zero value (no token) is the configuration of the
// repo's own test helpers the harness always used: 0, scale 1, 0 — in which every delay formula collapses to
// "at once".  A production set-up has initial_retry_time 15m, retry_time_scale 1.25 and a post-init delay of 10 s: the
// shape (non-zero, scale factor not an integer, powers that are truncated / that overflow for the "no attempt yet"
// sentinel of readDiskQueue) is kept, the unit is scaled down to milliseconds so that a run still ends at once.
type c02Sched struct{ initUs, scale100, postUs int }

func (s c02Sched) isSet() bool { return s != c02Sched{} }

func (s c02Sched) token() string {
	if !s.isSet() {
		return ""
	}
	return fmt.Sprintf("W%d,%d,%d", s.initUs, s.scale100, s.postUs)
}

func c02SchedStat(out *vh.Out, prefix string, s c02Sched) {
	if !s.isSet() {
		out.Stat(prefix + ".retry-schedule.test-helper(0,scale-1,0)")
		return
	}
	out.Stat(prefix + ".retry-schedule.production-shaped")
	out.Stat(fmt.Sprintf("%s.retry-schedule.initial-%dus", prefix, s.initUs))
	out.Stat(fmt.Sprintf("%s.retry-schedule.scale-%d%%", prefix, s.scale100))
	out.Stat(fmt.Sprintf("%s.retry-schedule.post-init-%dus", prefix, s.postUs))
}

func (s c02Sched) scale() float64 {
	if !s.isSet() {
		return 1
	}
	return float64(s.scale100) / 100
}

func c02ParseSched(t string) (c02Sched, bool) {
	if len(t) < 6 || t[0] != 'W' {
		return c02Sched{}, false
	}
	p := strings.Split(t[1:], ",")
	if len(p) != 3 {
		return c02Sched{}, false
	}
	var v [3]int
	for i := range p {
		n, err := strconv.Atoi(p[i])
		if err != nil || n < 0 {
			return c02Sched{}, false
		}
		v[i] = n
	}
	if v[0] > 50000 || v[1] < 1 || v[1] > 100000 || v[2] > 50000 {
		return c02Sched{}, false
	}
	return c02Sched{v[0], v[1], v[2]}, true
}

// c02GenSched: a third of the inputs run under a production-shaped retry schedule.
func c02GenSched(r *vh.Rng) c02Sched {
	if !r.Chance(34) {
		return c02Sched{}
	}
	return c02Sched{
		initUs:   []int{1000, 2000, 500, 3000, 1000, 0}[r.Intn(6)],
		scale100: []int{125, 125, 125, 150, 200, 300, 100, 75, 400}[r.Intn(9)],
		postUs:   []int{0, 0, 1000, 3000}[r.Intn(4)],
	}
}

// c02SchedHorizon: no slot of the time wheel may be due later than this after "now" — the largest delay the
// configured schedule can produce (initial_retry_time * scale^max_tries, or the post-init delay) plus ten minutes
// (the harness configures milliseconds: the margin is five orders of magnitude, not a timing assumption).
func c02SchedHorizon(s c02Sched, maxTries int, post time.Duration) time.Duration {
	d := float64(s.initUs) * 1e3 * math.Pow(math.Max(s.scale(), 1), float64(maxTries+1))
	if d > float64(time.Hour) {
		d = float64(time.Hour)
	}
	return time.Duration(d) + post + 10*time.Minute
}

// c02WheelFar looks at the queue's time wheel: a slot that is due beyond the horizon is a message the queue will, for
// all practical purposes, never attempt (the real defect class: a delay formula that overflows / is clamped to
// "never" for some stored state).  Returns the ids of such slots and a description of the first one.
func c02WheelFar(q *Queue, horizon time.Duration) (ids []string, desc string) {
	if q.wheel == nil {
		return nil, ""
	}
	q.wheel.slotsLock.Lock()
	defer q.wheel.slotsLock.Unlock()
	now := time.Now()
	atomic.AddInt64(&c02WheelPeeks, 1)
	for e := q.wheel.slots.Front(); e != nil; e = e.Next() {
		slot, ok := e.Value.(TimeSlot)
		if !ok {
			continue
		}
		d := slot.Time.Sub(now)
		atomic.AddInt64(&c02SlotsSeen, 1)
		if d > 0 {
			atomic.AddInt64(&c02SlotsFuture, 1)
		}
		if d > horizon {
			id := "?"
			if qs, ok := slot.Value.(queueSlot); ok {
				id = qs.ID
			}
			cls := "more than ten minutes"
			switch {
			case d > 100*365*24*time.Hour:
				cls = "more than a century"
			case d > 365*24*time.Hour:
				cls = "more than a year"
			case d > 24*time.Hour:
				cls = "more than a day"
			}
			if desc == "" {
				desc = fmt.Sprintf("message %s is on the time wheel for a moment %s beyond the longest delay the configured retry schedule can produce", id, cls)
			}
			ids = append(ids, id)
		}
	}
	return ids, desc
}

// c02ErrPad: what makes an error text epad bytes longer — the kind of multi-line explanation real servers send.
func c02ErrPad(epad int) string {
	if epad <= 0 {
		return ""
	}
	const phrase = " the mailbox is temporarily unavailable, see https://postmaster.example/policy#greylisting for details;"
	return strings.Repeat(phrase, epad/len(phrase)+1)[:epad]
}

// c02ParseAddr recognises every spelling c02AddrE produces (and the A-label form a failure report
// without SMTPUTF8 would use for the internationalised domain).
func c02ParseAddr(a string) (idx int, id string, ok bool) {
	at := strings.LastIndexByte(a, '@')
	if at < 0 {
		return 0, "", false
	}
	local, dom := a[:at], a[at+1:]
	if plus := strings.IndexByte(local, '+'); plus >= 0 {
		// padded address (c02AddrG)
		quoted := strings.HasSuffix(local, "\"")
		local = local[:plus]
		if quoted {
			local += "\""
		}
	}
	switch {
	case strings.HasPrefix(local, "\"r ") && strings.HasSuffix(local, "\"") && len(local) > 4:
		local = local[3 : len(local)-1]
	case strings.HasPrefix(local, "r") && strings.HasSuffix(local, "ü"):
		local = local[1 : len(local)-len("ü")]
	case strings.HasPrefix(local, "r"):
		local = local[1:]
	default:
		return 0, "", false
	}
	for _, c := range local {
		if c < '0' || c > '9' {
			return 0, "", false
		}
	}
	v, err := strconv.Atoi(local)
	if err != nil {
		return 0, "", false
	}
	for _, suf := range []string{".bücher.example", ".xn--bcher-kva.example", ".example"} {
		if strings.HasSuffix(dom, suf) {
			id = dom[:len(dom)-len(suf)]
			break
		}
	}
	if id == "" || strings.ContainsAny(id, ".@") {
		return 0, "", false
	}
	return v, id, true
}

func c02HeaderBytes(h textproto.Header) []byte {
	var b bytes.Buffer
	if err := textproto.WriteHeader(&b, h); err != nil {
		panic(err)
	}
	return b.Bytes()
}

// c02MakeHeader: pad >= 0: "Subject: c02" and an X-Pad field with pad+1 filler bytes; -1: the Subject field
// only; -2: "Subject: c02" and an X-Pad field whose value is EMPTY; -3: one Subject field with an empty
// value; -4: no field at all (the header file is the bare terminating CRLF).  All of them are headers the
// queue can be handed; textproto writes one piece per field and the final CRLF.
func c02MakeHeader(pad int) textproto.Header {
	h := textproto.Header{}
	switch {
	case pad == -4:
	case pad == -3:
		h.Add("Subject", "")
	default:
		h.Add("Subject", "c02")
	}
	switch {
	case pad >= 0:
		h.Add("X-Pad", strings.Repeat("p", pad+1))
	case pad == -2:
		h.Add("X-Pad", "")
	}
	return h
}

// c02HeaderForLen finds the header whose serialisation has hl bytes (the variants have distinct lengths:
// 2, 13, 16, 25, 26+pad).
func c02HeaderForLen(hl int) (textproto.Header, bool) {
	for _, pad := range []int{-1, -2, -3, -4} {
		if hl == len(c02HeaderBytes(c02MakeHeader(pad))) {
			return c02MakeHeader(pad), true
		}
	}
	two := len(c02HeaderBytes(c02MakeHeader(0)))
	if hl >= two {
		return c02MakeHeader(hl - two), true
	}
	return textproto.Header{}, false
}

// c02HeaderLens: the header lengths the generators draw from (index: 0 no field, 1 one empty field, 2 one
// field, 3 second field empty).
func c02HeaderLens() [4]int {
	return [4]int{len(c02HeaderBytes(c02MakeHeader(-4))), len(c02HeaderBytes(c02MakeHeader(-3))),
		len(c02HeaderBytes(c02MakeHeader(-1))), len(c02HeaderBytes(c02MakeHeader(-2)))}
}

func c02Body(id string, n int) []byte {
	b := make([]byte, n)
	for i := range b {
		b[i] = "0123456789abcdefghijklmnopqrstuvwxyz"[(i+len(id))%36]
	}
	if n >= 2 {
		b[n-2], b[n-1] = '\r', '\n'
	}
	return b
}

func c02Sig(hdr textproto.Header, body []byte) string {
	return string(c02HeaderBytes(hdr)) + "\x00" + string(body)
}

// ---------------------------------------------------------------- scripted target

type c02Target struct {
	w        *vos.World
	mu       sync.Mutex
	attempt  map[string]int
	outcomes map[string][]string
	gates    map[string]chan struct{}
	expect   map[string]string
	bad      map[string]bool // a delivery whose content differs from what was accepted
	panics   int32
	grow     c02Grow
}

type c02Delivery struct {
	t        *c02Target
	id       string
	letters  string
	script   c02Script
	applied  []byte
	to       []string
	accepted []string
	addrs    []string // the accepted recipients as the queue spelled them
	bodyOK   []string // accepted recipients whose body stage succeeded
	logged   bool
}

// c02PartialDelivery is the same scripted delivery for a target that implements module.PartialDelivery:
// the queue then calls BodyNonAtomic and gets one status per accepted recipient.
type c02PartialDelivery struct{ *c02Delivery }

// c02Script is the script of ONE delivery attempt at the target, stage by stage:
//
//	<add>                      one letter per recipient of the attempt (o|t|p|u): result of AddRcpt; the target is
//	                           a plain one, Body and Commit succeed (the short form, all older op lines)
//	<add>/a<b>/<c>             plain target: Body returns <b> (one letter), Commit returns <c>
//	<add>/n<b1><b2>…/<c>       target implementing PartialDelivery: BodyNonAtomic reports <bi> for the i-th ACCEPTED
//	                           recipient, Commit returns <c>
//
// Letters: o success, t temporary (451 4.3.0), p permanent (550 5.1.1), u an error without SMTP status.
// Missing letters are `o`.  The message is EFFECTIVE at the target only when Commit succeeded: a recipient
// counts as delivered (event DLV) only then.
type c02Script struct {
	add     string
	long    bool
	partial bool
	body    string
	commit  byte
}

// c02Rle / c02UnRle: a stage in which EVERY recipient has the same letter is spelled <letter>*<count> once there are
// 16 or more of them (messages with thousands of recipients); every other script is spelled out.
func c02Rle(s string) string {
	if len(s) < 16 || strings.Trim(s, s[:1]) != "" {
		return s
	}
	return s[:1] + "*" + strconv.Itoa(len(s))
}

func c02UnRle(s string) string {
	if len(s) >= 3 && s[1] == '*' {
		if n, err := strconv.Atoi(s[2:]); err == nil && n >= 0 && n <= 1000000 {
			return strings.Repeat(s[:1], n)
		}
	}
	return s
}

func c02ParseScript(t string) c02Script {
	p := strings.Split(t, "/")
	sc := c02Script{add: c02UnRle(p[0]), commit: 'o'}
	if len(p) >= 2 && len(p[1]) >= 1 {
		sc.long = true
		sc.partial = p[1][0] == 'n'
		sc.body = c02UnRle(p[1][1:])
		if len(p) >= 3 && len(p[2]) >= 1 {
			sc.commit = p[2][0]
		}
	}
	return sc
}

func c02LetterAt(s string, i int) byte {
	if i < len(s) {
		return s[i]
	}
	return 'o'
}

// c02Canon spells the script for an attempt that had nto recipients (what the `O` token of the op line carries).
func c02Canon(t string, nto int) string {
	sc := c02ParseScript(t)
	add := make([]byte, nto)
	nacc := 0
	for i := range add {
		add[i] = c02LetterAt(sc.add, i)
		if add[i] == 'o' {
			nacc++
		}
	}
	if !sc.long {
		return c02Rle(string(add))
	}
	if !sc.partial {
		return c02Rle(string(add)) + "/a" + string(c02LetterAt(sc.body, 0)) + "/" + string(sc.commit)
	}
	b := make([]byte, nacc)
	for i := range b {
		b[i] = c02LetterAt(sc.body, i)
	}
	return c02Rle(string(add)) + "/n" + c02Rle(string(b)) + "/" + string(sc.commit)
}

// c02Effective is the CONTRACT of a delivery attempt, written down independently of Queue.deliver: per recipient of
// the attempt the letter of its final result.  A recipient refused by AddRcpt has that result; if nobody was
// accepted, or the body stage failed for every accepted recipient, the target aborts; otherwise Commit decides: when
// it fails NOBODY has received the message (it only becomes effective in Commit), so every accepted recipient has
// the Commit failure as its result — also the ones a PartialDelivery target had reported success for.
func c02Effective(t string) string {
	sc := c02ParseScript(t)
	res := []byte(sc.add)
	var acc []int
	for i := range res {
		if res[i] == 'o' {
			acc = append(acc, i)
		}
	}
	if !sc.long || len(acc) == 0 {
		return string(res)
	}
	allFailed := true
	for k, i := range acc {
		if sc.partial {
			res[i] = c02LetterAt(sc.body, k)
		} else {
			res[i] = c02LetterAt(sc.body, 0)
		}
		if res[i] == 'o' {
			allFailed = false
		}
	}
	if allFailed || sc.commit == 'o' {
		return string(res)
	}
	for _, i := range acc {
		res[i] = sc.commit
	}
	return string(res)
}

func c02Err(c byte, what string, epad int) error {
	switch c {
	case 't':
		return &exterrors.SMTPError{Code: 451, EnhancedCode: exterrors.EnhancedCode{4, 3, 0}, Message: what + ": try later" + c02ErrPad(epad)}
	case 'p':
		return &exterrors.SMTPError{Code: 550, EnhancedCode: exterrors.EnhancedCode{5, 1, 1}, Message: what + ": refused" + c02ErrPad(epad)}
	case 'u':
		return errors.New(what + ": unclassified failure" + c02ErrPad(epad))
	}
	return nil
}

func (t *c02Target) Start(ctx context.Context, msgMeta *module.MsgMetadata, mailFrom string) (module.Delivery, error) {
	id := strings.SplitN(msgMeta.ID, "-", 2)[0]
	t.mu.Lock()
	g := t.gates[id]
	t.mu.Unlock()
	if g != nil {
		<-g
	}
	t.mu.Lock()
	a := t.attempt[id]
	t.attempt[id]++
	letters := ""
	if a < len(t.outcomes[id]) {
		letters = t.outcomes[id][a]
	}
	t.mu.Unlock()
	d := &c02Delivery{t: t, id: id, letters: letters, script: c02ParseScript(letters)}
	if d.script.partial {
		return &c02PartialDelivery{d}, nil
	}
	return d, nil
}

func (d *c02Delivery) AddRcpt(ctx context.Context, to string, _ smtp.RcptOptions) error {
	idx, rid, ok := c02ParseAddr(to)
	pos := len(d.applied)
	c := c02LetterAt(d.script.add, pos)
	if strings.HasPrefix(d.letters, "x") {
		c = 'o'
		if pos == 0 {
			c = 'x'
		}
	}
	d.applied = append(d.applied, c)
	if !ok || rid != d.id {
		d.to = append(d.to, "UNKNOWN("+to+")")
		return &exterrors.SMTPError{Code: 550, EnhancedCode: exterrors.EnhancedCode{5, 1, 1}, Message: "unknown"}
	}
	d.to = append(d.to, strconv.Itoa(idx))
	switch c {
	case 't':
		return &exterrors.SMTPError{Code: 451, EnhancedCode: exterrors.EnhancedCode{4, 3, 0}, Message: "try later" + c02ErrPad(d.t.grow.epad)}
	case 'p':
		return &exterrors.SMTPError{Code: 550, EnhancedCode: exterrors.EnhancedCode{5, 1, 1}, Message: "no such user" + c02ErrPad(d.t.grow.epad)}
	case 'u':
		return errors.New("unclassified failure" + c02ErrPad(d.t.grow.epad))
	}
	d.accepted = append(d.accepted, strconv.Itoa(idx))
	d.addrs = append(d.addrs, to)
	return nil
}

func (d *c02Delivery) flush() {
	if d.logged {
		return
	}
	d.logged = true
	tok := string(d.applied)
	if !strings.HasPrefix(d.letters, "x") {
		tok = c02Canon(d.letters, len(d.applied))
	}
	d.t.w.Events(d.id, "@O:"+tok, "ATT:"+strings.Join(d.to, "."))
}

// content checks what the queue hands to the target against what was accepted.
func (d *c02Delivery) content(header textproto.Header, body buffer.Buffer) {
	if strings.HasPrefix(d.letters, "x") {
		atomic.AddInt32(&d.t.panics, 1)
		d.t.w.Event(d.id, "PANIC")
		panic("c02: scripted panic of the delivery goroutine")
	}
	var blob []byte
	r, err := body.Open()
	if err == nil {
		blob, _ = io.ReadAll(r)
		r.Close()
	}
	d.t.mu.Lock()
	if want, ok := d.t.expect[d.id]; ok && (err != nil || want != c02Sig(header, blob)) {
		d.t.bad[d.id] = true
	}
	d.t.mu.Unlock()
}

func (d *c02Delivery) Body(ctx context.Context, header textproto.Header, body buffer.Buffer) error {
	d.flush()
	d.content(header, body)
	c := c02LetterAt(d.script.body, 0)
	if c == 'o' {
		d.bodyOK = d.accepted
	}
	return c02Err(c, "body", d.t.grow.epad)
}

func (d *c02PartialDelivery) BodyNonAtomic(ctx context.Context, sc module.StatusCollector, header textproto.Header, body buffer.Buffer) {
	d.flush()
	d.content(header, body)
	for k, addr := range d.addrs {
		c := c02LetterAt(d.script.body, k)
		if c == 'o' {
			d.bodyOK = append(d.bodyOK, d.accepted[k])
		}
		sc.SetStatus(addr, c02Err(c, "body", d.t.grow.epad))
	}
}

func (d *c02Delivery) Abort(ctx context.Context) error {
	d.flush()
	return nil
}

// Commit: only now the message is effective at the target; when the script makes it fail nobody got it.
func (d *c02Delivery) Commit(ctx context.Context) error {
	if err := c02Err(d.script.commit, "commit", d.t.grow.epad); err != nil {
		d.t.w.Event(d.id, "@CF")
		return err
	}
	d.t.w.Event(d.id, "DLV:"+strings.Join(d.bodyOK, "."))
	return nil
}

// ---- bounce pipeline stand-in

type c02Bounce struct{ t *c02Target }

type c02BounceDelivery struct {
	b  *c02Bounce
	rs map[string][]string
}

func (b *c02Bounce) Start(ctx context.Context, msgMeta *module.MsgMetadata, mailFrom string) (module.Delivery, error) {
	return &c02BounceDelivery{b: b, rs: map[string][]string{}}, nil
}
func (d *c02BounceDelivery) AddRcpt(ctx context.Context, to string, _ smtp.RcptOptions) error {
	return nil
}
func (d *c02BounceDelivery) Body(ctx context.Context, header textproto.Header, body buffer.Buffer) error {
	r, err := body.Open()
	if err != nil {
		return err
	}
	defer r.Close()
	blob, _ := io.ReadAll(r)
	// unfold the header fields of the report first (RFC 5322 2.2.3: a CRLF in front of white space is removed; a long
	// recipient address makes textproto fold the Final-Recipient field)
	var logical []string
	for _, line := range strings.Split(string(blob), "\n") {
		line = strings.TrimRight(line, "\r")
		if n := len(logical); n > 0 && logical[n-1] != "" && (strings.HasPrefix(line, " ") || strings.HasPrefix(line, "\t")) {
			logical[n-1] += line
			continue
		}
		logical = append(logical, line)
	}
	for _, line := range logical {
		line = strings.TrimSpace(line)
		if strings.HasPrefix(strings.ToLower(line), "final-recipient:") {
			v := line[len("final-recipient:"):]
			if i := strings.Index(v, ";"); i >= 0 {
				v = v[i+1:]
			}
			v = strings.TrimSpace(v)
			if idx, id, ok := c02ParseAddr(v); ok {
				d.rs[id] = append(d.rs[id], strconv.Itoa(idx))
			} else {
				d.rs["?"] = append(d.rs["?"], "UNKNOWN("+v+")")
			}
		}
	}
	return nil
}
func (d *c02BounceDelivery) Abort(ctx context.Context) error { return nil }
func (d *c02BounceDelivery) Commit(ctx context.Context) error {
	for id, rs := range d.rs {
		d.b.t.w.Event(id, "RPT:"+strings.Join(rs, "."))
	}
	return nil
}

// ---- log capture: the number of live delivery chains is derived from the queue's own messages

type c02Log struct {
	mu      sync.Mutex
	loaded  int
	readErr int
	removed int
}

func (l *c02Log) Write(stamp time.Time, debug bool, msg string) {
	l.mu.Lock()
	defer l.mu.Unlock()
	switch {
	case strings.Contains(msg, "removed message from disk"):
		l.removed++
	case strings.Contains(msg, "read message"):
		l.readErr++
	case strings.Contains(msg, "loaded ") && strings.Contains(msg, "saved queue entries"):
		f := strings.Fields(msg[strings.Index(msg, "loaded ")+7:])
		if len(f) > 0 {
			if v, err := strconv.Atoi(f[0]); err == nil {
				l.loaded += v
			}
		}
	}
}
func (l *c02Log) Close() error { return nil }

// ---------------------------------------------------------------- one run of the real queue (a "segment")

type c02Accept struct {
	id   string
	n    int
	hl   int
	bl   int
	fate byte // 'c' Commit, 'b' Abort after Body, 'n' neither (transaction still open at the crash)
	env  byte // spelling of the envelope (see c02Envs); 0 = 'p'
}

func (a c02Accept) envL() byte {
	if a.env == 0 {
		return 'p'
	}
	return a.env
}

// c02AToken: the `A` token of an op line (the envelope letter is only printed when it is not the default).
func c02AToken(n, hl, bl int, env byte) string {
	if env == 0 || env == 'p' {
		return fmt.Sprintf("%d,%d,%d", n, hl, bl)
	}
	return fmt.Sprintf("%d,%d,%d,%c", n, hl, bl, env)
}

type c02SegIn struct {
	maxTries int
	files    map[string][]byte // directory found at start (base name → content)
	accepts  []c02Accept       // only for the first run
	outcomes map[string][]string
	expect   map[string]string
	stagger  int // 0: one transaction after the other; 1: all at once; 2: next one starts when the previous is first attempted; 3: one after the other, no delivery begins before the last transaction has ended (a backlog builds up)
	par      int // max_parallelism of this run (0: 4)
	recovery bool
	extDel   string // "<id>:<kind>": delete that file behind the queue's back between the start-up scan and the first dispatch
	faults   []c02Fault
	loc      int     // index into c02DirNames: the name of the spool directory (0 = a plain one)
	grow     c02Grow // size dimension: longer addresses (of the transactions of this run) and error texts (of the target)
}

// c02DirNames: names of the spool directory (token `L<k>` of an op line; 0 = the plain numbered directory the
// harness always used).  All of them are legal directory names an administrator may configure as the queue's
// location: glob metacharacters (also an unbalanced bracket and a backslash), spaces, percent signs and printf
// verbs, a leading dash, quotes / braces / dollar, non-ASCII letters, a very long name.
var c02DirNames = []string{"", "spool[1]", "sp*ol", "sp?ol", "sp\\ool", "my spool dir", "100%25done%s%d", "-spool",
	"очередь-ü-队列", strings.Repeat("q", 240), "[a-c]{x,y}~$HOME'\"", "sp[ool", "spool.d.meta"}

func c02LocToken(loc int) string {
	if loc <= 0 {
		return ""
	}
	return "L" + strconv.Itoa(loc)
}

func c02LocPrefix(loc int) string {
	if loc <= 0 {
		return ""
	}
	return c02LocToken(loc) + " "
}

func c02ParseLoc(t string) (int, bool) {
	if len(t) < 2 || t[0] != 'L' {
		return 0, false
	}
	v, err := strconv.Atoi(t[1:])
	if err != nil || v < 0 || v >= len(c02DirNames) {
		return 0, false
	}
	return v, true
}

// c02GenLoc: half of the inputs use the plain directory, the others one of the unusual names.
func c02GenLoc(r *vh.Rng) int {
	if r.Bool() {
		return 0
	}
	return 1 + r.Intn(len(c02DirNames)-1)
}

// c02Fault: the k-th call `call` (openM readM statH statB openH; a failing first read of the header file is swallowed
// by the Peek at the beginning of textproto.ReadHeader, so it is not injected) on a file of id fails once with errno — a
// transient condition (out of descriptors, I/O hiccup, permission glitch), gone in every later run.
type c02Fault struct {
	id    string
	call  string
	k     int
	errno string
}

// c02FaultOfToken reads `Rf<call>,<errno>` (fault in the start-up scan) and `Df<call>,<errno>` (fault in openMessage).
func c02FaultOfToken(id, t string) (c02Fault, bool) {
	if len(t) < 3 || t[1] != 'f' || (t[0] != 'R' && t[0] != 'D') {
		return c02Fault{}, false
	}
	p := strings.SplitN(t[2:], ",", 2)
	if len(p) != 2 || !vos.ErrnoOK(p[1]) {
		return c02Fault{}, false
	}
	f := c02Fault{id: id, call: p[0], k: 1, errno: p[1]}
	switch {
	case t[0] == 'R' && (p[0] == "openM" || p[0] == "readM" || p[0] == "statH" || p[0] == "statB"):
	case t[0] == 'D' && (p[0] == "openM" || p[0] == "readM" || p[0] == "statB"):
		f.k = 2 // the first such call is the one of the start-up scan
	case t[0] == 'D' && p[0] == "openH":
	default:
		return c02Fault{}, false
	}
	return f, true
}

// c02ScanFault: "f<call>,<errno>" when a fault fired inside the start-up scan of this run for the id ("" otherwise).
func c02ScanFault(lg []*vos.Entry) string {
	scanSeen, pendingD := false, false
	for _, e := range lg {
		switch {
		case e.Kind == 'r' && e.Text == "openM":
			if !scanSeen {
				scanSeen = true
			} else {
				pendingD = true
			}
		case e.Kind == 'e' && strings.HasPrefix(e.Text, "@O:"):
			pendingD = false
		case e.Kind == 'e' && strings.HasPrefix(e.Text, "@F:"):
			call := e.Text[3:]
			name := strings.SplitN(call, ",", 2)[0]
			if (name == "openM" && !scanSeen) || (scanSeen && !pendingD && (name == "readM" || name == "statH" || name == "statB")) {
				return "f" + call
			}
		}
	}
	return ""
}

// c02AnyFault: did any injected fault fire for the id in this run?
func c02AnyFault(lg []*vos.Entry) bool {
	for _, e := range lg {
		if e.Kind == 'e' && strings.HasPrefix(e.Text, "@F:") {
			return true
		}
	}
	return false
}

type c02SegOut struct {
	raced  bool // the external deletion came too late (discard the case)
	hung   bool // the run stopped making progress while deliveries were still owed (logs/final: the state it is stuck in)
	farIDs []string
	far    string // hung because the time wheel holds a message that is due beyond the horizon of the retry schedule (description)
	logs   map[string][]*vos.Entry
	final  map[string]map[string]vos.FState // id → kind → file
	bad    map[string]bool
	files  map[string][]byte // the directory when the run was over (base name → content)
}

var c02Base string
var c02DirSeq int64
var c02Runs int64

// c02Hangs counts the runs that stopped making progress.  A queue that is stuck is abandoned (its
// goroutines are blocked for ever).  The first such run is given a long time; once one was seen the
// others are given up on sooner, and after a few of them the generators stop producing the inputs
// that can only hang again (the verdict is a violation already).
var c02Hangs int64

const c02HangsEnough = 8 // every stuck run is made twice

func c02Patience() time.Duration {
	if atomic.LoadInt64(&c02Hangs) >= c02HangsEnough {
		return 2 * time.Second // the verdict is a violation already (never on the tree the harness was written for)
	}
	if atomic.LoadInt64(&c02Hangs) > 0 {
		return 6 * time.Second
	}
	return 25 * time.Second
}

// c02RunRecovery runs a recovery segment; a run that got stuck is made a second time and only called
// stuck when that one is stuck as well (a stuck run has to be a property of the input, not of the
// moment; the second run is the one that is judged).
func c02RunRecovery(in c02SegIn) c02SegOut {
	rec := c02RunSegment(in)
	if rec.hung {
		rec = c02RunSegment(in)
		if !rec.hung {
			atomic.AddInt64(&c02HangsNotRepeated, 1)
		}
	}
	return rec
}

var c02HangsNotRepeated int64
var c02WheelPeeks, c02SlotsSeen, c02SlotsFuture, c02SchedRuns int64
var c02FarSlots int64 // runs abandoned because a message was scheduled beyond the horizon of the retry schedule

// c02HangSig / c02HangWhy: a run that was abandoned is reported as stuck (nothing happened for c02Patience()) or, when
// the time wheel showed why nothing is ever going to happen, as a message that is never due.
func c02HangSig(rec c02SegOut, stuck string) string {
	if rec.far != "" {
		return "C02/retry-never-due"
	}
	return stuck
}

func c02HangWhy(rec c02SegOut, stuck string) string {
	if rec.far != "" {
		return "the run was abandoned: " + rec.far + " (it is not going to be attempted in any foreseeable future) — " + stuck
	}
	return stuck
}

var c02NegLive int64
var c02StartErrs int64

// c02V reports a violation (and counts it: the replay of an input whose outcome depends on how the
// deliveries interleave is repeated a few times until it shows the violation again).
var c02Violations int64

func c02V(out *vh.Out, sig, op, detail string) {
	if len(detail) > 1500 {
		detail = detail[:1500] + " … (" + strconv.Itoa(len(detail)) + " bytes)"
	}
	atomic.AddInt64(&c02Violations, 1)
	out.Violation(sig, op, detail)
}

func c02RunSegment(in c02SegIn) c02SegOut {
	atomic.AddInt64(&c02Runs, 1)
	top := filepath.Join(c02Base, strconv.FormatInt(atomic.AddInt64(&c02DirSeq, 1), 10))
	dir := top
	if in.loc > 0 && in.loc < len(c02DirNames) {
		dir = filepath.Join(top, c02DirNames[in.loc])
	}
	if err := os.MkdirAll(dir, 0o777); err != nil {
		panic(err)
	}
	defer os.RemoveAll(top)
	for name, data := range in.files {
		if err := os.WriteFile(filepath.Join(dir, name), data, 0o666); err != nil {
			panic(err)
		}
	}
	w := vos.Register(dir, in.files)
	defer vos.Unregister(w)
	for _, f := range in.faults {
		w.InjectFault(f.id, f.call, f.k, f.errno)
	}

	tgt := &c02Target{w: w, attempt: map[string]int{}, outcomes: in.outcomes, gates: map[string]chan struct{}{}, expect: in.expect, bad: map[string]bool{}, grow: in.grow}
	for _, a := range in.accepts {
		tgt.gates[a.id] = make(chan struct{})
	}
	lg := &c02Log{}
	mod, _ := NewQueue("", "queue", nil, nil)
	q := mod.(*Queue)
	q.initialRetryTime = time.Duration(in.grow.tm.initUs) * time.Microsecond
	q.retryTimeScale = in.grow.tm.scale()
	q.postInitDelay = time.Duration(in.grow.tm.postUs) * time.Microsecond
	if in.extDel != "" {
		q.postInitDelay = 250 * time.Millisecond
	}
	horizon := c02SchedHorizon(in.grow.tm, in.maxTries, q.postInitDelay)
	if in.grow.tm.isSet() {
		atomic.AddInt64(&c02SchedRuns, 1)
	}
	far := ""
	q.maxTries = in.maxTries
	q.location = dir
	q.Target = tgt
	q.hostname = "mx.example.org"
	q.autogenMsgDomain = "example.org"
	q.Log = log.Logger{Out: lg, Debug: true}
	q.dsnPipeline = &c02Bounce{t: tgt}
	par := in.par
	if par <= 0 {
		par = 4
	}
	// The start-up scan runs under the same patience rule as the deliveries (progress()): with a
	// backlog the time wheel may begin to dispatch while readDiskQueue is still adding slots.
	hung := false
	progress := func() int {
		lg.mu.Lock()
		defer lg.mu.Unlock()
		return w.Len() + lg.loaded + lg.removed + lg.readErr
	}
	started := make(chan error, 1)
	go func() { started <- q.start(par) }()
	for last, lastAt := -1, time.Now(); ; {
		select {
		case err := <-started:
			if err != nil {
				// The queue refuses to start on this directory (never on the tree the harness was written for; e.g. a
				// changed start-up scan that trips over the NAME of the spool directory): nothing will ever be
				// delivered from it.  Handled like a run that is stuck: abandoned, judged by the monitor.
				hung = true
				atomic.AddInt64(&c02StartErrs, 1)
			}
		case <-time.After(20 * time.Millisecond):
			if c := progress(); c != last {
				last, lastAt = c, time.Now()
			}
			if time.Since(lastAt) <= c02Patience() {
				continue
			}
			hung = true
			atomic.AddInt64(&c02Hangs, 1)
		}
		break
	}
	// (the schedule the start-up scan made is looked at below, with the one of the retries: every stored message
	// must be due within the configured schedule)
	var farIDs []string
	raced := false
	if in.extDel != "" && !hung {
		p := strings.SplitN(in.extDel, ":", 2)
		w.ExternalRemove(p[0], p[1])
		opens := 0
		for _, e := range w.Log(p[0]) {
			if e.Kind == 'r' && e.Text == "openM" {
				opens++
			}
		}
		raced = opens > 1
	}

	commits := 0
	aborts := 0
	var closed int32 // the queue was closed inside a transaction (fates k, K, j)
	var cmu sync.Mutex
	firstAttempt := map[string]chan struct{}{}
	_ = firstAttempt
	accept := func(a c02Accept) {
		ctx := context.Background()
		from := c02Sender(a.envL())
		meta := &module.MsgMetadata{ID: a.id, OriginalFrom: from}
		meta.Conn, meta.DontTraceSender = c02Origin(in.grow.conn, a.id)
		meta.SMTPOpts.UTF8 = c02EnvUTF8(a.envL())
		d, err := q.Start(ctx, meta, from)
		if err != nil {
			panic(err)
		}
		for i := 1; i <= a.n; i++ {
			if err := d.AddRcpt(ctx, c02AddrG(a.envL(), i, a.id, in.grow.apad), smtp.RcptOptions{}); err != nil {
				panic(err)
			}
		}
		hdr, ok := c02HeaderForLen(a.hl)
		if !ok {
			panic(fmt.Sprintf("c02: no header of %d bytes", a.hl))
		}
		w.Event(a.id, "@A:"+c02AToken(a.n, a.hl, a.bl, a.envL()))
		// Close racing with the open transaction: the queue is stopped (time wheel stopped, running deliveries
		// waited for) while the transaction is still open — before Body ('K') or between Body and the end of the
		// transaction ('k' Commit, 'j' Abort).  The process stays up: the transaction ends on the stopped queue.
		closeNow := func() {
			w.Event(a.id, "@Q")
			q.Close()
			atomic.StoreInt32(&closed, 1)
		}
		if a.fate == 'K' {
			closeNow()
		}
		if err := d.Body(ctx, hdr, buffer.MemoryBuffer{Slice: c02Body(a.id, a.bl)}); err != nil {
			panic(err)
		}
		if a.fate == 'k' || a.fate == 'j' {
			closeNow()
		}
		switch a.fate {
		case 'c', 'k', 'K':
			// Acceptance = Commit returned nil.  When it returns an error the sender is told that the
			// transaction FAILED ("Commit closes the delivery even if it fails": no caller calls Abort after
			// it): event NACK — such a message must never be delivered, neither now nor after a restart.
			err := d.Commit(ctx)
			if err != nil {
				w.Event(a.id, "NACK")
			} else {
				w.Event(a.id, "ACC")
				if a.fate == 'c' {
					// a Commit acknowledged by a stopped queue starts no delivery in this run of the process
					cmu.Lock()
					commits++
					cmu.Unlock()
				}
			}
			if in.stagger != 3 {
				close(tgt.gates[a.id])
			}
		case 'b', 'j':
			w.Event(a.id, "@B")
			if err := d.Abort(ctx); err != nil {
				panic(err)
			}
			w.Event(a.id, "ABT")
			// (the queue's line "removed message from disk" of an Abort stands for no delivery; an Abort that
			// removes nothing writes no such line — never on the tree the harness was written for)
			if c02DidOp(w.Log(a.id), "rmM") {
				cmu.Lock()
				aborts++
				cmu.Unlock()
			}
		}
	}
	if hung {
		in.accepts = nil
	}
	var awg sync.WaitGroup
	switch in.stagger {
	case 1:
		for _, a := range in.accepts {
			awg.Add(1)
			go func(a c02Accept) { defer awg.Done(); accept(a) }(a)
		}
	default:
		for i, a := range in.accepts {
			accept(a)
			if in.stagger == 2 && i+1 < len(in.accepts) {
				// let the deliveries of this message get going before the next transaction starts
				deadline := time.Now().Add(2 * time.Millisecond)
				n0 := w.Len()
				for time.Now().Before(deadline) && w.Len() == n0 {
					time.Sleep(50 * time.Microsecond)
				}
			}
		}
	}
	awg.Wait()
	if in.stagger == 3 {
		for _, a := range in.accepts {
			if a.fate == 'c' || a.fate == 'k' || a.fate == 'K' {
				close(tgt.gates[a.id])
			}
		}
	}

	// quiescence: every delivery chain (one per scheduled or committed message) has ended.  A run that
	// makes no progress at all (no file-system call, no event, no log line of the queue) for c02Patience()
	// while deliveries are still owed is stuck: it is reported by the callers (never waited for again).
	deadline := time.Now().Add(90 * time.Second)
	lastProgress, lastCount := time.Now(), -1
	lastPeek := time.Time{}
	for !hung {
		if cnt := progress(); cnt != lastCount {
			lastCount, lastProgress = cnt, time.Now()
		}
		if time.Since(lastPeek) > 2*time.Millisecond {
			// a retry the queue scheduled in this run (tryDelivery) obeys the same horizon
			lastPeek = time.Now()
			farIDs, far = c02WheelFar(q, horizon)
		}
		lg.mu.Lock()
		cmu.Lock()
		// a panicking delivery ends with the rename done by the panic handler (which runs after deliveryWg.Done)
		live := lg.loaded + commits - (lg.removed - aborts) - lg.readErr - w.CountOps("mvMX")
		if p := int(atomic.LoadInt32(&tgt.panics)); p > w.CountOps("mvMX") && live == 0 {
			live = 1
		}
		cmu.Unlock()
		lg.mu.Unlock()
		if live == 0 {
			far, farIDs = "", nil
			break
		}
		if len(farIDs) > 0 && live == len(farIDs) {
			// everything else is done; the messages that are left are not going to be attempted in any foreseeable
			// future: the run is over, and they count as never attempted (like in a run that is stuck)
			hung = true
			atomic.AddInt64(&c02FarSlots, 1)
			break
		}
		if live > 0 && time.Since(lastProgress) > c02Patience() {
			hung = true
			atomic.AddInt64(&c02Hangs, 1)
			break
		}
		if live < 0 && !time.Now().After(deadline) {
			// The queue's own lines account for more ended deliveries than were begun (never on the tree
			// the harness was written for: e.g. a changed openMessage that logs "read message" AND
			// renames the meta-data away).  No exact criterion is left: wait until nothing at all has
			// happened for a while, let Close() wait for the running deliveries, and let the monitor judge.
			if time.Since(lastProgress) > 500*time.Millisecond {
				atomic.AddInt64(&c02NegLive, 1)
				break
			}
			time.Sleep(100 * time.Microsecond)
			continue
		}
		if live < 0 || time.Now().After(deadline) {
			panic(fmt.Sprintf("c02: queue did not become quiescent (live=%d loaded=%d commits=%d removed=%d aborts=%d readErr=%d)", live, lg.loaded, commits, lg.removed, aborts, lg.readErr))
		}
		time.Sleep(100 * time.Microsecond)
	}
	if (!hung || far != "") && atomic.LoadInt32(&closed) == 0 {
		q.Close()
	}

	// the shadow must be what is really in the directory
	sh := w.Shadow()
	ents, _ := os.ReadDir(dir)
	if len(ents) != len(sh) {
		panic(fmt.Sprintf("c02: shadow has %d files, directory %d", len(sh), len(ents)))
	}
	for _, e := range ents {
		data, _ := os.ReadFile(filepath.Join(dir, e.Name()))
		if st, ok := sh[e.Name()]; !ok || !bytes.Equal(st.Data, data) {
			panic("c02: shadow differs from the directory for " + e.Name())
		}
	}
	if !hung {
		far, farIDs = "", nil
	}
	out := c02SegOut{raced: raced, hung: hung, far: far, farIDs: farIDs, logs: map[string][]*vos.Entry{}, final: map[string]map[string]vos.FState{}, bad: tgt.bad, files: map[string][]byte{}}
	for name, st := range sh {
		out.files[name] = st.Data
	}
	for _, id := range w.Ids() {
		out.logs[id] = w.Log(id)
		out.final[id] = w.Final(id)
	}
	return out
}

// ---------------------------------------------------------------- logs → logical operations, labels, tokens, cuts

type c02Item struct {
	kind   byte   // 'o' logical operation, 'e' event, 'r' read
	text   string // label
	file   string
	chunks []int // indexes of the log entries of a logical operation (several for a write issued in pieces)
	at     int   // index of the first entry
}

func c02Items(lg []*vos.Entry) []c02Item {
	var items []c02Item
	for i, e := range lg {
		switch e.Kind {
		case 'o':
			if n := len(items); n > 0 && e.Text[0] == 'w' && items[n-1].kind == 'o' && items[n-1].text == e.Text {
				items[n-1].chunks = append(items[n-1].chunks, i)
				continue
			}
			items = append(items, c02Item{kind: 'o', text: e.Text, file: e.File, chunks: []int{i}, at: i})
		default:
			items = append(items, c02Item{kind: e.Kind, text: e.Text, at: i})
		}
	}
	return items
}

// c02Cut is a crash instant in the log of one id: before entry pos, with extra bytes of entry pos
// (a write) already in the file; ops logical operations are complete, inflight bytes of the next
// logical write have reached the file.
type c02Cut struct {
	pos      int
	extra    int
	ops      int
	inflight int
}

func c02Cuts(lg []*vos.Entry, mids bool) []c02Cut {
	var cuts []c02Cut
	ops := 0
	for _, it := range c02Items(lg) {
		if it.kind != 'o' {
			continue
		}
		sofar := 0
		for _, ci := range it.chunks {
			cuts = append(cuts, c02Cut{pos: ci, ops: ops, inflight: sofar})
			n := len(lg[ci].Bytes)
			if mids && it.text[0] == 'w' && n >= 2 {
				ps := []int{1, n / 2, n - 1}
				seen := map[int]bool{}
				for _, p := range ps {
					if p > 0 && p < n && !seen[p] {
						seen[p] = true
						cuts = append(cuts, c02Cut{pos: ci, extra: p, ops: ops, inflight: sofar + p})
					}
				}
			}
			sofar += n
		}
		ops++
	}
	cuts = append(cuts, c02Cut{pos: len(lg), ops: ops})
	return cuts
}

// c02CutAtSeq: the cut of this id when the process stops before the global call number seq.
func c02CutAtSeq(lg []*vos.Entry, seq int) c02Cut {
	for _, c := range c02Cuts(lg, false) {
		if c.pos == len(lg) || lg[c.pos].Seq >= seq {
			return c
		}
	}
	panic("unreachable")
}

// c02StateAt gives the files of the id at the cut (by kind letter).
func c02StateAt(lg []*vos.Entry, final map[string]vos.FState, c c02Cut) map[string]vos.FState {
	src := final
	if c.pos < len(lg) {
		src = lg[c.pos].Pre
	}
	out := map[string]vos.FState{}
	for k, st := range src {
		out[k] = vos.FState{Data: append([]byte(nil), st.Data...), Durable: st.Durable}
	}
	if c.extra > 0 {
		e := lg[c.pos]
		st := out[e.File]
		st.Data = append(st.Data, e.Bytes[:c.extra]...)
		out[e.File] = st
	}
	return out
}

// keep: "a" nothing lost, "d" all un-synced data lost, "h,b,m,n" kept un-synced bytes per file.
func c02ApplyKeep(st map[string]vos.FState, keep string) map[string][]byte {
	lim := map[string]int{}
	switch keep {
	case "a":
	case "d":
		for _, k := range []string{"H", "B", "M", "N", "X"} {
			lim[k] = 0
		}
	default:
		f := strings.Split(keep, ",")
		for i, k := range []string{"H", "B", "M", "N"} {
			if f[i] != "a" {
				v, _ := strconv.Atoi(f[i])
				lim[k] = v
			}
		}
	}
	out := map[string][]byte{}
	for k, s := range st {
		n := len(s.Data)
		if l, ok := lim[k]; ok && s.Durable+l < n {
			n = s.Durable + l
		}
		out[k] = append([]byte(nil), s.Data[:n]...)
	}
	return out
}

func c02CutToken(c c02Cut, keep string) string {
	if c.inflight > 0 {
		return fmt.Sprintf("T%d;%s", c.inflight, keep)
	}
	return "X" + keep
}

// c02Tokens: the model choices that the entries before the cut stand for.
func c02Tokens(lg []*vos.Entry, c c02Cut, recovery bool) []string {
	var toks []string
	run := 0
	flush := func() {
		if run > 0 {
			toks = append(toks, "+"+strconv.Itoa(run))
			run = 0
		}
	}
	scanSeen := !recovery
	pendingD := false
	faultNext := ""
	stoppedQ := false // Queue.Close came while the transaction was open
	for _, it := range c02Items(lg) {
		if it.at >= c.pos {
			break
		}
		switch it.kind {
		case 'o':
			complete := it.chunks[len(it.chunks)-1] < c.pos
			if complete {
				run++
			}
		case 'r':
			if it.text == "openM" {
				if !scanSeen {
					scanSeen = true
				} else {
					flush()
					if faultNext != "" {
						toks = append(toks, "Df"+faultNext)
						faultNext = ""
					} else {
						toks = append(toks, "D")
					}
					pendingD = true
				}
			}
		case 'e':
			switch {
			case strings.HasPrefix(it.text, "@F:"):
				// an injected transient fault: inside openMessage it belongs to the dispatch (`Df…`); inside the
				// start-up scan it belongs to the restart (c02ScanFault, `Rf…`)
				call := it.text[3:]
				switch {
				case pendingD && run == 0 && len(toks) > 0 && toks[len(toks)-1] == "D":
					toks[len(toks)-1] = "Df" + call
				case strings.HasPrefix(call, "openM,") && scanSeen:
					faultNext = call
				}
			case strings.HasPrefix(it.text, "@A:"):
				flush()
				toks = append(toks, "A"+it.text[3:])
			case it.text == "@Q":
				flush()
				toks = append(toks, "Q")
				stoppedQ = true
			case it.text == "ACC":
				flush()
				if stoppedQ {
					toks = append(toks, "K") // Commit on the stopped queue returned nil
				} else {
					toks = append(toks, "C")
				}
			case it.text == "NACK":
				// Commit returned an error: no step of the model (the driver answers bad-token: T2 diverges)
				flush()
				toks = append(toks, "N")
			case it.text == "@B":
				flush()
				toks = append(toks, "B")
			case strings.HasPrefix(it.text, "@Z:"):
				flush()
				toks = append(toks, "Z"+it.text[3:])
			case strings.HasPrefix(it.text, "@O:"):
				flush()
				if !pendingD {
					toks = append(toks, "D")
				}
				pendingD = false
				if strings.HasPrefix(it.text[3:], "x") {
					toks = append(toks, "P")
				} else {
					toks = append(toks, "O"+it.text[3:])
				}
			}
		}
	}
	flush()
	return toks
}

// c02Labels: what the run did to the id, in the vocabulary of the model's labels.
func c02Labels(lg []*vos.Entry, recovery bool) []string {
	var out []string
	scanSeen := !recovery
	openDisp := false
	for _, it := range c02Items(lg) {
		switch it.kind {
		case 'o':
			out = append(out, it.text)
			openDisp = false
		case 'r':
			if it.text == "openM" {
				if !scanSeen {
					scanSeen = true
					out = append(out, "scan")
				} else {
					out = append(out, "disp")
					openDisp = true
				}
			}
		case 'e':
			if strings.HasPrefix(it.text, "@Z:") {
				out = append(out, "z"+it.text[3:])
			}
			if !strings.HasPrefix(it.text, "@") {
				if strings.HasPrefix(it.text, "DLV:") && it.text == "DLV:" {
					continue
				}
				out = append(out, it.text)
				openDisp = false
			}
		}
	}
	if openDisp {
		out = append(out, "openfail")
	}
	return out
}

func c02Events(lg []*vos.Entry, c c02Cut) []string {
	var out []string
	for i, e := range lg {
		if i >= c.pos {
			break
		}
		if e.Kind == 'e' && !strings.HasPrefix(e.Text, "@") {
			out = append(out, e.Text)
		}
	}
	return out
}

// c02MetaNull: does the stored metadata carry the null reverse-path (no failure report possible)?
func c02MetaNull(data []byte) bool {
	m := &c02MetaRec{}
	if err := json.NewDecoder(bytes.NewReader(data)).Decode(m); err != nil || m.MsgMeta == nil {
		return false
	}
	return m.MsgMeta.OriginalFrom == ""
}

// c02MetaRec: the monitor's OWN reading of a stored meta-data record — only the fields the accounting needs, decoded
// without the queue's types: whether the NEXT process can load what this one stored (interface-typed fields, custom
// (un)marshalers …) is the queue's obligation, not something the monitor may take from the queue's decoder.  A record
// that is a JSON object naming its recipients is a stored message; a queue that skips it has lost it.
type c02MetaRec struct {
	MsgMeta *struct {
		ID           string
		OriginalFrom string
	}
	From       string
	To         []string
	TriesCount map[string]int
}

// c02MetaTo parses a .meta file: recipient indexes and their attempt counters.
func c02MetaTo(data []byte, id string) (to []string, tries []string, ok bool) {
	m := &c02MetaRec{}
	if err := json.NewDecoder(bytes.NewReader(data)).Decode(m); err != nil {
		return nil, nil, false
	}
	for _, a := range m.To {
		idx, rid, ok := c02ParseAddr(a)
		if !ok || rid != id {
			to = append(to, "UNKNOWN("+a+")")
		} else {
			to = append(to, strconv.Itoa(idx))
		}
		tries = append(tries, strconv.Itoa(m.TriesCount[a]))
	}
	return to, tries, true
}

func c02ShowDisk(st map[string]vos.FState, id string) string {
	file := func(k string) string {
		s, ok := st[k]
		if !ok {
			return k + "-"
		}
		return fmt.Sprintf("%s%d/%d", k, len(s.Data), s.Durable)
	}
	present := func(k string) string {
		if _, ok := st[k]; ok {
			return k + "+"
		}
		return k + "-"
	}
	meta := "M-"
	if s, ok := st["M"]; ok {
		to, tries, ok := c02MetaTo(s.Data, id)
		if !ok {
			meta = "M?"
		} else {
			meta = "M" + strings.Join(to, ".") + ";" + strings.Join(tries, ".")
			if c02MetaNull(s.Data) {
				meta += ";n"
			}
			if s.Durable == len(s.Data) {
				meta += "/f"
			} else {
				meta += "/p"
			}
		}
	}
	return strings.Join([]string{file("H"), file("B"), meta, present("N"), present("X")}, " ")
}

func c02HeaderParses(data []byte) bool {
	_, err := textproto.ReadHeader(bufio.NewReader(bytes.NewReader(data)))
	return err == nil
}

// ---------------------------------------------------------------- exploration of the crash points

type c02Hist struct {
	toks []string        // model choices so far (ends with the crash token and "R")
	pre  []string        // real events before the crash(es)
	hp   int             // -1 unknown, else result of ReadHeader on the header found after the first crash
	tmp  map[string]int  // recipient → temporary failures the target returned before the crash(es)
	prm  map[string]bool // recipient → the target returned a permanent failure before the crash(es)
	// recipients delivered / reported in the run that was stopped last, when that stop came after the queue had
	// finished everything it does for the message in that run (the run was quiescent): their outcome is recorded
	idleDone map[string]bool
}

// c02Fails adds, per recipient, the failures the scripted target returned in the entries before pos.
func c02Fails(lg []*vos.Entry, pos int, tmp map[string]int, prm map[string]bool) {
	letters := ""
	for i, e := range lg {
		if i >= pos {
			break
		}
		if e.Kind != 'e' {
			continue
		}
		switch {
		case strings.HasPrefix(e.Text, "@O:"):
			// the result each recipient of the attempt has by the contract of a delivery (c02Effective): a failing
			// Commit is a failure of every recipient the target had accepted
			letters = c02Effective(e.Text[3:])
		case strings.HasPrefix(e.Text, "ATT:"):
			if e.Text != "ATT:" {
				for k, r := range strings.Split(e.Text[4:], ".") {
					if k < len(letters) {
						switch letters[k] {
						case 't', 'u':
							tmp[r]++
						case 'p':
							prm[r] = true
						}
					}
				}
			}
			letters = ""
		}
	}
}

// c02Account is the property's clause for ONE recovery run and ONE stored message: the directory the
// run started from held a complete message (loadable .meta + header + body) with pending recipients
// `stored`; every one of them has to be attempted by the run (unless the header file cannot be
// parsed: then the message stays as it is) and has to end up delivered, named in a failure report,
// or pending in a loadable .meta next to header and body when the run is over.  For the null
// reverse-path no report can be made: there a recipient may instead be given up on once the target
// returned a permanent failure or maxTries temporary ones (tmp/prm: failures before this run).
// Recipients in `done` had their outcome before the stop already (the crash came before the queue
// could record it): the property asks nothing more for them.
// Returns the first recipient that is unaccounted for.
func c02Account(id string, stored []string, done map[string]bool, null bool, hdrParses bool, maxTries int, tmp map[string]int, prm map[string]bool,
	lg []*vos.Entry, final map[string]vos.FState) (lost string, why string) {
	tmpAll := map[string]int{}
	prmAll := map[string]bool{}
	for k, v := range tmp {
		tmpAll[k] = v
	}
	for k, v := range prm {
		prmAll[k] = v
	}
	c02Fails(lg, len(lg), tmpAll, prmAll)
	att, dlv, rpt, pend := map[string]bool{}, map[string]bool{}, map[string]bool{}, map[string]bool{}
	for _, e := range lg {
		if e.Kind != 'e' {
			continue
		}
		for pref, set := range map[string]map[string]bool{"ATT:": att, "DLV:": dlv, "RPT:": rpt} {
			if strings.HasPrefix(e.Text, pref) && e.Text != pref {
				for _, r := range strings.Split(e.Text[len(pref):], ".") {
					set[r] = true
				}
			}
		}
	}
	_, hasH := final["H"]
	_, hasB := final["B"]
	if m, ok := final["M"]; ok && hasH && hasB {
		if to, _, ok := c02MetaTo(m.Data, id); ok {
			for _, r := range to {
				pend[r] = true
			}
		}
	}
	for _, r := range stored {
		gaveUp := null && (prmAll[r] || tmpAll[r] >= maxTries)
		switch {
		case done[r]:
		case !att[r] && hdrParses:
			return r, "is not attempted by the recovery run"
		case dlv[r] || rpt[r] || pend[r] || gaveUp:
		default:
			return r, "is neither delivered, nor named in a failure report, nor pending in a loadable .meta when the recovery run is over"
		}
	}
	return "", ""
}

type c02Explorer struct {
	out      *vh.Out
	maxTries int
	expect   map[string]string
	norig    map[string]int
	env      map[string]byte
	outs     [][]map[string][]string // outs[depth-1][variant]: scripted outcomes of the recovery runs (0 all ok, 1 and 2 with failures)
	maxDepth int
	thorough bool
	rng      *vh.Rng
	only     map[int]c02Only // replay: restrict depth d to one cut
	cache    map[string]c02SegOut
	ctxs     map[string]*c02RecCtx
	seen     *sync.Map
	scen     string
	par      int // max_parallelism of the recovery runs
	loc      int // name of the spool directory of every run (index into c02DirNames)
	sample   int // >0: percentage of the crash points that are explored (scenarios with many messages)
	grow     c02Grow
	big      bool // a message with thousands of recipients: the stops between two attempts are always explored, a sample of the others
}

// c02RecCtx: one recovery run of the explorer, as far as the multi-message reporting needs it.
type c02RecCtx struct {
	perID       map[string]map[string][]byte // id → kind → bytes found at the restart
	outcomes    map[string][]string
	deliverable int
	tried       bool
	reproduced  bool
	capped      bool
	line        string
}

// c02Confirms counts the re-runs of reduced directories (see lost).
var c02Confirms int64

const c02ConfirmCap = 24

// backlogLine describes the complete messages of the directory of a recovery run as a `C02 backlog`
// line (ids renumbered a1, a2, … in order; only messages whose files are exactly what a hand-made
// spec can express: that is every complete message the unchanged queue ever leaves behind).
func (x *c02Explorer) backlogLine(ctx *c02RecCtx) (string, bool) {
	ids := make([]string, 0, len(ctx.perID))
	for id := range ctx.perID {
		ids = append(ids, id)
	}
	sort.Strings(ids)
	line := fmt.Sprintf("C02 backlog %d %d", x.maxTries, x.parOr4())
	k := 0
	for _, id := range ids {
		st := ctx.perID[id]
		m, okM := st["M"]
		h, okH := st["H"]
		b, okB := st["B"]
		if !okM || !okH || !okB {
			continue
		}
		to, tries, ok := c02MetaTo(m, id)
		if !ok || len(to) == 0 || strings.Contains(strings.Join(to, " "), "UNKNOWN") {
			continue
		}
		hdr, ok := c02HeaderForLen(len(h))
		if !ok || !bytes.Equal(c02HeaderBytes(hdr), h) || !bytes.Equal(c02Body(id, len(b)), b) {
			continue
		}
		env := x.env[id]
		if env == 0 {
			env = 'p'
		}
		if c02MetaNull(m) != c02EnvNull(env) {
			continue
		}
		spec := fmt.Sprintf("1 H%d B%d M%s;%s", len(h), len(b), strings.Join(to, "."), strings.Join(tries, "."))
		if env != 'p' {
			spec += ";" + string(env)
		}
		if _, ok := st["N"]; ok {
			spec += " N+"
		} else {
			spec += " N-"
		}
		if _, ok := st["X"]; ok {
			spec += " X+"
		} else {
			spec += " X-"
		}
		if k == 0 && x.loc > 0 {
			spec += " " + c02LocToken(x.loc)
		}
		if k == 0 && x.grow.tm.isSet() {
			spec += " " + x.grow.tm.token()
		}
		for _, o := range ctx.outcomes[id] {
			spec += " O" + o
		}
		if k > 0 {
			line += " /"
		}
		line += " " + spec
		k++
	}
	return line, k >= 2
}

func (x *c02Explorer) parOr4() int {
	if x.par <= 0 {
		return 4
	}
	return x.par
}

// lost reports a loss (or a stuck run) seen in a recovery run of the explorer.  The op line of the
// explorer is the history of ONE id; when the directory held several deliverable messages the loss may
// depend on the others (a backlog larger than max_parallelism), so the directory is first reduced to a
// hand-made `C02 backlog` line, that line is run, and its own monitor reports the violation with a line
// that reproduces it.  Only when that does not reproduce it is the single-id line named.
func (x *c02Explorer) lost(ctx *c02RecCtx, sig, op, detail string) {
	if ctx == nil || ctx.deliverable < 2 {
		c02V(x.out, sig, op, detail)
		return
	}
	if !ctx.tried {
		ctx.tried = true
		if atomic.AddInt64(&c02Confirms, 1) > c02ConfirmCap || atomic.LoadInt64(&c02Hangs) >= c02HangsEnough+4 {
			ctx.capped = true
		} else if line, ok := x.backlogLine(ctx); ok {
			ctx.line = line
			// a stuck run may depend on how the deliveries interleave: the reduced directory gets two tries
			for try := 0; try < 2 && !ctx.reproduced; try++ {
				ctx.reproduced = c02RunBacklog(x.out, line) > 0
				if sig != "C02/recovery-hang" && sig != "C02/retry-never-due" {
					break
				}
			}
		}
	}
	switch {
	case ctx.reproduced:
		x.out.Stat("monitor.multi-message-loss.reported-with-backlog-line")
	case ctx.capped:
		x.out.Stat("monitor.multi-message-loss.not-reported(enough-reported-already)")
	case sig == "C02/recovery-hang":
		// no line that reproduces it: the T2 lines of the stuck run (SLOT-NEVER-FIRED) still flag it
		x.out.Stat("monitor.stuck-multi-message-run.not-reproduced-from-reduced-directory")
		x.out.Note("a recovery run on a directory with " + strconv.Itoa(ctx.deliverable) + " deliverable messages stopped making progress (" + op + "); the reduced directory did not get stuck: " + ctx.line)
	default:
		c02V(x.out, sig, op, detail+"; the directory held "+strconv.Itoa(ctx.deliverable)+" deliverable messages (max_parallelism "+strconv.Itoa(x.parOr4())+"); not reproduced from the reduced directory "+ctx.line)
	}
}

type c02Only struct {
	ops      int
	inflight int
	keep     string
}

type c02Vector struct {
	cuts map[string]c02Cut
	keep string
}

func (x *c02Explorer) vectors(seg c02SegOut, depth int) []c02Vector {
	ids := make([]string, 0, len(seg.logs))
	for id := range seg.logs {
		ids = append(ids, id)
	}
	sort.Strings(ids)
	var vs []c02Vector
	seen := map[string]bool{}
	add := func(cuts map[string]c02Cut, keep string) {
		var kb strings.Builder
		for _, id := range ids {
			c := cuts[id]
			fmt.Fprintf(&kb, "%s:%d.%d ", id, c.pos, c.extra)
		}
		kb.WriteString(keep)
		if seen[kb.String()] {
			return
		}
		seen[kb.String()] = true
		cp := map[string]c02Cut{}
		for k, v := range cuts {
			cp[k] = v
		}
		vs = append(vs, c02Vector{cuts: cp, keep: keep})
	}
	if o, ok := x.only[depth]; ok {
		// replay: the one cut named by the op line (single id)
		for _, id := range ids {
			for _, c := range c02Cuts(seg.logs[id], true) {
				if c.ops == o.ops && c.inflight == o.inflight {
					add(map[string]c02Cut{id: c}, o.keep)
					return vs
				}
			}
		}
		return vs
	}
	keeps := []string{"a", "d"}
	// every crash point of the run as it really interleaved
	for _, id := range ids {
		lg := seg.logs[id]
		for _, c := range c02Cuts(lg, true) {
			if x.sample > 0 && !x.rng.Chance(x.sample) {
				// big messages: the process always stops (also) between two attempts — before the next update of the
				// meta-data begins, before the removal begins, when the run is over
				between := c.extra == 0 && (c.pos == len(lg) || lg[c.pos].Text == "cN" || lg[c.pos].Text == "rmH")
				if !x.big || !between {
					continue
				}
			}
			seq := int(^uint(0) >> 1)
			if c.pos < len(lg) {
				seq = lg[c.pos].Seq
			}
			cuts := map[string]c02Cut{id: c}
			for _, other := range ids {
				if other != id {
					cuts[other] = c02CutAtSeq(seg.logs[other], seq)
				}
			}
			for _, k := range keeps {
				add(cuts, k)
			}
			if (x.thorough && x.rng.Chance(25)) || x.rng.Chance(4) {
				// partial loss: every file keeps a random part of its un-synced data
				pick := func() string {
					switch x.rng.Intn(4) {
					case 0:
						return "a"
					case 1:
						return "0"
					default:
						return strconv.Itoa(1 + x.rng.Intn(9))
					}
				}
				add(cuts, pick()+","+pick()+",a,"+pick())
			}
		}
	}
	return vs
}

func c02StateKey(files map[string][]byte) string {
	names := make([]string, 0, len(files))
	for n := range files {
		names = append(names, n)
	}
	sort.Strings(names)
	var b strings.Builder
	for _, n := range names {
		fmt.Fprintf(&b, "%s=%x;", n, files[n])
	}
	return b.String()
}

func c02OutsKey(m map[string][]string) string {
	ids := make([]string, 0, len(m))
	for id := range m {
		ids = append(ids, id)
	}
	sort.Strings(ids)
	var b strings.Builder
	for _, id := range ids {
		fmt.Fprintf(&b, "%s:%s;", id, strings.Join(m[id], ","))
	}
	return b.String()
}

// explore crashes the run `seg` at its crash points, restarts the real queue on each directory and
// checks the property; depth counts the crashes so far.
func (x *c02Explorer) explore(seg c02SegOut, recovery bool, hist map[string]c02Hist, depth int) {
	if depth > x.maxDepth {
		return
	}
	variants := x.outs[depth-1]
	for _, v := range x.vectors(seg, depth) {
		files := map[string][]byte{}
		perID := map[string]map[string][]byte{}
		for id, c := range v.cuts {
			st := c02ApplyKeep(c02StateAt(seg.logs[id], seg.final[id], c), v.keep)
			perID[id] = st
			for k, data := range st {
				files[vos.FileName(id, k)] = data
			}
		}
		// does the directory hold anything the start-up scan could schedule?
		deliverable := false
		ndeliverable := 0
		for _, st := range perID {
			_, m := st["M"]
			_, h := st["H"]
			_, b := st["B"]
			if m && h && b {
				deliverable = true
				ndeliverable++
			}
		}
		if ndeliverable > x.parOr4() {
			if atomic.LoadInt64(&c02Hangs) >= c02HangsEnough {
				// recovery runs got stuck already (reported): do not wait for more of the same
				x.out.Stat("recovery-runs.skipped(backlog-after-stuck-runs)")
				continue
			}
			x.out.Stat("recovery-runs.vector.backlog-larger-than-max-parallelism")
		}
		// Scripts of the recovery run.  When something can be delivered the run is made with a script
		// that fails recipients temporarily and permanently from its first attempt on (so the
		// failure path of tryDelivery is taken right after EVERY crash point, also those before the
		// first attempt of the crashed run had ended; which of the two failing scripts is a function
		// of the directory content, so equal directories share one run), and for a third of the
		// directories (thorough tier: all) once more with the all-ok script.
		scripts := variants[:1]
		skey := c02StateKey(files)
		pick := 0
		for i := 0; i < len(skey); i++ {
			pick = (pick*131 + int(skey[i])) % 1000003
		}
		switch {
		case len(variants) < 3:
		case !deliverable:
			x.out.Stat("recovery-script.irrelevant(nothing-to-deliver)")
		case x.thorough || pick%3 == 0:
			scripts = []map[string][]string{variants[1+pick%2], variants[0]}
		default:
			scripts = []map[string][]string{variants[1+pick%2]}
		}
		next := map[string]c02Hist{}
		for id, c := range v.cuts {
			h, known := hist[id]
			if !known {
				h.hp = -1
			}
			lg := seg.logs[id]
			nh := c02Hist{hp: h.hp, tmp: map[string]int{}, prm: map[string]bool{}}
			nh.toks = append(append([]string{}, h.toks...), c02Tokens(lg, c, recovery)...)
			nh.toks = append(nh.toks, c02CutToken(c, v.keep), "R")
			nh.pre = append(append([]string{}, h.pre...), c02Events(lg, c)...)
			for k, n := range h.tmp {
				nh.tmp[k] = n
			}
			for k, b := range h.prm {
				nh.prm[k] = b
			}
			c02Fails(lg, c.pos, nh.tmp, nh.prm)
			if c.pos == len(lg) && c.extra == 0 && !seg.hung {
				nh.idleDone = map[string]bool{}
				for _, e := range lg {
					if e.Kind == 'e' && (strings.HasPrefix(e.Text, "DLV:") || strings.HasPrefix(e.Text, "RPT:")) && len(e.Text) > 4 {
						for _, r := range strings.Split(e.Text[4:], ".") {
							nh.idleDone[r] = true
						}
					}
				}
			}
			if nh.hp < 0 {
				if data, ok := perID[id]["H"]; ok {
					nh.hp = 0
					if c02HeaderParses(data) {
						nh.hp = 1
					}
				}
			}
			next[id] = nh
		}
		var first c02SegOut
		for si, outcomes := range scripts {
			okey := c02OutsKey(outcomes)
			if !deliverable {
				okey = "-"
			}
			key := fmt.Sprintf("%d|%s|%s", x.maxTries, skey, okey)
			rec, ok := x.cache[key]
			if !ok {
				rec = c02RunRecovery(c02SegIn{maxTries: x.maxTries, files: files, outcomes: outcomes, expect: x.expect, recovery: true, par: x.par, loc: x.loc, grow: x.grow})
				x.cache[key] = rec
				x.ctxs[key] = &c02RecCtx{perID: perID, outcomes: outcomes, deliverable: ndeliverable}
				if ndeliverable > x.parOr4() {
					x.out.Stat(fmt.Sprintf("recovery-runs.backlog.%d-messages.max-parallelism-%d", ndeliverable, x.parOr4()))
				}
				x.out.Stat("recovery-runs.depth" + strconv.Itoa(depth))
				if deliverable && len(variants) >= 3 {
					for vk := range variants {
						if c02OutsKey(variants[vk]) == okey {
							x.out.Stat("recovery-script." + []string{"all-ok", "failing-A", "failing-B"}[vk%3])
							break
						}
					}
				}
			} else {
				x.out.Stat("recovery-runs.cached")
			}
			if si == 0 {
				first = rec
			}
			for id, c := range v.cuts {
				x.judge(id, next[id], perID[id], rec, x.ctxs[key], depth, v.keep, c)
			}
		}
		if first.hung {
			continue // a stuck run is not crashed again
		}
		x.explore(first, true, next, depth+1)
	}
}

// judge emits the correspondence line of one id for one crash history and evaluates the property.
func (x *c02Explorer) judge(id string, h c02Hist, crashFiles map[string][]byte, rec c02SegOut, ctx *c02RecCtx, depth int, keep string, cut c02Cut) {
	hp := h.hp
	if hp < 0 {
		hp = 1
	}
	full := c02Cut{pos: len(rec.logs[id])}
	toks := append(append([]string{}, h.toks...), c02Tokens(rec.logs[id], full, true)...)
	if len(toks) == 2 && len(rec.logs[id]) == 0 {
		return // nothing of this id existed yet
	}
	op := fmt.Sprintf("C02 run %d %d %s", x.maxTries, hp, strings.Join(toks, " "))
	// the same history under another name of the spool directory is judged by the monitor again (the model's
	// answer does not depend on the name: one correspondence line per history)
	if _, dup := x.seen.LoadOrStore(op+"|"+c02LocToken(x.loc)+x.grow.token(), true); dup {
		x.out.Stat("lines.duplicate")
		return
	}
	labels := c02Labels(rec.logs[id], true)
	obs := strings.Join(labels, " ") + " | " + c02ShowDisk(rec.final[id], id)
	if _, dup := x.seen.LoadOrStore("corr|"+op, true); !dup {
		x.out.Corr(op, obs)
	}
	// The model's answer does not depend on max_parallelism (the ids are independent), so the
	// correspondence line does not carry it; the line named in a violation does (token S<par> in front,
	// read by the replay only) whenever the recovery runs were not made with the default of 4.
	if x.parOr4() != 4 || x.loc > 0 || x.grow.token() != "" {
		pre := ""
		if x.parOr4() != 4 {
			pre = fmt.Sprintf("S%d ", x.parOr4())
		}
		if x.loc > 0 {
			pre += c02LocToken(x.loc) + " "
		}
		if g := x.grow.token(); g != "" {
			pre += g + " "
		}
		op = fmt.Sprintf("C02 run %d %d %s%s", x.maxTries, hp, pre, strings.Join(toks, " "))
	}

	// ---- statistics of the input distribution
	x.out.Stat("depth." + strconv.Itoa(depth))
	switch {
	case cut.inflight > 0:
		x.out.Stat("crash.torn-write." + keepClass(keep))
	default:
		x.out.Stat("crash.between-ops." + keepClass(keep))
	}
	post := []string{}
	for _, e := range rec.logs[id] {
		if e.Kind == 'e' && !strings.HasPrefix(e.Text, "@") {
			post = append(post, e.Text)
		}
	}
	has := func(evs []string, what string) bool {
		for _, e := range evs {
			if e == what {
				return true
			}
		}
		return false
	}
	accepted, aborted := has(h.pre, "ACC"), has(h.pre, "ABT")
	nacked := has(h.pre, "NACK") // Commit returned an error: the sender was told that the transaction failed
	stoppedQ := false
	for _, t := range h.toks {
		if t == "Q" {
			stoppedQ = true
		}
	}
	panicked := has(h.pre, "PANIC") || has(post, "PANIC")
	lists := func(evs []string, prefix string) [][]string {
		var out [][]string
		for _, e := range evs {
			if strings.HasPrefix(e, prefix) {
				if e == prefix {
					out = append(out, nil)
				} else {
					out = append(out, strings.Split(e[len(prefix):], "."))
				}
			}
		}
		return out
	}
	termPre := map[string]bool{}
	for _, l := range append(lists(h.pre, "DLV:"), lists(h.pre, "RPT:")...) {
		for _, r := range l {
			termPre[r] = true
		}
	}
	attPost := lists(post, "ATT:")
	attemptedPost := map[string]bool{}
	for _, l := range attPost {
		for _, r := range l {
			attemptedPost[r] = true
		}
	}
	// what the crash left of this id, for the statistics
	_, hasM := crashFiles["M"]
	_, hasH := crashFiles["H"]
	_, hasB := crashFiles["B"]
	_, hasX := crashFiles["X"]
	_, hasN := crashFiles["N"]
	cls := "absent"
	switch {
	case hasM && hasH && hasB:
		cls = "complete"
	case hasM:
		cls = "removing"
	case hasX:
		cls = "quarantined"
	case hasH || hasB || hasN:
		cls = "staged-no-meta"
	}
	x.out.Stat("crash-state." + cls)
	if hasN {
		x.out.Stat("crash-state.with-meta.new")
	}
	if stoppedQ {
		x.out.Stat("history.transaction-ended-on-a-stopped-queue")
	}
	switch {
	case aborted && stoppedQ:
		x.out.Stat("history.aborted.on-a-stopped-queue")
	case aborted:
		x.out.Stat("history.aborted")
	case nacked:
		x.out.Stat("history.commit-refused")
	case accepted && stoppedQ:
		x.out.Stat("history.accepted.by-a-stopped-queue")
	case accepted:
		x.out.Stat("history.accepted")
	default:
		x.out.Stat("history.in-flight")
	}
	if len(attPost) > 0 {
		x.out.Stat("recovery.attempts")
	} else {
		x.out.Stat("recovery.nothing")
	}
	for _, l := range labels {
		if l == "openfail" || strings.HasPrefix(l, "rm") || l == "scan" || l == "disp" {
			x.out.Stat("recovery.label." + l)
		}
	}

	// ---- the property, on the real events
	detail := func() string {
		return fmt.Sprintf("before the stop: %s; after restart: %s; files at restart: %s", strings.Join(h.pre, " "), strings.Join(post, " "), c02ShowDiskBytes(crashFiles, id))
	}
	null := c02EnvNull(x.env[id])
	if null {
		x.out.Stat("history.null-reverse-path")
	}
	if x.big {
		x.out.Stat("big.run.lines")
		if hasM && hasH && hasB {
			x.out.Stat("big.run.meta-bytes-at-restart." + c02SizeClass(len(crashFiles["M"])))
		}
	}
	if data, ok := crashFiles["B"]; ok && hasM && hasH && len(data) < 2 {
		x.out.Stat(fmt.Sprintf("crash-state.complete.body-bytes.%d", len(data)))
	}
	if rec.hung {
		// the run is stuck: nothing more happens to any message of the directory
		if len(rec.logs[id]) > 0 || (hasM && hasH && hasB) {
			x.lost(ctx, c02HangSig(rec, "C02/recovery-hang"), op, c02HangWhy(rec, "the recovery run stopped making progress while the queue still owed a delivery")+"; "+detail())
		}
		return
	}
	// (1) the clause for this recovery run and the message it found stored (whatever happened before):
	// every pending recipient of a complete stored message is attempted and then delivered, reported,
	// or still pending in a loadable .meta.  A scripted panic of the target quarantines by design.
	var storedTo []string
	storedOK := false
	if data, ok := crashFiles["M"]; ok && hasH && hasB {
		storedTo, _, storedOK = c02MetaTo(data, id)
	}
	accountedPost := map[string]bool{}
	lostReported := false
	if storedOK && !has(post, "PANIC") && !nacked {
		x.out.Stat("monitor.stored-message-accounted-for.checked")
		hdrParses := c02HeaderParses(crashFiles["H"])
		donePre := map[string]bool{}
		for _, r := range storedTo {
			if termPre[r] || (null && (h.prm[r] || h.tmp[r] >= x.maxTries)) {
				donePre[r] = true
			}
		}
		lost, why := c02Account(id, storedTo, donePre, null, hdrParses, x.maxTries, h.tmp, h.prm, rec.logs[id], rec.final[id])
		if lost != "" {
			sig := "C02/stored-lost"
			what := "a stored message whose transaction was still open at the stop"
			if accepted {
				sig, what = "C02/accepted-lost", "an accepted message"
			}
			quarantined := ""
			if _, q := rec.final[id]["X"]; q && !hasX {
				quarantined = " (the recovery run left the meta-data as .meta_broken, which is never loaded again)"
			}
			x.lost(ctx, sig, op, "pending recipient "+lost+" of "+what+" "+why+quarantined+"; "+detail())
			lostReported = true
		} else {
			for _, r := range storedTo {
				accountedPost[r] = true
			}
		}
	}
	// (2) the whole history of an accepted message: every original recipient had its outcome before the
	// stop (for the null reverse-path: was given up on after a permanent failure / maxTries temporary
	// ones), or is taken care of by the recovery run as in (1).
	if accepted && !panicked && !lostReported {
		x.out.Stat("monitor.accepted-survives.checked")
		for i := 1; i <= x.norig[id]; i++ {
			r := strconv.Itoa(i)
			gaveUpPre := null && (h.prm[r] || h.tmp[r] >= x.maxTries)
			if !termPre[r] && !gaveUpPre && !(attemptedPost[r] && accountedPost[r]) {
				x.lost(ctx, "C02/accepted-lost", op, "recipient "+r+" of an accepted message neither had an outcome before the stop nor is attempted after restart; "+detail())
				break
			}
		}
	}
	if aborted && len(attPost) > 0 {
		c02V(x.out, "C02/aborted-delivered", op, "a message whose transaction was aborted is attempted after restart; "+detail())
	}
	// acceptance = Commit returned nil: a transaction whose Commit returned an error was NOT acknowledged (the sender
	// is told it failed and sends the message again) — it is never delivered, in particular not after a restart
	if accepted || aborted || nacked {
		x.out.Stat("monitor.only-acknowledged-transactions-delivered.checked")
	}
	if nacked && len(attPost) > 0 {
		c02V(x.out, "C02/unacknowledged-delivered", op, "a message whose transaction was not acknowledged (Commit returned an error to the sender) is attempted after restart: the entry written by Body was left in the spool; "+detail())
	}
	// recipients stored as pending in the metadata found at restart
	stored := map[string]bool{}
	if data, ok := crashFiles["M"]; ok {
		if to, _, ok := c02MetaTo(data, id); ok {
			for _, r := range to {
				stored[r] = true
			}
		}
	}
	for _, l := range attPost {
		for _, r := range l {
			if !stored[r] || strings.HasPrefix(r, "UNKNOWN") {
				c02V(x.out, "C02/foreign-recipient", op, "recipient "+r+" attempted after restart is not a pending recipient of the stored metadata; "+detail())
			}
		}
	}
	// a recipient whose delivery / failure report the queue had finished recording when the process stopped (the
	// stop found the queue idle for this message) is never sent to again
	if len(h.idleDone) > 0 {
		x.out.Stat("monitor.no-resend-after-recorded-outcome.checked")
	resent:
		for _, l := range attPost {
			for _, r := range l {
				if h.idleDone[r] {
					c02V(x.out, "C02/resent-after-delivery", op, "recipient "+r+" was delivered (or reported as failed) before the stop, the queue had finished its bookkeeping for the message when the process stopped, and it is attempted again after the restart; "+detail())
					break resent
				}
			}
		}
	}
	preAtt := lists(h.pre, "ATT:")
	if len(preAtt) > 0 {
		last := map[string]bool{}
		for _, r := range preAtt[len(preAtt)-1] {
			last[r] = true
		}
		for _, l := range attPost {
			for _, r := range l {
				if !last[r] {
					c02V(x.out, "C02/resent-after-later-attempt", op, "recipient "+r+" is sent again although a later attempt without it had begun before the stop; "+detail())
				}
			}
		}
	}
	if rec.bad[id] {
		if accepted {
			c02V(x.out, "C02/accepted-content-lost", op, "an accepted message is delivered after restart with a header/body that differs from what was accepted; "+detail())
		} else {
			c02V(x.out, "C02/unstored-content-delivered", op, "a message is delivered after restart with a header/body that was never handed to the queue (metadata durable before the content); "+detail())
		}
	}
}

func c02SizeClass(n int) string {
	switch {
	case n < 100<<10:
		return "under-100KiB"
	case n < 256<<10:
		return "100-256KiB"
	case n < 1<<20:
		return "256KiB-1MiB"
	case n < 4<<20:
		return "1-4MiB"
	}
	return "over-4MiB"
}

func keepClass(k string) string {
	switch k {
	case "a":
		return "nothing-lost"
	case "d":
		return "unsynced-dropped"
	}
	return "partial-loss"
}

func c02ShowDiskBytes(files map[string][]byte, id string) string {
	st := map[string]vos.FState{}
	for k, d := range files {
		st[k] = vos.FState{Data: d, Durable: len(d)}
	}
	return c02ShowDisk(st, id)
}

// ---------------------------------------------------------------- scenarios

type c02Scenario struct {
	maxTries int
	accepts  []c02Accept
	out0     map[string][]string
	stagger  int
	par      int // max_parallelism of the recovery runs (0: 4); the first run always has room for every message
	loc      int // name of the spool directory (index into c02DirNames)
	grow     c02Grow
	big      bool
}

func c02GenOutcomes(r *vh.Rng, n int, attempts int, faulty int, allowPanic bool) []string {
	var out []string
	for a := 0; a < attempts; a++ {
		if allowPanic && r.Chance(4) {
			out = append(out, "x")
			continue
		}
		b := make([]byte, n)
		for i := range b {
			if r.Chance(faulty) {
				b[i] = "ttpu"[r.Intn(4)]
			} else {
				b[i] = 'o'
			}
		}
		out = append(out, string(b)+c02GenStages(r, n, faulty))
	}
	return out
}

// c02GenStages draws the part of an attempt's script after the AddRcpt stage ("" = plain target, Body and Commit
// succeed): plain / PartialDelivery target, failure of Body (for all) or of BodyNonAtomic (per recipient), failure
// of Commit — often after every earlier stage succeeded for everybody.  faulty = 0 keeps the attempt successful
// (but still makes it with both kinds of target).
func c02GenStages(r *vh.Rng, n int, faulty int) string {
	if !r.Chance(45) {
		return ""
	}
	partial := r.Bool()
	commit := byte('o')
	body := make([]byte, n)
	for i := range body {
		body[i] = 'o'
	}
	if faulty > 0 {
		switch x := r.Intn(10); {
		case x < 4: // Commit fails after everything before it went well
			commit = "ttpu"[r.Intn(4)]
		case x < 7: // the body stage fails (for some), Commit may fail too
			for i := range body {
				if r.Chance(50) {
					body[i] = "ttpu"[r.Intn(4)]
				}
			}
			if r.Chance(30) {
				commit = "tpu"[r.Intn(3)]
			}
		}
	}
	if !partial {
		return "/a" + string(body[:1]) + "/" + string(commit)
	}
	return "/n" + string(body) + "/" + string(commit)
}

func c02GenScenario(r *vh.Rng) c02Scenario {
	sc := c02Scenario{maxTries: 1 + r.Intn(3), out0: map[string][]string{}}
	nm := 1
	switch x := r.Intn(20); {
	case x < 9:
		nm = 1
	case x < 14:
		nm = 2
	case x < 18:
		nm = 3
	case x < 19:
		nm = 4
	default:
		nm = 5
	}
	sc.stagger = r.Intn(3)
	if nm >= 2 && r.Chance(40) {
		sc.stagger = 3 // nothing is delivered before the last transaction ended: the stop finds a backlog
	}
	// max_parallelism of the recovery runs: mostly smaller than the number of messages in the spool
	sc.par = []int{1, 2, 1, 2, 4}[r.Intn(5)]
	sc.loc = c02GenLoc(r)
	sc.grow.tm = c02GenSched(r)
	sc.grow.conn = c02GenOrigin(r)
	hls := c02HeaderLens()
	base := hls[2]
	two := len(c02HeaderBytes(c02MakeHeader(0)))
	for i := 0; i < nm; i++ {
		// bodies: a fifth of the messages are header-only (zero-length body: io.Copy issues no write at all,
		// the body file exists and is empty), a tenth have a single byte
		a := c02Accept{id: fmt.Sprintf("a%d", i+1), n: 1 + r.Intn(3), bl: []int{0, 0, 1, 2, 7, 7, 7, 40, 40, 300}[r.Intn(10)]}
		// headers: one field / two fields; sometimes a field with an empty value or no field at all
		switch x := r.Intn(20); {
		case x < 8:
			a.hl = base
		case x < 15:
			a.hl = two + r.Intn(6)
		case x < 17:
			a.hl = hls[1]
		case x < 19:
			a.hl = hls[3]
		default:
			a.hl = hls[0]
		}
		switch x := r.Intn(10); {
		case x < 7:
			a.fate = 'c'
		case x < 9:
			a.fate = 'b'
		default:
			a.fate = 'n'
		}
		// spelling of the envelope: half plain, a quarter null reverse-path, the rest internationalised / quoted / mixed
		switch x := r.Intn(16); {
		case x < 8:
			a.env = 'p'
		case x < 11:
			a.env = 'n'
		case x < 12:
			a.env = 'z'
		default:
			a.env = "iqmi"[x-12]
		}
		// Close racing with the open transaction (single-message scenarios, a sixth of them): the queue is stopped
		// before Body or between Body and Commit / Abort; the transaction ends on the stopped queue
		if nm == 1 && r.Chance(17) {
			a.fate = "kkKj"[r.Intn(4)]
		}
		sc.accepts = append(sc.accepts, a)
		sc.out0[a.id] = c02GenOutcomes(r, a.n, sc.maxTries, []int{0, 30, 60, 90}[r.Intn(4)], true)
	}
	return sc
}

// c02BigSizes: the size dimension — recipients, bytes added to every address, bytes added to every error text.
// The stored meta-data (To, TriesCount, TemporaryFailedRcpts, RcptErrs with the last error text: 200-250 bytes per
// deferred recipient without any padding) has 100 KiB … several MiB; maddy accepts up to 20000 recipients per message.
var c02BigSizes = [][3]int{{1500, 0, 0}, {3000, 0, 0}, {600, 180, 0}, {400, 0, 1500}, {2500, 30, 200}, {450, 0, 0}, {5000, 0, 40}, {1200, 60, 600}}

var c02BigSizesThorough = [][3]int{{9000, 0, 0}, {20000, 0, 0}, {4000, 100, 500}, {300, 0, 20000}}

// c02BigSizesMiB: records of more than 1 MiB after a deferral; c02BigSizesSeveral: of several MiB (hand-made only).
var c02BigSizesMiB = [][3]int{{5000, 0, 40}, {2500, 30, 200}, {1200, 60, 600}, {4000, 20, 300}}

var c02BigSizesSeveral = [][3]int{{8000, 20, 300}, {5000, 40, 500}, {3000, 100, 900}}

// c02PickBig: class 0 any size, 1 more than 1 MiB, 2 several MiB (every run has one of each of the latter two).
func c02PickBig(r *vh.Rng, class int) [3]int {
	switch {
	case class == 1:
		return c02BigSizesMiB[r.Intn(len(c02BigSizesMiB))]
	case class == 2:
		return c02BigSizesSeveral[r.Intn(len(c02BigSizesSeveral))]
	case vh.Thorough() && r.Chance(35):
		return c02BigSizesThorough[r.Intn(len(c02BigSizesThorough))]
	}
	return c02BigSizes[r.Intn(len(c02BigSizes))]
}

// c02BigLetters: the script of one attempt for n recipients: everybody deferred (mostly), or a mix.
func c02BigLetters(r *vh.Rng, n int, first bool) string {
	if first && r.Chance(60) {
		return strings.Repeat(r.Pick("t", "t", "u"), n)
	}
	b := make([]byte, n)
	alphabet := "ootpu"
	if first {
		alphabet = "tttttttuuo" // (nearly) everybody is deferred by the first attempt
	}
	for i := range b {
		b[i] = alphabet[r.Intn(len(alphabet))]
	}
	return string(b)
}

// c02GenBigScenario: ONE accepted message with hundreds / thousands of recipients, long addresses and / or long
// error texts; the first attempt defers (nearly) all of them, so the meta-data the queue writes is big; the
// process is stopped between the attempts (explorer: c02Explorer.big) and started again.
func c02GenBigScenario(r *vh.Rng, class int) c02Scenario {
	sz := c02PickBig(r, class)
	if sz[0] > 9000 {
		sz[0] = 9000 // the largest records are hand-made (one line each); a real run is crashed a dozen times
	}
	sc := c02Scenario{maxTries: 2 + r.Intn(2), out0: map[string][]string{}, big: true, grow: c02Grow{apad: sz[1], epad: sz[2]}}
	sc.par = 4
	sc.loc = 0
	if r.Chance(25) {
		sc.loc = c02GenLoc(r)
	}
	sc.grow.tm = c02GenSched(r)
	sc.grow.conn = c02GenOrigin(r)
	hls := c02HeaderLens()
	a := c02Accept{id: "a1", n: sz[0], hl: hls[2], bl: []int{7, 0, 300}[r.Intn(3)], fate: 'c', env: "pppnim"[r.Intn(6)]}
	sc.accepts = []c02Accept{a}
	for t := 0; t < sc.maxTries; t++ {
		sc.out0[a.id] = append(sc.out0[a.id], c02BigLetters(r, a.n, t == 0)+c02GenStages(r, a.n, 0))
	}
	return sc
}

// c02GenBigSyn: a hand-made directory whose meta-data file is big (written by the queue's own encoder): n pending
// recipients with stored counter c (c > 0: the after-a-deferral image with one stored error per recipient).
func c02GenBigSyn(r *vh.Rng, class int) string {
	sz := c02PickBig(r, class)
	maxTries := 2 + r.Intn(2)
	c := []int{1, 1, 1, 2, 0}[r.Intn(5)]
	if c >= maxTries || (class > 0 && c == 0) {
		c = maxTries - 1
	}
	if c == 0 && sz[0] < 3000 {
		sz[0] *= 4 // the acceptance-time image has no stored error: 40-50 bytes per recipient
	}
	hls := c02HeaderLens()
	m := fmt.Sprintf("M#%d;%d", sz[0], c)
	if r.Chance(40) {
		m += ";" + string("nnziqm"[r.Intn(6)])
	}
	line := fmt.Sprintf("C02 syn %d 1 H%d B%d %s N%s X-", maxTries, hls[2], []int{7, 0, 2}[r.Intn(3)], m, r.Pick("-", "-", "+"))
	if r.Chance(25) {
		if l := c02GenLoc(r); l > 0 {
			line += " " + c02LocToken(l)
		}
	}
	if g := (c02Grow{apad: sz[1], epad: sz[2], tm: c02GenSched(r)}).token(); g != "" {
		line += " " + g
	}
	script := func() {
		for a := 0; a < maxTries+1; a++ {
			line += " O" + c02Canon(c02BigLetters(r, sz[0], a == 0)+c02GenStages(r, sz[0], 0), sz[0])
		}
	}
	script()
	if r.Chance(40) {
		line += " Xa R"
		script()
	}
	return line
}

func c02RunScenario(out *vh.Out, sc c02Scenario, r *vh.Rng, seen *sync.Map, only map[int]c02Only, recOuts [][]map[string][]string, maxDepth int) {
	expect := map[string]string{}
	norig := map[string]int{}
	envs := map[string]byte{}
	for _, a := range sc.accepts {
		h, _ := c02HeaderForLen(a.hl)
		expect[a.id] = c02Sig(h, c02Body(a.id, a.bl))
		norig[a.id] = a.n
		envs[a.id] = a.envL()
	}
	seg0 := c02RunSegment(c02SegIn{maxTries: sc.maxTries, accepts: sc.accepts, outcomes: sc.out0, expect: expect, stagger: sc.stagger, par: 8, loc: sc.loc, grow: sc.grow})
	if seg0.hung {
		first := sc.accepts[0]
		for _, a := range sc.accepts {
			// the message the time wheel holds for a moment that never comes is the one to name
			if len(seg0.farIDs) > 0 && a.id == seg0.farIDs[0] {
				first = a
			}
		}
		htoks := c02Tokens(seg0.logs[first.id], c02Cut{pos: len(seg0.logs[first.id])}, false)
		if len(htoks) == 0 {
			// nothing happened at all (the queue did not even start): name the transaction that was to be made
			a := first
			htoks = []string{"A" + c02AToken(a.n, a.hl, a.bl, a.envL())}
			if a.fate == 'c' {
				htoks = append(htoks, "C")
			} else if a.fate == 'b' {
				htoks = append(htoks, "B")
			}
		}
		c02V(out, c02HangSig(seg0, "C02/queue-hang"), fmt.Sprintf("C02 run %d 1 %s", sc.maxTries, c02LocPrefix(sc.loc)+strings.TrimLeft(sc.grow.token()+" ", " ")+strings.Join(htoks, " ")),
			c02HangWhy(seg0, fmt.Sprintf("the queue stopped making progress (or refused to start) in a run without any crash (%d messages, max_parallelism 8, spool directory %q) while it still owed deliveries", len(sc.accepts), c02DirNames[sc.loc])))
		return
	}
	x := &c02Explorer{out: out, maxTries: sc.maxTries, expect: expect, norig: norig, env: envs, outs: recOuts, maxDepth: maxDepth,
		thorough: vh.Thorough(), rng: r, only: only, cache: map[string]c02SegOut{}, ctxs: map[string]*c02RecCtx{}, seen: seen, par: sc.par, loc: sc.loc, grow: sc.grow, big: sc.big}
	if sc.big && only == nil {
		x.sample = 4
		if vh.Thorough() {
			x.sample = 10
		}
		out.Stat("big.run.scenarios")
		out.Stat(fmt.Sprintf("big.run.recipients.%d.addr+%d.errtext+%d", sc.accepts[0].n, sc.grow.apad, sc.grow.epad))
	}
	if len(sc.accepts) >= 4 && only == nil {
		// many messages: a sample of the crash points (each of them stops ALL the messages)
		x.sample = 30
		if vh.Thorough() {
			x.sample = 60
		}
	}
	// the run without any crash: the order of the file-system calls of every procedure
	hist := map[string]c02Hist{}
	for _, a := range sc.accepts {
		hist[a.id] = c02Hist{hp: -1}
		lg := seg0.logs[a.id]
		toks := c02Tokens(lg, c02Cut{pos: len(lg)}, false)
		op := fmt.Sprintf("C02 run %d 1 %s", sc.maxTries, strings.Join(toks, " "))
		if _, dup := seen.LoadOrStore(op, true); !dup {
			out.Corr(op, strings.Join(c02Labels(lg, false), " ")+" | "+c02ShowDisk(seg0.final[a.id], a.id))
			out.Stat("lines.no-crash")
		}
		out.Stat(fmt.Sprintf("scenario.fate.%c", a.fate))
		out.Stat(fmt.Sprintf("scenario.rcpts.%d", a.n))
		out.Stat(fmt.Sprintf("scenario.envelope.%c", a.envL()))
		if a.bl < 2 {
			out.Stat(fmt.Sprintf("scenario.body-bytes.%d", a.bl))
		}
		if hls := c02HeaderLens(); a.hl == hls[0] || a.hl == hls[1] || a.hl == hls[3] {
			out.Stat("scenario.header." + map[int]string{hls[0]: "no-field", hls[1]: "one-empty-field", hls[3]: "second-field-empty"}[a.hl])
		}
		if seg0.bad[a.id] {
			c02V(out, "C02/content-differs-without-crash", op, "delivered content differs from the accepted one")
		}
		nack := false
		for _, e := range lg {
			if e.Kind == 'e' && e.Text == "NACK" {
				nack = true
			}
			if e.Kind == 'e' && nack && strings.HasPrefix(e.Text, "ATT:") {
				c02V(out, "C02/unacknowledged-delivered", op, "a message whose transaction was not acknowledged (Commit returned an error to the sender) is attempted all the same")
				break
			}
		}
	}
	out.Stat(fmt.Sprintf("scenario.messages.%d", len(sc.accepts)))
	out.Stat(fmt.Sprintf("scenario.maxTries.%d", sc.maxTries))
	out.Stat(fmt.Sprintf("scenario.stagger.%d", sc.stagger))
	out.Stat(fmt.Sprintf("scenario.recovery-max-parallelism.%d", x.parOr4()))
	out.Stat(fmt.Sprintf("scenario.spool-dir-name.%d", sc.loc))
	c02SchedStat(out, "scenario", sc.grow.tm)
	out.Stat("scenario.origin." + []string{"none(no-Conn,untraced)", "mx-tcp4", "mx-tls-tcp6-rdns", "submission-auth", "local-traced", "lmtp-unix", "conn-without-addresses"}[sc.grow.conn])
	x.explore(seg0, false, hist, 1)
}

// c02GenRecOuts: per depth three scripts for the recovery runs — 0: everything is delivered; 1 and 2:
// recipients fail temporarily / permanently / unclassified, at least one of them in the FIRST attempt
// of the recovery run (density 50% and 80%).
func c02GenRecOuts(r *vh.Rng, sc c02Scenario, depths int) [][]map[string][]string {
	var all [][]map[string][]string
	for d := 0; d < depths; d++ {
		var vs []map[string][]string
		for v := 0; v < 3; v++ {
			m := map[string][]string{}
			for _, a := range sc.accepts {
				o := c02GenOutcomes(r, a.n, sc.maxTries+1, []int{0, 50, 80}[v], false)
				if v > 0 && !strings.ContainsAny(c02Effective(o[0]), "tpu") {
					b := []byte(o[0])
					b[r.Intn(a.n)] = "tpu"[r.Intn(3)]
					o[0] = string(b)
				}
				m[a.id] = o
			}
			vs = append(vs, m)
		}
		all = append(all, vs)
	}
	return all
}

// ---------------------------------------------------------------- replay of one op line

// c02Replay re-runs the history named by a "C02 run" line on the real queue: a single message
// with the scripted fate and outcomes, crashed at the named cuts.
func c02Replay(out *vh.Out, op string, seen *sync.Map) {
	f := strings.Fields(op)
	if len(f) < 4 {
		return
	}
	if f[1] == "syn" {
		c02ReplaySyn(out, op)
		return
	}
	if f[1] == "backlog" {
		c02RunBacklog(out, op)
		return
	}
	maxTries, _ := strconv.Atoi(f[2])
	toks := f[4:]
	sc := c02Scenario{maxTries: maxTries, out0: map[string][]string{}}
	only := map[int]c02Only{}
	var recOuts [][]map[string][]string
	seg := 0
	ops := 0
	a := c02Accept{id: "a1", fate: 'n'}
	cur := []string{}
	qSeen, qBeforeBody := false, false
	endSeg := func() {
		if seg == 0 {
			sc.out0["a1"] = cur
		} else {
			recOuts = append(recOuts, []map[string][]string{{"a1": cur}})
		}
		cur = []string{}
		seg++
		ops = 0
	}
	for _, t := range toks {
		switch {
		case t[0] == 'A':
			p := strings.Split(t[1:], ",")
			if len(p) < 3 {
				return
			}
			a.n, _ = strconv.Atoi(p[0])
			a.hl, _ = strconv.Atoi(p[1])
			a.bl, _ = strconv.Atoi(p[2])
			if len(p) > 3 && len(p[3]) == 1 && c02EnvOK(p[3][0]) {
				a.env = p[3][0]
			}
		case t[0] == '+':
			v, _ := strconv.Atoi(t[1:])
			ops += v
		case t[0] == 'S':
			sc.par, _ = strconv.Atoi(t[1:])
		case t[0] == 'L':
			sc.loc, _ = c02ParseLoc(t)
		case t[0] == 'G':
			tm, cn := sc.grow.tm, sc.grow.conn
			sc.grow, _ = c02ParseGrow(t)
			sc.grow.tm, sc.grow.conn = tm, cn
		case t[0] == 'Y':
			sc.grow.conn, _ = c02ParseOrigin(t)
		case t[0] == 'W':
			sc.grow.tm, _ = c02ParseSched(t)
		case t == "Q":
			// Queue.Close inside the transaction: before Body (no file operation yet) or after it
			if seg == 0 {
				qSeen = true
				qBeforeBody = ops == 0
			}
		case (t == "C" || t == "K" || t == "N") && seg == 0:
			a.fate = 'c'
			if qSeen && qBeforeBody {
				a.fate = 'K'
			} else if qSeen {
				a.fate = 'k'
			}
		case t == "B" && seg == 0:
			a.fate = 'b'
			if qSeen {
				a.fate = 'j'
			}
		case t[0] == 'O':
			cur = append(cur, t[1:])
		case t == "P":
			cur = append(cur, "x")
		case t[0] == 'X':
			only[seg+1] = c02Only{ops: ops, keep: t[1:]}
			endSeg()
		case t[0] == 'T':
			p := strings.SplitN(t[1:], ";", 2)
			n, _ := strconv.Atoi(p[0])
			only[seg+1] = c02Only{ops: ops, inflight: n, keep: p[1]}
			endSeg()
		}
	}
	if seg == 0 {
		sc.out0["a1"] = cur
		recOuts = [][]map[string][]string{{{"a1": nil}}}
		only[1] = c02Only{ops: -1}
	} else {
		recOuts = append(recOuts, []map[string][]string{{"a1": cur}})
	}
	if a.n == 0 {
		return
	}
	sc.accepts = []c02Accept{a}
	sc.big = a.n >= 100
	c02RunScenario(out, sc, vh.NewRng(1), seen, only, recOuts, seg)
}

// ---------------------------------------------------------------- hand-made directory states

// c02MetaJSON writes the metadata file the way the queue itself would have (same struct, same
// encoder): with all counters zero it is the image storeNewMessage leaves at acceptance (RcptErrs
// empty, TriesCount absent), otherwise the one tryDelivery leaves after the recipients with a
// counter failed temporarily (their last error recorded in RcptErrs).
func c02MetaJSON(id string, to []int, tries []int, env byte, grow c02Grow) []byte {
	from := c02Sender(env)
	m := &QueueMetadata{MsgMeta: &module.MsgMetadata{ID: id, OriginalFrom: from, DontTraceSender: true},
		From: from, RcptErrs: map[string]*smtp.SMTPError{},
		FirstAttempt: time.Unix(1700000000, 0), LastAttempt: time.Unix(1700000000, 0)}
	m.MsgMeta.SMTPOpts.UTF8 = c02EnvUTF8(env)
	for i, r := range to {
		addr := c02AddrG(env, r, id, grow.apad)
		m.To = append(m.To, addr)
		if tries[i] != 0 {
			if m.TriesCount == nil {
				m.TriesCount = map[string]int{}
			}
			m.TriesCount[addr] = tries[i]
			m.TemporaryFailedRcpts = append(m.TemporaryFailedRcpts, addr)
			m.RcptErrs[addr] = &smtp.SMTPError{Code: 451, EnhancedCode: smtp.EnhancedCode{4, 3, 0}, Message: "try later" + c02ErrPad(grow.epad)}
		}
	}
	var b bytes.Buffer
	if err := json.NewEncoder(&b).Encode(m); err != nil {
		panic(err)
	}
	return b.Bytes()
}

// c02SynSpec is one hand-made message: the files of one id, described by the fields
// <hp> H<len|-> B<len|-> M<to;tries[;env]|g|-> N<+|-> X<+|-> followed by O/Z tokens.
type c02SynSpec struct {
	id       string
	f        []string // hp H B M N X (hp recomputed from the header bytes)
	env      byte
	files    map[string][]byte // base name → content
	tries    map[string]int    // recipient → stored counter
	outcomes []string
	extDel   string
	loc      int
	grow     c02Grow
	segs     []c02SynSeg // the recovery runs made on the directory, one after the other (segs[0].outcomes == outcomes)
}

// c02SynSeg: one run of the queue on a hand-made directory: its scripted outcomes and the transient faults
// injected into it.  Runs are separated by `Xa` (the process stops, nothing is lost) in the op line.
type c02SynSeg struct {
	outcomes []string
	faults   []c02Fault
}

func c02ParseSyn(id string, f []string) (*c02SynSpec, bool) {
	if len(f) < 6 {
		return nil, false
	}
	sp := &c02SynSpec{id: id, f: append([]string{}, f[:6]...), env: 'p', files: map[string][]byte{}}
	hp, h, b, m, nn, xx := f[0], f[1], f[2], f[3], f[4], f[5]
	if len(h) < 2 || len(b) < 2 || len(m) < 2 {
		return nil, false
	}
	for _, t := range f[6:] {
		if g, ok := c02ParseGrow(t); ok {
			g.tm = sp.grow.tm
			sp.grow = g
		}
		if tm, ok := c02ParseSched(t); ok {
			sp.grow.tm = tm
		}
	}
	if h != "H-" {
		n, _ := strconv.Atoi(h[1:])
		if hp == "1" {
			hd, ok := c02HeaderForLen(n)
			if !ok {
				panic("c02 syn: header length")
			}
			sp.files[id+".header"] = c02HeaderBytes(hd)
		} else {
			sp.files[id+".header"] = []byte(strings.Repeat("!", n))
		}
	}
	if b != "B-" {
		n, _ := strconv.Atoi(b[1:])
		sp.files[id+".body"] = c02Body(id, n)
	}
	switch {
	case m == "M-":
	case m == "Mg":
		sp.files[id+".meta"] = []byte("{\"MsgMeta\":{\"ID\":\"a1\"},\"To\":[\"r1@a")
	default:
		p := strings.Split(m[1:], ";")
		if len(p) < 2 {
			return nil, false
		}
		if len(p) > 2 && len(p[2]) == 1 && c02EnvOK(p[2][0]) {
			sp.env = p[2][0]
		}
		var to, tries []int
		if strings.HasPrefix(p[0], "#") {
			// M#<n>;<c>: recipients 1..n, every one with the stored counter c (big meta-data)
			n, e1 := strconv.Atoi(p[0][1:])
			c, e2 := strconv.Atoi(p[1])
			if e1 != nil || e2 != nil || n < 1 || n > 100000 {
				return nil, false
			}
			for i := 1; i <= n; i++ {
				to = append(to, i)
				tries = append(tries, c)
			}
		} else {
			for _, s := range strings.Split(p[0], ".") {
				v, _ := strconv.Atoi(s)
				to = append(to, v)
			}
			for _, s := range strings.Split(p[1], ".") {
				v, _ := strconv.Atoi(s)
				tries = append(tries, v)
			}
		}
		if len(tries) < len(to) {
			return nil, false
		}
		sp.tries = map[string]int{}
		for i, r := range to {
			sp.tries[strconv.Itoa(r)] = tries[i]
		}
		sp.files[id+".meta"] = c02MetaJSON(id, to, tries, sp.env, sp.grow)
	}
	if nn == "N+" {
		sp.files[id+".meta.new"] = []byte("{\"MsgMe")
	}
	if xx == "X+" {
		sp.files[id+".meta_broken"] = []byte("{}")
	}
	if data, ok := sp.files[id+".header"]; ok {
		sp.f[0] = "0"
		if c02HeaderParses(data) {
			sp.f[0] = "1"
		}
	}
	sp.segs = []c02SynSeg{{}}
	for _, t := range f[6:] {
		if t == "" {
			continue
		}
		seg := &sp.segs[len(sp.segs)-1]
		if t[0] == 'O' {
			seg.outcomes = append(seg.outcomes, t[1:])
		}
		if t[0] == 'Z' {
			sp.extDel = id + ":" + t[1:]
		}
		if t[0] == 'X' {
			sp.segs = append(sp.segs, c02SynSeg{})
		}
		if l, ok := c02ParseLoc(t); ok {
			sp.loc = l
		}
		if ft, ok := c02FaultOfToken(id, t); ok {
			seg.faults = append(seg.faults, ft)
		}
	}
	sp.outcomes = sp.segs[0].outcomes
	return sp, true
}

// c02JudgeSyn emits the correspondence line of one hand-made message for the run `rec` (the per-id line
// `C02 syn …` whatever else was in the directory: ids are independent) and evaluates the property on the
// real events.  Violations name `violOp` (the op line that reproduces the run; "" = the per-id line).
func c02JudgeSyn(out *vh.Out, stat string, maxTries int, sp *c02SynSpec, recs []c02SegOut, violOp string) int {
	id, files, env, extDel := sp.id, sp.files, sp.env, sp.extDel
	nviol := 0
	rec := recs[len(recs)-1]
	// the whole history of the directory: run, clean stop, run, …; the monitor reads the events of all runs
	var lg []*vos.Entry
	var toks []string
	faulted, lastFaulted := false, false
	for i, r := range recs {
		l := r.logs[id]
		if i > 0 {
			toks = append(toks, "Xa")
		}
		toks = append(toks, "R"+c02ScanFault(l))
		toks = append(toks, c02Tokens(l, c02Cut{pos: len(l)}, true)...)
		lg = append(lg, l...)
		lastFaulted = c02AnyFault(l)
		if lastFaulted {
			faulted = true
			out.Stat(stat + ".run-with-transient-fault")
			for _, e := range l {
				if e.Kind == 'e' && strings.HasPrefix(e.Text, "@F:") {
					out.Stat(stat + ".fault." + e.Text[3:])
				}
			}
		}
	}
	if len(recs) > 1 {
		out.Stat(fmt.Sprintf("%s.restarts.%d", stat, len(recs)))
		if faulted && !lastFaulted {
			out.Stat(stat + ".fault-then-fault-free-restart")
		}
	}
	if g := sp.grow.token(); g != "" {
		toks = append([]string{g}, toks...)
	}
	if sp.loc > 0 {
		toks = append([]string{c02LocToken(sp.loc)}, toks...)
	}
	if strings.HasPrefix(sp.f[3], "M#") {
		out.Stat(stat + ".big.cases")
		out.Stat(stat + ".big.meta-bytes." + c02SizeClass(len(files[id+".meta"])))
		out.Stat(fmt.Sprintf("%s.big.%s.addr+%d.errtext+%d", stat, strings.SplitN(sp.f[3], ";", 2)[0], sp.grow.apad, sp.grow.epad))
	}
	out.Stat(fmt.Sprintf("%s.spool-dir-name.%d", stat, sp.loc))
	c02SchedStat(out, stat, sp.grow.tm)
	line := fmt.Sprintf("C02 syn %d %s %s", maxTries, strings.Join(sp.f, " "), strings.Join(toks, " "))
	line = strings.TrimSpace(line)
	labels := c02Labels(rec.logs[id], true)
	out.Corr(line, strings.Join(labels, " ")+" | "+c02ShowDisk(rec.final[id], id))
	out.Stat(stat + ".cases")
	for _, l := range labels {
		if l == "openfail" || l == "scan" || l == "disp" || strings.HasPrefix(l, "rm") {
			out.Stat(stat + ".label." + l)
		}
	}
	out.Stat(fmt.Sprintf("%s.envelope.%c", stat, env))
	if data, ok := files[id+".body"]; ok && len(data) < 2 {
		out.Stat(fmt.Sprintf("%s.body-bytes.%d", stat, len(data)))
	}
	if violOp == "" {
		violOp = line
	}
	viol := func(sig, detail string) {
		nviol++
		c02V(out, sig, violOp, "message "+id+": "+detail)
	}
	// monitor: nothing but pending recipients of the stored metadata is ever attempted
	stored := map[string]bool{}
	var storedTo []string
	storedOK := false
	if data, ok := files[id+".meta"]; ok {
		if to, _, ok := c02MetaTo(data, id); ok {
			storedTo, storedOK = to, true
			for _, r := range to {
				stored[r] = true
			}
		}
	}
	// monitor: the property's clause for a recovery run — every pending recipient of a complete stored
	// message is attempted, and is then delivered, named in a failure report, or still pending in a
	// loadable .meta (null reverse-path: or given up on after a permanent failure / maxTries temporary
	// ones, the stored counters included); a .meta_broken made by this run loses them.
	hdrData, hasHdr := files[id+".header"]
	_, hasBody := files[id+".body"]
	if storedOK && hasHdr && hasBody && extDel == "" {
		out.Stat(stat + ".monitor.stored-message-accounted-for.checked")
		// A run in which a transient fault met this message may leave it alone (skipped and KEPT: it then has to be
		// pending in a loadable .meta at the end); once a fault-free run followed, it has to have been attempted.
		lost, why := c02Account(id, storedTo, nil, c02EnvNull(env), c02HeaderParses(hdrData) && !lastFaulted, maxTries, sp.tries, nil, lg, rec.final[id])
		if lost != "" && faulted {
			why += " (a transient fault of a read-only file-system call met the message in a run of the queue on this directory: it must be skipped and kept)"
		}
		if lost != "" {
			quarantined := ""
			if _, q := rec.final[id]["X"]; q && c02DidOp(lg, "mvMX") {
				quarantined = " (the recovery run left the meta-data as .meta_broken, which is never loaded again)"
			}
			stuck := ""
			if rec.hung {
				stuck = " (the recovery run stopped making progress: nothing more is going to happen to this message)"
				if rec.far != "" {
					stuck = " (" + rec.far + ")"
				}
			}
			viol("C02/accepted-lost", "pending recipient "+lost+" of the stored message "+why+quarantined+stuck+"; after restart: "+strings.Join(labels, " ")+"; files at the end: "+c02ShowDisk(rec.final[id], id))
		}
	}
	// monitor: within the recovery run a recipient that was delivered is no longer pending - a later
	// attempt must not name it again (the metadata update after each attempt must take effect even
	// when the directory held left-overs of an interrupted update)
	delivered := map[string]bool{}
	for _, e := range lg {
		if e.Kind == 'e' && strings.HasPrefix(e.Text, "DLV:") && extDel == "" {
			for _, r := range strings.Split(e.Text[4:], ".") {
				if r != "" {
					delivered[r] = true
				}
			}
		}
		if e.Kind == 'e' && strings.HasPrefix(e.Text, "ATT:") {
			out.Stat(stat + ".attempted")
			for _, r := range strings.Split(e.Text[4:], ".") {
				if delivered[r] {
					viol("C02/resent-after-delivery", "recipient "+r+" was delivered by an earlier attempt of the recovery run and is attempted again")
				}
				if !stored[r] {
					viol("C02/foreign-recipient", "recipient "+r+" attempted from a hand-made directory is not in the stored metadata")
				}
			}
			_, hasH := files[id+".header"]
			_, hasB := files[id+".body"]
			if !hasH || !hasB || extDel != "" {
				viol("C02/delivered-without-content", "attempt although header or body file is missing")
			}
		}
	}
	return nviol
}

func c02RunSyn(out *vh.Out, op string) {
	// C02 syn <maxTries> <hp> H<len|-> B<len|-> M<to;tries[;env]|g|-> N<+|-> X<+|-> R <outcome tokens are derived>
	f := strings.Fields(op)
	if len(f) < 9 {
		return
	}
	maxTries, _ := strconv.Atoi(f[2])
	sp, ok := c02ParseSyn("a1", f[3:])
	if !ok {
		return
	}
	rec := c02RunRecovery(c02SegIn{maxTries: maxTries, files: sp.files, outcomes: map[string][]string{sp.id: sp.outcomes}, recovery: true, extDel: sp.extDel, faults: sp.segs[0].faults, loc: sp.loc, grow: sp.grow})
	if rec.raced {
		out.Stat("syn.external-delete-too-late(discarded)")
		return
	}
	if sp.extDel != "" {
		out.Stat("syn.external-delete." + sp.extDel[len(sp.id)+1:])
	}
	recs := []c02SegOut{rec}
	for _, sg := range sp.segs[1:] {
		if rec.hung {
			break
		}
		// the process stops (nothing is lost) and is started again on what the run before left
		rec = c02RunRecovery(c02SegIn{maxTries: maxTries, files: rec.files, outcomes: map[string][]string{sp.id: sg.outcomes}, recovery: true, faults: sg.faults, loc: sp.loc, grow: sp.grow})
		recs = append(recs, rec)
	}
	n := c02JudgeSyn(out, "syn", maxTries, sp, recs, "")
	if rec.hung && n == 0 {
		c02V(out, c02HangSig(rec, "C02/recovery-hang"), op, c02HangWhy(rec, "the recovery run stopped making progress while the queue still owed a delivery (its own log: a message loaded or accepted, neither removed nor given up on)"))
	}
}

// ---------------------------------------------------------------- hand-made backlogs
//
//	C02 backlog <maxTries> <par> <hp> H.. B.. M.. N.. X.. O.. O.. / <hp> H.. B.. M.. …
//
// A spool directory with several hand-made messages (ids a1, a2, … in the order of the groups; each
// group is the tail of a `C02 syn` line) on which a real queue with max_parallelism = par is started
// and run to quiescence: the state right after a restart with a backlog.  Per message the
// correspondence line and the monitor are those of the single hand-made message (the ids are
// independent: C02_system, C02_backlog_*), violations name the backlog line.  A run that stops making
// progress is reported as C02/recovery-hang (and its never-attempted messages as C02/accepted-lost).
func c02RunBacklog(out *vh.Out, op string) int {
	f := strings.Fields(op)
	if len(f) < 10 || f[1] != "backlog" {
		return 0
	}
	maxTries, _ := strconv.Atoi(f[2])
	par, _ := strconv.Atoi(f[3])
	if par < 1 {
		return 0
	}
	var specs []*c02SynSpec
	files := map[string][]byte{}
	outcomes := map[string][]string{}
	var grp []string
	flush := func() bool {
		if len(grp) == 0 {
			return true
		}
		sp, ok := c02ParseSyn(fmt.Sprintf("a%d", len(specs)+1), grp)
		grp = nil
		if !ok || sp.extDel != "" {
			return false
		}
		specs = append(specs, sp)
		for n, d := range sp.files {
			files[n] = d
		}
		outcomes[sp.id] = sp.outcomes
		return true
	}
	for _, t := range f[4:] {
		if t == "/" {
			if !flush() {
				return 0
			}
			continue
		}
		grp = append(grp, t)
	}
	if !flush() || len(specs) == 0 {
		return 0
	}
	rec := c02RunRecovery(c02SegIn{maxTries: maxTries, files: files, outcomes: outcomes, recovery: true, par: par, loc: specs[0].loc, grow: c02Grow{tm: specs[0].grow.tm}})
	for _, sp := range specs {
		sp.loc = specs[0].loc
		sp.grow.tm = specs[0].grow.tm
	}
	out.Stat("backlog.runs")
	out.Stat(fmt.Sprintf("backlog.messages.%d", len(specs)))
	out.Stat(fmt.Sprintf("backlog.max-parallelism.%d", par))
	nviol := 0
	var never []string
	for _, sp := range specs {
		nviol += c02JudgeSyn(out, "backlog", maxTries, sp, []c02SegOut{rec}, op)
		attempted := false
		for _, e := range rec.logs[sp.id] {
			if e.Kind == 'e' && strings.HasPrefix(e.Text, "ATT:") {
				attempted = true
			}
		}
		if !attempted {
			never = append(never, sp.id)
		}
	}
	if rec.hung {
		nviol++
		c02V(out, c02HangSig(rec, "C02/recovery-hang"), op, c02HangWhy(rec, fmt.Sprintf("the recovery run on a spool of %d messages with max_parallelism %d stopped making progress while the queue still owed deliveries; never attempted: %s", len(specs), par, strings.Join(never, " "))))
	}
	return nviol
}

// c02GenBacklog: 3-5 complete stored messages, max_parallelism 1-2 (always fewer than messages), the
// first attempts of the recovery run failing temporarily for most recipients.
func c02GenBacklog(r *vh.Rng) string {
	maxTries := []int{2, 3, 2, 3, 1}[r.Intn(5)]
	par := 1 + r.Intn(2)
	k := 3 + r.Intn(3)
	hls := c02HeaderLens()
	allFail := r.Bool()
	line := fmt.Sprintf("C02 backlog %d %d", maxTries, par)
	for i := 0; i < k; i++ {
		if i > 0 {
			line += " /"
		}
		n := 1 + r.Intn(3)
		var to, tr []string
		for j := 0; j < n; j++ {
			to = append(to, strconv.Itoa(j+1))
			c := 0
			if r.Chance(30) {
				c = r.Intn(3)
			}
			tr = append(tr, strconv.Itoa(c))
		}
		m := "M" + strings.Join(to, ".") + ";" + strings.Join(tr, ".")
		if r.Chance(40) {
			m += ";" + string("nnnziqm"[r.Intn(7)])
		}
		nn, xx := "N-", "X-"
		if r.Chance(15) {
			nn = "N+"
		}
		if r.Chance(5) {
			xx = "X+"
		}
		line += fmt.Sprintf(" 1 H%d B%d %s %s %s", []int{hls[2], hls[2], hls[0], hls[1], hls[3], hls[2]}[r.Intn(6)], []int{7, 2, 0, 1, 7, 0}[r.Intn(6)], m, nn, xx)
		if i == 0 {
			if l := c02GenLoc(r); l > 0 {
				line += " " + c02LocToken(l)
			}
			if tm := c02GenSched(r); tm.isSet() {
				line += " " + tm.token()
			}
		}
		for a := 0; a < maxTries+1; a++ {
			bb := make([]byte, n)
			for j := range bb {
				if a == 0 {
					bb[j] = "ttttttpuoo"[r.Intn(10)]
				} else {
					bb[j] = "ootpu"[r.Intn(5)]
				}
			}
			if a == 0 && (allFail || i == 0) && !strings.ContainsAny(string(bb), "tu") {
				bb[r.Intn(n)] = 't'
			}
			line += " O" + c02Canon(string(bb)+c02GenStages(r, n, 50), n)
		}
	}
	return line
}

func c02ReplaySyn(out *vh.Out, op string) { c02RunSyn(out, op) }

// c02DidOp: did the run issue the file operation `text`?
func c02DidOp(lg []*vos.Entry, text string) bool {
	for _, e := range lg {
		if e.Kind == 'o' && e.Text == text {
			return true
		}
	}
	return false
}

func make0(n int) []string {
	z := make([]string, n)
	for i := range z {
		z[i] = "0"
	}
	return z
}

func c02GenSyn(r *vh.Rng) string {
	maxTries := 1 + r.Intn(3)
	hp := 1
	h := "H-"
	if r.Chance(75) {
		if r.Chance(15) {
			hp = 0
			h = fmt.Sprintf("H%d", 3+r.Intn(5))
		} else {
			hls := c02HeaderLens()
			h = fmt.Sprintf("H%d", []int{hls[2], hls[2], hls[2], hls[2], hls[0], hls[1], hls[3], hls[2]}[r.Intn(8)])
		}
	}
	b := "B-"
	if r.Chance(75) {
		// B0: the body file of a header-only message (exists, empty)
		b = fmt.Sprintf("B%d", []int{2, 7, 0, 2, 7, 0, 1, 7}[r.Intn(8)])
	}
	m := "M-"
	n := 0
	switch x := r.Intn(10); {
	case x < 7:
		n = 1 + r.Intn(3)
		perm := []int{1, 2, 3}
		var to, tr []string
		for i := 0; i < n; i++ {
			to = append(to, strconv.Itoa(perm[i]))
			tr = append(tr, strconv.Itoa(r.Intn(3)))
		}
		m = "M" + strings.Join(to, ".") + ";" + strings.Join(tr, ".")
		// the acceptance-time image (all counters zero) is the most common stored state
		if r.Chance(35) {
			m = "M" + strings.Join(to, ".") + ";" + strings.Join(make0(n), ".")
		}
		if r.Chance(50) {
			m += ";" + string("nnnziqm"[r.Intn(7)])
		}
	case x < 8:
		m = "Mg"
	}
	nn := "N-"
	if r.Chance(25) {
		nn = "N+"
	}
	xx := "X-"
	if r.Chance(15) {
		xx = "X+"
	}
	line := fmt.Sprintf("C02 syn %d %d %s %s %s %s %s", maxTries, hp, h, b, m, nn, xx)
	if l := c02GenLoc(r); l > 0 {
		line += " " + c02LocToken(l)
	}
	if tm := c02GenSched(r); tm.isSet() {
		line += " " + tm.token()
	}
	zed := false
	if n > 0 && h != "H-" && b != "B-" && hp == 1 && r.Chance(30) {
		line += " Z" + r.Pick("B", "H", "M")
		zed = true
	}
	script := func() {
		for a := 0; a < maxTries+1; a++ {
			bb := make([]byte, n)
			for i := range bb {
				bb[i] = "ootpu"[r.Intn(5)]
			}
			if n > 0 {
				line += " O" + c02Canon(string(bb)+c02GenStages(r, n, 50), n)
			}
		}
	}
	// Transient faults of the read-only calls (a third of the directories that have meta-data): one call of the
	// start-up scan or of openMessage fails once (EMFILE, EIO, EACCES, …); mostly the process is then stopped and
	// started again without any fault; sometimes two faulty starts in a row, sometimes no further start at all.
	errno := func() string { return r.Pick("EMFILE", "EMFILE", "EIO", "EIO", "EACCES", "ENFILE", "EINTR", "ENOMEM") }
	fault := func() string {
		if r.Chance(65) {
			return " Rf" + r.Pick("openM", "openM", "readM", "readM", "statH", "statB") + "," + errno()
		}
		return " Df" + r.Pick("openM", "readM", "statB", "openH") + "," + errno()
	}
	if m != "M-" && !zed && r.Chance(33) {
		line += fault()
		script()
		switch x := r.Intn(10); {
		case x < 7:
			line += " Xa R"
			script()
		case x < 9:
			line += " Xa" + fault()
			script()
			line += " Xa R"
			script()
		}
		return line
	}
	script()
	if m != "M-" && !zed && r.Chance(10) {
		// an ordinary second start on what the first run left
		line += " Xa R"
		script()
	}
	return line
}

// ---------------------------------------------------------------- entry point

func TestVerifC02(t *testing.T) {
	out := vh.Open("c02")
	defer out.Close()
	dontRecover = false
	log.DefaultLogger.Out = log.NopOutput{}
	var err error
	c02Base, err = os.MkdirTemp("", "verif-c02-")
	if err != nil {
		t.Fatal(err)
	}
	defer os.RemoveAll(c02Base)
	seen := &sync.Map{}

	if ops := vh.Replay(); ops != nil {
		for _, op := range ops {
			if !strings.HasPrefix(op, "C02 ") {
				continue
			}
			// inputs with several deliveries competing for the delivery slots (backlogs, recovery runs with
			// max_parallelism given) depend on how the deliveries interleave: up to four tries
			tries := 1
			if strings.HasPrefix(op, "C02 backlog ") || strings.Contains(op, " S1 ") || strings.Contains(op, " S2 ") {
				tries = 4
			}
			before := atomic.LoadInt64(&c02Violations)
			for t := 0; t < tries && atomic.LoadInt64(&c02Violations) == before; t++ {
				c02Replay(out, op, &sync.Map{})
			}
		}
		return
	}

	n := vh.N(40)
	type job struct {
		sc   c02Scenario
		seed uint64
		syn  string
	}
	jobs := make(chan job, 16)
	var wg sync.WaitGroup
	workers := 6
	for wk := 0; wk < workers; wk++ {
		wg.Add(1)
		go func() {
			defer wg.Done()
			for j := range jobs {
				if strings.HasPrefix(j.syn, "C02 backlog ") {
					if atomic.LoadInt64(&c02Hangs) >= c02HangsEnough {
						out.Stat("backlog.skipped(after-stuck-runs)")
						continue
					}
					c02RunBacklog(out, j.syn)
					continue
				}
				if j.syn != "" {
					c02RunSyn(out, j.syn)
					continue
				}
				r := vh.NewRng(j.seed)
				depth := 1
				if vh.Thorough() && !j.sc.big {
					depth = 2
				} else if r.Chance(20) && len(j.sc.accepts) == 1 && !j.sc.big {
					depth = 2
				}
				c02RunScenario(out, j.sc, r, seen, nil, c02GenRecOuts(r, j.sc, depth), depth)
			}
		}()
	}
	r := vh.NewRng(vh.Seed() + 202)
	// the size dimension: a handful of big cases per run (they take 0.5-3 s each and are started first, so that they
	// run beside the many small ones), more in the thorough tier
	rb := vh.NewRng(vh.Seed() + 909)
	nBigRun, nBigSyn := 2, 4
	if vh.Thorough() {
		nBigRun, nBigSyn = 6, 16
	}
	if n < 100 {
		nBigRun, nBigSyn = 1, 1
	}
	for i := 0; i < nBigRun; i++ {
		jobs <- job{sc: c02GenBigScenario(rb, []int{1, 0}[i%2]), seed: rb.Next()}
	}
	for i := 0; i < nBigSyn; i++ {
		jobs <- job{syn: c02GenBigSyn(rb, []int{2, 0, 1, 0}[i%4])}
	}
	for i := 0; i < n; i++ {
		jobs <- job{sc: c02GenScenario(r), seed: r.Next()}
		for k := 0; k < 3; k++ {
			jobs <- job{syn: c02GenSyn(r)}
		}
		if i%2 == 0 {
			jobs <- job{syn: c02GenBacklog(r)}
		}
	}
	close(jobs)
	wg.Wait()
	out.StatN("real-queue-runs", int(atomic.LoadInt64(&c02Runs)))
	out.StatN("real-queue-runs.under-a-production-shaped-retry-schedule", int(atomic.LoadInt64(&c02SchedRuns)))
	out.StatN("monitor.time-wheel.looked-at", int(atomic.LoadInt64(&c02WheelPeeks)))
	out.StatN("monitor.time-wheel.slots-seen", int(atomic.LoadInt64(&c02SlotsSeen)))
	out.StatN("monitor.time-wheel.slots-seen.due-in-the-future(within-the-schedule)", int(atomic.LoadInt64(&c02SlotsFuture)-atomic.LoadInt64(&c02FarSlots)))
	if n := int(atomic.LoadInt64(&c02FarSlots)); n > 0 {
		out.StatN("real-queue-runs.abandoned(a-message-is-never-due)", n)
	}
	if n := int(atomic.LoadInt64(&c02NegLive)); n > 0 {
		out.StatN("real-queue-runs.more-deliveries-ended-than-begun(by-the-queue's-log)", n)
	}
	if n := int(atomic.LoadInt64(&c02StartErrs)); n > 0 {
		out.StatN("real-queue-runs.queue-refused-to-start", n)
	}
	if n := int(atomic.LoadInt64(&c02Hangs)); n > 0 {
		out.StatN("real-queue-runs.stuck", n)
		out.StatN("real-queue-runs.stuck.not-stuck-when-repeated", int(atomic.LoadInt64(&c02HangsNotRepeated)))
	}
}
