package queue

// C08 harness: real DKIM signer -> real queue (store, retry / restart, reload) -> real smtp or
// remote target -> scripted go-smtp next hop; the received payload is verified by go-msgauth, by
// maddy's own check.dkim and by the Lean model (canonicalisation, selection and tag parsing by
// the model; SHA-256 and RSA / Ed25519 by Go's stdlib); tampered variants must fail everywhere.

import (
	"bufio"
	"bytes"
	"context"
	"crypto"
	"encoding/base64"
	"encoding/hex"
	"errors"
	"fmt"
	"net"
	nettextproto "net/textproto"
	"os"
	"path/filepath"
	"strconv"
	"strings"
	"sync"
	"testing"
	"time"

	"github.com/emersion/go-message/textproto"
	"github.com/emersion/go-msgauth/authres"
	msgdkim "github.com/emersion/go-msgauth/dkim"
	"github.com/emersion/go-smtp"
	"github.com/foxcpp/go-mockdns"
	"github.com/foxcpp/maddy/framework/buffer"
	"github.com/foxcpp/maddy/framework/config"
	"github.com/foxcpp/maddy/framework/dns"
	"github.com/foxcpp/maddy/framework/exterrors"
	"github.com/foxcpp/maddy/framework/log"
	"github.com/foxcpp/maddy/framework/module"
	checkdkim "github.com/foxcpp/maddy/internal/check/dkim"
	moddkim "github.com/foxcpp/maddy/internal/modify/dkim"
	"github.com/foxcpp/maddy/internal/target/remote"
	smtptarget "github.com/foxcpp/maddy/internal/target/smtp"
	"github.com/foxcpp/maddy/internal/verifshim/vc08"
	"github.com/foxcpp/maddy/internal/verifshim/vh"
	"github.com/foxcpp/maddy/internal/verifshim/vsmtp"
	"golang.org/x/net/idna"
)

// ---------------------------------------------------------------- environment (once per run)

type c08Sender struct {
	from       string
	utf8       bool
	domains    []string // modifier configuration
	selector   string
	subdomains bool
	keyDomain  string // domain whose key signs
	wantD      string // expected d= tag ("" = do not check)
}

func c08ALabel(s string) string {
	a, err := idna.ToASCII(s)
	if err != nil {
		panic(err)
	}
	return a
}

var c08AllDomains = []string{"example.org", "пример.example", "xn--mnchen-3ya.example"}

func c08Senders() []c08Sender {
	ru := "пример.example"
	ruA := c08ALabel(ru)
	d := c08AllDomains
	return []c08Sender{
		0:  {from: "user@example.org", utf8: false, domains: d, selector: "sel", keyDomain: "example.org", wantD: "example.org"},
		1:  {from: "user@example.org", utf8: true, domains: d, selector: "sel", keyDomain: "example.org", wantD: "example.org"},
		2:  {from: "юзер@" + ru, utf8: true, domains: d, selector: "sel", keyDomain: ru, wantD: ru},
		3:  {from: "user@" + ruA, utf8: false, domains: d, selector: "sel", keyDomain: ru, wantD: ruA},
		4:  {from: "user@" + ru, utf8: false, domains: d, selector: "sel", keyDomain: ru, wantD: ruA},
		5:  {from: "user@" + strings.ToUpper(ruA), utf8: true, domains: d, selector: "sel", keyDomain: ru, wantD: strings.ToUpper(ruA)},
		6:  {from: "", utf8: false, domains: d, selector: "sel", keyDomain: "example.org", wantD: "example.org"},
		7:  {from: "user@münchen.example", utf8: true, domains: d, selector: "sel", keyDomain: "xn--mnchen-3ya.example", wantD: "münchen.example"},
		8:  {from: "user@münchen.example", utf8: false, domains: d, selector: "sel", keyDomain: "xn--mnchen-3ya.example", wantD: "xn--mnchen-3ya.example"},
		9:  {from: "user@mail.example.org", utf8: false, domains: []string{"example.org"}, selector: "sel", subdomains: true, keyDomain: "example.org", wantD: "example.org"},
		10: {from: "user@example.org", utf8: false, domains: d, selector: "ключ", keyDomain: "example.org", wantD: "example.org"},
		11: {from: "user@example.org", utf8: true, domains: d, selector: "ключ", keyDomain: "example.org", wantD: "example.org"},
		12: {from: "postmaster", utf8: false, domains: d, selector: "sel", keyDomain: "example.org", wantD: "example.org"},
		13: {from: "USER@EXAMPLE.ORG", utf8: false, domains: d, selector: "sel", keyDomain: "example.org", wantD: "EXAMPLE.ORG"},
	}
}

type c08Env struct {
	t       *testing.T
	out     *vh.Out
	keyDir  map[string]string                   // algo -> dir
	records map[string]map[string]string        // algo -> "selector/domain" (normalised) -> TXT record
	pubs    map[string]map[string]crypto.PublicKey
	srv     map[bool]*vsmtp.Server // SMTPUTF8 offered?
	smtpT   map[bool]module.DeliveryTarget
	remoteT module.DeliveryTarget
	queried map[string]int
	mu      sync.Mutex
}

func c08Norm(sel, dom string) string {
	d, _ := dns.ForLookup(dom)
	s, err := idna.ToUnicode(strings.ToLower(sel))
	if err != nil {
		s = sel
	}
	return s + "/" + d
}

func c08Modifier(env *c08Env, algo string, sd c08Sender, hc, bc string, expiry bool, ov, sg []string) (module.Module, error) {
	mod, err := moddkim.New("modify.dkim", "c08", nil, nil)
	if err != nil {
		return nil, err
	}
	nodes := []config.Node{
		{Name: "domains", Args: sd.domains},
		{Name: "selector", Args: []string{sd.selector}},
		{Name: "key_path", Args: []string{filepath.Join(env.keyDir[algo], "{domain}_{selector}.key")}},
		{Name: "newkey_algo", Args: []string{algo}},
		{Name: "header_canon", Args: []string{hc}},
		{Name: "body_canon", Args: []string{bc}},
	}
	if !expiry {
		nodes = append(nodes, config.Node{Name: "sig_expiry", Args: []string{"0s"}})
	}
	if sd.subdomains {
		nodes = append(nodes, config.Node{Name: "sign_subdomains", Args: []string{"yes"}})
	}
	if ov != nil || sg != nil {
		// an empty list cannot be written in the configuration; set below
		if len(ov) > 0 {
			nodes = append(nodes, config.Node{Name: "oversign_fields", Args: ov})
		}
		if len(sg) > 0 {
			nodes = append(nodes, config.Node{Name: "sign_fields", Args: sg})
		}
	}
	log.DefaultLogger.Out = log.NopOutput{}
	if err := mod.(interface{ Init(*config.Map) error }).Init(config.NewMap(nil, config.Node{Children: nodes})); err != nil {
		return nil, err
	}
	if ov != nil || sg != nil {
		if len(ov) == 0 || len(sg) == 0 {
			moddkim.C08SetLists(mod, ov, sg)
		}
	}
	return mod, nil
}

func c08NewEnv(t *testing.T, out *vh.Out, network bool) *c08Env {
	env := &c08Env{t: t, out: out, keyDir: map[string]string{}, records: map[string]map[string]string{},
		pubs: map[string]map[string]crypto.PublicKey{}, srv: map[bool]*vsmtp.Server{}, smtpT: map[bool]module.DeliveryTarget{}, queried: map[string]int{}}
	base, err := os.MkdirTemp("", "verif-c08-keys-")
	if err != nil {
		t.Fatal(err)
	}
	t.Cleanup(func() { os.RemoveAll(base) })
	for _, algo := range []string{"rsa2048", "ed25519"} {
		env.keyDir[algo] = filepath.Join(base, algo)
		env.records[algo] = map[string]string{}
		env.pubs[algo] = map[string]crypto.PublicKey{}
		// maddy generates the keys and writes the TXT records itself (keys.go); every later
		// modifier of this run loads them from the files.
		for _, sel := range []string{"sel", "ключ"} {
			sd := c08Sender{domains: c08AllDomains, selector: sel}
			if sel != "sel" {
				sd.domains = []string{"example.org"}
			}
			if _, err := c08Modifier(env, algo, sd, "relaxed", "relaxed", true, nil, nil); err != nil {
				t.Fatal("key generation: ", err)
			}
			for _, dom := range sd.domains {
				rec, err := os.ReadFile(filepath.Join(env.keyDir[algo], dom+"_"+sel+".dns"))
				if err != nil {
					t.Fatal(err)
				}
				pub, kind, err := vc08.ParseRecord(string(rec))
				if err != nil {
					t.Fatal("published record: ", err)
				}
				if (kind == "rsa") != (algo == "rsa2048") {
					t.Fatal("published key type ", kind, " for ", algo)
				}
				env.records[algo][c08Norm(sel, dom)] = string(rec)
				env.pubs[algo][c08Norm(sel, dom)] = pub
			}
		}
	}
	if !network {
		return env
	}
	for _, u := range []bool{false, true} {
		port := vsmtp.FreePort()
		srv, err := vsmtp.Start("127.0.0.1:"+port, u, false)
		if err != nil {
			t.Fatal(err)
		}
		t.Cleanup(srv.Close)
		env.srv[u] = srv
		mod, err := smtptarget.NewDownstream("target.smtp", "c08", nil, []string{"tcp://127.0.0.1:" + port})
		if err != nil {
			t.Fatal(err)
		}
		err = mod.(interface{ Init(*config.Map) error }).Init(config.NewMap(map[string]interface{}{"hostname": "mx.example.org"},
			config.Node{Children: []config.Node{{Name: "starttls", Args: []string{"no"}}}}))
		if err != nil {
			t.Fatal(err)
		}
		env.smtpT[u] = mod.(module.DeliveryTarget)
		if u {
			zones := map[string]mockdns.Zone{
				"mx.next.invalid.": {A: []string{"127.0.0.1"}},
				"rcpt.example.":    {MX: []net.MX{{Host: "mx.next.invalid.", Pref: 10}}},
			}
			rt := remote.C08NewTarget(zones, port)
			t.Cleanup(func() { rt.Close() })
			env.remoteT = rt
		}
	}
	return env
}

func (env *c08Env) lookupTXT(algo string) func(string) ([]string, error) {
	return func(name string) ([]string, error) {
		i := strings.Index(strings.ToLower(name), "._domainkey.")
		if i < 0 {
			return nil, errors.New("c08: unexpected TXT query " + name)
		}
		k := c08Norm(name[:i], name[i+len("._domainkey."):])
		env.mu.Lock()
		if isASCII(name) {
			env.queried["ascii"]++
		} else {
			env.queried["u-label"]++
		}
		env.mu.Unlock()
		rec, ok := env.records[algo][k]
		if !ok {
			return nil, &net.DNSError{Err: "no such host", Name: name, IsNotFound: true}
		}
		return []string{rec}, nil
	}
}

func isASCII(s string) bool {
	for i := 0; i < len(s); i++ {
		if s[i] >= 0x80 {
			return false
		}
	}
	return true
}

// resolver for maddy's own check.dkim: the same records under every spelling the verifier may ask for
type c08Resolver struct {
	*mockdns.Resolver
	f func(string) ([]string, error)
}

func (r c08Resolver) LookupTXT(ctx context.Context, name string) ([]string, error) { return r.f(name) }

// ---------------------------------------------------------------- case description (= replayable op)

type c08Case struct {
	mode   string // m = in memory only, d = first attempt (header object in memory), r = retry after a temporary failure (re-read from the spool), R = restart (new queue object reads the spool)
	tgt    string // s = smtp target to a server without SMTPUTF8, u = smtp target to a server with SMTPUTF8, r = remote target
	algo   string
	hc, bc string
	sender int
	expiry bool
	ov, sg []string // nil, nil = defaults
	custom bool
	fields [][]byte    // generated raw fields, top to bottom
	added  [][2]string // fields added with Header.Add afterwards (they end up on top, last one first)
	body   []byte
}

func c08HexStrs(l []string) string {
	if len(l) == 0 {
		return "-"
	}
	var p []string
	for _, s := range l {
		p = append(p, vh.HexBytes([]byte(s)))
	}
	return strings.Join(p, ",")
}

func c08UnhexStrs(s string) []string {
	out := []string{}
	if s == "-" {
		return out
	}
	for _, p := range strings.Split(s, ",") {
		out = append(out, string(vh.UnhexBytes(p)))
	}
	return out
}

func (c *c08Case) op() string {
	lists := "default"
	if c.custom {
		lists = "ov:" + c08HexStrs(c.ov) + ";sg:" + c08HexStrs(c.sg)
	}
	e := "0"
	if c.expiry {
		e = "1"
	}
	var add []string
	for _, a := range c.added {
		add = append(add, vh.HexBytes([]byte(a[0]))+"="+vh.HexBytes([]byte(a[1])))
	}
	return fmt.Sprintf("C08 chain %s %s %s %s %s %d %s %s | %s | %s | %s", c.mode, c.tgt, c.algo, c.hc, c.bc, c.sender, e, lists,
		vc08.HexList(c.fields), strings.Join(add, " "), vh.HexBytes(c.body))
}

func c08ParseCase(op string) (*c08Case, error) {
	if i := strings.Index(op, " # "); i >= 0 {
		op = op[:i]
	}
	groups := strings.Split(op, " | ")
	if len(groups) != 4 {
		return nil, fmt.Errorf("bad chain op (%d groups)", len(groups))
	}
	t := strings.Fields(groups[0])
	if len(t) != 10 || t[0] != "C08" || t[1] != "chain" {
		return nil, errors.New("bad chain op head")
	}
	c := &c08Case{mode: t[2], tgt: t[3], algo: t[4], hc: t[5], bc: t[6], expiry: t[8] == "1"}
	c.sender, _ = strconv.Atoi(t[7])
	if t[9] != "default" {
		c.custom = true
		p := strings.Split(t[9], ";")
		c.ov = c08UnhexStrs(strings.TrimPrefix(p[0], "ov:"))
		c.sg = c08UnhexStrs(strings.TrimPrefix(p[1], "sg:"))
	}
	for _, f := range strings.Fields(groups[1]) {
		c.fields = append(c.fields, vh.UnhexBytes(f))
	}
	for _, a := range strings.Fields(groups[2]) {
		kv := strings.SplitN(a, "=", 2)
		c.added = append(c.added, [2]string{string(vh.UnhexBytes(kv[0])), string(vh.UnhexBytes(kv[1]))})
	}
	c.body = vh.UnhexBytes(strings.TrimSpace(groups[3]))
	return c, nil
}

func c08GenLists(r *vh.Rng) (ov, sg []string) {
	pool := append(append([]string{}, vc08.SignedNames...), "Received", "X-Mailer", "Comments", "X_Under.score")
	pick := func(n int) []string {
		out := []string{}
		for i := 0; i < n; i++ {
			k := pool[r.Intn(len(pool))]
			if r.Chance(4) {
				k = vc08.OddNames[r.Intn(len(vc08.OddNames))]
			}
			switch r.Intn(6) {
			case 0:
				k = strings.ToLower(k)
			case 1:
				k = strings.ToUpper(k)
			}
			out = append(out, k)
		}
		if n > 1 && r.Chance(25) { // duplicate in another spelling
			out = append(out, strings.ToUpper(out[r.Intn(len(out))]))
		}
		return out
	}
	ov = pick(r.Intn(8))
	sg = pick(r.Intn(8))
	from := r.Pick("From", "from", "FROM")
	switch r.Intn(10) {
	case 0: // From missing: the signer refuses
	case 1, 2, 3:
		sg = append(sg, from)
	default:
		ov = append(ov, from)
	}
	if r.Chance(20) && len(ov) > 0 { // the same name in both lists
		sg = append(sg, ov[r.Intn(len(ov))])
	}
	return
}

func c08GenCase(r *vh.Rng, mode string) *c08Case {
	c := &c08Case{mode: mode}
	c.algo = r.Pick("rsa2048", "ed25519")
	c.hc = r.Pick("relaxed", "simple")
	c.bc = r.Pick("relaxed", "simple")
	c.sender = r.Intn(len(c08Senders()))
	c.expiry = !r.Chance(25)
	if r.Chance(30) {
		c.custom = true
		c.ov, c.sg = c08GenLists(r)
	}
	eight := r.Chance(50)
	c.fields = vc08.Header(r, eight)
	for i := 0; i < r.Intn(3); i++ {
		k := r.Pick("Received", "X-Added", "Subject", "To", "List-Id")
		v := ""
		for j := 0; j < r.Intn(6); j++ {
			if j > 0 {
				v += " "
			}
			w := vc08.Field(r, "X", eight)
			// a value without line breaks
			w = bytes.ReplaceAll(w[2:], []byte("\r\n"), nil)
			if len(w) > 300 && !r.Chance(20) {
				w = w[:300]
			}
			v += strings.TrimSpace(string(w))
		}
		c.added = append(c.added, [2]string{k, v})
	}
	c.body = vc08.Body(r, eight)
	if mode == "m" && r.Chance(25) {
		// not CRLF-structured: only the in-memory stream (model vs. library canonicalisation); the
		// transport legitimately changes such bodies
		c.body = vc08.Wild(r, append([]byte("x\r\n"), c.body...))
	}
	c.tgt = r.Pick("s", "u", "r")
	if c.sender == 2 && c.tgt == "s" {
		c.tgt = "u" // a non-ASCII local part cannot be relayed to a server without SMTPUTF8
	}
	return c
}

// ---------------------------------------------------------------- one case

type c08FailFirst struct {
	inner module.DeliveryTarget
	mu    sync.Mutex
	fails int
	hit   chan struct{}
}

func (f *c08FailFirst) Start(ctx context.Context, m *module.MsgMetadata, from string) (module.Delivery, error) {
	f.mu.Lock()
	fail := f.fails > 0
	if fail {
		f.fails--
	}
	f.mu.Unlock()
	if fail {
		select {
		case f.hit <- struct{}{}:
		default:
		}
		return nil, &exterrors.SMTPError{Code: 451, EnhancedCode: exterrors.EnhancedCode{4, 0, 0}, Message: "c08: not now"}
	}
	return f.inner.Start(ctx, m, from)
}

func c08NewQueue(dir string, tgt module.DeliveryTarget, retry time.Duration) *Queue {
	mod, _ := NewQueue("", "queue", nil, nil)
	q := mod.(*Queue)
	q.initialRetryTime = retry
	q.retryTimeScale = 1
	q.postInitDelay = 0
	q.maxTries = 5
	q.location = dir
	q.hostname = "mx.example.org"
	q.autogenMsgDomain = "example.org"
	q.Log = log.Logger{Out: log.NopOutput{}}
	q.Target = tgt
	return q
}

func c08RawFields(h textproto.Header) ([][]byte, error) {
	var out [][]byte
	for f := h.Fields(); f.Next(); {
		raw, err := f.Raw()
		if err != nil {
			return nil, err
		}
		out = append(out, append([]byte{}, raw...))
	}
	return out, nil
}

// transport runs the real queue and target; returns spool header file, spool body file, payload at the next hop.
func (env *c08Env) transport(c *c08Case, sd c08Sender, hdr textproto.Header, body []byte) (spoolH, spoolB, payload []byte, err error) {
	var tgt module.DeliveryTarget
	utf8srv := true
	rcpt := "rcpt@rcpt.example"
	switch c.tgt {
	case "s":
		tgt, utf8srv = env.smtpT[false], false
	case "u":
		tgt = env.smtpT[true]
	default:
		tgt = env.remoteT
	}
	srv := env.srv[utf8srv]
	srv.Script.Set(func(s *vsmtp.Script) { s.Txs = nil })
	dir, err := os.MkdirTemp("", "verif-c08-q-")
	if err != nil {
		return nil, nil, nil, err
	}
	defer os.RemoveAll(dir)
	ff := &c08FailFirst{inner: tgt, hit: make(chan struct{}, 1)}
	retry := time.Duration(0)
	switch c.mode {
	case "r":
		ff.fails = 1
	case "R":
		ff.fails = 1000
		retry = time.Hour
	}
	q := c08NewQueue(dir, ff, retry)
	if err := q.start(1); err != nil {
		return nil, nil, nil, err
	}
	closed := false
	defer func() {
		if !closed {
			q.Close()
		}
	}()
	id, _ := module.GenerateMsgID()
	from := sd.from
	if from == "postmaster" {
		from = "postmaster@example.org" // the next hop wants a mailbox
	}
	meta := &module.MsgMetadata{ID: id, OriginalFrom: from, DontTraceSender: true, SMTPOpts: smtp.MailOptions{UTF8: sd.utf8}}
	ctx := context.Background()
	d, err := q.Start(ctx, meta, from)
	if err != nil {
		return nil, nil, nil, err
	}
	if err := d.AddRcpt(ctx, rcpt, smtp.RcptOptions{}); err != nil {
		return nil, nil, nil, err
	}
	if err := d.Body(ctx, hdr, buffer.MemoryBuffer{Slice: body}); err != nil {
		return nil, nil, nil, err
	}
	spoolH, _ = os.ReadFile(filepath.Join(dir, id+".header"))
	spoolB, _ = os.ReadFile(filepath.Join(dir, id+".body"))
	if err := d.Commit(ctx); err != nil {
		return nil, nil, nil, err
	}
	if c.mode == "R" {
		select {
		case <-ff.hit:
		case <-time.After(30 * time.Second):
			return spoolH, spoolB, nil, errors.New("first attempt never happened")
		}
		q.Close() // waits for the attempt to finish writing the meta-data
		closed = true
		q2 := c08NewQueue(dir, tgt, 0)
		if err := q2.start(1); err != nil {
			return spoolH, spoolB, nil, err
		}
		defer q2.Close()
	}
	deadline := time.Now().Add(60 * time.Second)
	for time.Now().Before(deadline) {
		var got []byte
		done := false
		srv.Script.Set(func(s *vsmtp.Script) {
			for _, tx := range s.Txs {
				if tx.Done {
					got, done = tx.Data, true
				}
			}
		})
		if done {
			ents, _ := os.ReadDir(dir)
			if len(ents) == 0 {
				return spoolH, spoolB, got, nil
			}
		}
		time.Sleep(300 * time.Microsecond)
	}
	return spoolH, spoolB, nil, errors.New("not delivered within 60 s")
}

func (env *c08Env) run(c *c08Case) {
	out := env.out
	op := c.op()
	sd := c08Senders()[c.sender]
	ctx := context.Background()

	// the header as an SMTP endpoint would hand it over: parsed by go-message, then Add()s
	hdr, err := textproto.ReadHeader(bufio.NewReader(bytes.NewReader(vc08.Join(c.fields, nil))))
	if err != nil {
		out.Note("generated header refused by go-message: " + err.Error() + " " + op)
		out.Stat("chain.gen-refused")
		return
	}
	if hdr.Len() != len(c.fields) {
		out.Violation("C08/harness-header-mismatch", op, fmt.Sprintf("generated %d fields, parsed %d", len(c.fields), hdr.Len()))
		return
	}
	for _, a := range c.added {
		hdr.Add(a[0], a[1])
	}
	mod, err := c08Modifier(env, c.algo, sd, c.hc, c.bc, c.expiry, c.ov, c.sg)
	if err != nil {
		out.Note("modifier: " + err.Error())
		out.Stat("chain.modifier-error")
		return
	}
	var digests [][]byte
	moddkim.C08RecordDigests(mod, func(d []byte) { digests = append(digests, d) })
	before := hdr.Copy()
	presign, err := c08RawFields(hdr)
	if err != nil {
		out.Stat("chain.unwritable-header")
		return
	}
	hkeys := moddkim.C08FieldsToSign(mod, &before)
	meta := &module.MsgMetadata{ID: "c08", SMTPOpts: smtp.MailOptions{UTF8: sd.utf8}}
	st, err := mod.(module.Modifier).ModStateForMsg(ctx, meta)
	if err != nil {
		env.t.Fatal(err)
	}
	st.RewriteSender(ctx, sd.from)
	var bodyBuf buffer.Buffer = buffer.MemoryBuffer{Slice: c.body}
	if len(c.body) > 32*1024 {
		// large bodies are file-backed in maddy: the signer then reads them in 32 KiB chunks
		f, ferr := os.CreateTemp("", "verif-c08-body-")
		if ferr != nil {
			env.t.Fatal(ferr)
		}
		f.Write(c.body)
		f.Close()
		defer os.Remove(f.Name())
		bodyBuf = buffer.FileBuffer{Path: f.Name(), LenHint: len(c.body)}
		out.Stat("case.body.file-backed")
	}
	err = st.RewriteBody(ctx, &hdr, bodyBuf)
	if err != nil {
		out.Stat("sign.error:" + c08ErrClass(err))
		return
	}
	if hdr.Len() != len(presign)+1 {
		out.Stat("sign.unsigned")
		out.Violation("C08/not-signed", op, "the modifier returned no error and added no signature")
		return
	}
	signed, err := c08RawFields(hdr)
	if err != nil {
		out.Violation("C08/signed-header-unwritable", op, err.Error())
		return
	}
	sigField := signed[0]
	for i := range presign {
		if !bytes.Equal(presign[i], signed[i+1]) {
			out.Violation("C08/signing-changed-header", op, fmt.Sprintf("field %d changed by signing", i))
			return
		}
	}
	tags := vc08.Tags(sigField)
	if vc08.Name(sigField) != "dkim-signature" || len(digests) != 1 {
		out.Violation("C08/harness-signature-shape", op, fmt.Sprintf("name=%q digests=%d", vc08.Name(sigField), len(digests)))
		return
	}
	out.Stat("case.mode." + c.mode)
	out.Stat("case.algo." + c.algo)
	out.Stat("case.canon." + c.hc + "/" + c.bc)
	out.Stat(fmt.Sprintf("case.sender.%02d", c.sender))
	if c.custom {
		out.Stat("case.lists.custom")
	} else {
		out.Stat("case.lists.default")
	}
	if sd.wantD != "" && tags["d"] != sd.wantD {
		out.Violation("C08/signing-domain", op, fmt.Sprintf("d=%q want %q", tags["d"], sd.wantD))
	}
	if isASCII(tags["d"]) {
		out.Stat("sig.d.ascii")
	} else {
		out.Stat("sig.d.u-label")
	}
	if !sd.utf8 && (!isASCII(tags["d"]) || !isASCII(tags["s"]) || !isASCII(tags["i"])) {
		out.Violation("C08/non-eai-u-label", op, "non-EAI message signed with non-ASCII d=/s=/i=: "+tags["d"]+" "+tags["s"])
	}
	maxLine := 0
	for _, l := range bytes.Split(sigField, []byte("\r\n")) {
		if len(l) > maxLine {
			maxLine = len(l)
		}
	}
	if maxLine > 2000 && c.mode != "m" {
		// Outside the property (the message never arrives): go-msgauth does not fold the h= tag, so a
		// header with some 130 occurrences of signed fields yields a signature line that a go-smtp
		// next hop (MaxLineLength 2000; maddy's own endpoint: 4000) refuses.  Recorded, not transported.
		out.Stat("chain.skipped.sig-line>2000")
		out.Note(fmt.Sprintf("signature line of %d octets (h= with %d names) would be refused by the scripted next hop", maxLine, len(hkeys)))
		return
	}
	if maxLine > 998 {
		out.Stat("sig.line>998")
	} else if maxLine > 78 {
		out.Stat("sig.line>78")
	} else {
		out.Stat("sig.line<=78")
	}

	// ---- transport
	var payload, spoolH, spoolB []byte
	var sent bytes.Buffer
	textproto.WriteHeader(&sent, hdr)
	hdrBytes := append([]byte{}, sent.Bytes()...)
	sent.Write(c.body)
	if c.mode == "m" {
		payload = sent.Bytes()
		spoolH = hdrBytes
	} else {
		out.Stat("case.target." + c.tgt)
		spoolH, spoolB, payload, err = env.transport(c, sd, hdr, c.body)
		if err != nil {
			out.Violation("C08/not-delivered", op, err.Error())
			return
		}
		if !bytes.Equal(spoolB, c.body) {
			out.Violation("C08/spool-body-differs", op, fmt.Sprintf("%d bytes stored for %d", len(spoolB), len(c.body)))
		}
		// the property's first half, stated directly on bytes: what arrives is what was signed
		if !bytes.Equal(payload, sent.Bytes()) {
			out.Violation("C08/payload-differs", op, c08Diff(sent.Bytes(), payload))
		}
	}
	bh, _ := base64.StdEncoding.DecodeString(tags["bh"])
	obs := fmt.Sprintf("hdr=%s payload=%d:%s c=%s/%s h=%d bh=%s hh=%s", vc08.Sha(spoolH), len(payload), vc08.Sha(payload),
		c.hc, c.bc, len(hkeys), hex.EncodeToString(bh), hex.EncodeToString(digests[0]))
	out.Corr(op+" # "+vc08.HexList(signed), obs)
	out.StatN("payload.bytes", len(payload))
	c08BodyStats(out, c.body)

	if c.mode == "m" {
		env.sigparse(vh.NewRng(uint64(len(payload))*31+uint64(c.sender)), payload, c.algo)
	}

	// ---- verification at the next hop
	pub := env.pubs[c.algo][c08Norm(sd.selector, sd.keyDomain)]
	tampers := vc08.Tampers(vh.NewRng(uint64(len(payload))*7919+uint64(c.sender)), payload)
	ops := []string{"C08 vdata " + vh.HexBytes(payload)}
	for _, tp := range tampers {
		ops = append(ops, "C08 vdata "+vh.HexBytes(tp.Payload))
	}
	answers, derr := vc08.Driver(ops)
	if derr != nil {
		env.t.Fatal("lean driver: ", derr)
	}

	// (1) go-msgauth with the published key
	pass, detail := env.msgauthVerify(c.algo, payload, tags["d"])
	if !pass {
		out.Violation("C08/verify-fails", op, "go-msgauth: "+detail)
	}
	// (2) maddy's own check.dkim
	if pass2, detail2 := env.maddyCheck(c.algo, payload); !pass2 {
		out.Violation("C08/maddy-check-fails", op, detail2)
	}
	// (3) the Lean model as verifier
	mv := vc08.ModelVerify(answers[0], pub)
	if !mv.OK {
		out.Violation("C08/model-verify-fails", op, mv.Reason)
	} else {
		out.Stat("verify.ok")
	}
	// tampering must be detected by every verifier
	for i, tp := range tampers {
		out.Stat("tamper." + tp.Kind)
		if p, _ := env.msgauthVerify(c.algo, tp.Payload, tags["d"]); p {
			out.Violation("C08/tamper-undetected-"+tp.Kind, op, "go-msgauth accepts: "+tp.Detail)
		}
		if p, _ := env.maddyCheck(c.algo, tp.Payload); p {
			out.Violation("C08/tamper-undetected-"+tp.Kind, op, "check.dkim accepts: "+tp.Detail)
		}
		if tv := vc08.ModelVerify(answers[i+1], pub); tv.OK {
			out.Violation("C08/tamper-undetected-"+tp.Kind, op, "model verifier accepts: "+tp.Detail)
		} else if tv.HdrHash == mv.HdrHash && tv.HdrHash != "" {
			out.Violation("C08/tamper-undetected-"+tp.Kind, op, "digest input unchanged in the model: "+tp.Detail)
		}
	}
	if len(tampers) == 0 {
		out.Stat("tamper.none-possible")
	}
}

// sigparse: one mutation of the signature field; how far does the verifier's tag handling get?
func (env *c08Env) sigparse(r *vh.Rng, payload []byte, algo string) {
	mp, kind := vc08.MutateSig(r, payload)
	if mp == nil {
		return
	}
	vs, err := msgdkim.VerifyWithOptions(bytes.NewReader(mp), &msgdkim.VerifyOptions{LookupTXT: env.lookupTXT(algo)})
	class := "view"
	switch {
	case err != nil && strings.Contains(err.Error(), "failed to read header"):
		class = "no-header-end"
	case err != nil:
		class = "error:" + err.Error()
	case len(vs) == 0:
		class = "no-signature"
	case vs[0].Err != nil:
		e := vs[0].Err.Error()
		switch {
		case strings.Contains(e, "malformed signature tags"):
			class = "bad-params"
		case strings.Contains(e, "incompatible signature version"):
			class = "bad-version"
		case strings.Contains(e, "missing required tag"):
			class = "missing-tag"
		case strings.Contains(e, "canonicalization algorithm"):
			// reached only when everything go-msgauth checks before it passed
			class = "bad-canon"
		}
	}
	env.out.Corr("C08 sigparse "+vh.HexBytes(mp), class)
	env.out.Stat("sigparse." + class)
	env.out.Stat("sigparse.mut." + strings.SplitN(kind, ":", 2)[0])
}

func c08ErrClass(err error) string {
	s := err.Error()
	switch {
	case strings.Contains(s, "From header field must be signed"):
		return "from-not-listed"
	case strings.Contains(s, "missing at-sign"), strings.Contains(s, "address"):
		return "sender-address"
	case strings.Contains(s, "failed to write header field"):
		return "unwritable-field"
	}
	return "other:" + s
}

func c08Diff(a, b []byte) string {
	i := 0
	for i < len(a) && i < len(b) && a[i] == b[i] {
		i++
	}
	lo := i - 10
	if lo < 0 {
		lo = 0
	}
	ha, hb := i+20, i+20
	if ha > len(a) {
		ha = len(a)
	}
	if hb > len(b) {
		hb = len(b)
	}
	return fmt.Sprintf("sent %d bytes, received %d, first difference at %d: sent %q received %q", len(a), len(b), i, a[lo:ha], b[lo:hb])
}

func c08BodyStats(out *vh.Out, body []byte) {
	if len(body) == 0 {
		out.Stat("body.empty")
		return
	}
	if bytes.HasPrefix(body, []byte(".")) || bytes.Contains(body, []byte("\r\n.")) {
		out.Stat("body.leading-dot")
	}
	if bytes.HasSuffix(body, []byte("\r\n\r\n")) {
		out.Stat("body.trailing-empty-lines")
	}
	if bytes.Contains(body, []byte(" \r\n")) || bytes.Contains(body, []byte("\t\r\n")) {
		out.Stat("body.trailing-wsp")
	}
	for _, b := range body {
		if b >= 0x80 {
			out.Stat("body.8bit")
			break
		}
	}
}

func (env *c08Env) msgauthVerify(algo string, payload []byte, wantD string) (bool, string) {
	vs, err := msgdkim.VerifyWithOptions(bytes.NewReader(payload), &msgdkim.VerifyOptions{LookupTXT: env.lookupTXT(algo)})
	if err != nil {
		return false, "error: " + err.Error()
	}
	var why []string
	for _, v := range vs {
		if v.Err == nil && v.Domain == wantD {
			return true, ""
		}
		if v.Err != nil {
			why = append(why, v.Domain+": "+v.Err.Error())
		}
	}
	return false, fmt.Sprintf("%d signatures, none passes for %s: %s", len(vs), wantD, strings.Join(why, "; "))
}

func (env *c08Env) maddyCheck(algo string, payload []byte) (bool, string) {
	chk, err := checkdkim.C08NewCheck(c08Resolver{&mockdns.Resolver{}, env.lookupTXT(algo)})
	if err != nil {
		env.t.Fatal(err)
	}
	br := bufio.NewReader(bytes.NewReader(payload))
	hdr, err := textproto.ReadHeader(br)
	if err != nil {
		return false, "next hop cannot parse the header: " + err.Error()
	}
	var body bytes.Buffer
	body.ReadFrom(br)
	st, err := chk.CheckStateForMsg(context.Background(), &module.MsgMetadata{ID: "c08v"})
	if err != nil {
		env.t.Fatal(err)
	}
	res := st.CheckBody(context.Background(), hdr, buffer.MemoryBuffer{Slice: body.Bytes()})
	var vals []string
	for _, ar := range res.AuthResult {
		if dr, ok := ar.(*authres.DKIMResult); ok {
			if dr.Value == authres.ResultPass {
				return true, ""
			}
			vals = append(vals, string(dr.Value)+"("+dr.Reason+")")
		}
	}
	return false, "check.dkim: " + strings.Join(vals, ",")
}

// ---------------------------------------------------------------- tests

func c08Replay(t *testing.T, prefix string, f func(op string)) bool {
	ops := vh.Replay()
	if ops == nil {
		return false
	}
	for _, op := range ops {
		if strings.HasPrefix(op, prefix) {
			f(op)
		}
	}
	return true
}

// in memory: signer -> verifiers, no queue, no SMTP (many cases, all generators)
func TestVerifC08Sign(t *testing.T) {
	out := vh.Open("c08_sign")
	defer out.Close()
	env := c08NewEnv(t, out, false)
	if c08Replay(t, "C08 chain m ", func(op string) {
		c, err := c08ParseCase(op)
		if err != nil {
			t.Fatal(err)
		}
		env.run(c)
	}) {
		return
	}
	r := vh.NewRng(vh.Seed() + 801)
	n := vh.N(600)
	for i := 0; i < n; i++ {
		env.run(c08GenCase(r, "m"))
	}
	for k, v := range env.queried {
		out.StatN("txt-query."+k, v)
	}
}

// the full chain
func TestVerifC08Chain(t *testing.T) {
	out := vh.Open("c08_chain")
	defer out.Close()
	env := c08NewEnv(t, out, true)
	if c08Replay(t, "C08 chain ", func(op string) {
		if strings.HasPrefix(op, "C08 chain m ") {
			return
		}
		c, err := c08ParseCase(op)
		if err != nil {
			t.Fatal(err)
		}
		env.run(c)
	}) {
		return
	}
	r := vh.NewRng(vh.Seed() + 802)
	n := vh.N(600) / 3
	for i := 0; i < n; i++ {
		env.run(c08GenCase(r, r.Pick("d", "r", "r", "R", "R")))
	}
}

// fieldsToSign alone: configuration lists x headers
func TestVerifC08Fts(t *testing.T) {
	out := vh.Open("c08_fts")
	defer out.Close()
	run := func(ov, sg []string, fields [][]byte) {
		op := "C08 fts " + c08HexList(ov) + " | " + c08HexList(sg) + " | " + vc08.HexList(fields)
		hdr, err := textproto.ReadHeader(bufio.NewReader(bytes.NewReader(vc08.Join(fields, nil))))
		if err != nil || hdr.Len() != len(fields) {
			out.Stat("fts.gen-refused")
			return
		}
		mod := moddkim.C08NewBare()
		moddkim.C08SetLists(mod, ov, sg)
		got := moddkim.C08FieldsToSign(mod, &hdr)
		var hx []string
		for _, k := range got {
			hx = append(hx, vh.HexBytes([]byte(k)))
		}
		obs := "none"
		if len(hx) > 0 {
			obs = strings.Join(hx, " ")
		}
		out.Corr(op, obs)
		// the property on the real result: every occurrence of a listed name has a slot, over-signed
		// names one more, nothing else, no name listed under two spellings
		occ := map[string]int{}
		for _, f := range fields {
			occ[vc08.Name(f)]++
		}
		want := map[string]int{}
		seen := map[string]bool{}
		for _, k := range ov {
			if l := strings.ToLower(k); !seen[l] {
				seen[l] = true
				want[l] = occ[l] + 1
			}
		}
		for _, k := range sg {
			if l := strings.ToLower(k); !seen[l] {
				seen[l] = true
				want[l] = occ[l]
			}
		}
		have := map[string]int{}
		for _, k := range got {
			have[strings.ToLower(k)]++
		}
		for k, w := range want {
			if have[k] != w {
				kind := "token"
				if !c08IsToken(k) {
					kind = "non-token"
				}
				out.Violation("C08/fields-to-sign-count-"+kind, op, fmt.Sprintf("%q: %d slots for %d occurrences (want %d)", k, have[k], occ[k], w))
			}
		}
		for k := range have {
			if _, ok := want[k]; !ok {
				out.Violation("C08/fields-to-sign-extra", op, k)
			}
		}
		out.Stat(fmt.Sprintf("fts.len.%02d", len(got)/8*8))
	}
	if c08Replay(t, "C08 fts ", func(op string) {
		g := strings.Split(strings.TrimPrefix(op, "C08 fts"), "|")
		if len(g) != 3 {
			t.Fatal("bad fts op")
		}
		var fields [][]byte
		for _, f := range strings.Fields(g[2]) {
			fields = append(fields, vh.UnhexBytes(f))
		}
		run(c08UnhexList(g[0]), c08UnhexList(g[1]), fields)
	}) {
		return
	}
	r := vh.NewRng(vh.Seed() + 803)
	n := vh.N(600) * 4
	for i := 0; i < n; i++ {
		ov, sg := c08GenLists(r)
		if r.Chance(20) {
			ov, sg = nil, nil
			ov = append(ov, "Subject", "Sender", "To", "Cc", "From", "Date", "MIME-Version", "Content-Type", "Content-Transfer-Encoding", "Reply-To", "In-Reply-To", "Message-Id", "References", "Autocrypt", "Openpgp")
			sg = append(sg, "List-Id", "List-Help", "List-Unsubscribe", "List-Post", "List-Owner", "List-Archive", "Resent-To", "Resent-Sender", "Resent-Message-Id", "Resent-Date", "Resent-From", "Resent-Cc")
		}
		run(ov, sg, vc08.Header(r, false))
	}
}

// RFC 7230 token (what net/textproto canonicalises)
func c08IsToken(k string) bool {
	for i := 0; i < len(k); i++ {
		c := k[i]
		if !(c >= '0' && c <= '9' || c >= 'a' && c <= 'z' || c >= 'A' && c <= 'Z' || strings.IndexByte("!#$%&'*+-.^_`|~", c) >= 0) {
			return false
		}
	}
	return k != ""
}

func c08HexList(l []string) string {
	var p []string
	for _, s := range l {
		p = append(p, vh.HexBytes([]byte(s)))
	}
	return strings.Join(p, " ")
}

func c08UnhexList(s string) []string {
	var out []string
	for _, p := range strings.Fields(s) {
		out = append(out, string(vh.UnhexBytes(p)))
	}
	return out
}

// library byte behaviour: go-message ReadHeader and the DATA dot encoding, also on input that is not conformant
func TestVerifC08Wire(t *testing.T) {
	out := vh.Open("c08_wire")
	defer out.Close()
	port := vsmtp.FreePort()
	srv, err := vsmtp.Start("127.0.0.1:"+port, true, false)
	if err != nil {
		t.Fatal(err)
	}
	defer srv.Close()
	gmread := func(in []byte) {
		op := "C08 gmread " + vh.HexBytes(in)
		br := bufio.NewReader(bytes.NewReader(in))
		h, err := textproto.ReadHeader(br)
		if err != nil {
			kind := "other"
			switch {
			case strings.Contains(err.Error(), "initial line"):
				kind = "initial-space"
			case strings.Contains(err.Error(), "malformed MIME header line"):
				kind = "no-colon"
			case strings.Contains(err.Error(), "malformed MIME header key"):
				kind = "bad-key"
			}
			out.Corr(op, "err "+kind)
			out.Stat("gmread.err." + kind)
			return
		}
		var rest bytes.Buffer
		rest.ReadFrom(br)
		fs, _ := c08RawFields(h)
		var keys [][]byte
		for f := h.Fields(); f.Next(); {
			keys = append(keys, []byte(f.Key()))
		}
		out.Corr(op, fmt.Sprintf("ok n=%d f=%s k=%s rest=%d:%s", len(fs), vc08.Sha(c08Frame(fs)), vc08.Sha(c08Frame(keys)), rest.Len(), vc08.Sha(rest.Bytes())))
		out.Stat("gmread.ok")
		// round trip (monitor): writing the parsed header and reading it again gives the same fields
		var w bytes.Buffer
		textproto.WriteHeader(&w, h)
		h2, err := textproto.ReadHeader(bufio.NewReader(bytes.NewReader(w.Bytes())))
		fs2, _ := c08RawFields(h2)
		if err != nil || !bytes.Equal(c08Frame(fs), c08Frame(fs2)) {
			out.Violation("C08/header-roundtrip", op, "WriteHeader then ReadHeader changes the header")
		}
	}
	dot := func(in []byte) {
		op := "C08 dot " + vh.HexBytes(in)
		var wire bytes.Buffer
		bw := bufio.NewWriter(&wire)
		dw := nettextproto.NewWriter(bw).DotWriter()
		dw.Write(in)
		dw.Close()
		bw.Flush()
		recv := "none"
		got, err := c08RawData(port, srv, wire.Bytes())
		if err == nil {
			recv = fmt.Sprintf("%d:%s", len(got), vc08.Sha(got))
		}
		out.Corr(op, fmt.Sprintf("wire=%d:%s recv=%s", wire.Len(), vc08.Sha(wire.Bytes()), recv))
		if err != nil {
			out.Stat("dot.recv-none")
		} else if bytes.Equal(got, in) {
			out.Stat("dot.identity")
		} else {
			out.Stat("dot.changed")
		}
	}
	// the next hop's reader alone, on octets no dot writer produces (always terminated, so the server answers)
	undot := func(wire []byte) {
		op := "C08 undot " + vh.HexBytes(wire)
		got, err := c08RawData(port, srv, wire)
		if err != nil {
			out.Corr(op, "none")
			out.Stat("undot.none")
			return
		}
		out.Corr(op, fmt.Sprintf("%d:%s", len(got), vc08.Sha(got)))
		out.Stat("undot.ok")
	}
	if c08Replay(t, "C08 gmread ", func(op string) { gmread(vh.UnhexBytes(strings.Fields(op)[2])) }) {
		c08Replay(t, "C08 dot ", func(op string) { dot(vh.UnhexBytes(strings.Fields(op)[2])) })
		c08Replay(t, "C08 undot ", func(op string) { undot(vh.UnhexBytes(strings.Fields(op)[2])) })
		return
	}
	for _, s := range []string{"", ".", "\r", "\n", ".\r\n", "a\r\r\n", "\r\n.\r\n", "..", ".\rX\r\n", "a\n.b\n", "x\r", "\r\r\r\n.", ": v\r\n\r\n", " a: b\r\n\r\n"} {
		dot([]byte(s))
		gmread([]byte(s))
		if strings.HasSuffix(s, "\r") {
			s += "x" // CR CR LF is not a line end for the reader: the end marker would be missed (no answer)
		}
		undot([]byte(s + "\r\n.\r\n"))
	}
	r := vh.NewRng(vh.Seed() + 804)
	n := vh.N(600)
	for i := 0; i < n; i++ {
		eight := r.Bool()
		msg := vc08.Join(vc08.Header(r, eight), vc08.Body(r, eight))
		if r.Chance(50) {
			msg = vc08.Wild(r, msg)
			out.Stat("wire.wild")
		} else {
			out.Stat("wire.conformant")
		}
		gmread(msg)
		if bytes.Contains(msg, []byte("\n:")) || bytes.HasPrefix(msg, []byte(":")) {
			out.Stat("gmread.input-with-empty-name")
		}
		if i%3 == 0 {
			dot(msg)
		}
		if i%3 == 1 {
			// a wire nobody stuffed: lines starting with dots, ".\r" not followed by LF, bare CR / LF
			w := append([]byte{}, msg...)
			for k := 0; k < 1+r.Intn(4) && len(w) > 0; k++ {
				j := r.Intn(len(w))
				ins := r.Pick(".", "\r\n.", "\r\n.\rX", "\r\n..", "\r", "\r\r\n.", "\n.")
				w = append(w[:j:j], append([]byte(ins), w[j:]...)...)
			}
			// never contains the end marker before the end: break every CRLF "." CRLF
			w = bytes.ReplaceAll(w, []byte("\r\n.\r\n"), []byte("\r\n.x\r\n"))
			if bytes.HasPrefix(w, []byte(".\r\n")) {
				w = append([]byte("x"), w...)
			}
			if bytes.HasSuffix(w, []byte("\r")) {
				w = append(w, 'x')
			}
			undot(append(w, []byte("\r\n.\r\n")...))
		}
	}
}

func c08Frame(l [][]byte) []byte {
	var b bytes.Buffer
	for _, f := range l {
		fmt.Fprintf(&b, "%d:", len(f))
		b.Write(f)
	}
	return b.Bytes()
}

// c08RawData plays a minimal SMTP client and writes the given octets after DATA unchanged.
func c08RawData(port string, srv *vsmtp.Server, wire []byte) ([]byte, error) {
	srv.Script.Set(func(s *vsmtp.Script) { s.Txs = nil })
	conn, err := net.Dial("tcp", "127.0.0.1:"+port)
	if err != nil {
		return nil, err
	}
	defer conn.Close()
	conn.SetDeadline(time.Now().Add(3 * time.Second))
	tp := nettextproto.NewConn(conn)
	if _, _, err := tp.ReadResponse(220); err != nil {
		return nil, err
	}
	for _, cmd := range []struct {
		line string
		code int
	}{{"EHLO c08.example", 250}, {"MAIL FROM:<a@c08.example>", 250}, {"RCPT TO:<b@c08.example>", 250}, {"DATA", 354}} {
		if err := tp.PrintfLine("%s", cmd.line); err != nil {
			return nil, err
		}
		if _, _, err := tp.ReadResponse(cmd.code); err != nil {
			return nil, err
		}
	}
	if _, err := conn.Write(wire); err != nil {
		return nil, err
	}
	if _, _, err := tp.ReadResponse(250); err != nil {
		return nil, err
	}
	var got []byte
	ok := false
	srv.Script.Set(func(s *vsmtp.Script) {
		for _, tx := range s.Txs {
			if tx.Done {
				got, ok = tx.Data, true
			}
		}
	})
	if !ok {
		return nil, errors.New("no transaction recorded")
	}
	return got, nil
}
