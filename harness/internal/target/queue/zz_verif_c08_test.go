package queue

// C08 harness: real DKIM signer -> real queue (store, retry / restart, reload) -> real smtp or
// remote target -> scripted go-smtp next hop; the received payload is verified by go-msgauth, by
// maddy's own check.dkim and by the Lean model (canonicalisation, selection and tag parsing by
// the model; SHA-256 and RSA / Ed25519 by Go's stdlib); tampered variants must fail everywhere.
//
// Round 2: messages padded to sizes around plausible limits (4 KiB .. 1 MiB and beyond, header and
// body) through retry / restart; fault injection while the message is being written (through the
// queue and directly on internal/smtpconn against a hand-written next hop): whatever the next hop
// acknowledged must be the complete signed message, and an attempt maddy treats as failed must not
// have been acknowledged.  Keys are generated once per run; the Lean driver is called per batch.
//
// Round 4: the key store (TestVerifC08Keys): histories of Init()s on one key directory — keys that exist
// under their documented names, restarts, newkey_algo changed, domains added — for ASCII and IDN domains in
// every spelling, IDN selectors and custom key_path templates: a later instance never generates a second
// key for a (domain, selector) that has one and what it signs verifies against the record published FIRST.
// The added-field tampering now takes the name from the CONFIGURED over-sign list.  The shared keys of
// the run are found by content, not by file name (a change of the naming used to stop every test).
//
// Round 6: time is an input (TestVerifC08Clock: the life of one modifier instance on a clock moved by hand - uptime
// before the signing, transit delay before the verification, sig_expiry as case parameters; see checks/c08.py
// clock_overlay); key histories with keys that exist WITHOUT their record file (imported by the administrator, or the
// record deleted) of a type other than newkey_algo: whatever record of the signing key is in the directory after a
// start must be right and must verify what the instance signs.

import (
	"bufio"
	"bytes"
	"context"
	"crypto"
	"crypto/ed25519"
	"crypto/rsa"
	"crypto/x509"
	"encoding/base64"
	"encoding/hex"
	"encoding/pem"
	"errors"
	"fmt"
	"io"
	"net"
	nettextproto "net/textproto"
	"os"
	"path/filepath"
	"strconv"
	"strings"
	"sync"
	"testing"
	"time"

	"github.com/emersion/go-message/textproto"
	"github.com/emersion/go-msgauth/authres"
	msgdkim "github.com/emersion/go-msgauth/dkim"
	"github.com/emersion/go-smtp"
	"github.com/foxcpp/go-mockdns"
	"github.com/foxcpp/maddy/framework/address"
	"github.com/foxcpp/maddy/framework/buffer"
	"github.com/foxcpp/maddy/framework/config"
	"github.com/foxcpp/maddy/framework/dns"
	"github.com/foxcpp/maddy/framework/exterrors"
	"github.com/foxcpp/maddy/framework/log"
	"github.com/foxcpp/maddy/framework/module"
	checkdkim "github.com/foxcpp/maddy/internal/check/dkim"
	moddkim "github.com/foxcpp/maddy/internal/modify/dkim"
	"github.com/foxcpp/maddy/internal/smtpconn"
	"github.com/foxcpp/maddy/internal/target/remote"
	smtptarget "github.com/foxcpp/maddy/internal/target/smtp"
	"github.com/foxcpp/maddy/internal/verifshim/vc08"
	"github.com/foxcpp/maddy/internal/verifshim/vh"
	"github.com/foxcpp/maddy/internal/verifshim/vsmtp"
	"golang.org/x/net/idna"
	"golang.org/x/text/unicode/norm"
)

// ---------------------------------------------------------------- environment (once per run)

type c08Sender struct {
	from       string
	utf8       bool
	domains    []string // modifier configuration
	selector   string
	subdomains bool
	keyDomain  string // domain whose key signs
	wantD      string // expected d= tag ("" = do not check)
	notCovered bool   // (round 9) the configuration does not cover this sender: unsigned, or signed verifiably
}

// c08CoveredSenders: the variants below this index are covered by their configuration (must be signed)
const c08CoveredSenders = 18

func c08ALabel(s string) string {
	a, err := idna.ToASCII(s)
	if err != nil {
		panic(err)
	}
	return a
}

var c08AllDomains = []string{"example.org", "пример.example", "xn--mnchen-3ya.example"}

func c08Senders() []c08Sender {
	ru := "пример.example"
	ruA := c08ALabel(ru)
	d := c08AllDomains
	return []c08Sender{
		0:  {from: "user@example.org", utf8: false, domains: d, selector: "sel", keyDomain: "example.org", wantD: "example.org"},
		1:  {from: "user@example.org", utf8: true, domains: d, selector: "sel", keyDomain: "example.org", wantD: "example.org"},
		2:  {from: "юзер@" + ru, utf8: true, domains: d, selector: "sel", keyDomain: ru, wantD: ru},
		3:  {from: "user@" + ruA, utf8: false, domains: d, selector: "sel", keyDomain: ru, wantD: ruA},
		4:  {from: "user@" + ru, utf8: false, domains: d, selector: "sel", keyDomain: ru, wantD: ruA},
		5:  {from: "user@" + strings.ToUpper(ruA), utf8: true, domains: d, selector: "sel", keyDomain: ru, wantD: strings.ToUpper(ruA)},
		6:  {from: "", utf8: false, domains: d, selector: "sel", keyDomain: "example.org", wantD: "example.org"},
		7:  {from: "user@münchen.example", utf8: true, domains: d, selector: "sel", keyDomain: "xn--mnchen-3ya.example", wantD: "münchen.example"},
		8:  {from: "user@münchen.example", utf8: false, domains: d, selector: "sel", keyDomain: "xn--mnchen-3ya.example", wantD: "xn--mnchen-3ya.example"},
		9:  {from: "user@mail.example.org", utf8: false, domains: []string{"example.org"}, selector: "sel", subdomains: true, keyDomain: "example.org", wantD: "example.org"},
		10: {from: "user@example.org", utf8: false, domains: d, selector: "ключ", keyDomain: "example.org", wantD: "example.org"},
		11: {from: "user@example.org", utf8: true, domains: d, selector: "ключ", keyDomain: "example.org", wantD: "example.org"},
		12: {from: "postmaster", utf8: false, domains: d, selector: "sel", keyDomain: "example.org", wantD: "example.org"},
		13: {from: "USER@EXAMPLE.ORG", utf8: false, domains: d, selector: "sel", keyDomain: "example.org", wantD: "EXAMPLE.ORG"},
		// (round 9) sign_subdomains: two levels; IDN parent (EAI, U-label sender without SMTPUTF8, parent configured in A-labels)
		14: {from: "user@a.b.example.org", utf8: true, domains: []string{"example.org"}, selector: "sel", subdomains: true, keyDomain: "example.org", wantD: "example.org"},
		15: {from: "юзер@почта." + ru, utf8: true, domains: []string{ru}, selector: "sel", subdomains: true, keyDomain: ru, wantD: ru},
		16: {from: "user@mail." + ru, utf8: false, domains: []string{ru}, selector: "ключ", subdomains: true, keyDomain: ru, wantD: ruA},
		17: {from: "user@MAIL.sub.xn--mnchen-3ya.example", utf8: false, domains: []string{"xn--mnchen-3ya.example"}, selector: "sel", subdomains: true, keyDomain: "xn--mnchen-3ya.example", wantD: "xn--mnchen-3ya.example"},
		// the parent part spelled differently from the configuration: not covered (left unsigned by the unchanged code)
		18: {from: "user@mail.EXAMPLE.ORG", utf8: false, domains: []string{"example.org"}, selector: "sel", subdomains: true, keyDomain: "example.org", notCovered: true},
		19: {from: "user@mail." + ruA, utf8: false, domains: []string{ru}, selector: "sel", subdomains: true, keyDomain: ru, notCovered: true},
	}
}

type c08Env struct {
	t            *testing.T
	out          *vh.Out
	keyDir       map[string]string            // algo -> dir
	records      map[string]map[string]string // algo -> "selector/domain" (normalised) -> TXT record
	pubs         map[string]map[string]crypto.PublicKey
	srv          map[bool]*vsmtp.Server // SMTPUTF8 offered?
	smtpT        map[bool]module.DeliveryTarget
	remoteT      module.DeliveryTarget
	queried      map[string]int
	mu           sync.Mutex
	raw          map[bool]*vc08.Raw // hand-written next hop (LMTP?) for the direct smtpconn cases
	rawPort      map[bool]string
	pending      []*c08Pending
	pendingBytes int
}

// the keys of one run: generated ONCE by maddy itself (keys.go), shared by all C08 tests
type c08KeySet struct {
	keyDir  map[string]string
	records map[string]map[string]string
	pubs    map[string]map[string]crypto.PublicKey
}

var (
	c08KeysOnce sync.Once
	c08KeysV    *c08KeySet
	c08KeysErr  error
)

func c08SharedKeys() (*c08KeySet, error) {
	c08KeysOnce.Do(func() {
		log.DefaultLogger.Out = log.NopOutput{}
		ks := &c08KeySet{keyDir: map[string]string{}, records: map[string]map[string]string{}, pubs: map[string]map[string]crypto.PublicKey{}}
		var base string
		if d := os.Getenv("VERIF_OUT"); d != "" {
			// under the run's work directory (wiped by the next run)
			base = filepath.Join(d, fmt.Sprintf("c08-keys-%d", os.Getpid()))
			c08KeysErr = os.MkdirAll(base, 0o700)
		} else {
			base, c08KeysErr = os.MkdirTemp("", "verif-c08-keys-")
		}
		if c08KeysErr != nil {
			return
		}
		tmp := &c08Env{keyDir: ks.keyDir}
		for _, algo := range []string{"rsa2048", "ed25519"} {
			ks.keyDir[algo] = filepath.Join(base, algo)
			ks.records[algo] = map[string]string{}
			ks.pubs[algo] = map[string]crypto.PublicKey{}
			// maddy generates the keys and writes the TXT records itself (keys.go); every later
			// modifier of this run loads them from the files.
			for _, sel := range []string{"sel", "ключ"} {
				// every key a case may ask for: parallel tests must not find one missing and generate it
				sd := c08Sender{domains: c08AllDomains, selector: sel}
				mod, err := c08Modifier(tmp, algo, sd, "relaxed", "relaxed", true, nil, nil)
				if err != nil {
					c08KeysErr = fmt.Errorf("key generation: %v", err)
					return
				}
				// The published record of a domain is the record file, wherever the modifier put it and
				// whatever it called it, that carries the key the modifier signs with for that domain
				// (TestVerifC08Keys is about the names; no test may depend on them to get going).
				files, err := vc08.ScanKeyDir(ks.keyDir[algo])
				if err != nil {
					c08KeysErr = err
					return
				}
				signers := moddkim.C08SignerPublics(mod)
				for _, dom := range sd.domains {
					nd, _ := dns.ForLookup(dom)
					var rec []byte
					for _, f := range files {
						if f.Kind == "r" && vc08.SamePublic(f.Pub, signers[nd]) {
							rec = f.Content
						}
					}
					if rec == nil {
						c08KeysErr = fmt.Errorf("no record file with the key that signs for %s (selector %s, %s) in %s", dom, sel, algo, ks.keyDir[algo])
						return
					}
					pub, kind, err := vc08.ParseRecord(string(rec))
					if err != nil {
						c08KeysErr = fmt.Errorf("published record: %v", err)
						return
					}
					if (kind == "rsa") != (algo == "rsa2048") {
						c08KeysErr = fmt.Errorf("published key type %s for %s", kind, algo)
						return
					}
					ks.records[algo][c08Norm(sel, dom)] = string(rec)
					ks.pubs[algo][c08Norm(sel, dom)] = pub
				}
			}
		}
		c08KeysV = ks
	})
	return c08KeysV, c08KeysErr
}

func c08Norm(sel, dom string) string {
	d, _ := dns.ForLookup(dom)
	s, err := idna.ToUnicode(strings.ToLower(sel))
	if err != nil {
		s = sel
	}
	return s + "/" + d
}

func c08Modifier(env *c08Env, algo string, sd c08Sender, hc, bc string, expiry bool, ov, sg []string) (module.Module, error) {
	return c08ModifierAt(filepath.Join(env.keyDir[algo], "{domain}_{selector}.key"), algo, sd, hc, bc, expiry, ov, sg)
}

// c08ModifierAt: a modify.dkim instance with the given key_path (as it would be written in the configuration)
func c08ModifierAt(keyPath, algo string, sd c08Sender, hc, bc string, expiry bool, ov, sg []string) (module.Module, error) {
	arg := ""
	if !expiry {
		arg = "0s"
	}
	return c08ModifierExp(keyPath, algo, sd, hc, bc, arg, ov, sg)
}

// c08ModifierExp: sigExpiry is the argument of the sig_expiry directive ("" = directive absent: the default)
func c08ModifierExp(keyPath, algo string, sd c08Sender, hc, bc string, sigExpiry string, ov, sg []string) (module.Module, error) {
	mod, err := moddkim.New("modify.dkim", "c08", nil, nil)
	if err != nil {
		return nil, err
	}
	nodes := []config.Node{
		{Name: "domains", Args: sd.domains},
		{Name: "selector", Args: []string{sd.selector}},
		{Name: "key_path", Args: []string{keyPath}},
		{Name: "newkey_algo", Args: []string{algo}},
		{Name: "header_canon", Args: []string{hc}},
		{Name: "body_canon", Args: []string{bc}},
	}
	if sigExpiry != "" {
		nodes = append(nodes, config.Node{Name: "sig_expiry", Args: []string{sigExpiry}})
	}
	if sd.subdomains {
		nodes = append(nodes, config.Node{Name: "sign_subdomains", Args: []string{"yes"}})
	}
	if ov != nil || sg != nil {
		// an empty list cannot be written in the configuration; set below
		if len(ov) > 0 {
			nodes = append(nodes, config.Node{Name: "oversign_fields", Args: ov})
		}
		if len(sg) > 0 {
			nodes = append(nodes, config.Node{Name: "sign_fields", Args: sg})
		}
	}
	if err := mod.(interface{ Init(*config.Map) error }).Init(config.NewMap(nil, config.Node{Children: nodes})); err != nil {
		return nil, err
	}
	if ov != nil || sg != nil {
		if len(ov) == 0 || len(sg) == 0 {
			moddkim.C08SetLists(mod, ov, sg)
		}
	}
	return mod, nil
}

func c08NewEnv(t *testing.T, out *vh.Out, network bool) *c08Env {
	env := &c08Env{t: t, out: out, srv: map[bool]*vsmtp.Server{}, smtpT: map[bool]module.DeliveryTarget{}, queried: map[string]int{},
		raw: map[bool]*vc08.Raw{}, rawPort: map[bool]string{}}
	ks, err := c08SharedKeys()
	if err != nil {
		t.Fatal(err)
	}
	env.keyDir, env.records, env.pubs = ks.keyDir, ks.records, ks.pubs
	if !network {
		return env
	}
	for _, u := range []bool{false, true} {
		port := vsmtp.FreePort()
		srv, err := vsmtp.Start("127.0.0.1:"+port, u, false)
		if err != nil {
			t.Fatal(err)
		}
		t.Cleanup(srv.Close)
		env.srv[u] = srv
		mod, err := smtptarget.NewDownstream("target.smtp", "c08", nil, []string{"tcp://127.0.0.1:" + port})
		if err != nil {
			t.Fatal(err)
		}
		err = mod.(interface{ Init(*config.Map) error }).Init(config.NewMap(map[string]interface{}{"hostname": "mx.example.org"},
			config.Node{Children: []config.Node{{Name: "starttls", Args: []string{"no"}}}}))
		if err != nil {
			t.Fatal(err)
		}
		env.smtpT[u] = mod.(module.DeliveryTarget)
		if u {
			zones := map[string]mockdns.Zone{
				"mx.next.invalid.": {A: []string{"127.0.0.1"}},
				"rcpt.example.":    {MX: []net.MX{{Host: "mx.next.invalid.", Pref: 10}}},
			}
			rt := remote.C08NewTarget(zones, port)
			t.Cleanup(func() { rt.Close() })
			env.remoteT = rt
		}
	}
	return env
}

func (env *c08Env) lookupTXT(algo string) func(string) ([]string, error) {
	return func(name string) ([]string, error) {
		i := strings.Index(strings.ToLower(name), "._domainkey.")
		if i < 0 {
			return nil, errors.New("c08: unexpected TXT query " + name)
		}
		k := c08Norm(name[:i], name[i+len("._domainkey."):])
		env.mu.Lock()
		if isASCII(name) {
			env.queried["ascii"]++
		} else {
			env.queried["u-label"]++
		}
		env.mu.Unlock()
		rec, ok := env.records[algo][k]
		if !ok {
			return nil, &net.DNSError{Err: "no such host", Name: name, IsNotFound: true}
		}
		return []string{rec}, nil
	}
}

func isASCII(s string) bool {
	for i := 0; i < len(s); i++ {
		if s[i] >= 0x80 {
			return false
		}
	}
	return true
}

// resolver for maddy's own check.dkim: the same records under every spelling the verifier may ask for
type c08Resolver struct {
	*mockdns.Resolver
	f func(string) ([]string, error)
}

func (r c08Resolver) LookupTXT(ctx context.Context, name string) ([]string, error) { return r.f(name) }

// ---------------------------------------------------------------- case description (= replayable op)

type c08Case struct {
	// m = in memory only, d = first attempt (header object in memory), r = retry after a temporary failure
	// (re-read from the spool), R = restart (new queue object reads the spool);
	// b<k> = the body reader of the first attempt fails after k octets, o = the body cannot be opened at the
	// first attempt (both: delivered by the retry, from the spool); s<k> = the body reader fails after k octets
	// while the queue is storing the message (the queue must refuse it: nothing is delivered);
	// x<p><kind><k>c<chunk> = one smtpconn.Data call against the hand-written next hop, p: s = SMTP, l = LMTP;
	// kind: n = undisturbed, b = body reader fails after k octets, e = the same with the error returned together
	// with the last octets, w = the connection fails (once) after k octets of DATA; the reader hands out at
	// most chunk octets per Read (0 = as many as asked for)
	mode   string
	tgt    string // s = smtp target to a server without SMTPUTF8, u = smtp target to a server with SMTPUTF8, r = remote target
	algo   string
	hc, bc string
	sender int
	expiry bool
	ov, sg []string // nil, nil = defaults
	custom bool
	fields [][]byte    // generated raw fields, top to bottom
	added  [][2]string // fields added with Header.Add afterwards (they end up on top, last one first)
	body   []byte
}

func c08HexStrs(l []string) string {
	if len(l) == 0 {
		return "-"
	}
	var p []string
	for _, s := range l {
		p = append(p, vh.HexBytes([]byte(s)))
	}
	return strings.Join(p, ",")
}

func c08UnhexStrs(s string) []string {
	out := []string{}
	if s == "-" {
		return out
	}
	for _, p := range strings.Split(s, ",") {
		out = append(out, string(vh.UnhexBytes(p)))
	}
	return out
}

type c08Fault struct {
	direct bool
	lmtp   bool
	kind   string // n | b | e | w | o
	k      int
	chunk  int
}

// c08ParseFault reads the fault part of a mode token; ok = false for m, d, r, R (and junk).
func c08ParseFault(mode string) (f c08Fault, ok bool) {
	switch {
	case mode == "o":
		return c08Fault{kind: "o"}, true
	case len(mode) > 1 && (mode[0] == 'b' || mode[0] == 's'):
		k, err := strconv.Atoi(mode[1:])
		return c08Fault{kind: mode[:1], k: k}, err == nil && k >= 0
	case len(mode) > 3 && mode[0] == 'x':
		f.direct = true
		f.lmtp = mode[1] == 'l'
		f.kind = mode[2:3]
		rest := strings.SplitN(mode[3:], "c", 2)
		if len(rest) != 2 || (mode[1] != 's' && mode[1] != 'l') || !strings.Contains("nbew", f.kind) {
			return f, false
		}
		var e1, e2 error
		f.k, e1 = strconv.Atoi(rest[0])
		f.chunk, e2 = strconv.Atoi(rest[1])
		return f, e1 == nil && e2 == nil && f.k >= 0 && f.chunk >= 0
	}
	return f, false
}

func (f c08Fault) mode() string {
	switch {
	case f.direct:
		p := "s"
		if f.lmtp {
			p = "l"
		}
		return fmt.Sprintf("x%s%s%dc%d", p, f.kind, f.k, f.chunk)
	case f.kind == "o":
		return "o"
	}
	return fmt.Sprintf("%s%d", f.kind, f.k)
}

func (c *c08Case) op() string {
	lists := "default"
	if c.custom {
		lists = "ov:" + c08HexStrs(c.ov) + ";sg:" + c08HexStrs(c.sg)
	}
	e := "0"
	if c.expiry {
		e = "1"
	}
	var add []string
	for _, a := range c.added {
		add = append(add, vh.HexBytes([]byte(a[0]))+"="+vh.HexBytes([]byte(a[1])))
	}
	return fmt.Sprintf("C08 chain %s %s %s %s %s %d %s %s | %s | %s | %s", c.mode, c.tgt, c.algo, c.hc, c.bc, c.sender, e, lists,
		vc08.EncList(c.fields), strings.Join(add, " "), vc08.Enc(c.body))
}

func c08ParseCase(op string) (*c08Case, error) {
	if i := strings.Index(op, " # "); i >= 0 {
		op = op[:i]
	}
	groups := strings.Split(op, " | ")
	if len(groups) != 4 {
		return nil, fmt.Errorf("bad chain op (%d groups)", len(groups))
	}
	t := strings.Fields(groups[0])
	if len(t) != 10 || t[0] != "C08" || t[1] != "chain" {
		return nil, errors.New("bad chain op head")
	}
	c := &c08Case{mode: t[2], tgt: t[3], algo: t[4], hc: t[5], bc: t[6], expiry: t[8] == "1"}
	if _, ok := c08ParseFault(c.mode); !ok && !strings.Contains("m d r R", c.mode) {
		return nil, errors.New("bad chain mode " + c.mode)
	}
	c.sender, _ = strconv.Atoi(t[7])
	if t[9] != "default" {
		c.custom = true
		p := strings.Split(t[9], ";")
		c.ov = c08UnhexStrs(strings.TrimPrefix(p[0], "ov:"))
		c.sg = c08UnhexStrs(strings.TrimPrefix(p[1], "sg:"))
	}
	for _, f := range strings.Fields(groups[1]) {
		c.fields = append(c.fields, vc08.Dec(f))
	}
	for _, a := range strings.Fields(groups[2]) {
		kv := strings.SplitN(a, "=", 2)
		c.added = append(c.added, [2]string{string(vh.UnhexBytes(kv[0])), string(vh.UnhexBytes(kv[1]))})
	}
	c.body = vc08.Dec(strings.TrimSpace(groups[3]))
	return c, nil
}

func c08GenLists(r *vh.Rng) (ov, sg []string) {
	pool := append(append([]string{}, vc08.SignedNames...), "Received", "X-Mailer", "Comments", "X_Under.score")
	pick := func(n int) []string {
		out := []string{}
		for i := 0; i < n; i++ {
			k := pool[r.Intn(len(pool))]
			if r.Chance(4) {
				k = vc08.OddNames[r.Intn(len(vc08.OddNames))]
			}
			switch r.Intn(6) {
			case 0:
				k = strings.ToLower(k)
			case 1:
				k = strings.ToUpper(k)
			}
			out = append(out, k)
		}
		if n > 1 && r.Chance(25) { // duplicate in another spelling
			out = append(out, strings.ToUpper(out[r.Intn(len(out))]))
		}
		return out
	}
	ov = pick(r.Intn(8))
	sg = pick(r.Intn(8))
	from := r.Pick("From", "from", "FROM")
	switch r.Intn(10) {
	case 0: // From missing: the signer refuses
	case 1, 2, 3:
		sg = append(sg, from)
	default:
		ov = append(ov, from)
	}
	if r.Chance(20) && len(ov) > 0 { // the same name in both lists
		sg = append(sg, ov[r.Intn(len(ov))])
	}
	return
}

func c08GenCase(r *vh.Rng, mode string) *c08Case {
	c := &c08Case{mode: mode}
	c.algo = r.Pick("rsa2048", "ed25519")
	c.hc = r.Pick("relaxed", "simple")
	c.bc = r.Pick("relaxed", "simple")
	c.sender = r.Intn(len(c08Senders()))
	c.expiry = !r.Chance(25)
	if r.Chance(30) {
		c.custom = true
		c.ov, c.sg = c08GenLists(r)
	}
	eight := r.Chance(50)
	c.fields = vc08.Header(r, eight)
	for i := 0; i < r.Intn(3); i++ {
		k := r.Pick("Received", "X-Added", "Subject", "To", "List-Id")
		v := ""
		for j := 0; j < r.Intn(6); j++ {
			if j > 0 {
				v += " "
			}
			w := vc08.Field(r, "X", eight)
			// a value without line breaks
			w = bytes.ReplaceAll(w[2:], []byte("\r\n"), nil)
			if len(w) > 300 && !r.Chance(20) {
				w = w[:300]
			}
			v += strings.TrimSpace(string(w))
		}
		c.added = append(c.added, [2]string{k, v})
	}
	c.body = vc08.Body(r, eight)
	if mode == "m" && r.Chance(25) {
		// not CRLF-structured: only the in-memory stream (model vs. library canonicalisation); the
		// transport legitimately changes such bodies
		c.body = vc08.Wild(r, append([]byte("x\r\n"), c.body...))
	}
	c.tgt = r.Pick("s", "u", "r")
	if (c.sender == 2 || c.sender == 15) && c.tgt == "s" {
		c.tgt = "u" // a non-ASCII local part cannot be relayed to a server without SMTPUTF8
	}
	return c
}

// ---------------------------------------------------------------- one case

// c08FailFirst stands between the queue and the real target: it refuses the first `fails` attempts
// at Start (451), injects the configured fault into the first attempt that gets as far as Body, and
// records for every attempt whether the target reported the message as handed over.
type c08FailFirst struct {
	inner  module.DeliveryTarget
	mu     sync.Mutex
	fails  int
	hit    chan struct{}
	fault  *c08Fault // nil = none
	fired  bool
	bodyOK []bool // per attempt that reached Body: did the target report success?
}

func (f *c08FailFirst) Start(ctx context.Context, m *module.MsgMetadata, from string) (module.Delivery, error) {
	f.mu.Lock()
	fail := f.fails > 0
	if fail {
		f.fails--
	}
	f.mu.Unlock()
	if fail {
		select {
		case f.hit <- struct{}{}:
		default:
		}
		return nil, &exterrors.SMTPError{Code: 451, EnhancedCode: exterrors.EnhancedCode{4, 0, 0}, Message: "c08: not now"}
	}
	d, err := f.inner.Start(ctx, m, from)
	if err != nil {
		return nil, err
	}
	return &c08Attempt{Delivery: d, ff: f}, nil
}

type c08Attempt struct {
	module.Delivery
	ff *c08FailFirst
}

// c08FaultBuffer is the message body as the target sees it at the disturbed attempt.
type c08FaultBuffer struct {
	data []byte
	f    c08Fault
}

func (b c08FaultBuffer) Open() (io.ReadCloser, error) {
	if b.f.kind == "o" {
		return nil, vc08.ErrInjected
	}
	return &vc08.FaultReader{Data: b.data, K: b.f.k, Chunk: b.f.chunk, Together: b.f.kind == "e"}, nil
}
func (b c08FaultBuffer) Len() int      { return len(b.data) }
func (b c08FaultBuffer) Remove() error { return nil }

func (a *c08Attempt) Body(ctx context.Context, h textproto.Header, body buffer.Buffer) error {
	ff := a.ff
	ff.mu.Lock()
	inject := ff.fault != nil && !ff.fired
	if inject {
		ff.fired = true
	}
	ff.mu.Unlock()
	if inject {
		r, err := body.Open()
		if err != nil {
			return err
		}
		data, err := io.ReadAll(r)
		r.Close()
		if err != nil {
			return err
		}
		f := *ff.fault
		if f.k > len(data) {
			f.k = len(data)
		}
		body = c08FaultBuffer{data: data, f: f}
	}
	err := a.Delivery.Body(ctx, h, body)
	ff.mu.Lock()
	ff.bodyOK = append(ff.bodyOK, err == nil)
	ff.mu.Unlock()
	return err
}

func c08NewQueue(dir string, tgt module.DeliveryTarget, retry time.Duration) *Queue {
	mod, _ := NewQueue("", "queue", nil, nil)
	q := mod.(*Queue)
	q.initialRetryTime = retry
	q.retryTimeScale = 1
	q.postInitDelay = 0
	q.maxTries = 5
	q.location = dir
	q.hostname = "mx.example.org"
	q.autogenMsgDomain = "example.org"
	q.Log = log.Logger{Out: log.NopOutput{}}
	q.Target = tgt
	return q
}

func c08RawFields(h textproto.Header) ([][]byte, error) {
	var out [][]byte
	for f := h.Fields(); f.Next(); {
		raw, err := f.Raw()
		if err != nil {
			return nil, err
		}
		out = append(out, append([]byte{}, raw...))
	}
	return out, nil
}

// transport runs the real queue and target; returns the spool header file, the spool body file, every payload
// the next hop acknowledged (in order) and, per attempt that got as far as the message data, whether the
// target reported it as handed over.
func (env *c08Env) transport(c *c08Case, sd c08Sender, hdr textproto.Header, body []byte) (spoolH, spoolB []byte, accepted [][]byte, bodyOK []bool, refused bool, err error) {
	var tgt module.DeliveryTarget
	utf8srv := true
	rcpt := "rcpt@rcpt.example"
	switch c.tgt {
	case "s":
		tgt, utf8srv = env.smtpT[false], false
	case "u":
		tgt = env.smtpT[true]
	default:
		tgt = env.remoteT
	}
	srv := env.srv[utf8srv]
	srv.Script.Set(func(s *vsmtp.Script) { s.Txs = nil })
	dir, err := os.MkdirTemp("", "verif-c08-q-")
	if err != nil {
		return nil, nil, nil, nil, false, err
	}
	defer os.RemoveAll(dir)
	ff := &c08FailFirst{inner: tgt, hit: make(chan struct{}, 1)}
	retry := time.Duration(0)
	switch c.mode {
	case "d":
	case "r":
		ff.fails = 1
	case "R":
		ff.fails = 1000
		retry = time.Hour
	default:
		f, ok := c08ParseFault(c.mode)
		if !ok || f.direct {
			return nil, nil, nil, nil, false, errors.New("not a queue mode: " + c.mode)
		}
		if f.kind != "s" {
			ff.fault = &f
		}
	}
	q := c08NewQueue(dir, ff, retry)
	if err := q.start(1); err != nil {
		return nil, nil, nil, nil, false, err
	}
	closed := false
	defer func() {
		if !closed {
			q.Close()
		}
	}()
	id, _ := module.GenerateMsgID()
	from := sd.from
	if from == "postmaster" {
		from = "postmaster@example.org" // the next hop wants a mailbox
	}
	meta := &module.MsgMetadata{ID: id, OriginalFrom: from, DontTraceSender: true, SMTPOpts: smtp.MailOptions{UTF8: sd.utf8}}
	ctx := context.Background()
	d, err := q.Start(ctx, meta, from)
	if err != nil {
		return nil, nil, nil, nil, false, err
	}
	if err := d.AddRcpt(ctx, rcpt, smtp.RcptOptions{}); err != nil {
		return nil, nil, nil, nil, false, err
	}
	var bodyBuf buffer.Buffer = buffer.MemoryBuffer{Slice: body}
	storeFault, isStoreFault := c08ParseFault(c.mode)
	isStoreFault = isStoreFault && storeFault.kind == "s"
	if isStoreFault {
		bodyBuf = c08FaultBuffer{data: body, f: c08Fault{kind: "b", k: storeFault.k}}
	}
	if err := d.Body(ctx, hdr, bodyBuf); err != nil {
		if !isStoreFault || !errors.Is(err, vc08.ErrInjected) {
			return nil, nil, nil, nil, false, err
		}
		// the queue refused the message (the endpoint reports the failure to the sender): nothing was
		// committed, so no attempt can be under way; whatever the next hop has acknowledged by now counts
		d.Abort(ctx)
		srv.Script.Set(func(s *vsmtp.Script) {
			for _, tx := range s.Txs {
				if tx.Done {
					accepted = append(accepted, tx.Data)
				}
			}
		})
		ents, _ := os.ReadDir(dir)
		if len(ents) != 0 {
			env.out.Stat("chain.store-fault.files-left-behind")
		}
		return nil, nil, accepted, nil, true, nil
	}
	spoolH, _ = os.ReadFile(filepath.Join(dir, id+".header"))
	spoolB, _ = os.ReadFile(filepath.Join(dir, id+".body"))
	if err := d.Commit(ctx); err != nil {
		return nil, nil, nil, nil, false, err
	}
	if c.mode == "R" {
		select {
		case <-ff.hit:
		case <-time.After(30 * time.Second):
			return spoolH, spoolB, nil, nil, false, errors.New("first attempt never happened")
		}
		q.Close() // waits for the attempt to finish writing the meta-data
		closed = true
		ff = &c08FailFirst{inner: tgt, hit: make(chan struct{}, 1)}
		q2 := c08NewQueue(dir, ff, 0)
		if err := q2.start(1); err != nil {
			return spoolH, spoolB, nil, nil, false, err
		}
		defer q2.Close()
	}
	deadline := time.Now().Add(45 * time.Second)
	for time.Now().Before(deadline) {
		ff.mu.Lock()
		handedOver := len(ff.bodyOK) > 0 && ff.bodyOK[len(ff.bodyOK)-1]
		ff.mu.Unlock()
		ents, _ := os.ReadDir(dir)
		if !handedOver && len(ents) == 0 {
			time.Sleep(20 * time.Millisecond) // not a race with the hand-over being recorded?
			ff.mu.Lock()
			handedOver = len(ff.bodyOK) > 0 && ff.bodyOK[len(ff.bodyOK)-1]
			ff.mu.Unlock()
			if !handedOver {
				return spoolH, spoolB, nil, nil, false, errors.New("the message left the queue without having been handed over")
			}
		}
		if handedOver {
			if len(ents) == 0 {
				srv.Script.Set(func(s *vsmtp.Script) {
					for _, tx := range s.Txs {
						if tx.Done {
							accepted = append(accepted, tx.Data)
						}
					}
				})
				ff.mu.Lock()
				bodyOK = append([]bool{}, ff.bodyOK...)
				ff.mu.Unlock()
				return spoolH, spoolB, accepted, bodyOK, false, nil
			}
		}
		time.Sleep(300 * time.Microsecond)
	}
	return spoolH, spoolB, nil, nil, false, errors.New("not delivered within 45 s")
}

// direct makes one smtpconn.Data call against the hand-written next hop.
func (env *c08Env) direct(f c08Fault, hdr textproto.Header, body []byte) (accepted [][]byte, sent bool, err error) {
	raw, port := env.raw[f.lmtp], env.rawPort[f.lmtp]
	raw.Take()
	c := smtpconn.New()
	c.Log = log.Logger{Out: log.NopOutput{}}
	c.ConnectTimeout, c.CommandTimeout, c.SubmissionTimeout = 30*time.Second, 30*time.Second, 30*time.Second
	var fc *vc08.FaultConn
	if f.kind == "w" {
		dial := c.Dialer
		c.Dialer = func(ctx context.Context, network, addr string) (net.Conn, error) {
			conn, err := dial(ctx, network, addr)
			if err != nil {
				return nil, err
			}
			fc = &vc08.FaultConn{Conn: conn, K: f.k}
			return fc, nil
		}
	}
	ctx := context.Background()
	endp := config.Endpoint{Scheme: "tcp", Host: "127.0.0.1", Port: port}
	if f.lmtp {
		_, err = c.ConnectLMTP(ctx, endp, false, nil)
	} else {
		_, err = c.Connect(ctx, endp, false, nil)
	}
	if err != nil {
		return nil, false, err
	}
	if err := c.Mail(ctx, "sender@c08.example", smtp.MailOptions{}); err != nil {
		c.DirectClose()
		return nil, false, err
	}
	if err := c.Rcpt(ctx, "rcpt@c08.example", smtp.RcptOptions{}); err != nil {
		c.DirectClose()
		return nil, false, err
	}
	var rd io.Reader
	switch f.kind {
	case "b", "e":
		rd = &vc08.FaultReader{Data: body, K: f.k, Chunk: f.chunk, Together: f.kind == "e"}
	default:
		rd = &vc08.ChunkReader{Data: body, Chunk: f.chunk}
	}
	derr := c.Data(ctx, hdr, rd)
	// what target.smtp and target.remote do with the connection, after success and after failure alike
	c.Close()
	for _, tx := range raw.Take() {
		if tx.Accepted {
			accepted = append(accepted, tx.Payload())
		}
	}
	if f.kind == "w" && (fc == nil || !fc.Fired) && derr != nil {
		return accepted, false, fmt.Errorf("Data failed before the injected fault: %v", derr)
	}
	return accepted, derr == nil, nil
}

// ---- signing (also used, quietly, to learn the size of the signed header when padding to a size)

type c08Signed struct {
	hdr      textproto.Header
	presign  [][]byte
	signed   [][]byte
	sigField []byte
	tags     map[string]string
	hkeys    []string
	digest   []byte
	maxLine  int      // longest line of the signature field
	ovCfg    []string // the over-signed names as configured
}

func (env *c08Env) sign(c *c08Case, op string, quiet bool) *c08Signed {
	out := env.out
	stat := func(k string) {
		if !quiet {
			out.Stat(k)
		}
	}
	viol := func(sig, detail string) {
		if !quiet {
			out.Violation(sig, op, detail)
		}
	}
	sd := c08Senders()[c.sender]
	ctx := context.Background()
	// the header as an SMTP endpoint would hand it over: parsed by go-message, then Add()s
	hdr, err := textproto.ReadHeader(bufio.NewReader(bytes.NewReader(vc08.Join(c.fields, nil))))
	if err != nil {
		if !quiet {
			out.Note("generated header refused by go-message: " + err.Error() + " " + op)
		}
		stat("chain.gen-refused")
		return nil
	}
	if hdr.Len() != len(c.fields) {
		viol("C08/harness-header-mismatch", fmt.Sprintf("generated %d fields, parsed %d", len(c.fields), hdr.Len()))
		return nil
	}
	for _, a := range c.added {
		hdr.Add(a[0], a[1])
	}
	mod, err := c08Modifier(env, c.algo, sd, c.hc, c.bc, c.expiry, c.ov, c.sg)
	if err != nil {
		if !quiet {
			out.Note("modifier: " + err.Error())
		}
		stat("chain.modifier-error")
		return nil
	}
	var digests [][]byte
	moddkim.C08RecordDigests(mod, func(d []byte) { digests = append(digests, d) })
	before := hdr.Copy()
	presign, err := c08RawFields(hdr)
	if err != nil {
		stat("chain.unwritable-header")
		return nil
	}
	hkeys := moddkim.C08FieldsToSign(mod, &before)
	ovCfg, _ := moddkim.C08Lists(mod)
	meta := &module.MsgMetadata{ID: "c08", SMTPOpts: smtp.MailOptions{UTF8: sd.utf8}}
	st, err := mod.(module.Modifier).ModStateForMsg(ctx, meta)
	if err != nil {
		env.t.Fatal(err)
	}
	st.RewriteSender(ctx, sd.from)
	var bodyBuf buffer.Buffer = buffer.MemoryBuffer{Slice: c.body}
	if len(c.body) > 32*1024 {
		// large bodies are file-backed in maddy: the signer then reads them in 32 KiB chunks
		f, ferr := os.CreateTemp("", "verif-c08-body-")
		if ferr != nil {
			env.t.Fatal(ferr)
		}
		f.Write(c.body)
		f.Close()
		defer os.Remove(f.Name())
		bodyBuf = buffer.FileBuffer{Path: f.Name(), LenHint: len(c.body)}
		stat("case.body.file-backed")
	}
	err = st.RewriteBody(ctx, &hdr, bodyBuf)
	if err != nil {
		stat("sign.error:" + c08ErrClass(err))
		return nil
	}
	if hdr.Len() != len(presign)+1 {
		if sd.notCovered && hdr.Len() == len(presign) {
			stat("sign.unsigned.not-covered")
			return nil
		}
		stat("sign.unsigned")
		viol("C08/not-signed", "the modifier returned no error and added no signature")
		return nil
	}
	signed, err := c08RawFields(hdr)
	if err != nil {
		viol("C08/signed-header-unwritable", err.Error())
		return nil
	}
	sigField := signed[0]
	for i := range presign {
		if !bytes.Equal(presign[i], signed[i+1]) {
			viol("C08/signing-changed-header", fmt.Sprintf("field %d changed by signing", i))
			return nil
		}
	}
	tags := vc08.Tags(sigField)
	if vc08.Name(sigField) != "dkim-signature" || len(digests) != 1 {
		viol("C08/harness-signature-shape", fmt.Sprintf("name=%q digests=%d", vc08.Name(sigField), len(digests)))
		return nil
	}
	maxLine := 0
	for _, l := range bytes.Split(sigField, []byte("\r\n")) {
		if len(l) > maxLine {
			maxLine = len(l)
		}
	}
	return &c08Signed{hdr: hdr, presign: presign, signed: signed, sigField: sigField, tags: tags, hkeys: hkeys, digest: digests[0], maxLine: maxLine, ovCfg: ovCfg}
}

// c08SizeClass names a size relative to the limits the generators aim at.
func c08SizeClass(n int) string {
	for _, l := range c08Limits {
		if d := n - l.n; d >= -1 && d <= 1 {
			return fmt.Sprintf("%s%+d", l.name, d)
		}
	}
	for i := len(c08Limits) - 1; i >= 0; i-- {
		if n > c08Limits[i].n {
			return ">" + c08Limits[i].name
		}
	}
	return "<" + c08Limits[0].name
}

var c08Limits = []struct {
	name string
	n    int
}{{"4KiB", 4096}, {"8KiB", 8192}, {"16KiB", 16384}, {"32KiB", 32768}, {"64KiB", 65536}, {"1MiB", 1 << 20}, {"2MiB", 2 << 20}}

// a case whose next-hop verification is still to be done (the Lean driver is called per batch)
type c08Pending struct {
	c       *c08Case
	op      string
	sd      c08Sender
	tags    map[string]string
	payload []byte
	tampers []vc08.Tamper
}

func (env *c08Env) run(c *c08Case) {
	if p := env.prepare(c); p != nil {
		env.pending = append(env.pending, p)
		env.pendingBytes += len(p.payload) * (1 + len(p.tampers))
		if len(env.pending) >= 64 || env.pendingBytes > 16<<20 {
			env.flush()
		}
	}
}

func (env *c08Env) prepare(c *c08Case) *c08Pending {
	out := env.out
	op := c.op()
	sd := c08Senders()[c.sender]
	fault, isFault := c08ParseFault(c.mode)

	sg := env.sign(c, op, false)
	if sg == nil {
		return nil
	}
	hdr, signed, tags, hkeys := sg.hdr, sg.signed, sg.tags, sg.hkeys
	modeStat := c.mode
	if isFault {
		modeStat = c.mode[:1]
		if fault.direct {
			modeStat = c.mode[:3]
		}
	}
	out.Stat("case.mode." + modeStat)
	out.Stat("case.algo." + c.algo)
	out.Stat("case.canon." + c.hc + "/" + c.bc)
	out.Stat(fmt.Sprintf("case.sender.%02d", c.sender))
	if c.custom {
		out.Stat("case.lists.custom")
	} else {
		out.Stat("case.lists.default")
	}
	if sd.wantD != "" && tags["d"] != sd.wantD {
		out.Violation("C08/signing-domain", op, fmt.Sprintf("d=%q want %q", tags["d"], sd.wantD))
	}
	if isASCII(tags["d"]) {
		out.Stat("sig.d.ascii")
	} else {
		out.Stat("sig.d.u-label")
	}
	if !sd.utf8 && (!isASCII(tags["d"]) || !isASCII(tags["s"]) || !isASCII(tags["i"])) {
		out.Violation("C08/non-eai-u-label", op, "non-EAI message signed with non-ASCII d=/s=/i=: "+tags["d"]+" "+tags["s"])
	}
	maxLine := sg.maxLine
	if maxLine > 1998 && c.mode != "m" {
		// Outside the property (the message never arrives): go-msgauth does not fold the h= tag, so a
		// header with some 130 occurrences of signed fields yields a signature line that a go-smtp
		// next hop (MaxLineLength 2000; maddy's own endpoint: 4000) refuses.  Recorded, not transported.
		// (go-smtp's lineLimitReader counts the LF that ends the previous line and the CR of this one:
		// a line of 1999 or 2000 octets is refused as well - found in round 6, seed 3.)
		out.Stat("chain.skipped.sig-line>2000")
		out.Note(fmt.Sprintf("signature line of %d octets (h= with %d names) would be refused by the scripted next hop", maxLine, len(hkeys)))
		return nil
	}
	if maxLine > 998 {
		out.Stat("sig.line>998")
	} else if maxLine > 78 {
		out.Stat("sig.line>78")
	} else {
		out.Stat("sig.line<=78")
	}

	// ---- transport
	var payload, spoolH, spoolB []byte
	var sent bytes.Buffer
	textproto.WriteHeader(&sent, hdr)
	hdrBytes := append([]byte{}, sent.Bytes()...)
	sent.Write(c.body)
	accTag := ""
	if c.mode == "m" {
		payload = sent.Bytes()
		spoolH = hdrBytes
	} else {
		var accepted [][]byte
		nOK := 0
		if isFault && fault.direct {
			out.Stat("case.direct." + map[bool]string{false: "smtp", true: "lmtp"}[fault.lmtp])
			spoolH = hdrBytes
			acc, ok, err := env.direct(fault, hdr, c.body)
			if err != nil {
				out.Violation("C08/harness-direct", op, err.Error())
				return nil
			}
			accepted = acc
			if ok {
				nOK = 1
			}
			if (fault.kind == "n") != ok {
				out.Stat("direct.unexpected-result")
			}
			accTag = fmt.Sprintf(" acc=%d sent=%d", len(accepted), nOK)
		} else {
			out.Stat("case.target." + c.tgt)
			var bodyOK []bool
			var err error
			var refused bool
			spoolH, spoolB, accepted, bodyOK, refused, err = env.transport(c, sd, hdr, c.body)
			if err != nil {
				out.Violation("C08/not-delivered", op, err.Error())
				return nil
			}
			if refused {
				out.Stat("chain.store-fault.refused")
				spoolH, spoolB = hdrBytes, c.body
			}
			for _, ok := range bodyOK {
				if ok {
					nOK++
				}
			}
			if !bytes.Equal(spoolB, c.body) {
				out.Violation("C08/spool-body-differs", op, fmt.Sprintf("%d bytes stored for %d", len(spoolB), len(c.body)))
			}
			out.Stat(fmt.Sprintf("chain.attempts-with-data.%d", len(bodyOK)))
			accTag = fmt.Sprintf(" acc=%d", len(accepted))
		}
		out.Stat("chain.spool-header." + c08SizeClass(len(hdrBytes)))
		out.Stat("chain.body." + c08SizeClass(len(c.body)))
		// Everything the next hop acknowledged.  The copy belonging to the attempt maddy counts as
		// successful is the last one; any other acknowledged copy comes from an attempt maddy treats as
		// failed (and repeats): the next hop must not have taken it for a message.
		extra := accepted
		if nOK > 0 && len(accepted) > 0 {
			payload = accepted[len(accepted)-1]
			extra = accepted[:len(accepted)-1]
		}
		for _, a := range extra {
			why := "complete copy"
			if !bytes.Equal(a, sent.Bytes()) {
				pass, detail := env.msgauthVerify(c.algo, a, tags["d"])
				why = fmt.Sprintf("%d of %d octets; go-msgauth: pass=%v %s", len(a), sent.Len(), pass, detail)
			}
			out.Violation("C08/failed-attempt-accepted", op, "the next hop acknowledged (250 after the final dot) a message from an attempt maddy reports as failed: "+why)
		}
		if nOK > 0 && payload == nil {
			out.Violation("C08/not-delivered", op, "maddy reports the message as handed over, the next hop acknowledged nothing")
		}
		if nOK > 1 {
			out.Violation("C08/delivered-twice", op, fmt.Sprintf("%d attempts handed the message over", nOK))
		}
		// the property's first half, stated directly on bytes: what arrives is what was signed
		if payload != nil && !bytes.Equal(payload, sent.Bytes()) {
			out.Violation("C08/payload-differs", op, c08Diff(sent.Bytes(), payload))
		}
	}
	bh, _ := base64.StdEncoding.DecodeString(tags["bh"])
	corrOp := op + " # " + vc08.EncList(signed)
	if payload == nil {
		out.Corr(corrOp, fmt.Sprintf("hdr=%s payload=none%s", vc08.Sha(spoolH), accTag))
		out.Stat("chain.nothing-accepted")
		return nil
	}
	obs := fmt.Sprintf("hdr=%s payload=%d:%s c=%s/%s h=%d bh=%s hh=%s%s", vc08.Sha(spoolH), len(payload), vc08.Sha(payload),
		c.hc, c.bc, len(hkeys), hex.EncodeToString(bh), hex.EncodeToString(sg.digest), accTag)
	out.Corr(corrOp, obs)
	out.StatN("payload.bytes", len(payload))
	c08BodyStats(out, c.body)

	if c.mode == "m" {
		env.sigparse(vh.NewRng(uint64(len(payload))*31+uint64(c.sender)), payload, c.algo)
	}
	return &c08Pending{c: c, op: op, sd: sd, tags: tags, payload: payload,
		tampers: vc08.Tampers(vh.NewRng(uint64(len(payload))*7919+uint64(c.sender)), payload, sg.ovCfg)}
}

// flush: verification at the next hop for the pending cases (one Lean driver process for all of them)
func (env *c08Env) flush() {
	out := env.out
	ps := env.pending
	env.pending, env.pendingBytes = nil, 0
	if len(ps) == 0 {
		return
	}
	var ops []string
	for _, p := range ps {
		ops = append(ops, "C08 vdata "+vc08.Enc(p.payload))
		for _, tp := range p.tampers {
			ops = append(ops, "C08 vdata "+vc08.Enc(tp.Payload))
		}
	}
	answers, derr := vc08.Driver(ops)
	if derr != nil {
		env.t.Fatal("lean driver: ", derr)
	}
	for _, p := range ps {
		c, op, tags, payload, tampers := p.c, p.op, p.tags, p.payload, p.tampers
		ans := answers[:1+len(tampers)]
		answers = answers[1+len(tampers):]
		pub := env.pubs[c.algo][c08Norm(p.sd.selector, p.sd.keyDomain)]

		// (1) go-msgauth with the published key
		pass, detail := env.msgauthVerify(c.algo, payload, tags["d"])
		if !pass {
			out.Violation("C08/verify-fails", op, "go-msgauth: "+detail)
		}
		// (2) maddy's own check.dkim
		if pass2, detail2 := env.maddyCheck(c.algo, payload); !pass2 {
			out.Violation("C08/maddy-check-fails", op, detail2)
		}
		// (3) the Lean model as verifier
		mv := vc08.ModelVerify(ans[0], pub)
		if !mv.OK {
			out.Violation("C08/model-verify-fails", op, mv.Reason)
		} else {
			out.Stat("verify.ok")
		}
		// tampering must be detected by every verifier
		for i, tp := range tampers {
			out.Stat("tamper." + tp.Kind)
			if p, _ := env.msgauthVerify(c.algo, tp.Payload, tags["d"]); p {
				out.Violation("C08/tamper-undetected-"+tp.Kind, op, "go-msgauth accepts: "+tp.Detail)
			}
			if p, _ := env.maddyCheck(c.algo, tp.Payload); p {
				out.Violation("C08/tamper-undetected-"+tp.Kind, op, "check.dkim accepts: "+tp.Detail)
			}
			if tv := vc08.ModelVerify(ans[i+1], pub); tv.OK {
				out.Violation("C08/tamper-undetected-"+tp.Kind, op, "model verifier accepts: "+tp.Detail)
			} else if tv.HdrHash == mv.HdrHash && tv.HdrHash != "" {
				out.Violation("C08/tamper-undetected-"+tp.Kind, op, "digest input unchanged in the model: "+tp.Detail)
			}
		}
		if len(tampers) == 0 {
			out.Stat("tamper.none-possible")
		}
	}
}

// sigparse: one mutation of the signature field; how far does the verifier's tag handling get?
func (env *c08Env) sigparse(r *vh.Rng, payload []byte, algo string) {
	mp, kind := vc08.MutateSig(r, payload)
	if mp == nil {
		return
	}
	vs, err := msgdkim.VerifyWithOptions(bytes.NewReader(mp), &msgdkim.VerifyOptions{LookupTXT: env.lookupTXT(algo)})
	class := "view"
	switch {
	case err != nil && strings.Contains(err.Error(), "failed to read header"):
		class = "no-header-end"
	case err != nil:
		class = "error:" + err.Error()
	case len(vs) == 0:
		class = "no-signature"
	case vs[0].Err != nil:
		e := vs[0].Err.Error()
		switch {
		case strings.Contains(e, "malformed signature tags"):
			class = "bad-params"
		case strings.Contains(e, "incompatible signature version"):
			class = "bad-version"
		case strings.Contains(e, "missing required tag"):
			class = "missing-tag"
		case strings.Contains(e, "canonicalization algorithm"):
			// reached only when everything go-msgauth checks before it passed
			class = "bad-canon"
		}
	}
	env.out.Corr("C08 sigparse "+vh.HexBytes(mp), class)
	env.out.Stat("sigparse." + class)
	env.out.Stat("sigparse.mut." + strings.SplitN(kind, ":", 2)[0])
}

func c08ErrClass(err error) string {
	s := err.Error()
	switch {
	case strings.Contains(s, "From header field must be signed"):
		return "from-not-listed"
	case strings.Contains(s, "missing at-sign"), strings.Contains(s, "address"):
		return "sender-address"
	case strings.Contains(s, "failed to write header field"):
		return "unwritable-field"
	}
	return "other:" + s
}

func c08Diff(a, b []byte) string {
	i := 0
	for i < len(a) && i < len(b) && a[i] == b[i] {
		i++
	}
	lo := i - 10
	if lo < 0 {
		lo = 0
	}
	ha, hb := i+20, i+20
	if ha > len(a) {
		ha = len(a)
	}
	if hb > len(b) {
		hb = len(b)
	}
	return fmt.Sprintf("sent %d bytes, received %d, first difference at %d: sent %q received %q", len(a), len(b), i, a[lo:ha], b[lo:hb])
}

func c08BodyStats(out *vh.Out, body []byte) {
	if len(body) == 0 {
		out.Stat("body.empty")
		return
	}
	if bytes.HasPrefix(body, []byte(".")) || bytes.Contains(body, []byte("\r\n.")) {
		out.Stat("body.leading-dot")
	}
	if bytes.HasSuffix(body, []byte("\r\n\r\n")) {
		out.Stat("body.trailing-empty-lines")
	}
	if bytes.Contains(body, []byte(" \r\n")) || bytes.Contains(body, []byte("\t\r\n")) {
		out.Stat("body.trailing-wsp")
	}
	for _, b := range body {
		if b >= 0x80 {
			out.Stat("body.8bit")
			break
		}
	}
}

func (env *c08Env) msgauthVerify(algo string, payload []byte, wantD string) (bool, string) {
	vs, err := msgdkim.VerifyWithOptions(bytes.NewReader(payload), &msgdkim.VerifyOptions{LookupTXT: env.lookupTXT(algo)})
	if err != nil {
		return false, "error: " + err.Error()
	}
	var why []string
	for _, v := range vs {
		if v.Err == nil && v.Domain == wantD {
			return true, ""
		}
		if v.Err != nil {
			why = append(why, v.Domain+": "+v.Err.Error())
		}
	}
	return false, fmt.Sprintf("%d signatures, none passes for %s: %s", len(vs), wantD, strings.Join(why, "; "))
}

func (env *c08Env) maddyCheck(algo string, payload []byte) (bool, string) {
	chk, err := checkdkim.C08NewCheck(c08Resolver{&mockdns.Resolver{}, env.lookupTXT(algo)})
	if err != nil {
		env.t.Fatal(err)
	}
	br := bufio.NewReader(bytes.NewReader(payload))
	hdr, err := textproto.ReadHeader(br)
	if err != nil {
		return false, "next hop cannot parse the header: " + err.Error()
	}
	var body bytes.Buffer
	body.ReadFrom(br)
	st, err := chk.CheckStateForMsg(context.Background(), &module.MsgMetadata{ID: "c08v"})
	if err != nil {
		env.t.Fatal(err)
	}
	res := st.CheckBody(context.Background(), hdr, buffer.MemoryBuffer{Slice: body.Bytes()})
	var vals []string
	for _, ar := range res.AuthResult {
		if dr, ok := ar.(*authres.DKIMResult); ok {
			if dr.Value == authres.ResultPass {
				return true, ""
			}
			vals = append(vals, string(dr.Value)+"("+dr.Reason+")")
		}
	}
	return false, "check.dkim: " + strings.Join(vals, ",")
}

// ---------------------------------------------------------------- tests

func c08Replay(t *testing.T, prefix string, f func(op string)) bool {
	ops := vh.Replay()
	if ops == nil {
		return false
	}
	for _, op := range ops {
		if strings.HasPrefix(op, prefix) {
			f(op)
		}
	}
	return true
}

// in memory: signer -> verifiers, no queue, no SMTP (many cases, all generators)
func TestVerifC08Sign(t *testing.T) {
	t.Parallel()
	out := vh.Open("c08_sign")
	defer out.Close()
	env := c08NewEnv(t, out, false)
	defer env.flush()
	if c08Replay(t, "C08 chain m ", func(op string) {
		c, err := c08ParseCase(op)
		if err != nil {
			t.Fatal(err)
		}
		env.run(c)
	}) {
		return
	}
	r := vh.NewRng(vh.Seed() + 801)
	n := vh.N(600)
	for i := 0; i < n; i++ {
		env.run(c08GenCase(r, "m"))
	}
	env.flush()
	for k, v := range env.queried {
		out.StatN("txt-query."+k, v)
	}
}

// ---- scheduled cases: sizes around plausible limits, faults while the message is being written

// c08Delta: an offset from a limit (at it, one off, a little or well beyond)
func c08Delta(r *vh.Rng) int {
	switch r.Intn(7) {
	case 0:
		return -1
	case 1:
		return 0
	case 2, 3:
		return 1
	case 4:
		return 2 + r.Intn(100)
	default:
		return 100 + r.Intn(5000)
	}
}

// padHeader adds fields no configuration signs so that the signed header, as written to the spool,
// is exactly target octets long (the size of the signature field is learnt from a trial signing).
func (env *c08Env) padHeader(r *vh.Rng, c *c08Case, target, shape int) bool {
	sg := env.sign(c, "", true)
	if sg == nil || sg.maxLine > 2000 {
		return false
	}
	var w bytes.Buffer
	textproto.WriteHeader(&w, sg.hdr)
	need := target - w.Len()
	if need < 40 {
		return false
	}
	pads := vc08.Pad(r, need, shape)
	pos := []int{0, len(c.fields), r.Intn(len(c.fields) + 1)}[r.Intn(3)]
	c.fields = append(c.fields[:pos:pos], append(pads, c.fields[pos:]...)...)
	return true
}

type c08Spec struct {
	mode      string // "" = keep, "fault" = a queue fault mode chosen from the body
	tgt       string // "" = keep, "smtp" = the smtp target (either server), "r" = the remote target
	hdr, body int    // target sizes (0 = leave alone)
	shape     int
	// for "fault": 0 = at 0, 1 = in the middle, 2 = at the very end (error instead of EOF), 3 = open fails,
	// 4 = near a 4096 boundary; 5, 6 = while the queue stores the message (anywhere / beyond io.Copy's 32 KiB buffer)
	faultAt int
}

func c08Schedule(r *vh.Rng) []c08Spec {
	small := []int{4096, 8192, 16384, 32768}
	retry := func() string { return r.Pick("r", "R") }
	any := func() string { return r.Pick("d", "r", "R") }
	var sp []c08Spec
	rounds := 1
	if vh.Thorough() {
		rounds = 4
	}
	for k := 0; k < rounds; k++ {
		sp = append(sp,
			// beyond 1 MiB (the default max_header_size of the SMTP endpoint applies to the header as received;
			// maddy then prepends fields of its own), delivered by an attempt that re-reads the spool
			c08Spec{mode: "r", hdr: 1<<20 + []int{1, 300 + r.Intn(700), 70000}[r.Intn(3)], shape: 0},
			c08Spec{mode: "R", hdr: 1<<20 + c08Delta(r), shape: r.Intn(2)},
			c08Spec{mode: retry(), hdr: 65536 + c08Delta(r), shape: r.Intn(3)},
			c08Spec{mode: retry(), hdr: 65536 + 1 + r.Intn(3000), shape: r.Intn(3)},
			c08Spec{mode: any(), hdr: small[r.Intn(4)] + c08Delta(r), shape: r.Intn(3)},
			c08Spec{mode: any(), hdr: small[r.Intn(4)] + c08Delta(r), shape: r.Intn(3)},
			c08Spec{mode: retry(), hdr: 4096*(1+r.Intn(12)) + c08Delta(r), shape: r.Intn(3)},
			c08Spec{mode: retry(), body: 1<<20 + []int{1, 2 + r.Intn(3000), 70000}[r.Intn(3)]},
			c08Spec{mode: any(), body: 65536 + 1 + r.Intn(3000)},
			c08Spec{mode: any(), body: 65536 + c08Delta(r)},
			c08Spec{mode: retry(), body: small[r.Intn(4)] + c08Delta(r)},
		)
		// every kind of fault through the smtp target and through the remote target
		for _, tgt := range []string{"smtp", "r"} {
			sp = append(sp,
				c08Spec{mode: "fault", tgt: tgt, faultAt: 0},
				c08Spec{mode: "fault", tgt: tgt, faultAt: 1},
				c08Spec{mode: "fault", tgt: tgt, faultAt: 2},
				c08Spec{mode: "fault", tgt: tgt, faultAt: 3},
				c08Spec{mode: "fault", tgt: tgt, faultAt: 4, body: 9000 + r.Intn(60000)},
			)
		}
		sp = append(sp,
			c08Spec{mode: "fault", faultAt: 5},
			c08Spec{mode: "fault", faultAt: 6, body: 40000 + r.Intn(60000)},
		)
		if vh.Thorough() && k == 0 {
			sp = append(sp, c08Spec{mode: "R", hdr: 2<<20 + c08Delta(r), shape: 0}, c08Spec{mode: "r", body: 2<<20 + c08Delta(r)},
				c08Spec{mode: "d", body: 1<<20 + c08Delta(r)})
		}
	}
	return sp
}

// c08GenSpec: a generated case bent to a scheduled shape (a few tries: the base case must be signable)
func (env *c08Env) genSpec(r *vh.Rng, sp c08Spec) *c08Case {
	for try := 0; try < 30; try++ {
		c := c08GenCase(r, "d")
		if sp.mode != "" && sp.mode != "fault" {
			c.mode = sp.mode
		}
		if sp.body > 0 {
			c.body = vc08.PadBody(r, sp.body)
		}
		switch sp.tgt {
		case "smtp":
			if c.tgt == "r" {
				c.tgt = "u"
			}
		case "r":
			c.tgt = "r"
		}
		if sp.mode == "fault" {
			k := 0
			switch sp.faultAt {
			case 1:
				k = r.Intn(len(c.body) + 1)
			case 2:
				k = len(c.body)
			case 4:
				k = 4096*(1+r.Intn(len(c.body)/4096+1)) - r.Intn(3)
				if k > len(c.body) {
					k = len(c.body)
				}
			}
			f := c08Fault{kind: "b", k: k}
			switch sp.faultAt {
			case 3:
				f.kind = "o"
			case 5:
				f.kind, f.k = "s", r.Intn(len(c.body)+1)
			case 6:
				f.kind, f.k = "s", 32768+r.Intn(len(c.body)-32768+1)
			}
			c.mode = f.mode()
		}
		if sp.hdr > 0 {
			if !env.padHeader(r, c, sp.hdr, sp.shape) {
				continue
			}
		} else if sg := env.sign(c, "", true); sg == nil || sg.maxLine > 2000 {
			continue
		}
		return c
	}
	return nil
}

// the full chain
func TestVerifC08Chain(t *testing.T) {
	t.Parallel()
	out := vh.Open("c08_chain")
	defer out.Close()
	env := c08NewEnv(t, out, true)
	defer env.flush()
	if c08Replay(t, "C08 chain ", func(op string) {
		if strings.HasPrefix(op, "C08 chain m ") || strings.HasPrefix(op, "C08 chain x") {
			return
		}
		c, err := c08ParseCase(op)
		if err != nil {
			t.Fatal(err)
		}
		env.run(c)
	}) {
		return
	}
	r := vh.NewRng(vh.Seed() + 802)
	for _, sp := range c08Schedule(r) {
		if c := env.genSpec(r, sp); c != nil {
			out.Stat("chain.scheduled")
			env.run(c)
		} else {
			out.Stat("chain.scheduled-not-generated")
		}
	}
	n := vh.N(600) / 3
	for i := 0; i < n; i++ {
		c := c08GenCase(r, r.Pick("d", "r", "r", "R", "R"))
		if r.Chance(6) {
			// a moderately padded header at no particular size
			env.padHeader(r, c, 3000+r.Intn(120000), r.Intn(3))
		}
		env.run(c)
	}
	env.flush()
}

// faults while the message is being written, directly on internal/smtpconn (SMTP and LMTP) against a
// hand-written next hop that records the octets of every DATA phase: what it acknowledged must be the
// complete signed message; an attempt smtpconn reports as failed must not have been acknowledged.
func TestVerifC08Fault(t *testing.T) {
	t.Parallel()
	out := vh.Open("c08_fault")
	defer out.Close()
	env := c08NewEnv(t, out, false)
	defer env.flush()
	for _, lmtp := range []bool{false, true} {
		raw, port, err := vc08.StartRaw(lmtp)
		if err != nil {
			t.Fatal(err)
		}
		defer raw.Close()
		env.raw[lmtp], env.rawPort[lmtp] = raw, port
	}
	if c08Replay(t, "C08 chain x", func(op string) {
		c, err := c08ParseCase(op)
		if err != nil {
			t.Fatal(err)
		}
		env.run(c)
	}) {
		return
	}
	r := vh.NewRng(vh.Seed() + 805)
	n := vh.N(600) / 4
	for i := 0; i < n; i++ {
		c := c08GenCase(r, "d")
		if r.Chance(30) {
			c.body = append(c.body, vc08.PadBody(r, 3000+r.Intn(80000))...)
		}
		if r.Chance(10) {
			env.padHeader(r, c, 4000+r.Intn(30000), r.Intn(3))
		}
		f := c08Fault{direct: true, lmtp: r.Chance(35)}
		f.kind = r.Pick("n", "b", "b", "b", "e", "e", "w")
		f.chunk = []int{0, 0, 0, 1, 7, 512, 4096, 5000}[r.Intn(8)]
		if f.chunk == 1 && len(c.body) > 20000 {
			f.chunk = 13
		}
		total := len(vc08.Join(c.fields, c.body)) // a lower bound of what goes over the wire
		switch f.kind {
		case "b", "e":
			switch r.Intn(8) {
			case 0:
				f.k = 0
			case 1:
				f.k = len(c.body)
			case 2:
				f.k = len(c.body) - 1
			case 3:
				f.k = 1
			case 4:
				f.k = 4096*(1+r.Intn(len(c.body)/4096+1)) - r.Intn(3)
			case 5:
				f.k = 32768 * (1 + r.Intn(len(c.body)/32768+1))
			default:
				f.k = r.Intn(len(c.body) + 1)
			}
			if f.k > len(c.body) {
				f.k = len(c.body)
			}
			if f.k < 0 {
				f.k = 0
			}
		case "w":
			switch r.Intn(4) {
			case 0:
				f.k = r.Intn(200) // inside the header
			case 1:
				f.k = 4096 * r.Intn(total/4096+1)
			default:
				f.k = r.Intn(total)
			}
			if f.k >= total {
				f.k = total - 1
			}
		}
		c.mode = f.mode()
		env.run(c)
	}
	env.flush()
}

// fieldsToSign alone: configuration lists x headers
func TestVerifC08Fts(t *testing.T) {
	t.Parallel()
	out := vh.Open("c08_fts")
	defer out.Close()
	run := func(ov, sg []string, fields [][]byte) {
		op := "C08 fts " + c08HexList(ov) + " | " + c08HexList(sg) + " | " + vc08.HexList(fields)
		hdr, err := textproto.ReadHeader(bufio.NewReader(bytes.NewReader(vc08.Join(fields, nil))))
		if err != nil || hdr.Len() != len(fields) {
			out.Stat("fts.gen-refused")
			return
		}
		mod := moddkim.C08NewBare()
		moddkim.C08SetLists(mod, ov, sg)
		got := moddkim.C08FieldsToSign(mod, &hdr)
		var hx []string
		for _, k := range got {
			hx = append(hx, vh.HexBytes([]byte(k)))
		}
		obs := "none"
		if len(hx) > 0 {
			obs = strings.Join(hx, " ")
		}
		out.Corr(op, obs)
		// the property on the real result: every occurrence of a listed name has a slot, over-signed
		// names one more, nothing else, no name listed under two spellings
		occ := map[string]int{}
		for _, f := range fields {
			occ[vc08.Name(f)]++
		}
		want := map[string]int{}
		seen := map[string]bool{}
		for _, k := range ov {
			if l := strings.ToLower(k); !seen[l] {
				seen[l] = true
				want[l] = occ[l] + 1
			}
		}
		for _, k := range sg {
			if l := strings.ToLower(k); !seen[l] {
				seen[l] = true
				want[l] = occ[l]
			}
		}
		have := map[string]int{}
		for _, k := range got {
			have[strings.ToLower(k)]++
		}
		for k, w := range want {
			if have[k] != w {
				kind := "token"
				if !c08IsToken(k) {
					kind = "non-token"
				}
				out.Violation("C08/fields-to-sign-count-"+kind, op, fmt.Sprintf("%q: %d slots for %d occurrences (want %d)", k, have[k], occ[k], w))
			}
		}
		for k := range have {
			if _, ok := want[k]; !ok {
				out.Violation("C08/fields-to-sign-extra", op, k)
			}
		}
		out.Stat(fmt.Sprintf("fts.len.%02d", len(got)/8*8))
	}
	if c08Replay(t, "C08 fts ", func(op string) {
		g := strings.Split(strings.TrimPrefix(op, "C08 fts"), "|")
		if len(g) != 3 {
			t.Fatal("bad fts op")
		}
		var fields [][]byte
		for _, f := range strings.Fields(g[2]) {
			fields = append(fields, vh.UnhexBytes(f))
		}
		run(c08UnhexList(g[0]), c08UnhexList(g[1]), fields)
	}) {
		return
	}
	r := vh.NewRng(vh.Seed() + 803)
	n := vh.N(600) * 4
	for i := 0; i < n; i++ {
		ov, sg := c08GenLists(r)
		if r.Chance(20) {
			ov, sg = nil, nil
			ov = append(ov, "Subject", "Sender", "To", "Cc", "From", "Date", "MIME-Version", "Content-Type", "Content-Transfer-Encoding", "Reply-To", "In-Reply-To", "Message-Id", "References", "Autocrypt", "Openpgp")
			sg = append(sg, "List-Id", "List-Help", "List-Unsubscribe", "List-Post", "List-Owner", "List-Archive", "Resent-To", "Resent-Sender", "Resent-Message-Id", "Resent-Date", "Resent-From", "Resent-Cc")
		}
		run(ov, sg, vc08.Header(r, false))
	}
}

// RFC 7230 token (what net/textproto canonicalises)
func c08IsToken(k string) bool {
	for i := 0; i < len(k); i++ {
		c := k[i]
		if !(c >= '0' && c <= '9' || c >= 'a' && c <= 'z' || c >= 'A' && c <= 'Z' || strings.IndexByte("!#$%&'*+-.^_`|~", c) >= 0) {
			return false
		}
	}
	return k != ""
}

func c08HexList(l []string) string {
	var p []string
	for _, s := range l {
		p = append(p, vh.HexBytes([]byte(s)))
	}
	return strings.Join(p, " ")
}

func c08UnhexList(s string) []string {
	var out []string
	for _, p := range strings.Fields(s) {
		out = append(out, string(vh.UnhexBytes(p)))
	}
	return out
}

// library byte behaviour: go-message ReadHeader and the DATA dot encoding, also on input that is not conformant
func TestVerifC08Wire(t *testing.T) {
	t.Parallel()
	out := vh.Open("c08_wire")
	defer out.Close()
	port := vsmtp.FreePort()
	srv, err := vsmtp.Start("127.0.0.1:"+port, true, false)
	if err != nil {
		t.Fatal(err)
	}
	defer srv.Close()
	gmread := func(in []byte) {
		op := "C08 gmread " + vh.HexBytes(in)
		br := bufio.NewReader(bytes.NewReader(in))
		h, err := textproto.ReadHeader(br)
		if err != nil {
			kind := "other"
			switch {
			case strings.Contains(err.Error(), "initial line"):
				kind = "initial-space"
			case strings.Contains(err.Error(), "malformed MIME header line"):
				kind = "no-colon"
			case strings.Contains(err.Error(), "malformed MIME header key"):
				kind = "bad-key"
			}
			out.Corr(op, "err "+kind)
			out.Stat("gmread.err." + kind)
			return
		}
		var rest bytes.Buffer
		rest.ReadFrom(br)
		fs, _ := c08RawFields(h)
		var keys [][]byte
		for f := h.Fields(); f.Next(); {
			keys = append(keys, []byte(f.Key()))
		}
		out.Corr(op, fmt.Sprintf("ok n=%d f=%s k=%s rest=%d:%s", len(fs), vc08.Sha(c08Frame(fs)), vc08.Sha(c08Frame(keys)), rest.Len(), vc08.Sha(rest.Bytes())))
		out.Stat("gmread.ok")
		// round trip (monitor): writing the parsed header and reading it again gives the same fields
		var w bytes.Buffer
		textproto.WriteHeader(&w, h)
		h2, err := textproto.ReadHeader(bufio.NewReader(bytes.NewReader(w.Bytes())))
		fs2, _ := c08RawFields(h2)
		if err != nil || !bytes.Equal(c08Frame(fs), c08Frame(fs2)) {
			out.Violation("C08/header-roundtrip", op, "WriteHeader then ReadHeader changes the header")
		}
	}
	dot := func(in []byte) {
		op := "C08 dot " + vh.HexBytes(in)
		var wire bytes.Buffer
		bw := bufio.NewWriter(&wire)
		dw := nettextproto.NewWriter(bw).DotWriter()
		dw.Write(in)
		dw.Close()
		bw.Flush()
		recv := "none"
		got, err := c08RawData(port, srv, wire.Bytes())
		if err == nil {
			recv = fmt.Sprintf("%d:%s", len(got), vc08.Sha(got))
		}
		out.Corr(op, fmt.Sprintf("wire=%d:%s recv=%s", wire.Len(), vc08.Sha(wire.Bytes()), recv))
		if err != nil {
			out.Stat("dot.recv-none")
		} else if bytes.Equal(got, in) {
			out.Stat("dot.identity")
		} else {
			out.Stat("dot.changed")
		}
	}
	// the next hop's reader alone, on octets no dot writer produces (always terminated, so the server answers)
	undot := func(wire []byte) {
		op := "C08 undot " + vh.HexBytes(wire)
		got, err := c08RawData(port, srv, wire)
		if err != nil {
			out.Corr(op, "none")
			out.Stat("undot.none")
			return
		}
		out.Corr(op, fmt.Sprintf("%d:%s", len(got), vc08.Sha(got)))
		out.Stat("undot.ok")
	}
	if c08Replay(t, "C08 gmread ", func(op string) { gmread(vh.UnhexBytes(strings.Fields(op)[2])) }) {
		c08Replay(t, "C08 dot ", func(op string) { dot(vh.UnhexBytes(strings.Fields(op)[2])) })
		c08Replay(t, "C08 undot ", func(op string) { undot(vh.UnhexBytes(strings.Fields(op)[2])) })
		return
	}
	for _, s := range []string{"", ".", "\r", "\n", ".\r\n", "a\r\r\n", "\r\n.\r\n", "..", ".\rX\r\n", "a\n.b\n", "x\r", "\r\r\r\n.", ": v\r\n\r\n", " a: b\r\n\r\n"} {
		dot([]byte(s))
		gmread([]byte(s))
		if strings.HasSuffix(s, "\r") {
			s += "x" // CR CR LF is not a line end for the reader: the end marker would be missed (no answer)
		}
		undot([]byte(s + "\r\n.\r\n"))
	}
	r := vh.NewRng(vh.Seed() + 804)
	n := vh.N(600)
	for i := 0; i < n; i++ {
		eight := r.Bool()
		msg := vc08.Join(vc08.Header(r, eight), vc08.Body(r, eight))
		if r.Chance(50) {
			msg = vc08.Wild(r, msg)
			out.Stat("wire.wild")
		} else {
			out.Stat("wire.conformant")
		}
		gmread(msg)
		if bytes.Contains(msg, []byte("\n:")) || bytes.HasPrefix(msg, []byte(":")) {
			out.Stat("gmread.input-with-empty-name")
		}
		if i%3 == 0 {
			dot(msg)
		}
		if i%3 == 1 {
			// a wire nobody stuffed: lines starting with dots, ".\r" not followed by LF, bare CR / LF
			w := append([]byte{}, msg...)
			for k := 0; k < 1+r.Intn(4) && len(w) > 0; k++ {
				j := r.Intn(len(w))
				ins := r.Pick(".", "\r\n.", "\r\n.\rX", "\r\n..", "\r", "\r\r\n.", "\n.")
				w = append(w[:j:j], append([]byte(ins), w[j:]...)...)
			}
			// never contains the end marker before the end: break every CRLF "." CRLF
			w = bytes.ReplaceAll(w, []byte("\r\n.\r\n"), []byte("\r\n.x\r\n"))
			if bytes.HasPrefix(w, []byte(".\r\n")) {
				w = append([]byte("x"), w...)
			}
			if bytes.HasSuffix(w, []byte("\r")) {
				w = append(w, 'x')
			}
			undot(append(w, []byte("\r\n.\r\n")...))
		}
	}
}

func c08Frame(l [][]byte) []byte {
	var b bytes.Buffer
	for _, f := range l {
		fmt.Fprintf(&b, "%d:", len(f))
		b.Write(f)
	}
	return b.Bytes()
}

// c08RawData plays a minimal SMTP client and writes the given octets after DATA unchanged.
func c08RawData(port string, srv *vsmtp.Server, wire []byte) ([]byte, error) {
	srv.Script.Set(func(s *vsmtp.Script) { s.Txs = nil })
	conn, err := net.Dial("tcp", "127.0.0.1:"+port)
	if err != nil {
		return nil, err
	}
	defer conn.Close()
	conn.SetDeadline(time.Now().Add(3 * time.Second))
	tp := nettextproto.NewConn(conn)
	if _, _, err := tp.ReadResponse(220); err != nil {
		return nil, err
	}
	for _, cmd := range []struct {
		line string
		code int
	}{{"EHLO c08.example", 250}, {"MAIL FROM:<a@c08.example>", 250}, {"RCPT TO:<b@c08.example>", 250}, {"DATA", 354}} {
		if err := tp.PrintfLine("%s", cmd.line); err != nil {
			return nil, err
		}
		if _, _, err := tp.ReadResponse(cmd.code); err != nil {
			return nil, err
		}
	}
	if _, err := conn.Write(wire); err != nil {
		return nil, err
	}
	if _, _, err := tp.ReadResponse(250); err != nil {
		return nil, err
	}
	var got []byte
	ok := false
	srv.Script.Set(func(s *vsmtp.Script) {
		for _, tx := range s.Txs {
			if tx.Done {
				got, ok = tx.Data, true
			}
		}
	})
	if !ok {
		return nil, errors.New("no transaction recorded")
	}
	return got, nil
}

// ---------------------------------------------------------------- the key store: restarts, published keys

// "… verifies against the PUBLISHED key": the record maddy writes when it first generates the key of a
// (domain, selector) is what the administrator puts into DNS; every later instance started on the same
// directory — same configuration, any newkey_algo — has to sign with that very key.
//
// A case is a history of Init()s of modify.dkim on one, initially empty, key directory:
//
//	I<a><i>.<j>…  an instance configured with the key_path template and the domains of these indices
//	L<a><i>       an instance for domain i alone whose key_path is that domain's key path WRITTEN OUT the
//	              way the documentation defines the placeholders (domain and selector as written in the
//	              configuration): the key an existing installation has
//
//	X<a><i>       (round 6) a private key of type a is put where domain i's key belongs (documented name) by the
//	              administrator - copied from another server, made with openssl -: NO record file comes with it
//	D<i>          (round 6) the record file next to domain i's key (documented name) is deleted
//
// a = r (newkey_algo rsa2048 / an RSA key) | e (ed25519).
type c08KeyStep struct {
	lit  bool
	kind byte   // 0 (= 'I' or 'L' according to lit) | 'X' | 'D'
	algo string // rsa2048 | ed25519
	idx  []int
}

type c08KeyCase struct {
	tmpl, sel string
	doms      []string
	steps     []c08KeyStep
}

func (k *c08KeyCase) op() string {
	var ds, st []string
	for _, d := range k.doms {
		nd, _ := dns.ForLookup(d)
		ds = append(ds, vh.HexBytes([]byte(d))+"="+vh.HexBytes([]byte(nd)))
	}
	for _, s := range k.steps {
		var ix []string
		for _, i := range s.idx {
			ix = append(ix, strconv.Itoa(i))
		}
		t := "I"
		if s.lit {
			t = "L"
		}
		switch s.kind {
		case 'X':
			t = "X"
		case 'D':
			st = append(st, "D"+strings.Join(ix, "."))
			continue
		}
		st = append(st, t+s.algo[:1]+strings.Join(ix, "."))
	}
	return fmt.Sprintf("C08 keys %s %s | %s | %s", vh.HexBytes([]byte(k.tmpl)), vh.HexBytes([]byte(k.sel)), strings.Join(ds, " "), strings.Join(st, " "))
}

func c08ParseKeyCase(op string) (*c08KeyCase, error) {
	g := strings.Split(op, " | ")
	if len(g) != 3 {
		return nil, errors.New("bad keys op")
	}
	h := strings.Fields(g[0])
	if len(h) != 4 || h[0] != "C08" || h[1] != "keys" {
		return nil, errors.New("bad keys op head")
	}
	k := &c08KeyCase{tmpl: string(vh.UnhexBytes(h[2])), sel: string(vh.UnhexBytes(h[3]))}
	for _, d := range strings.Fields(g[1]) {
		k.doms = append(k.doms, string(vh.UnhexBytes(strings.SplitN(d, "=", 2)[0])))
	}
	for _, s := range strings.Fields(g[2]) {
		if len(s) >= 2 && s[0] == 'D' {
			n, err := strconv.Atoi(s[1:])
			if err != nil || n < 0 || n >= len(k.doms) {
				return nil, errors.New("bad keys step " + s)
			}
			k.steps = append(k.steps, c08KeyStep{kind: 'D', algo: "ed25519", idx: []int{n}})
			continue
		}
		if len(s) < 3 || !strings.Contains("LIX", s[:1]) || !strings.Contains("re", s[1:2]) {
			return nil, errors.New("bad keys step " + s)
		}
		st := c08KeyStep{lit: s[0] == 'L', algo: map[byte]string{'r': "rsa2048", 'e': "ed25519"}[s[1]]}
		if s[0] == 'X' {
			st.kind = 'X'
		}
		for _, i := range strings.Split(s[2:], ".") {
			n, err := strconv.Atoi(i)
			if err != nil || n < 0 || n >= len(k.doms) {
				return nil, errors.New("bad keys step " + s)
			}
			st.idx = append(st.idx, n)
		}
		if (st.lit || st.kind == 'X') && len(st.idx) != 1 {
			return nil, errors.New("bad keys step " + s)
		}
		k.steps = append(k.steps, st)
	}
	return k, nil
}

func c08GenKeyCase(r *vh.Rng) *c08KeyCase {
	k := &c08KeyCase{tmpl: vc08.KeyTemplates[r.Intn(len(vc08.KeyTemplates))], sel: vc08.KeySelectors[r.Intn(len(vc08.KeySelectors))]}
	// 1..3 domains, one spelling each, never two spellings of one domain; IDN more often than not
	n := 1 + r.Intn(3)
	used := map[int]bool{}
	for len(k.doms) < n {
		g := r.Intn(len(vc08.KeyDomains))
		if used[g] || (g < 2 && r.Chance(50)) {
			continue
		}
		used[g] = true
		sp := vc08.KeyDomains[g]
		j := r.Intn(len(sp))
		if j > 1 && r.Chance(50) {
			j = r.Intn(2) // the plain U-label / A-label spellings more often than the odd ones
		}
		k.doms = append(k.doms, sp[j])
	}
	// RSA keys are expensive to generate: at most one step of a case asks for them
	rsaLeft := 0
	if r.Chance(35) {
		rsaLeft = 1
	}
	algo := func() string {
		if rsaLeft > 0 && r.Chance(50) {
			rsaLeft--
			return "rsa2048"
		}
		return "ed25519"
	}
	all := func() []int {
		ix := make([]int, n)
		for i := range ix {
			ix[i] = i
		}
		for i := n - 1; i > 0; i-- { // the order of the directive is free
			if r.Chance(30) {
				j := r.Intn(i + 1)
				ix[i], ix[j] = ix[j], ix[i]
			}
		}
		return ix
	}
	other := func(a string) string { return map[string]string{"rsa2048": "ed25519", "ed25519": "rsa2048"}[a] }
	pat := r.Intn(8)
	switch pat {
	case 5, 6:
		// (round 6) keys put there by the administrator, without record files, of either type (an imported RSA key costs
		// nothing: it is one of the keys of the run); newkey_algo of the start differs from the key type more often than not
		ka := make([]string, n)
		for i := 0; i < n; i++ {
			ka[i] = r.Pick("rsa2048", "ed25519")
			if n == 1 || !r.Chance(20) {
				k.steps = append(k.steps, c08KeyStep{kind: 'X', algo: ka[i], idx: []int{i}})
			}
		}
		a := other(ka[r.Intn(n)])
		if r.Chance(25) || (a == "rsa2048" && rsaLeft == 0 && len(k.steps) < n) {
			a = "ed25519"
		}
		k.steps = append(k.steps, c08KeyStep{algo: a, idx: all()})
	case 7:
		// (round 6) an installation whose record files were deleted (some or all), restarted under the other newkey_algo
		a := algo()
		if r.Chance(50) {
			k.steps = append(k.steps, c08KeyStep{algo: a, idx: all()})
		} else {
			for i := 0; i < n; i++ {
				k.steps = append(k.steps, c08KeyStep{lit: true, algo: a, idx: []int{i}})
				a = "ed25519"
			}
		}
		del := 0
		for i := 0; i < n; i++ {
			if r.Chance(70) || (i == n-1 && del == 0) {
				k.steps = append(k.steps, c08KeyStep{kind: 'D', algo: "ed25519", idx: []int{i}})
				del++
			}
		}
		// nothing is generated by this start (every domain has its key): rsa2048 costs nothing
		k.steps = append(k.steps, c08KeyStep{algo: r.Pick("rsa2048", "ed25519"), idx: all()})
	case 0, 1:
		// an existing installation (keys under their documented names), then the server is started
		for i := 0; i < n; i++ {
			if n == 1 || !r.Chance(25) {
				k.steps = append(k.steps, c08KeyStep{lit: true, algo: algo(), idx: []int{i}})
			}
		}
		k.steps = append(k.steps, c08KeyStep{algo: algo(), idx: all()})
	case 2, 3:
		// first start generates everything, then restarts
		k.steps = append(k.steps, c08KeyStep{algo: algo(), idx: all()})
	default:
		// domains are added one by one
		for i := 0; i < n; i++ {
			ix := all()[:0]
			for j := 0; j <= i; j++ {
				ix = append(ix, j)
			}
			k.steps = append(k.steps, c08KeyStep{algo: algo(), idx: ix})
		}
	}
	for i := 0; i < 1+r.Intn(2); i++ {
		a := algo()
		if r.Chance(40) && a == "ed25519" {
			a = "rsa2048" // newkey_algo changed in the configuration; nothing is generated, so it costs nothing
		}
		k.steps = append(k.steps, c08KeyStep{algo: a, idx: all()})
	}
	return k
}

// c08PubID: a map key for a public key (*rsa.PublicKey prints as &{N E}, ed25519.PublicKey as its octets)
func c08PubID(p crypto.PublicKey) string { return fmt.Sprintf("%T:%v", p, p) }

// c08KeyMessage: a small message for the given sender, fields in generated spelling / folding
func c08KeyMessage(r *vh.Rng, eight bool) ([][]byte, []byte) {
	names := []string{"From", "To", "Subject", "Date", "Message-Id"}
	for i := 0; i < r.Intn(4); i++ {
		names = append(names, r.Pick("Received", "Cc", "X-Mailer", "List-Id", "Reply-To", "MIME-Version"))
	}
	for i := len(names) - 1; i > 0; i-- {
		j := r.Intn(i + 1)
		names[i], names[j] = names[j], names[i]
	}
	var fs [][]byte
	for _, n := range names {
		fs = append(fs, vc08.Field(r, n, eight))
	}
	return fs, vc08.Body(r, eight)
}

func (env *c08Env) runKeys(k *c08KeyCase) {
	out := env.out
	op := k.op()
	dir, err := os.MkdirTemp("", "verif-c08-kd-")
	if err != nil {
		env.t.Fatal(err)
	}
	defer os.RemoveAll(dir)
	var seed uint64 = 1469598103934665603
	for i := 0; i < len(op); i++ {
		seed = (seed ^ uint64(op[i])) * 1099511628211
	}
	r := vh.NewRng(seed)

	out.Stat("keys.template." + strings.ReplaceAll(k.tmpl, " ", "_"))
	out.Stat(fmt.Sprintf("keys.domains.%d", len(k.doms)))
	out.Stat(fmt.Sprintf("keys.steps.%d", len(k.steps)))
	if isASCII(k.sel) {
		out.Stat("keys.selector.ascii")
	} else {
		out.Stat("keys.selector.u-label")
	}

	norm := make([]string, len(k.doms))
	for i, d := range k.doms {
		norm[i], _ = dns.ForLookup(d)
	}
	firstPub := map[string]crypto.PublicKey{} // normalised domain -> the key the first instance configured with it signed with
	firstRec := map[string]string{}           // c08Norm(selector, domain) -> the record published for that key
	createdIn := map[string]string{}          // public key -> file it was first seen in as a private key
	adminRec := map[string]string{}           // public key of an imported key -> the record its owner derives from it
	importedAt := map[string]bool{}           // documented key paths at which a key was imported
	before, _ := vc08.ScanKeyDir(dir)
	var obs []string

	for si, st := range k.steps {
		var doms []string
		for _, i := range st.idx {
			doms = append(doms, k.doms[i])
		}
		if st.kind == 'X' || st.kind == 'D' {
			// the administrator's doing, not maddy's: the documented names (the monitor's own expansion)
			keyRel := vc08.ExpandKeyPath(k.tmpl, doms[0], k.sel)
			switch st.kind {
			case 'X':
				out.Stat("keys.step.import." + st.algo)
				full := filepath.Join(dir, filepath.FromSlash(keyRel))
				if _, err := os.Lstat(full); err == nil {
					obs = append(obs, "imp=-")
					out.Stat("keys.step.import.exists")
					break
				}
				pemBytes, pub, form, err := env.importedKey(r, st.algo, st.idx[0]+int(seed%1000))
				if err != nil {
					env.t.Fatal(err)
				}
				out.Stat("keys.step.import.form." + form)
				if err := os.MkdirAll(filepath.Dir(full), 0o777); err != nil {
					env.t.Fatal(err)
				}
				if err := os.WriteFile(full, pemBytes, 0o600); err != nil {
					env.t.Fatal(err)
				}
				createdIn[c08PubID(pub)] = keyRel
				adminRec[c08PubID(pub)] = vc08.FormatRecord(pub)
				importedAt[keyRel] = true
				obs = append(obs, "imp="+vh.HexBytes([]byte(keyRel)))
			case 'D':
				recRel := vc08.RecordPath(keyRel)
				if f, ok := before[recRel]; ok && (f.Kind == "r" || bytes.HasPrefix(f.Content, []byte("v=DKIM1"))) {
					if err := os.Remove(filepath.Join(dir, filepath.FromSlash(recRel))); err != nil {
						env.t.Fatal(err)
					}
					obs = append(obs, "del="+vh.HexBytes([]byte(recRel)))
					out.Stat("keys.step.record-deleted")
				} else {
					obs = append(obs, "del=-")
					out.Stat("keys.step.record-deleted.none")
				}
			}
			var err error
			if before, err = vc08.ScanKeyDir(dir); err != nil {
				env.t.Fatal(err)
			}
			continue
		}
		tmpl := k.tmpl
		kind := "template"
		if st.lit {
			tmpl, kind = vc08.ExpandKeyPath(k.tmpl, doms[0], k.sel), "written-out"
		}
		out.Stat("keys.step." + kind + "." + st.algo)
		mod, ierr := c08ModifierAt(filepath.Join(dir, filepath.FromSlash(tmpl)), st.algo, c08Sender{domains: doms, selector: k.sel}, r.Pick("relaxed", "simple"), r.Pick("relaxed", "simple"), true, nil, nil)
		after, err := vc08.ScanKeyDir(dir)
		if err != nil {
			env.t.Fatal(err)
		}
		var created, changed []string
		newKeys := 0
		for rel, f := range after {
			old, ok := before[rel]
			switch {
			case !ok:
				created = append(created, f.Kind+":"+vh.HexBytes([]byte(rel)))
				if f.Kind == "k" {
					newKeys++
					if _, seen := createdIn[c08PubID(f.Pub)]; !seen {
						createdIn[c08PubID(f.Pub)] = rel
					}
				}
			case !bytes.Equal(old.Content, f.Content):
				changed = append(changed, rel)
			}
		}
		for rel := range before {
			if _, ok := after[rel]; !ok {
				changed = append(changed, rel+" (removed)")
			}
		}
		vcSort(created)
		vcSort(changed)
		where := fmt.Sprintf("step %d (%s, newkey_algo %s, domains %q, selector %q, key_path %q)", si+1, kind, st.algo, doms, k.sel, tmpl)
		if ierr != nil {
			// a server that does not come up signs nothing; the unchanged code never fails here
			out.Violation("C08/key-init-fails", op, where+": "+ierr.Error())
			obs = append(obs, "err:"+c08InitErrClass(ierr)+" new="+c08JoinOr(created, "-"))
			break
		}
		if len(changed) > 0 {
			out.Violation("C08/key-file-modified", op, where+": files of the key directory rewritten by Init: "+strings.Join(changed, ", "))
		}
		// Init never creates a second key for a (domain, selector) that has one
		fresh := 0
		for _, i := range st.idx {
			if firstPub[norm[i]] == nil && !importedAt[vc08.ExpandKeyPath(k.tmpl, k.doms[i], k.sel)] {
				fresh++
			}
		}
		if newKeys > fresh {
			out.Violation("C08/key-regenerated", op, fmt.Sprintf("%s: %d new private key file(s) for %d domain(s) that had no key yet; created: %s", where, newKeys, fresh, c08KeyNames(created)))
		}
		if newKeys > 0 {
			out.Stat("keys.step.generates")
		} else {
			out.Stat("keys.step.loads-only")
		}
		signers := moddkim.C08SignerPublics(mod)
		var use []string
		for _, i := range st.idx {
			d, nd := k.doms[i], norm[i]
			pub := signers[nd]
			if pub == nil {
				out.Violation("C08/key-no-signer", op, where+": no key for configured domain "+d)
				use = append(use, "none")
				continue
			}
			f, ok := createdIn[c08PubID(pub)]
			algoName := map[bool]string{true: "rsa", false: "ed25519"}[strings.Contains(fmt.Sprintf("%T", pub), "rsa")]
			if ok {
				use = append(use, vh.HexBytes([]byte(f))+":"+algoName)
			} else {
				use = append(use, "?:"+algoName)
			}
			if first := firstPub[nd]; first != nil {
				if !vc08.SamePublic(first, pub) {
					out.Violation("C08/key-replaced-on-restart", op, fmt.Sprintf("%s: the instance signs for %s with a key (from %q) other than the one published when the domain was first configured; created in this step: %s",
						where, d, f, c08KeyNames(created)))
				}
			} else {
				firstPub[nd] = pub
				rec := ""
				for _, kf := range after {
					if kf.Kind == "r" && vc08.SamePublic(kf.Pub, pub) {
						rec = string(kf.Content)
					}
				}
				if ar, imported := adminRec[c08PubID(pub)]; imported {
					// a key that came without a record: its owner publishes the record derived from the key
					rec = ar
					out.Stat("keys.first-record.from-imported-key")
				} else if rec == "" {
					out.Violation("C08/key-record-not-written", op, where+": no record file carries the key generated for "+d)
				}
				firstRec[c08Norm(k.sel, d)] = rec
			}
		}
		obs = append(obs, "ok new="+c08JoinOr(created, "-")+" use="+c08JoinOr(use, "-"))

		// the property itself: what this instance signs verifies against the record published FIRST and against
		// every record file maddy wrote for, or left next to, the key it signs with (round 6)
		for _, i := range st.idx {
			pub := signers[norm[i]]
			var written []c08Record
			if pub != nil {
				written = c08RecordsOf(after, pub)
				for _, w := range written {
					_, isNew := before[w.rel]
					isNew = !isNew
					out.Stat(map[bool]string{true: "keys.record.written-in-this-step", false: "keys.record.left"}[isNew])
					if w.problem != "" {
						out.Violation("C08/key-record-wrong", op, fmt.Sprintf("%s: record file %q for the key that signs for %s (%s key): %s; content %.60q", where, w.rel, k.doms[i], c08PubAlgo(pub), w.problem, w.content))
					}
				}
				if len(written) == 0 {
					out.Stat("keys.record.none-for-signing-key")
				}
			}
			env.keySignVerify(r, op, where, mod, k, k.doms[i], firstRec, written)
		}
		before = after
	}
	out.Corr(op, strings.Join(obs, " ; "))
}

func vcSort(s []string) {
	for i := 1; i < len(s); i++ {
		for j := i; j > 0 && s[j] < s[j-1]; j-- {
			s[j], s[j-1] = s[j-1], s[j]
		}
	}
}

func c08JoinOr(l []string, empty string) string {
	if len(l) == 0 {
		return empty
	}
	return strings.Join(l, ",")
}

func c08KeyNames(created []string) string {
	var n []string
	for _, c := range created {
		n = append(n, c[:2]+string(vh.UnhexBytes(c[2:])))
	}
	return "[" + strings.Join(n, " ") + "]"
}

func c08InitErrClass(err error) string {
	if strings.Contains(err.Error(), "invalid PEM block") {
		return "pem"
	}
	return "other"
}

// keySignVerify signs one or two messages sent from the domain (spelled as an EAI and as a non-EAI
// sender would) and verifies them with go-msgauth and check.dkim against the records published first.
func (env *c08Env) keySignVerify(r *vh.Rng, op, where string, mod module.Module, k *c08KeyCase, dom string, firstRec map[string]string, written []c08Record) {
	out := env.out
	nd, _ := dns.ForLookup(dom)
	a, aerr := idna.ToASCII(nd)
	type sender struct {
		from string
		utf8 bool
	}
	var cands []sender
	if isASCII(dom) {
		cands = append(cands, sender{"user@" + dom, false}, sender{"user@" + dom, true})
	}
	if !isASCII(nd) {
		cands = append(cands, sender{"юзер@" + nd, true}, sender{"user@" + nd, true})
		if !isASCII(dom) {
			cands = append(cands, sender{"user@" + dom, true})
		}
	}
	if aerr == nil {
		cands = append(cands, sender{"user@" + a, false}, sender{"USER@" + strings.ToUpper(a), false})
	}
	lookup := func(name string) ([]string, error) {
		i := strings.Index(strings.ToLower(name), "._domainkey.")
		if i < 0 {
			return nil, errors.New("c08: unexpected TXT query " + name)
		}
		rec, ok := firstRec[c08Norm(name[:i], name[i+len("._domainkey."):])]
		if !ok || rec == "" {
			return nil, &net.DNSError{Err: "no such host", Name: name, IsNotFound: true}
		}
		return []string{rec}, nil
	}
	n := 1 + r.Intn(2)
	for j := 0; j < n; j++ {
		sd := cands[r.Intn(len(cands))]
		eai := "non-eai"
		if sd.utf8 {
			eai = "eai"
		}
		fields, body := c08KeyMessage(r, sd.utf8)
		hdr, err := textproto.ReadHeader(bufio.NewReader(bytes.NewReader(vc08.Join(fields, nil))))
		if err != nil {
			out.Stat("keys.sign.gen-refused")
			continue
		}
		ctx := context.Background()
		st, err := mod.(module.Modifier).ModStateForMsg(ctx, &module.MsgMetadata{ID: "c08k", SMTPOpts: smtp.MailOptions{UTF8: sd.utf8}})
		if err != nil {
			env.t.Fatal(err)
		}
		st.RewriteSender(ctx, sd.from)
		nBefore := hdr.Len()
		if err := st.RewriteBody(ctx, &hdr, buffer.MemoryBuffer{Slice: body}); err != nil {
			out.Stat("keys.sign.error:" + c08ErrClass(err))
			continue
		}
		detail := fmt.Sprintf("%s: message from <%s> (%s)", where, sd.from, eai)
		if hdr.Len() != nBefore+1 {
			out.Violation("C08/not-signed", op, detail+": the modifier returned no error and added no signature")
			continue
		}
		var msg bytes.Buffer
		textproto.WriteHeader(&msg, hdr)
		msg.Write(body)
		out.Stat("keys.signed." + eai)
		vs, err := msgdkim.VerifyWithOptions(bytes.NewReader(msg.Bytes()), &msgdkim.VerifyOptions{LookupTXT: lookup})
		switch {
		case err != nil:
			out.Violation("C08/verify-fails-published-key", op, detail+": go-msgauth: "+err.Error())
		case len(vs) != 1:
			out.Violation("C08/verify-fails-published-key", op, fmt.Sprintf("%s: go-msgauth sees %d signatures", detail, len(vs)))
		case vs[0].Err != nil:
			out.Violation("C08/verify-fails-published-key", op, fmt.Sprintf("%s: go-msgauth with the record published when the key was first generated (d=%s s=%s): %v", detail, vs[0].Domain, c08SigTag(hdr, "s"), vs[0].Err))
		default:
			out.Stat("keys.verify.ok")
		}
		chk, err := checkdkim.C08NewCheck(c08Resolver{&mockdns.Resolver{}, lookup})
		if err != nil {
			env.t.Fatal(err)
		}
		cst, err := chk.CheckStateForMsg(ctx, &module.MsgMetadata{ID: "c08kv"})
		if err != nil {
			env.t.Fatal(err)
		}
		res := cst.CheckBody(ctx, hdr, buffer.MemoryBuffer{Slice: body})
		pass := false
		var vals []string
		for _, ar := range res.AuthResult {
			if dr, ok := ar.(*authres.DKIMResult); ok {
				pass = pass || dr.Value == authres.ResultPass
				vals = append(vals, string(dr.Value)+"("+dr.Reason+")")
			}
		}
		if !pass {
			out.Violation("C08/maddy-check-fails-published-key", op, detail+": check.dkim: "+strings.Join(vals, ","))
		}
		// (round 6) … and against every record file of the signing key in the directory, whoever published which
		published := firstRec[c08Norm(k.sel, dom)]
		for _, w := range written {
			if w.content == published {
				continue
			}
			out.Stat("keys.verify.other-record")
			one := func(string) ([]string, error) { return []string{w.content}, nil }
			wd := fmt.Sprintf("%s: with the record file %q (%.50q…)", detail, w.rel, w.content)
			vs, err := msgdkim.VerifyWithOptions(bytes.NewReader(msg.Bytes()), &msgdkim.VerifyOptions{LookupTXT: one})
			switch {
			case err != nil:
				out.Violation("C08/verify-fails-written-record", op, wd+": go-msgauth: "+err.Error())
			case len(vs) != 1:
				out.Violation("C08/verify-fails-written-record", op, fmt.Sprintf("%s: go-msgauth sees %d signatures", wd, len(vs)))
			case vs[0].Err != nil:
				out.Violation("C08/verify-fails-written-record", op, fmt.Sprintf("%s: go-msgauth: %v", wd, vs[0].Err))
			}
			chk, err := checkdkim.C08NewCheck(c08Resolver{&mockdns.Resolver{}, one})
			if err != nil {
				env.t.Fatal(err)
			}
			cst, err := chk.CheckStateForMsg(ctx, &module.MsgMetadata{ID: "c08kw"})
			if err != nil {
				env.t.Fatal(err)
			}
			pass, vals := false, []string(nil)
			for _, ar := range cst.CheckBody(ctx, hdr, buffer.MemoryBuffer{Slice: body}).AuthResult {
				if dr, ok := ar.(*authres.DKIMResult); ok {
					pass = pass || dr.Value == authres.ResultPass
					vals = append(vals, string(dr.Value)+"("+dr.Reason+")")
				}
			}
			if !pass {
				out.Violation("C08/maddy-check-fails-written-record", op, wd+": check.dkim: "+strings.Join(vals, ","))
			}
		}
	}
}

// ---- (round 6) record files of a key, imported keys

// c08Record: a file of the key directory that is (or is meant to be) the TXT record of a given key
type c08Record struct {
	rel     string
	content string
	problem string // "" = a well-formed record of exactly that key
}

func c08PubAlgo(p crypto.PublicKey) string {
	if strings.Contains(fmt.Sprintf("%T", p), "rsa") {
		return "rsa"
	}
	return "ed25519"
}

// c08RecordsOf finds the record files that belong to the key pub in a scanned key directory, by CONTENT (a
// well-formed record of that key; anything starting with v=DKIM1 whose p= tag holds that key in any encoding) and by
// POSITION (the documented name next to a private-key file holding that key), and says what is wrong with each.
func c08RecordsOf(files map[string]vc08.KeyFile, pub crypto.PublicKey) []c08Record {
	cand := map[string]bool{}
	for rel, f := range files {
		switch {
		case f.Kind == "r" && vc08.SamePublic(f.Pub, pub):
			cand[rel] = true
		case f.Kind == "k" && vc08.SamePublic(f.Pub, pub):
			if _, ok := files[vc08.RecordPath(rel)]; ok {
				cand[vc08.RecordPath(rel)] = true
			}
		case f.Kind != "k" && bytes.HasPrefix(f.Content, []byte("v=DKIM1")) && vc08.RecordCarries(string(f.Content), pub):
			cand[rel] = true
		}
	}
	var rels []string
	for rel := range cand {
		rels = append(rels, rel)
	}
	vcSort(rels)
	var out []c08Record
	for _, rel := range rels {
		f := files[rel]
		rec := c08Record{rel: rel, content: string(f.Content)}
		p, kind, err := vc08.ParseRecord(string(f.Content))
		switch {
		case f.Kind == "k":
			continue // templates under which one key's record name is another key's name are not generated
		case err != nil:
			rec.problem = "not a usable DKIM key record (" + err.Error() + ")"
		case !vc08.SamePublic(p, pub):
			rec.problem = "carries another key"
		case kind != c08PubAlgo(pub):
			rec.problem = "k=" + kind
		}
		out = append(out, rec)
	}
	return out
}

// importedKey: a private key as an administrator would bring it along - for RSA one of the keys of the run
// (generated by maddy in another directory = "copied from another server"), in PKCS#8 or re-encoded as PKCS#1
// (openssl genrsa); for Ed25519 a key of the harness's own making (PKCS#8, openssl genpkey).
func (env *c08Env) importedKey(r *vh.Rng, algo string, i int) ([]byte, crypto.PublicKey, string, error) {
	if i < 0 {
		i = -i
	}
	if algo == "ed25519" {
		seed := make([]byte, ed25519.SeedSize)
		for j := range seed {
			seed[j] = byte(r.Intn(256))
		}
		priv := ed25519.NewKeyFromSeed(seed)
		der, err := x509.MarshalPKCS8PrivateKey(priv)
		if err != nil {
			return nil, nil, "", err
		}
		return pem.EncodeToMemory(&pem.Block{Type: "PRIVATE KEY", Bytes: der}), priv.Public(), "pkcs8", nil
	}
	files, err := vc08.ScanKeyDir(env.keyDir["rsa2048"])
	if err != nil {
		return nil, nil, "", err
	}
	var rels []string
	for rel, f := range files {
		if f.Kind == "k" && f.Algo == "rsa" {
			rels = append(rels, rel)
		}
	}
	if len(rels) == 0 {
		return nil, nil, "", errors.New("no RSA key among the keys of the run")
	}
	vcSort(rels)
	f := files[rels[i%len(rels)]] // i = domain index + an offset of the case: no key twice in a case
	if r.Chance(40) {
		blk, _ := pem.Decode(f.Content)
		key, err := x509.ParsePKCS8PrivateKey(blk.Bytes)
		if err != nil {
			return nil, nil, "", err
		}
		return pem.EncodeToMemory(&pem.Block{Type: "RSA PRIVATE KEY", Bytes: x509.MarshalPKCS1PrivateKey(key.(*rsa.PrivateKey))}), f.Pub, "pkcs1", nil
	}
	return f.Content, f.Pub, "pkcs8", nil
}

func c08SigTag(h textproto.Header, tag string) string {
	for f := h.Fields(); f.Next(); {
		if strings.EqualFold(f.Key(), "DKIM-Signature") {
			raw, _ := f.Raw()
			return vc08.Tags(raw)[tag]
		}
	}
	return ""
}

func TestVerifC08Keys(t *testing.T) {
	t.Parallel()
	out := vh.Open("c08_keys")
	defer out.Close()
	env := c08NewEnv(t, out, false)
	if c08Replay(t, "C08 keys ", func(op string) {
		k, err := c08ParseKeyCase(op)
		if err != nil {
			t.Fatal(err)
		}
		env.runKeys(k)
	}) {
		return
	}
	r := vh.NewRng(vh.Seed() + 806)
	n := vh.N(600)/15 + 2
	// every run: an IDN domain in U-labels and in A-labels, an upper-case ASCII domain and an IDN selector with
	// the default template and a custom one, as an existing installation that is started again
	for _, fx := range []struct {
		tmpl, sel string
		doms      []string
	}{
		{"{domain}_{selector}.key", "sel", []string{"example.org", "пример.example"}},
		{"{domain}_{selector}.key", "ключ", []string{"xn--bcher-kva.example", "EXAMPLE.ORG"}},
		{"{selector}/{domain}.pem", "S2024", []string{"bücher.example", "Mail.Example.COM"}},
	} {
		k := &c08KeyCase{tmpl: fx.tmpl, sel: fx.sel, doms: fx.doms}
		a := r.Pick("rsa2048", "ed25519")
		b := map[string]string{"rsa2048": "ed25519", "ed25519": "rsa2048"}[a]
		k.steps = []c08KeyStep{{lit: true, algo: a, idx: []int{0}}, {lit: true, algo: "ed25519", idx: []int{1}},
			{algo: b, idx: []int{0, 1}}, {algo: "ed25519", idx: []int{1, 0}}}
		env.runKeys(k)
	}
	// (round 6) every run: keys that exist WITHOUT their record file - brought along by the administrator (an Ed25519 and
	// an RSA one), or generated by maddy and the record deleted since - started under the newkey_algo that is NOT their type
	I := func(a string, ix ...int) c08KeyStep { return c08KeyStep{algo: a, idx: ix} }
	X := func(a string, i int) c08KeyStep { return c08KeyStep{kind: 'X', algo: a, idx: []int{i}} }
	D := func(i int) c08KeyStep { return c08KeyStep{kind: 'D', algo: "ed25519", idx: []int{i}} }
	L := func(a string, i int) c08KeyStep { return c08KeyStep{lit: true, algo: a, idx: []int{i}} }
	for _, k := range []*c08KeyCase{
		{tmpl: "{domain}_{selector}.key", sel: "sel", doms: []string{"example.org", "пример.example"},
			steps: []c08KeyStep{X("ed25519", 0), X("rsa2048", 1), I("ed25519", 1), I("rsa2048", 0), I("rsa2048", 0, 1), I("ed25519", 1, 0)}},
		{tmpl: "{selector}/{domain}.pem", sel: "S2024", doms: []string{"bücher.example", "Mail.Example.COM"},
			steps: []c08KeyStep{L("ed25519", 0), L("ed25519", 1), D(0), I("rsa2048", 0, 1), D(1), D(0), I("rsa2048", 1, 0), I("ed25519", 0, 1)}},
		{tmpl: "{domain}.key", sel: "ключ", doms: []string{"xn--bcher-kva.example"},
			steps: []c08KeyStep{X("rsa2048", 0), I("ed25519", 0), D(0), I("ed25519", 0), I("rsa2048", 0)}},
	} {
		env.runKeys(k)
	}
	for i := 0; i < n; i++ {
		env.runKeys(c08GenKeyCase(r))
	}
}

// ---------------------------------------------------------------- time as an input (round 6)
//
// A case is the life of ONE modify.dkim instance on a clock the harness moves by hand (checks/c08.py routes
// time.Now of internal/modify/dkim and go-msgauth's `now` to vc08.Now):
//
//	C08 clock <t0> <sig_expiry> <algo> <hc> <bc> <sender#> | <up>:<gap>:<d>,<d>… … | <fields> | <body>
//
// Init() at t0 (ms since the epoch); per message: the clock advances by `up` ms (uptime since Init / since the last
// message), ModStateForMsg, `gap` ms later RewriteBody signs (instant S); the signed message is verified
// (go-msgauth, check.dkim) at S+d for every transit delay d.  sig_expiry in ms, 0 = signatures never expire,
// "default" = the directive is absent.  Monitor: a message verified within sig_expiry (less the one second DKIM
// time stamps cannot express) of its SIGNING verifies, whatever the uptime.  Compared with the model: t=, x= and
// the verifier's "expired" verdict per instant.
//
// The test does not call t.Parallel: it is the only one running while the clock is not the wall clock.

const c08DefaultExpiryMs = 5 * 24 * 3600 * 1000

type c08ClockMsg struct {
	up, gap int64
	delays  []int64
}

type c08ClockCase struct {
	t0     int64
	expiry int64 // ms; -1 = directive absent
	algo   string
	hc, bc string
	sender int
	msgs   []c08ClockMsg
	fields [][]byte
	body   []byte
}

func (c *c08ClockCase) op() string {
	e := "default"
	if c.expiry >= 0 {
		e = strconv.FormatInt(c.expiry, 10)
	}
	var ms []string
	for _, m := range c.msgs {
		var ds []string
		for _, d := range m.delays {
			ds = append(ds, strconv.FormatInt(d, 10))
		}
		ms = append(ms, fmt.Sprintf("%d:%d:%s", m.up, m.gap, strings.Join(ds, ",")))
	}
	return fmt.Sprintf("C08 clock %d %s %s %s %s %d | %s | %s | %s", c.t0, e, c.algo, c.hc, c.bc, c.sender, strings.Join(ms, " "), vc08.EncList(c.fields), vc08.Enc(c.body))
}

func c08ParseClockCase(op string) (*c08ClockCase, error) {
	g := strings.Split(op, " | ")
	if len(g) != 4 {
		return nil, errors.New("bad clock op")
	}
	h := strings.Fields(g[0])
	if len(h) != 8 || h[0] != "C08" || h[1] != "clock" {
		return nil, errors.New("bad clock op head")
	}
	c := &c08ClockCase{algo: h[4], hc: h[5], bc: h[6], expiry: -1}
	var err error
	if c.t0, err = strconv.ParseInt(h[2], 10, 64); err != nil || c.t0 < 0 {
		return nil, errors.New("bad clock t0")
	}
	if h[3] != "default" {
		if c.expiry, err = strconv.ParseInt(h[3], 10, 64); err != nil || c.expiry < 0 {
			return nil, errors.New("bad clock expiry")
		}
	}
	if c.sender, err = strconv.Atoi(h[7]); err != nil || c.sender < 0 || c.sender >= c08CoveredSenders {
		return nil, errors.New("bad clock sender")
	}
	for _, m := range strings.Fields(g[1]) {
		p := strings.Split(m, ":")
		if len(p) != 3 {
			return nil, errors.New("bad clock message " + m)
		}
		var cm c08ClockMsg
		var e1, e2 error
		cm.up, e1 = strconv.ParseInt(p[0], 10, 64)
		cm.gap, e2 = strconv.ParseInt(p[1], 10, 64)
		if e1 != nil || e2 != nil || cm.up < 0 || cm.gap < 0 {
			return nil, errors.New("bad clock message " + m)
		}
		for _, d := range strings.Split(p[2], ",") {
			v, err := strconv.ParseInt(d, 10, 64)
			if err != nil || v < 0 {
				return nil, errors.New("bad clock delay " + m)
			}
			cm.delays = append(cm.delays, v)
		}
		c.msgs = append(c.msgs, cm)
	}
	for _, f := range strings.Fields(g[2]) {
		c.fields = append(c.fields, vc08.Dec(f))
	}
	c.body = vc08.Dec(strings.TrimSpace(g[3]))
	return c, nil
}

var c08ClockExpiries = []int64{-1, -1, -1, 0, 1000, 2000, 1500, 90_000, 3_600_000, 86_400_000, 7 * 86_400_000, 30 * 86_400_000, 2_750}

func c08Rand64(r *vh.Rng, n int64) int64 {
	if n <= 0 {
		return 0
	}
	return int64(r.Next() % uint64(n))
}

func c08GenClockCase(r *vh.Rng) *c08ClockCase {
	c := &c08ClockCase{algo: r.Pick("rsa2048", "ed25519", "ed25519"), hc: r.Pick("relaxed", "simple"), bc: r.Pick("relaxed", "simple"), sender: r.Intn(c08CoveredSenders)}
	c.expiry = c08ClockExpiries[r.Intn(len(c08ClockExpiries))]
	e := c.expiry
	if e < 0 {
		e = c08DefaultExpiryMs
	}
	// start-up somewhere between 2020 and 2033, now and then just before 2^31 seconds
	c.t0 = 1_577_836_800_000 + c08Rand64(r, 410_000_000_000)
	if r.Chance(8) {
		c.t0 = (int64(1)<<31)*1000 - c08Rand64(r, 3*e+5000)
	}
	if r.Chance(30) {
		c.t0 -= c.t0 % 1000 // on a full second
	}
	ref := e
	if ref == 0 {
		ref = 86_400_000
	}
	for i := 0; i < 1+r.Intn(3); i++ {
		var m c08ClockMsg
		switch r.Intn(12) {
		case 0: // signed right after Init (what every other test does)
		case 1:
			m.up = 1 + c08Rand64(r, 999)
		case 2:
			m.up = ref / 2
		case 3:
			m.up = ref - 1 - c08Rand64(r, 1000)
		case 4:
			m.up = ref
		case 5:
			m.up = ref + 1 + c08Rand64(r, 2000)
		case 6:
			m.up = 2*ref + c08Rand64(r, ref)
		case 7:
			m.up = 10*ref + c08Rand64(r, 1000)
		case 8:
			m.up = 400 * 86_400_000
		case 9:
			m.up = 3*365*86_400_000 + c08Rand64(r, 86_400_000)
		default:
			m.up = c08Rand64(r, 3*ref)
		}
		if r.Chance(30) {
			m.gap = 1 + c08Rand64(r, 5000)
		}
		m.delays = []int64{0}
		if e == 0 {
			m.delays = append(m.delays, c08Rand64(r, 86_400_000), 20*365*86_400_000)
		} else {
			if e >= 1000 {
				m.delays = append(m.delays, e-1000) // the last instant at which every verifier must still accept
				if e > 1000 && r.Chance(50) {
					m.delays = append(m.delays, c08Rand64(r, e-1000))
				}
			}
			switch r.Intn(4) {
			case 0: // inside the second the time stamps cannot express: the model decides
				m.delays = append(m.delays, e-c08Rand64(r, 1000))
			case 1:
				m.delays = append(m.delays, e+1+c08Rand64(r, 1000))
			case 2:
				m.delays = append(m.delays, 2*e+c08Rand64(r, 100_000))
			}
		}
		c.msgs = append(c.msgs, m)
	}
	c.fields, c.body = c08KeyMessage(r, c08Senders()[c.sender].utf8)
	return c
}

func (env *c08Env) runClock(c *c08ClockCase) {
	out := env.out
	op := c.op()
	sd := c08Senders()[c.sender]
	ctx := context.Background()
	e := c.expiry
	arg := ""
	switch {
	case e < 0:
		e = c08DefaultExpiryMs
		out.Stat("clock.expiry.default")
	case e == 0:
		arg = "0s"
		out.Stat("clock.expiry.none")
	default:
		arg = fmt.Sprintf("%dms", e)
		switch {
		case e < 60_000:
			out.Stat("clock.expiry.seconds")
		case e < 86_400_000:
			out.Stat("clock.expiry.hours")
		default:
			out.Stat("clock.expiry.days")
		}
	}
	now := c.t0
	vc08.SetClockMs(now)
	defer vc08.WallClock()
	mod, err := c08ModifierExp(filepath.Join(env.keyDir[c.algo], "{domain}_{selector}.key"), c.algo, sd, c.hc, c.bc, arg, nil, nil)
	if err != nil {
		out.Violation("C08/key-init-fails", op, err.Error())
		return
	}
	out.Stat(fmt.Sprintf("clock.messages.%d", len(c.msgs)))
	var obs []string
	for mi, m := range c.msgs {
		hdr, err := textproto.ReadHeader(bufio.NewReader(bytes.NewReader(vc08.Join(c.fields, nil))))
		if err != nil {
			out.Stat("clock.gen-refused")
			return
		}
		now += m.up
		vc08.SetClockMs(now)
		st, err := mod.(module.Modifier).ModStateForMsg(ctx, &module.MsgMetadata{ID: "c08t", SMTPOpts: smtp.MailOptions{UTF8: sd.utf8}})
		if err != nil {
			env.t.Fatal(err)
		}
		st.RewriteSender(ctx, sd.from)
		now += m.gap
		vc08.SetClockMs(now)
		signAt := now
		uptime := signAt - c.t0
		switch {
		case uptime == 0:
			out.Stat("clock.uptime.0")
		case e == 0:
			out.Stat("clock.uptime.any(no-expiry)")
		case uptime < e:
			out.Stat("clock.uptime.<sig_expiry")
		case uptime < 2*e:
			out.Stat("clock.uptime.1-2x-sig_expiry")
		default:
			out.Stat("clock.uptime.>=2x-sig_expiry")
		}
		nBefore := hdr.Len()
		if err := st.RewriteBody(ctx, &hdr, buffer.MemoryBuffer{Slice: c.body}); err != nil {
			out.Stat("clock.sign.error:" + c08ErrClass(err))
			obs = append(obs, "unsigned")
			continue
		}
		where := fmt.Sprintf("message %d signed %d ms after Init (sig_expiry %d ms)", mi+1, uptime, e)
		if hdr.Len() != nBefore+1 {
			out.Violation("C08/not-signed", op, where+": the modifier returned no error and added no signature")
			obs = append(obs, "unsigned")
			continue
		}
		raw, _ := c08RawFields(hdr)
		tags := vc08.Tags(raw[0])
		tT, tX := tags["t"], tags["x"]
		if tT == "" {
			tT = "-"
		}
		if tX == "" {
			tX = "-"
		}
		var msg bytes.Buffer
		textproto.WriteHeader(&msg, hdr)
		msg.Write(c.body)
		exp := ""
		for _, d := range m.delays {
			vc08.SetClockMs(signAt + d)
			within := e == 0 || d+1000 <= e
			if within {
				out.Stat("clock.verify.within-expiry")
			} else {
				out.Stat("clock.verify.beyond")
			}
			at := fmt.Sprintf("%s, verified %d ms after signing (t=%s x=%s, signed at %d, verified at %d)", where, d, tT, tX, signAt/1000, (signAt+d)/1000)
			vs, verr := msgdkim.VerifyWithOptions(bytes.NewReader(msg.Bytes()), &msgdkim.VerifyOptions{LookupTXT: env.lookupTXT(c.algo)})
			bit, why := "0", ""
			switch {
			case verr != nil:
				why = verr.Error()
			case len(vs) != 1:
				why = fmt.Sprintf("%d signatures", len(vs))
			case vs[0].Err != nil:
				why = vs[0].Err.Error()
				if strings.Contains(why, "signature has expired") {
					bit = "1"
				}
			}
			exp += bit
			if within && why != "" {
				out.Violation("C08/verify-fails-within-expiry", op, at+": go-msgauth: "+why)
			}
			if within {
				if pass, detail := env.maddyCheck(c.algo, msg.Bytes()); !pass {
					out.Violation("C08/maddy-check-fails-within-expiry", op, at+": "+detail)
				}
			} else if why != "" && bit == "0" {
				// beyond the expiry nothing but "expired" may go wrong either
				out.Violation("C08/verify-fails", op, at+": go-msgauth: "+why)
			}
			if bit == "1" {
				out.Stat("clock.verdict.expired")
			} else {
				out.Stat("clock.verdict.not-expired")
			}
		}
		vc08.SetClockMs(signAt)
		obs = append(obs, fmt.Sprintf("t=%s x=%s exp=%s", tT, tX, exp))
	}
	out.Corr(op, strings.Join(obs, " ; "))
}

func TestVerifC08Clock(t *testing.T) {
	// NOT parallel (see above)
	out := vh.Open("c08_clock")
	defer out.Close()
	env := c08NewEnv(t, out, false)
	msgdkim.C08SetNow(vc08.Now)
	defer vc08.WallClock()
	if c08Replay(t, "C08 clock ", func(op string) {
		c, err := c08ParseClockCase(op)
		if err != nil {
			t.Fatal(err)
		}
		env.runClock(c)
	}) {
		return
	}
	r := vh.NewRng(vh.Seed() + 807)
	n := vh.N(600)/5 + 4
	// every run: the default sig_expiry and a short one, each signed right after Init, after more than sig_expiry of
	// uptime and long after, by the same instance
	for _, e := range []int64{-1, 2000, 3_600_000} {
		ee := e
		if ee < 0 {
			ee = c08DefaultExpiryMs
		}
		c := c08GenClockCase(r)
		c.expiry = e
		c.msgs = []c08ClockMsg{{up: 0, delays: []int64{0, ee - 1000}}, {up: ee + 1000, delays: []int64{0, ee - 1000, ee + 1000}}, {up: 30 * ee, gap: 250, delays: []int64{0, ee / 2}}}
		env.runClock(c)
	}
	for i := 0; i < n; i++ {
		env.runClock(c08GenClockCase(r))
	}
}

// ---------------------------------------------------------------- which key signs, in whose name (round 9)
//
// A case is ONE modify.dkim instance (sign_subdomains yes|no, 1-3 configured domains in any spelling, any selector;
// keys generated by maddy in a fresh directory or RSA keys brought along) and a list of envelope senders:
//
//	C08 select <y|n> <selector> <r|e> | <domain>=<dns.ForLookup> … | <name>=<dns.ForLookup|!>=<idna.ToASCII|!> … | <u|a>:<from|->:<e|n|domain> …
//
// (u = message with SMTPUTF8, a = without; the third part of a sender is what address.Split makes of it: error, no
// domain, the domain; the table holds the library results for every name the signer may ask about.)  Per sender the
// real RewriteBody runs on a generated message.  Compared with the model (Model/DkimKeys.lean selectKey): unsigned |
// err | signed d= s= i= and the entry of the signers map whose key signed.  Monitor, from the property alone: the DNS
// holds exactly the records the signer published - for every configured domain the record of the key the instance
// holds for it, under <selector>._domainkey.<domain> -; WHATEVER signature the modifier adds must verify against it
// (go-msgauth, check.dkim), a non-EAI message carries no U-label, a sender the configuration covers as spelled (the
// configured domain itself, or with sign_subdomains a name ending in "." + the configured domain) is signed; a
// sender the configuration does not cover is left unsigned or signed verifiably - never signed unverifiably.

type c08SelSender struct {
	from string
	utf8 bool
}

type c08SelCase struct {
	sub     bool
	sel     string
	algo    string // rsa2048 (keys brought along: the keys of the run) | ed25519 (generated by maddy)
	doms    []string
	senders []c08SelSender
}

func c08HexOrDash(s string) string {
	if s == "" {
		return "-"
	}
	return vh.HexBytes([]byte(s))
}

func c08UnhexOrDash(s string) string {
	if s == "-" {
		return ""
	}
	return string(vh.UnhexBytes(s))
}

func (k *c08SelCase) op() string {
	var ds, tab, ss []string
	names := []string{}
	seen := map[string]bool{}
	add := func(n string) {
		if n != "" && !seen[n] {
			seen[n] = true
			names = append(names, n)
		}
	}
	for _, d := range k.doms {
		nd, _ := dns.ForLookup(d)
		ds = append(ds, vh.HexBytes([]byte(d))+"="+vh.HexBytes([]byte(nd)))
		add(d)
	}
	add(k.sel)
	for _, s := range k.senders {
		u := "a"
		if s.utf8 {
			u = "u"
		}
		sp := "n"
		if s.from != "" {
			_, dom, err := address.Split(s.from)
			switch {
			case err != nil:
				sp = "e"
			case dom != "":
				sp = vh.HexBytes([]byte(dom))
				add(dom)
			}
		}
		ss = append(ss, u+":"+c08HexOrDash(s.from)+":"+sp)
	}
	for _, n := range names {
		nf, af := "!", "!"
		if x, err := dns.ForLookup(n); err == nil {
			nf = c08HexOrDash(x)
		}
		if x, err := idna.ToASCII(n); err == nil {
			af = c08HexOrDash(x)
		}
		tab = append(tab, vh.HexBytes([]byte(n))+"="+nf+"="+af)
	}
	sub := "n"
	if k.sub {
		sub = "y"
	}
	return fmt.Sprintf("C08 select %s %s %s | %s | %s | %s", sub, vh.HexBytes([]byte(k.sel)), k.algo[:1], strings.Join(ds, " "), strings.Join(tab, " "), strings.Join(ss, " "))
}

func c08ParseSelCase(op string) (*c08SelCase, error) {
	g := strings.Split(op, " | ")
	if len(g) != 4 {
		return nil, errors.New("bad select op")
	}
	h := strings.Fields(g[0])
	if len(h) != 5 || h[0] != "C08" || h[1] != "select" || (h[2] != "y" && h[2] != "n") || (h[4] != "r" && h[4] != "e") {
		return nil, errors.New("bad select op head")
	}
	k := &c08SelCase{sub: h[2] == "y", sel: string(vh.UnhexBytes(h[3])), algo: map[string]string{"r": "rsa2048", "e": "ed25519"}[h[4]]}
	for _, d := range strings.Fields(g[1]) {
		k.doms = append(k.doms, string(vh.UnhexBytes(strings.SplitN(d, "=", 2)[0])))
	}
	for _, s := range strings.Fields(g[3]) {
		p := strings.Split(s, ":")
		if len(p) != 3 || (p[0] != "u" && p[0] != "a") {
			return nil, errors.New("bad select sender " + s)
		}
		k.senders = append(k.senders, c08SelSender{from: c08UnhexOrDash(p[1]), utf8: p[0] == "u"})
	}
	if len(k.doms) == 0 || (k.sub && len(k.doms) != 1) {
		return nil, errors.New("bad select op: domains")
	}
	return k, nil
}

// c08Respell: another spelling of the same domain - letter case (all, per letter, per label), A-labels, U-labels, NFD
func c08Respell(r *vh.Rng, d string) string {
	for try := 0; try < 8; try++ {
		var x string
		switch r.Intn(7) {
		case 0:
			x = strings.ToUpper(d)
		case 1:
			x = strings.ToLower(d)
		case 2:
			rs := []rune(d)
			for i := range rs {
				if r.Chance(50) {
					rs[i] = []rune(strings.ToUpper(string(rs[i])))[0]
				}
			}
			x = string(rs)
		case 3:
			if a, err := idna.ToASCII(norm.NFC.String(strings.ToLower(d))); err == nil {
				x = a
				if r.Chance(30) {
					x = strings.ToUpper(x)
				}
			}
		case 4:
			if u, err := idna.ToUnicode(strings.ToLower(d)); err == nil {
				x = u
			}
		case 5:
			if u, err := idna.ToUnicode(strings.ToLower(d)); err == nil {
				x = norm.NFD.String(u)
			}
		case 6:
			ls := strings.Split(d, ".")
			for i, l := range ls {
				rs := []rune(l)
				if len(rs) > 0 && r.Chance(70) {
					rs[0] = []rune(strings.ToUpper(string(rs[0])))[0]
				}
				ls[i] = string(rs)
			}
			x = strings.Join(ls, ".")
		}
		if x != "" && x != d {
			return x
		}
	}
	return strings.ToUpper(d)
}

var c08SubLabels = []string{"mail", "mail", "mx1", "a.b", "MAIL", "News.Lists", "почта", "xn--80a1acny", "bücher", "x", "a.b.c"}

// c08GenSelSender: a sender for the configuration of k; the returned kind names its relation to the configuration
func c08GenSelSender(r *vh.Rng, k *c08SelCase) (c08SelSender, string) {
	base := k.doms[r.Intn(len(k.doms))]
	var dom, kind string
	switch p := r.Intn(100); {
	case p < 12:
		dom, kind = base, "domain.as-configured"
	case p < 27:
		dom, kind = c08Respell(r, base), "domain.respelled"
	case p < 42:
		dom, kind = c08SubLabels[r.Intn(len(c08SubLabels))]+"."+base, "subdomain.parent-as-configured"
	case p < 72:
		dom, kind = c08SubLabels[r.Intn(len(c08SubLabels))]+"."+c08Respell(r, base), "subdomain.parent-respelled"
	case p < 77:
		// the whole name respelled (label and parent)
		dom, kind = c08Respell(r, c08SubLabels[r.Intn(len(c08SubLabels))]+"."+base), "subdomain.all-respelled"
	case p < 87:
		g := vc08.KeyDomains[r.Intn(len(vc08.KeyDomains))]
		dom, kind = g[r.Intn(len(g))], "unrelated"
		for _, d := range k.doms {
			if dns.Equal(d, dom) {
				dom = "other.test"
			}
		}
	case p < 93:
		// look-alikes: the configured name without the dot in front, as a prefix, with a label appended
		switch r.Intn(3) {
		case 0:
			dom = "not" + base
		case 1:
			dom = base + ".evil.test"
		default:
			dom = "mail." + base + "x"
		}
		kind = "look-alike"
	case p < 96:
		return c08SelSender{from: r.Pick("", "postmaster", "POSTMASTER", "Postmaster"), utf8: r.Chance(50)}, "no-domain"
	case p < 98:
		return c08SelSender{from: r.Pick("no-at-sign", "@"+base, "user@"), utf8: r.Chance(50)}, "malformed"
	default:
		// names the IDNA functions refuse
		dom, kind = r.Pick("xn--0.example", "mail.xn--.example", "a..example", "xn--mail-.example")+r.Pick("", "."+base), "invalid-idn"
	}
	utf8 := r.Chance(50)
	local := r.Pick("user", "user", "USER", "first.last", "\"quoted local\"")
	if utf8 && r.Chance(35) {
		local = r.Pick("юзер", "büro", "用户")
	}
	return c08SelSender{from: local + "@" + dom, utf8: utf8}, kind
}

func c08GenSelCase(r *vh.Rng) *c08SelCase {
	k := &c08SelCase{sub: r.Chance(65), sel: vc08.KeySelectors[r.Intn(len(vc08.KeySelectors))], algo: "ed25519"}
	if r.Chance(30) {
		k.algo = "rsa2048"
	}
	n := 1
	if !k.sub {
		n = 1 + r.Intn(3)
	}
	used := map[int]bool{}
	for len(k.doms) < n {
		g := r.Intn(len(vc08.KeyDomains))
		if used[g] {
			continue
		}
		used[g] = true
		sp := vc08.KeyDomains[g]
		d := sp[r.Intn(len(sp))]
		if r.Chance(15) {
			d = c08Respell(r, d)
		}
		k.doms = append(k.doms, d)
	}
	for i := 0; i < 4+r.Intn(4); i++ {
		s, _ := c08GenSelSender(r, k)
		k.senders = append(k.senders, s)
	}
	return k
}

// c08SelCovered: does the configuration cover the sender AS SPELLED (the documented meaning of `domains` and
// `sign_subdomains`: the domain itself, or a name below the configured one)?  The monitor's own reading.
func c08SelCovered(k *c08SelCase, from string) (dom string, covered bool) {
	if from == "" || strings.EqualFold(from, "postmaster") {
		return "", true // the first key signs for the null return path and for postmaster
	}
	i := strings.LastIndexByte(from, '@')
	if i <= 0 || i == len(from)-1 {
		return "", false
	}
	dom = from[i+1:]
	for _, d := range k.doms {
		if d == dom {
			return dom, true
		}
	}
	if k.sub && strings.HasSuffix(dom, "."+k.doms[0]) {
		return dom, true
	}
	return dom, false
}

func (env *c08Env) runSelect(k *c08SelCase) {
	out := env.out
	op := k.op()
	dir, err := os.MkdirTemp("", "verif-c08-sel-")
	if err != nil {
		env.t.Fatal(err)
	}
	defer os.RemoveAll(dir)
	var seed uint64 = 1469598103934665603
	for i := 0; i < len(op); i++ {
		seed = (seed ^ uint64(op[i])) * 1099511628211
	}
	r := vh.NewRng(seed)
	const tmpl = "{domain}_{selector}.key"
	out.Stat(fmt.Sprintf("select.sign_subdomains.%v", k.sub))
	out.Stat(fmt.Sprintf("select.domains.%d", len(k.doms)))
	out.Stat("select.keys." + k.algo)
	for _, d := range k.doms {
		nd, _ := dns.ForLookup(d)
		switch {
		case !isASCII(d) && norm.NFC.String(d) != d:
			out.Stat("select.configured.nfd")
		case !isASCII(d):
			out.Stat("select.configured.u-label")
		case !isASCII(nd) && strings.ToLower(d) != d:
			out.Stat("select.configured.a-label-upper")
		case !isASCII(nd):
			out.Stat("select.configured.a-label")
		case strings.ToLower(d) != d:
			out.Stat("select.configured.ascii-mixed-case")
		default:
			out.Stat("select.configured.ascii")
		}
	}
	adminRec := map[string]string{}
	if k.algo == "rsa2048" {
		// RSA keys are brought along (the keys of the run, "copied from another server"): nothing expensive is generated
		for i, d := range k.doms {
			pemBytes, pub, _, err := env.importedKey(r, "rsa2048", i+int(seed%1000))
			if err != nil {
				env.t.Fatal(err)
			}
			full := filepath.Join(dir, vc08.ExpandKeyPath(tmpl, d, k.sel))
			if err := os.WriteFile(full, pemBytes, 0o600); err != nil {
				env.t.Fatal(err)
			}
			adminRec[c08PubID(pub)] = vc08.FormatRecord(pub)
		}
	}
	mod, ierr := c08ModifierAt(filepath.Join(dir, tmpl), k.algo, c08Sender{domains: k.doms, selector: k.sel, subdomains: k.sub}, r.Pick("relaxed", "simple"), r.Pick("relaxed", "simple"), true, nil, nil)
	if ierr != nil {
		out.Violation("C08/key-init-fails", op, ierr.Error())
		return
	}
	files, err := vc08.ScanKeyDir(dir)
	if err != nil {
		env.t.Fatal(err)
	}
	// the DNS: exactly the records the signer published - per configured domain the record of the key held for it
	published := map[string]string{}
	signers := moddkim.C08SignerPublics(mod)
	for _, d := range k.doms {
		nd, _ := dns.ForLookup(d)
		pub := signers[nd]
		if pub == nil {
			out.Violation("C08/key-no-signer", op, "no key for configured domain "+d)
			continue
		}
		rec := adminRec[c08PubID(pub)]
		for _, f := range files {
			if f.Kind == "r" && vc08.SamePublic(f.Pub, pub) {
				rec = string(f.Content)
			}
		}
		if rec == "" {
			out.Violation("C08/key-record-not-written", op, "no record file carries the key generated for "+d)
			continue
		}
		published[c08Norm(k.sel, d)] = rec
	}
	lookup := func(name string) ([]string, error) {
		i := strings.Index(strings.ToLower(name), "._domainkey.")
		if i < 0 {
			return nil, errors.New("c08: unexpected TXT query " + name)
		}
		rec, ok := published[c08Norm(name[:i], name[i+len("._domainkey."):])]
		if !ok {
			return nil, &net.DNSError{Err: "no such host", Name: name, IsNotFound: true}
		}
		return []string{rec}, nil
	}
	var used []string
	moddkim.C08RecordSignerUse(mod, func(entry string) { used = append(used, entry) })
	ctx := context.Background()
	var obs []string
	for si, sd := range k.senders {
		eai := "non-eai"
		if sd.utf8 {
			eai = "eai"
		}
		dom, covered := c08SelCovered(k, sd.from)
		// the relation of the sender to the configuration, for the distribution
		rel := "unrelated"
		switch {
		case dom == "" && covered:
			rel = "no-domain"
		case dom == "":
			rel = "malformed"
		case covered && k.sub && strings.HasSuffix(dom, "."+k.doms[0]):
			rel = fmt.Sprintf("subdomain-as-configured.levels-%d", strings.Count(strings.TrimSuffix(dom, "."+k.doms[0]), ".")+1)
		case covered:
			rel = "domain-as-configured"
		default:
			nd, nerr := dns.ForLookup(dom)
			for _, d := range k.doms {
				cd, _ := dns.ForLookup(d)
				switch {
				case nerr != nil:
					rel = "invalid-name"
				case nd == cd:
					rel = "domain-respelled"
				case strings.HasSuffix(dom, "."+d) && rel == "unrelated":
					rel = "subdomain-as-configured(sign_subdomains-off)"
				case strings.HasSuffix(nd, "."+cd) && rel == "unrelated":
					rel = "subdomain-parent-respelled"
				}
			}
		}
		out.Stat(fmt.Sprintf("select.sender.sub=%v.%s.%s", k.sub, rel, eai))
		fields, body := c08KeyMessage(r, sd.utf8)
		hdr, err := textproto.ReadHeader(bufio.NewReader(bytes.NewReader(vc08.Join(fields, nil))))
		if err != nil {
			env.t.Fatal("generated header refused: ", err)
		}
		st, err := mod.(module.Modifier).ModStateForMsg(ctx, &module.MsgMetadata{ID: "c08s", SMTPOpts: smtp.MailOptions{UTF8: sd.utf8}})
		if err != nil {
			env.t.Fatal(err)
		}
		st.RewriteSender(ctx, sd.from)
		nBefore := hdr.Len()
		used = nil
		detail := fmt.Sprintf("sender %d <%s> (%s, %s; sign_subdomains %v, domains %q, selector %q)", si+1, sd.from, eai, rel, k.sub, k.doms, k.sel)
		if err := st.RewriteBody(ctx, &hdr, buffer.MemoryBuffer{Slice: body}); err != nil {
			obs = append(obs, "err")
			out.Stat("select.outcome.error")
			if dom != "" || covered {
				out.Violation("C08/sign-error", op, detail+": RewriteBody: "+err.Error())
			}
			continue
		}
		if hdr.Len() == nBefore {
			obs = append(obs, "unsigned")
			out.Stat("select.outcome.unsigned." + rel)
			_, aerr := idna.ToASCII(dom)
			_, serr := idna.ToASCII(k.sel)
			if covered && (sd.utf8 || (aerr == nil && serr == nil)) {
				out.Violation("C08/not-signed", op, detail+": the configuration covers the sender as spelled, the modifier added no signature")
			}
			continue
		}
		if hdr.Len() != nBefore+1 || len(used) != 1 {
			out.Violation("C08/harness-signature-shape", op, fmt.Sprintf("%s: %d fields added, %d keys used", detail, hdr.Len()-nBefore, len(used)))
			obs = append(obs, "?")
			continue
		}
		out.Stat("select.outcome.signed." + rel)
		d, s, ident := c08SigTag(hdr, "d"), c08SigTag(hdr, "s"), c08SigTag(hdr, "i")
		obs = append(obs, fmt.Sprintf("signed d=%s s=%s i=%s key=%s", c08HexOrDash(d), c08HexOrDash(s), c08HexOrDash(ident), c08HexOrDash(used[0])))
		if !sd.utf8 && (!isASCII(d) || !isASCII(s) || !isASCII(ident)) {
			out.Violation("C08/non-eai-u-label", op, detail+": non-EAI message signed with non-ASCII d=/s=/i=: "+d+" "+s+" "+ident)
		}
		var msg bytes.Buffer
		textproto.WriteHeader(&msg, hdr)
		msg.Write(body)
		why := ""
		vs, err := msgdkim.VerifyWithOptions(bytes.NewReader(msg.Bytes()), &msgdkim.VerifyOptions{LookupTXT: lookup})
		switch {
		case err != nil:
			why = "go-msgauth: " + err.Error()
		case len(vs) != 1:
			why = fmt.Sprintf("go-msgauth sees %d signatures", len(vs))
		case vs[0].Err != nil:
			why = fmt.Sprintf("go-msgauth against the DNS holding the records the signer published (d=%s s=%s, signed with the key held for %s): %v", d, s, used[0], vs[0].Err)
		}
		if why != "" {
			out.Violation("C08/verify-fails-published-key", op, detail+": "+why)
		} else {
			out.Stat("select.verify.ok")
		}
		chk, err := checkdkim.C08NewCheck(c08Resolver{&mockdns.Resolver{}, lookup})
		if err != nil {
			env.t.Fatal(err)
		}
		cst, err := chk.CheckStateForMsg(ctx, &module.MsgMetadata{ID: "c08sv"})
		if err != nil {
			env.t.Fatal(err)
		}
		pass, vals := false, []string(nil)
		for _, ar := range cst.CheckBody(ctx, hdr, buffer.MemoryBuffer{Slice: body}).AuthResult {
			if dr, ok := ar.(*authres.DKIMResult); ok {
				pass = pass || dr.Value == authres.ResultPass
				vals = append(vals, string(dr.Value)+"("+dr.Reason+")")
			}
		}
		if !pass {
			out.Violation("C08/maddy-check-fails-published-key", op, detail+": check.dkim: "+strings.Join(vals, ","))
		}
	}
	// the hypothesis of C08_signed_domain_has_published_key about the library: the A-label form of a name has the
	// normal form of the name (every name of the case)
	for _, t := range strings.Fields(strings.Split(op, " | ")[2]) {
		n := string(vh.UnhexBytes(strings.SplitN(t, "=", 2)[0]))
		a, aerr := idna.ToASCII(n)
		if aerr != nil {
			continue
		}
		x, xerr := dns.ForLookup(n)
		y, yerr := dns.ForLookup(a)
		if (xerr == nil) != (yerr == nil) || (xerr == nil && x != y) {
			out.Stat("select.law.ascii-keeps-norm.broken")
			out.Note(fmt.Sprintf("ForLookup(ToASCII(%q)) = %q, ForLookup = %q", n, y, x))
		} else {
			out.Stat("select.law.ascii-keeps-norm.holds")
		}
	}
	out.Corr(op, strings.Join(obs, " ; "))
}

func TestVerifC08Select(t *testing.T) {
	t.Parallel()
	out := vh.Open("c08_select")
	defer out.Close()
	env := c08NewEnv(t, out, false)
	if c08Replay(t, "C08 select ", func(op string) {
		k, err := c08ParseSelCase(op)
		if err != nil {
			t.Fatal(err)
		}
		env.runSelect(k)
	}) {
		return
	}
	r := vh.NewRng(vh.Seed() + 809)
	n := vh.N(600)/10 + 2
	// every run (not left to chance): sign_subdomains with an ASCII, a U-label, an A-label and an NFD-spelled
	// configured domain x senders at the domain, below it (1-2 levels), with the parent part in another spelling
	// (case, A-/U-label, NFD), look-alikes and unrelated names, each EAI and non-EAI; and the same without sign_subdomains
	both := func(froms ...string) []c08SelSender {
		var l []c08SelSender
		for _, f := range froms {
			l = append(l, c08SelSender{f, false}, c08SelSender{f, true})
		}
		return l
	}
	for _, fx := range []struct {
		doms  []string
		sel   string
		froms []string
	}{
		{[]string{"example.org"}, "sel", []string{"user@example.org", "user@mail.example.org", "user@a.b.example.org", "user@mail.EXAMPLE.ORG", "user@EXAMPLE.ORG",
			"user@Mail.Example.Org", "user@notexample.org", "user@example.org.evil.test", "", "postmaster"}},
		{[]string{"пример.example"}, "ключ", []string{"user@почта.пример.example", "user@mail.xn--e1afmkfd.example", "user@mail.пример.example", "user@MAIL.Пример.Example",
			"user@xn--e1afmkfd.example", "user@sub.XN--E1AFMKFD.EXAMPLE", "user@xn--80a1acny.xn--e1afmkfd.example", "user@пример.example"}},
		{[]string{"xn--bcher-kva.example"}, "S2024", []string{"user@mail.bücher.example", "user@mail.xn--bcher-kva.example", "user@mail.bu\u0308cher.example", "user@bücher.example",
			"user@MAIL.XN--BCHER-KVA.EXAMPLE", "user@a.b.Xn--Bcher-Kva.example", "user@bu\u0308cher.example"}},
		{[]string{"bu\u0308cher.example"}, "sel", []string{"user@mail.bu\u0308cher.example", "user@mail.bücher.example", "user@bu\u0308cher.example", "user@mail.xn--bcher-kva.example", "user@BÜCHER.example"}},
		{[]string{"Example.Org"}, "xn--h1ajdq", []string{"user@mail.Example.Org", "user@mail.example.org", "user@example.org", "user@x.Example.Org.", "user@Example.Org"}},
	} {
		for _, sub := range []bool{true, false} {
			env.runSelect(&c08SelCase{sub: sub, sel: fx.sel, algo: map[bool]string{true: "ed25519", false: "rsa2048"}[sub], doms: fx.doms, senders: both(fx.froms...)})
		}
	}
	env.runSelect(&c08SelCase{sub: false, sel: "sel", algo: "ed25519", doms: []string{"Example.Org", "bu\u0308cher.example", "sub.пример.example"},
		senders: both("user@example.org", "user@bu\u0308cher.example", "user@bücher.example", "user@sub.xn--e1afmkfd.example", "user@x.sub.пример.example", "user@пример.example", "user@mail.Example.Org", "USER@SUB.ПРИМЕР.EXAMPLE")})
	for i := 0; i < n; i++ {
		env.runSelect(c08GenSelCase(r))
	}
}
