package queue

import (
	"context"
	"fmt"
	"net"
	"os"
	"strconv"
	"strings"
	"sync"
	"testing"
	"time"

	"github.com/emersion/go-message/textproto"
	"github.com/emersion/go-smtp"
	"github.com/foxcpp/go-mockdns"
	"github.com/foxcpp/maddy/framework/address"
	"github.com/foxcpp/maddy/framework/buffer"
	"github.com/foxcpp/maddy/framework/log"
	"github.com/foxcpp/maddy/framework/module"
	"github.com/foxcpp/maddy/internal/target/remote"
	smtp_downstream "github.com/foxcpp/maddy/internal/target/smtp"
	"github.com/foxcpp/maddy/internal/verifshim/vc01hop"
	"github.com/foxcpp/maddy/internal/verifshim/vh"
	"golang.org/x/net/idna"
)

// The queue on top of a REAL forwarding target (target.remote / target.smtp / target.lmtp) that
// talks to a next hop misbehaving in the middle of a session (vc01hop).
//
// op: C01 hop <kind r|s|l> <maxTries> <dsn> <ids> <forms> <utf8> <script>;<script>...
//   forms, one letter per recipient: a = u<i>@d.example, l = ю<i>@d.example, u = U<i>@UP.EXAMPLE,
//     i = u<i>@пример.example, b = u<i>@e.example.  For target.remote every distinct domain string
//     has its own MX (own listener, own per-attempt MAIL counter); the other kinds have one next hop.
//   script of one attempt (later attempts: no faults): mail/limit/rej/data/status/drop/quit
//     mail   <N><act>   the first N MAIL commands of the attempt get act
//     limit  <K><act>   once K recipients were accepted in a transaction RCPT gets act ("-o" = no limit)
//     rej    per recipient o|t|p: RCPT answered 250|450|550
//     data   act after the final dot (T/P: 4xx/5xx to the DATA command); LMTP uses o|T|P only
//     status per recipient o|t|p: LMTP reply after the final dot 250|452|554
//     drop   LMTP: replies sent before the connection is dropped, "-" = all
//     quit   act for RSET and QUIT
//   act letters: see vc01hop.Script.
// Ground truth = the recipients of the transactions the hop acknowledged with 250 after the final dot.

var c01hDomains = map[byte]string{'a': "d.example", 'l': "d.example", 'u': "UP.EXAMPLE", 'i': "пример.example", 'b': "e.example"}

func c01hAddr(id int, form byte) string {
	switch form {
	case 'l':
		return fmt.Sprintf("ю%d@d.example", id)
	case 'u':
		return fmt.Sprintf("U%d@UP.EXAMPLE", id)
	default:
		return fmt.Sprintf("u%d@%s", id, c01hDomains[form])
	}
}

func c01hParseScript(s string, keys []string) (*vc01hop.Script, error) {
	f := strings.Split(s, "/")
	if len(f) != 7 || len(f[0]) < 2 || len(f[1]) < 2 || len(f[2]) != len(keys) || len(f[4]) != len(keys) || len(f[3]) != 1 || len(f[6]) != 1 {
		return nil, fmt.Errorf("bad script %q", s)
	}
	sc := vc01hop.NewScript()
	sc.MailN, _ = strconv.Atoi(f[0][:len(f[0])-1])
	sc.MailAct = f[0][len(f[0])-1]
	if f[1][0] != '-' {
		sc.Limit, _ = strconv.Atoi(f[1][:len(f[1])-1])
		sc.LimitAct = f[1][len(f[1])-1]
	}
	for i, k := range keys {
		switch f[2][i] {
		case 't':
			sc.Rej[k] = 450
		case 'p':
			sc.Rej[k] = 550
		}
		switch f[4][i] {
		case 't':
			sc.Status[k] = 452
		case 'p':
			sc.Status[k] = 554
		}
	}
	sc.DataAct = f[3][0]
	if f[5] != "-" {
		sc.Drop, _ = strconv.Atoi(f[5])
	}
	sc.QuitAct = f[6][0]
	return sc, nil
}

var c01hCase struct {
	sync.Mutex
	n int
}

func c01hRun(t *testing.T, out *vh.Out, op string, port string) {
	toks := strings.Fields(op)
	if len(toks) != 9 {
		t.Errorf("bad op %q", op)
		return
	}
	kind := toks[2]
	maxTries, _ := strconv.Atoi(toks[3])
	dsn := toks[4] == "1"
	var ids []int
	for _, s := range strings.Split(toks[5], ",") {
		v, _ := strconv.Atoi(s)
		ids = append(ids, v)
	}
	forms := toks[6]
	utf8 := toks[7] == "1"
	addrs := map[int]string{}
	keyToID := map[string]int{}
	var keys []string
	for i, id := range ids {
		a := c01hAddr(id, forms[i])
		addrs[id] = a
		k, _ := address.ForLookup(a)
		keyToID[k] = id
		keys = append(keys, k)
	}
	var scripts []*vc01hop.Script
	for _, s := range strings.Split(toks[8], ";") {
		sc, err := c01hParseScript(s, keys)
		if err != nil {
			t.Errorf("%s: %v", op, err)
			return
		}
		scripts = append(scripts, sc)
	}

	sh := vc01hop.NewShared()
	var hops []*vc01hop.Hop
	defer func() {
		for _, h := range hops {
			h.Close()
		}
	}()
	var tgt module.DeliveryTarget
	switch kind {
	case "r":
		// one MX (own loopback address, common port) per distinct domain string
		c01hCase.Lock()
		c01hCase.n++
		block := c01hCase.n
		c01hCase.Unlock()
		var doms []string
		seen := map[string]bool{}
		for i := range ids {
			d := c01hDomains[forms[i]]
			if !seen[d] {
				seen[d] = true
				doms = append(doms, d)
			}
		}
		ok := false
		for try := 0; try < 60 && !ok; try++ {
			hops = hops[:0]
			ok = true
			b := block + try*7
			for j := range doms {
				ip := fmt.Sprintf("127.77.%d.%d", b%250+1, (b/250)%60*4+j+1)
				h, err := vc01hop.Listen(sh, ip+":"+port, false, utf8)
				if err != nil {
					ok = false
					break
				}
				hops = append(hops, h)
			}
			if !ok {
				for _, h := range hops {
					h.Close()
				}
				hops = hops[:0]
			}
		}
		if !ok {
			t.Errorf("no free address for the next hops")
			return
		}
		zones := map[string]mockdns.Zone{}
		for j, d := range doms {
			host := fmt.Sprintf("mx%d.example.invalid.", j)
			zones[host] = mockdns.Zone{A: []string{hops[j].IP()}}
			mx := []net.MX{{Host: host, Pref: 10}}
			zones[d+"."] = mockdns.Zone{MX: mx}
			zones[strings.ToLower(d)+"."] = mockdns.Zone{MX: mx}
			if a, err := idna.ToASCII(d); err == nil {
				zones[a+"."] = mockdns.Zone{MX: mx}
			}
		}
		rt := remote.VerifNewTargetDial(zones, sh.Reg.Dialer)
		defer rt.Close()
		tgt = rt
	case "s", "l":
		h, err := vc01hop.Listen(sh, "127.0.0.1:0", kind == "l", utf8)
		if err != nil {
			t.Errorf("%s: %v", op, err)
			return
		}
		hops = append(hops, h)
		tgt = smtp_downstream.VerifNewDownstream(h.Port(), kind == "l")
	default:
		t.Errorf("bad kind in %q", op)
		return
	}

	attempt := 0
	install := func() {
		sc := vc01hop.NewScript()
		if attempt < len(scripts) {
			sc = scripts[attempt]
		}
		attempt++
		sh.Install(sc, hops...)
	}

	var events []string
	dir, _ := os.MkdirTemp("", "verif-c01h-")
	defer os.RemoveAll(dir)
	mod, _ := NewQueue("", "queue", nil, nil)
	q := mod.(*Queue)
	q.initialRetryTime = 0
	q.retryTimeScale = 1
	q.postInitDelay = 0
	q.maxTries = maxTries
	q.location = dir
	q.hostname = "mx.example.org"
	q.autogenMsgDomain = "example.org"
	q.Log = log.Logger{Out: log.NopOutput{}}
	q.Target = &c01rTarget{inner: tgt, onStart: install}
	bt := &c01Target{addrIdx: map[string]int{}, log: &events, rng: vh.NewRng(1)}
	for id, a := range addrs {
		bt.addrIdx[a] = id
	}
	q.dsnPipeline = &c01Bounce{t: bt}
	if err := q.start(1); err != nil {
		t.Errorf("%s: %v", op, err)
		return
	}
	from := "sender@example.com"
	if !dsn {
		from = ""
	}
	id, _ := module.GenerateMsgID()
	meta := &module.MsgMetadata{ID: id, OriginalFrom: from, DontTraceSender: true, SMTPOpts: smtp.MailOptions{UTF8: true}}
	ctx := context.Background()
	d, err := q.Start(ctx, meta, from)
	if err != nil {
		t.Errorf("%s: %v", op, err)
		return
	}
	for _, i := range ids {
		if err := d.AddRcpt(ctx, addrs[i], smtp.RcptOptions{}); err != nil {
			t.Errorf("%s: %v", op, err)
			return
		}
	}
	hdr := textproto.Header{}
	hdr.Add("Subject", "verif")
	if err := d.Body(ctx, hdr, buffer.MemoryBuffer{Slice: []byte("hello\r\n")}); err != nil {
		t.Errorf("%s: %v", op, err)
		return
	}
	if err := d.Commit(ctx); err != nil {
		t.Errorf("%s: %v", op, err)
		return
	}
	deadline := time.Now().Add(60 * time.Second)
	removed := false
	for time.Now().Before(deadline) {
		ents, _ := os.ReadDir(dir)
		if len(ents) == 0 {
			removed = true
			break
		}
		time.Sleep(300 * time.Microsecond)
	}
	q.Close()

	// ground truth: what the next hops acknowledged
	acked, cmds := sh.Snapshot()
	commits := map[int]int{}
	foreign := []string{}
	for _, tx := range acked {
		for _, a := range tx {
			k, _ := address.ForLookup(a)
			if id, ok := keyToID[k]; ok {
				commits[id]++
			} else {
				foreign = append(foreign, a)
			}
		}
	}
	reports := map[int]int{}
	bt.mu.Lock()
	for _, e := range events {
		if strings.HasPrefix(e, "report:") {
			for _, r := range strings.Split(e[len("report:"):], ",") {
				if v, err := strconv.Atoi(r); err == nil {
					reports[v]++
				} else {
					foreign = append(foreign, r)
				}
			}
		}
	}
	bt.mu.Unlock()
	var cs, rps []string
	for _, i := range ids {
		cs = append(cs, fmt.Sprintf("%d=%d", i, commits[i]))
		rps = append(rps, fmt.Sprintf("%d=%d", i, reports[i]))
	}
	obs := "c:" + strings.Join(cs, ",") + " r:" + strings.Join(rps, ",")
	if removed {
		obs += " removed"
	} else {
		obs += " NOT-REMOVED"
	}
	if len(foreign) > 0 {
		obs += " FOREIGN(" + strings.Join(foreign, ",") + ")"
	}
	out.Corr(op, obs)

	// ---- monitor: the property itself ----
	name := map[string]string{"r": "remote", "s": "smtp", "l": "lmtp"}[kind]
	for _, i := range ids {
		c, rp := commits[i], reports[i]
		ok := (c == 1 && rp == 0) || (c == 0 && rp == 1 && dsn) || (c == 0 && rp == 0 && !dsn)
		if !ok {
			sig := "C01/hop-" + name + "-outcome"
			switch {
			case c == 0 && rp == 0:
				sig = "C01/hop-" + name + "-recipient-lost"
			case c > 1:
				sig = "C01/hop-" + name + "-delivered-twice"
			case c >= 1 && rp >= 1:
				sig = "C01/hop-" + name + "-delivered-and-reported"
			case rp > 1:
				sig = "C01/hop-" + name + "-reported-twice"
			}
			out.Violation(sig, op, fmt.Sprintf("rcpt %d (%s): the next hop acknowledged it %d times, it was named in %d failure reports; %s", i, addrs[i], c, rp, obs))
		}
	}
	if len(foreign) > 0 {
		out.Violation("C01/hop-"+name+"-foreign-recipient", op, obs)
	}
	if attempt > maxTries {
		out.Violation("C01/hop-"+name+"-too-many-attempts", op, fmt.Sprintf("%d attempts with max_tries=%d", attempt, maxTries))
	}
	if !removed {
		out.Violation("C01/hop-"+name+"-not-terminated", op, obs)
	}
	out.Stat("hop.kind." + name)
	out.Stat(fmt.Sprintf("hop.%s.attempts.%d", name, attempt))
	out.StatN("hop.rcpts", len(ids))
	for k, v := range cmds {
		out.StatN("hop.fault."+k, v)
	}
	for _, i := range ids {
		switch {
		case commits[i] == 1:
			out.Stat("hop.outcome.delivered")
		case reports[i] == 1:
			out.Stat("hop.outcome.reported")
		}
	}
}

// c01hGen draws one case.  bias: 0 = mixed, 1 = faults in the RCPT phase, 2 = at teardown, 3 = at MAIL.
func c01hGen(r *vh.Rng, kind string, bias int) string {
	nr := 1 + r.Intn(5)
	if bias == 1 || r.Chance(50) {
		nr = 3 + r.Intn(3)
	}
	utf8 := r.Intn(2)
	// most recipients in one domain, so that one connection carries several of them
	main := "aaalb"[r.Intn(5)]
	if main == 'l' {
		main = 'a'
	}
	forms := ""
	var ids []string
	for j := 1; j <= nr; j++ {
		ids = append(ids, strconv.Itoa(j))
		f := main
		if r.Chance(25) {
			f = "aliub"[r.Intn(5)]
		}
		forms += string(f)
	}
	maxTries := 1 + r.Intn(3)
	session := "cdr" // actions that end the session
	if kind == "r" {
		session = "cdrs"
	}
	any := "tpx" + session
	var scripts []string
	for a := 0; a < maxTries; a++ {
		mail, limit, data, drop, quit := "0o", "-o", "o", "-", "o"
		rej := []byte(strings.Repeat("o", nr))
		st := []byte(strings.Repeat("o", nr))
		heavy := a == 0 || r.Chance(40)
		if heavy && (bias == 3 || r.Chance(15)) {
			mail = fmt.Sprintf("%d%c", 1+r.Intn(3), any[r.Intn(len(any))])
			if r.Chance(30) {
				mail = fmt.Sprintf("9%c", any[r.Intn(len(any))])
			}
		}
		if heavy && (bias == 1 || r.Chance(35)) {
			act := any[r.Intn(len(any))]
			if r.Chance(50) {
				act = session[r.Intn(len(session))]
			}
			limit = fmt.Sprintf("%d%c", r.Intn(nr), act)
		}
		for j := 0; j < nr; j++ {
			if r.Chance(12) {
				rej[j] = "tp"[r.Intn(2)]
			}
			if kind == "l" && r.Chance(20) {
				st[j] = "tp"[r.Intn(2)]
			}
		}
		if r.Chance(25) {
			if kind == "l" {
				data = string("TP"[r.Intn(2)])
			} else {
				acts := "TP" + any
				data = string(acts[r.Intn(len(acts))])
			}
		}
		if kind == "l" && r.Chance(25) {
			drop = strconv.Itoa(r.Intn(nr))
		}
		if bias == 2 || r.Chance(30) {
			acts := "tpxcdr"
			if kind == "r" {
				acts = "tpxcdrs"
			}
			quit = string(acts[r.Intn(len(acts))])
		}
		scripts = append(scripts, strings.Join([]string{mail, limit, string(rej), data, string(st), drop, quit}, "/"))
	}
	return fmt.Sprintf("C01 hop %s %d 1 %s %s %d %s", kind, maxTries, strings.Join(ids, ","), forms, utf8, strings.Join(scripts, ";"))
}

// c01hPort picks the port all MXs of this test process listen on (each on loopback addresses of
// its own) and tells target.remote about it.
func c01hPort() string {
	l, err := net.Listen("tcp", "127.77.0.1:0")
	if err != nil {
		return "52526"
	}
	defer l.Close()
	_, p, _ := net.SplitHostPort(l.Addr().String())
	return p
}

func TestVerifC01Hop(t *testing.T) {
	out := vh.Open("c01_hop")
	defer out.Close()
	port := c01hPort()
	remote.VerifSetPort(port)
	if ops := vh.Replay(); ops != nil {
		for _, op := range ops {
			if strings.HasPrefix(op, "C01 hop ") {
				c01hRun(t, out, op, port)
			}
		}
		return
	}
	r := vh.NewRng(vh.Seed() + 131)
	n := vh.N(600) / 3
	jobs := make(chan string, n)
	for i := 0; i < n; i++ {
		bias := i % 4
		switch i % 5 {
		case 0, 1, 2:
			jobs <- c01hGen(r, "r", bias)
		case 3:
			jobs <- c01hGen(r, "s", bias)
		default:
			jobs <- c01hGen(r, "l", bias)
		}
	}
	close(jobs)
	var wg sync.WaitGroup
	for w := 0; w < 6; w++ {
		wg.Add(1)
		go func() {
			defer wg.Done()
			for op := range jobs {
				c01hRun(t, out, op, port)
			}
		}()
	}
	wg.Wait()
}
