package queue

import (
	"context"
	"fmt"
	"io"
	"net"
	"os"
	"strconv"
	"strings"
	"sync"
	"testing"
	"time"

	"github.com/emersion/go-message/textproto"
	"github.com/emersion/go-smtp"
	"github.com/foxcpp/go-mockdns"
	"github.com/foxcpp/maddy/framework/address"
	"github.com/foxcpp/maddy/framework/buffer"
	"github.com/foxcpp/maddy/framework/log"
	"github.com/foxcpp/maddy/framework/module"
	"github.com/foxcpp/maddy/internal/target/remote"
	smtp_downstream "github.com/foxcpp/maddy/internal/target/smtp"
	"github.com/foxcpp/maddy/internal/verifshim/vc01hop"
	"github.com/foxcpp/maddy/internal/verifshim/vh"
	"golang.org/x/net/idna"
)

// The queue on top of a REAL forwarding target (target.remote / target.smtp / target.lmtp) that
// talks to a next hop misbehaving in the middle of a session (vc01hop).
//
// op: C01 hop <kind r|s|l> <maxTries> <dsn> <ids> <forms> <utf8> <script>;<script>...
//   ids: recipient id = mailbox number b (1..6) + 6*v, v = spelling variant (0..3).  Recipients with
//     the same b and form family are DIFFERENT recipients that spell one mailbox differently
//     (equal under address.ForLookup): the queue, the targets and the monitor keep them apart.
//   forms, one letter per recipient: a = u<b>@d.example, l = ю<b>@d.example, u = U<b>@UP.EXAMPLE,
//     i = u<b>@пример.example, b = u<b>@e.example, n = й<b>@d.example (NFC; odd v: NFD, v >= 2:
//     upper case), j = u<b>@xn--e1afmkfd.example (the A-label spelling of form i; kinds s and l).
//     Odd v flips the case of the local part (a, b, i, j: U<b>; u: u<b>; l: Ю<b>).
//     For target.remote every distinct domain string has its own MX (own listener, own per-attempt
//     MAIL counter); the other kinds have one next hop.
//   script of one attempt (later attempts: no faults): mail/limit/rej/data/status/drop/quit[/body]
//     mail   <N><act>   the first N MAIL commands of the attempt get act
//     limit  <K><act>   once K recipients were accepted in a transaction RCPT gets act ("-o" = no limit)
//     rej    per recipient o|t|p: RCPT answered 250|450|550
//     data   act after the final dot (T/P: 4xx/5xx to the DATA command); LMTP uses o|T|P only
//     status per recipient o|t|p: LMTP reply after the final dot 250|452|554
//     drop   LMTP: replies sent before the connection is dropped, "-" = all
//     quit   act for RSET and QUIT
//     body   what is wrong with the spooled body the target is handed in this attempt: "-" nothing,
//            "O" it cannot be opened, "<k>" its reader fails after k octets (0 = at once, >= length
//            = after the last octet, instead of EOF), "<k>e" the error comes together with the
//            last octets.  The body is c01hBody (8.6 KB, so k in the middle is past what has
//            already gone out on the wire).
//     enh    (optional 9th field) how the enhanced status code of every 4xx/5xx reply of the attempt
//            reads: a agreeing with the basic code (default), n absent, 2 4 5 that class, 0 = 0.1.1,
//            1 = 1.1.1, 9 = 9.0.0, m = -1.-1.-1, k = <class>.1000.1 (vc01hop.Restyle).  The basic
//            code - the one the property speaks of - stays what the action letter says.
//   act letters: see vc01hop.Script.
// Ground truth = the recipients of the transactions the hop acknowledged with 250 after the final dot.

var c01hDomains = map[byte]string{'a': "d.example", 'l': "d.example", 'n': "d.example", 'u': "UP.EXAMPLE", 'i': "пример.example", 'b': "e.example", 'j': "xn--e1afmkfd.example"}

func c01hAddr(id int, form byte) string {
	b, v := (id-1)%6+1, (id-1)/6
	switch form {
	case 'l':
		if v%2 == 1 {
			return fmt.Sprintf("Ю%d@d.example", b)
		}
		return fmt.Sprintf("ю%d@d.example", b)
	case 'n':
		return fmt.Sprintf("%s%d@d.example", []string{"\u0439", "\u0438\u0306", "\u0419", "\u0418\u0306"}[v%4], b)
	case 'u':
		if v%2 == 1 {
			return fmt.Sprintf("u%d@UP.EXAMPLE", b)
		}
		return fmt.Sprintf("U%d@UP.EXAMPLE", b)
	default:
		if v%2 == 1 {
			return fmt.Sprintf("U%d@%s", b, c01hDomains[form])
		}
		return fmt.Sprintf("u%d@%s", b, c01hDomains[form])
	}
}

// c01hWire is the spelling of a recipient on the wire (smtpconn.C.Rcpt: converted to ASCII when it
// is not ASCII and the hop has no SMTPUTF8; "" = cannot be sent).  Computed by the harness on its
// own (x/net/idna), it is how the hop is told which recipient to refuse.
func c01hWire(a string, utf8 bool) string {
	if utf8 || address.IsASCII(a) {
		return a
	}
	at := strings.LastIndex(a, "@")
	if at < 0 || !address.IsASCII(a[:at]) {
		return ""
	}
	d, err := idna.ToASCII(a[at+1:])
	if err != nil {
		return ""
	}
	return a[:at] + "@" + d
}

// c01hBody: "hello", a dot-stuffed line, and lines long enough to fill several write buffers.
var c01hBody = func() []byte {
	var b strings.Builder
	b.WriteString("hello\r\n.leading dot\r\n")
	for i := 0; i < 12; i++ {
		b.WriteString(strings.Repeat(string(rune('a'+i)), 700))
		b.WriteString("\r\n")
	}
	b.WriteString("bye\r\n")
	return []byte(b.String())
}()

func c01hParseScript(s string, keys []string) (*vc01hop.Script, error) {
	f := strings.Split(s, "/")
	if len(f) == 7 {
		f = append(f, "-")
	}
	enh := byte('a')
	if len(f) == 9 {
		if len(f[8]) != 1 || !strings.Contains(c01Styles, f[8]) {
			return nil, fmt.Errorf("bad enhanced code style in %q", s)
		}
		enh = f[8][0]
		f = f[:8]
	}
	if len(f) != 8 || f[7] == "" || len(f[0]) < 2 || len(f[1]) < 2 || len(f[2]) != len(keys) || len(f[4]) != len(keys) || len(f[3]) != 1 || len(f[6]) != 1 {
		return nil, fmt.Errorf("bad script %q", s)
	}
	sc := vc01hop.NewScript()
	sc.Enh = enh
	sc.MailN, _ = strconv.Atoi(f[0][:len(f[0])-1])
	sc.MailAct = f[0][len(f[0])-1]
	if f[1][0] != '-' {
		sc.Limit, _ = strconv.Atoi(f[1][:len(f[1])-1])
		sc.LimitAct = f[1][len(f[1])-1]
	}
	listed := map[string]bool{}
	for i, k := range keys {
		if listed[k] {
			continue // an address listed twice: the hop answers by mailbox
		}
		listed[k] = true
		switch f[2][i] {
		case 't':
			sc.Rej[k] = 450
		case 'p':
			sc.Rej[k] = 550
		}
		switch f[4][i] {
		case 't':
			sc.Status[k] = 452
		case 'p':
			sc.Status[k] = 554
		}
	}
	sc.DataAct = f[3][0]
	if f[5] != "-" {
		sc.Drop, _ = strconv.Atoi(f[5])
	}
	sc.QuitAct = f[6][0]
	switch bf := f[7]; {
	case bf == "-":
	case bf == "O":
		sc.BodyOpen = true
	default:
		if strings.HasSuffix(bf, "e") {
			sc.BodyTogether = true
			bf = bf[:len(bf)-1]
		}
		k, err := strconv.Atoi(bf)
		if err != nil || k < 0 {
			return nil, fmt.Errorf("bad body fault in %q", s)
		}
		sc.BodyK = k
	}
	return sc, nil
}

var c01hCase struct {
	sync.Mutex
	n int
}

func c01hRun(t *testing.T, out *vh.Out, op string, port string) {
	toks := strings.Fields(op)
	if len(toks) != 9 {
		t.Errorf("bad op %q", op)
		return
	}
	kind := toks[2]
	maxTries, _ := strconv.Atoi(toks[3])
	dsn := toks[4] == "1"
	var ids []int
	for _, s := range strings.Split(toks[5], ",") {
		v, _ := strconv.Atoi(s)
		ids = append(ids, v)
	}
	forms := toks[6]
	utf8 := toks[7] == "1"
	addrs := map[int]string{}
	keyToID := map[string]int{} // spelling on the wire -> recipient
	var keys []string
	var distinct []int
	repeated := false
	for i, id := range ids {
		a := c01hAddr(id, forms[i])
		k := c01hWire(a, utf8)
		if k == "" {
			k = "unsendable:" + a // refused locally, the hop never sees it
		}
		if prev, dup := addrs[id]; dup {
			// the address is listed twice in the envelope (identical spelling)
			if prev != a {
				t.Errorf("%s: recipient %d twice with different forms", op, id)
				return
			}
			repeated = true
			keys = append(keys, k)
			continue
		}
		addrs[id] = a
		if _, dup := keyToID[k]; dup {
			t.Errorf("%s: recipients %d and %d cannot be told apart at the next hop (%s)", op, keyToID[k], id, k)
			return
		}
		keyToID[k] = id
		keys = append(keys, k)
		distinct = append(distinct, id)
	}
	var scripts []*vc01hop.Script
	for _, s := range strings.Split(toks[8], ";") {
		sc, err := c01hParseScript(s, keys)
		if err != nil {
			t.Errorf("%s: %v", op, err)
			return
		}
		scripts = append(scripts, sc)
	}

	sh := vc01hop.NewShared()
	var hops []*vc01hop.Hop
	defer func() {
		for _, h := range hops {
			h.Close()
		}
	}()
	var tgt module.DeliveryTarget
	switch kind {
	case "r":
		// one MX (own loopback address, common port) per distinct domain string
		c01hCase.Lock()
		c01hCase.n++
		block := c01hCase.n
		c01hCase.Unlock()
		var doms []string
		seen := map[string]bool{}
		for i := range ids {
			d := c01hDomains[forms[i]]
			if !seen[d] {
				seen[d] = true
				doms = append(doms, d)
			}
		}
		ok := false
		for try := 0; try < 60 && !ok; try++ {
			hops = hops[:0]
			ok = true
			b := block + try*7
			for j := range doms {
				ip := fmt.Sprintf("127.77.%d.%d", b%250+1, (b/250)%60*4+j+1)
				h, err := vc01hop.Listen(sh, ip+":"+port, false, utf8)
				if err != nil {
					ok = false
					break
				}
				hops = append(hops, h)
			}
			if !ok {
				for _, h := range hops {
					h.Close()
				}
				hops = hops[:0]
			}
		}
		if !ok {
			t.Errorf("no free address for the next hops")
			return
		}
		zones := map[string]mockdns.Zone{}
		for j, d := range doms {
			host := fmt.Sprintf("mx%d.example.invalid.", j)
			zones[host] = mockdns.Zone{A: []string{hops[j].IP()}}
			mx := []net.MX{{Host: host, Pref: 10}}
			zones[d+"."] = mockdns.Zone{MX: mx}
			zones[strings.ToLower(d)+"."] = mockdns.Zone{MX: mx}
			if a, err := idna.ToASCII(d); err == nil {
				zones[a+"."] = mockdns.Zone{MX: mx}
			}
		}
		rt := remote.VerifNewTargetDial(zones, sh.Reg.Dialer)
		defer rt.Close()
		tgt = rt
	case "s", "l":
		h, err := vc01hop.Listen(sh, "127.0.0.1:0", kind == "l", utf8)
		if err != nil {
			t.Errorf("%s: %v", op, err)
			return
		}
		hops = append(hops, h)
		tgt = smtp_downstream.VerifNewDownstream(h.Port(), kind == "l")
	default:
		t.Errorf("bad kind in %q", op)
		return
	}

	attempt := 0
	bodyFaults := 0
	install := func() *vc01hop.Script {
		sc := vc01hop.NewScript()
		if attempt < len(scripts) {
			sc = scripts[attempt]
		}
		attempt++
		sh.Install(sc, hops...)
		if sc.HasBodyFault() {
			bodyFaults++
		}
		return sc
	}

	var events []string
	dir, _ := os.MkdirTemp("", "verif-c01h-")
	defer os.RemoveAll(dir)
	mod, _ := NewQueue("", "queue", nil, nil)
	q := mod.(*Queue)
	q.initialRetryTime = 0
	q.retryTimeScale = 1
	q.postInitDelay = 0
	q.maxTries = maxTries
	q.location = dir
	q.hostname = "mx.example.org"
	q.autogenMsgDomain = "example.org"
	q.Log = log.Logger{Out: log.NopOutput{}}
	q.Target = &c01hTarget{inner: tgt, onStart: install}
	bt := &c01Target{addrIdx: map[string]int{}, log: &events, rng: vh.NewRng(1)}
	for id, a := range addrs {
		bt.addrIdx[a] = id
	}
	origRcpts := c01OriginalRcpts(bt, ids, addrs, true, "")
	q.dsnPipeline = &c01Bounce{t: bt}
	if err := q.start(1); err != nil {
		t.Errorf("%s: %v", op, err)
		return
	}
	from := "sender@example.com"
	if !dsn {
		from = ""
	}
	id, _ := module.GenerateMsgID()
	meta := &module.MsgMetadata{ID: id, OriginalFrom: from, DontTraceSender: true, SMTPOpts: smtp.MailOptions{UTF8: true}, OriginalRcpts: origRcpts}
	ctx := context.Background()
	d, err := q.Start(ctx, meta, from)
	if err != nil {
		t.Errorf("%s: %v", op, err)
		return
	}
	for _, i := range ids {
		if err := d.AddRcpt(ctx, addrs[i], smtp.RcptOptions{}); err != nil {
			t.Errorf("%s: %v", op, err)
			return
		}
	}
	hdr := textproto.Header{}
	hdr.Add("Subject", "verif")
	if err := d.Body(ctx, hdr, buffer.MemoryBuffer{Slice: c01hBody}); err != nil {
		t.Errorf("%s: %v", op, err)
		return
	}
	if err := d.Commit(ctx); err != nil {
		t.Errorf("%s: %v", op, err)
		return
	}
	deadline := time.Now().Add(60 * time.Second)
	removed := false
	for time.Now().Before(deadline) {
		ents, _ := os.ReadDir(dir)
		if len(ents) == 0 {
			removed = true
			break
		}
		time.Sleep(300 * time.Microsecond)
	}
	q.Close()

	// ground truth: what the next hops acknowledged
	acked, cmds := sh.Snapshot()
	commits := map[int]int{}
	foreign := []string{}
	for _, tx := range acked {
		for _, a := range tx {
			if id, ok := keyToID[a]; ok {
				commits[id]++
			} else {
				foreign = append(foreign, a)
			}
		}
	}
	reports := map[int]int{}
	bt.mu.Lock()
	for _, e := range events {
		if strings.HasPrefix(e, "report:") {
			inRep := map[int]bool{}
			for _, r := range strings.Split(e[len("report:"):], ",") {
				if v, err := strconv.Atoi(r); err == nil {
					if !inRep[v] {
						inRep[v] = true
						reports[v]++
					}
				} else {
					foreign = append(foreign, r)
				}
			}
		}
	}
	bt.mu.Unlock()
	var cs, rps []string
	for _, i := range ids {
		cs = append(cs, fmt.Sprintf("%d=%d", i, commits[i]))
		rps = append(rps, fmt.Sprintf("%d=%d", i, reports[i]))
	}
	obs := "c:" + strings.Join(cs, ",") + " r:" + strings.Join(rps, ",")
	if removed {
		obs += " removed"
	} else {
		obs += " NOT-REMOVED"
	}
	if len(foreign) > 0 {
		obs += " FOREIGN(" + strings.Join(foreign, ",") + ")"
	}
	out.Corr(op, obs)

	// ---- monitor: the property itself ----
	name := map[string]string{"r": "remote", "s": "smtp", "l": "lmtp"}[kind]
	// the hop's own books: message transfers acknowledged per recipient (an address named in two RCPT
	// commands of ONE transfer got the message once), failure reports naming it (once per report)
	transfers := map[int]int{}
	for k, n := range sh.Transfers() {
		if id, ok := keyToID[k]; ok {
			transfers[id] += n
		}
	}
	if repeated {
		out.Stat("hop." + name + ".repeated-address")
	}
	for _, i := range distinct {
		c, rp := transfers[i], reports[i]
		if !repeated && c != commits[i] {
			panic("C01 hop: transfer count")
		}
		ok := (c == 1 && rp == 0) || (c == 0 && rp == 1 && dsn) || (c == 0 && rp == 0 && !dsn)
		if !ok {
			sig := "C01/hop-" + name + "-outcome"
			switch {
			case c == 0 && rp == 0:
				sig = "C01/hop-" + name + "-recipient-lost"
			case c > 1:
				sig = "C01/hop-" + name + "-delivered-twice"
			case c >= 1 && rp >= 1:
				sig = "C01/hop-" + name + "-delivered-and-reported"
			case rp > 1:
				sig = "C01/hop-" + name + "-reported-twice"
			}
			out.Violation(sig, op, fmt.Sprintf("rcpt %d (%s): the next hop acknowledged it %d times, it was named in %d failure reports; %s", i, addrs[i], c, rp, obs))
		}
	}
	if len(foreign) > 0 {
		out.Violation("C01/hop-"+name+"-foreign-recipient", op, obs)
	}
	if attempt > maxTries {
		out.Violation("C01/hop-"+name+"-too-many-attempts", op, fmt.Sprintf("%d attempts with max_tries=%d", attempt, maxTries))
	}
	if !removed {
		out.Violation("C01/hop-"+name+"-not-terminated", op, obs)
	}
	// re-attempted only after a temporary failure, stated on the BASIC reply codes the hop sent:
	// once the last reply of an attempt that concerns a recipient was 5yz (552 apart, which RFC 5321
	// 4.5.3.1.10 tells clients to read as 452), the hop never hears of that recipient again; and when
	// every failure of the history is a coded reply (no dropped connection, no MAIL fault, no body
	// fault) a recipient whose last reply was 4yz with attempts left is tried again
	coded := true
	for _, sc := range scripts {
		if sc.MailAct != 'o' || sc.Drop >= 0 || sc.HasBodyFault() || strings.IndexByte("cdrs", sc.LimitAct) >= 0 ||
			strings.IndexByte("cdrs", sc.DataAct) >= 0 || strings.IndexByte("cdrs", sc.QuitAct) >= 0 {
			coded = false
		}
	}
	type lastEv struct{ epoch, code int }
	last := map[string]lastEv{}
	flagged := map[string]bool{}
	for _, e := range sh.EventLog() {
		if l, ok := last[e.Rcpt]; ok && l.epoch < e.Epoch && l.code/100 == 5 && l.code != 552 && !flagged[e.Rcpt] {
			flagged[e.Rcpt] = true
			out.Violation("C01/hop-"+name+"-retried-after-permanent", op, fmt.Sprintf("rcpt %d (%s): the next hop answered %d in attempt %d and was offered the recipient again in attempt %d; %s", keyToID[e.Rcpt], e.Rcpt, l.code, l.epoch, e.Epoch, obs))
		}
		last[e.Rcpt] = lastEv{e.Epoch, e.Code}
	}
	if coded {
		for k, l := range last {
			if (l.code/100 == 4 || l.code == 552) && l.epoch < maxTries && l.epoch <= attempt {
				out.Violation("C01/hop-"+name+"-not-retried-after-temporary", op, fmt.Sprintf("rcpt %d (%s): the next hop answered %d in attempt %d of %d and never heard of the recipient again; %s", keyToID[k], k, l.code, l.epoch, maxTries, obs))
			}
		}
		out.Stat("hop." + name + ".coded-replies-only")
	}
	for _, sc := range scripts {
		if sc.Enh != 'a' {
			out.Stat("hop." + name + ".enh-style." + string(sc.Enh))
		}
	}
	out.Stat("hop.kind." + name)
	out.Stat(fmt.Sprintf("hop.%s.attempts.%d", name, attempt))
	out.StatN("hop.rcpts", len(ids))
	for k, v := range cmds {
		out.StatN("hop.fault."+k, v)
	}
	if bodyFaults > 0 {
		out.Stat("hop." + name + ".bodyfault")
	}
	if c01HasSpellings(addrs) {
		out.Stat("hop." + name + ".spellings")
	}
	for _, i := range ids {
		switch {
		case commits[i] == 1:
			out.Stat("hop.outcome.delivered")
		case reports[i] == 1:
			out.Stat("hop.outcome.reported")
		}
	}
}

// c01hTarget stands between the queue and the real target: it installs the hop script of the
// attempt and, when the script says so, hands the target a body that cannot be read to the end.
type c01hTarget struct {
	inner   module.DeliveryTarget
	onStart func() *vc01hop.Script
}

type c01hDelivery struct {
	module.Delivery
	sc *vc01hop.Script
}

type c01hPartialDelivery struct {
	*c01hDelivery
	p module.PartialDelivery
}

func (t *c01hTarget) Start(ctx context.Context, m *module.MsgMetadata, from string) (module.Delivery, error) {
	sc := t.onStart()
	d, err := t.inner.Start(ctx, m, from)
	if err != nil {
		return nil, err
	}
	w := &c01hDelivery{Delivery: d, sc: sc}
	if p, ok := d.(module.PartialDelivery); ok {
		return &c01hPartialDelivery{c01hDelivery: w, p: p}, nil
	}
	return w, nil
}

func (d *c01hDelivery) wrap(b buffer.Buffer) buffer.Buffer {
	if !d.sc.HasBodyFault() {
		return b
	}
	fb := vc01hop.FaultBuffer{OpenErr: d.sc.BodyOpen, K: d.sc.BodyK, Together: d.sc.BodyTogether}
	if r, err := b.Open(); err == nil {
		fb.Data, _ = io.ReadAll(r)
		r.Close()
	}
	return fb
}

func (d *c01hDelivery) Body(ctx context.Context, h textproto.Header, b buffer.Buffer) error {
	return d.Delivery.Body(ctx, h, d.wrap(b))
}

func (d *c01hPartialDelivery) BodyNonAtomic(ctx context.Context, sc module.StatusCollector, h textproto.Header, b buffer.Buffer) {
	d.p.BodyNonAtomic(ctx, sc, h, d.wrap(b))
}

// c01hGen draws one case.  bias: 0 = mixed, 1 = faults in the RCPT phase, 2 = at teardown, 3 = at MAIL,
// 4 = the spooled body cannot be read in the first attempt (sub picks how), 5 = several spellings of one mailbox
// with different per-recipient outcomes in the first attempt, 6 = coded replies whose enhanced status code
// disagrees with the basic code / is odd / absent (sub picks the style and whether 5yz or 4yz comes first).
func c01hGen(r *vh.Rng, kind string, bias, sub int) string {
	nr := 1 + r.Intn(5)
	if bias == 1 || r.Chance(50) {
		nr = 3 + r.Intn(3)
	}
	utf8 := r.Intn(2)
	// most recipients in one domain, so that one connection carries several of them
	main := "aaalb"[r.Intn(5)]
	if main == 'l' {
		main = 'a'
	}
	forms := ""
	var ids []string
	for j := 1; j <= nr; j++ {
		ids = append(ids, strconv.Itoa(j))
		f := main
		if r.Chance(25) {
			f = "aliub"[r.Intn(5)]
		}
		forms += string(f)
	}
	// spelled: positions of the recipients that spell one mailbox
	var spelled []int
	if bias == 5 || r.Chance(12) {
		type rc struct {
			id   int
			form byte
		}
		var set []rc
		fam := r.Intn(10)
		if bias == 5 {
			fam = sub % 10 // every family for every target in every run
		}
		switch {
		case fam < 4: // case of an ASCII local part
			f := "aabui"[r.Intn(5)]
			set = []rc{{1, f}, {7, f}}
			if f == 'i' && kind != "r" && r.Chance(70) {
				// and the A-label spelling of the domain (told apart on the wire with SMTPUTF8 only)
				utf8 = 1
				set = append(set, rc{13, 'j'})
				if r.Chance(40) {
					set = append(set, rc{19, 'j'})
				}
			}
		case fam < 6: // A-labels vs U-labels
			if kind != "r" {
				utf8 = 1
				set = []rc{{1, 'i'}, {13, 'j'}}
			} else {
				set = []rc{{1, 'a'}, {7, 'a'}}
			}
		case fam < 7: // case of a non-ASCII local part
			set = []rc{{1, 'l'}, {7, 'l'}}
			if r.Chance(80) {
				utf8 = 1
			}
		default: // NFC vs NFD (and case) of a non-ASCII local part
			vs := []int{0, 1, 2, 3}
			for j := range vs {
				k := j + r.Intn(len(vs)-j)
				vs[j], vs[k] = vs[k], vs[j]
			}
			if vs[0]%2 == vs[1]%2 {
				vs[1] ^= 1 // at least one NFC/NFD pair
				if vs[2] == vs[1] {
					vs[2] ^= 1
				}
			}
			for _, v := range vs[:2+r.Intn(2)] {
				set = append(set, rc{1 + 6*v, 'n'})
			}
			if r.Chance(80) {
				utf8 = 1
			}
		}
		// the others: mailboxes 2.., any spelling of theirs
		others := r.Intn(3)
		all := append([]rc{}, set...)
		for j := 0; j < others; j++ {
			f := main
			if r.Chance(25) {
				f = "aliub"[r.Intn(5)]
			}
			all = append(all, rc{2 + j + 6*r.Intn(2), f})
		}
		for j := range all {
			k := j + r.Intn(len(all)-j)
			all[j], all[k] = all[k], all[j]
		}
		ids, forms = nil, ""
		for j, x := range all {
			ids = append(ids, strconv.Itoa(x.id))
			forms += string(x.form)
			if (x.id-1)%6 == 0 {
				spelled = append(spelled, j)
			}
		}
		nr = len(all)
	}
	maxTries := 1 + r.Intn(3)
	session := "cdr" // actions that end the session
	if kind == "r" {
		session = "cdrs"
	}
	any := "tpx" + session
	var scripts []string
	for a := 0; a < maxTries; a++ {
		mail, limit, data, drop, quit, body := "0o", "-o", "o", "-", "o", "-"
		rej := []byte(strings.Repeat("o", nr))
		st := []byte(strings.Repeat("o", nr))
		heavy := a == 0 || r.Chance(40)
		if len(spelled) > 0 && a == 0 && r.Chance(80) {
			heavy = false // a quiet session: what differs is the answer per recipient
		}
		if heavy && (bias == 3 || r.Chance(15)) {
			mail = fmt.Sprintf("%d%c", 1+r.Intn(3), any[r.Intn(len(any))])
			if r.Chance(30) {
				mail = fmt.Sprintf("9%c", any[r.Intn(len(any))])
			}
		}
		if heavy && (bias == 1 || r.Chance(35)) {
			act := any[r.Intn(len(any))]
			if r.Chance(50) {
				act = session[r.Intn(len(session))]
			}
			limit = fmt.Sprintf("%d%c", r.Intn(nr), act)
		}
		for j := 0; j < nr; j++ {
			if r.Chance(12) {
				rej[j] = "tp"[r.Intn(2)]
			}
			if kind == "l" && r.Chance(20) {
				st[j] = "tp"[r.Intn(2)]
			}
		}
		if len(spelled) > 0 && a == 0 {
			// one spelling fails, another one does not
			bad := spelled[r.Intn(len(spelled))]
			good := spelled[r.Intn(len(spelled))]
			for good == bad {
				good = spelled[r.Intn(len(spelled))]
			}
			rej[good], st[good] = 'o', 'o'
			if kind == "l" && r.Chance(50) {
				st[bad] = "tp"[r.Intn(2)]
			} else {
				rej[bad] = "tp"[r.Intn(2)]
			}
		}
		if r.Chance(25) && !(len(spelled) > 0 && a == 0 && !heavy) {
			if kind == "l" {
				data = string("TP"[r.Intn(2)])
			} else {
				acts := "TP" + any
				data = string(acts[r.Intn(len(acts))])
			}
		}
		if kind == "l" && r.Chance(25) && (heavy || a > 0) {
			drop = strconv.Itoa(r.Intn(nr))
		}
		if bias == 2 || r.Chance(30) {
			acts := "tpxcdr"
			if kind == "r" {
				acts = "tpxcdrs"
			}
			quit = string(acts[r.Intn(len(acts))])
		}
		if (a == 0 && bias == 4) || r.Chance(6) {
			n := len(c01hBody)
			pick := r.Intn(4)
			if a == 0 && bias == 4 {
				pick = sub % 4 // every kind of body fault for every target in every run
			}
			switch pick {
			case 0:
				body = "O"
			case 1: // at once, or inside the first lines
				body = strconv.Itoa([]int{0, 0, 1 + r.Intn(30)}[r.Intn(3)])
			case 2: // every octet, then the error instead of EOF; or inside the last line
				body = strconv.Itoa([]int{n, n, n - 1 - r.Intn(6)}[r.Intn(3)])
			default:
				body = strconv.Itoa(1 + r.Intn(n-1))
			}
			if body != "O" && r.Chance(30) {
				body += "e"
			}
		}
		sc := strings.Join([]string{mail, limit, string(rej), data, string(st), drop, quit, body}, "/")
		if bias == 6 {
			// the reply grid: a session in which every failure is a coded reply; somebody is refused in
			// the first attempt (alternately 5yz / 4yz), the enhanced status code of the replies walks
			// through the styles (disagreeing class, odd class, absent, out of range)
			if a == 0 || r.Chance(50) {
				rej = []byte(strings.Repeat("o", nr))
				st = []byte(strings.Repeat("o", nr))
				j := r.Intn(nr)
				c := "pt"[(sub+a)%2]
				data = "o"
				switch {
				case kind == "l" && r.Chance(50):
					st[j] = c
				case r.Chance(25):
					data = string("PT"[(sub+a)%2])
					if kind != "l" && r.Chance(50) {
						data = string(c)
					}
				default:
					rej[j] = c
				}
				for j2 := 0; j2 < nr; j2++ {
					if j2 != j && r.Chance(20) {
						rej[j2] = "tp"[r.Intn(2)]
					}
				}
				sc = strings.Join([]string{"0o", "-o", string(rej), data, string(st), "-", "o", "-"}, "/")
			} else {
				sc = "0o/-o/" + strings.Repeat("o", nr) + "/o/" + strings.Repeat("o", nr) + "/-/o/-"
			}
			styles := "45019mkn2"
			sc += "/" + string(styles[(sub+a)%len(styles)])
		} else if r.Chance(15) {
			sc += "/" + string(c01Styles[r.Intn(len(c01Styles))])
		}
		scripts = append(scripts, sc)
	}
	return fmt.Sprintf("C01 hop %s %d 1 %s %s %d %s", kind, maxTries, strings.Join(ids, ","), forms, utf8, strings.Join(scripts, ";"))
}

// c01hGenDup: an address listed twice in the envelope (identical spelling), most often FOLLOWED by
// other recipients of the same next hop; a quiet session in the first attempt in which the hop
// answers per mailbox: sub picks who is refused (a later recipient / the repeated one / nobody) and
// where (LMTP: per-recipient reply after the final dot, 452 / 554; otherwise RCPT 450 / 550).
func c01hGenDup(r *vh.Rng, kind string, sub int) string {
	others := 1 + r.Intn(2)
	ids := []int{1, 1}
	if r.Chance(15) {
		ids = append(ids, 1)
	}
	for j := 0; j < others; j++ {
		ids = append(ids, 2+j)
	}
	if r.Chance(25) {
		// another recipient first, or between the two
		at := r.Intn(2)
		ids = append(ids[:at], append([]int{5}, ids[at:]...)...)
	}
	nr := len(ids)
	form := "aab"[r.Intn(3)]
	maxTries := 1 + r.Intn(3)
	var scripts []string
	for a := 0; a < maxTries; a++ {
		rej := []byte(strings.Repeat("o", nr))
		st := []byte(strings.Repeat("o", nr))
		set := func(b []byte, id int, c byte) {
			for j, x := range ids {
				if x == id {
					b[j] = c
				}
			}
		}
		if a == 0 || r.Chance(40) {
			c := "pt"[(sub/3+a)%2]
			who := ids[nr-1] // a recipient after the repeated address
			switch sub % 3 {
			case 1:
				who = 1
			case 2:
				who = ids[nr-1-r.Intn(others)]
			}
			if kind == "l" && (a > 0 || sub%2 == 0 || r.Chance(50)) {
				set(st, who, c)
			} else {
				set(rej, who, c)
			}
			if r.Chance(20) {
				set(st, 1, "tp"[r.Intn(2)])
			}
		}
		scripts = append(scripts, strings.Join([]string{"0o", "-o", string(rej), "o", string(st), "-", "o", "-"}, "/"))
	}
	var is []string
	for _, x := range ids {
		is = append(is, strconv.Itoa(x))
	}
	return fmt.Sprintf("C01 hop %s %d 1 %s %s %d %s", kind, maxTries, strings.Join(is, ","), strings.Repeat(string(form), nr), r.Intn(2), strings.Join(scripts, ";"))
}

// c01hPort picks the port all MXs of this test process listen on (each on loopback addresses of
// its own) and tells target.remote about it.
func c01hPort() string {
	l, err := net.Listen("tcp", "127.77.0.1:0")
	if err != nil {
		return "52526"
	}
	defer l.Close()
	_, p, _ := net.SplitHostPort(l.Addr().String())
	return p
}

func TestVerifC01Hop(t *testing.T) {
	out := vh.Open("c01_hop")
	defer out.Close()
	port := c01hPort()
	remote.VerifSetPort(port)
	if ops := vh.Replay(); ops != nil {
		for _, op := range ops {
			if strings.HasPrefix(op, "C01 hop ") {
				c01hRun(t, out, op, port)
			}
		}
		return
	}
	r := vh.NewRng(vh.Seed() + 131)
	n := vh.N(600) / 3
	jobs := make(chan string, n)
	for i := 0; i < n; i++ {
		bias := i % 7
		sub := i / 35 // bias and kind repeat every 35 cases
		if i%8 == 7 {
			// an address listed twice: LMTP in half of the cases (statuses are mapped to recipients there)
			jobs <- c01hGenDup(r, string("lsrl"[(i/8)%4]), i/32)
			continue
		}
		switch i % 5 {
		case 0, 1, 2:
			jobs <- c01hGen(r, "r", bias, sub)
		case 3:
			jobs <- c01hGen(r, "s", bias, sub)
		default:
			jobs <- c01hGen(r, "l", bias, sub)
		}
	}
	close(jobs)
	var wg sync.WaitGroup
	for w := 0; w < 6; w++ {
		wg.Add(1)
		go func() {
			defer wg.Done()
			for op := range jobs {
				c01hRun(t, out, op, port)
			}
		}()
	}
	wg.Wait()
}
