package queue

import (
	"strings"
	"testing"

	"github.com/foxcpp/maddy/framework/exterrors"
	"github.com/foxcpp/maddy/internal/verifshim/verr"
	"github.com/foxcpp/maddy/internal/verifshim/vh"
)

func c16Queue(out *vh.Out, op string) {
	toks := strings.Fields(op)
	n, _ := verr.Parse(toks[2:])
	e := n.Build()
	r := toSMTPErr(e)
	// the retry decision tryDelivery takes for this error (before the attempt bound)
	retried := exterrors.IsTemporaryOrUnspec(e)
	rs := "0"
	if retried {
		rs = "1"
	}
	out.Corr(op, verr.CanonStored(r)+" retry="+rs)
	verr.CheckReply(out, "queue", op, n, r, false, retried)
	if verr.WellFormed(n) {
		out.Stat("tosmtp.wellformed")
	} else {
		out.Stat("tosmtp.malformed")
	}
}

func TestVerifC16Queue(t *testing.T) {
	out := vh.Open("c16_queue")
	defer out.Close()
	if ops := vh.Replay(); ops != nil {
		for _, op := range ops {
			if strings.HasPrefix(op, "C16 tosmtp") {
				c16Queue(out, op)
			}
		}
		return
	}
	r := vh.NewRng(vh.Seed() + 7)
	n := vh.N(4000)
	for i := 0; i < n; i++ {
		depth := r.Intn(5)
		if r.Chance(5) {
			depth = 5 + r.Intn(8)
		}
		node := verr.Gen(r, depth, r.Chance(75))
		c16Queue(out, "C16 tosmtp "+node.String())
	}
}
