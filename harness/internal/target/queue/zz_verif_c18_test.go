package queue

// C18 — failure reports through the REAL queue: a scripted downstream target fails recipients
// with generated error values per attempt; a scripted bounce target records what emitDSN hands
// over (and fails at a chosen stage); every report is parsed with Go's stdlib MIME packages
// (vdsn.Parse), rendered canonically and compared with the Lean model; independently of the model
// the property is evaluated on the real execution.
//
// op: C18 q <utf8> <rtls> <pipeline> <maxTries> <failAt> <from> <ofrom> <rcvd> <hdr> <host> <domain>
//           <msgid> <names> <omap> <rcpts> <plans> <idna-table> <kind> <front> <truth>
//   names  id=hex,…           the strings the address ids stand for (0 = "")
//   omap   key>val,…          MsgMeta.OriginalRcpts (ids) prepared by the harness (front = -)
//   plans  attempt;attempt…   attempt = item,… or -; item (err: verr prefix notation joined by ~):
//                             id=err   the target refuses the recipient at AddRcpt
//                             S=err    the target's Start fails
//                             B=err    Body fails (atomic target: the message is refused at DATA)
//                             b<id>=err per-recipient status after the body (kind p: PartialDelivery)
//                             C=err    Commit fails
//   kind   a | p              the downstream target is atomic / implements module.PartialDelivery
//   front  -                  the message is handed to Queue.Start directly, OriginalRcpts prepared
//          <nested>/<given>/<g>/<s>/<r>/<n>
//                             the message is submitted to a REAL msgpipeline.MsgPipeline whose
//                             default route ends in the queue; given = the recipients the sender
//                             names (ids joined by +); g, s, r = rewrite rules (in>out+out,…) of
//                             the global / per-source / per-destination modifiers; nested = 1: the
//                             destination block reroutes into a second real pipeline with the
//                             global rules n; the sender modifier maps <ofrom> to <from>.
//                             rcpts is then what the generator expects the queue to be given
//   truth  eff:root:levels,…  ground truth for the monitor only: the address the sender used for
//                             each effective recipient and the number of rewriting levels

import (
	"bytes"
	"context"
	"errors"
	"fmt"
	"io"
	"os"
	"sort"
	"strconv"
	"strings"
	"sync"
	"testing"
	"time"

	"github.com/emersion/go-message/textproto"
	"github.com/emersion/go-smtp"
	"github.com/foxcpp/maddy/framework/address"
	"github.com/foxcpp/maddy/framework/buffer"
	"github.com/foxcpp/maddy/framework/config"
	"github.com/foxcpp/maddy/framework/log"
	"github.com/foxcpp/maddy/framework/module"
	"github.com/foxcpp/maddy/internal/msgpipeline"
	"github.com/foxcpp/maddy/internal/verifshim/vdsn"
	"github.com/foxcpp/maddy/internal/verifshim/verr"
	"github.com/foxcpp/maddy/internal/verifshim/vh"
	"golang.org/x/net/idna"
	"golang.org/x/text/unicode/norm"
)

type c18Case struct {
	utf8, rtls, pipeline bool
	maxTries             int
	failAt               byte
	from, ofrom          int
	rcvd                 string
	hdr                  int
	host, domain, msgid  string
	names                map[int]string
	omap                 [][2]int
	rcpts                []int
	plans                []*c18Plan
	kind                 byte // 'a' atomic, 'p' PartialDelivery
	front                *c18Front
	root                 map[int]int
	levels               map[int]int
}

// c18Plan: what the scripted downstream target answers in one attempt.
type c18Plan struct {
	start, body, commit *verr.Node
	rcpt, bodyRc        map[int]*verr.Node
}

func c18NewPlan() *c18Plan {
	return &c18Plan{rcpt: map[int]*verr.Node{}, bodyRc: map[int]*verr.Node{}}
}

// c18Front: the real pipeline(s) the message passes before it reaches the queue.
type c18Front struct {
	nested     bool
	given      []int
	g, s, r, n [][]int // rules: [in, out…]
}

func c18RulesStr(rs [][]int) string {
	if len(rs) == 0 {
		return "-"
	}
	var l []string
	for _, r := range rs {
		var o []string
		for _, x := range r[1:] {
			o = append(o, strconv.Itoa(x))
		}
		l = append(l, strconv.Itoa(r[0])+">"+strings.Join(o, "+"))
	}
	return strings.Join(l, ",")
}

func c18ParseRules(s string) [][]int {
	if s == "-" {
		return nil
	}
	var rs [][]int
	for _, e := range strings.Split(s, ",") {
		kv := strings.SplitN(e, ">", 2)
		k, _ := strconv.Atoi(kv[0])
		r := []int{k}
		for _, o := range strings.Split(kv[1], "+") {
			v, _ := strconv.Atoi(o)
			r = append(r, v)
		}
		rs = append(rs, r)
	}
	return rs
}

func (f *c18Front) String() string {
	if f == nil {
		return "-"
	}
	var g []string
	for _, x := range f.given {
		g = append(g, strconv.Itoa(x))
	}
	gs := strings.Join(g, "+")
	if gs == "" {
		gs = "-"
	}
	return strings.Join([]string{c18Bool(f.nested), gs, c18RulesStr(f.g), c18RulesStr(f.s), c18RulesStr(f.r), c18RulesStr(f.n)}, "/")
}

func c18ParseFront(s string) *c18Front {
	if s == "-" {
		return nil
	}
	t := strings.Split(s, "/")
	f := &c18Front{nested: t[0] == "1", g: c18ParseRules(t[2]), s: c18ParseRules(t[3]), r: c18ParseRules(t[4]), n: c18ParseRules(t[5])}
	if t[1] != "-" {
		for _, x := range strings.Split(t[1], "+") {
			v, _ := strconv.Atoi(x)
			f.given = append(f.given, v)
		}
	}
	return f
}

func c18Bool(b bool) string {
	if b {
		return "1"
	}
	return "0"
}

func (c *c18Case) name(id int) string { return c.names[id] }

func (c *c18Case) idOf(s string) string {
	if s == "" {
		return "0"
	}
	for id, n := range c.names {
		if n == s {
			return strconv.Itoa(id)
		}
	}
	return "?" + vh.HexRunes(s)
}

// intermediateOf: the address the LAST pipeline level was given for the effective recipient r
// (what a one-level look-up in OriginalRcpts lands on); 0 = r was not rewritten by it.
func (c *c18Case) intermediateOf(r int) int {
	if c.front == nil {
		for _, kv := range c.omap {
			if kv[0] == r {
				return kv[1]
			}
		}
		return 0
	}
	for _, rule := range c.front.n {
		for _, o := range rule[1:] {
			if o == r && rule[0] != r {
				return rule[0]
			}
		}
	}
	return 0
}

func c18SortedIDs(m map[int]string) []int {
	var ids []int
	for id := range m {
		ids = append(ids, id)
	}
	sort.Ints(ids)
	return ids
}

func (c *c18Case) op() string {
	var names, omap, rcpts, plans, truth, addrs []string
	for _, id := range c18SortedIDs(c.names) {
		names = append(names, fmt.Sprintf("%d=%s", id, vh.HexRunes(c.names[id])))
		addrs = append(addrs, c.names[id])
	}
	for _, kv := range c.omap {
		omap = append(omap, fmt.Sprintf("%d>%d", kv[0], kv[1]))
	}
	for _, r := range c.rcpts {
		rcpts = append(rcpts, strconv.Itoa(r))
		truth = append(truth, fmt.Sprintf("%d:%d:%d", r, c.root[r], c.levels[r]))
	}
	for _, p := range c.plans {
		var es []string
		es1 := func(k string, n *verr.Node) {
			if n != nil {
				es = append(es, k+"="+strings.ReplaceAll(n.String(), " ", "~"))
			}
		}
		es1("S", p.start)
		for _, r := range c.rcpts {
			es1(strconv.Itoa(r), p.rcpt[r])
		}
		es1("B", p.body)
		for _, r := range c.rcpts {
			es1("b"+strconv.Itoa(r), p.bodyRc[r])
		}
		es1("C", p.commit)
		if len(es) == 0 {
			plans = append(plans, "-")
		} else {
			plans = append(plans, strings.Join(es, ","))
		}
	}
	j := func(l []string) string {
		if len(l) == 0 {
			return "-"
		}
		return strings.Join(l, ",")
	}
	return strings.Join([]string{"C18", "q", c18Bool(c.utf8), c18Bool(c.rtls), c18Bool(c.pipeline), strconv.Itoa(c.maxTries), string([]byte{c.failAt}),
		strconv.Itoa(c.from), strconv.Itoa(c.ofrom), vh.HexRunes(c.rcvd), strconv.Itoa(c.hdr), vh.HexRunes(c.host), vh.HexRunes(c.domain), vh.HexRunes(c.msgid),
		j(names), j(omap), j(rcpts), strings.Join(plans, ";"), vdsn.Table(c.utf8, addrs, []string{c.host, c.rcvd}),
		string([]byte{c.kind}), c.front.String(), j(truth)}, " ")
}

func c18Parse(op string) *c18Case {
	t := strings.Fields(op)
	atoi := func(s string) int { v, _ := strconv.Atoi(s); return v }
	c := &c18Case{utf8: t[2] == "1", rtls: t[3] == "1", pipeline: t[4] == "1", maxTries: atoi(t[5]), failAt: t[6][0], from: atoi(t[7]), ofrom: atoi(t[8]),
		rcvd: vh.UnhexRunes(t[9]), hdr: atoi(t[10]), host: vh.UnhexRunes(t[11]), domain: vh.UnhexRunes(t[12]), msgid: vh.UnhexRunes(t[13]),
		names: map[int]string{}, root: map[int]int{}, levels: map[int]int{}}
	list := func(s string) []string {
		if s == "-" {
			return nil
		}
		return strings.Split(s, ",")
	}
	for _, e := range list(t[14]) {
		kv := strings.SplitN(e, "=", 2)
		c.names[atoi(kv[0])] = vh.UnhexRunes(kv[1])
	}
	for _, e := range list(t[15]) {
		kv := strings.SplitN(e, ">", 2)
		c.omap = append(c.omap, [2]int{atoi(kv[0]), atoi(kv[1])})
	}
	for _, e := range list(t[16]) {
		c.rcpts = append(c.rcpts, atoi(e))
	}
	for _, ps := range strings.Split(t[17], ";") {
		p := c18NewPlan()
		for _, e := range list(ps) {
			kv := strings.SplitN(e, "=", 2)
			n, _ := verr.Parse(strings.Split(kv[1], "~"))
			switch {
			case kv[0] == "S":
				p.start = n
			case kv[0] == "B":
				p.body = n
			case kv[0] == "C":
				p.commit = n
			case kv[0][0] == 'b':
				p.bodyRc[atoi(kv[0][1:])] = n
			default:
				p.rcpt[atoi(kv[0])] = n
			}
		}
		c.plans = append(c.plans, p)
	}
	c.kind = t[19][0]
	c.front = c18ParseFront(t[20])
	for _, e := range list(t[21]) {
		f := strings.Split(e, ":")
		c.root[atoi(f[0])] = atoi(f[1])
		c.levels[atoi(f[0])] = atoi(f[2])
	}
	return c
}

// ---- scripted downstream target: answers every stage of an attempt according to the plan ----

type c18Target struct {
	mu      sync.Mutex
	c       *c18Case
	attempt int        // attempts started so far
	tries   [][]string // recipients offered per attempt
	omaps   []string   // MsgMeta.OriginalRcpts as the target is shown it, per attempt
}

type c18Delivery struct {
	t        *c18Target
	plan     *c18Plan
	accepted []int
}

// c18PartialDelivery: the same target speaking LMTP-style per-recipient statuses.
type c18PartialDelivery struct{ *c18Delivery }

// omapStr renders a rewrite map with the ids of the case, sorted by key.
func (c *c18Case) omapStr(m map[string]string) string {
	type kv struct {
		k    int
		s, v string
	}
	var l []kv
	for k, v := range m {
		ks := c.idOf(k)
		n, err := strconv.Atoi(ks)
		if err != nil {
			n = 1 << 30
		}
		l = append(l, kv{n, ks, c.idOf(v)})
	}
	sort.Slice(l, func(i, j int) bool {
		if l[i].k != l[j].k {
			return l[i].k < l[j].k
		}
		return l[i].s < l[j].s
	})
	var out []string
	for _, e := range l {
		out = append(out, e.s+">"+e.v)
	}
	return strings.Join(out, ",")
}

func (t *c18Target) Start(ctx context.Context, msgMeta *module.MsgMetadata, mailFrom string) (module.Delivery, error) {
	t.mu.Lock()
	defer t.mu.Unlock()
	p := c18NewPlan()
	if t.attempt < len(t.c.plans) {
		p = t.c.plans[t.attempt]
	}
	t.attempt++
	t.tries = append(t.tries, nil)
	t.omaps = append(t.omaps, t.c.omapStr(msgMeta.OriginalRcpts))
	if p.start != nil {
		return nil, p.start.Build()
	}
	d := &c18Delivery{t: t, plan: p}
	if t.c.kind == 'p' {
		return &c18PartialDelivery{d}, nil
	}
	return d, nil
}

func (d *c18Delivery) AddRcpt(ctx context.Context, to string, _ smtp.RcptOptions) error {
	d.t.mu.Lock()
	defer d.t.mu.Unlock()
	id := d.t.c.idOf(to)
	d.t.tries[len(d.t.tries)-1] = append(d.t.tries[len(d.t.tries)-1], id)
	n, _ := strconv.Atoi(id)
	if node := d.plan.rcpt[n]; node != nil {
		return node.Build()
	}
	d.accepted = append(d.accepted, n)
	return nil
}

func (d *c18Delivery) Body(ctx context.Context, header textproto.Header, body buffer.Buffer) error {
	if d.plan.body != nil {
		return d.plan.body.Build()
	}
	return nil
}

func (d *c18PartialDelivery) BodyNonAtomic(ctx context.Context, sc module.StatusCollector, header textproto.Header, body buffer.Buffer) {
	for _, r := range d.accepted {
		if n := d.plan.bodyRc[r]; n != nil {
			sc.SetStatus(d.t.c.name(r), n.Build())
		} else {
			sc.SetStatus(d.t.c.name(r), nil)
		}
	}
}

func (d *c18Delivery) Abort(ctx context.Context) error { return nil }
func (d *c18Delivery) Commit(ctx context.Context) error {
	if d.plan.commit != nil {
		return d.plan.commit.Build()
	}
	return nil
}

// ---- scripted bounce pipeline ----

type c18Handover struct {
	attempt                     int
	calls                       []string // start rcpt body commit abort, with ok/fail
	mailFrom, metaOriginalFrom  string
	metaUTF8, metaRTLS          bool
	rcpts                       []string
	msg                         []byte // header + body as handed to Body
	startOK, rcptOK, bodyOK     bool
	commitOK, aborted, commited bool
}

type c18Bounce struct {
	t      *c18Target
	failAt byte
	mu     sync.Mutex
	hos    []*c18Handover
}

type c18BounceDelivery struct {
	b  *c18Bounce
	ho *c18Handover
}

var c18ErrBounce = errors.New("bounce pipeline: scripted failure")

func (b *c18Bounce) Start(ctx context.Context, msgMeta *module.MsgMetadata, mailFrom string) (module.Delivery, error) {
	b.t.mu.Lock()
	att := b.t.attempt - 1
	b.t.mu.Unlock()
	b.mu.Lock()
	defer b.mu.Unlock()
	ho := &c18Handover{attempt: att, mailFrom: mailFrom, metaOriginalFrom: msgMeta.OriginalFrom, metaUTF8: msgMeta.SMTPOpts.UTF8, metaRTLS: msgMeta.SMTPOpts.RequireTLS}
	b.hos = append(b.hos, ho)
	if b.failAt == 's' {
		ho.calls = append(ho.calls, "start")
		return nil, c18ErrBounce
	}
	ho.startOK = true
	ho.calls = append(ho.calls, "start")
	return &c18BounceDelivery{b: b, ho: ho}, nil
}

func (d *c18BounceDelivery) AddRcpt(ctx context.Context, to string, _ smtp.RcptOptions) error {
	d.b.mu.Lock()
	defer d.b.mu.Unlock()
	d.ho.calls = append(d.ho.calls, "rcpt")
	d.ho.rcpts = append(d.ho.rcpts, to)
	if d.b.failAt == 'r' {
		return c18ErrBounce
	}
	d.ho.rcptOK = true
	return nil
}

func (d *c18BounceDelivery) Body(ctx context.Context, header textproto.Header, body buffer.Buffer) error {
	d.b.mu.Lock()
	defer d.b.mu.Unlock()
	d.ho.calls = append(d.ho.calls, "body")
	var msg bytes.Buffer
	if err := textproto.WriteHeader(&msg, header); err != nil {
		msg.WriteString("X-Header-Write-Error: " + err.Error() + "\r\n\r\n")
	}
	r, err := body.Open()
	if err != nil {
		return err
	}
	io.Copy(&msg, r)
	r.Close()
	d.ho.msg = msg.Bytes()
	if d.b.failAt == 'b' {
		return c18ErrBounce
	}
	d.ho.bodyOK = true
	return nil
}

func (d *c18BounceDelivery) Abort(ctx context.Context) error {
	d.b.mu.Lock()
	defer d.b.mu.Unlock()
	d.ho.calls = append(d.ho.calls, "abort")
	d.ho.aborted = true
	return nil
}

func (d *c18BounceDelivery) Commit(ctx context.Context) error {
	d.b.mu.Lock()
	defer d.b.mu.Unlock()
	d.ho.calls = append(d.ho.calls, "commit")
	d.ho.commited = true
	if d.b.failAt == 'c' {
		return c18ErrBounce
	}
	d.ho.commitOK = true
	return nil
}

// ---- independent expectations (written from the property, not from the model) ----

// c18Perm: the queue does not retry: the error says it is not temporary.
func c18Perm(n *verr.Node) bool {
	t, known := verr.TempOf(n)
	return known && !t
}

// c18Ench: the enhanced code annotation the error carries (outermost), if any.
func c18Ench(n *verr.Node) ([3]int, bool) {
	switch n.Kind {
	case "S", "W":
		return n.Ench, true
	case "T":
		return c18Ench(n.Inner)
	case "F":
		if n.HasE {
			return n.Ench, true
		}
		return c18Ench(n.Inner)
	}
	return [3]int{}, false
}

func c18MsgOf(n *verr.Node) (string, bool) {
	switch n.Kind {
	case "S", "W":
		return n.Msg, true
	case "T":
		return c18MsgOf(n.Inner)
	case "F":
		if n.HasM {
			return n.Msg, true
		}
		return c18MsgOf(n.Inner)
	}
	return "", false
}

type c18Expect struct {
	tries   [][]int // recipients of each attempt
	failed  [][]int // recipients failing terminally in each attempt
	lastE   []map[int]*verr.Node
	nostart []bool // the target refused the transaction at Start: no recipient is offered
}

// c18OwnErrors: the error each recipient of an attempt ends that attempt with, written from what
// an SMTP/LMTP transaction means (not from queue.go): a refused transaction start concerns
// everybody; a recipient refused at RCPT is out of the transaction with THAT reply - what happens
// to the message afterwards concerns the accepted recipients only; a refusal of the message data
// concerns every accepted recipient (an LMTP-style target answers per accepted recipient); the
// final acknowledgement (Commit) is asked for only when somebody is still in the transaction, and
// its failure is then the last word for every accepted recipient.
func c18OwnErrors(kind byte, p *c18Plan, to []int) map[int]*verr.Node {
	own := map[int]*verr.Node{}
	if p.start != nil {
		for _, r := range to {
			own[r] = p.start
		}
		return own
	}
	var accepted []int
	for _, r := range to {
		if e := p.rcpt[r]; e != nil {
			own[r] = e
		} else {
			accepted = append(accepted, r)
		}
	}
	alive := 0
	for _, r := range accepted {
		var e *verr.Node
		if kind == 'p' {
			e = p.bodyRc[r]
		} else {
			e = p.body
		}
		if e != nil {
			own[r] = e
		} else {
			alive++
		}
	}
	if alive > 0 && p.commit != nil {
		for _, r := range accepted {
			own[r] = p.commit
		}
	}
	return own
}

func c18Expected(c *c18Case) c18Expect {
	var e c18Expect
	to := append([]int{}, c.rcpts...)
	for k := 0; len(to) > 0 && k < c.maxTries+1; k++ {
		p := c18NewPlan()
		if k < len(c.plans) {
			p = c.plans[k]
		}
		own := c18OwnErrors(c.kind, p, to)
		var next, failed []int
		for _, r := range to {
			n := own[r]
			if n == nil {
				continue
			}
			if c18Perm(n) || k+1 >= c.maxTries {
				failed = append(failed, r)
			} else {
				next = append(next, r)
			}
		}
		e.tries = append(e.tries, to)
		e.failed = append(e.failed, failed)
		e.lastE = append(e.lastE, own)
		e.nostart = append(e.nostart, p.start != nil)
		to = next
	}
	return e
}

func c18Renders(form string, utf8 bool) bool {
	// independent of maddy's address package: an address can be shown in a report of a non-SMTPUTF8
	// message iff it has an at-sign, an ASCII local part and a domain that IDNA can encode
	i := strings.LastIndex(form, "@")
	if i <= 0 || i == len(form)-1 {
		return strings.EqualFold(form, "postmaster")
	}
	if !utf8 {
		for _, ch := range form[:i] {
			if ch >= 0x80 {
				return false
			}
		}
		_, err := idna.ToASCII(form[i+1:])
		return err == nil
	}
	_, err := idna.ToUnicode(form[i+1:])
	return err == nil
}

// c18DomainForm is the form of a host name the report type requires (library call, not maddy's dns package).
func c18DomainForm(d string, utf8 bool) string {
	if utf8 {
		u, _ := idna.ToUnicode(d)
		return norm.NFC.String(u)
	}
	a, _ := idna.ToASCII(d)
	return a
}

func c18DomainOK(d string, utf8 bool) bool {
	if d == "" {
		return true
	}
	var err error
	if utf8 {
		_, err = idna.ToUnicode(d)
	} else {
		_, err = idna.ToASCII(d)
	}
	return err == nil
}

func c18Join(ids []int) string {
	var s []string
	for _, i := range ids {
		s = append(s, strconv.Itoa(i))
	}
	return strings.Join(s, ",")
}

// ---- the real msgpipeline in front of the queue ----
//
// Two pipelines are built once from configuration nodes by msgpipeline.New (the constructor maddy
// itself uses): modify { verif_c18_rw g } / default_source { modify { … s } default_destination {
// modify { … r }  deliver_to &verif_c18_sink | reroute { modify { … n } deliver_to &verif_c18_sink } } }.
// The modifier and the sink find the case they work for in the context, so the pipelines are
// shared by all cases (a pipeline serves concurrent transactions in production, too).

type c18CtxKey struct{}

type c18FrontRun struct {
	c *c18Case
	q *Queue
}

type c18RwModifier struct{ stage string }

func (m *c18RwModifier) Init(*config.Map) error { return nil }
func (m *c18RwModifier) Name() string           { return "modify.verif_c18_rw" }
func (m *c18RwModifier) InstanceName() string   { return "" }

type c18RwState struct {
	stage string
	run   *c18FrontRun
}

func (m *c18RwModifier) ModStateForMsg(ctx context.Context, msgMeta *module.MsgMetadata) (module.ModifierState, error) {
	run, _ := ctx.Value(c18CtxKey{}).(*c18FrontRun)
	if run == nil {
		return nil, errors.New("verif_c18_rw: no case in the context")
	}
	return &c18RwState{stage: m.stage, run: run}, nil
}

func (st *c18RwState) RewriteSender(ctx context.Context, mailFrom string) (string, error) {
	c := st.run.c
	if st.stage == "g" && mailFrom == c.name(c.ofrom) {
		return c.name(c.from), nil
	}
	return mailFrom, nil
}

func (st *c18RwState) RewriteRcpt(ctx context.Context, rcptTo string) ([]string, error) {
	c := st.run.c
	var rules [][]int
	switch st.stage {
	case "g":
		rules = c.front.g
	case "s":
		rules = c.front.s
	case "r":
		rules = c.front.r
	case "n":
		rules = c.front.n
	}
	for _, r := range rules {
		if c.name(r[0]) == rcptTo {
			var out []string
			for _, o := range r[1:] {
				out = append(out, c.name(o))
			}
			return out, nil
		}
	}
	return []string{rcptTo}, nil
}

func (st *c18RwState) RewriteBody(ctx context.Context, h *textproto.Header, body buffer.Buffer) error {
	return nil
}
func (st *c18RwState) Close() error { return nil }

// c18Sink is what "deliver_to &verif_c18_sink" resolves to: it forwards Start to the real queue of
// the case with exactly the arguments the pipeline passes (the *MsgMetadata pointer included).
type c18Sink struct{}

func (c18Sink) Init(*config.Map) error { return nil }
func (c18Sink) Name() string           { return "verif_c18_sink" }
func (c18Sink) InstanceName() string   { return "verif_c18_sink" }
func (c18Sink) Start(ctx context.Context, msgMeta *module.MsgMetadata, mailFrom string) (module.Delivery, error) {
	run, _ := ctx.Value(c18CtxKey{}).(*c18FrontRun)
	if run == nil {
		return nil, errors.New("verif_c18_sink: no case in the context")
	}
	return run.q.Start(ctx, msgMeta, mailFrom)
}

var (
	c18PipeOnce             sync.Once
	c18PipeFlat, c18PipeNst *msgpipeline.MsgPipeline
)

func c18Pipelines() (*msgpipeline.MsgPipeline, *msgpipeline.MsgPipeline) {
	c18PipeOnce.Do(func() {
		module.Register("modify.verif_c18_rw", func(_, _ string, _, inlineArgs []string) (module.Module, error) {
			if len(inlineArgs) != 1 {
				return nil, errors.New("verif_c18_rw: stage argument expected")
			}
			return &c18RwModifier{stage: inlineArgs[0]}, nil
		})
		module.RegisterInstance(c18Sink{}, nil)
		mod := func(stage string) config.Node {
			return config.Node{Name: "modify", Children: []config.Node{{Name: "verif_c18_rw", Args: []string{stage}}}}
		}
		sink := config.Node{Name: "deliver_to", Args: []string{"&verif_c18_sink"}}
		build := func(last config.Node) *msgpipeline.MsgPipeline {
			p, err := msgpipeline.New(map[string]interface{}{}, []config.Node{
				mod("g"),
				{Name: "default_source", Children: []config.Node{
					mod("s"),
					{Name: "default_destination", Children: []config.Node{mod("r"), last}},
				}},
			})
			if err != nil {
				panic(err)
			}
			p.Log = log.Logger{Out: log.NopOutput{}}
			return p
		}
		c18PipeFlat = build(sink)
		c18PipeNst = build(config.Node{Name: "reroute", Children: []config.Node{mod("n"), sink}})
	})
	return c18PipeFlat, c18PipeNst
}

// c18Submit hands the message of the case to the queue: directly (OriginalRcpts prepared by the
// harness) or through the real pipeline(s).  Returns a description of a refusal ("" = accepted).
func c18Submit(c *c18Case, q *Queue) string {
	meta := &module.MsgMetadata{ID: c.msgid, OriginalFrom: c.name(c.ofrom), DontTraceSender: c.rcvd == "",
		SMTPOpts: smtp.MailOptions{UTF8: c.utf8, RequireTLS: c.rtls}}
	if c.rcvd != "" {
		meta.Conn = &module.ConnState{Hostname: c.rcvd, Proto: "ESMTP"}
	}
	ctx := context.Background()
	var d module.Delivery
	var err error
	var given []int
	if c.front == nil {
		if len(c.omap) > 0 {
			meta.OriginalRcpts = map[string]string{}
			for _, kv := range c.omap {
				meta.OriginalRcpts[c.name(kv[0])] = c.name(kv[1])
			}
		}
		d, err = q.Start(ctx, meta, c.name(c.from))
		given = c.rcpts
	} else {
		flat, nst := c18Pipelines()
		p := flat
		if c.front.nested {
			p = nst
		}
		ctx = context.WithValue(ctx, c18CtxKey{}, &c18FrontRun{c: c, q: q})
		d, err = p.Start(ctx, meta, c.name(c.ofrom))
		given = c.front.given
	}
	if err != nil {
		return "start:" + err.Error()
	}
	for _, r := range given {
		if err := d.AddRcpt(ctx, c.name(r), smtp.RcptOptions{}); err != nil {
			d.Abort(ctx)
			return "rcpt:" + err.Error()
		}
	}
	if err := d.Body(ctx, vdsn.Header(c.hdr), buffer.MemoryBuffer{Slice: []byte("hello\r\n")}); err != nil {
		d.Abort(ctx)
		return "body:" + err.Error()
	}
	if err := d.Commit(ctx); err != nil {
		return "commit:" + err.Error()
	}
	return ""
}

func c18RunCase(out *vh.Out, op string) {
	c := c18Parse(op)
	tgt := &c18Target{c: c}
	bounce := &c18Bounce{t: tgt, failAt: c.failAt}

	dir, err := os.MkdirTemp("", "verif-c18-")
	if err != nil {
		panic(err)
	}
	defer os.RemoveAll(dir)

	var logMu sync.Mutex
	genErrs := map[int][]string{} // attempt -> generation errors logged
	mod, _ := NewQueue("", "queue", nil, nil)
	q := mod.(*Queue)
	q.initialRetryTime = 0
	q.retryTimeScale = 1
	q.postInitDelay = 0
	q.maxTries = c.maxTries
	q.location = dir
	q.Target = tgt
	q.hostname = c.host
	q.autogenMsgDomain = c.domain
	q.Log = log.Logger{Out: log.FuncOutput(func(_ time.Time, _ bool, msg string) {
		if strings.Contains(msg, "failed to generate fail DSN") {
			tgt.mu.Lock()
			att := tgt.attempt - 1
			tgt.mu.Unlock()
			logMu.Lock()
			genErrs[att] = append(genErrs[att], vdsn.GenErrName(msg))
			logMu.Unlock()
		}
	}, func() error { return nil })}
	if c.pipeline {
		q.dsnPipeline = bounce
	}
	if err := q.start(1); err != nil {
		panic(err)
	}

	if refused := c18Submit(c, q); refused != "" {
		// not an outcome the generators aim at: shown to the model as is (a divergence)
		q.Close()
		out.Corr(op, "submission-refused:"+vh.HexRunes(refused))
		out.Stat("q.submission-refused")
		return
	}

	deadline := time.Now().Add(30 * time.Second)
	removed := false
	for time.Now().Before(deadline) {
		ents, _ := os.ReadDir(dir)
		if len(ents) == 0 {
			removed = true
			break
		}
		time.Sleep(300 * time.Microsecond)
	}
	q.Close()

	// ---- canonical trace ----
	tgt.mu.Lock()
	tries := tgt.tries
	omaps := tgt.omaps
	tgt.mu.Unlock()
	bounce.mu.Lock()
	hos := bounce.hos
	bounce.mu.Unlock()
	parsed := map[*c18Handover]*vdsn.Parsed{}
	var trace []string
	for i, tr := range tries {
		trace = append(trace, "try:"+strings.Join(tr, ",")+"@"+omaps[i])
		logMu.Lock()
		for _, g := range genErrs[i] {
			trace = append(trace, "generr:"+g)
		}
		logMu.Unlock()
		for _, ho := range hos {
			if ho.attempt != i {
				continue
			}
			trace = append(trace, fmt.Sprintf("bstart(mf=%s,of=%s,utf8=%s,rtls=%s,ok=%s)", c.idOf(ho.mailFrom), c.idOf(ho.metaOriginalFrom), c18Bool(ho.metaUTF8), c18Bool(ho.metaRTLS), c18Bool(ho.startOK)))
			ri := 0
			for _, call := range ho.calls[1:] {
				switch call {
				case "rcpt":
					trace = append(trace, fmt.Sprintf("brcpt(%s,ok=%s)", c.idOf(ho.rcpts[ri]), c18Bool(ho.rcptOK)))
					ri++
				case "body":
					p := vdsn.Parse(ho.msg, c.utf8)
					parsed[ho] = p
					mid := p.Top.Get("Message-Id")
					if i := strings.LastIndex(mid, "@"); i >= 0 {
						mid = strings.TrimSuffix(mid[i+1:], ">")
					}
					trace = append(trace, "bbody(ok="+c18Bool(ho.bodyOK)+"){"+p.Canon(c.utf8, mid, vdsn.RecogniseHeader(p.OrigHdr, c.hdr))+"}")
				case "commit":
					trace = append(trace, "bcommit(ok="+c18Bool(ho.commitOK)+")")
				case "abort":
					trace = append(trace, "babort")
				}
			}
		}
	}
	if removed {
		trace = append(trace, "removed")
	} else {
		trace = append(trace, "NOT-REMOVED")
	}
	out.Corr(op, strings.Join(trace, " | "))

	// ---- monitor: the property itself on the real execution ----
	exp := c18Expected(c)
	viol := func(sig, detail string) { out.Violation("C18/"+sig, op, detail) }
	if !removed {
		viol("queue-not-terminated", strings.Join(trace, " | "))
	}
	// containment: retry sets and termination do not depend on what happens to the reports
	var gotTries []string
	for _, tr := range tries {
		gotTries = append(gotTries, strings.Join(tr, ","))
	}
	var wantTries []string
	for k, tr := range exp.tries {
		if exp.nostart[k] {
			tr = nil // the target refused the transaction: no recipient was offered
		}
		wantTries = append(wantTries, c18Join(tr))
	}
	if strings.Join(gotTries, ";") != strings.Join(wantTries, ";") {
		sig := "report-delivery-affects-queue"
		if c.failAt == '-' || !c.pipeline || c.ofrom == 0 {
			sig = "retried-set-not-by-own-last-error" // no report delivery failed: the errors were attributed to the wrong recipients
		}
		viol(sig, fmt.Sprintf("attempts %s, expected %s (bounce fails at %c)", strings.Join(gotTries, ";"), strings.Join(wantTries, ";"), c.failAt))
	}
	// sanity of the inputs: everything the report has to show can be shown
	// (NOT the client's HELO name: Received-From-MTA is optional, a name that cannot be converted is
	// left out of the report and is no reason to lose it)
	sane := c18DomainOK(c.host, c.utf8) && c.host != "" && (c.from == 0 || c18Renders(c.name(c.from), c.utf8))
	if !c18DomainOK(c.rcvd, c.utf8) {
		out.Stat("q.client-name.inconvertible")
	} else if c.rcvd != "" {
		out.Stat("q.client-name.convertible")
	} else {
		out.Stat("q.client-name.none")
	}
	hoByAttempt := map[int][]*c18Handover{}
	for _, ho := range hos {
		hoByAttempt[ho.attempt] = append(hoByAttempt[ho.attempt], ho)
	}
	nullSender := c.ofrom == 0
	if nullSender && len(hos) > 0 {
		viol("report-for-null-sender", fmt.Sprintf("%d reports handed over for a message from <>", len(hos)))
	}
	if !c.pipeline && len(hos) > 0 {
		viol("report-without-pipeline", "")
	}
	maxLevel := 0
	for k, failed := range exp.failed {
		hk := hoByAttempt[k]
		if len(failed) == 0 {
			if len(hk) > 0 {
				viol("report-without-failure", fmt.Sprintf("attempt %d", k+1))
			}
			continue
		}
		out.Stat(fmt.Sprintf("q.failed_set.%d", len(failed)))
		if nullSender || !c.pipeline {
			continue
		}
		wf := true // the last errors are values maddy builds (coherent annotations)
		rootsOK := true
		for _, r := range failed {
			if !verr.WellFormed(exp.lastE[k][r]) {
				wf = false
			}
			if !c18Renders(c.name(c.root[r]), c.utf8) {
				rootsOK = false
			}
			if c.levels[r] > maxLevel {
				maxLevel = c.levels[r]
			}
		}
		if len(hk) == 0 {
			// two-level rewriting: the one-level translation lands on an intermediate address,
			// which may not be presentable in this kind of report at all
			viaIntermediate := false
			for _, r := range failed {
				if c.levels[r] >= 2 {
					if im := c.intermediateOf(r); im != 0 && !c18Renders(c.name(im), c.utf8) {
						viaIntermediate = true
					}
				}
			}
			if sane && wf && rootsOK && viaIntermediate && len(genErrs[k]) == 1 && genErrs[k][0] == "rcptConv" {
				viol("intermediate-address-reported", fmt.Sprintf("attempt %d: no report at all: the intermediate address of a twice rewritten recipient cannot be shown in this report (%v)", k+1, genErrs[k]))
			} else if sane && wf && rootsOK {
				viol("report-not-generated", fmt.Sprintf("attempt %d: recipients %v failed terminally, sender %q, nothing was handed to the bounce pipeline (%v)", k+1, failed, c.name(c.ofrom), genErrs[k]))
			}
			out.Stat("q.report.not-generated")
			continue
		}
		if len(hk) > 1 {
			viol("several-reports", fmt.Sprintf("attempt %d: %d hand-overs", k+1, len(hk)))
		}
		ho := hk[0]
		out.Stat("q.report.handed-over")
		// null return path; the report itself is a message from <> so it cannot cause a report
		if ho.mailFrom != "" {
			viol("report-not-from-null-sender", "MAIL FROM "+ho.mailFrom)
		}
		if ho.metaOriginalFrom != "" {
			viol("report-metadata-has-sender", "dsnMeta.OriginalFrom = "+ho.metaOriginalFrom)
		}
		// a report in the message/global-* flavour carries UTF-8 addresses: it has to travel as an SMTPUTF8 message
		if c.utf8 && !ho.metaUTF8 {
			viol("report-loses-smtputf8", "report about an SMTPUTF8 message handed over without the SMTPUTF8 flag")
		}
		// call discipline at the bounce pipeline
		want := map[byte]string{'-': "start rcpt body commit", 's': "start", 'r': "start rcpt abort", 'b': "start rcpt body abort", 'c': "start rcpt body commit abort"}[c.failAt]
		if got := strings.Join(ho.calls, " "); got != want {
			viol("bounce-call-sequence", fmt.Sprintf("calls %q, expected %q", got, want))
		}
		if len(ho.rcpts) > 0 && (len(ho.rcpts) != 1 || ho.rcpts[0] != c.name(c.from)) {
			viol("report-wrong-recipient", fmt.Sprintf("RCPT TO %q, sender was %q", ho.rcpts, c.name(c.from)))
		}
		p := parsed[ho]
		if p == nil {
			continue
		}
		out.Stat("q.report.parsed")
		out.Stat(fmt.Sprintf("q.report.utf8.%v", c.utf8))
		for _, pr := range p.Problems {
			if strings.Contains(pr, "Status") && !wf {
				continue
			}
			viol("malformed-report", pr)
			break
		}
		if got := p.Top.Get("To"); vdsn.CanonWs(got) != vdsn.CanonWs(c.name(c.ofrom)) {
			viol("report-header-to", fmt.Sprintf("To: %q, original sender %q", got, c.name(c.ofrom)))
		}
		if vdsn.RecogniseHeader(p.OrigHdr, c.hdr) == "?" {
			viol("original-header-not-carried", fmt.Sprintf("third part %q", p.OrigHdr))
		}
		// exactly the failed recipients, under the addresses the sender used, with their last status
		if len(p.Rcpts) != len(failed) {
			viol("recipient-set", fmt.Sprintf("%d recipient groups, %d recipients failed terminally", len(p.Rcpts), len(failed)))
		}
		// (one group PER failed recipient: two members of one alias, or two spellings of one
		// mailbox, are two recipients with their own outcome - each needs a group of its own;
		// among several groups showing the same address the one carrying this recipient's
		// status is taken, so the order of the groups does not matter)
		statusOf := func(n *verr.Node) string {
			cls := 5
			if !c18Perm(n) {
				cls = 4
			}
			wantSt := fmt.Sprintf("%d.0.0", cls)
			e, ok := c18Ench(n)
			if n.Kind == "R" {
				e, ok = n.Ench, true
			}
			// an enhanced code without a class (0.x.y, incl. the unset 0.0.0) is no status code: the
			// generic one of the right class stands for it
			if ok && e[0] != 0 {
				wantSt = fmt.Sprintf("%d.%d.%d", e[0], e[1], e[2])
			}
			return wantSt
		}
		// recipients rewritten by one pipeline level at most first: their group has to be exactly
		// right; a twice rewritten recipient (KF-C18-1: shown under the intermediate address) must
		// not be credited with the group of another member of the same alias
		order := append([]int{}, failed...)
		sort.SliceStable(order, func(i, j int) bool { return c.levels[order[i]] < 2 && c.levels[order[j]] >= 2 })
		diagMatches := func(g vdsn.Group, n *verr.Node) bool {
			dg := g["Diagnostic-Code"]
			if len(dg) != 1 {
				return false
			}
			m, ann := c18MsgOf(n)
			if n.Kind == "R" {
				m, ann = n.Msg, true
			}
			if !ann {
				m = "Internal server error"
			}
			if c.utf8 {
				m = vdsn.FlatText(m)
			} else {
				m = vdsn.ASCIIText(m)
			}
			if !strings.HasSuffix(vdsn.CanonWs(dg[0]), vdsn.CanonWs(" "+m)) && vdsn.CanonWs(m) != "" {
				return false
			}
			if code, ok := verr.CodeField(n); ok || n.Kind == "R" {
				if n.Kind == "R" {
					code = n.Code
				}
				if !strings.Contains(dg[0], fmt.Sprintf("; %d ", code)) {
					return false
				}
			}
			return true
		}
		// Which group is whose: several recipients can be shown under the SAME address (spellings of
		// one mailbox that differ in the case / the A- or U-label form of the domain only, members of
		// one alias, the intermediate address of a twice rewritten sibling being a respelling of the
		// sender's address), so the groups are credited to the recipients as a whole - the assignment
		// that explains the report best: a group can be credited to a recipient when it shows exactly
		// the sender's bytes (the domain in the form the report type requires; weight 2) or - once
		// rewritten recipients only - the same mailbox with another spelling of the domain (0); a
		// group carrying the recipient's own status counts more (+1), then its own diagnostic; the
		// recipients rewritten once at most are served before the twice rewritten ones (KF-C18-1:
		// shown under the intermediate address), which are credited with an exact match only.  When
		// every recipient has a group of its own with its own status and diagnostic that assignment
		// is (one of) the best, so no violation is reported; when the groups of two recipients shown
		// under different bytes are swapped, or a group is missing or wrong, every assignment shows it
		edge := func(r int, g vdsn.Group) int { // 0 = cannot be credited
			if len(g["Final-Recipient"]) == 0 {
				return 0
			}
			want := c.name(c.root[r])
			_, a := vdsn.SplitTyped(g["Final-Recipient"][0])
			score := 0
			switch {
			case a == vdsn.ShownAs(c.utf8, want) || a == want:
				score = 2
			case vdsn.SameMailbox(a, want) && c.levels[r] < 2:
			default:
				return 0
			}
			if len(g["Status"]) > 0 && strings.TrimSpace(g["Status"][0]) == statusOf(exp.lastE[k][r]) {
				score++
			}
			score *= 2
			if diagMatches(g, exp.lastE[k][r]) {
				score++
			}
			score++
			if c.levels[r] < 2 {
				score *= 100
			}
			return score
		}
		nG := len(p.Rcpts)
		wgt := make([][]int, len(order))
		for i, r := range order {
			wgt[i] = make([]int, nG)
			for gi, g := range p.Rcpts {
				wgt[i][gi] = edge(r, g)
			}
		}
		assigned := make([]int, len(order))
		if nG <= 16 {
			memo := map[[2]int]int{}
			var bestFrom func(i, mask int) int
			bestFrom = func(i, mask int) int {
				if i == len(order) {
					return 0
				}
				key := [2]int{i, mask}
				if v, ok := memo[key]; ok {
					return v
				}
				b := bestFrom(i+1, mask)
				for gi := 0; gi < nG; gi++ {
					if wgt[i][gi] > 0 && mask&(1<<gi) == 0 {
						if v := wgt[i][gi] + bestFrom(i+1, mask|1<<gi); v > b {
							b = v
						}
					}
				}
				memo[key] = b
				return b
			}
			mask := 0
			for i := range order {
				assigned[i] = -1
				total := bestFrom(i, mask)
				for gi := 0; gi < nG; gi++ {
					if wgt[i][gi] > 0 && mask&(1<<gi) == 0 && wgt[i][gi]+bestFrom(i+1, mask|1<<gi) == total {
						assigned[i] = gi
						mask |= 1 << gi
						break
					}
				}
			}
			if len(memo) > 64 {
				out.Stat("q.report.crediting.ambiguous-large")
			}
		} else {
			// (not generated: more groups than a bit mask is worth - one after the other)
			usedG := make([]bool, nG)
			for i := range order {
				assigned[i] = -1
				b := 0
				for gi := 0; gi < nG; gi++ {
					if !usedG[gi] && wgt[i][gi] > b {
						assigned[i], b = gi, wgt[i][gi]
					}
				}
				if assigned[i] >= 0 {
					usedG[assigned[i]] = true
				}
			}
		}
		for i := range order {
			nOpt := 0
			for gi := 0; gi < nG; gi++ {
				if wgt[i][gi] > 0 {
					nOpt++
				}
			}
			if nOpt > 1 {
				out.Stat("q.report.crediting.recipient-with-several-candidate-groups")
			}
		}
		credit := func(i, r int) bool {
			want := c.name(c.root[r])
			found := assigned[i]
			if found < 0 {
				var got []string
				for _, g := range p.Rcpts {
					got = append(got, strings.Join(g["Final-Recipient"], "|"))
				}
				sig := "failed-recipient-not-listed"
				if c.levels[r] >= 2 {
					sig = "intermediate-address-reported"
				}
				viol(sig, fmt.Sprintf("recipient %q (sender used %q, %d rewriting levels) not among %q", c.name(r), want, c.levels[r], got))
				return true
			}
			g := p.Rcpts[found]
			n := exp.lastE[k][r]
			if !wf {
				return true
			}
			st := ""
			if len(g["Status"]) > 0 {
				st = strings.TrimSpace(g["Status"][0])
			}
			wantSt := statusOf(n)
			if st != wantSt {
				viol("status-not-last-error", fmt.Sprintf("recipient %q: Status %s, last error carries %s (%s)", c.name(r), st, wantSt, n.String()))
			}
			if dg := g["Diagnostic-Code"]; len(dg) == 1 {
				m, ann := c18MsgOf(n)
				if n.Kind == "R" {
					m, ann = n.Msg, true
				}
				if !ann {
					m = "Internal server error"
				}
				if c18StartsWithNumbers(m) {
					if _, hasE := c18Ench(n); n.Kind != "R" && (!hasE || wantSt[1:] == ".0.0") {
						out.Stat("q.report.text.begins-with-dotted-numbers.no-enhanced-code")
					} else {
						out.Stat("q.report.text.begins-with-dotted-numbers.other")
					}
				}
				switch {
				case vdsn.BareCR(m):
					out.Stat("q.report.text.bare-cr")
				case vdsn.HasCtl(m):
					out.Stat("q.report.text.other-control")
				case strings.ContainsAny(m, "\r\n"):
					out.Stat("q.report.text.line-breaks")
				default:
					out.Stat("q.report.text.plain")
				}
				// the text as ONE field value can carry it: line breaks (CR, LF, in any combination)
				// and other control characters shown as white space; US-ASCII only for a non-SMTPUTF8 message
				if c.utf8 {
					m = vdsn.FlatText(m)
				} else {
					m = vdsn.ASCIIText(m)
				}
				if !strings.HasSuffix(vdsn.CanonWs(dg[0]), vdsn.CanonWs(" "+m)) && vdsn.CanonWs(m) != "" {
					viol("diagnostic-not-last-error", fmt.Sprintf("Diagnostic-Code %q, last error text %q", dg[0], m))
				}
				if code, ok := verr.CodeField(n); ok || n.Kind == "R" {
					if n.Kind == "R" {
						code = n.Code
					}
					if !strings.Contains(dg[0], fmt.Sprintf("; %d ", code)) {
						viol("diagnostic-not-last-error", fmt.Sprintf("Diagnostic-Code %q, last error code %d", dg[0], code))
					} else if want := fmt.Sprintf("smtp; %d %s %s", code, wantSt, m); vdsn.CanonWs(dg[0]) != vdsn.CanonWs(want) {
						// round 11: with the basic code known the whole field is determined: the reply code, the
						// status of the group, then the text of the error - ALL of it (a text that itself begins
						// with "550 " or "5.1.1 " keeps that beginning; the suffix test above cannot see it cut
						// off when the cut-off part equals the code / status in front)
						viol("diagnostic-not-last-error", fmt.Sprintf("Diagnostic-Code %q, the last error says %q", dg[0], want))
					}
				}
			} else {
				viol("diagnostic-missing", fmt.Sprintf("recipient %q", c.name(r)))
			}
			return true
		}
		for i, r := range order {
			credit(i, r)
		}
		// the local part is opaque: every address the report shows in Final-Recipient is one of the
		// strings the case knows, local part byte for byte (the domain may be in the A-/U-label form
		// the report type requires) - never a normalised, case-folded or unquoted variant
		for _, g := range p.Rcpts {
			if len(g["Final-Recipient"]) == 0 {
				continue
			}
			_, a := vdsn.SplitTyped(g["Final-Recipient"][0])
			known := false
			for _, nm := range c.names {
				if nm != "" && vdsn.SameMailbox(a, nm) {
					known = true
					break
				}
			}
			if !known {
				viol("rewritten-address-disclosed", fmt.Sprintf("Final-Recipient %q is none of the addresses of this message (local part altered?), an address the sender never used", a))
				break
			}
		}
		// Received-From-MTA, when shown, is the name the client gave (in the form the report type
		// requires) - never anything for a sender that is not to be traced, never a name that cannot
		// be converted
		if p.Mta != nil {
			if v := p.Mta["Received-From-Mta"]; len(v) > 0 { // (the parser's keys are in canonical MIME form)
				_, shown := vdsn.SplitTyped(v[0])
				okName := c.rcvd != "" && c18DomainOK(c.rcvd, c.utf8) && (shown == c.rcvd || shown == c18DomainForm(c.rcvd, c.utf8))
				if len(v) != 1 || !okName {
					viol("received-from-not-client-name", fmt.Sprintf("Received-From-MTA %q, the client called itself %q", v, c.rcvd))
				}
				out.Stat("q.report.received-from.shown")
			} else if !c18DomainOK(c.rcvd, c.utf8) {
				out.Stat("q.report.received-from.left-out-inconvertible")
			} else {
				out.Stat("q.report.received-from.absent")
			}
		}
		// the sender is shown (X-Maddy-Sender) as the mailbox the report goes to
		if p.Mta != nil && c.from != 0 {
			if v := p.Mta["X-Maddy-Sender"]; len(v) != 1 {
				viol("sender-address-altered", fmt.Sprintf("%d X-Maddy-Sender fields", len(v)))
			} else if _, a := vdsn.SplitTyped(v[0]); !vdsn.SameMailbox(a, c.name(c.from)) {
				viol("sender-address-altered", fmt.Sprintf("sender %q shown as %q", c.name(c.from), a))
			}
		}
		for _, r := range failed {
			if vdsn.NonNFCLocal(c.name(c.root[r])) {
				out.Stat("q.report.failed-root-local-part-not-nfc")
				break
			}
		}
		if vdsn.NonNFCLocal(c.name(c.from)) {
			out.Stat("q.report.sender-local-part-not-nfc")
		}
		// the explanation for the human reader names every failed recipient, too - once per
		// recipient, under the address the sender used
		needHuman := map[string]int{}
		for _, r := range failed {
			if c.levels[r] < 2 {
				needHuman[c.name(c.root[r])]++
			}
		}
		for nm, cnt := range needHuman {
			if got := strings.Count(p.HumanTail, nm); got < cnt {
				viol("human-part-recipients", fmt.Sprintf("%d failed recipient(s) the sender addressed as %q, the human-readable part names it %d time(s): %q", cnt, nm, got, p.HumanTail))
				break
			}
		}
		// never the addresses recipients were rewritten to
		senderSide := map[string]bool{c.name(c.from): true, c.name(c.ofrom): true}
		for _, r := range c.rcpts {
			senderSide[c.name(c.root[r])] = true
		}
		// what the report may show: the sender's strings, and - in the address fields - their domain in
		// the form the report type requires.  A rewritten spelling that happens to be a substring of
		// such a string (trailing dot dropped) or equal to the required form (A-label for U-label) is
		// not a disclosure; anywhere else it is
		var allowed []string
		for nm := range senderSide {
			allowed = append(allowed, nm, vdsn.ShownAs(c.utf8, nm))
		}
		// (intermediate addresses first, in the order of their ids: when the report shows one - KF-C18-1 -
		// an effective address that is a substring of it is not a second disclosure)
		for pass := 0; pass < 2; pass++ {
			told := false
			var mentioned []string
			for _, id := range c18SortedIDs(c.names) {
				nm := c.names[id]
				if senderSide[nm] || nm == "" {
					continue
				}
				isRoot, isEff := false, false
				for _, r := range c.rcpts {
					if c.root[r] == id {
						isRoot = true
					}
					if r == id {
						isEff = true
					}
				}
				if isRoot || isEff != (pass == 1) {
					continue
				}
				if vdsn.MentionsOutside(ho.msg, nm, allowed) {
					sig := "intermediate-address-reported"
					if isEff {
						sig = "rewritten-address-disclosed" // an effective address
					}
					if !told {
						viol(sig, fmt.Sprintf("report mentions %q, an address the sender never used", nm))
						told = true
					}
					mentioned = append(mentioned, nm, vdsn.ShownAs(c.utf8, nm))
				}
			}
			allowed = append(allowed, mentioned...)
		}
	}
	for k := len(exp.failed); k < len(tries); k++ {
		if len(hoByAttempt[k]) > 0 {
			viol("report-without-failure", fmt.Sprintf("attempt %d", k+1))
		}
	}
	out.Stat(fmt.Sprintf("q.attempts.%d", len(tries)))
	out.Stat(fmt.Sprintf("q.failAt.%c", c.failAt))
	out.Stat(fmt.Sprintf("q.maxlevel.%d", maxLevel))
	switch {
	case c.front == nil:
		out.Stat("q.front.direct")
	case c.front.nested:
		out.Stat("q.front.pipeline-nested")
	default:
		out.Stat("q.front.pipeline")
	}
	out.Stat(fmt.Sprintf("q.target.%c", c.kind))
	if c.front != nil {
		for st, rules := range map[string][][]int{"g": c.front.g, "s": c.front.s, "r": c.front.r, "n": c.front.n} {
			sp, real := false, false
			for _, rule := range rules {
				for _, o := range rule[1:] {
					if o != rule[0] && vdsn.LooseEqual(c.name(o), c.name(rule[0])) {
						sp = true
					} else if o != rule[0] {
						real = true
					}
				}
			}
			if sp {
				out.Stat("q.front.spelling-only-rule." + st)
			}
			if sp && real {
				out.Stat("q.front.spelling-and-real-rules." + st)
			}
		}
	}
	for k := range exp.failed {
		for _, r := range exp.failed[k] {
			if r != c.root[r] && vdsn.LooseEqual(c.name(r), c.name(c.root[r])) {
				out.Stat(fmt.Sprintf("q.failed.respelled-only.levels-%d", c.levels[r]))
			}
		}
	}
	for k := range exp.tries {
		if k >= len(c.plans) {
			break
		}
		p := c.plans[k]
		refused, later := 0, 0
		for _, r := range exp.tries[k] {
			if p.rcpt[r] != nil {
				refused++
			} else if exp.lastE[k][r] != nil {
				later++
			}
		}
		switch {
		case p.start != nil:
			out.Stat("q.attempt.start-refused")
		case refused > 0 && later > 0:
			out.Stat("q.attempt.rcpt-refusals-then-data-or-commit-failure")
		case later > 0:
			out.Stat("q.attempt.data-or-commit-failure")
		case refused > 0:
			out.Stat("q.attempt.rcpt-refusals")
		default:
			out.Stat("q.attempt.all-delivered")
		}
		// several terminally failed recipients the sender knows under one address / one mailbox
		seen := map[string]bool{}
		for _, r := range exp.failed[k] {
			key := strings.ToLower(c.name(c.root[r]))
			if seen[key] {
				out.Stat("q.failed.same-original-address-or-case-variant")
				break
			}
			seen[key] = true
		}
	}
	if nullSender {
		out.Stat("q.null-sender")
	}
	if !sane {
		out.Stat("q.not-sane")
	}
	for _, g := range genErrs {
		for _, e := range g {
			out.Stat("q.generr." + e)
		}
	}
}

// ---- generator ----

var c18Msgs = []string{
	"Mailbox does not exist", "Try again later", "", "Пользователь не найден", "café closed", "line one\nline two\r\nline three",
	"multi  space   text", "emoji \U0001F4E7 here", strings.Repeat("long diagnostic text ", 12) + "end", "\u0080 edge ~", "ASCII only ~",
}

// c18CodeLikeTexts: error texts whose beginning (or whole) reads like a number group - see c18Sanitise.
var c18CodeLikeTexts = []string{
	"192.0.2.25 is listed in our block list", "198.51.100.7", "10.1.2 is the minimum client version", "2001:db8::25 is listed",
	"4.2.2 Mailbox full", "5.1.1 User unknown", "5.7.1 relaying denied, see 203.0.113.9", "2.0.0 nonsense: this was a failure", "0.0.0 no class",
	"5.1.1", "4.0.0", "7.7.7 class seven", "999.1000.70000 out of range", "5.1.1.1 four numbers", "5.1 two numbers", "5.1. dangling dot",
	"550 5.1.1 code repeated in the text", "550 no such user", "550-5.1.1 first line\r\n550 5.1.1 second line", "554", "3 attempts left",
	" 5.2.2 leading blank", "5.2.2\tthen a tab", "5.2.2\nsecond line", "+5.1.1 signed", "-5.1.1 negative", "05.01.01 padded", "5 .1.1 spaced",
	"\uff15.\uff11.\uff11 full-width digits", "1.2.3-beta build refused the message", "#5.1.1 smtp; 550 nested diagnostic", "smtp; 550 5.1.1 looks like a Diagnostic-Code",
	"X-Postfix; 4.4.1 connection timed out", "[192.0.2.1] said: 550 5.7.1 rejected", "5.7.1 \u043e\u0442\u043a\u0430\u0437\u0430\u043d\u043e", "4.2.2\rbare CR after a code",
}

// c18StartsWithNumbers: three dot-separated integers in front (what fmt.Sscanf("%d.%d.%d") takes).
func c18StartsWithNumbers(m string) bool {
	m = strings.TrimLeft(m, " \t\r\n")
	if m != "" && (m[0] == '+' || m[0] == '-') {
		m = m[1:]
	}
	for i := 0; i < 3; i++ {
		j := 0
		for j < len(m) && m[j] >= '0' && m[j] <= '9' {
			j++
		}
		if j == 0 {
			return false
		}
		m = m[j:]
		if i < 2 {
			if m == "" || m[0] != '.' {
				return false
			}
			m = m[1:]
		}
	}
	return true
}

// c18Sanitise (the name is historical): gives the nodes of a generated error the texts of this
// harness - ordinary ones and vdsn.NastyTexts (bare CR, CR CR LF, LF CR, NUL, other controls, DEL,
// white space at the ends, long lines); verr's own texts (incl. DEL) stay otherwise.
func c18Sanitise(r *vh.Rng, n *verr.Node) {
	for ; n != nil; n = n.Inner {
		// round 11: reply texts that BEGIN like something else - an IPv4 address, a version number,
		// an enhanced status code (of the same / the other class, of no class at all, out of range),
		// a basic code, signed / padded / full-width digits: the text of a reply is text, whatever it
		// looks like; more often on an annotation WITHOUT an enhanced code (next hop without
		// ENHANCEDSTATUSCODES), where a "helpful" reading of the text has room to act
		noEnch := (n.Kind == "S" || n.Kind == "W" || n.Kind == "R" || (n.Kind == "F" && n.HasM && !n.HasE)) && (n.Kind == "F" || n.Ench[0] == 0)
		if (noEnch && r.Chance(35)) || r.Chance(6) {
			n.Msg = c18CodeLikeTexts[r.Intn(len(c18CodeLikeTexts))]
			continue
		}
		switch k := r.Intn(100); {
		case k < 22:
			n.Msg = c18Msgs[r.Intn(len(c18Msgs))]
		case k < 42:
			n.Msg = vdsn.NastyTexts[r.Intn(len(vdsn.NastyTexts))]
		}
	}
}

// c18Chain: one effective recipient: the address the sender used, then the address after each
// rewriting step.  same[i]: step i+1 happens in the SAME pipeline as step i (a later modifier
// stage) - the pipeline then records the sender's address for the result directly.
type c18Chain struct {
	addrs []int
	same  []bool
	nest1 bool // the only step is taken by the NESTED pipeline (the outer one passes the address on as it is)
}

type c18Given struct {
	root   int
	chains []c18Chain
	stage  byte // modifier stage of the first step in front mode
}

func c18Lookupable(s string) bool {
	if s == "" {
		return true
	}
	_, err := address.ForLookup(s)
	return err == nil
}

func c18GenCase(r *vh.Rng) *c18Case {
	c := &c18Case{utf8: r.Bool(), rtls: r.Chance(20), pipeline: r.Chance(93), maxTries: 1 + r.Intn(3), failAt: '-', kind: 'a',
		names: map[int]string{}, root: map[int]int{}, levels: map[int]int{}, hdr: r.Intn(vdsn.NumHeaders()),
		host: "mx.example.org", domain: r.Pick("example.org", "bounces.example.net"), msgid: fmt.Sprintf("%08x", r.Next()&0xffffffff)}
	if r.Chance(40) {
		c.failAt = "srbc"[r.Intn(4)]
	}
	if r.Chance(35) {
		c.kind = 'p'
	}
	nfRoot := vdsn.NumASCIILocalForms
	if c.utf8 {
		nfRoot = vdsn.NumDeliverable
	}
	next := 0
	formOf := map[int]int{}
	numOf := map[int]int{}
	newID := func(form int) int {
		next++
		c.names[next] = vdsn.Addr(form, next)
		formOf[next], numOf[next] = form, next
		return next
	}
	// respell: a new id standing for another SPELLING of the mailbox id stands for (letter case of
	// the local part / the domain, NFC / NFD, A-labels / U-labels, trailing dot); 0 = none available
	respell := func(id int) int {
		v := vdsn.Respell(c.names[id], r.Intn(vdsn.NumRespell))
		if v == "" {
			return 0
		}
		for _, nm := range c.names {
			if nm == v {
				return 0
			}
		}
		next++
		c.names[next] = v
		formOf[next], numOf[next] = -1, next
		return next
	}
	// sender
	switch k := r.Intn(100); {
	case k < 12:
		// null sender
	case k < 14:
		c.from = newID(r.Intn(nfRoot)) // sender rewritten from <> to something
	case k < 16:
		c.ofrom = newID(r.Intn(nfRoot)) // sender rewritten to <>
	case k < 26:
		c.ofrom = newID(r.Intn(nfRoot))
		f := r.Intn(nfRoot)
		if r.Chance(20) {
			f = r.Intn(vdsn.NumForms)
		}
		c.from = newID(f) // rewritten sender
	default:
		c.ofrom = newID(r.Intn(nfRoot))
		c.from = c.ofrom
	}
	if r.Chance(5) {
		c.host = r.Pick("почта.example", "", "xn--0.example")
	}
	if r.Chance(50) {
		c.rcvd = r.Pick("client.example", "xn--e1afmkfd.example", "клиент.example", "[192.0.2.1]")
		if r.Chance(6) {
			c.rcvd = "xn--0.example"
		}
	}

	// ---- the recipients the sender names and what the rewriting makes of them ----
	front := r.Chance(60)
	nested := front && r.Chance(45)
	var given []c18Given
	var roots []int
	newRoot := func() int {
		// 10%: the same mailbox as an earlier recipient in another case (u7@example.org / U7@EXAMPLE.ORG)
		if len(roots) > 0 && r.Chance(10) {
			o := roots[r.Intn(len(roots))]
			dup := false
			if f := formOf[o]; f == 0 || f == 1 {
				for _, nm := range c.names {
					if nm == vdsn.Addr(1-f, numOf[o]) {
						dup = true
					}
				}
			}
			if f := formOf[o]; (f == 0 || f == 1) && !dup {
				next++
				c.names[next] = vdsn.Addr(1-f, numOf[o])
				formOf[next], numOf[next] = 1-f, numOf[o]
				roots = append(roots, next)
				return next
			}
		}
		id := newID(r.Intn(nfRoot))
		roots = append(roots, id)
		return id
	}
	nr := 1 + r.Intn(4)
	sibling := false
	if r.Chance(4) && nr >= 2 {
		// siblings in one pipeline: A→B and B→C, both B and C are effective recipients
		a := newID(r.Intn(nfRoot))
		b := newID(r.Intn(nfRoot))
		cc := newID(r.Intn(vdsn.NumDeliverable))
		roots = append(roots, a, b)
		given = append(given, c18Given{root: a, chains: []c18Chain{{addrs: []int{a, b}, same: []bool{false}}}, stage: 'g'},
			c18Given{root: b, chains: []c18Chain{{addrs: []int{b, cc}, same: []bool{false}}}, stage: 'g'})
		nr -= 2
		sibling = true
	}
	total := 2 * len(given)
	for i := 0; i < nr && total < 5; i++ {
		g := c18Given{root: newRoot(), stage: "gsr"[r.Intn(3)]}
		if sibling {
			g.stage = "sr"[r.Intn(2)] // the g rules of the sibling pair stay as they are
		}
		lv := 0
		switch k := r.Intn(100); {
		case k < 50:
		case k < 83:
			lv = 1
		case k < 96:
			lv = 2
		default:
			lv = 3
		}
		if front && lv > 2 {
			lv = 2
		}
		members := 1
		if lv >= 1 {
			switch k := r.Intn(100); {
			case k < 68:
			case k < 93:
				members = 2
			default:
				members = 3
			}
		}
		for m := 0; m < members && total < 6; m++ {
			depth := lv
			if m > 0 && r.Chance(30) {
				depth = 1 // members of one alias need not be rewritten equally often
			}
			if m == members-1 && members > 1 && r.Chance(12) {
				depth = 0 // the alias keeps a copy for the address itself
			}
			// a second rewriting happens in a later modifier stage of the same pipeline or in a
			// second (nested) pipeline; a third one only in a further pipeline
			same1 := r.Chance(40)
			if front && depth >= 2 {
				canSame, canNest := g.stage != 'r', nested
				switch {
				case same1 && !canSame:
					same1 = false
					if !canNest {
						depth = 1
					}
				case !same1 && !canNest:
					same1 = true
					if !canSame {
						depth = 1
					}
				}
			}
			ch := c18Chain{addrs: []int{g.root}}
			for l := 0; l < depth; l++ {
				f := r.Intn(vdsn.NumDeliverable)
				if l < depth-1 && r.Chance(10) {
					f = r.Intn(vdsn.NumForms)
				}
				// 38%: the modifier changes only the SPELLING of the address (a table handing back the
				// stored form): alone (depth 1) or chained with a real rewrite before / after it
				id := 0
				if r.Chance(38) {
					id = respell(ch.addrs[len(ch.addrs)-1])
				}
				if id == 0 {
					id = newID(f)
				}
				ch.addrs = append(ch.addrs, id)
				ch.same = append(ch.same, l == 1 && same1)
			}
			if front && nested && depth == 1 && members == 1 && r.Chance(35) {
				ch.nest1 = true
			}
			g.chains = append(g.chains, ch)
			total++
		}
		given = append(given, g)
	}
	// what the queue is given, the ground truth, and the map a pipeline records (one entry per
	// pipeline level that changed the address, naming what THAT pipeline was given)
	var records [][2]int
	for _, g := range given {
		for _, ch := range g.chains {
			eff := ch.addrs[len(ch.addrs)-1]
			c.rcpts = append(c.rcpts, eff)
			c.root[eff] = g.root
			lvl := 0
			in := g.root // what the current pipeline was given
			for l := 1; l < len(ch.addrs); l++ {
				last := l == len(ch.addrs)-1
				if last || !ch.same[l] {
					// the pipeline hands ch.addrs[l] on (to the queue or to the next pipeline)
					if ch.addrs[l] != in {
						records = append(records, [2]int{ch.addrs[l], in})
						lvl++
					}
					in = ch.addrs[l]
				}
			}
			c.levels[eff] = lvl
		}
	}
	eligible := front
	for _, nm := range c.names {
		if !c18Lookupable(nm) {
			eligible = false
		}
	}
	if eligible {
		f := &c18Front{nested: nested}
		for _, g := range given {
			f.given = append(f.given, g.root)
			rule := []int{g.root}
			stage2 := map[byte]*[][]int{'g': &f.s, 's': &f.r}
			for _, ch := range g.chains {
				if len(ch.addrs) == 1 {
					rule = append(rule, g.root)
					continue
				}
				if ch.nest1 {
					rule = append(rule, g.root)
					f.n = append(f.n, []int{g.root, ch.addrs[1]})
					continue
				}
				rule = append(rule, ch.addrs[1])
				if len(ch.addrs) == 3 {
					if ch.same[1] {
						*stage2[g.stage] = append(*stage2[g.stage], []int{ch.addrs[1], ch.addrs[2]})
					} else {
						f.n = append(f.n, []int{ch.addrs[1], ch.addrs[2]})
					}
				}
			}
			if len(rule) > 2 || rule[1] != g.root {
				switch g.stage {
				case 'g':
					f.g = append(f.g, rule)
				case 's':
					f.s = append(f.s, rule)
				default:
					f.r = append(f.r, rule)
				}
			}
		}
		c.front = f
	} else {
		c.omap = records
	}

	// ---- what the downstream target answers, attempt by attempt ----
	genErr := func() *verr.Node {
		n := verr.Gen(r, r.Intn(4), r.Chance(88))
		c18Sanitise(r, n)
		return n
	}
	for k := 0; k < c.maxTries; k++ {
		p := c18NewPlan()
		shape := r.Intn(100)
		rcptPct := 78
		if shape >= 45 {
			rcptPct = 38
		}
		for _, rc := range c.rcpts {
			if r.Chance(rcptPct) {
				p.rcpt[rc] = genErr()
			}
		}
		switch {
		case shape < 45: // refusals at RCPT only
		case shape < 80: // …then the message is refused after DATA
			if c.kind == 'p' {
				for _, rc := range c.rcpts {
					if r.Chance(60) {
						p.bodyRc[rc] = genErr()
					}
				}
			} else if r.Chance(80) {
				p.body = genErr()
			}
		default: // …then the final acknowledgement fails
			if r.Chance(80) {
				p.commit = genErr()
			}
			if c.kind == 'p' {
				for _, rc := range c.rcpts {
					if r.Chance(25) {
						p.bodyRc[rc] = genErr()
					}
				}
			}
		}
		if r.Chance(5) {
			p.start = genErr()
		}
		c.plans = append(c.plans, p)
	}
	return c
}

func TestVerifC18Queue(t *testing.T) {
	out := vh.Open("c18_queue")
	defer out.Close()
	dontRecover = false
	c18Pipelines()
	if ops := vh.Replay(); ops != nil {
		for _, op := range ops {
			if strings.HasPrefix(op, "C18 q ") {
				c18RunCase(out, op)
			}
		}
		return
	}
	r := vh.NewRng(vh.Seed() + 1802)
	n := vh.N(1500)
	jobs := make(chan string, 64)
	var wg sync.WaitGroup
	for w := 0; w < 12; w++ {
		wg.Add(1)
		go func() {
			defer wg.Done()
			for op := range jobs {
				c18RunCase(out, op)
			}
		}()
	}
	for i := 0; i < n; i++ {
		jobs <- c18GenCase(r).op()
	}
	close(jobs)
	wg.Wait()
}

// ---- loop scenario (monitor only): two REAL queues, each the other's bounce pipeline, both
// downstream targets refuse everything permanently.  A report about a report would circulate
// forever; the property says the chain stops after the first report. ----

type c18Refuser struct {
	mu    sync.Mutex
	froms []string
	rcpts [][]string
	err   func() error
}

type c18RefuserDelivery struct{ t *c18Refuser }

func (t *c18Refuser) Start(ctx context.Context, msgMeta *module.MsgMetadata, mailFrom string) (module.Delivery, error) {
	t.mu.Lock()
	defer t.mu.Unlock()
	t.froms = append(t.froms, mailFrom)
	t.rcpts = append(t.rcpts, nil)
	return &c18RefuserDelivery{t}, nil
}
func (d *c18RefuserDelivery) AddRcpt(ctx context.Context, to string, _ smtp.RcptOptions) error {
	d.t.mu.Lock()
	defer d.t.mu.Unlock()
	d.t.rcpts[len(d.t.rcpts)-1] = append(d.t.rcpts[len(d.t.rcpts)-1], to)
	return d.t.err()
}
func (d *c18RefuserDelivery) Body(ctx context.Context, header textproto.Header, body buffer.Buffer) error {
	return nil
}
func (d *c18RefuserDelivery) Abort(ctx context.Context) error  { return nil }
func (d *c18RefuserDelivery) Commit(ctx context.Context) error { return nil }

func c18Loop(out *vh.Out, op string) {
	t := strings.Fields(op)
	utf8 := t[2] == "1"
	form, _ := strconv.Atoi(t[3])
	nr, _ := strconv.Atoi(t[4])
	seed, _ := strconv.ParseUint(t[5], 10, 64)
	rng := vh.NewRng(seed)
	mkErr := func() error {
		for {
			n := verr.Gen(rng, rng.Intn(3), true)
			if c18Perm(n) {
				c18Sanitise(rng, n)
				return n.Build()
			}
		}
	}
	var emu sync.Mutex
	errf := func() error { emu.Lock(); defer emu.Unlock(); return mkErr() }
	mk := func(tgt *c18Refuser) (*Queue, string) {
		dir, err := os.MkdirTemp("", "verif-c18-loop-")
		if err != nil {
			panic(err)
		}
		mod, _ := NewQueue("", "queue", nil, nil)
		q := mod.(*Queue)
		q.initialRetryTime, q.retryTimeScale, q.postInitDelay, q.maxTries = 0, 1, 0, 2
		q.location, q.Target, q.hostname, q.autogenMsgDomain = dir, tgt, "mx.example.org", "example.org"
		q.Log = log.Logger{Out: log.NopOutput{}}
		if err := q.start(1); err != nil {
			panic(err)
		}
		return q, dir
	}
	t1, t2 := &c18Refuser{err: errf}, &c18Refuser{err: errf}
	q1, d1 := mk(t1)
	q2, d2 := mk(t2)
	defer os.RemoveAll(d1)
	defer os.RemoveAll(d2)
	q1.dsnPipeline, q2.dsnPipeline = q2, q1

	sender := vdsn.Addr(form, 1)
	meta := &module.MsgMetadata{ID: fmt.Sprintf("%08x", rng.Next()&0xffffffff), OriginalFrom: sender, DontTraceSender: true, SMTPOpts: smtp.MailOptions{UTF8: utf8}}
	ctx := context.Background()
	d, _ := q1.Start(ctx, meta, sender)
	for i := 0; i < nr; i++ {
		d.AddRcpt(ctx, vdsn.Addr(0, 10+i), smtp.RcptOptions{})
	}
	d.Body(ctx, vdsn.Header(2), buffer.MemoryBuffer{Slice: []byte("hello\r\n")})
	d.Commit(ctx)

	empty := func(dir string) bool { e, _ := os.ReadDir(dir); return len(e) == 0 }
	count := func() (int, int) {
		t1.mu.Lock()
		a := len(t1.froms)
		t1.mu.Unlock()
		t2.mu.Lock()
		b := len(t2.froms)
		t2.mu.Unlock()
		return a, b
	}
	deadline := time.Now().Add(30 * time.Second)
	stableSince := time.Now()
	la, lb := -1, -1
	for time.Now().Before(deadline) {
		a, b := count()
		if a != la || b != lb || !empty(d1) || !empty(d2) {
			la, lb, stableSince = a, b, time.Now()
		} else if time.Since(stableSince) > 40*time.Millisecond || a+b > 12 {
			break
		}
		time.Sleep(500 * time.Microsecond)
	}
	a, b := count()
	q1.Close()
	q2.Close()
	if a == 1 && b == 0 {
		out.Violation("C18/report-not-generated", op, "loop scenario: the message failed permanently, the sender is not null, but no report reached the bounce route")
	} else if a != 1 || b != 1 {
		out.Violation("C18/report-loop", op, fmt.Sprintf("queue 1 attempted %d messages, queue 2 (its bounce route) %d; expected the message and one report", a, b))
	} else {
		t2.mu.Lock()
		if t2.froms[0] != "" || len(t2.rcpts[0]) != 1 || t2.rcpts[0][0] != sender {
			out.Violation("C18/report-envelope", op, fmt.Sprintf("report sent from %q to %q, sender was %q", t2.froms[0], t2.rcpts[0], sender))
		}
		t2.mu.Unlock()
	}
	if !empty(d1) || !empty(d2) {
		out.Violation("C18/queue-not-terminated", op, "spool not empty in the loop scenario")
	}
	out.Stat("loop.cases")
}

func TestVerifC18Loop(t *testing.T) {
	out := vh.Open("c18_loop")
	defer out.Close()
	dontRecover = false
	if ops := vh.Replay(); ops != nil {
		for _, op := range ops {
			if strings.HasPrefix(op, "C18 loop ") {
				c18Loop(out, op)
			}
		}
		return
	}
	r := vh.NewRng(vh.Seed() + 1803)
	n := vh.N(1500) / 40
	if n < 10 {
		n = 10
	}
	for i := 0; i < n; i++ {
		utf8 := r.Bool()
		nf := vdsn.NumASCIILocalForms
		if utf8 {
			nf = vdsn.NumDeliverable
		}
		c18Loop(out, fmt.Sprintf("C18 loop %s %d %d %d", c18Bool(utf8), r.Intn(nf), 1+r.Intn(3), r.Next()%1000000))
	}
}
