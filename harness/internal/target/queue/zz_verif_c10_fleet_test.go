package queue

// C10 fleet — SEVERAL messages through SEVERAL queue blocks that are configured the way maddy.conf
// configures them (NewQueue + Init with a configuration node: instance name, `location` directive /
// inline argument / nothing at all = the default place under the state directory, max_parallelism),
// under load, a restart of the whole server, and a process that dies while a message is being stored.
//
//   C10 fleet Q=<hex name>:<d|e|i>:<par>,...  M=<queue>:<tag>:<o|t|g>:<body len>:<extra fields>:<x|0-4>:<s|v>,...
//
// Q: the queue blocks. d = no location given (spool = <state dir>/<instance name>), e = `location`
//    directive with a directory of its own, i = inline argument with a directory of its own;
//    par = max_parallelism.
// M: the messages in the order they are submitted (Start, AddRcpt, Body, Commit on the block's queue).
//    tag: the message ID is "flt<tag>" (two blocks may be handed messages with the same ID: one source
//    feeding two queues); fate of the FIRST attempt at the block's next hop: o = taken, t = temporary
//    failure (the message stays in the spool, retry in an hour), g = the next hop hangs in Start
//    (holding a delivery slot) until every message of the case has been submitted, then takes it.
//    Every message has a sender, recipient, header (2 + extra fields) and body of its own.
//    Last field: the process "dies" while the body of this message is copied into the spool, after
//    k/4 of the body has been read (4 = after the last byte, before anything that follows the copy):
//    the spool directory is copied aside at that instant - what the dead process leaves behind.
//    s|v: v = two sessions at once: the NEXT message's Start, AddRcpt, Body come before this message's Commit
//    (honoured when there is a next message and it has no crash point; the order of the Commits stays).
//
// Phases: 1. submit all, open the gates, every first attempt completes; 2. all blocks are shut down and
// started again (retry delay 0, next hops up): what is pending is delivered; 3. for every crash
// point a queue is started on the copy of the spool.
//
// Observation = which message every block's next hop was handed in which phase (by index; `?<id>` for
// something the block never accepted).  Monitor, independent of the model: whatever a block's next hop is
// handed - in any phase, also after the crash - carries the ID of a message THAT BLOCK was given, with that
// message's sender, recipient, header bytes and body bytes (C10/foreign-message-handed-over,
// C10/sender-changed, C10/pending-recipients-changed, C10/header-bytes-changed, C10/body-bytes-changed);
// every accepted message gets its first attempt, every message left pending is handed over after the
// restart (C10/pending-message-dropped).

import (
	"bytes"
	"context"
	"errors"
	"fmt"
	"io"
	"os"
	"path/filepath"
	"sort"
	"strconv"
	"strings"
	"sync"
	"sync/atomic"
	"testing"
	"time"

	"github.com/emersion/go-message/textproto"
	"github.com/emersion/go-smtp"
	"github.com/foxcpp/maddy/framework/buffer"
	"github.com/foxcpp/maddy/framework/config"
	"github.com/foxcpp/maddy/framework/exterrors"
	"github.com/foxcpp/maddy/framework/log"
	"github.com/foxcpp/maddy/framework/module"
	"github.com/foxcpp/maddy/internal/verifshim/vh"
)

type c10fQueue struct {
	name string
	loc  byte
	par  int
}

type c10fMsg struct {
	q, tag int
	fate   byte
	blen   int
	nf     int
	snap   int // -1: none
	// the next message's Start .. Body come before this message's Commit (two sessions at once); honoured when
	// there is a next message and it has no crash point
	overlap bool

	from, rcpt string
	hdr        textproto.Header
	hdrBytes   []byte
	body       []byte
}

type c10fCase struct {
	qs []c10fQueue
	ms []*c10fMsg
}

func c10fParse(op string) (*c10fCase, error) {
	t := strings.Fields(op)
	if len(t) != 4 || t[0] != "C10" || t[1] != "fleet" || !strings.HasPrefix(t[2], "Q=") || !strings.HasPrefix(t[3], "M=") {
		return nil, errors.New("shape")
	}
	c := &c10fCase{}
	for _, qt := range strings.Split(t[2][2:], ",") {
		f := strings.Split(qt, ":")
		if len(f) != 3 || len(f[1]) != 1 || !strings.Contains("dei", f[1]) {
			return nil, errors.New("queue token")
		}
		par, err := strconv.Atoi(f[2])
		if err != nil || par < 1 {
			return nil, errors.New("par")
		}
		c.qs = append(c.qs, c10fQueue{name: string(vh.UnhexBytes(f[0])), loc: f[1][0], par: par})
	}
	for i, mt := range strings.Split(t[3][2:], ",") {
		f := strings.Split(mt, ":")
		if len(f) != 7 || len(f[2]) != 1 || !strings.Contains("otg", f[2]) || (f[6] != "s" && f[6] != "v") {
			return nil, errors.New("message token")
		}
		var v [5]int
		for k, j := range []int{0, 1, 3, 4} {
			n, err := strconv.Atoi(f[j])
			if err != nil || n < 0 {
				return nil, errors.New("number")
			}
			v[k] = n
		}
		m := &c10fMsg{q: v[0], tag: v[1], fate: f[2][0], blen: v[2], nf: v[3], snap: -1, overlap: f[6] == "v"}
		if f[5] != "x" {
			n, err := strconv.Atoi(f[5])
			if err != nil || n < 0 || n > 4 {
				return nil, errors.New("snap")
			}
			m.snap = n
		}
		if m.q >= len(c.qs) {
			return nil, errors.New("queue index")
		}
		m.from = fmt.Sprintf("sender%d@example.org", i)
		m.rcpt = fmt.Sprintf("rcpt%d@example.com", i)
		m.hdr = textproto.Header{}
		for k := m.nf; k > 0; k-- {
			m.hdr.Add(fmt.Sprintf("X-Fill-%d", k), strings.Repeat(fmt.Sprintf("message %d field %d ", i, k), 1+k%3))
		}
		m.hdr.Add("Message-Id", fmt.Sprintf("<fleet.%d.%d@example.org>", i, m.tag))
		m.hdr.Add("Subject", fmt.Sprintf("fleet message %d", i))
		var hb bytes.Buffer
		textproto.WriteHeader(&hb, m.hdr)
		m.hdrBytes = hb.Bytes()
		m.body = c10GenBody(i%4, m.blen, uint64(1000+i))
		c.ms = append(c.ms, m)
	}
	return c, nil
}

// what a next hop was handed
type c10fSeen struct {
	id, from string
	rcpts    []string
	hdr      []byte
	body     []byte
	bodyErr  string
	done     bool
}

// c10fTarget is the next hop of one queue block (a registered module instance: `target &<name>`).
type c10fTarget struct {
	inst string
	mu   sync.Mutex
	seen []*c10fSeen
	// phase 1: fate per message ID; nil afterwards (everything is taken)
	fates    map[string]byte
	gate     chan struct{}
	started  int32
	finished int32
	entered  int32 // deliveries that hang in Start
}

func (t *c10fTarget) Init(*config.Map) error { return nil }
func (t *c10fTarget) Name() string            { return "c10fleet_target" }
func (t *c10fTarget) InstanceName() string    { return t.inst }

type c10fDelivery struct {
	t    *c10fTarget
	s    *c10fSeen
	fate byte
}

func c10fBaseID(id string) string {
	if i := strings.LastIndexByte(id, '-'); i >= 0 {
		return id[:i]
	}
	return id
}

func (t *c10fTarget) Start(ctx context.Context, msgMeta *module.MsgMetadata, mailFrom string) (module.Delivery, error) {
	s := &c10fSeen{id: c10fBaseID(msgMeta.ID), from: mailFrom}
	t.mu.Lock()
	t.seen = append(t.seen, s)
	fate := byte('o')
	if t.fates != nil {
		if f, ok := t.fates[s.id]; ok {
			fate = f
		}
	}
	gate := t.gate
	t.mu.Unlock()
	atomic.AddInt32(&t.started, 1)
	if fate == 'g' && gate != nil {
		atomic.AddInt32(&t.entered, 1)
		<-gate
	}
	return &c10fDelivery{t: t, s: s, fate: fate}, nil
}

func (d *c10fDelivery) AddRcpt(ctx context.Context, to string, _ smtp.RcptOptions) error {
	d.t.mu.Lock()
	d.s.rcpts = append(d.s.rcpts, to)
	d.t.mu.Unlock()
	return nil
}

func (d *c10fDelivery) Body(ctx context.Context, header textproto.Header, body buffer.Buffer) error {
	var hb bytes.Buffer
	textproto.WriteHeader(&hb, header)
	var blob []byte
	var berr string
	if r, err := body.Open(); err != nil {
		berr = "open: " + err.Error()
	} else {
		blob, err = io.ReadAll(r)
		if err != nil {
			berr = "read: " + err.Error()
		}
		r.Close()
	}
	d.t.mu.Lock()
	d.s.hdr, d.s.body, d.s.bodyErr = hb.Bytes(), blob, berr
	d.t.mu.Unlock()
	if d.fate == 't' {
		return exterrors.WithTemporary(errors.New("next hop is busy"), true)
	}
	return nil
}

func (d *c10fDelivery) fin() {
	d.t.mu.Lock()
	first := !d.s.done
	d.s.done = true
	d.t.mu.Unlock()
	if first {
		atomic.AddInt32(&d.t.finished, 1)
	}
}

func (d *c10fDelivery) Abort(ctx context.Context) error  { d.fin(); return nil }
func (d *c10fDelivery) Commit(ctx context.Context) error { d.fin(); return nil }

// c10fBody is the body buffer of a message whose store operation is "interrupted": after `after` bytes
// have been read (resp. at the read that reports the end) the spool directory is copied to snapDir.
type c10fBody struct {
	data    []byte
	after   int
	atEOF   bool
	spool   func() string
	snapDir string
	taken   int32
	err     error
}

type c10fReader struct {
	b   *c10fBody
	off int
}

func (b *c10fBody) take() {
	if !atomic.CompareAndSwapInt32(&b.taken, 0, 1) {
		return
	}
	dir := b.spool()
	entries, err := os.ReadDir(dir)
	if err != nil {
		b.err = err
		return
	}
	for _, e := range entries {
		if e.IsDir() {
			continue
		}
		blob, err := os.ReadFile(filepath.Join(dir, e.Name()))
		if err != nil {
			b.err = err
			return
		}
		if err := os.WriteFile(filepath.Join(b.snapDir, e.Name()), blob, 0o600); err != nil {
			b.err = err
			return
		}
	}
}

func (r *c10fReader) Read(p []byte) (int, error) {
	if !r.b.atEOF && r.off >= r.b.after {
		r.b.take()
	}
	if r.off >= len(r.b.data) {
		if r.b.atEOF {
			r.b.take()
		}
		return 0, io.EOF
	}
	n := 8192
	if !r.b.atEOF && r.off < r.b.after && r.off+n > r.b.after {
		n = r.b.after - r.off
	}
	if n > len(p) {
		n = len(p)
	}
	if n > len(r.b.data)-r.off {
		n = len(r.b.data) - r.off
	}
	copy(p, r.b.data[r.off:r.off+n])
	r.off += n
	return n, nil
}

func (r *c10fReader) Close() error { return nil }

func (b *c10fBody) Open() (io.ReadCloser, error) { return &c10fReader{b: b}, nil }
func (b *c10fBody) Len() int                     { return len(b.data) }
func (b *c10fBody) Remove() error                { return nil }

// own messages by index, then whatever the block never accepted
func c10fSort(l []string) {
	key := func(s string) (int, int) {
		n := 0
		for n < len(s) && s[n] >= '0' && s[n] <= '9' {
			n++
		}
		if n == 0 {
			return 1, 0
		}
		v, _ := strconv.Atoi(s[:n])
		return 0, v
	}
	sort.SliceStable(l, func(a, b int) bool {
		ca, va := key(l[a])
		cb, vb := key(l[b])
		if ca != cb {
			return ca < cb
		}
		if ca == 0 {
			return va < vb
		}
		return l[a] < l[b]
	})
}

var c10fSerial int32

type c10fWorld struct {
	c     *c10fCase
	root  string
	tgts  []*c10fTarget
	qs    []*Queue
	notes []string
}

// newQ builds queue block k the way the configuration loader does. retry: initial retry delay.
func (w *c10fWorld) newQ(k int, tgt *c10fTarget, retry time.Duration, locOverride string) (*Queue, error) {
	qc := w.c.qs[k]
	var inline []string
	children := []config.Node{
		{Name: "target", Args: []string{"&" + tgt.inst}},
		{Name: "hostname", Args: []string{"mx.example.org"}},
		{Name: "max_parallelism", Args: []string{strconv.Itoa(qc.par)}},
	}
	own := filepath.Join(w.root, "own", strconv.Itoa(k))
	switch {
	case locOverride != "":
		children = append(children, config.Node{Name: "location", Args: []string{locOverride}})
	case qc.loc == 'e':
		children = append(children, config.Node{Name: "location", Args: []string{own}})
	case qc.loc == 'i':
		inline = []string{own}
	}
	mod, err := NewQueue("target.queue", qc.name, nil, inline)
	if err != nil {
		return nil, err
	}
	q := mod.(*Queue)
	q.initialRetryTime = retry
	q.retryTimeScale = 1
	q.postInitDelay = 0
	q.Log = log.Logger{Out: log.NopOutput{}}
	if err := q.Init(config.NewMap(nil, config.Node{Children: children})); err != nil {
		return nil, err
	}
	return q, nil
}

func (w *c10fWorld) newTarget() *c10fTarget {
	t := &c10fTarget{inst: fmt.Sprintf("c10fleet_hop_%d", atomic.AddInt32(&c10fSerial, 1))}
	module.RegisterInstance(t, nil)
	return t
}

func c10fPoll(limit time.Duration, cond func() bool) bool {
	deadline := time.Now().Add(limit)
	for !cond() {
		if time.Now().After(deadline) {
			return false
		}
		time.Sleep(100 * time.Microsecond)
	}
	return true
}

// settle: the queue has dispatched everything that is due (its wheel is empty), then Close - which waits for
// the wheel goroutine and for every delivery in flight.
func c10fSettle(q *Queue, limit time.Duration) bool {
	ok := c10fPoll(limit, func() bool { return c10WheelEmpty(q) })
	q.Close()
	return ok
}

var c10fTimeouts int32

func c10fLimit() time.Duration {
	if atomic.LoadInt32(&c10fTimeouts) >= 3 {
		return 300 * time.Millisecond
	}
	return 20 * time.Second
}

func c10Fleet(out *vh.Out, op string) {
	c, err := c10fParse(op)
	if err != nil {
		out.Corr(op, "bad-op")
		return
	}
	root, err := os.MkdirTemp("", "c10fleet")
	if err != nil {
		panic(err)
	}
	defer os.RemoveAll(root)
	oldState := config.StateDirectory
	config.StateDirectory = filepath.Join(root, "state")
	defer func() { config.StateDirectory = oldState }()
	os.MkdirAll(config.StateDirectory, 0o700)
	w := &c10fWorld{c: c, root: root}

	viol := 0
	violation := func(sig, detail string) {
		viol++
		out.Violation(sig, op, detail)
	}
	// accepted[k][id] = index of the message queue block k was given under that ID (the LAST one)
	accepted := make([]map[string]int, len(c.qs))
	for k := range accepted {
		accepted[k] = map[string]int{}
	}
	// judge compares one thing a next hop was handed with what its block accepted; returns the label for the observation
	judge := func(k int, s *c10fSeen, where string) string {
		i, ok := accepted[k][s.id]
		if !ok {
			violation("C10/foreign-message-handed-over", fmt.Sprintf("%s: the next hop of queue block %d (%q) was handed a message with ID %q (sender %q, recipients %q, body %d bytes) - that block was never given such a message",
				where, k, c.qs[k].name, s.id, s.from, s.rcpts, len(s.body)))
			return "?" + s.id
		}
		m := c.ms[i]
		if s.from != m.from {
			violation("C10/sender-changed", fmt.Sprintf("%s: message %d of block %d handed over with sender %q, accepted with %q", where, i, k, s.from, m.from))
		}
		if len(s.rcpts) != 1 || s.rcpts[0] != m.rcpt {
			violation("C10/pending-recipients-changed", fmt.Sprintf("%s: message %d of block %d handed over for %q, accepted (and pending) for [%q]", where, i, k, s.rcpts, m.rcpt))
		}
		if s.hdr != nil && !bytes.Equal(s.hdr, m.hdrBytes) {
			violation("C10/header-bytes-changed", fmt.Sprintf("%s: message %d of block %d handed over with header %s, accepted with %s", where, i, k, c10Abbrev(s.hdr), c10Abbrev(m.hdrBytes)))
		}
		if s.hdr != nil && (s.bodyErr != "" || !bytes.Equal(s.body, m.body)) {
			violation("C10/body-bytes-changed", fmt.Sprintf("%s: message %d of block %d handed over with a body of %d bytes %s %s, accepted %d bytes %s", where, i, k, len(s.body), c10Abbrev(s.body), s.bodyErr, len(m.body), c10Abbrev(m.body)))
		}
		return strconv.Itoa(i)
	}

	// ---- phase 1
	gate := make(chan struct{})
	for k := range c.qs {
		t := w.newTarget()
		t.fates = map[string]byte{}
		t.gate = gate
		w.tgts = append(w.tgts, t)
		q, err := w.newQ(k, t, time.Hour, "")
		if err != nil {
			out.Corr(op, "init-failed["+err.Error()+"]")
			close(gate)
			for _, q := range w.qs {
				q.Close()
			}
			return
		}
		w.qs = append(w.qs, q)
	}
	type snapT struct {
		msg int
		dir string
		b   *c10fBody
	}
	var snaps []snapT
	held := make([]int, len(c.qs))
	ctx := context.Background()
	timedOut := false
	fail := func(err error) {
		out.Corr(op, "submit-failed["+err.Error()+"]")
		close(gate)
		for _, q := range w.qs {
			q.Close()
		}
	}
	// store: Start, AddRcpt, Body (the message is in the spool); commit: Commit, then - unless every delivery
	// slot of its block is held, in which case the message waits for a slot - its first attempt (up to the
	// point where the next hop hangs) before anything else is submitted
	store := func(i int) (module.Delivery, error) {
		m := c.ms[i]
		q, t := w.qs[m.q], w.tgts[m.q]
		id := "flt" + strconv.Itoa(m.tag)
		t.mu.Lock()
		t.fates[id] = m.fate
		t.mu.Unlock()
		var body buffer.Buffer = buffer.MemoryBuffer{Slice: m.body}
		if m.snap >= 0 {
			dir := filepath.Join(root, "snap", strconv.Itoa(i))
			os.MkdirAll(dir, 0o700)
			fb := &c10fBody{data: m.body, after: len(m.body) * m.snap / 4, atEOF: m.snap == 4, spool: func() string { return q.location }, snapDir: dir}
			body = fb
			snaps = append(snaps, snapT{i, dir, fb})
		}
		meta := &module.MsgMetadata{ID: id, OriginalFrom: m.from, DontTraceSender: true}
		d, err := q.Start(ctx, meta, m.from)
		if err == nil {
			err = d.AddRcpt(ctx, m.rcpt, smtp.RcptOptions{})
		}
		if err == nil {
			err = d.Body(ctx, m.hdr, body)
		}
		return d, err
	}
	commit := func(i int, d module.Delivery) error {
		m := c.ms[i]
		q, t := w.qs[m.q], w.tgts[m.q]
		before := atomic.LoadInt32(&t.finished)
		enteredBefore := atomic.LoadInt32(&t.entered)
		if err := d.Commit(ctx); err != nil {
			return err
		}
		accepted[m.q]["flt"+strconv.Itoa(m.tag)] = i
		if held[m.q] >= c.qs[m.q].par {
			out.Stat("fleet.first-attempt.waits-for-a-slot")
			return nil
		}
		if m.fate == 'g' {
			held[m.q]++
			if !c10fPoll(c10fLimit(), func() bool { return atomic.LoadInt32(&t.entered) > enteredBefore }) {
				timedOut = true
			}
		} else if !c10fPoll(c10fLimit(), func() bool {
			// ... and the queue is through with it (spool entry removed resp. rewritten): the slot is free again
			return atomic.LoadInt32(&t.finished) > before && len(q.deliverySemaphore) == held[m.q]
		}) {
			timedOut = true
		}
		if timedOut {
			atomic.AddInt32(&c10fTimeouts, 1)
		}
		return nil
	}
	for i := 0; i < len(c.ms) && !timedOut; {
		// two sessions at once: the next message's Start .. Body come before this one's Commit
		pair := c.ms[i].overlap && i+1 < len(c.ms) && c.ms[i+1].snap < 0
		d, err := store(i)
		var d2 module.Delivery
		if err == nil && pair {
			out.Stat("fleet.overlapping-sessions")
			d2, err = store(i + 1)
		}
		if err == nil {
			err = commit(i, d)
		}
		if err == nil && pair && !timedOut {
			err = commit(i+1, d2)
		}
		if err != nil {
			fail(err)
			return
		}
		i++
		if pair {
			i++
		}
	}
	close(gate)
	if !timedOut {
		total := func() int {
			n := 0
			for _, t := range w.tgts {
				n += int(atomic.LoadInt32(&t.finished))
			}
			return n
		}
		if !c10fPoll(c10fLimit(), func() bool { return total() >= len(c.ms) }) {
			timedOut = true
			atomic.AddInt32(&c10fTimeouts, 1)
		}
	}
	for _, q := range w.qs {
		q.Close()
	}
	var obs []string
	p1 := make([]string, len(c.qs))
	got1 := map[int]int{}
	for k, t := range w.tgts {
		var l []string
		for _, s := range t.seen {
			lab := judge(k, s, "first attempts")
			if i, err := strconv.Atoi(lab); err == nil {
				got1[i]++
				lab += string(c.ms[i].fate)
			}
			l = append(l, lab)
		}
		c10fSort(l)
		p1[k] = strings.Join(l, ".")
	}
	obs = append(obs, "p1["+strings.Join(p1, ";")+"]")
	for i := range c.ms {
		// (a message overwritten in its own block by a later one with the same ID is not generated)
		if got1[i] == 0 {
			violation("C10/pending-message-dropped", fmt.Sprintf("message %d was accepted by queue block %d (Commit returned) but its first attempt never took place (waited %v)", i, c.ms[i].q, c10fLimit()))
		}
	}

	// ---- phase 2: the server is started again, the next hops are up
	pending := make([][]int, len(c.qs))
	for i, m := range c.ms {
		if m.fate == 't' {
			pending[m.q] = append(pending[m.q], i)
		}
	}
	tg2 := make([]*c10fTarget, len(c.qs))
	q2 := make([]*Queue, len(c.qs))
	for k := range c.qs {
		tg2[k] = w.newTarget()
		q, err := w.newQ(k, tg2[k], 0, "")
		if err != nil {
			out.Corr(op, "reinit-failed["+err.Error()+"]")
			for _, q := range q2 {
				if q != nil {
					q.Close()
				}
			}
			return
		}
		q2[k] = q
	}
	for k, q := range q2 {
		if !c10fSettle(q, c10fLimit()) {
			atomic.AddInt32(&c10fTimeouts, 1)
			w.notes = append(w.notes, fmt.Sprintf("block %d did not settle after the restart", k))
		}
	}
	p2 := make([]string, len(c.qs))
	for k, t := range tg2 {
		var l []string
		got := map[int]bool{}
		for _, s := range t.seen {
			lab := judge(k, s, "after the restart")
			if i, err := strconv.Atoi(lab); err == nil {
				got[i] = true
			}
			l = append(l, lab)
		}
		c10fSort(l)
		p2[k] = strings.Join(l, ".")
		for _, i := range pending[k] {
			if !got[i] {
				violation("C10/pending-message-dropped", fmt.Sprintf("message %d (ID flt%d, recipient %q deferred by the next hop) was pending in queue block %d (%q) when the server was shut down; after the restart the block's next hop was never handed it (handed: %s)",
					i, c.ms[i].tag, c.ms[i].rcpt, k, c.qs[k].name, p2[k]))
			}
		}
	}
	obs = append(obs, "p2["+strings.Join(p2, ";")+"]")

	// ---- phase 3: what a process that died while storing a message left behind
	var p3 []string
	for _, sn := range snaps {
		m := c.ms[sn.msg]
		if sn.b.err != nil || atomic.LoadInt32(&sn.b.taken) == 0 {
			p3 = append(p3, fmt.Sprintf("%d:not-taken", sn.msg))
			continue
		}
		t := w.newTarget()
		q, err := w.newQ(m.q, t, 0, sn.dir)
		if err != nil {
			p3 = append(p3, fmt.Sprintf("%d:init-failed", sn.msg))
			continue
		}
		if !c10fSettle(q, c10fLimit()) {
			atomic.AddInt32(&c10fTimeouts, 1)
		}
		// at that instant block m.q had been given the messages before sn.msg (and was being given sn.msg)
		saved := accepted[m.q]
		accepted[m.q] = map[string]int{}
		for i := 0; i <= sn.msg; i++ {
			if c.ms[i].q == m.q {
				accepted[m.q]["flt"+strconv.Itoa(c.ms[i].tag)] = i
			}
		}
		var l []string
		for _, s := range t.seen {
			l = append(l, judge(m.q, s, fmt.Sprintf("restart after the process died while storing message %d (%d of %d body bytes read)", sn.msg, sn.b.after, len(m.body))))
		}
		accepted[m.q] = saved
		c10fSort(l)
		p3 = append(p3, fmt.Sprintf("%d:%s", sn.msg, strings.Join(l, ".")))
		out.Stat(fmt.Sprintf("fleet.crash-while-storing.at-%d/4", m.snap))
	}
	obs = append(obs, "p3["+strings.Join(p3, ";")+"]")
	if timedOut {
		obs = append(obs, "timed-out")
	}
	out.Corr(op, strings.Join(obs, " "))

	nd := 0
	for _, qc := range c.qs {
		if qc.loc == 'd' {
			nd++
		}
	}
	out.Stat(fmt.Sprintf("fleet.blocks-%d.default-location-%d", len(c.qs), nd))
	out.Stat(fmt.Sprintf("fleet.messages-%d", len(c.ms)))
	if viol > 0 {
		out.Stat("fleet.case-with-violation")
	}
	for _, n := range w.notes {
		out.Note("C10 fleet: " + n + ": " + op)
	}
}

var c10fNames = []string{"local_queue", "remote_queue", "outbound", "queue", "queue2", "q", "Queue", "bounce-queue", "dsn.queue", "очередь", "local queue", "remote_queue.1"}

var c10fFamilies = [][]string{
	{"queue", "Queue", "QUEUE", "queue "},
	{"remote_queue", "remote_queue.1", "remote_queue.2", "remote_queue.old"},
	{"local queue", "local_queue", "local-queue", "localqueue"},
	{"out/queue", "in/queue", "queue", "out/in/queue"},
	{"очередь", "Очередь", "очередь2", "queue"},
	{"target.queue", "queue", "target.queue.queue", "target"},
}

func c10GenFleet(r *vh.Rng, k int) string {
	nq := 1 + r.Intn(3)
	if k%3 != 0 && nq < 2 {
		nq = 2
	}
	// instance names: from the general pool, or (half of the cases) from one family of names that differ only
	// in what a careless derivation of the directory would drop (case, an extension, blanks, a path prefix)
	pool := c10fNames
	if r.Chance(50) {
		pool = c10fFamilies[r.Intn(len(c10fFamilies))]
	}
	perm := make([]int, len(pool))
	for i := range perm {
		perm[i] = i
	}
	for i := len(perm) - 1; i > 0; i-- {
		j := r.Intn(i + 1)
		perm[i], perm[j] = perm[j], perm[i]
	}
	var qs []string
	for i := 0; i < nq; i++ {
		loc := "d"
		if r.Chance(35) {
			loc = r.Pick("e", "i")
		}
		par := 1
		if r.Chance(40) {
			par = 2 + r.Intn(2)
		}
		qs = append(qs, fmt.Sprintf("%s:%s:%d", vh.HexBytes([]byte(pool[perm[i]])), loc, par))
	}
	nm := 2 + r.Intn(6)
	var ms []string
	used := map[[2]int]bool{}
	nextTag := 0
	snapLeft := 2
	for i := 0; i < nm; i++ {
		q := r.Intn(nq)
		tag := nextTag
		// one source feeding two blocks: the ID of an earlier message of ANOTHER block
		if i > 0 && nq > 1 && r.Chance(20) {
			for t := 0; t < nextTag; t++ {
				if !used[[2]int{q, t}] {
					tag = t
					break
				}
			}
		}
		if tag == nextTag {
			nextTag++
		}
		used[[2]int{q, tag}] = true
		fate := "o"
		switch v := r.Intn(100); {
		case v < 35:
			fate = "t"
		case v < 65:
			fate = "g"
		}
		blen := []int{0, 1, 17, 300, 5000, 40000, 70000}[r.Intn(7)]
		snap := "x"
		if snapLeft > 0 && r.Chance(30) {
			snapLeft--
			snap = strconv.Itoa(r.Intn(5))
			if blen < 5000 {
				blen = 40000 + r.Intn(200000)
			}
			if r.Chance(15) {
				blen = 1<<20 + r.Intn(4096)
			}
		}
		ms = append(ms, fmt.Sprintf("%d:%d:%s:%d:%d:%s:%s", q, tag, fate, blen, r.Intn(5), snap, r.Pick("s", "s", "s", "v")))
	}
	return "C10 fleet Q=" + strings.Join(qs, ",") + " M=" + strings.Join(ms, ",")
}

func TestVerifC10Fleet(t *testing.T) {
	out := vh.Open("c10_fleet")
	defer out.Close()
	dontRecover = false
	c10QuietPanics()
	if ops := vh.Replay(); ops != nil {
		for _, op := range ops {
			if strings.HasPrefix(op, "C10 fleet ") {
				c10Fleet(out, op)
			}
		}
		return
	}
	// the state directory is process-wide: the cases run one after the other
	n := vh.N(600) / 30
	r := vh.NewRng(vh.Seed() + 2020)
	for k := 0; k < n; k++ {
		c10Fleet(out, c10GenFleet(r, k))
	}
	// fixed cases (whatever the seed): two blocks at the default place with a message pending each; a busy
	// block with one slot; a process that dies in the middle of / at the end of the body copy
	hx := func(s string) string { return vh.HexBytes([]byte(s)) }
	c10Fleet(out, "C10 fleet Q="+hx("outbound_queue")+":d:1,"+hx("local_queue")+":d:1 M=0:0:t:24:0:x:s,1:1:t:21:1:x:s")
	c10Fleet(out, "C10 fleet Q="+hx("outbound_queue")+":d:1,"+hx("local_queue")+":d:2 M=0:0:t:24:0:x:v,1:0:t:24:0:x:s,1:1:o:5:0:x:s")
	c10Fleet(out, "C10 fleet Q="+hx("Queue")+":d:1,"+hx("queue")+":d:1,"+hx("queue.2")+":d:1 M=0:0:t:24:0:x:s,1:1:t:21:1:x:s,2:2:t:5:0:x:s,1:3:o:7:0:x:s")
	c10Fleet(out, "C10 fleet Q="+hx("local_queue")+":e:1 M=0:0:g:24:0:x:s,0:1:o:30:2:x:s,0:2:t:31:3:x:v,0:3:o:9:1:x:s")
	c10Fleet(out, "C10 fleet Q="+hx("local_queue")+":i:1 M=0:0:t:100:0:x:s,0:1:o:1048576:1:1:s,0:2:o:70000:1:4:s")
}
