package queue

// C16, strengthening round 5 — what the queue keeps and finally reports for ONE recipient over a
// HISTORY of delivery attempts through the REAL queue (tryDelivery / deliver / emitDSN /
// dsn.GenerateDSN), with restarts between attempts.
//
//   C16 qhist <maxTries> <utf8> <attempt> ; <attempt> ; …
//     attempt = [K] ok | [K] <stage> <error tree>
//     K       the queue is shut down after the previous attempt and a new instance is started on
//             the spool directory before this one
//     stage   where the scripted target fails the recipient: s Start, r AddRcpt, b Body (atomic
//             delivery), n a BodyNonAtomic status, c Commit
//     an attempt the plan does not cover is accepted by the target
//
//   observation, one item per attempt that took place:
//     a<i>:retry tries=<TriesCount> stored=<code> <a.b.c> <text>     read from the .meta file (own JSON
//                                                                    decoding) before the next attempt
//     a<i>:giveup status=<a.b.c> diag=<code> <a.b.c> <text> human=<code>   the report handed to the bounce
//                                                                    pipeline, parsed with Go's stdlib (vdsn)
//     a<i>:giveup genfail | a<i>:delivered
//
//   C16 rep <utf8> <action> <code> <a> <s> <d> <text> ; …   the real dsn.GenerateDSN on stored errors
//     (RecipientInfo built the way emitDSN builds it), one recipient group each
//
// Monitor (from the property text, independent of the model): after EACH attempt the recorded class
// is the class of the decision taken for THAT attempt — retried ⇒ 4yz with 4.x.x in the .meta file;
// given up ⇒ Status, the basic and the enhanced code of Diagnostic-Code and the code of the
// human-readable part are of one class, 5 when the failure of that attempt is permanent.

import (
	"bytes"
	"context"
	"encoding/json"
	"fmt"
	"io"
	"os"
	"path/filepath"
	"regexp"
	"strconv"
	"strings"
	"sync"
	"sync/atomic"
	"testing"
	"time"

	"github.com/emersion/go-message/textproto"
	"github.com/emersion/go-smtp"
	"github.com/foxcpp/maddy/framework/buffer"
	"github.com/foxcpp/maddy/framework/log"
	"github.com/foxcpp/maddy/framework/module"
	"github.com/foxcpp/maddy/internal/dsn"
	"github.com/foxcpp/maddy/internal/verifshim/vdsn"
	"github.com/foxcpp/maddy/internal/verifshim/verr"
	"github.com/foxcpp/maddy/internal/verifshim/vh"
)

const (
	c16hRcpt   = "rcpt@example.org"
	c16hSender = "sender@example.com"
	c16hID     = "c16hist"
)

type c16hAttempt struct {
	restart bool
	stage   byte
	node    *verr.Node // nil: accepted
	// stage n only: statuses reported for the recipient BEFORE the last one (node), in order; a nil
	// entry is a success status (what a pipeline fanning the recipient out to several targets does)
	pre []*verr.Node
}

type c16hCase struct {
	maxTries int
	utf8     bool
	atts     []c16hAttempt
}

func (c *c16hCase) op() string {
	var segs []string
	for _, a := range c.atts {
		s := ""
		if a.restart {
			s = "K "
		}
		if a.node == nil {
			s += "ok"
		} else {
			s += string([]byte{a.stage})
			for _, p := range a.pre {
				if p == nil {
					s += " ok +"
				} else {
					s += " " + p.String() + " +"
				}
			}
			s += " " + a.node.String()
		}
		segs = append(segs, s)
	}
	u := "0"
	if c.utf8 {
		u = "1"
	}
	return fmt.Sprintf("C16 qhist %d %s %s", c.maxTries, u, strings.Join(segs, " ; "))
}

func c16hParse(op string) *c16hCase {
	t := strings.Fields(op)
	c := &c16hCase{utf8: t[3] == "1"}
	c.maxTries, _ = strconv.Atoi(t[2])
	var cur []string
	flush := func() {
		if len(cur) == 0 {
			return
		}
		a := c16hAttempt{}
		if cur[0] == "K" {
			a.restart = true
			cur = cur[1:]
		}
		if cur[0] != "ok" {
			a.stage = cur[0][0]
			var piece []string
			for _, tk := range cur[1:] {
				if tk != "+" {
					piece = append(piece, tk)
					continue
				}
				if len(piece) == 1 && piece[0] == "ok" {
					a.pre = append(a.pre, nil)
				} else {
					n, _ := verr.Parse(piece)
					a.pre = append(a.pre, n)
				}
				piece = nil
			}
			a.node, _ = verr.Parse(piece)
		}
		c.atts = append(c.atts, a)
		cur = nil
	}
	for _, tok := range t[4:] {
		if tok == ";" {
			flush()
		} else {
			cur = append(cur, tok)
		}
	}
	flush()
	return c
}

// ---- what is in the .meta file, decoded independently of the queue's own types ----

type c16hStored struct {
	Code         int
	EnhancedCode [3]int
	Message      string
}

type c16hMeta struct {
	To         []string
	RcptErrs   map[string]*c16hStored
	TriesCount map[string]int
}

func c16hReadMeta(spool string) *c16hMeta {
	b, err := os.ReadFile(filepath.Join(spool, c16hID+".meta"))
	if err != nil {
		return nil
	}
	m := &c16hMeta{}
	if json.Unmarshal(b, m) != nil {
		return nil
	}
	return m
}

// ---- scripted target ----

type c16hTarget struct {
	mu      sync.Mutex
	c       *c16hCase
	q       *Queue
	spool   string
	started int
	snaps   []*c16hMeta // snaps[k]: the .meta file when attempt k (0-based) starts = the state after k attempts
}

type c16hDelivery struct {
	att c16hAttempt
}

type c16hPartial struct{ *c16hDelivery }

func (t *c16hTarget) planned(k int) c16hAttempt {
	if k < len(t.c.atts) {
		return t.c.atts[k]
	}
	return c16hAttempt{}
}

func (t *c16hTarget) Start(ctx context.Context, msgMeta *module.MsgMetadata, mailFrom string) (module.Delivery, error) {
	t.mu.Lock()
	defer t.mu.Unlock()
	k := t.started
	t.started++
	t.snaps = append(t.snaps, c16hReadMeta(t.spool))
	// hold the queue after this attempt when the plan continues with a restart
	if k+1 < len(t.c.atts) && t.c.atts[k+1].restart {
		t.q.initialRetryTime = time.Hour
	} else {
		t.q.initialRetryTime = 0
	}
	att := t.planned(k)
	if att.node != nil && att.stage == 's' {
		return nil, att.node.Build()
	}
	d := &c16hDelivery{att: att}
	if att.node != nil && att.stage == 'n' {
		return &c16hPartial{d}, nil
	}
	return d, nil
}

func (d *c16hDelivery) AddRcpt(ctx context.Context, to string, _ smtp.RcptOptions) error {
	if d.att.node != nil && d.att.stage == 'r' {
		return d.att.node.Build()
	}
	return nil
}

func (d *c16hDelivery) Body(ctx context.Context, header textproto.Header, body buffer.Buffer) error {
	if d.att.node != nil && d.att.stage == 'b' {
		return d.att.node.Build()
	}
	return nil
}

func (d *c16hPartial) BodyNonAtomic(ctx context.Context, sc module.StatusCollector, header textproto.Header, body buffer.Buffer) {
	for _, p := range d.att.pre {
		if p == nil {
			sc.SetStatus(c16hRcpt, nil)
		} else {
			sc.SetStatus(c16hRcpt, p.Build())
		}
	}
	sc.SetStatus(c16hRcpt, d.att.node.Build())
}

func (d *c16hDelivery) Abort(ctx context.Context) error { return nil }

func (d *c16hDelivery) Commit(ctx context.Context) error {
	if d.att.node != nil && d.att.stage == 'c' {
		return d.att.node.Build()
	}
	return nil
}

// ---- bounce pipeline: keeps the reports ----

type c16hBounce struct {
	t    *c16hTarget
	mu   sync.Mutex
	msgs map[int][][]byte // by the (0-based) attempt during which the report was handed over
}

type c16hBounceDelivery struct {
	b   *c16hBounce
	att int
}

func (b *c16hBounce) Start(ctx context.Context, msgMeta *module.MsgMetadata, mailFrom string) (module.Delivery, error) {
	b.t.mu.Lock()
	att := b.t.started - 1
	b.t.mu.Unlock()
	return &c16hBounceDelivery{b: b, att: att}, nil
}

func (d *c16hBounceDelivery) AddRcpt(ctx context.Context, to string, _ smtp.RcptOptions) error {
	return nil
}

func (d *c16hBounceDelivery) Body(ctx context.Context, header textproto.Header, body buffer.Buffer) error {
	var msg bytes.Buffer
	if err := textproto.WriteHeader(&msg, header); err != nil {
		return err
	}
	r, err := body.Open()
	if err != nil {
		return err
	}
	io.Copy(&msg, r)
	r.Close()
	d.b.mu.Lock()
	d.b.msgs[d.att] = append(d.b.msgs[d.att], msg.Bytes())
	d.b.mu.Unlock()
	return nil
}

func (d *c16hBounceDelivery) Abort(ctx context.Context) error  { return nil }
func (d *c16hBounceDelivery) Commit(ctx context.Context) error { return nil }

// ---- the codes a report shows, parsed with the stdlib ----

type c16hReport struct {
	ok                          bool
	action, status              string
	diagCode, diagEnch, diagTxt string
	human                       string
	groups                      int
}

var c16hHumanRe = regexp.MustCompile(`failed with error: SMTP error ([0-9]{3})`)

func c16hParseReports(msg []byte, utf8 bool) []c16hReport {
	p := vdsn.Parse(msg, utf8)
	var humans []string
	if len(p.PartBodies) > 0 {
		for _, m := range c16hHumanRe.FindAllSubmatch(p.PartBodies[0], -1) {
			v, _ := strconv.Atoi(string(m[1])) // "SMTP error %03d": the number, not its zero padding
			humans = append(humans, strconv.Itoa(v))
		}
	}
	var out []c16hReport
	for i, g := range p.Rcpts {
		r := c16hReport{ok: true, action: "?", status: "?", diagCode: "?", diagEnch: "?", diagTxt: "?", human: "?", groups: len(p.Rcpts)}
		if v := g["Action"]; len(v) == 1 {
			r.action = strings.ToLower(strings.TrimSpace(v[0]))
		}
		if v := g["Status"]; len(v) == 1 {
			r.status = strings.TrimSpace(v[0])
		}
		if v := g["Diagnostic-Code"]; len(v) == 1 {
			if t, rest := vdsn.SplitTyped(v[0]); t == "smtp" {
				f := strings.SplitN(vdsn.CanonWs(rest), " ", 3)
				for len(f) < 3 {
					f = append(f, "")
				}
				r.diagCode, r.diagEnch, r.diagTxt = f[0], f[1], vh.HexRunes(f[2])
			}
		}
		if i < len(humans) {
			r.human = humans[i]
		}
		out = append(out, r)
	}
	return out
}

func (r c16hReport) canon() string {
	return fmt.Sprintf("status=%s diag=%s %s %s human=%s", r.status, r.diagCode, r.diagEnch, r.diagTxt, r.human)
}

func c16hClass(s string) int {
	if len(s) == 0 || s[0] < '0' || s[0] > '9' {
		return -1
	}
	return int(s[0] - '0')
}

// c16hCheckReport: the report shows ONE class for one failure. wantClass: 0 = any of 4, 5.
func c16hCheckReport(out *vh.Out, op, where string, r c16hReport, wantClass int, why string) {
	dc := c16hClass(r.diagCode)
	if sc := c16hClass(r.status); sc != dc || (dc != 4 && dc != 5) {
		out.Violation("C16/report-status-vs-diagnostic-code", op, fmt.Sprintf("%s: Status: %s next to Diagnostic-Code: smtp; %s %s (Action: %s)", where, r.status, r.diagCode, r.diagEnch, r.action))
	}
	if ec := c16hClass(r.diagEnch); ec != dc {
		out.Violation("C16/report-diagnostic-class-mismatch", op, fmt.Sprintf("%s: Diagnostic-Code: smtp; %s %s", where, r.diagCode, r.diagEnch))
	}
	if hc := c16hClass(r.human); hc != dc {
		out.Violation("C16/report-human-vs-diagnostic-code", op, fmt.Sprintf("%s: the text for the sender says SMTP error %s, Diagnostic-Code: smtp; %s %s", where, r.human, r.diagCode, r.diagEnch))
	}
	if wantClass != 0 && (dc != wantClass || c16hClass(r.status) != wantClass) {
		out.Violation("C16/report-class-vs-treatment", op, fmt.Sprintf("%s: %s, the report says Status: %s, Diagnostic-Code: smtp; %s %s", where, why, r.status, r.diagCode, r.diagEnch))
	}
}

// after a few time-outs the tree under test is evidently broken: do not sit out every further case
var c16hTimeouts int32

func c16hRunCase(out *vh.Out, op string) {
	c := c16hParse(op)
	spool, err := os.MkdirTemp("", "verif-c16h-")
	if err != nil {
		panic(err)
	}
	defer os.RemoveAll(spool)
	tgt := &c16hTarget{c: c, spool: spool}
	bounce := &c16hBounce{t: tgt, msgs: map[int][][]byte{}}
	var logMu sync.Mutex
	genFail := map[int]int{}
	newQ := func() *Queue {
		mod, _ := NewQueue("", "queue", nil, nil)
		q := mod.(*Queue)
		q.initialRetryTime = 0
		q.retryTimeScale = 1
		q.postInitDelay = 0
		q.maxTries = c.maxTries
		q.location = spool
		q.Target = tgt
		q.hostname = "mx.example.org"
		q.autogenMsgDomain = "example.org"
		q.dsnPipeline = bounce
		q.Log = log.Logger{Out: log.FuncOutput(func(_ time.Time, _ bool, msg string) {
			if strings.Contains(msg, "failed to generate fail DSN") {
				tgt.mu.Lock()
				att := tgt.started - 1
				tgt.mu.Unlock()
				logMu.Lock()
				genFail[att]++
				logMu.Unlock()
			}
		}, func() error { return nil })}
		tgt.mu.Lock()
		tgt.q = q
		tgt.mu.Unlock()
		if err := q.start(1); err != nil {
			panic(err)
		}
		return q
	}
	q := newQ()
	ctx := context.Background()
	meta := &module.MsgMetadata{ID: c16hID, OriginalFrom: c16hSender, DontTraceSender: true, SMTPOpts: smtp.MailOptions{UTF8: c.utf8}}
	d, err := q.Start(ctx, meta, c16hSender)
	if err != nil {
		panic(err)
	}
	if err := d.AddRcpt(ctx, c16hRcpt, smtp.RcptOptions{}); err != nil {
		panic(err)
	}
	if err := d.Body(ctx, vdsn.Header(1), buffer.MemoryBuffer{Slice: []byte("hello\r\n")}); err != nil {
		panic(err)
	}
	if err := d.Commit(ctx); err != nil {
		panic(err)
	}

	empty := func() bool { e, _ := os.ReadDir(spool); return len(e) == 0 }
	timedOut := false
	wait := func(wantStarted int) {
		limit := 30 * time.Second
		if atomic.LoadInt32(&c16hTimeouts) >= 3 {
			limit = 500 * time.Millisecond
		}
		deadline := time.Now().Add(limit)
		for {
			tgt.mu.Lock()
			st := tgt.started
			tgt.mu.Unlock()
			if st >= wantStarted || empty() {
				return
			}
			if time.Now().After(deadline) {
				timedOut = true
				atomic.AddInt32(&c16hTimeouts, 1)
				return
			}
			time.Sleep(200 * time.Microsecond)
		}
	}
	from := 0
	for {
		end := from
		for end+1 < len(c.atts) && !c.atts[end+1].restart {
			end++
		}
		if end+1 >= len(c.atts) {
			end = len(c.atts) // the last segment runs until the message is gone (incl. the unplanned, accepted attempt)
		}
		wait(end + 1)
		q.Close() // waits for the attempt in progress
		if empty() || timedOut || end >= len(c.atts) {
			break
		}
		from = end + 1
		q = newQ()
	}
	removed := empty()

	// ---- observation ----
	tgt.mu.Lock()
	started := tgt.started
	snaps := tgt.snaps
	tgt.mu.Unlock()
	var obs []string
	type fin struct {
		retried bool
		st      *c16hStored
		tries   int
		reps    []c16hReport
		genfail bool
	}
	fins := make([]fin, started)
	for k := 0; k < started; k++ {
		f := &fins[k]
		for _, m := range bounce.msgs[k] {
			f.reps = append(f.reps, c16hParseReports(m, c.utf8)...)
		}
		logMu.Lock()
		f.genfail = genFail[k] > 0
		logMu.Unlock()
		if k+1 < started {
			f.retried = true
			s := "none"
			if m := snaps[k+1]; m != nil {
				f.tries = m.TriesCount[c16hRcpt]
				if e := m.RcptErrs[c16hRcpt]; e != nil {
					f.st = e
					s = verr.CanonStored(&smtp.SMTPError{Code: e.Code, EnhancedCode: smtp.EnhancedCode(e.EnhancedCode), Message: e.Message})
				}
			} else {
				s = "no-meta"
			}
			o := fmt.Sprintf("a%d:retry tries=%d stored=%s", k+1, f.tries, s)
			if len(f.reps) > 0 || f.genfail {
				o += " stray-report"
			}
			obs = append(obs, o)
			continue
		}
		switch {
		case len(f.reps) == 1:
			obs = append(obs, fmt.Sprintf("a%d:giveup %s", k+1, f.reps[0].canon()))
		case len(f.reps) > 1:
			obs = append(obs, fmt.Sprintf("a%d:giveup %d-recipient-groups", k+1, len(f.reps)))
		case f.genfail:
			obs = append(obs, fmt.Sprintf("a%d:giveup genfail", k+1))
		default:
			obs = append(obs, fmt.Sprintf("a%d:delivered", k+1))
		}
	}
	if !removed {
		obs = append(obs, "NOT-REMOVED")
	}
	out.Corr(op, strings.Join(obs, " | "))

	// ---- monitor ----
	out.Stat(fmt.Sprintf("qhist.attempts.%d", started))
	nrestart := 0
	for k := 1; k < started && k < len(c.atts); k++ {
		if c.atts[k].restart {
			nrestart++
		}
	}
	out.Stat(fmt.Sprintf("qhist.restarts.%d", nrestart))
	for k := 0; k < started; k++ {
		att := tgt.planned(k)
		f := fins[k]
		where := fmt.Sprintf("attempt %d", k+1)
		if att.node == nil {
			out.Stat("qhist.outcome.accepted")
			continue
		}
		out.Stat("qhist.stage." + string([]byte{att.stage}))
		if att.stage == 'n' {
			out.Stat(fmt.Sprintf("qhist.statuses-for-the-recipient.%d", len(att.pre)+1))
			if len(att.pre) > 0 {
				kk := ""
				for _, p := range append(append([]*verr.Node{}, att.pre...), att.node) {
					switch t, known := false, false; {
					case p == nil:
						kk += "o"
					default:
						t, known = verr.TempOf(p)
						if !known {
							kk += "u"
						} else if t {
							kk += "t"
						} else {
							kk += "p"
						}
					}
				}
				out.Stat("qhist.status-order." + kk)
			}
		}
		if !verr.WellFormed(att.node) {
			out.Stat("qhist.outcome.malformed-error")
			continue
		}
		temp, known := verr.TempOf(att.node)
		kind := "unclassified"
		if known && temp {
			kind = "temporary"
		} else if known {
			kind = "permanent"
		}
		if _, ann := verr.CodeField(att.node); ann || att.node.Kind == "R" {
			kind += "-annotated"
		} else {
			kind += "-unannotated"
		}
		if f.retried {
			out.Stat("qhist.outcome.retried." + kind)
			if f.st == nil {
				out.Violation("C16/queue-class-mismatch", op, where+" was retried, nothing is recorded for the recipient")
				continue
			}
			cls := f.st.Code / 100
			rec := fmt.Sprintf("%d %d.%d.%d", f.st.Code, f.st.EnhancedCode[0], f.st.EnhancedCode[1], f.st.EnhancedCode[2])
			if f.st.EnhancedCode[0] != cls || (cls != 4 && cls != 5) {
				out.Violation("C16/queue-class-mismatch", op, where+" (retried): recorded "+rec)
			}
			if cls != 4 || f.st.EnhancedCode[0] != 4 {
				out.Violation("C16/queue-retry-vs-class", op, where+" failed with "+att.node.String()+" and was retried, the record says "+rec)
			}
			if known && !temp {
				out.Violation("C16/queue-permanent-retried", op, where+" failed permanently ("+att.node.String()+") and was retried")
			}
			continue
		}
		// the last attempt: the queue gave up (or says it delivered)
		exhausted := k+1 >= c.maxTries
		if exhausted && !(known && !temp) {
			out.Stat("qhist.outcome.tries-exhausted." + kind)
		} else {
			out.Stat("qhist.outcome.gave-up." + kind)
		}
		if known && temp && !exhausted {
			out.Violation("C16/queue-temporary-not-retried", op, fmt.Sprintf("%s of %d failed temporarily (%s) and was not retried", where, c.maxTries, att.node.String()))
		}
		if len(f.reps) == 0 {
			out.Violation("C16/queue-failure-not-reported", op, fmt.Sprintf("%s failed (%s), no further attempt, no failure report (generation failed: %v)", where, att.node.String(), f.genfail))
			continue
		}
		for _, r := range f.reps {
			// the class the report must show is the class of the decision taken for THIS attempt:
			// giving up with tries left is how a permanent failure is treated
			want, why := 0, ""
			if !exhausted {
				want, why = 5, fmt.Sprintf("the queue gave up on %s with tries left (%d of %d), i.e. treated it as permanent", att.node.String(), k+1, c.maxTries)
			} else if known && !temp {
				want, why = 5, "the failure is permanent ("+att.node.String()+")"
			}
			c16hCheckReport(out, op, where, r, want, why)
			if r.action != "failed" {
				out.Violation("C16/report-class-vs-treatment", op, where+": no further attempt is made but Action is "+r.action)
			}
		}
	}
}

// ---- the real GenerateDSN on stored errors ----

type c16rStored struct {
	code int
	ench [3]int
	msg  string
}

func c16hRep(out *vh.Out, op string) {
	t := strings.Fields(op)
	utf8 := t[2] == "1"
	action := t[3]
	var sts []c16rStored
	rest := t[4:]
	for len(rest) >= 5 {
		var s c16rStored
		s.code, _ = strconv.Atoi(rest[0])
		for i := 0; i < 3; i++ {
			s.ench[i], _ = strconv.Atoi(rest[1+i])
		}
		s.msg = vh.UnhexRunes(rest[4])
		sts = append(sts, s)
		rest = rest[5:]
		if len(rest) > 0 && rest[0] == ";" {
			rest = rest[1:]
		}
	}
	var infos []dsn.RecipientInfo
	for i, s := range sts {
		e := &smtp.SMTPError{Code: s.code, EnhancedCode: smtp.EnhancedCode(s.ench), Message: s.msg}
		infos = append(infos, dsn.RecipientInfo{FinalRecipient: fmt.Sprintf("r%d@example.org", i+1), Action: dsn.Action(action), Status: e.EnhancedCode, DiagnosticCode: e})
	}
	now := time.Now()
	var body bytes.Buffer
	hdr, err := dsn.GenerateDSN(utf8, dsn.Envelope{MsgID: "<c16rep@example.org>", From: "MAILER-DAEMON@example.org", To: c16hSender},
		dsn.ReportingMTAInfo{ReportingMTA: "mx.example.org", XSender: c16hSender, XMessageID: "c16rep", ArrivalDate: now, LastAttemptDate: now},
		infos, vdsn.Header(1), &body)
	if err != nil {
		out.Corr(op, "generr:"+vdsn.GenErrName(err.Error()))
		out.Stat("rep.generr")
		return
	}
	var msg bytes.Buffer
	textproto.WriteHeader(&msg, hdr)
	msg.Write(body.Bytes())
	reps := c16hParseReports(msg.Bytes(), utf8)
	var obs []string
	for i, r := range reps {
		obs = append(obs, fmt.Sprintf("r%d:%s", i+1, r.canon()))
	}
	out.Corr(op, strings.Join(obs, " | "))
	out.Stat("rep.action." + action)
	if len(reps) != len(sts) {
		out.Violation("C16/report-status-vs-diagnostic-code", op, fmt.Sprintf("%d recipient groups for %d recipients", len(reps), len(sts)))
		return
	}
	for i, s := range sts {
		cls := s.code / 100
		if s.ench[0] != cls || (cls != 4 && cls != 5) {
			out.Stat("rep.stored.incoherent")
			continue
		}
		out.Stat(fmt.Sprintf("rep.stored.class%d", cls))
		c16hCheckReport(out, op, fmt.Sprintf("recipient %d (stored %d %d.%d.%d)", i+1, s.code, s.ench[0], s.ench[1], s.ench[2]), reps[i], cls, "the stored error is of that class")
		if reps[i].action != action {
			out.Violation("C16/report-class-vs-treatment", op, fmt.Sprintf("recipient %d: Action %s, asked for %s", i+1, reps[i].action, action))
		}
	}
}

// ---- generators ----

// texts whose rendering in a report is whitespace-canonical (single spaces, no tabs): the
// correspondence compares the text, C18 owns the folding and whitespace questions
var c16hMsgs = []string{
	"Mailbox does not exist", "Try again later", "", "Пользователь не найден", "café closed", "line one\nline two",
	"emoji \U0001F4E7 here", strings.Repeat("long diagnostic text ", 12) + "end", "ASCII only ~", "mx.example.net said: over quota",
}

func c16hSetMsgs(r *vh.Rng, n *verr.Node) {
	for ; n != nil; n = n.Inner {
		n.Msg = c16hMsgs[r.Intn(len(c16hMsgs))]
	}
}

// c16hClassNode: an error value of one of the five classes the property distinguishes:
// 0 temporary annotated, 1 temporary unannotated, 2 permanent annotated, 3 permanent unannotated,
// 4 unclassified
func c16hClassNode(r *vh.Rng, class int) *verr.Node {
	s := func(kind string, code, a, b, c int) *verr.Node {
		return &verr.Node{Kind: kind, Code: code, Ench: [3]int{a, b, c}}
	}
	plain := func() *verr.Node { return &verr.Node{Kind: "P"} }
	pick := func(xs ...*verr.Node) *verr.Node { return xs[r.Intn(len(xs))] }
	var n *verr.Node
	switch class {
	case 0:
		tc := [][4]int{{450, 4, 4, 2}, {451, 4, 3, 0}, {421, 4, 4, 2}, {452, 4, 2, 2}, {450, 0, 0, 0}, {454, 4, 7, 0}}[r.Intn(6)]
		switch r.Intn(5) {
		case 0:
			n = s("W", tc[0], tc[1], tc[2], tc[3])
			n.Inner = pick(plain(), &verr.Node{Kind: "N", Temp: false}, &verr.Node{Kind: "N", Temp: true})
		case 1:
			n = s("R", tc[0], tc[1], tc[2], tc[3])
		default:
			n = s("S", tc[0], tc[1], tc[2], tc[3])
		}
	case 1:
		switch r.Intn(4) {
		case 0:
			n = &verr.Node{Kind: "N", Temp: true}
		case 1:
			n = &verr.Node{Kind: "T", Temp: true, Inner: plain()}
		case 2:
			n = &verr.Node{Kind: "D"}
		default:
			n = &verr.Node{Kind: "T", Temp: true, Inner: &verr.Node{Kind: "N", Temp: false}}
		}
	case 2:
		pc := [][4]int{{550, 5, 1, 1}, {554, 5, 7, 0}, {552, 5, 3, 4}, {550, 0, 0, 0}, {501, 5, 5, 4}, {554, 5, 4, 0}}[r.Intn(6)]
		switch r.Intn(5) {
		case 0:
			n = s("W", pc[0], pc[1], pc[2], pc[3])
			n.Inner = pick(plain(), &verr.Node{Kind: "N", Temp: false}, &verr.Node{Kind: "N", Temp: true})
		case 1:
			n = s("R", pc[0], pc[1], pc[2], pc[3])
		default:
			n = s("S", pc[0], pc[1], pc[2], pc[3])
		}
	case 3:
		switch r.Intn(3) {
		case 0:
			n = &verr.Node{Kind: "N", Temp: false}
		case 1:
			n = &verr.Node{Kind: "T", Temp: false, Inner: plain()}
		default:
			n = &verr.Node{Kind: "T", Temp: false, Inner: &verr.Node{Kind: "N", Temp: true}}
		}
	default:
		n = plain()
	}
	// a field wrapper without SMTP codes on top (what msgpipeline / the targets add) changes nothing
	if n.Kind != "R" && r.Chance(30) {
		n = &verr.Node{Kind: "F", Inner: n}
	}
	c16hSetMsgs(r, n)
	return n
}

func c16hGenAttempt(r *vh.Rng, first bool) c16hAttempt {
	a := c16hAttempt{restart: !first && r.Chance(35), stage: "srbnc"[r.Intn(5)]}
	switch k := r.Intn(100); {
	case k < 8:
		// accepted
	case k < 70:
		// temporary failures over-represented: they are what makes a history long
		a.node = c16hClassNode(r, []int{0, 0, 0, 1, 1, 4, 2, 3}[r.Intn(8)])
	default:
		a.node = verr.Gen(r, r.Intn(4), r.Chance(75))
		c16hSetMsgs(r, a.node)
	}
	if a.node != nil && a.stage == 'n' && r.Chance(50) {
		for k := 1 + r.Intn(2); k > 0; k-- {
			if r.Chance(15) {
				a.pre = append(a.pre, nil)
			} else {
				a.pre = append(a.pre, c16hClassNode(r, r.Intn(5)))
			}
		}
	}
	return a
}

func c16hGenCase(r *vh.Rng) *c16hCase {
	c := &c16hCase{maxTries: 1 + r.Intn(5), utf8: r.Bool()}
	n := 1 + r.Intn(c.maxTries+1)
	for i := 0; i < n; i++ {
		c.atts = append(c.atts, c16hGenAttempt(r, i == 0))
	}
	return c
}

// c16hSystematic: every sequence of 1-3 failures over the five classes (cut after the first
// permanent one), with the attempt bound equal to the length (so a temporary last failure runs out
// of tries), without restarts and with a restart before every later attempt.
func c16hSystematic(r *vh.Rng) []string {
	var ops []string
	var seqs [][]int
	var rec func(pfx []int)
	rec = func(pfx []int) {
		if len(pfx) > 0 {
			seqs = append(seqs, append([]int{}, pfx...))
			if last := pfx[len(pfx)-1]; last == 2 || last == 3 || len(pfx) == 3 {
				return
			}
		}
		for cl := 0; cl < 5; cl++ {
			rec(append(pfx, cl))
		}
	}
	rec(nil)
	i := 0
	for _, sq := range seqs {
		last := sq[len(sq)-1]
		for _, restarts := range []bool{false, true} {
			if restarts && len(sq) == 1 {
				continue
			}
			c := &c16hCase{maxTries: len(sq), utf8: i%2 == 0}
			if last == 2 || last == 3 {
				c.maxTries = len(sq) + i%2 // a permanent failure ends the history with tries left, too
			}
			for k, cl := range sq {
				c.atts = append(c.atts, c16hAttempt{restart: restarts && k > 0, stage: "srbnc"[(i+k)%5], node: c16hClassNode(r, cl)})
			}
			ops = append(ops, c.op())
			i++
		}
	}
	// several statuses for the recipient within ONE attempt: every ordered pair of the five classes
	// (and a success status before / between), as the first attempt and after a temporary one, with
	// tries left and on the last try; triples of the three temporariness classes
	for a := 0; a < 5; a++ {
		for b := 0; b < 5; b++ {
			for v := 0; v < 3; v++ {
				c := &c16hCase{maxTries: 2 + v%2, utf8: (a+b+v)%2 == 0}
				if v == 2 {
					c.atts = append(c.atts, c16hAttempt{stage: "srbnc"[(a+b)%5], node: c16hClassNode(r, a%2)})
				}
				att := c16hAttempt{stage: 'n', restart: v == 2 && b%2 == 0, pre: []*verr.Node{c16hClassNode(r, a)}, node: c16hClassNode(r, b)}
				if (a+b)%4 == 3 {
					att.pre = append(att.pre, nil)
				}
				c.atts = append(c.atts, att)
				ops = append(ops, c.op())
			}
		}
	}
	for _, tr := range [][3]int{{1, 3, 3}, {3, 1, 3}, {1, 1, 3}, {3, 3, 1}, {0, 2, 4}, {4, 0, 2}, {0, 4, 2}, {2, 0, 0}} {
		c := &c16hCase{maxTries: 3, utf8: tr[0] == 0}
		c.atts = append(c.atts, c16hAttempt{stage: 'n', pre: []*verr.Node{c16hClassNode(r, tr[0]), c16hClassNode(r, tr[1])}, node: c16hClassNode(r, tr[2])})
		ops = append(ops, c.op())
	}
	return ops
}

func c16hGenRep(r *vh.Rng) string {
	codes := [][4]int{{450, 4, 4, 2}, {451, 4, 0, 0}, {421, 4, 4, 2}, {452, 4, 2, 2}, {454, 4, 7, 0}, {550, 5, 1, 1}, {554, 5, 0, 0}, {552, 5, 3, 4}, {554, 5, 7, 0}, {501, 5, 5, 4}}
	n := 1 + r.Intn(3)
	var segs []string
	for i := 0; i < n; i++ {
		cd := codes[r.Intn(len(codes))]
		if r.Chance(8) {
			cd = [4]int{[]int{450, 550, 250, 451}[r.Intn(4)], r.Intn(6), r.Intn(8), r.Intn(30)} // anything (the monitor asks nothing of an incoherent input)
		}
		segs = append(segs, fmt.Sprintf("%d %d %d %d %s", cd[0], cd[1], cd[2], cd[3], vh.HexRunes(c16hMsgs[r.Intn(len(c16hMsgs))])))
	}
	action := "failed"
	if r.Chance(20) {
		action = r.Pick("delayed", "relayed", "delivered", "expanded")
	}
	u := "0"
	if r.Bool() {
		u = "1"
	}
	return fmt.Sprintf("C16 rep %s %s %s", u, action, strings.Join(segs, " ; "))
}

func TestVerifC16QueueHistory(t *testing.T) {
	out := vh.Open("c16_queue_history")
	defer out.Close()
	dontRecover = false
	if ops := vh.Replay(); ops != nil {
		for _, op := range ops {
			if strings.HasPrefix(op, "C16 qhist ") {
				c16hRunCase(out, op)
			} else if strings.HasPrefix(op, "C16 rep ") {
				c16hRep(out, op)
			}
		}
		return
	}
	r := vh.NewRng(vh.Seed() + 1605)
	n := vh.N(4000)
	ops := c16hSystematic(r)
	for i := 0; i < n/12; i++ {
		ops = append(ops, c16hGenCase(r).op())
	}
	jobs := make(chan string, 64)
	var wg sync.WaitGroup
	for w := 0; w < 12; w++ {
		wg.Add(1)
		go func() {
			defer wg.Done()
			for op := range jobs {
				c16hRunCase(out, op)
			}
		}()
	}
	for _, op := range ops {
		jobs <- op
	}
	close(jobs)
	wg.Wait()
	// the report text on its own: every stored code of both classes under every action
	for _, u := range []string{"0", "1"} {
		for _, action := range []string{"failed", "delayed"} {
			for _, cd := range [][4]int{{450, 4, 4, 2}, {451, 4, 0, 0}, {421, 4, 4, 2}, {550, 5, 1, 1}, {554, 5, 0, 0}, {552, 5, 3, 4}} {
				c16hRep(out, fmt.Sprintf("C16 rep %s %s %d %d %d %d %s", u, action, cd[0], cd[1], cd[2], cd[3], vh.HexRunes(c16hMsgs[(cd[0]+cd[3])%len(c16hMsgs)])))
			}
		}
	}
	for i := 0; i < n/10; i++ {
		c16hRep(out, c16hGenRep(r))
	}
}
