package queue

import (
	"context"
	"fmt"
	"math/rand"
	"net"
	"os"
	"sort"
	"strconv"
	"strings"
	"testing"
	"time"

	"github.com/emersion/go-message/textproto"
	"github.com/emersion/go-smtp"
	"github.com/foxcpp/go-mockdns"
	"github.com/foxcpp/maddy/framework/address"
	"github.com/foxcpp/maddy/framework/buffer"
	"github.com/foxcpp/maddy/framework/log"
	"github.com/foxcpp/maddy/framework/module"
	"github.com/foxcpp/maddy/internal/target/remote"
	"github.com/foxcpp/maddy/internal/verifshim/vh"
	"github.com/foxcpp/maddy/internal/verifshim/vsmtp"
	"golang.org/x/net/idna"
)

func c01rAddr(id int, form byte) string {
	switch form {
	case 'i':
		return fmt.Sprintf("u%d@пример.example", id)
	case 'l':
		return fmt.Sprintf("ю%d@d.example", id)
	case 'u':
		return fmt.Sprintf("U%d@D.EXAMPLE", id)
	default:
		return fmt.Sprintf("u%d@d.example", id)
	}
}

func c01rZones() map[string]mockdns.Zone {
	z := map[string]mockdns.Zone{"mx.example.invalid.": {A: []string{"127.0.0.1"}}}
	for _, name := range []string{"d.example", "D.EXAMPLE", "пример.example"} {
		mx := []net.MX{{Host: "mx.example.invalid.", Pref: 10}}
		z[name+"."] = mockdns.Zone{MX: mx}
		z[strings.ToLower(name)+"."] = mockdns.Zone{MX: mx}
		if a, err := idna.ToASCII(name); err == nil {
			z[a+"."] = mockdns.Zone{MX: mx}
		}
	}
	return z
}

// The queue's own trace hook: a bounce target recording report recipients.
type c01rBounce struct {
	events *[]string
	idOf   func(string) string
}

// op: C01 outcomes <maxTries> p 1 <ids> <plans>  # <utf8> <forms>     (plans as in "C01 run"; the
// part after '#' tells the harness how to realise the plan on a scripted SMTP server:
//   rcpt class p/t = server answers 550/450 to RCPT, 'p' is also what an unconvertible address gets;
//   body-status class t/p for ALL recipients of a domain = server answers 451/554 to DATA)
func c01rRun(t *testing.T, out *vh.Out, op string, port string) {
	toks := strings.Fields(op)
	maxTries, _ := strconv.Atoi(toks[2])
	var ids []int
	for _, s := range strings.Split(toks[5], ",") {
		v, _ := strconv.Atoi(s)
		ids = append(ids, v)
	}
	plans := strings.Split(toks[6], ";")
	utf8 := toks[8] == "1"
	forms := toks[9]

	// the port was free when the test started; if it is somebody's source port by now take another
	// one (the target is told the port per case)
	srv, err := vsmtp.Start("127.0.0.1:"+port, utf8, false)
	for try := 0; err != nil && try < 50; try++ {
		port = vsmtp.FreePort()
		srv, err = vsmtp.Start("127.0.0.1:"+port, utf8, false)
	}
	if err != nil {
		t.Fatal(err)
	}
	defer srv.Close()
	tgt := remote.VerifNewTarget(c01rZones(), port)
	defer tgt.Close()

	addrs := map[int]string{}
	keyToID := map[string]int{}
	for i, id := range ids {
		a := c01rAddr(id, forms[i])
		addrs[id] = a
		k, _ := address.ForLookup(a)
		keyToID[k] = id
	}
	idOf := func(a string) string {
		k, _ := address.ForLookup(a)
		if id, ok := keyToID[k]; ok {
			return strconv.Itoa(id)
		}
		return "UNKNOWN(" + a + ")"
	}

	// script for attempt k is installed when the server sees the k-th MAIL; simpler: the queue
	// attempts are sequential, so install the script for attempt 0 now and advance on each Start.
	attempt := 0
	install := func(k int) {
		srv.Script.Set(func(s *vsmtp.Script) {
			s.RejectRcpt = map[string]int{}
			s.DataFail = 0
			if k >= len(plans) {
				return
			}
			f := strings.Split(plans[k], "/")
			for i, id := range ids {
				kk, _ := address.ForLookup(addrs[id])
				switch f[1][i] {
				case 'p':
					s.RejectRcpt[kk] = 550
				case 't':
					s.RejectRcpt[kk] = 450
				}
			}
			switch f[3][0] {
			case 't':
				s.DataFail = 451
			case 'p':
				s.DataFail = 554
			}
		})
	}
	install(0)

	var events []string
	dir, _ := os.MkdirTemp("", "verif-c01r-")
	defer os.RemoveAll(dir)
	mod, _ := NewQueue("", "queue", nil, nil)
	q := mod.(*Queue)
	q.initialRetryTime = 0
	q.retryTimeScale = 1
	q.postInitDelay = 0
	q.maxTries = maxTries
	q.location = dir
	q.hostname = "mx.example.org"
	q.autogenMsgDomain = "example.org"
	q.Log = log.Logger{Out: log.NopOutput{}}
	wrapped := &c01rTarget{inner: tgt, onStart: func() { install(attempt); attempt++ }}
	q.Target = wrapped
	bt := &c01Target{addrIdx: map[string]int{}, log: &events, rng: vh.NewRng(1)}
	for id, a := range addrs {
		bt.addrIdx[a] = id
	}
	q.dsnPipeline = &c01Bounce{t: bt}
	if err := q.start(1); err != nil {
		t.Fatal(err)
	}
	id, _ := module.GenerateMsgID()
	meta := &module.MsgMetadata{ID: id, OriginalFrom: "sender@example.com", DontTraceSender: true, SMTPOpts: smtp.MailOptions{UTF8: true}}
	ctx := context.Background()
	d, _ := q.Start(ctx, meta, "sender@example.com")
	for _, i := range ids {
		d.AddRcpt(ctx, addrs[i], smtp.RcptOptions{})
	}
	hdr := textproto.Header{}
	hdr.Add("Subject", "verif")
	if err := d.Body(ctx, hdr, buffer.MemoryBuffer{Slice: []byte("hello\r\n")}); err != nil {
		t.Fatal(err)
	}
	d.Commit(ctx)
	deadline := time.Now().Add(30 * time.Second)
	removed := false
	for time.Now().Before(deadline) {
		ents, _ := os.ReadDir(dir)
		if len(ents) == 0 {
			removed = true
			break
		}
		time.Sleep(500 * time.Microsecond)
	}
	q.Close()

	// ground truth: what the scripted server holds
	commits := map[string]int{}
	var committedEvents []string
	srv.Script.Set(func(s *vsmtp.Script) {
		for _, tx := range s.Txs {
			if !tx.Done {
				continue
			}
			var rs []string
			for _, a := range tx.To {
				rs = append(rs, idOf(a))
				commits[idOf(a)]++
			}
			sort.Strings(rs)
			committedEvents = append(committedEvents, "committed:"+strings.Join(rs, ","))
		}
	})
	reports := map[string]int{}
	var reportEvents []string
	bt.mu.Lock()
	for _, e := range events {
		if strings.HasPrefix(e, "report:") {
			parts := strings.Split(e[len("report:"):], ",")
			sort.Strings(parts)
			reportEvents = append(reportEvents, "report:"+strings.Join(parts, ","))
			for _, r := range parts {
				reports[r]++
			}
		}
	}
	bt.mu.Unlock()
	_ = committedEvents
	_ = reportEvents
	var cs, rps []string
	for _, i := range ids {
		cs = append(cs, fmt.Sprintf("%d=%d", i, commits[strconv.Itoa(i)]))
		rps = append(rps, fmt.Sprintf("%d=%d", i, reports[strconv.Itoa(i)]))
	}
	obs := "c:" + strings.Join(cs, ",") + " r:" + strings.Join(rps, ",")
	for k := range commits {
		if strings.HasPrefix(k, "UNKNOWN") {
			obs += " " + k
		}
	}
	if removed {
		obs += " removed"
	} else {
		obs += " NOT-REMOVED"
	}
	out.Corr(op, strings.TrimSpace(obs))
	for _, i := range ids {
		k := strconv.Itoa(i)
		c, rp := commits[k], reports[k]
		if !((c == 1 && rp == 0) || (c == 0 && rp == 1)) {
			sig := "C01/remote-outcome"
			switch {
			case c == 0 && rp == 0:
				sig = "C01/remote-recipient-lost"
			case c > 1:
				sig = "C01/remote-delivered-twice"
			case c >= 1 && rp >= 1:
				sig = "C01/remote-delivered-and-reported"
			}
			out.Violation(sig, op, fmt.Sprintf("rcpt %d (%s): next hop holds it %d times, reported %d times; %s", i, addrs[i], c, rp, obs))
		}
	}
	if !removed {
		out.Violation("C01/remote-not-terminated", op, obs)
	}
	out.Stat("remote.utf8." + toks[8])
	out.StatN("remote.rcpts", len(ids))
}

type c01rTarget struct {
	inner   module.DeliveryTarget
	onStart func()
}

func (t *c01rTarget) Start(ctx context.Context, m *module.MsgMetadata, from string) (module.Delivery, error) {
	t.onStart()
	return t.inner.Start(ctx, m, from)
}

func TestVerifC01Remote(t *testing.T) {
	out := vh.Open("c01_remote")
	defer out.Close()
	_ = rand.Intn
	port := vsmtp.FreePort()
	if ops := vh.Replay(); ops != nil {
		for _, op := range ops {
			if strings.HasPrefix(op, "C01 outcomes") && !strings.Contains(op, "# lmtp ") {
				c01rRun(t, out, op, port)
			}
		}
		return
	}
	r := vh.NewRng(vh.Seed() + 111)
	n := vh.N(600) / 6
	for i := 0; i < n; i++ {
		nr := 1 + r.Intn(3)
		utf8 := r.Intn(2)
		var ids []string
		forms := ""
		for j := 1; j <= nr; j++ {
			ids = append(ids, strconv.Itoa(j))
			forms += string("aaiilu"[r.Intn(6)])
		}
		maxTries := 1 + r.Intn(3)
		var plans []string
		for a := 0; a < maxTries; a++ {
			rc := ""
			for j := 0; j < nr; j++ {
				c := byte('o')
				if forms[j] == 'l' && utf8 == 0 {
					c = 'p' // unconvertible address, refused locally with 553
				} else if r.Chance(25) {
					c = "tp"[r.Intn(2)]
				}
				rc += string(c)
			}
			bd := byte('o')
			if r.Chance(35) {
				bd = "tp"[r.Intn(2)]
			}
			brc := strings.Repeat(string(bd), nr)
			plans = append(plans, fmt.Sprintf("o/%s/o/%s/o", rc, brc))
		}
		op := fmt.Sprintf("C01 outcomes %d p 1 %s %s # %d %s", maxTries, strings.Join(ids, ","), strings.Join(plans, ";"), utf8, forms)
		c01rRun(t, out, op, port)
	}
}
