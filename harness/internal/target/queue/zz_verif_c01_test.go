package queue

import (
	"bytes"
	"context"
	"crypto/tls"
	"encoding/json"
	"errors"
	"fmt"
	"io"
	"net"
	"os"
	"reflect"
	"sort"
	"strconv"
	"strings"
	"sync"
	"sync/atomic"
	"testing"
	"time"

	"github.com/emersion/go-message/textproto"
	"github.com/emersion/go-smtp"
	"github.com/foxcpp/maddy/framework/address"
	"github.com/foxcpp/maddy/framework/buffer"
	"github.com/foxcpp/maddy/framework/dns"
	"github.com/foxcpp/maddy/framework/exterrors"
	"github.com/foxcpp/maddy/framework/log"
	"github.com/foxcpp/maddy/framework/module"
	"github.com/foxcpp/maddy/internal/dsn"
	"github.com/foxcpp/maddy/internal/verifshim/vh"
)

// ---- scripted downstream target ----

type c01Plan struct {
	start  byte
	rcpt   map[int]byte
	body   byte
	bodyRc map[int]byte
	commit byte
}

func c01Err(r *vh.Rng, c byte, what string) error {
	switch c {
	case 'o':
		return nil
	case 't':
		switch r.Intn(3) {
		case 0:
			return exterrors.WithTemporary(errors.New(what+": temporary"), true)
		case 1:
			return &exterrors.SMTPError{Code: 451, EnhancedCode: exterrors.EnhancedCode{4, 3, 0}, Message: what + " try later"}
		default:
			return exterrors.WithFields(&exterrors.SMTPError{Code: 421, EnhancedCode: exterrors.EnhancedCode{4, 4, 2}, Message: what}, map[string]interface{}{"x": 1})
		}
	case 'p':
		switch r.Intn(2) {
		case 0:
			return &exterrors.SMTPError{Code: 550, EnhancedCode: exterrors.EnhancedCode{5, 1, 1}, Message: what + " no such user"}
		default:
			return exterrors.WithTemporary(errors.New(what+": permanent"), false)
		}
	default: // unclassified
		return errors.New(what + ": unclassified failure")
	}
}

// ---- the error grid (C01 run ... X=, C01 cls) ----
//
// A failure of class t (temporary) / p (permanent) / u (unclassified) can be spelled in many ways.
// form = <shape><enhanced code style>.  The class is what the property speaks of: the BASIC reply
// code (4yz / 5yz) or the marker the code put on the error (exterrors.WithTemporary), whichever
// comes first on the Unwrap chain - never the enhanced status code.
//
//	shapes  S *exterrors.SMTPError{Code: 451|550, EnhancedCode}     F the same inside exterrors.WithFields
//	        W exterrors.WithTemporary(errors.New, t)  (no codes)      M WithTemporary(S, t)
//	        Y WithTemporary(SMTPError with the OPPOSITE basic code, t) (the marker is outermost: it decides)
//	        E SMTPError{Code, EnhancedCode, Err: WithTemporary(errors.New, !t)} (the reply code is outermost)
//	        P *smtp.SMTPError{Code, EnhancedCode} of go-smtp (deprecated but accepted by the queue)
//	        D context.DeadlineExceeded inside fmt.Errorf("%w") for t (Temporary() == true); p: as S
//	        class u: S,P,D errors.New; F WithFields(errors.New); W context.Canceled; M fmt.Errorf("%w", errors.New);
//	                 Y fmt.Errorf("%w", context.Canceled); E WithFields(fmt.Errorf("%w", errors.New))
//	styles  a agreeing with the basic code (x.0.0)   n absent (0.0.0)   2 4 5 that class (2.0.0, 4.2.2, 5.1.1)
//	        0 class 0 (0.1.1)   1 (1.1.1)   9 (9.0.0)   m go-smtp's NoEnhancedCode (-1.-1.-1)
//	        k component out of range (<basic class>.1000.1)
const c01Shapes = "SFWMYEPD"
const c01Styles = "an245019mk"

func c01EnhOf(style byte, basic int) (exterrors.EnhancedCode, bool) {
	switch style {
	case 'a':
		return exterrors.EnhancedCode{basic / 100, 0, 0}, true
	case 'n':
		return exterrors.EnhancedCode{0, 0, 0}, true
	case '2':
		return exterrors.EnhancedCode{2, 0, 0}, true
	case '4':
		return exterrors.EnhancedCode{4, 2, 2}, true
	case '5':
		return exterrors.EnhancedCode{5, 1, 1}, true
	case '0':
		return exterrors.EnhancedCode{0, 1, 1}, true
	case '1':
		return exterrors.EnhancedCode{1, 1, 1}, true
	case '9':
		return exterrors.EnhancedCode{9, 0, 0}, true
	case 'm':
		return exterrors.EnhancedCode{-1, -1, -1}, true
	case 'k':
		return exterrors.EnhancedCode{basic / 100, 1000, 1}, true
	}
	return exterrors.EnhancedCode{}, false
}

func c01ErrForm(c, shape, style byte, what string) error {
	if c == 'o' {
		return nil
	}
	if c == 'u' {
		plain := errors.New(what + ": unclassified failure")
		switch shape {
		case 'F':
			return exterrors.WithFields(plain, map[string]interface{}{"x": 1})
		case 'W':
			return context.Canceled
		case 'M':
			return fmt.Errorf("%s: %w", what, plain)
		case 'Y':
			return fmt.Errorf("%s: %w", what, context.Canceled)
		case 'E':
			return exterrors.WithFields(fmt.Errorf("%s: %w", what, plain), map[string]interface{}{"y": 2})
		}
		return plain
	}
	temp := c == 't'
	basic, opp := 550, 451
	if temp {
		basic, opp = 451, 550
	}
	ec, ok := c01EnhOf(style, basic)
	if !ok {
		panic("C01: enhanced code style " + string(style))
	}
	se := &exterrors.SMTPError{Code: basic, EnhancedCode: ec, Message: what + " refused"}
	switch shape {
	case 'S':
		return se
	case 'F':
		return exterrors.WithFields(se, map[string]interface{}{"x": 1})
	case 'W':
		return exterrors.WithTemporary(errors.New(what+": marked"), temp)
	case 'M':
		return exterrors.WithTemporary(se, temp)
	case 'Y':
		ec2, _ := c01EnhOf(style, opp)
		return exterrors.WithTemporary(&exterrors.SMTPError{Code: opp, EnhancedCode: ec2, Message: what + " refused"}, temp)
	case 'E':
		se.Err = exterrors.WithTemporary(errors.New(what+": cause"), !temp)
		return se
	case 'P':
		return &smtp.SMTPError{Code: basic, EnhancedCode: smtp.EnhancedCode(ec), Message: what + " refused"}
	case 'D':
		if temp {
			return fmt.Errorf("%s: %w", what, context.DeadlineExceeded)
		}
		return se
	}
	panic("C01: error shape " + string(shape))
}

// c01FormIdx: which form of X= the failure at (attempt, stage, position of the recipient) takes.
// stages: 0 start, 1 rcpt, 2 body, 3 per-recipient body status, 4 commit.
func c01FormIdx(n, attempt, stage, pos int) int { return (attempt*11 + stage*5 + pos*3) % n }

// err: the error of class c at that place of the history.
func (t *c01Target) err(c byte, what string, attempt, stage, id int) error {
	if t.forms == "" {
		return c01Err(t.rng, c, what)
	}
	i := c01FormIdx(len(t.forms)/2, attempt, stage, t.pos[id])
	if c != 'o' {
		t.formsUsed = append(t.formsUsed, string(c)+t.forms[2*i:2*i+2])
	}
	return c01ErrForm(c, t.forms[2*i], t.forms[2*i+1], what)
}

type c01Target struct {
	mu        sync.Mutex
	forms     string      // X=: error forms, two letters each ("" = the forms of c01Err, drawn from rng)
	pos       map[int]int // recipient id -> position in the op line
	formsUsed []string
	partial   bool
	plans     []c01Plan
	attempt   int
	addrIdx   map[string]int
	aliasIdx  map[string]int // "original recipient" a failure report names instead (c01OriginalRcpts)
	log       *[]string
	rng       *vh.Rng

	// restarts (C01 run ... R=): q is the queue instance that is running; holdBefore[k] = the
	// server restarts before attempt k (0-based): attempt k-1 leaves the retry an hour away and
	// says so in holds, the driver then stops the instance and starts another one on the spool
	q          *Queue
	holdBefore map[int]int
	holds      int

	// F=: statuses a per-recipient target files under addresses outside the envelope, per attempt
	foreign map[int][]c01Foreign
}

// c01Foreign: kind x = an unrelated address, c = the converted (other) spelling of an accepted
// recipient's mailbox, k = its other-case form; cls = class of the failure filed under it.
type c01Foreign struct{ kind, cls byte }

// c01Headers: the header of the queued message (H=<k>); the property does not depend on it.
// Mirrored by Driver/C01.lean headerTable.
var c01Headers = [][][2]string{
	{{"Subject", "verif"}},
	{{"Subject", "verif"}, {"Auto-Submitted", "auto-generated"}},
	{{"Subject", "verif"}, {"Auto-Submitted", "auto-replied"}},
	{{"Subject", "verif"}, {"Auto-Submitted", "auto-notified; owner-email=\"o@example.org\""}},
	{{"Subject", "verif"}, {"Auto-Submitted", "no"}},
	{{"Subject", "verif"}, {"Precedence", "bulk"}},
	{{"Subject", "verif"}, {"Precedence", "list"}, {"List-Id", "<l.example.org>"}, {"List-Unsubscribe", "<mailto:u@example.org>"}},
	{{"Subject", "verif"}, {"Return-Path", "<>"}, {"X-Loop", "mx.example.org"}},
	{{"Subject", "verif"}, {"Content-Type", "multipart/report; report-type=delivery-status; boundary=b"}},
	{{"Subject", "verif"}, {"Content-Type", "text/plain; charset=utf-8"}, {"X-Auto-Response-Suppress", "All"}},
	{},
	{{"Subject", "verif"}, {"AUTO-SUBMITTED", "Auto-Generated"}, {"Precedence", "junk"}, {"From", "MAILER-DAEMON@example.org"}},
}

// c01Conns: the connection the message was submitted over (C=<k><t|n>): what the client called itself
// in HELO/EHLO (ConnState.Hostname - any string without white space a client can send), the protocol,
// its address, an authenticated user.  t = the sender is traced (MsgMetadata.DontTraceSender unset:
// the report names the client in Received-From-MTA), n = it is not.  The ConnState only exists in the
// memory of the instance that accepted the message (the spool copy has none).  The property does not
// depend on any of it.  Mirrored by Driver/C01.lean clientTable (names only).
type c01Conn struct {
	helo, proto, ip, user string
}

var c01Long64 = "pc-of-the-accounting-department-second-floor-room-two-hundred-and-seven"

var c01Conns = []c01Conn{
	{"mail.example.com", "ESMTP", "192.0.2.7", ""},
	{"laptop..lan", "ESMTPA", "192.0.2.8", "user@example.org"},
	{c01Long64 + ".corp.example.com", "ESMTPSA", "2001:db8::7", "user"},
	{strings.Repeat("department.", 24) + "example.com", "ESMTP", "192.0.2.9", ""},
	{"[192.0.2.7]", "ESMTP", "192.0.2.7", ""},
	{"[IPv6:2001:db8::7]", "ESMTPS", "2001:db8::7", ""},
	{"localhost", "LMTP", "127.0.0.1", ""},
	{"my_host.lan", "ESMTP", "10.0.0.7", ""},
	{"xn--1.example", "ESMTP", "192.0.2.10", ""},
	{"пример.example", "UTF8SMTP", "192.0.2.11", ""},
	{"xn--e1afmkfd.example", "ESMTP", "192.0.2.12", ""},
	{"MAIL.Example.COM.", "ESMTPS", "192.0.2.13", ""},
	{".lan", "ESMTP", "192.0.2.14", ""},
	{"-pc-.example.com", "ESMTP", "192.0.2.15", ""},
	{strings.Repeat("ю", 60) + ".example", "UTF8SMTPS", "192.0.2.16", ""},
	{"XN--A.example", "ESMTP", "192.0.2.17", ""},
	{"..", "ESMTP", "192.0.2.18", ""},
	{"x", "", "", ""},
	{"", "ESMTP", "192.0.2.19", ""},
	{"bücher.example.xn--zz--", "ESMTP", "192.0.2.20", ""},
}

// c01Hosts: the configured name of the queue's server (Q=<k>: hostname, autogenerated_msg_domain).
// Reporting-MTA / Message-Id / From of the report are made of them; entry 0 is the default.
// Mirrored by Driver/C01.lean hostTable (names only).
var c01Hosts = [][2]string{
	{"mx.example.org", "example.org"},
	{"mx..example.org", "example.org"},
	{c01Long64 + ".example.org", "example.org"},
	{"mx.example.org.", "example.org."},
	{"пример.example", "пример.example"},
	{"xn--e1afmkfd.example", "xn--e1afmkfd.example"},
	{"MX.Example.ORG", "Example.ORG"},
	{"localhost", "localhost"},
	{strings.Repeat("mx.", 90) + "example.org", "example.org"},
	{".example.org", ".example.org"},
	{"mx_1.example.org", "example.org"},
	{strings.Repeat("ю", 60) + ".example", "example.org"},
}

func c01ConnState(k int) *module.ConnState {
	c := c01Conns[k]
	cs := &module.ConnState{Proto: c.proto, Hostname: c.helo, AuthUser: c.user}
	if c.ip != "" {
		cs.RemoteAddr = &net.TCPAddr{IP: net.ParseIP(c.ip), Port: 40000 + k}
		cs.LocalAddr = &net.TCPAddr{IP: net.ParseIP("192.0.2.1"), Port: 25}
	}
	if strings.Contains(c.proto, "S") && c.proto != "ESMTP" && c.proto != "UTF8SMTP" {
		cs.TLS = tls.ConnectionState{HandshakeComplete: true, Version: tls.VersionTLS13, CipherSuite: tls.TLS_AES_128_GCM_SHA256}
	}
	return cs
}

func c01Header(k int) textproto.Header {
	h := textproto.Header{}
	fs := c01Headers[k]
	for i := len(fs) - 1; i >= 0; i-- {
		h.Add(fs[i][0], fs[i][1])
	}
	return h
}

// foreignAddr: an address that is NOT in the envelope, of the wanted kind, for accepted recipient id.
func (t *c01Target) foreignAddr(kind byte, id, n int) string {
	var cands []string
	switch kind {
	case 'c':
		for v := 0; v < 4; v++ {
			cands = append(cands, c01AddrForms[(id-1)%6][v])
		}
	case 'k':
		a := c01Addr(id)
		cands = append(cands, strings.ToUpper(a), strings.ToLower(a))
	}
	cands = append(cands, fmt.Sprintf("stale%d@elsewhere.example", n))
	for _, c := range cands {
		if _, in := t.addrIdx[c]; !in {
			return c
		}
	}
	panic("C01 run: no foreign address")
}

type c01Delivery struct {
	t        *c01Target
	att      int
	plan     c01Plan
	accepted []int
	bodyOK   map[int]bool
}

type c01DeliveryPartial struct{ *c01Delivery }

// lookupAddr finds the recipient a failure report names.  Recipients are identified by the exact
// spelling they were queued with (two spellings of one mailbox are two recipients); a report
// renders the domain as U-labels (dsn: address.SelectIDNA), so the second try is the unique
// recipient with that rendering (c01OriginalRcpts makes renderings unique).
func (t *c01Target) lookupAddr(a string) (int, bool) {
	if i, ok := t.addrIdx[a]; ok {
		return i, true
	}
	if i, ok := t.aliasIdx[a]; ok {
		return i, true
	}
	n, hit := 0, 0
	for cand, i := range t.addrIdx {
		if r, err := address.ToUnicode(cand); err == nil && r == a {
			n++
			hit = i
		}
	}
	if n == 1 {
		return hit, true
	}
	if n > 1 {
		return 0, false
	}
	// report of a message received without SMTPUTF8: domains as A-labels
	for cand, i := range t.addrIdx {
		if r, err := address.ToASCII(cand); err == nil && r == a {
			n++
			hit = i
		}
	}
	if n == 1 {
		return hit, true
	}
	if n > 1 {
		return 0, false
	}
	k, _ := address.ForLookup(a)
	for cand, i := range t.addrIdx {
		ck, _ := address.ForLookup(cand)
		if ck == k {
			n++
			hit = i
		}
	}
	return hit, n == 1
}

// c01OriginalRcpts: a failure report names a recipient with its domain rendered as U-labels (as
// A-labels when the message came without SMTPUTF8), so "u@xn--e1afmkfd.example" and
// "u@пример.example" (two recipients) would read the same.  Recipients whose renderings coincide get
// an "original recipient" (MsgMetadata.OriginalRcpts, what a rewriting pipeline leaves behind): the
// report then names that one, which is unique.  forms (one letter per recipient of ids, '-' = none)
// gives recipients an original address of a chosen shape whatever their rendering (c01OrigAddr).
func c01OriginalRcpts(bt *c01Target, ids []int, addrs map[int]string, utf8 bool, forms string) map[string]string {
	render := func(a string) string {
		r, err := address.SelectIDNA(utf8, a)
		if err != nil {
			return a
		}
		return r
	}
	var orig map[string]string
	set := func(id int, alias string) {
		if orig == nil {
			orig = map[string]string{}
			bt.aliasIdx = map[string]int{}
		}
		orig[addrs[id]] = alias
		bt.aliasIdx[alias] = id
		if r, err := address.ToUnicode(alias); err == nil {
			bt.aliasIdx[r] = id
		}
		if r, err := address.ToASCII(alias); err == nil {
			bt.aliasIdx[r] = id
		}
	}
	explicit := map[int]bool{}
	for pos, id := range ids {
		if pos < len(forms) && forms[pos] != '-' {
			set(id, c01OrigAddr(forms[pos], id))
			explicit[id] = true
		}
	}
	byRender := map[string][]int{}
	for id, a := range addrs {
		byRender[render(a)] = append(byRender[render(a)], id)
	}
	for _, rids := range byRender {
		if len(rids) < 2 {
			continue
		}
		for _, id := range rids {
			if !explicit[id] {
				set(id, fmt.Sprintf("orig%d@alias.example", id))
			}
		}
	}
	return orig
}

// c01OrigAddr: the address the client named, by shape: a ASCII, n non-ASCII local part, i IDN
// domain written with U-labels, j the same with A-labels, m non-ASCII local part and IDN domain.
func c01OrigAddr(form byte, id int) string {
	switch form {
	case 'a':
		return fmt.Sprintf("orig%d@alias.example", id)
	case 'n':
		return fmt.Sprintf("ориг%d@alias.example", id)
	case 'i':
		return fmt.Sprintf("orig%d@пример.example", id)
	case 'j':
		return fmt.Sprintf("orig%d@xn--e1afmkfd.example", id)
	case 'm':
		return fmt.Sprintf("ориг%d@пример.example", id)
	}
	panic("C01 run: original recipient form " + string(form))
}

// c01Sender: return path of the message, by shape (letters as in c01OrigAddr).
func c01Sender(form byte) string {
	switch form {
	case 'a':
		return "sender@example.com"
	case 'n':
		return "отправитель@example.com"
	case 'i':
		return "sender@пример.example"
	case 'j':
		return "sender@xn--e1afmkfd.example"
	case 'm':
		return "отправитель@пример.example"
	}
	panic("C01 run: sender form " + string(form))
}

// c01ForeignMeta: the meta-data file of a spool entry as another build of the server would have
// written it - for THIS build the same data (encoding/json: unknown fields are skipped, the order of
// the keys and white space mean nothing, an absent field is its zero value).  The result is checked
// against that claim with the plain decoder before it is used.
const c01MetaForms = "acbdniozw"

func c01ForeignMeta(blob []byte, forms string) []byte {
	must := func(err error) {
		if err != nil {
			panic("C01 run: V=: " + err.Error())
		}
	}
	generic := func(b []byte) map[string]interface{} {
		dec := json.NewDecoder(bytes.NewReader(b))
		dec.UseNumber()
		var m map[string]interface{}
		must(dec.Decode(&m))
		return m
	}
	// insert a member right behind the '{' of the object that is the value of key (key "" = the document)
	inObject := func(s, key, member string) string {
		at := strings.Index(s, "{")
		if key != "" {
			at = strings.Index(s, `"`+key+`":{`)
			if at < 0 {
				return s
			}
			at += len(key) + 3
		}
		rest := strings.TrimLeft(s[at+1:], " \t\r\n")
		if strings.HasPrefix(rest, "}") {
			return s[:at+1] + member + s[at+1:]
		}
		return s[:at+1] + member + "," + s[at+1:]
	}
	out := strings.TrimSpace(string(blob))
	for _, f := range forms {
		switch f {
		case 'a':
			t := strings.TrimRight(out, " \t\r\n")
			out = t[:len(t)-1] + `,"SpoolFormat":3}` + out[len(t):]
		case 'c':
			out = inObject(out, "", `"Routing":{"Hops":["mx1.example.org","mx2.example.org"],"Deadline":"2031-01-02T03:04:05Z","Cost":[1,2.5,{"x":null}]}`)
		case 'b':
			out = inObject(out, "MsgMeta", `"SubmittedVia":"submission"`)
		case 'd':
			out = inObject(out, "SMTPOpts", `"DeliverBy":{"Seconds":600,"Mode":"R"}`)
		case 'n':
			out = inObject(out, "", `"HoldUntil":null`)
		case 'i':
			b, err := json.MarshalIndent(generic([]byte(out)), "", "\t")
			must(err)
			out = string(b)
		case 'o':
			b, err := json.Marshal(generic([]byte(out)))
			must(err)
			out = string(b)
		case 'z':
			m := generic([]byte(out))
			drop := func(m map[string]interface{}) {
				for k, v := range m {
					if v == nil || v == "" || v == false || v == json.Number("0") {
						delete(m, k)
					}
				}
			}
			drop(m)
			if mm, ok := m["MsgMeta"].(map[string]interface{}); ok {
				drop(mm)
			}
			b, err := json.Marshal(m)
			must(err)
			out = string(b)
		case 'w':
			out = "\r\n  " + out + " \n\n\t"
		default:
			panic("C01 run: V= form " + string(f))
		}
	}
	// the claim: the build under test reads the same data from both spellings
	var was, is QueueMetadata
	must(json.Unmarshal(blob, &was))
	must(json.Unmarshal([]byte(out), &is))
	if !reflect.DeepEqual(was, is) {
		panic(fmt.Sprintf("C01 run: V=%s: the rewritten meta-data does not hold the same data\n%s\n%s", forms, blob, out))
	}
	return []byte(out)
}

// c01Ext: the optional tokens of a C01 run line.
//
//	R=<k.k...|->   the server restarts before attempt k (0-based; 0 = between the acceptance of the
//	               message and its first attempt: Commit is answered by a queue that is already
//	               shutting down); a k named twice = an instance in between that delivers nothing
//	E=<utf8><sender form><original-recipient form per recipient>   the message came with SMTPUTF8
//	               (1) or without (0: then no address has a non-ASCII local part), shape of the
//	               return path, shape of the address the client named for each recipient ('-' none)
//	X=<form form ...>   how the failures are spelled: two letters per form (c01ErrForm); the failure at
//	               (attempt, stage, recipient position) takes form number c01FormIdx
//	T=<k><kind>.<k><kind>...   before attempt k (k >= 1, or k = 0 together with R=0) a read of the spool
//	               entry fails once, transiently: the server is stopped after attempt k-1, the entry is
//	               disturbed, an instance comes up and tries to load / dispatch it, the disturbance is
//	               repaired and the server restarted.  kinds: h = ID.header is a directory (opens, the read
//	               fails with EISDIR in Queue.dispatch), m = ID.meta is cut short (short read: the
//	               decoder fails in readDiskQueue), d = ID.meta is a directory
//	V=<k><forms>.<k><forms>...   while the server is down before attempt k (an R= or T= names k) the
//	               entry's meta-data is rewritten the way ANOTHER build of the server would have left it
//	               (upgrade, downgrade, a second host sharing the spool): the same data for this build,
//	               spelled differently.  forms (c01ForeignMeta): a unknown scalar field at the end, c unknown
//	               structured field in front, b unknown field inside MsgMeta, d unknown field inside
//	               MsgMeta.SMTPOpts, n unknown field whose value is null, i indented, o keys in alphabetical
//	               order, z fields holding their zero value left out, w white space around the document
type c01Ext struct {
	otherBuild map[int]string
	faults     map[int]string
	restarts   map[int]int
	utf8       bool
	sender     byte
	orig       string
	forms      string
	header     int
	foreign    map[int][]c01Foreign
	conn       int // -1: no ConnState (a locally generated message)
	traced     bool
	host       int
}

func c01ParseExt(toks []string, rcpts []int) c01Ext {
	e := c01Ext{otherBuild: map[int]string{}, faults: map[int]string{}, restarts: map[int]int{}, utf8: true, sender: 'a', orig: strings.Repeat("-", len(rcpts)), foreign: map[int][]c01Foreign{}, conn: -1}
	for _, tok := range toks {
		switch {
		case tok == "R=-":
		case strings.HasPrefix(tok, "R="):
			for _, f := range strings.Split(tok[2:], ".") {
				k, err := strconv.Atoi(f)
				if err != nil || k < 0 {
					panic("C01 run: " + tok)
				}
				e.restarts[k]++
			}
		case strings.HasPrefix(tok, "E=") && len(tok) == 4+len(rcpts):
			e.utf8 = tok[2] == '1'
			e.sender = tok[3]
			e.orig = tok[4:]
		case strings.HasPrefix(tok, "T=") && len(tok) > 2:
			for _, f := range strings.Split(tok[2:], ".") {
				if len(f) < 2 || !strings.Contains("hmd", f[len(f)-1:]) {
					panic("C01 run: " + tok)
				}
				k, err := strconv.Atoi(f[:len(f)-1])
				if err != nil || k < 0 {
					panic("C01 run: " + tok)
				}
				e.faults[k] += f[len(f)-1:]
			}
		case strings.HasPrefix(tok, "V=") && len(tok) > 2:
			for _, f := range strings.Split(tok[2:], ".") {
				i := 0
				for i < len(f) && f[i] >= '0' && f[i] <= '9' {
					i++
				}
				k, err := strconv.Atoi(f[:i])
				if err != nil || i == len(f) || strings.Trim(f[i:], c01MetaForms) != "" {
					panic("C01 run: " + tok)
				}
				e.otherBuild[k] += f[i:]
			}
		case strings.HasPrefix(tok, "X=") && len(tok) >= 4 && len(tok)%2 == 0:
			e.forms = tok[2:]
			for i := 0; i < len(e.forms); i += 2 {
				if _, ok := c01EnhOf(e.forms[i+1], 550); !ok || !strings.ContainsRune(c01Shapes, rune(e.forms[i])) {
					panic("C01 run: " + tok)
				}
			}
		case strings.HasPrefix(tok, "H=") && len(tok) > 2:
			k, err := strconv.Atoi(tok[2:])
			if err != nil || k < 0 || k >= len(c01Headers) {
				panic("C01 run: " + tok)
			}
			e.header = k
		case strings.HasPrefix(tok, "C=") && len(tok) > 3 && strings.Contains("tn", tok[len(tok)-1:]):
			k, err := strconv.Atoi(tok[2 : len(tok)-1])
			if err != nil || k < 0 || k >= len(c01Conns) {
				panic("C01 run: " + tok)
			}
			e.conn, e.traced = k, tok[len(tok)-1] == 't'
		case strings.HasPrefix(tok, "Q=") && len(tok) > 2:
			k, err := strconv.Atoi(tok[2:])
			if err != nil || k < 0 || k >= len(c01Hosts) {
				panic("C01 run: " + tok)
			}
			e.host = k
		case strings.HasPrefix(tok, "F=") && len(tok) > 2:
			for _, f := range strings.Split(tok[2:], ".") {
				if len(f) < 3 || !strings.Contains("tpu", f[len(f)-1:]) || !strings.Contains("xck", f[len(f)-2:len(f)-1]) {
					panic("C01 run: " + tok)
				}
				k, err := strconv.Atoi(f[:len(f)-2])
				if err != nil || k < 0 {
					panic("C01 run: " + tok)
				}
				e.foreign[k] = append(e.foreign[k], c01Foreign{f[len(f)-2], f[len(f)-1]})
			}
		default:
			panic("C01 run: " + tok)
		}
	}
	for k := range e.otherBuild {
		if e.restarts[k] == 0 && e.faults[k] == "" {
			panic("C01 run: V= names an attempt no restart precedes (a running server does not read its own meta-data back)")
		}
	}
	if e.faults[0] != "" && e.restarts[0] == 0 {
		panic("C01 run: T=0 without R=0 (the first attempt of a running server does not read the spool)")
	}
	if !e.utf8 {
		// without SMTPUTF8 nobody can name a mailbox with a non-ASCII local part
		bad := strings.ContainsAny(string(e.sender)+e.orig, "nm")
		for _, r := range rcpts {
			if b := (r-1)%6 + 1; b == 2 || b == 5 {
				bad = true
			}
		}
		if bad {
			panic("C01 run: non-ASCII local part without SMTPUTF8")
		}
	}
	return e
}

// c01HasSpellings: do two of the recipients spell one mailbox (equal under address.ForLookup)?
func c01HasSpellings(addrs map[int]string) bool {
	seen := map[string]bool{}
	for _, a := range addrs {
		k, _ := address.ForLookup(a)
		if seen[k] {
			return true
		}
		seen[k] = true
	}
	return false
}

func (t *c01Target) ev(s string) {
	*t.log = append(*t.log, s)
}

func cls(c byte) string { return string([]byte{c}) }

func (t *c01Target) Start(ctx context.Context, msgMeta *module.MsgMetadata, mailFrom string) (module.Delivery, error) {
	t.mu.Lock()
	defer t.mu.Unlock()
	var p c01Plan
	if t.attempt < len(t.plans) {
		p = t.plans[t.attempt]
	} else {
		p = c01Plan{start: 'o', body: 'o', commit: 'o'}
	}
	if t.q != nil {
		// the history goes on with a restart: keep the queue from retrying on its own
		if t.holdBefore[t.attempt+1] > 0 {
			t.q.initialRetryTime = time.Hour
			t.holds++
		} else {
			t.q.initialRetryTime = 0
		}
	}
	att := t.attempt
	t.attempt++
	t.ev("start:" + cls(p.start))
	if err := t.err(p.start, "start", att, 0, 0); err != nil {
		return nil, err
	}
	d := &c01Delivery{t: t, att: att, plan: p, bodyOK: map[int]bool{}}
	if t.partial {
		return &c01DeliveryPartial{d}, nil
	}
	return d, nil
}

func get(m map[int]byte, k int) byte {
	if c, ok := m[k]; ok {
		return c
	}
	return 'o'
}

func (d *c01Delivery) AddRcpt(ctx context.Context, to string, _ smtp.RcptOptions) error {
	d.t.mu.Lock()
	defer d.t.mu.Unlock()
	i, ok := d.t.addrIdx[to]
	if !ok {
		d.t.ev("rcpt:UNKNOWN(" + to + ")")
		return errors.New("unknown address")
	}
	c := get(d.plan.rcpt, i)
	d.t.ev(fmt.Sprintf("rcpt:%d:%s", i, cls(c)))
	if err := d.t.err(c, "rcpt", d.att, 1, i); err != nil {
		return err
	}
	d.accepted = append(d.accepted, i)
	return nil
}

func (d *c01Delivery) Body(ctx context.Context, header textproto.Header, body buffer.Buffer) error {
	d.t.mu.Lock()
	defer d.t.mu.Unlock()
	r, err := body.Open()
	if err == nil {
		io.Copy(io.Discard, r)
		r.Close()
	}
	d.t.ev("body:" + cls(d.plan.body))
	if err := d.t.err(d.plan.body, "body", d.att, 2, 0); err != nil {
		return err
	}
	for _, i := range d.accepted {
		d.bodyOK[i] = true
	}
	return nil
}

func (d *c01DeliveryPartial) BodyNonAtomic(ctx context.Context, sc module.StatusCollector, header textproto.Header, body buffer.Buffer) {
	d.t.mu.Lock()
	defer d.t.mu.Unlock()
	var parts []string
	for _, i := range d.accepted {
		c := get(d.plan.bodyRc, i)
		parts = append(parts, fmt.Sprintf("%d=%s", i, cls(c)))
		err := d.t.err(c, "body-status", d.att, 3, i)
		if err == nil {
			d.bodyOK[i] = true
		}
		for addr, j := range d.t.addrIdx {
			if j == i {
				sc.SetStatus(addr, err)
			}
		}
	}
	d.t.ev("bodyNA:" + strings.Join(parts, ","))
	// statuses under addresses that are not in the envelope (a stale or converted form): they name nobody
	for n, f := range d.t.foreign[d.att] {
		if len(d.accepted) == 0 {
			break
		}
		sc.SetStatus(d.t.foreignAddr(f.kind, d.accepted[n%len(d.accepted)], n), c01Err(d.t.rng, f.cls, "foreign-status"))
	}
}

func (d *c01Delivery) Abort(ctx context.Context) error {
	d.t.mu.Lock()
	defer d.t.mu.Unlock()
	d.t.ev("abort")
	return nil
}

func (d *c01Delivery) Commit(ctx context.Context) error {
	d.t.mu.Lock()
	defer d.t.mu.Unlock()
	d.t.ev("commit:" + cls(d.plan.commit))
	if err := d.t.err(d.plan.commit, "commit", d.att, 4, 0); err != nil {
		return err
	}
	// ground truth of the downstream: what it now holds
	var rs []string
	for _, i := range d.accepted {
		if d.bodyOK[i] {
			rs = append(rs, strconv.Itoa(i))
		}
	}
	d.t.ev("committed:" + strings.Join(rs, ","))
	return nil
}

// ---- bounce pipeline stand-in ----

type c01Bounce struct {
	t *c01Target
}

type c01BounceDelivery struct {
	b    *c01Bounce
	from string
	to   []string
	rs   []string
}

func (b *c01Bounce) Start(ctx context.Context, msgMeta *module.MsgMetadata, mailFrom string) (module.Delivery, error) {
	return &c01BounceDelivery{b: b, from: mailFrom}, nil
}
func (d *c01BounceDelivery) AddRcpt(ctx context.Context, to string, _ smtp.RcptOptions) error {
	d.to = append(d.to, to)
	return nil
}
func (d *c01BounceDelivery) Body(ctx context.Context, header textproto.Header, body buffer.Buffer) error {
	r, err := body.Open()
	if err != nil {
		return err
	}
	defer r.Close()
	blob, _ := io.ReadAll(r)
	for _, line := range strings.Split(string(blob), "\n") {
		line = strings.TrimSpace(line)
		if strings.HasPrefix(strings.ToLower(line), "final-recipient:") {
			v := line[len("final-recipient:"):]
			if i := strings.Index(v, ";"); i >= 0 {
				v = v[i+1:]
			}
			v = strings.TrimSpace(v)
			if idx, ok := d.b.t.lookupAddr(v); ok {
				d.rs = append(d.rs, strconv.Itoa(idx))
			} else {
				d.rs = append(d.rs, "UNKNOWN("+v+")")
			}
		}
	}
	return nil
}
func (d *c01BounceDelivery) Abort(ctx context.Context) error { return nil }
func (d *c01BounceDelivery) Commit(ctx context.Context) error {
	d.b.t.mu.Lock()
	defer d.b.t.mu.Unlock()
	d.b.t.ev("report:" + strings.Join(d.rs, ","))
	return nil
}

// ---- case encoding ----
// C01 run <maxTries> <a|p> <dsn> <r1,r2,..> <plan>;<plan>...
// plan = <start>/<rcpt classes per recipient>/<body>/<bodyRc per recipient>/<commit>   letters o t p u

func c01ParsePlans(s string, rcpts []int) []c01Plan {
	var out []c01Plan
	for _, ps := range strings.Split(s, ";") {
		f := strings.Split(ps, "/")
		p := c01Plan{start: f[0][0], body: f[2][0], commit: f[4][0], rcpt: map[int]byte{}, bodyRc: map[int]byte{}}
		for i, r := range rcpts {
			if _, listed := p.rcpt[r]; listed {
				continue // an address listed twice: one mailbox, one answer
			}
			p.rcpt[r] = f[1][i]
			p.bodyRc[r] = f[3][i]
		}
		out = append(out, p)
	}
	return out
}

// Recipient id = mailbox number b (1..6) + 6*v, v = spelling (0..3).  The four spellings of one
// mailbox are equal under address.ForLookup (case of the local part, case of the domain, A-labels vs
// U-labels, NFC vs NFD) and are four DIFFERENT recipients for the queue.
var c01AddrForms = [6][4]string{
	{"user1@xn--e1afmkfd.example", "user1@пример.example", "USER1@xn--e1afmkfd.example", "User1@ПРИМЕР.example"},
	{"ю2@пример.example", "Ю2@пример.example", "ю2@xn--e1afmkfd.example", "ю2@Пример.EXAMPLE"},
	{"U3@EXAMPLE.ORG", "u3@example.org", "U3@example.org", "u3@EXAMPLE.ORG"},
	{"u4@example.org", "U4@example.org", "u4@EXAMPLE.ORG", "U4@Example.Org"},
	{"\u04395@example.org", "\u0438\u03065@example.org", "\u04195@example.org", "\u0418\u03065@EXAMPLE.ORG"},
	{"u6@b\u00fccher.example", "u6@bu\u0308cher.example", "u6@xn--bcher-kva.example", "U6@B\u00dcCHER.example"},
}

func c01Addr(r int) string { return c01AddrForms[(r-1)%6][((r-1)/6)%4] }

// c01CheckForms: the spellings of one mailbox are pairwise different strings with one lookup key,
// different mailboxes have different keys.
func c01CheckForms(t *testing.T) {
	keys := map[string]int{}
	for b, forms := range c01AddrForms {
		k0, _ := address.ForLookup(forms[0])
		if prev, ok := keys[k0]; ok {
			t.Fatalf("mailboxes %d and %d share the key %q", prev+1, b+1, k0)
		}
		keys[k0] = b
		for i, a := range forms {
			k, err := address.ForLookup(a)
			if err != nil || k != k0 {
				t.Fatalf("spelling %q of mailbox %d: key %q (%v), want %q", a, b+1, k, err, k0)
			}
			for _, o := range forms[:i] {
				if o == a {
					t.Fatalf("spelling %q of mailbox %d twice", a, b+1)
				}
			}
		}
	}
}

// after a few stalls the tree under test is evidently broken: do not sit out the grace period in
// every further case
var c01Stalls int32

func c01Run(out *vh.Out, op string, seed uint64) {
	toks := strings.Fields(op)
	maxTries, _ := strconv.Atoi(toks[2])
	partial := toks[3] == "p"
	dsn := toks[4] == "1"
	var rcpts []int
	for _, s := range strings.Split(toks[5], ",") {
		v, _ := strconv.Atoi(s)
		rcpts = append(rcpts, v)
	}
	plans := c01ParsePlans(toks[6], rcpts)
	ext := c01ParseExt(toks[7:], rcpts)
	rng := vh.NewRng(seed)

	var evlog []string
	holdBefore := map[int]int{}
	for k, n := range ext.restarts {
		holdBefore[k] += n
	}
	for k, f := range ext.faults {
		holdBefore[k] += len(f)
	}
	tgt := &c01Target{partial: partial, plans: plans, addrIdx: map[string]int{}, log: &evlog, rng: rng, holdBefore: holdBefore, forms: ext.forms, pos: map[int]int{}}
	var addrs []string
	addrOf := map[int]string{}
	repeated := false
	var distinct []int
	for j, r := range rcpts {
		a := c01Addr(r)
		addrs = append(addrs, a) // an address may be listed twice (identical spelling): the client repeated RCPT TO
		if _, dup := tgt.addrIdx[a]; dup {
			repeated = true
			continue
		}
		tgt.pos[r] = j
		tgt.addrIdx[a] = r
		addrOf[r] = a
		distinct = append(distinct, r)
	}
	tgt.foreign = ext.foreign
	origRcpts := c01OriginalRcpts(tgt, rcpts, addrOf, ext.utf8, ext.orig)

	dir, err := os.MkdirTemp("", "verif-c01-")
	if err != nil {
		panic(err)
	}
	defer os.RemoveAll(dir)

	// newQ starts a queue instance on the spool; idle: it delivers nothing before it is stopped
	newQ := func(idle bool) *Queue {
		mod, _ := NewQueue("", "queue", nil, nil)
		q := mod.(*Queue)
		q.initialRetryTime = 0
		q.retryTimeScale = 1
		q.postInitDelay = 0
		if idle {
			q.postInitDelay = time.Hour
		}
		q.maxTries = maxTries
		q.location = dir
		q.Target = tgt
		q.hostname = c01Hosts[ext.host][0]
		q.autogenMsgDomain = c01Hosts[ext.host][1]
		q.Log = log.Logger{Out: log.NopOutput{}}
		q.dsnPipeline = &c01Bounce{t: tgt}
		tgt.mu.Lock()
		tgt.q = q
		tgt.mu.Unlock()
		if err := q.start(1); err != nil {
			panic(err)
		}
		return q
	}
	// restart: n-1 instances that deliver nothing, then one that works
	restart := func(n int) *Queue {
		for k := 1; k < n; k++ {
			newQ(true).Close()
		}
		return newQ(false)
	}
	q := newQ(false)
	id, _ := module.GenerateMsgID()
	// resume: the server is down (Queue.Close was the barrier) and comes up again before attempt k.
	// First the transient read faults of T=: disturb the entry, let an instance load / dispatch it (the
	// slot leaves the time wheel when the dispatch begins and Queue.Close waits for its end: no
	// clock in that), repair.  Then the restart proper.
	readFaults := 0
	otherBuilds := ""
	resume := func(k int) *Queue {
		for _, kind := range ext.faults[k] {
			file := dir + "/" + id + ".header"
			if kind != 'h' {
				file = dir + "/" + id + ".meta"
			}
			if _, err := os.Stat(file); err != nil {
				break // nothing (left) to disturb
			}
			must := func(err error) {
				if err != nil {
					panic(err)
				}
			}
			must(os.Rename(file, file+".sav"))
			if kind == 'm' {
				blob, err := os.ReadFile(file + ".sav")
				must(err)
				must(os.WriteFile(file, blob[:len(blob)/2], 0o600))
			} else {
				must(os.Mkdir(file, 0o700))
			}
			fq := newQ(false)
			for stop := time.Now().Add(30 * time.Second); !c01WheelEmpty(fq) && time.Now().Before(stop); {
				time.Sleep(200 * time.Microsecond)
			}
			fq.Close()
			must(os.RemoveAll(file))
			must(os.Rename(file+".sav", file))
			readFaults++
		}
		if forms := ext.otherBuild[k]; forms != "" {
			file := dir + "/" + id + ".meta"
			if blob, err := os.ReadFile(file); err == nil {
				if err := os.WriteFile(file, c01ForeignMeta(blob, forms), 0o600); err != nil {
					panic(err)
				}
				otherBuilds += forms
			}
		}
		return restart(ext.restarts[k])
	}

	from := c01Sender(ext.sender)
	if !dsn {
		from = ""
	}
	meta := &module.MsgMetadata{ID: id, OriginalFrom: from, DontTraceSender: true, SMTPOpts: smtp.MailOptions{UTF8: ext.utf8}, OriginalRcpts: origRcpts}
	if ext.conn >= 0 {
		meta.Conn = c01ConnState(ext.conn)
		meta.DontTraceSender = !ext.traced
	}
	ctx := context.Background()
	d, err := q.Start(ctx, meta, from)
	if err != nil {
		panic(err)
	}
	for _, a := range addrs {
		if err := d.AddRcpt(ctx, a, smtp.RcptOptions{}); err != nil {
			panic(err)
		}
	}
	hdr := c01Header(ext.header)
	if err := d.Body(ctx, hdr, buffer.MemoryBuffer{Slice: []byte("hello\r\n")}); err != nil {
		panic(err)
	}
	if ext.restarts[0] > 0 {
		// the server is shutting down while the transaction completes: Queue.Close has stopped the
		// time wheel, Commit is still answered - nothing is dispatched, the message is in the spool
		q.Close()
	}
	if err := d.Commit(ctx); err != nil {
		if ext.restarts[0] == 0 {
			panic(err)
		}
		// a stopping queue may refuse: the message was never acknowledged, nothing to judge
		out.Corr(op, "commit-refused")
		out.Note("a stopping queue refused Commit: " + err.Error())
		return
	}
	if ext.restarts[0] > 0 {
		q = resume(0)
	}

	// run to quiescence: the spool entry is removed after the terminal attempt.  Queue.Close is a
	// barrier (time wheel stopped, attempts in flight over), so "what is in the spool after Close" does
	// not depend on timing; the grace period below only decides how long a queue that has nothing
	// scheduled is watched before that question is asked.
	spool := func() (names []string, pending bool) {
		ents, _ := os.ReadDir(dir)
		for _, e := range ents {
			n := e.Name()
			if i := strings.LastIndexByte(n, '.'); i >= 0 {
				n = n[i:]
			}
			if strings.HasSuffix(e.Name(), ".meta.new") {
				n = ".meta.new"
			}
			if n == ".meta" || n == ".meta.new" {
				pending = true // something a queue instance is going to load
			}
			names = append(names, n)
		}
		sort.Strings(names)
		return
	}
	deadline := time.Now().Add(30 * time.Second)
	removed := false
	handled := 0
	var idleSince time.Time
	lastAttempt := -1
	for {
		names, pending := spool()
		if len(names) == 0 {
			removed = true
			break
		}
		tgt.mu.Lock()
		holds, attempt := tgt.holds, tgt.attempt
		tgt.mu.Unlock()
		if holds > handled {
			// the attempt before a planned restart has begun: let it finish, stop, start again
			handled = holds
			q.Close()
			if names, _ = spool(); len(names) == 0 {
				removed = true
				break
			}
			q = resume(attempt)
			idleSince = time.Time{}
			continue
		}
		// nothing scheduled and nothing in flight for a while, or nothing left that a queue instance
		// would load: ask the question after the barrier
		grace := 3 * time.Second
		if atomic.LoadInt32(&c01Stalls) >= 3 {
			grace = 300 * time.Millisecond
		}
		idle := c01WheelEmpty(q) && len(q.deliverySemaphore) == 0 && attempt == lastAttempt
		lastAttempt = attempt
		if !idle {
			idleSince = time.Time{}
		} else if idleSince.IsZero() {
			idleSince = time.Now()
		}
		stalled := idle && time.Since(idleSince) > grace
		late := time.Now().After(deadline)
		if !pending || stalled || late {
			q.Close()
			names, pending = spool()
			if len(names) == 0 {
				removed = true
				break
			}
			tgt.mu.Lock()
			holds2, attempt2 := tgt.holds, tgt.attempt
			tgt.mu.Unlock()
			if !pending || late || attempt2 == attempt {
				if stalled {
					atomic.AddInt32(&c01Stalls, 1)
				}
				break // nobody is going to deliver this
			}
			// an attempt was being dispatched after all (a very slow machine) and the stopped time
			// wheel has dropped its retry: an instance on the same spool picks it up
			if holds2 > handled {
				handled = holds2
				q = resume(attempt2)
			} else {
				out.Stat("run.unplanned-restart")
				q = newQ(false)
			}
			idleSince = time.Time{}
			continue
		}
		time.Sleep(300 * time.Microsecond)
	}
	q.Close()
	tgt.mu.Lock()
	trace := append([]string{}, evlog...)
	tgt.mu.Unlock()
	if removed {
		trace = append(trace, "removed")
	} else {
		names, _ := spool()
		trace = append(trace, "NOT-REMOVED("+strings.Join(names, ",")+")")
	}
	out.Corr(op, strings.Join(trace, " "))

	// ---- monitor: the property itself, evaluated on the real execution ----
	commits := map[string]int{}
	reports := map[string]int{}
	attempts := 0
	lastTried := map[string][]string{} // per rcpt: outcome class of each attempt it took part in
	for _, e := range trace {
		switch {
		case strings.HasPrefix(e, "start:"):
			attempts++
		case strings.HasPrefix(e, "committed:"):
			// one committed transaction = one delivery to each address in it, however often it was listed
			inTx := map[string]bool{}
			for _, r := range strings.Split(e[len("committed:"):], ",") {
				if r != "" && !inTx[r] {
					inTx[r] = true
					commits[r]++
				}
			}
		case strings.HasPrefix(e, "report:"):
			inRep := map[string]bool{}
			for _, r := range strings.Split(e[len("report:"):], ",") {
				if r != "" && !inRep[r] {
					inRep[r] = true
					reports[r]++
				}
			}
		}
	}
	_ = lastTried
	// the downstream is asked to commit only when the body stage left somebody without an error
	bodyAllFailed := false
	for _, e := range trace {
		switch {
		case strings.HasPrefix(e, "start:"):
			bodyAllFailed = false
		case strings.HasPrefix(e, "body:"):
			bodyAllFailed = e[len("body:")] != 'o'
		case strings.HasPrefix(e, "bodyNA:"):
			bodyAllFailed = len(e) > len("bodyNA:") && !strings.Contains(e, "=o")
		case strings.HasPrefix(e, "commit:") && bodyAllFailed:
			out.Violation("C01/committed-after-failed-body", op, "every accepted recipient failed at the body stage, Commit was called all the same; trace: "+strings.Join(trace, " "))
			bodyAllFailed = false
		}
	}
	for _, r := range distinct {
		k := strconv.Itoa(r)
		c, rp := commits[k], reports[k]
		okOutcome := (c == 1 && rp == 0) || (c == 0 && rp == 1 && dsn) || (c == 0 && rp == 0 && !dsn)
		if !okOutcome {
			sig := "C01/outcome"
			switch {
			case c == 0 && rp == 0:
				sig = "C01/recipient-lost"
			case c > 1:
				sig = "C01/delivered-twice"
			case c >= 1 && rp >= 1:
				sig = "C01/delivered-and-reported"
			case rp > 1:
				sig = "C01/reported-twice"
			}
			out.Violation(sig, op, fmt.Sprintf("rcpt %d: committed %d times, reported %d times; trace: %s", r, c, rp, strings.Join(trace, " ")))
		}
	}
	for k := range commits {
		found := false
		for _, r := range rcpts {
			if strconv.Itoa(r) == k {
				found = true
			}
		}
		if !found {
			out.Violation("C01/foreign-recipient", op, "committed for "+k)
		}
	}
	if attempts > maxTries {
		out.Violation("C01/too-many-attempts", op, fmt.Sprintf("%d attempts with max_tries=%d", attempts, maxTries))
	}
	if !removed {
		out.Violation("C01/not-terminated", op, strings.Join(trace, " "))
	}
	// retry only after a temporary/unclassified failure: walk attempts with the plan
	c01CheckRetries(out, op, trace, plans, partial, maxTries, toks[5])
	if ext.forms != "" {
		out.Stat("run.forms")
		tgt.mu.Lock()
		for _, f := range tgt.formsUsed {
			out.Stat("run.form.class-" + f[:1] + ".shape-" + f[1:2])
			out.Stat("run.form.class-" + f[:1] + ".style-" + f[2:3])
		}
		tgt.mu.Unlock()
	}
	out.Stat(fmt.Sprintf("attempts.%d", attempts))
	for _, f := range otherBuilds {
		out.Stat("run.other-build." + string(f))
	}
	if readFaults > 0 {
		out.Stat(fmt.Sprintf("run.read-faults.%d", readFaults))
		for k, f := range ext.faults {
			if k <= attempts {
				for _, kind := range f {
					out.Stat("run.read-fault.kind-" + string(kind))
				}
			}
		}
	}
	out.Stat("kind." + toks[3])
	out.StatN("rcpts", len(rcpts))
	if repeated {
		out.Stat("run.repeated-address.kind-" + toks[3])
		for _, e := range trace {
			if e == "abort" {
				out.Stat("run.repeated-address.abort")
				break
			}
		}
	}
	if ext.header != 0 {
		out.Stat(fmt.Sprintf("run.header.%d", ext.header))
		for _, n := range reports {
			if n > 0 {
				out.Stat(fmt.Sprintf("run.header.%d.reported", ext.header))
				break
			}
		}
	}
	if ext.conn >= 0 || ext.host != 0 {
		anyReport := false
		for _, n := range reports {
			anyReport = anyReport || n > 0
		}
		sfx := ""
		if anyReport {
			sfx = ".reported"
		}
		if ext.conn >= 0 {
			tr := "untraced"
			if ext.traced {
				tr = "traced"
			}
			inMem := "in-memory"
			if ext.restarts[0] > 0 {
				inMem = "spooled"
			}
			out.Stat(fmt.Sprintf("run.client.%d.%s.utf8-%v%s", ext.conn, tr, ext.utf8, sfx))
			out.Stat("run.client.first-attempt-" + inMem)
		}
		if ext.host != 0 {
			out.Stat(fmt.Sprintf("run.server-name.%d.utf8-%v%s", ext.host, ext.utf8, sfx))
		}
	}
	for k, fs := range ext.foreign {
		if k < attempts && partial {
			for _, f := range fs {
				out.Stat("run.foreign-status.kind-" + string(f.kind))
			}
		}
	}
	if c01HasSpellings(addrOf) {
		out.Stat("run.spellings")
	}
	// restarts that took place, by position; what the first attempt after one had to deal with
	failedIn := func(k int) bool {
		if k >= len(plans) {
			return false
		}
		p := plans[k]
		if p.start != 'o' || p.body != 'o' || p.commit != 'o' {
			return true
		}
		for _, r := range rcpts {
			if p.rcpt[r] != 'o' || p.bodyRc[r] != 'o' {
				return true
			}
		}
		return false
	}
	for k, n := range ext.restarts {
		if k >= attempts {
			continue
		}
		pos := "between-attempts"
		if k == 0 {
			pos = "before-first-attempt"
		}
		out.Stat("run.restart." + pos)
		if failedIn(k) {
			out.Stat("run.restart." + pos + ".then-failure")
		}
		if n > 1 {
			out.Stat("run.restart.twice")
		}
	}
	if len(toks) > 8 {
		out.Stat(fmt.Sprintf("run.env.utf8-%v.sender-%c", ext.utf8, ext.sender))
		reported := 0
		for _, n := range reports {
			reported += n
		}
		asciiRest := address.IsASCII(from)
		for _, a := range addrs {
			asciiRest = asciiRest && address.IsASCII(a)
		}
		for pos, f := range ext.orig {
			if f == '-' {
				continue
			}
			out.Stat(fmt.Sprintf("run.orig.%c", f))
			if reports[strconv.Itoa(rcpts[pos])] > 0 {
				out.Stat(fmt.Sprintf("run.orig.%c.reported", f))
				if ext.utf8 && asciiRest && !address.IsASCII(c01OrigAddr(byte(f), rcpts[pos])) {
					// the only non-ASCII thing in the report is the address the client named
					out.Stat("run.report.utf8-only-for-original-recipient")
				}
			}
		}
		if reported > 0 && !ext.utf8 {
			out.Stat("run.report.without-smtputf8")
		}
	}
}

func c01WheelEmpty(q *Queue) bool {
	q.wheel.slotsLock.Lock()
	defer q.wheel.slotsLock.Unlock()
	return q.wheel.slots.Len() == 0
}

// c01CheckRetries: a recipient that appears in attempt k+1 must have ended attempt k with a
// temporary or unclassified failure (computed from the trace's own stage results).
func c01CheckRetries(out *vh.Out, op string, trace []string, plans []c01Plan, partial bool, maxTries int, rcptList string) {
	type att struct {
		res map[string]byte // rcpt -> last class seen in this attempt ('o' if no error)
	}
	var atts []att
	var cur *att
	var accepted []string
	flushBody := func(c byte) {
		for _, r := range accepted {
			if c != 'o' {
				cur.res[r] = c
			}
		}
	}
	startCls := byte('o')
	for _, e := range trace {
		switch {
		case strings.HasPrefix(e, "start:"):
			atts = append(atts, att{res: map[string]byte{}})
			cur = &atts[len(atts)-1]
			accepted = nil
			startCls = e[len("start:")]
			cur.res["*"] = startCls
		case strings.HasPrefix(e, "rcpt:"):
			f := strings.Split(e, ":")
			cur.res[f[1]] = f[2][0]
			if f[2][0] == 'o' {
				accepted = append(accepted, f[1])
			}
		case strings.HasPrefix(e, "body:"):
			flushBody(e[len("body:")])
		case strings.HasPrefix(e, "bodyNA:"):
			for _, kv := range strings.Split(e[len("bodyNA:"):], ",") {
				if kv == "" {
					continue
				}
				f := strings.Split(kv, "=")
				if f[1][0] != 'o' {
					cur.res[f[0]] = f[1][0]
				}
			}
		case strings.HasPrefix(e, "commit:"):
			flushBody(e[len("commit:")])
		}
	}
	// retried until max tries: a recipient whose attempt k ended with a temporary or unclassified
	// failure, k+1 < max_tries, takes part in attempt k+1 (whatever the enhanced status code said)
	pending := strings.Split(rcptList, ",")
	for k, at := range atts {
		if at.res["*"] == 'o' && k > 0 {
			for _, r := range pending {
				if _, tried := at.res[r]; !tried {
					out.Violation("C01/not-retried-after-temporary", op, fmt.Sprintf("rcpt %s: temporary/unclassified failure in attempt %d of %d, not part of attempt %d", r, k, maxTries, k+1))
				}
			}
		}
		var next []string
		for _, r := range pending {
			c, seen := at.res[r]
			if at.res["*"] != 'o' {
				c, seen = at.res["*"], true
			}
			if seen && (c == 't' || c == 'u') && k+1 < maxTries {
				next = append(next, r)
			}
		}
		pending = next
	}
	for _, r := range pending {
		if len(atts) == 0 {
			out.Violation("C01/never-attempted", op, fmt.Sprintf("rcpt %s: accepted, no delivery attempt was made", r))
			continue
		}
		out.Violation("C01/not-retried-after-temporary", op, fmt.Sprintf("rcpt %s: temporary/unclassified failure in attempt %d of %d, no further attempt", r, len(atts), maxTries))
	}
	for k := 1; k < len(atts); k++ {
		prev := atts[k-1]
		for r := range atts[k].res {
			if r == "*" {
				continue
			}
			c, seen := prev.res[r]
			if prev.res["*"] != 'o' {
				c, seen = prev.res["*"], true
			}
			if !seen {
				continue
			}
			if c == 'o' || c == 'p' {
				out.Violation("C01/retried-after-final-outcome", op, fmt.Sprintf("rcpt %s re-attempted in attempt %d after class %c", r, k+1, c))
			}
		}
	}
}

func c01GenPlan(r *vh.Rng, n int, faulty int) string {
	pick := func() byte {
		if r.Chance(faulty) {
			return "tpu"[r.Intn(3)]
		}
		return 'o'
	}
	var b strings.Builder
	s := byte('o')
	if r.Chance(faulty / 3) {
		s = "tpu"[r.Intn(3)]
	}
	b.WriteByte(s)
	b.WriteByte('/')
	for i := 0; i < n; i++ {
		b.WriteByte(pick())
	}
	b.WriteByte('/')
	bd := byte('o')
	if r.Chance(faulty / 2) {
		bd = "tpu"[r.Intn(3)]
	}
	b.WriteByte(bd)
	b.WriteByte('/')
	for i := 0; i < n; i++ {
		b.WriteByte(pick())
	}
	b.WriteByte('/')
	cm := byte('o')
	if r.Chance(faulty / 2) {
		cm = "tpu"[r.Intn(3)]
	}
	b.WriteByte(cm)
	return b.String()
}

// C01 cls <class t|p|u><shape><style>: one point of the error grid.  Observation: what the queue
// does with such an error (exterrors.IsTemporaryOrUnspec: retry | final), the reply code and status
// it records for the failure report (toSMTPErr), whether a report naming a recipient with that
// status can be written (dsn.RecipientInfo.WriteTo).
func c01Cls(out *vh.Out, op string) {
	toks := strings.Fields(op)
	if len(toks) != 3 || len(toks[2]) != 3 {
		panic("C01 cls: " + op)
	}
	c, shape, style := toks[2][0], toks[2][1], toks[2][2]
	err := c01ErrForm(c, shape, style, "grid")
	retry := exterrors.IsTemporaryOrUnspec(err)
	se := toSMTPErr(err)
	info := dsn.RecipientInfo{FinalRecipient: "u@example.org", Action: dsn.ActionFailed, Status: se.EnhancedCode, DiagnosticCode: se}
	werr := info.WriteTo(true, io.Discard)
	obs := "final"
	if retry {
		obs = "retry"
	}
	obs += fmt.Sprintf(" %d %d.%d.%d", se.Code, se.EnhancedCode[0], se.EnhancedCode[1], se.EnhancedCode[2])
	if werr == nil {
		obs += " report:ok"
	} else {
		obs += " report:fails"
	}
	out.Corr(op, obs)
	// the property: the class is the basic reply code / the marker, not the enhanced status code;
	// every terminal failure can be reported
	if c == 'p' && retry {
		out.Violation("C01/permanent-failure-classified-temporary", op, fmt.Sprintf("%T %v: %s", err, err, obs))
	}
	if c != 'p' && !retry {
		out.Violation("C01/temporary-failure-classified-permanent", op, fmt.Sprintf("%T %v: %s", err, err, obs))
	}
	if werr != nil {
		out.Violation("C01/report-cannot-be-generated", op, fmt.Sprintf("%T %v: %s: %v", err, err, obs, werr))
	}
	out.Stat("cls.class-" + string(c) + "." + obs[:5])
	out.Stat("cls.status-class." + strconv.Itoa(se.EnhancedCode[0]))
}

func TestVerifC01Cls(t *testing.T) {
	out := vh.Open("c01_cls")
	defer out.Close()
	log.DefaultLogger.Out = log.NopOutput{}
	if ops := vh.Replay(); ops != nil {
		for _, op := range ops {
			if strings.HasPrefix(op, "C01 cls ") {
				c01Cls(out, op)
			}
		}
		return
	}
	for _, c := range "tpu" {
		for _, sh := range c01Shapes {
			for _, st := range c01Styles {
				if c == 'u' && st != 'a' {
					continue
				}
				c01Cls(out, fmt.Sprintf("C01 cls %c%c%c", c, sh, st))
			}
		}
	}
}

// ---- the names of the MTAs in the report (C01 names) ----
//
// C01 names <utf8 0|1> <client row|-><t|n> <server row> <hc> <cc>: the REAL Queue.emitDSN for one
// failed recipient of a message submitted by that client (traced or not) to a server of that name.
// hc / cc = what dns.SelectIDNA(utf8, ·) makes of the server / client name on this tree (! = error,
// else the code points): the library primitive's results travel with the op line.  Observation: is
// a report handed to the bounce pipeline, and its Reporting-MTA / Received-From-MTA fields (white
// space removed: long values are folded).  Monitor: whatever the names, there is a report.
type c01Capture struct {
	blobs [][]byte
	cur   []byte
}

func (b *c01Capture) Start(ctx context.Context, msgMeta *module.MsgMetadata, mailFrom string) (module.Delivery, error) {
	return b, nil
}
func (b *c01Capture) AddRcpt(ctx context.Context, to string, _ smtp.RcptOptions) error { return nil }
func (b *c01Capture) Body(ctx context.Context, header textproto.Header, body buffer.Buffer) error {
	r, err := body.Open()
	if err != nil {
		return err
	}
	defer r.Close()
	b.cur, err = io.ReadAll(r)
	return err
}
func (b *c01Capture) Abort(ctx context.Context) error { return nil }
func (b *c01Capture) Commit(ctx context.Context) error {
	b.blobs = append(b.blobs, b.cur)
	return nil
}

func c01ConvTok(utf8 bool, name string) string {
	v, err := dns.SelectIDNA(utf8, name)
	if err != nil {
		return "!"
	}
	return vh.HexRunes(v)
}

// c01Field: the value of a field of the report, unfolded, white space removed; "" = absent
func c01Field(blob []byte, name string) string {
	lines := strings.Split(string(blob), "\n")
	for i, l := range lines {
		if len(l) > len(name) && strings.EqualFold(l[:len(name)+1], name+":") {
			v := l[len(name)+1:]
			for _, c := range lines[i+1:] {
				if !strings.HasPrefix(c, " ") && !strings.HasPrefix(c, "\t") {
					break
				}
				v += c
			}
			return strings.Join(strings.Fields(v), "")
		}
	}
	return ""
}

func c01NamesOp(utf8 bool, client int, traced bool, host int) string {
	u, ct, cc := "0", "-n", "-"
	if utf8 {
		u = "1"
	}
	if client >= 0 {
		ct = fmt.Sprintf("%d%c", client, "nt"[map[bool]int{false: 0, true: 1}[traced]])
		cc = c01ConvTok(utf8, c01Conns[client].helo)
	}
	return fmt.Sprintf("C01 names %s %s %d %s %s", u, ct, host, c01ConvTok(utf8, c01Hosts[host][0]), cc)
}

func c01Names(out *vh.Out, op string) {
	toks := strings.Fields(op)
	if len(toks) != 7 {
		panic("C01 names: " + op)
	}
	utf8 := toks[2] == "1"
	host, err := strconv.Atoi(toks[4])
	if err != nil || host < 0 || host >= len(c01Hosts) {
		panic("C01 names: " + op)
	}
	meta := &module.MsgMetadata{ID: "c01names", OriginalFrom: "sender@example.com", DontTraceSender: true, SMTPOpts: smtp.MailOptions{UTF8: utf8}}
	if ct := toks[3]; ct != "-n" {
		k, err := strconv.Atoi(ct[:len(ct)-1])
		if err != nil || k < 0 || k >= len(c01Conns) {
			panic("C01 names: " + op)
		}
		meta.Conn = c01ConnState(k)
		meta.DontTraceSender = ct[len(ct)-1] != 't'
	}
	mod, _ := NewQueue("", "queue", nil, nil)
	q := mod.(*Queue)
	q.hostname, q.autogenMsgDomain = c01Hosts[host][0], c01Hosts[host][1]
	q.Log = log.Logger{Out: log.NopOutput{}}
	capt := &c01Capture{}
	q.dsnPipeline = capt
	rcpt := "gone@example.org"
	now := time.Now()
	qm := &QueueMetadata{MsgMeta: meta, From: "sender@example.com", To: []string{rcpt}, FailedRcpts: []string{rcpt},
		RcptErrs:     map[string]*smtp.SMTPError{rcpt: {Code: 550, EnhancedCode: smtp.EnhancedCode{5, 1, 1}, Message: "no such user"}},
		FirstAttempt: now, LastAttempt: now}
	hdr := textproto.Header{}
	hdr.Add("Subject", "verif")
	q.emitDSN(qm, hdr, []string{rcpt})
	obs := "fails"
	if len(capt.blobs) == 1 {
		rf := "none"
		if v := c01Field(capt.blobs[0], "Received-From-MTA"); v != "" {
			rf = vh.HexRunes(v)
		}
		obs = "ok rm=" + vh.HexRunes(c01Field(capt.blobs[0], "Reporting-MTA")) + " rf=" + rf
	} else {
		out.Violation("C01/report-cannot-be-generated", op, fmt.Sprintf("%d reports for a failed recipient of a message from client %q (traced %v) on server %q", len(capt.blobs), toks[3], !meta.DontTraceSender, q.hostname))
	}
	out.Corr(op, obs)
	out.Stat("names." + strings.Fields(obs)[0] + ".utf8-" + toks[2])
	if toks[5] == "!" || toks[6] == "!" {
		out.Stat("names.inconvertible." + map[bool]string{true: "server", false: "client"}[toks[5] == "!"])
	}
}

func TestVerifC01Names(t *testing.T) {
	out := vh.Open("c01_names")
	defer out.Close()
	log.DefaultLogger.Out = log.NopOutput{}
	if ops := vh.Replay(); ops != nil {
		for _, op := range ops {
			if strings.HasPrefix(op, "C01 names ") {
				c01Names(out, op)
			}
		}
		return
	}
	for _, utf8 := range []bool{false, true} {
		for h := range c01Hosts {
			c01Names(out, c01NamesOp(utf8, -1, false, h))
		}
		for k := range c01Conns {
			c01Names(out, c01NamesOp(utf8, k, true, 0))
			c01Names(out, c01NamesOp(utf8, k, false, 0))
			c01Names(out, c01NamesOp(utf8, k, true, 1+k%(len(c01Hosts)-1)))
		}
	}
}

// c01GenForms draws the X= token: 2-6 forms; the first one is from the cells that matter most (a
// reply whose basic and enhanced codes disagree in class, or whose enhanced code is odd / absent).
func c01GenForms(r *vh.Rng, i int) string {
	hot := []string{"S4", "S5", "F4", "F5", "S0", "S1", "S9", "Sm", "Sk", "Sn", "S2", "E4", "E5", "P4", "P5", "P1", "Y4", "Y5", "M0", "F1"}
	var b strings.Builder
	b.WriteString(hot[i%len(hot)])
	for n := 1 + r.Intn(5); n > 0; n-- {
		if r.Chance(40) {
			b.WriteString(hot[r.Intn(len(hot))])
			continue
		}
		b.WriteByte(c01Shapes[r.Intn(len(c01Shapes))])
		b.WriteByte(c01Styles[r.Intn(len(c01Styles))])
	}
	return b.String()
}

func TestVerifC01(t *testing.T) {
	out := vh.Open("c01")
	defer out.Close()
	dontRecover = false
	log.DefaultLogger.Out = log.NopOutput{}
	c01CheckForms(t)
	if ops := vh.Replay(); ops != nil {
		for _, op := range ops {
			if strings.HasPrefix(op, "C01 run") {
				c01Run(out, op, 1)
			}
		}
		return
	}
	r := vh.NewRng(vh.Seed() + 101)
	rv := vh.NewRng(vh.Seed() + 1101) // the V= dimension draws from its own stream
	n := vh.N(600)
	type job struct {
		op   string
		seed uint64
	}
	jobs := make(chan job, 64)
	var wg sync.WaitGroup
	for w := 0; w < 12; w++ {
		wg.Add(1)
		go func() {
			defer wg.Done()
			for j := range jobs {
				c01Run(out, j.op, j.seed)
			}
		}()
	}
	for i := 0; i < n; i++ {
		nr := 1 + r.Intn(4)
		perm := []int{1, 2, 3, 4, 5, 6}
		for j := range perm {
			k := j + r.Intn(len(perm)-j)
			perm[j], perm[k] = perm[k], perm[j]
		}
		rc := perm[:nr]
		spellings := r.Chance(35)
		if spellings {
			// several spellings of one mailbox (2-4 recipients) and up to two other recipients,
			// themselves any spelling of their mailbox; any order
			vs := []int{0, 1, 2, 3}
			for j := range vs {
				k := j + r.Intn(len(vs)-j)
				vs[j], vs[k] = vs[k], vs[j]
			}
			rc = nil
			for _, v := range vs[:2+r.Intn(3)] {
				rc = append(rc, perm[0]+6*v)
			}
			for _, b := range perm[1 : 1+r.Intn(3)] {
				rc = append(rc, b+6*r.Intn(4))
			}
			for j := range rc {
				k := j + r.Intn(len(rc)-j)
				rc[j], rc[k] = rc[k], rc[j]
			}
			nr = len(rc)
		}
		// every 8th case each: a history with restarts whose next attempt fails for somebody (mode 3);
		// a failure report whose only non-ASCII part is the address the client named (mode 6)
		mode := i % 8
		asciiLocal := false // every recipient has an ASCII local part
		if mode == 6 || mode == 0 || (mode != 3 && !spellings && r.Chance(25)) {
			// ASCII recipients (the A-label spellings of the IDN mailboxes included), or at least ASCII local parts
			pool := []int{3, 4, 9, 10, 15, 16, 21, 22, 1, 13, 18}
			if mode != 6 && mode != 0 && r.Chance(50) {
				pool = []int{1, 7, 13, 19, 3, 9, 4, 16, 6, 12, 18, 24}
			}
			for j := range pool {
				k := j + r.Intn(len(pool)-j)
				pool[j], pool[k] = pool[k], pool[j]
			}
			nr = 1 + r.Intn(3)
			rc = pool[:nr]
			asciiLocal = true
		}
		var rs []string
		for _, x := range rc {
			rs = append(rs, strconv.Itoa(x))
		}
		maxTries := 1 + r.Intn(4)
		faulty := []int{10, 30, 60, 90}[r.Intn(4)]
		if spellings {
			faulty = []int{30, 50}[r.Intn(2)] // different outcomes for the spellings of one mailbox
		}
		if mode == 3 || mode == 6 {
			faulty = []int{30, 60, 90}[r.Intn(3)]
		}
		var plans []string
		for a := 0; a < maxTries; a++ {
			plans = append(plans, c01GenPlan(r, nr, faulty))
		}
		kind := r.Pick("a", "p")
		dsn := "1"
		if r.Chance(15) && mode != 6 && mode != 1 && mode != 4 && mode != 0 {
			dsn = "0"
		}
		// every 8th case (mode 2): an address is listed twice (three times) in the envelope, identical
		// spelling, most often FOLLOWED by other recipients; everybody is accepted in the first attempt
		// and then all / some / the others fail at the body stage (sub-mode), for both target kinds
		dupMode := mode == 2
		if dupMode {
			nb := 1 + r.Intn(3)
			base := []int{}
			for _, b := range perm[:nb] {
				base = append(base, b+6*r.Intn(4))
			}
			rc = append([]int{}, base...)
			copies := 1
			if r.Chance(15) {
				copies = 2
			}
			for c := 0; c < copies; c++ {
				// after the first occurrence of base[0] (position 0), before the others in most cases
				at := 1 + c
				if r.Chance(30) {
					at = 1 + r.Intn(len(rc))
				}
				rc = append(rc[:at], append([]int{base[0]}, rc[at:]...)...)
			}
			nr = len(rc)
			rs = nil
			for _, x := range rc {
				rs = append(rs, strconv.Itoa(x))
			}
			if maxTries == 1 && r.Chance(70) {
				maxTries = 2
			}
			kind = string("ap"[(i/32)%2])
			sub := (i / 8) % 4
			plans = nil
			for a := 0; a < maxTries; a++ {
				f := strings.Split(c01GenPlan(r, nr, faulty), "/")
				rcs, brc := []byte(f[1]), []byte(f[3])
				if a == 0 && sub != 3 {
					f[0], f[2], f[4] = "o", "o", "o"
					for j := range rcs {
						rcs[j], brc[j] = 'o', 'o'
					}
					fail := "tpu"[r.Intn(3)]
					switch {
					case sub == 0 && kind == "a":
						f[2] = string(fail)
					case sub == 0:
						for j := range brc {
							brc[j] = "tpu"[r.Intn(3)]
						}
					case kind == "a":
						f[4] = string(fail)
					case sub == 1:
						brc[0] = fail // the repeated address fails, the others do not
					default:
						for j := range brc {
							if rc[j] != base[0] {
								brc[j] = "tpu"[r.Intn(3)]
							}
						}
					}
				}
				first := map[int]int{}
				for j, x := range rc {
					if k, seen := first[x]; seen {
						rcs[j], brc[j] = rcs[k], brc[k]
					} else {
						first[x] = j
					}
				}
				f[1], f[3] = string(rcs), string(brc)
				plans = append(plans, strings.Join(f, "/"))
			}
		}
		// every 8th case (mode 7): a per-recipient target files failures under addresses that are NOT in
		// the envelope (unrelated / the converted spelling of a recipient / its other-case form) beside
		// one real failure; the other recipients are delivered in that attempt
		foreignTok := ""
		if mode == 7 && !spellings && (nr >= 2 || !asciiLocal) {
			kind = "p"
			if nr < 2 {
				nr = 2
				rc = perm[:2]
				rs = []string{strconv.Itoa(rc[0]), strconv.Itoa(rc[1])}
				plans = nil
				for a := 0; a < maxTries; a++ {
					plans = append(plans, c01GenPlan(r, nr, faulty))
				}
			}
			f := strings.Split(plans[0], "/")
			rcs, brc := []byte(strings.Repeat("o", nr)), []byte(strings.Repeat("o", nr))
			j := r.Intn(nr)
			if r.Chance(50) {
				rcs[j] = "tpu"[r.Intn(3)]
			} else {
				brc[j] = "tpu"[r.Intn(3)]
			}
			plans[0] = strings.Join([]string{"o", string(rcs), "o", string(brc), f[4]}, "/")
			var fs []string
			for n := 0; n < nr-1; n++ {
				fs = append(fs, "0"+string("xck"[(i/8+n)%3])+string("tpu"[r.Intn(3)]))
			}
			foreignTok = " F=" + strings.Join(fs, ".")
		} else if kind == "p" && r.Chance(10) {
			foreignTok = fmt.Sprintf(" F=%d%c%c", r.Intn(maxTries), "xck"[r.Intn(3)], "tpu"[r.Intn(3)])
		}
		// the header of the queued message: every 8th case (mode 4) walks the table while somebody fails
		// for good in the first attempt of a message with a return path; 30 % of the others get a random one
		headerTok := ""
		if mode == 4 {
			headerTok = fmt.Sprintf(" H=%d", 1+(i/8)%(len(c01Headers)-1))
			if !strings.Contains(plans[0], "p") {
				f := strings.Split(plans[0], "/")
				rcs := []byte(f[1])
				rcs[0] = 'p'
				for j, x := range rc {
					if x == rc[0] {
						rcs[j] = 'p'
					}
				}
				f[0], f[1] = "o", string(rcs)
				plans[0] = strings.Join(f, "/")
			}
		} else if r.Chance(30) {
			headerTok = fmt.Sprintf(" H=%d", r.Intn(len(c01Headers)))
		}
		// the connection the message was submitted over and the configured name of the server: every 8th
		// case (mode 0) walks the table of client names (traced in three of four) - every third of them
		// the table of server names as well - while somebody fails for good in the FIRST attempt of a
		// message with a return path, on the instance that accepted it (no restart before: the spool copy
		// has no ConnState), six of seven messages without SMTPUTF8 (names are converted to A-labels);
		// 25 % / 15 % of the other cases get a random client / server name
		connTok := ""
		if mode == 0 {
			connTok = fmt.Sprintf(" C=%d%c", (i/8)%len(c01Conns), "tttn"[(i/8/len(c01Conns)+i/8)%4])
			if (i/8)%3 == 0 {
				connTok += fmt.Sprintf(" Q=%d", (i/24)%len(c01Hosts))
			}
			f := strings.Split(plans[0], "/")
			if !strings.Contains(f[1], "p") || f[0] != "o" {
				rcs := []byte(f[1])
				rcs[r.Intn(nr)] = 'p'
				f[0], f[1] = "o", string(rcs)
				plans[0] = strings.Join(f, "/")
			}
		} else {
			if r.Chance(25) {
				connTok = fmt.Sprintf(" C=%d%c", r.Intn(len(c01Conns)), "ttn"[r.Intn(3)])
			}
			if r.Chance(15) {
				connTok += fmt.Sprintf(" Q=%d", r.Intn(len(c01Hosts)))
			}
		}
		// restarts
		ext := ""
		if mode == 3 || (mode != 0 && r.Chance(20)) {
			var ks []string
			for k := 0; k < maxTries; k++ {
				pr := 35
				if k == 0 {
					pr = 60
				}
				if r.Chance(pr) {
					ks = append(ks, strconv.Itoa(k))
					if r.Chance(10) {
						ks = append(ks, strconv.Itoa(k))
					}
				}
			}
			if len(ks) == 0 {
				ks = []string{"0"}
			}
			ext = " R=" + strings.Join(ks, ".")
			if mode == 3 {
				// somebody fails in the first attempt after the first restart
				k0, _ := strconv.Atoi(ks[0])
				f := strings.Split(plans[k0], "/")
				if !strings.ContainsAny(plans[k0], "tpu") {
					f[1] = string("tpu"[r.Intn(3)]) + f[1][1:]
					plans[k0] = strings.Join(f, "/")
				}
			}
		}
		// the spool entry as another build left it (V=): every 8th case (mode 3) walks the forms, alone
		// and in pairs, at the first restart - the one somebody fails after; 40 % of the other histories
		// with restarts get random forms at a random restart
		otherTok := ""
		if strings.HasPrefix(ext, " R=") {
			ks := strings.Split(ext[3:], ".")
			if mode == 3 {
				j := i / 8
				forms := string(c01MetaForms[j%len(c01MetaForms)])
				if j%3 == 2 {
					forms += string(c01MetaForms[(j/3)%len(c01MetaForms)])
				}
				otherTok = " V=" + ks[0] + forms
			} else if rv.Chance(40) {
				forms := ""
				for n := 1 + rv.Intn(3); n > 0; n-- {
					forms += string(c01MetaForms[rv.Intn(len(c01MetaForms))])
				}
				otherTok = " V=" + ks[rv.Intn(len(ks))] + forms
			}
		}
		// envelope: SMTPUTF8 or not, shape of the return path, addresses the client named
		if !dupMode && (mode == 6 || asciiLocal || r.Chance(20)) {
			utf8 := "1"
			if asciiLocal && mode != 6 && r.Chance(50) || mode == 0 && (i/8)%7 != 6 {
				utf8 = "0"
			}
			shapes := "aanimj"
			if utf8 == "0" {
				shapes = "aaij"
			}
			sender := shapes[r.Intn(len(shapes))]
			orig := make([]byte, nr)
			for j := range orig {
				orig[j] = '-'
				if r.Chance(60) {
					orig[j] = shapes[r.Intn(len(shapes))]
				}
			}
			if mode == 6 {
				// everything but one named address is ASCII; the recipient named by it fails for good in
				// the first attempt, alone or with others
				sender = 'a'
				for j := range orig {
					orig[j] = "-a"[r.Intn(2)]
				}
				j := r.Intn(nr)
				orig[j] = "nnmi"[(i/8)%4]
				f := strings.Split(plans[0], "/")
				if r.Chance(50) {
					f[0] = "o"
					rcs := []byte(f[1])
					rcs[j] = 'p'
					f[1] = string(rcs)
				} else {
					f[0] = "p"
				}
				plans[0] = strings.Join(f, "/")
			}
			if ext == "" {
				ext = " R=-"
			}
			ext += " E=" + utf8 + string(sender) + string(orig)
		}
		// transient read faults: every 8th case (mode 5) has more than one attempt (somebody fails
		// temporarily in the first one) and a read of the entry that fails once before the retry;
		// 8 % of the other cases get a random one
		if (mode == 5 && !spellings) || r.Chance(8) {
			if mode == 5 {
				if maxTries == 1 {
					maxTries = 2
					plans = append(plans, c01GenPlan(r, nr, faulty))
				}
				f := strings.Split(plans[0], "/")
				rcs := []byte(f[1])
				rcs[r.Intn(nr)] = "tu"[r.Intn(2)]
				f[0], f[1] = "o", string(rcs)
				plans[0] = strings.Join(f, "/")
			}
			var fs []string
			for k := 1; k < maxTries; k++ {
				if k == 1 && mode == 5 || r.Chance(30) {
					fs = append(fs, strconv.Itoa(k)+string("hhmd"[(i/8+k)%4]))
					if r.Chance(15) {
						fs = append(fs, strconv.Itoa(k)+string("hmd"[r.Intn(3)]))
					}
				}
			}
			if strings.HasPrefix(ext, " R=0") && r.Chance(40) {
				fs = append([]string{"0" + string("hmd"[r.Intn(3)])}, fs...)
			}
			if len(fs) > 0 {
				if ext == "" {
					ext = " R=-"
				}
				ext += " T=" + strings.Join(fs, ".")
			}
		}
		// how the failures are spelled: every 8th case (mode 1) walks the error grid - the case has a
		// bounce route and somebody fails in the first attempt (alternately for good / for now), so that
		// the form decides between a retry and a report; 25 % of the other cases get random forms
		if mode == 1 || r.Chance(25) {
			if mode == 1 {
				if !strings.ContainsAny(plans[0], "tp") {
					f := strings.Split(plans[0], "/")
					rcs := []byte(f[1])
					rcs[0] = "pt"[(i/8)%2]
					f[0], f[1] = "o", string(rcs)
					plans[0] = strings.Join(f, "/")
				}
			}
			if ext == "" {
				ext = " R=-"
			}
			ext += " X=" + c01GenForms(r, i/8)
		}
		if foreignTok+headerTok+connTok != "" {
			if ext == "" {
				ext = " R=-"
			}
			ext += headerTok + foreignTok + connTok
		}
		ext += otherTok
		op := fmt.Sprintf("C01 run %d %s %s %s %s%s", maxTries, kind, dsn, strings.Join(rs, ","), strings.Join(plans, ";"), ext)
		jobs <- job{op, r.Next()}
	}
	close(jobs)
	wg.Wait()
	_ = sort.Strings
}
