package queue

import (
	"context"
	"fmt"
	"os"
	"strconv"
	"strings"
	"testing"
	"time"

	"github.com/emersion/go-message/textproto"
	"github.com/emersion/go-smtp"
	"github.com/foxcpp/maddy/framework/address"
	"github.com/foxcpp/maddy/framework/buffer"
	"github.com/foxcpp/maddy/framework/log"
	"github.com/foxcpp/maddy/framework/module"
	smtp_downstream "github.com/foxcpp/maddy/internal/target/smtp"
	"github.com/foxcpp/maddy/internal/verifshim/vh"
	"github.com/foxcpp/maddy/internal/verifshim/vsmtp"
)

// op: C01 outcomes <maxTries> p 1 <ids> <plans> # lmtp <utf8> <forms> <drops>
//   plans as in "C01 run": rcpt class p/t = 550/450 to RCPT; per-recipient body status o/t/p =
//   250/452/552 after the final dot; 'u' = the server dropped the connection before answering
//   for this recipient (drops = per attempt, number of statuses sent before the drop, '-' = all)
func c01lRun(t *testing.T, out *vh.Out, op string) {
	toks := strings.Fields(op)
	maxTries, _ := strconv.Atoi(toks[2])
	var ids []int
	for _, s := range strings.Split(toks[5], ",") {
		v, _ := strconv.Atoi(s)
		ids = append(ids, v)
	}
	plans := strings.Split(toks[6], ";")
	utf8 := toks[9] == "1"
	forms := toks[10]
	drops := strings.Split(toks[11], ",")

	// other test processes run on this machine: a port that was free a moment ago may be somebody's
	// source port by now, so ask again instead of giving up (a harness failure hides the case)
	var port string
	var raw *vsmtp.RawLMTP
	var err error
	for try := 0; try < 50; try++ {
		port = vsmtp.FreePort()
		if raw, err = vsmtp.StartRawLMTP("127.0.0.1:" + port); err == nil {
			break
		}
	}
	if err != nil {
		t.Fatal(err)
	}
	defer raw.Close()
	raw.UTF8 = utf8
	tgt := smtp_downstream.VerifNewLMTP(port)

	addrs := map[int]string{}
	keyToID := map[string]int{}
	for i, id := range ids {
		a := c01rAddr(id, forms[i])
		addrs[id] = a
		k, _ := address.ForLookup(a)
		keyToID[k] = id
	}
	attempt := 0
	install := func(k int) {
		raw.Set(func(r *vsmtp.RawLMTP) {
			r.RejectRcpt = map[string]int{}
			r.StatusCodes = nil
			r.StatusByKey = map[string]int{}
			r.SendStatuses = -1
			if k >= len(plans) {
				return
			}
			f := strings.Split(plans[k], "/")
			for i, id := range ids {
				kk, _ := address.ForLookup(addrs[id])
				switch f[1][i] {
				case 'p':
					r.RejectRcpt[kk] = 550
				case 't':
					r.RejectRcpt[kk] = 450
				}
				switch f[3][i] {
				case 't':
					r.StatusByKey[kk] = 452
				case 'p':
					r.StatusByKey[kk] = 552
				default:
					r.StatusByKey[kk] = 250
				}
			}
			if k < len(drops) && drops[k] != "-" {
				r.SendStatuses, _ = strconv.Atoi(drops[k])
			}
		})
	}
	install(0)

	var events []string
	dir, _ := os.MkdirTemp("", "verif-c01l-")
	defer os.RemoveAll(dir)
	mod, _ := NewQueue("", "queue", nil, nil)
	q := mod.(*Queue)
	q.initialRetryTime = 0
	q.retryTimeScale = 1
	q.postInitDelay = 0
	q.maxTries = maxTries
	q.location = dir
	q.hostname = "mx.example.org"
	q.autogenMsgDomain = "example.org"
	q.Log = log.Logger{Out: log.NopOutput{}}
	q.Target = &c01rTarget{inner: tgt, onStart: func() { install(attempt); attempt++ }}
	bt := &c01Target{addrIdx: map[string]int{}, log: &events, rng: vh.NewRng(1)}
	for id, a := range addrs {
		bt.addrIdx[a] = id
	}
	q.dsnPipeline = &c01Bounce{t: bt}
	if err := q.start(1); err != nil {
		t.Fatal(err)
	}
	id, _ := module.GenerateMsgID()
	meta := &module.MsgMetadata{ID: id, OriginalFrom: "sender@example.com", DontTraceSender: true, SMTPOpts: smtp.MailOptions{UTF8: true}}
	ctx := context.Background()
	d, _ := q.Start(ctx, meta, "sender@example.com")
	for _, i := range ids {
		d.AddRcpt(ctx, addrs[i], smtp.RcptOptions{})
	}
	hdr := textproto.Header{}
	hdr.Add("Subject", "verif")
	if err := d.Body(ctx, hdr, buffer.MemoryBuffer{Slice: []byte("hello\r\n")}); err != nil {
		t.Fatal(err)
	}
	d.Commit(ctx)
	deadline := time.Now().Add(30 * time.Second)
	removed := false
	for time.Now().Before(deadline) {
		ents, _ := os.ReadDir(dir)
		if len(ents) == 0 {
			removed = true
			break
		}
		time.Sleep(500 * time.Microsecond)
	}
	q.Close()

	commits := map[int]int{}
	raw.Set(func(r *vsmtp.RawLMTP) {
		for _, a := range r.Delivered {
			k, _ := address.ForLookup(a)
			commits[keyToID[k]]++
		}
	})
	reports := map[int]int{}
	bt.mu.Lock()
	for _, e := range events {
		if strings.HasPrefix(e, "report:") {
			for _, r := range strings.Split(e[len("report:"):], ",") {
				v, _ := strconv.Atoi(r)
				reports[v]++
			}
		}
	}
	bt.mu.Unlock()
	var cs, rps []string
	for _, i := range ids {
		cs = append(cs, fmt.Sprintf("%d=%d", i, commits[i]))
		rps = append(rps, fmt.Sprintf("%d=%d", i, reports[i]))
	}
	obs := "c:" + strings.Join(cs, ",") + " r:" + strings.Join(rps, ",")
	if removed {
		obs += " removed"
	} else {
		obs += " NOT-REMOVED"
	}
	out.Corr(op, obs)
	for _, i := range ids {
		c, rp := commits[i], reports[i]
		if !((c == 1 && rp == 0) || (c == 0 && rp == 1)) {
			sig := "C01/lmtp-outcome"
			switch {
			case c == 0 && rp == 0:
				sig = "C01/lmtp-recipient-lost"
			case c > 1:
				sig = "C01/lmtp-delivered-twice"
			case c >= 1 && rp >= 1:
				sig = "C01/lmtp-delivered-and-reported"
			}
			out.Violation(sig, op, fmt.Sprintf("rcpt %d (%s): LMTP server delivered it %d times, reported %d times; %s", i, addrs[i], c, rp, obs))
		}
	}
	if !removed {
		out.Violation("C01/lmtp-not-terminated", op, obs)
	}
	out.Stat("lmtp.utf8." + toks[9])
	out.StatN("lmtp.rcpts", len(ids))
}

func TestVerifC01LMTP(t *testing.T) {
	out := vh.Open("c01_lmtp")
	defer out.Close()
	if ops := vh.Replay(); ops != nil {
		for _, op := range ops {
			if strings.HasPrefix(op, "C01 outcomes") && strings.Contains(op, "# lmtp ") {
				c01lRun(t, out, op)
			}
		}
		return
	}
	r := vh.NewRng(vh.Seed() + 121)
	n := vh.N(600) / 6
	for i := 0; i < n; i++ {
		nr := 1 + r.Intn(3)
		utf8 := r.Intn(2)
		var ids []string
		forms := ""
		for j := 1; j <= nr; j++ {
			ids = append(ids, strconv.Itoa(j))
			forms += string("aaiilu"[r.Intn(6)])
		}
		maxTries := 1 + r.Intn(3)
		var plans, drops []string
		pending := make([]bool, nr) // model-independent: just generate a plan for all recipients each attempt
		_ = pending
		for a := 0; a < maxTries; a++ {
			rc := ""
			nacc := 0
			for j := 0; j < nr; j++ {
				c := byte('o')
				if forms[j] == 'l' && utf8 == 0 {
					c = 'p'
				} else if r.Chance(20) {
					c = "tp"[r.Intn(2)]
				}
				if c == 'o' {
					nacc++
				}
				rc += string(c)
			}
			brc := []byte(strings.Repeat("o", nr))
			for j := 0; j < nr; j++ {
				if r.Chance(25) {
					brc[j] = "tp"[r.Intn(2)]
				}
			}
			// NOTE: which recipients take part in attempt a depends on earlier attempts, so a
			// drop position is only meaningful for the first attempt (all recipients present)
			drop := "-"
			if a == 0 && nacc > 0 && r.Chance(35) {
				k := r.Intn(nacc)
				drop = strconv.Itoa(k)
				seen := 0
				for j := 0; j < nr; j++ {
					if rc[j] == 'o' {
						if seen >= k {
							brc[j] = 'u'
						}
						seen++
					}
				}
			}
			plans = append(plans, fmt.Sprintf("o/%s/o/%s/o", rc, string(brc)))
			drops = append(drops, drop)
		}
		op := fmt.Sprintf("C01 outcomes %d p 1 %s %s # lmtp %d %s %s", maxTries, strings.Join(ids, ","), strings.Join(plans, ";"), utf8, forms, strings.Join(drops, ","))
		c01lRun(t, out, op)
	}
}
