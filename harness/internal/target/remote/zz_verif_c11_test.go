package remote

import (
	"context"
	"crypto/tls"
	"errors"
	"fmt"
	"io"
	"net"
	"os"
	"sort"
	"strconv"
	"strings"
	"sync"
	"sync/atomic"
	"syscall"
	"testing"
	"time"

	"github.com/emersion/go-message/textproto"
	"github.com/emersion/go-smtp"
	"github.com/foxcpp/go-mockdns"
	"github.com/foxcpp/maddy/framework/buffer"
	"github.com/foxcpp/maddy/framework/exterrors"
	"github.com/foxcpp/maddy/framework/module"
	"github.com/foxcpp/maddy/internal/limits"
	"github.com/foxcpp/maddy/internal/verifshim/vh"
	"github.com/foxcpp/maddy/internal/verifshim/vlim"
)

// Key spelling: source addresses (msgMeta.Conn.RemoteAddr) are ids of the table in vlim (IPv4 id x = 127.0.0.x;
// IPv6, IPv4-mapped, ...), the bucket key the code derives from each is observed (c11rKeys). Sender and recipient
// domains are SPELLING ids of the table in vlim (vlim.Dom: d<n>.example, U-label / A-label / other case / trailing
// dot / NFD spellings of internationalised domains; 500+ have no reachable MX); the keys the target derives from
// each spelling at every place are observed as well (c11Dk).
func c11rV4(id int) net.IP { return net.IPv4(127, 0, byte(id/256), byte(id%256)) }

var c11rKeys = vlim.NewIPKeys(c11rV4)

func c11rKeyID(scope int, k string) int {
	if scope == 1 {
		return c11rKeys.KeyID(k)
	}
	if k == "" {
		return 0
	}
	return c11Dk.keyID(k)
}

func c11rDom(id int) string { return vlim.Dom(id) }

// ---- the keys the remote target derives from a domain spelling (strengthening round 7) ----
//
// For every spelling of the table, once per test process, on the real target with a real limits.Group
// (source / destination concurrency 64) in which a helper holds one permit of EVERY candidate key (all spellings
// of the table and their usual normalisations), so that a release under any of them is visible:
//   - Start(sender@<spelling>): the source bucket that gained a user = src key; Abort: the one that lost a
//     user = srcRel key;
//   - AddRcpt(rcpt@<spelling>) accepted: the destination bucket that gained a user = take key, the new key of
//     rd.connections = conn key; Abort: the bucket that lost a user = close key;
//   - AddRcpt(rcpt@<spelling>) with MAIL refused by the next hop: the bucket that is left with one user less
//     than after the take = undo key.
//
// Key ids: the smallest spelling id with the same string; 7000+x = a normalisation of spelling x that is not
// itself a table spelling; 5000+x / 6000+x = no bucket changed (undo / close, srcRel: the release went to a key
// nobody holds, or did not happen). The law "what is released is released under the key it was taken under"
// (RemKeys.Lawful of the lifecycle theorems) is the monitor C11/key-law.
type c11DkEnt struct {
	conn, take, undo, close, src, srcRel int
	note                                 string
}

type c11DomKeys struct {
	once  sync.Once
	ent   map[int]c11DkEnt
	byStr map[string]int
}

var c11Dk = &c11DomKeys{}

func (k *c11DomKeys) keyID(s string) int {
	if id, ok := k.byStr[s]; ok {
		return id
	}
	return 8000
}

func c11Diff(before, after map[string]int) (up, down []string) {
	for s, u := range after {
		if u > before[s] {
			up = append(up, s)
		} else if u < before[s] {
			down = append(down, s)
		}
	}
	for s, u := range before {
		if _, ok := after[s]; !ok && u > 0 {
			down = append(down, s)
		}
	}
	return
}

func (k *c11DomKeys) probe(t *testing.T, id int) (e c11DkEnt) {
	e = c11DkEnt{id, id, id, id, id, id, ""}
	defer func() {
		if r := recover(); r != nil {
			e.note += fmt.Sprintf(" panic while probing: %v;", r)
		}
	}()
	s := vlim.Dom(id)
	var cfg vlim.Cfg
	cfg.Scopes[2] = []vlim.Lim{{Sem: true, N: 64}}
	cfg.Scopes[3] = []vlim.Lim{{Sem: true, N: 64}}
	cfg.Reap, cfg.MaxB = 3600, 20010
	g, p, err := vlim.NewGroup(cfg)
	if p != nil || err != nil {
		e.note = fmt.Sprintf("probe group: %v %v", p, err)
		return e
	}
	defer vlim.CloseGroup(g)
	tgt := c11Target(t, g)
	defer tgt.Close()
	be := c11Server(t)
	ctx, cancel := context.WithTimeout(context.Background(), 30*time.Second)
	defer cancel()
	helper := net.IPv4(192, 0, 2, 250)
	for _, c := range c11DkCands {
		if err := g.TakeMsg(ctx, helper, c); err != nil {
			e.note += " helper TakeMsg failed: " + err.Error() + ";"
			return e
		}
		if err := g.TakeDest(ctx, c); err != nil {
			e.note += " helper TakeDest failed: " + err.Error() + ";"
			return e
		}
	}
	meta := func() *module.MsgMetadata {
		return &module.MsgMetadata{ID: "c11-probe", DontTraceSender: true,
			Conn: &module.ConnState{RemoteAddr: &net.TCPAddr{IP: net.IPv4(127, 0, 0, 1), Port: 1234}}}
	}
	one := func(l []string) (string, bool) {
		if len(l) == 1 {
			return l[0], true
		}
		return "", false
	}
	name := func(str string) int {
		if x, ok := k.byStr[str]; ok {
			return x
		}
		k.byStr[str] = 7000 + id
		return 7000 + id
	}

	// sender side: Start / Abort
	b0 := vlim.SetUsers(g, "source")
	d, err := tgt.Start(ctx, meta(), "sender@"+s)
	if err != nil {
		e.note += " Start failed: " + err.Error() + ";"
	} else {
		b1 := vlim.SetUsers(g, "source")
		up, _ := c11Diff(b0, b1)
		if str, ok := one(up); ok {
			e.src = name(str)
		} else {
			e.note += fmt.Sprintf(" Start(sender@%s): source buckets that gained a user: %q;", s, up)
		}
		d.Abort(ctx)
		_, down := c11Diff(b1, vlim.SetUsers(g, "source"))
		if str, ok := one(down); ok {
			e.srcRel = name(str)
		} else {
			e.srcRel = 6000 + id
		}
		if e.srcRel != e.src {
			e.note += fmt.Sprintf(" Close gave the source permit of sender@%s back under another key than Start took it under (source buckets that lost a user: %q, taken: %q);", s, down, up)
		}
	}
	if !vlim.DomReachable(id) {
		return e
	}

	// recipient side: AddRcpt accepted / Abort
	be.mailMode.Store(c11OK)
	be.connMode.Store(c11OK)
	be.rejectRcpt.Store(false)
	d, err = tgt.Start(ctx, meta(), "sender@probe.example")
	if err != nil {
		e.note += " Start failed: " + err.Error() + ";"
		return e
	}
	b0 = vlim.SetUsers(g, "dest")
	err = d.AddRcpt(ctx, "rcpt@"+s, smtp.RcptOptions{})
	b1 := vlim.SetUsers(g, "dest")
	up, _ := c11Diff(b0, b1)
	if err != nil {
		e.note += fmt.Sprintf(" AddRcpt(rcpt@%s) failed: %v;", s, err)
	}
	if rd, ok := d.(*remoteDelivery); ok && len(rd.connections) == 1 {
		for ck := range rd.connections {
			e.conn = name(ck)
		}
	}
	if str, ok := one(up); ok {
		e.take = name(str)
	} else if err == nil {
		e.note += fmt.Sprintf(" AddRcpt(rcpt@%s): destination buckets that gained a user: %q;", s, up)
	}
	d.Abort(ctx)
	_, down := c11Diff(b1, vlim.SetUsers(g, "dest"))
	if str, ok := one(down); ok {
		e.close = name(str)
	} else {
		e.close = 6000 + id
	}
	if e.close != e.take && len(up) > 0 {
		e.note += fmt.Sprintf(" Close gave the destination permit of rcpt@%s back under another key than connectionForDomain took it under (destination buckets that lost a user: %q, taken: %q);", s, down, up)
	} else if len(up) == 0 {
		e.close = e.take
	}

	// recipient side: MAIL refused after TakeDest
	d, err = tgt.Start(ctx, meta(), "sender@probe.example")
	if err != nil {
		e.note += " Start failed: " + err.Error() + ";"
		return e
	}
	be.mailMode.Store(c11Rej)
	b0 = vlim.SetUsers(g, "dest")
	err = d.AddRcpt(ctx, "rcpt@"+s, smtp.RcptOptions{})
	be.mailMode.Store(c11OK)
	b1 = vlim.SetUsers(g, "dest")
	up, down = c11Diff(b0, b1)
	e.undo = e.take
	switch {
	case err == nil:
		e.note += " AddRcpt succeeded although the next hop refuses MAIL;"
	case len(up) == 0 && len(down) == 0:
	case len(up) == 1 && len(down) == 1:
		e.undo = name(down[0])
	default:
		e.undo = 5000 + id
	}
	if e.undo != e.take {
		e.note += fmt.Sprintf(" MAIL refused for rcpt@%s: the destination permit was not given back under the key it was taken under (buckets with a user more: %q, less: %q);", s, up, down)
	}
	d.Abort(ctx)
	return e
}

var c11DkCands []string

// Probe observes every spelling of the table once (idempotent).
func (k *c11DomKeys) Probe(t *testing.T) {
	k.once.Do(func() {
		k.ent, k.byStr = map[int]c11DkEnt{}, map[string]int{}
		seen := map[string]bool{}
		for _, id := range vlim.AllDomIDs() {
			if _, ok := k.byStr[vlim.Dom(id)]; !ok {
				k.byStr[vlim.Dom(id)] = id
			}
			for _, f := range vlim.DomForms(id) {
				if !seen[f] {
					seen[f] = true
					c11DkCands = append(c11DkCands, f)
				}
			}
		}
		k.byStr["probe.example"] = 8001
		for _, id := range vlim.AllDomIDs() {
			for _, f := range vlim.DomForms(id) {
				if _, ok := k.byStr[f]; !ok {
					k.byStr[f] = 7000 + id
				}
			}
		}
		for _, id := range vlim.AllDomIDs() {
			k.ent[id] = k.probe(t, id)
		}
	})
}

func (k *c11DomKeys) Entry(id int) c11DkEnt {
	if e, ok := k.ent[id]; ok {
		return e
	}
	return c11DkEnt{id, id, id, id, id, id, ""}
}

// Unlawful: how the key law is broken for the spelling ("" = every release was observed under the key of the take).
func (k *c11DomKeys) Unlawful(id int) string {
	e := k.Entry(id)
	if e.undo == e.take && e.close == e.take && e.srcRel == e.src {
		return ""
	}
	return strings.TrimSpace(e.note)
}

// Tokens: the j.<spelling>.<conn>.<take>.<undo>.<close>.<src>.<srcRel> tokens of the spellings (only where not
// the identity), sorted.
func (k *c11DomKeys) Tokens(ids []int) []string {
	ids = append([]int{}, ids...)
	sort.Ints(ids)
	var out []string
	last := -1
	for _, id := range ids {
		if id == last {
			continue
		}
		last = id
		e := k.Entry(id)
		if e.conn != id || e.take != id || e.undo != id || e.close != id || e.src != id || e.srcRel != id {
			out = append(out, fmt.Sprintf("j.%d.%d.%d.%d.%d.%d.%d", id, e.conn, e.take, e.undo, e.close, e.src, e.srcRel))
		}
	}
	return out
}

// c11DomLaw reports the spellings of the ops for which a release was observed under another key than the take.
func c11DomLaw(out *vh.Out, opl string, ops []string) {
	seen := map[int]bool{}
	for _, id := range c11OpDoms(ops) {
		if seen[id] {
			continue
		}
		seen[id] = true
		if d := c11Dk.Unlawful(id); d != "" {
			out.Violation("C11/key-law", opl, fmt.Sprintf("domain spelling %d (%q): %s", id, vlim.Dom(id), d))
		}
	}
}

// c11OpDoms: the spelling ids the ops mention (sender of s, recipient domain of a).
func c11OpDoms(ops []string) []int {
	var ids []int
	for _, o := range ops {
		f := strings.Split(o, ".")
		switch {
		case f[0] == "s" && len(f) > 3:
			d, _ := strconv.Atoi(f[3])
			ids = append(ids, d)
		case f[0] == "a" && len(f) > 2:
			d, _ := strconv.Atoi(f[2])
			ids = append(ids, d)
		}
	}
	return ids
}

// ---- scripted next hop ----
//
// What the next hop does with a command (MAIL: c11Backend.mailMode; DATA: dataMode; RCPT: chosen by the local
// part of the recipient address, so that it is a function of the command alone also in concurrent runs).

const (
	c11OK    int32 = iota
	c11Rej         // 550 / 554 reply, connection stays usable
	c11F421        // 421 reply, the server keeps the connection open
	c11F421c       // 421 reply, then the server closes the connection
	c11Drop        // connection closed without a reply
	c11Tmo         // no reply: the command times out on the client side (see c11Conn)
)

var c11FailNames = map[string]int32{"rej": c11Rej, "421": c11F421, "421c": c11F421c, "drop": c11Drop, "tmo": c11Tmo}

type c11Backend struct {
	mailMode   atomic.Int32
	mailOld    atomic.Bool // mailMode applies only to sessions that had a transaction before (reused sessions)
	rejectRcpt atomic.Bool
	dataMode   atomic.Int32
	connMode   atomic.Int32 // c11Drop / c11Tmo: the next dialled connection is dead before the greeting
	mails      atomic.Int64
}

type c11Session struct {
	be    *c11Backend
	c     *smtp.Conn
	mails int // MAIL commands accepted in this session
}

func (be *c11Backend) NewSession(c *smtp.Conn) (smtp.Session, error) {
	return &c11Session{be: be, c: c}, nil
}
func (s *c11Session) Reset()        {}
func (s *c11Session) Logout() error { return nil }

// fail answers the current command the way `mode` says. c11Tmo never gets here (the client side swallows the
// command), c11OK returns nil.
func (s *c11Session) fail(mode int32, code int, ec smtp.EnhancedCode, what string) error {
	switch mode {
	case c11Rej:
		return &smtp.SMTPError{Code: code, EnhancedCode: ec, Message: "c11: " + what + " refused by the next hop"}
	case c11F421:
		return &smtp.SMTPError{Code: 421, EnhancedCode: smtp.EnhancedCode{4, 3, 2}, Message: "c11: 421 service not available, closing transmission channel"}
	case c11F421c:
		nc := s.c.Conn()
		nc.Write([]byte("421 4.3.2 c11: 421 service not available, closing transmission channel\r\n"))
		nc.Close()
		return errors.New("c11: connection closed")
	case c11Drop:
		s.c.Conn().Close()
		return errors.New("c11: connection dropped")
	}
	return nil
}

func (s *c11Session) Mail(from string, opts *smtp.MailOptions) error {
	s.be.mails.Add(1)
	mode := s.be.mailMode.Load()
	if s.be.mailOld.Load() && s.mails == 0 {
		// the next hop ends REUSED sessions only (a limit of transactions per session): a new session is served
		mode = c11OK
	}
	if mode == c11OK {
		s.mails++
	}
	return s.fail(mode, 550, smtp.EnhancedCode{5, 7, 1}, "sender")
}

// c11RcptMode: local part "rcpt<kind>" (kind as in c11FailNames) scripts the answer to that RCPT.
func c11RcptMode(to string) int32 {
	local := to
	if i := strings.IndexByte(to, '@'); i >= 0 {
		local = to[:i]
	}
	return c11FailNames[strings.TrimPrefix(local, "rcpt")]
}

func (s *c11Session) Rcpt(to string, _ *smtp.RcptOptions) error {
	mode := c11RcptMode(to)
	if mode == c11OK && s.be.rejectRcpt.Load() {
		mode = c11Rej
	}
	return s.fail(mode, 550, smtp.EnhancedCode{5, 1, 1}, "recipient")
}

func (s *c11Session) Data(r io.Reader) error {
	mode := s.be.dataMode.Load()
	if mode == c11Drop || mode == c11F421c {
		return s.fail(mode, 0, smtp.EnhancedCode{}, "")
	}
	_, err := io.Copy(io.Discard, r)
	if mode != c11OK {
		return s.fail(mode, 554, smtp.EnhancedCode{5, 6, 0}, "message")
	}
	return err
}

// c11Conn is the connection the target dials. A command the script lets time out is swallowed here and every
// later read returns at once the error a passed read deadline produces (no wall-clock wait, same error value:
// *net.OpError wrapping os.ErrDeadlineExceeded, Timeout() == true); the next hop never answers again, as a
// hung server would.
type c11Conn struct {
	net.Conn
	be   *c11Backend
	dead atomic.Int32 // 0 alive, c11Tmo: reads time out, c11Drop: reads see EOF
	w    *c11World
	born int64       // c11World.opSeq when the connection was dialled
	rset atomic.Bool // RSET sent on a connection of an earlier command, answer pending
}

func (c *c11Conn) Write(p []byte) (int, error) {
	old := c.w != nil && c.born < c.w.opSeq.Load()
	if old && strings.HasPrefix(string(p), "RSET") {
		// a connection dialled during an EARLIER command is examined by the pool (mxConn.Usable) before it is
		// handed out; it is handed out when the answer is positive (Read)
		c.rset.Store(true)
	}
	if c.dead.Load() == 0 {
		line := string(p)
		switch {
		case strings.HasPrefix(line, "RCPT TO:<rcpttmo@"),
			strings.HasPrefix(line, "MAIL FROM:") && c.be.mailMode.Load() == c11Tmo && (old || !c.be.mailOld.Load()),
			strings.HasPrefix(line, "DATA\r\n") && c.be.dataMode.Load() == c11Tmo:
			c.dead.Store(c11Tmo)
		}
	}
	if c.dead.Load() != 0 {
		return len(p), nil
	}
	return c.Conn.Write(p)
}

func (c *c11Conn) Read(p []byte) (int, error) {
	switch c.dead.Load() {
	case c11Tmo:
		return 0, &net.OpError{Op: "read", Net: "tcp", Source: c.Conn.LocalAddr(), Addr: c.Conn.RemoteAddr(), Err: os.ErrDeadlineExceeded}
	case c11Drop:
		return 0, io.EOF
	}
	n, err := c.Conn.Read(p)
	if n > 0 && c.rset.Swap(false) && p[0] == '2' {
		c.w.oldUsed.Store(true)
	}
	return n, err
}

var c11SrvOnce sync.Once
var c11Be *c11Backend

func c11Server(t *testing.T) *c11Backend {
	c11SrvOnce.Do(func() {
		l, err := net.Listen("tcp", "127.0.0.1:0")
		if err != nil {
			t.Fatal(err)
		}
		smtpPort = strconv.Itoa(l.Addr().(*net.TCPAddr).Port)
		c11Be = &c11Backend{}
		s := smtp.NewServer(c11Be)
		s.Domain = "localhost"
		s.AllowInsecureAuth = true
		go s.Serve(l)
	})
	return c11Be
}

func c11Zones() map[string]mockdns.Zone {
	z := map[string]mockdns.Zone{}
	for d := 1; d <= 12; d++ {
		z[fmt.Sprintf("d%d.example.", d)] = mockdns.Zone{MX: []net.MX{{Host: fmt.Sprintf("mx.d%d.example.", d), Pref: 10}}}
		z[fmt.Sprintf("mx.d%d.example.", d)] = mockdns.Zone{A: []string{"127.0.0.1"}}
	}
	for d := 500; d <= 512; d++ {
		z[fmt.Sprintf("bad%d.example.", d)] = mockdns.Zone{MX: []net.MX{{Host: "mx.nowhere.example.", Pref: 10}}}
	}
	// every spelling of the table under every form the code may look it up by (mockdns lower-cases the name)
	z["mx.idn.example."] = mockdns.Zone{A: []string{"127.0.0.1"}}
	for _, id := range vlim.AllDomIDs() {
		if id < 100 {
			continue
		}
		for _, f := range vlim.DomForms(id) {
			name := strings.ToLower(strings.TrimSuffix(f, ".")) + "."
			if _, ok := z[name]; ok {
				continue
			}
			if vlim.DomReachable(id) {
				z[name] = mockdns.Zone{MX: []net.MX{{Host: "mx.idn.example.", Pref: 10}}}
			} else {
				z[name] = mockdns.Zone{MX: []net.MX{{Host: "mx.nowhere.example.", Pref: 10}}}
			}
		}
	}
	return z
}

// ---- the MX world: what a NEW connection meets (strengthening round 9) ----
//
// The state of the world outside the target can change between (and inside) deliveries, while connections that
// were opened earlier sit in the pool: ok | nomx (the MX lookup fails) | noa (the MX hosts have no address any
// more) | nullmx (the domain publishes a null MX) | refuse (connect refused) | greetdrop / greettmo (the connection dies before the greeting) | policy (a
// TLS policy refuses the connection: CheckConn) | mxpolicy (an MX policy refuses every MX: CheckMX). The last
// two do not apply to deliveries with "TLS-Required: No" (no policies are run for them).
var c11WorldKinds = []string{"ok", "nomx", "noa", "refuse", "greetdrop", "greettmo", "policy", "mxpolicy", "nullmx"}

type c11World struct {
	kind    atomic.Int32 // index into c11WorldKinds
	full    *mockdns.Resolver
	noMX    *mockdns.Resolver
	noA     *mockdns.Resolver
	nullMX  *mockdns.Resolver
	opSeq   atomic.Int64
	oldUsed atomic.Bool
	dials   atomic.Int64
}

func (w *c11World) Kind() string { return c11WorldKinds[w.kind.Load()] }

func (w *c11World) Set(kind string) bool {
	for i, k := range c11WorldKinds {
		if k == kind {
			w.kind.Store(int32(i))
			return true
		}
	}
	return false
}

func (w *c11World) res() *mockdns.Resolver {
	switch w.Kind() {
	case "nomx":
		return w.noMX
	case "noa":
		return w.noA
	case "nullmx":
		return w.nullMX
	}
	return w.full
}

// c11Res is the resolver of the target: the zones of the world as it is now.
type c11Res struct{ w *c11World }

func (r c11Res) LookupAddr(ctx context.Context, addr string) ([]string, error) {
	return r.w.res().LookupAddr(ctx, addr)
}
func (r c11Res) LookupHost(ctx context.Context, host string) ([]string, error) {
	return r.w.res().LookupHost(ctx, host)
}
func (r c11Res) LookupMX(ctx context.Context, name string) ([]*net.MX, error) {
	return r.w.res().LookupMX(ctx, name)
}
func (r c11Res) LookupTXT(ctx context.Context, name string) ([]string, error) {
	return r.w.res().LookupTXT(ctx, name)
}
func (r c11Res) LookupIPAddr(ctx context.Context, host string) ([]net.IPAddr, error) {
	return r.w.res().LookupIPAddr(ctx, host)
}

// c11Policy: a scripted MX authentication policy (passes everything while the world allows it).
type c11Policy struct{ w *c11World }

func (p *c11Policy) Start(*module.MsgMetadata) module.DeliveryMXAuthPolicy {
	return c11DelivPolicy{p.w}
}
func (p *c11Policy) Weight() int { return 10 }

type c11DelivPolicy struct{ w *c11World }

func (c11DelivPolicy) PrepareDomain(context.Context, string) {}
func (c11DelivPolicy) PrepareConn(context.Context, string)   {}
func (c11DelivPolicy) Reset(*module.MsgMetadata)             {}
func (p c11DelivPolicy) CheckMX(_ context.Context, _ module.MXLevel, _, _ string, _ bool) (module.MXLevel, error) {
	if p.w.Kind() == "mxpolicy" {
		return module.MXNone, &exterrors.SMTPError{Code: 550, EnhancedCode: exterrors.EnhancedCode{5, 7, 0},
			Message: "c11: the MX is not permitted by the policy"}
	}
	return module.MXNone, nil
}
func (p c11DelivPolicy) CheckConn(_ context.Context, _ module.MXLevel, _ module.TLSLevel, _, _ string, _ tls.ConnectionState) (module.TLSLevel, error) {
	if p.w.Kind() == "policy" {
		return module.TLSNone, &exterrors.SMTPError{Code: 451, EnhancedCode: exterrors.EnhancedCode{4, 7, 1},
			Message: "c11: TLS is required by the policy"}
	}
	return module.TLSNone, nil
}

var c11Worlds sync.Map // *Target -> *c11World

func c11W(tgt *Target) *c11World {
	w, _ := c11Worlds.Load(tgt)
	return w.(*c11World)
}

var c11ZoneOnce sync.Once
var c11ZFull, c11ZNoA, c11ZNull map[string]mockdns.Zone

func c11Target(t *testing.T, g *limits.Group) *Target {
	c11ZoneOnce.Do(func() {
		c11ZFull = c11Zones()
		c11ZNoA, c11ZNull = map[string]mockdns.Zone{}, map[string]mockdns.Zone{}
		for name, z := range c11ZFull {
			if len(z.MX) != 0 {
				c11ZNoA[name] = mockdns.Zone{MX: z.MX}
				c11ZNull[name] = mockdns.Zone{MX: []net.MX{{Host: ".", Pref: 0}}}
			}
		}
	})
	w := &c11World{
		full:   &mockdns.Resolver{Zones: c11ZFull},
		noMX:   &mockdns.Resolver{Zones: map[string]mockdns.Zone{}},
		noA:    &mockdns.Resolver{Zones: c11ZNoA},
		nullMX: &mockdns.Resolver{Zones: c11ZNull},
	}
	tgt := testTarget(t, c11ZFull, nil, []module.MXAuthPolicy{&c11Policy{w}})
	c11Worlds.Store(tgt, w)
	t.Cleanup(func() { c11Worlds.Delete(tgt) })
	tgt.resolver = c11Res{w}
	tgt.limits = g
	tgt.allowSecOverride = true
	be := c11Server(t)
	tgt.dialer = func(ctx context.Context, network, addr string) (net.Conn, error) {
		w.dials.Add(1)
		kind := w.Kind()
		if kind == "refuse" {
			return nil, &net.OpError{Op: "dial", Net: network, Err: syscall.ECONNREFUSED}
		}
		nc, err := w.res().DialContext(ctx, network, addr)
		if err != nil {
			return nil, err
		}
		c := &c11Conn{Conn: nc, be: be, w: w, born: w.opSeq.Load()}
		m := be.connMode.Load()
		switch kind {
		case "greetdrop":
			m = c11Drop
		case "greettmo":
			m = c11Tmo
		}
		if m == c11Drop || m == c11Tmo {
			c.dead.Store(m)
			if m == c11Drop {
				nc.Close()
			}
		}
		return c, nil
	}
	tgt.connectTimeout = 5 * time.Second
	tgt.commandTimeout = 20 * time.Second
	tgt.submissionTimeout = 20 * time.Second
	return tgt
}

type c11Deliv struct {
	d     module.Delivery
	ip    int
	dom   int
	dests map[int]bool
	rt    bool // REQUIRETLS delivery
	so    bool // "TLS-Required: No" honoured: no policies
}

type c11RemCase struct {
	out  *vh.Out
	cfg  vlim.Cfg
	g    *limits.Group
	tgt  *Target
	be   *c11Backend
	w    *c11World
	ds   map[int]*c11Deliv
	hold [4]map[int]int
	ops  []string
	obs  []string
}

func (c *c11RemCase) opLine() string {
	var addrs []int
	for _, o := range c.ops {
		if f := strings.Split(o, "."); f[0] == "s" && len(f) > 2 {
			a, _ := strconv.Atoi(f[2])
			addrs = append(addrs, a)
		}
	}
	toks := append(c11rKeys.Tokens(addrs), c11Dk.Tokens(c11OpDoms(c.ops))...)
	return "C11 rem " + c.cfg.String() + " " + strings.Join(append(toks, c.ops...), " ")
}

// newConnOK: can connectionForDomain make a NEW connection for the delivery to the domain in the world as it
// is now (MX lookup, address, connect, greeting, policies, REQUIRETLS level checks)?
func (c *c11RemCase) newConnOK(dl *c11Deliv, dd int) bool {
	if dl.rt || !vlim.DomReachable(dd) {
		return false
	}
	switch c.w.Kind() {
	case "ok":
		return true
	case "policy", "mxpolicy":
		return dl.so
	}
	return false
}

func (c *c11RemCase) bump(sc, k, d int) {
	if sc != 0 && len(c.cfg.Scopes[sc]) == 0 {
		return
	}
	if c.hold[sc] == nil {
		c.hold[sc] = map[int]int{}
	}
	c.hold[sc][k] += d
	if b := c.cfg.Bound(sc); b > 0 && c.hold[sc][k] > b {
		c.out.Violation("C11/bound", c.opLine(), fmt.Sprintf("scope %s key %d: %d deliveries hold a permit, concurrency %d configured", vlim.ScopeNames[sc], k, c.hold[sc][k], b))
	}
}

func c11rErr(err error, cancelled bool) string {
	switch {
	case err == nil:
		return "ok"
	case cancelled || errors.Is(err, context.Canceled) || errors.Is(err, context.DeadlineExceeded):
		return "limit-timeout"
	case c11rChain(err, "bucket set is full"):
		return "limit-full"
	case strings.Contains(err.Error(), "c11: sender refused"):
		return "mail-rejected"
	case strings.Contains(err.Error(), "c11: recipient refused"):
		return "rcpt-rejected"
	case strings.Contains(err.Error(), "c11: 421"):
		return "reply-421"
	case c11rNetTimeout(err):
		return "net-timeout"
	default:
		return "other-error"
	}
}

func c11rNetTimeout(err error) bool {
	var ne net.Error
	return errors.As(err, &ne) && ne.Timeout()
}

// c11Note: the optional 6th field of an `a` op → (mail mode when mo = 0, local part of the recipient, conn mode
// when co = 0 on a reachable domain). ok = false: unknown note.
func c11Note(note string) (mail int32, local string, conn int32, ok bool) {
	mail, local, conn, _, ok = c11Note2(note)
	return
}

// c11Note2: also "omail<kind>" = the next hop ends the session at MAIL only when it is a REUSED one (it had a
// transaction before: a connection out of the pool); MAIL on a new session is accepted.
func c11Note2(note string) (mail int32, local string, conn int32, oldOnly, ok bool) {
	if strings.HasPrefix(note, "omail") {
		mail, local, conn, ok = c11Note1(note[1:])
		return mail, local, conn, true, ok && note != "omailrej"
	}
	mail, local, conn, ok = c11Note1(note)
	return mail, local, conn, false, ok
}

func c11Note1(note string) (mail int32, local string, conn int32, ok bool) {
	mail, local = c11Rej, "rcpt"
	switch {
	case note == "":
	case note == "rcptrej": // historical spelling: RCPT refused through the backend flag
	case strings.HasPrefix(note, "rcpt"):
		if c11FailNames[note[4:]] == 0 {
			return 0, "", 0, false
		}
		local = note
	case strings.HasPrefix(note, "mail"):
		if mail = c11FailNames[note[4:]]; mail == 0 {
			return 0, "", 0, false
		}
	case note == "conndrop":
		conn = c11Drop
	case note == "conntmo":
		conn = c11Tmo
	default:
		return 0, "", 0, false
	}
	return mail, local, conn, true
}

func c11rChain(err error, what string) bool {
	for e := err; e != nil; e = errors.Unwrap(e) {
		if strings.Contains(e.Error(), what) {
			return true
		}
	}
	return false
}

func (c *c11RemCase) exec(op string) bool {
	f := strings.Split(op, ".")
	id, _ := strconv.Atoi(f[1])
	panicked := func(p interface{}, what string) bool {
		if p == nil {
			return false
		}
		c.ops = append(c.ops, op)
		c.obs = append(c.obs, "panic")
		c.out.Violation("C11/panic", c.opLine(), fmt.Sprintf("%s panicked: %v", what, p))
		return true
	}
	switch f[0] {
	case "p":
		// conn_reuse_limit of the target: 0 = no connection goes back to the pool (testTarget's value)
		if len(f) != 2 || len(c.ds) != 0 {
			return false
		}
		c.tgt.connReuseLimit = id
		c.out.Stat("rem:pool:" + f[1])
	case "s":
		// s.id.ip.dom[.so|.rt]: so = "TLS-Required: No" honoured (connections are never pooled), rt = REQUIRETLS
		// (the plain-text next hop is refused before any destination limit is taken: co = 0 for every recipient)
		if len(f) != 4 && !(len(f) == 5 && (f[4] == "so" || f[4] == "rt")) {
			return false
		}
		ip, _ := strconv.Atoi(f[2])
		dom, _ := strconv.Atoi(f[3])
		from := "sender@" + c11rDom(dom)
		if dom == 0 {
			from = ""
		}
		meta := &module.MsgMetadata{ID: fmt.Sprintf("c11-%d", id), DontTraceSender: true,
			Conn: &module.ConnState{RemoteAddr: &net.TCPAddr{IP: vlim.Addr(ip, c11rV4), Port: 1234}}}
		flag := ""
		if len(f) == 5 {
			flag = f[4]
		}
		meta.TLSRequireOverride = flag == "so"
		meta.SMTPOpts.RequireTLS = flag == "rt"
		var d module.Delivery
		err, cancelled, p := vlim.RunCtx(context.Background(), func(ctx context.Context) error {
			var err error
			d, err = c.tgt.Start(ctx, meta, from)
			return err
		})
		if panicked(p, "Target.Start") {
			return false
		}
		c.out.Stat("rem:start:" + flag + ":" + c11rErr(err, cancelled))
		if err == nil {
			c.ds[id] = &c11Deliv{d: d, ip: ip, dom: dom, dests: map[int]bool{}, rt: flag == "rt", so: flag == "so"}
			c.bump(0, 0, 1)
			c.bump(1, vlim.MonID(ip), 1)
			c.bump(2, dom, 1)
		}
	case "w":
		// w.kind: the MX world from now on (what a NEW connection meets); connections opened earlier stay
		// where they are (in their delivery, in the pool)
		if len(f) != 2 || !c.w.Set(f[1]) {
			return false
		}
		c.out.Stat("rem:world:" + f[1])
	case "a":
		dl := c.ds[id]
		if dl == nil {
			return false
		}
		dd, _ := strconv.Atoi(f[2])
		// a last field "P" is an observation (below), not an input
		if f[len(f)-1] == "P" && len(f) > 5 {
			f = f[:len(f)-1]
		}
		if len(f) > 6 {
			return false
		}
		note := ""
		if len(f) > 5 {
			note = f[5]
		}
		mail, local, connMode, oldOnly, known := c11Note2(note)
		if !known || len(f) < 5 {
			return false
		}
		if f[4] != "0" {
			mail = c11OK
		}
		// co = a NEW connection to the domain can be made at this moment: it has to agree with the world
		if f[3] != "0" {
			connMode = c11OK
		}
		if (f[3] != "0") != (c.newConnOK(dl, dd) && connMode == c11OK) {
			return false
		}
		c.be.mailMode.Store(mail)
		c.be.mailOld.Store(oldOnly)
		c.be.connMode.Store(connMode)
		c.be.rejectRcpt.Store(note == "rcptrej")
		connAge := "fresh"
		if rd, ok := dl.d.(*remoteDelivery); ok && rd.connections[c11rDom(dd)] != nil {
			connAge = "reused"
		}
		c.w.opSeq.Add(1)
		c.w.oldUsed.Store(false)
		err, cancelled, p := vlim.RunCtx(context.Background(), func(ctx context.Context) error {
			return dl.d.AddRcpt(ctx, local+"@"+c11rDom(dd), smtp.RcptOptions{})
		})
		c.be.connMode.Store(c11OK)
		c.be.mailOld.Store(false)
		if panicked(p, "AddRcpt") {
			return false
		}
		c.out.Stat("rem:addrcpt:" + c11rErr(err, cancelled))
		// observed: the pool handed out a usable connection of an earlier delivery (it was sent RSET by the
		// pool's usability test / MAIL by connectionForDomain) and the delivery is not a REQUIRETLS one
		// (those ignore what the pool hands out)
		pooled := connAge == "fresh" && !dl.rt && c.w.oldUsed.Load()
		op = strings.Join(f, ".")
		if pooled {
			connAge = "pooled"
			op += ".P"
			mn := "mailok"
			if f[4] == "0" {
				mn = "mailrej"
				if strings.HasPrefix(note, "mail") || strings.HasPrefix(note, "omail") {
					mn = note
				}
			}
			c.out.Stat("rem:pooled:" + mn + ":world-" + c.w.Kind() + ":" + c11rErr(err, cancelled))
		}
		if note == "" && f[3] != "0" && f[4] != "0" {
			c.out.Stat("rem:addrcpt-dom:" + vlim.DomClass(dd) + ":" + connAge + ":" + c11rErr(err, cancelled))
		}
		if note != "" {
			c.out.Stat("rem:addrcpt-script:" + note + ":" + connAge + ":" + c11rErr(err, cancelled))
		}
		// the connection (and with it the destination permit) is kept when only RCPT was refused
		if (err == nil || c11rErr(err, cancelled) == "rcpt-rejected") && !dl.dests[dd] {
			dl.dests[dd] = true
			c.bump(3, dd, 1)
		}
	case "x":
		dl := c.ds[id]
		if dl == nil {
			return false
		}
		// x.id.how[.end]: how = abort | commit | body<kind> (bodyfail = bodyrej); Body is called for every how
		// but abort (for commit only when a recipient was accepted); end = commit | abort
		how, end := "abort", ""
		if len(f) > 2 {
			how = f[2]
		}
		if len(f) > 3 {
			end = f[3]
		}
		dataMode, body := c11OK, false
		switch {
		case how == "abort":
		case how == "commit":
			body = len(dl.dests) > 0
			if end == "" {
				end = "commit"
			}
		case how == "bodyfail":
			dataMode, body = c11Rej, true
		case strings.HasPrefix(how, "body") && c11FailNames[how[4:]] != 0:
			dataMode, body = c11FailNames[how[4:]], true
		default:
			return false
		}
		if end != "" && end != "commit" && end != "abort" {
			return false
		}
		c.be.dataMode.Store(dataMode)
		_, _, p := vlim.RunCtx(context.Background(), func(ctx context.Context) error {
			if body {
				hdr := textproto.Header{}
				hdr.Add("Subject", "c11")
				dl.d.Body(ctx, hdr, buffer.MemoryBuffer{Slice: []byte("body\r\n")})
			}
			if end == "commit" {
				return dl.d.Commit(ctx)
			}
			return dl.d.Abort(ctx)
		})
		c.be.dataMode.Store(c11OK)
		if panicked(p, "Commit/Abort") {
			return false
		}
		c.out.Stat("rem:end:" + how + ":" + end)
		for dd := range dl.dests {
			c.bump(3, dd, -1)
		}
		c.bump(0, 0, -1)
		c.bump(1, vlim.MonID(dl.ip), -1)
		c.bump(2, dl.dom, -1)
		delete(c.ds, id)
	default:
		return false
	}
	c.ops = append(c.ops, op)
	c.obs = append(c.obs, "-@"+vlim.Snapshot(c.g, c11rKeyID))
	return true
}

func c11RemRun(out *vh.Out, t *testing.T, cfg vlim.Cfg, r *vh.Rng, fixed []string) {
	be := c11Server(t)
	c11Dk.Probe(t)
	g, p, err := vlim.NewGroup(cfg)
	if p != nil || err != nil {
		if p != nil {
			out.Violation("C11/panic-init", "C11 rem "+cfg.String(), fmt.Sprint(p))
		}
		return
	}
	defer vlim.CloseGroup(g)
	tgt := c11Target(t, g)
	defer tgt.Close()
	c := &c11RemCase{out: out, cfg: cfg, g: g, tgt: tgt, be: be, w: c11W(tgt), ds: map[int]*c11Deliv{}}
	ok := true
	if fixed != nil {
		fixed = vlim.StripTokens(fixed)
		for _, id := range c11OpDoms(fixed) {
			if !vlim.DomOK(id) {
				out.Note(fmt.Sprintf("rem: unknown domain spelling %d", id))
				return
			}
		}
		for _, op := range fixed {
			if ok = c.exec(op); !ok {
				break
			}
		}
	} else {
		n := 8 + r.Intn(25)
		next := 1
		nDom := 1 + r.Intn(4)
		apool := vlim.AddrPool(r.Intn, 3)
		for _, a := range apool {
			out.Stat("rem:addr:" + vlim.AddrClass(a))
		}
		// the spellings of this case: senders and recipients draw from the same pool, so that one domain occurs
		// under several spellings in one delivery, in several deliveries, and on both sides
		dpool := vlim.DomPool(r.Intn, nDom)
		for _, d := range dpool {
			out.Stat("rem:dom:" + vlim.DomClass(d))
		}
		badDom := func() int { return []int{500, 501, 502, 508, 509}[r.Intn(5)] }
		// how often the next hop loses the connection (421 / drop / time-out) instead of answering
		lossy := []int{0, 15, 40, 70}[r.Intn(4)]
		pool := []int{0, 0, 2, 10}[r.Intn(4)]
		if r.Chance(15) {
			// one domain under all its spellings, a reliable next hop and a connection pool: connections opened
			// for one spelling are there (in the delivery, in the pool) when the next spelling comes
			dpool = vlim.DomSiblings(1 + r.Intn(4))
			nDom = len(dpool)
			lossy, pool = 0, []int{2, 10}[r.Intn(2)]
			out.Stat("rem:siblings")
		}
		// how often the MX world changes (what a NEW connection meets: DNS answers gone, connect refused, dead
		// before the greeting, policy failure) while earlier connections sit in the pool / in their deliveries
		worldPr := []int{0, 4, 10}[r.Intn(3)]
		const mailFailPr = 25
		commitPr := 0
		refresh := false
		if r.Chance(25) {
			// "refresh" cases: a pool, a next hop that ends reused sessions at MAIL (421 / drop / time-out: a
			// transaction limit per session, idle sessions dropped) and an MX world that keeps changing:
			// whatever the target does about a pooled connection that is refused meets every state of the world
			refresh = true
			if pool == 0 {
				pool = []int{2, 10}[r.Intn(2)]
			}
			if lossy < 40 {
				lossy = []int{40, 70}[r.Intn(2)]
			}
			if nDom > 2 {
				nDom = 2
			}
			commitPr = 60
			out.Stat("rem:refresh")
		}
		if pool != 0 {
			ok = c.exec(fmt.Sprintf("p.%d", pool))
		}
		loss := func() string { return r.Pick("421", "421c", "drop", "tmo") }
		end := func() string {
			how := r.Pick("abort", "commit", "bodyfail")
			if r.Chance(commitPr) {
				how = r.Pick("abort", "commit")
			} else if r.Chance(lossy) {
				how = "body" + loss()
			}
			if how != "abort" && r.Chance(50) {
				how += "." + r.Pick("commit", "abort")
			}
			return how
		}
		if refresh {
			// rounds of: (A) the world is up, a delivery opens a connection to every domain and ends — the
			// connections go to the pool; (B) the world changes; the next delivery gets the pooled connections
			// and the next hop ends the reused session at MAIL / refuses MAIL / accepts; the same domain again
			// (the pool is empty now: what a new connection meets is the world as it is); end
			n = 0
			addr := func() int { return apool[r.Intn(len(apool))] }
			flag := func() string {
				if x := r.Intn(100); x < 6 {
					return ".so"
				} else if x < 9 {
					return ".rt"
				}
				return ""
			}
			co := func(id, dd int) int {
				if c.newConnOK(c.ds[id], dd) {
					return 1
				}
				return 0
			}
			bg := 0
			if r.Chance(30) {
				// another delivery stays open over the rounds (holds its own connection and permit)
				bg = next
				next++
				if ok = c.exec(fmt.Sprintf("s.%d.%d.%d", bg, addr(), dpool[r.Intn(nDom)])); ok && c.ds[bg] != nil {
					dd := dpool[r.Intn(nDom)]
					ok = c.exec(fmt.Sprintf("a.%d.%d.%d.1", bg, dd, co(bg, dd)))
				}
			}
			for round := 2 + r.Intn(3); round > 0 && ok; round-- {
				if c.w.Kind() != "ok" {
					ok = ok && c.exec("w.ok")
				}
				id := next
				next++
				if ok = ok && c.exec(fmt.Sprintf("s.%d.%d.%d", id, addr(), dpool[r.Intn(nDom)])); !ok {
					break
				}
				if c.ds[id] != nil {
					for _, dd := range dpool[:nDom] {
						ok = ok && c.exec(fmt.Sprintf("a.%d.%d.%d.1", id, dd, co(id, dd)))
					}
					ok = ok && c.exec(fmt.Sprintf("x.%d.%s", id, r.Pick("commit", "abort", "commit.abort")))
				}
				if r.Chance(75) {
					ok = ok && c.exec("w."+c11WorldKinds[1+r.Intn(len(c11WorldKinds)-1)])
				}
				id = next
				next++
				if ok = ok && c.exec(fmt.Sprintf("s.%d.%d.%d%s", id, addr(), dpool[r.Intn(nDom)], flag())); !ok {
					break
				}
				if c.ds[id] == nil {
					continue
				}
				for _, dd := range dpool[:nDom] {
					for k := 1 + r.Intn(2); k > 0 && ok; k-- {
						mo, note := 1, ""
						switch x := r.Intn(100); {
						case x < 30:
							mo, note = 0, ".mail"+loss()
						case x < 55:
							mo, note = 0, ".omail"+loss()
						case x < 70:
							mo = 0
						case x < 80:
							note = ".rcpt" + loss()
						}
						ok = c.exec(fmt.Sprintf("a.%d.%d.%d.%d%s", id, dd, co(id, dd), mo, note))
					}
				}
				if r.Chance(25) {
					ok = ok && c.exec("w."+c11WorldKinds[r.Intn(len(c11WorldKinds))])
				}
				ok = ok && c.exec(fmt.Sprintf("x.%d.%s", id, end()))
			}
			if bg != 0 && ok && c.ds[bg] != nil {
				ok = c.exec(fmt.Sprintf("x.%d.%s", bg, end()))
			}
		}
		for i := 0; i < n && ok; i++ {
			var ids []int
			for k := 1; k < next; k++ {
				if c.ds[k] != nil {
					ids = append(ids, k)
				}
			}
			if r.Chance(worldPr) {
				kind := "ok"
				if c.w.Kind() == "ok" || r.Chance(40) {
					kind = c11WorldKinds[1+r.Intn(len(c11WorldKinds)-1)]
				}
				if ok = c.exec("w." + kind); !ok {
					break
				}
			}
			x := r.Intn(100)
			switch {
			case len(ids) == 0 || (len(ids) < 5 && x < 25):
				dom := dpool[r.Intn(nDom)]
				if r.Chance(10) {
					dom = 0
				}
				flag := ""
				if x := r.Intn(100); x < 8 {
					flag = ".so"
				} else if x < 13 {
					flag = ".rt"
				}
				ok = c.exec(fmt.Sprintf("s.%d.%d.%d%s", next, apool[r.Intn(len(apool))], dom, flag))
				next++
			case x < 75:
				id := ids[r.Intn(len(ids))]
				dd := dpool[r.Intn(nDom)]
				co, mo := 1, 1
				note := ""
				if c.ds[id].rt {
					co = 0
					if r.Chance(30) {
						dd = badDom()
					}
				} else if r.Chance(12) {
					if pool == 0 && c.w.Kind() == "ok" && r.Chance(lossy) {
						// reachable domain, connection dead before the greeting (only without a pool: a pooled
						// connection would be used without dialling)
						co, note = 0, "."+r.Pick("conndrop", "conntmo")
					} else {
						dd, co = badDom(), 0
					}
				}
				// the world is down: no new connection — a connection of the delivery or of the pool still serves
				down := false
				if co == 1 && !c.newConnOK(c.ds[id], dd) {
					co, down = 0, true
				}
				if r.Chance(mailFailPr) {
					mo = 0
					if (co == 1 || down) && r.Chance(lossy) {
						note = r.Pick(".mail", ".mail", ".omail") + loss()
					}
				}
				if (co == 1 || down) && mo == 1 {
					switch {
					case r.Chance(lossy):
						note = ".rcpt" + loss()
					case r.Chance(15):
						note = ".rcptrej"
					}
				}
				ok = c.exec(fmt.Sprintf("a.%d.%d.%d.%d%s", id, dd, co, mo, note))
			default:
				id := ids[r.Intn(len(ids))]
				ok = c.exec(fmt.Sprintf("x.%d.%s", id, end()))
			}
		}
		for k := 1; k < next && ok; k++ {
			if c.ds[k] != nil {
				ok = c.exec(fmt.Sprintf("x.%d.%s", k, end()))
			}
		}
	}
	out.Corr(c.opLine(), strings.Join(c.obs, " "))
	if fixed != nil {
		c11DomLaw(out, c.opLine(), c.ops)
	}
	if !ok || len(c.ds) != 0 {
		return
	}
	snap := vlim.Snapshot(g, c11rKeyID)
	if !vlim.Idle(cfg, snap) {
		out.Violation("C11/leak", c.opLine(), "every delivery ended but permits are still in use: "+snap)
		return
	}
	if cfg.HasRate(3) {
		return
	}
	vlim.Tune(g, -1, cfg.MaxB)
	n := cfg.Bound(3)
	if n == 0 {
		n = 2
	}
	// the full N again, for d1.example and for the first recipient domain of the case as it was spelled
	probes := []string{"d1.example"}
	for _, o := range c.ops {
		if f := strings.Split(o, "."); f[0] == "a" {
			dd, _ := strconv.Atoi(f[2])
			if vlim.DomReachable(dd) && vlim.Dom(dd) != probes[0] {
				probes = append(probes, vlim.Dom(dd))
			}
			break
		}
	}
	for _, pd := range probes {
		got := 0
		for i := 0; i < n; i++ {
			err, _, p := vlim.RunCtx(context.Background(), func(ctx context.Context) error { return g.TakeDest(ctx, pd) })
			if err != nil || p != nil {
				out.Violation("C11/quiescent-capacity", c.opLine(), fmt.Sprintf("after every delivery ended TakeDest(%q) #%d of %d: err=%v panic=%v", pd, i+1, n, err, p))
				break
			}
			got++
		}
		for i := 0; i < got; i++ {
			g.ReleaseDest(pd)
		}
	}
	out.Stat("rem:quiescent-checked")
}

func c11RemCfg(r *vh.Rng) vlim.Cfg {
	var cfg vlim.Cfg
	for sc := 0; sc < 4; sc++ {
		pr := 35
		if sc == 3 {
			pr = 75
		}
		if r.Chance(pr) {
			cfg.Scopes[sc] = append(cfg.Scopes[sc], vlim.Lim{Sem: true, N: 1 + r.Intn(2)})
		}
		if r.Chance(8) {
			cfg.Scopes[sc] = append(cfg.Scopes[sc], vlim.Lim{Sem: false, N: 3 + r.Intn(6)})
		}
	}
	cfg.Reap = []int{-1, 3600}[r.Intn(2)]
	cfg.MaxB = []int{1, 2, 20010}[r.Intn(3)]
	return cfg
}

func TestVerifC11Remote(t *testing.T) {
	out := vh.Open("c11_remote")
	defer out.Close()
	if rp := vh.Replay(); rp != nil {
		for _, l := range rp {
			f := strings.Fields(l)
			if len(f) < 4 || f[0] != "C11" || f[1] != "rem" {
				continue
			}
			cfg, err := vlim.ParseCfg(f[2])
			if err != nil {
				t.Fatal(err)
			}
			c11RemRun(out, t, cfg, vh.NewRng(1), append([]string{}, f[3:]...))
		}
		return
	}
	// the key law, spelling by spelling: a minimal case for every spelling for which a release was observed under
	// another key than the take (run through the ordinary path: compared with the model, probed for leaks)
	c11Dk.Probe(t)
	lawDst, _ := vlim.ParseCfg("-/-/-/s1/-1/20010")
	lawSrc, _ := vlim.ParseCfg("-/-/s1/-/-1/20010")
	for _, d := range vlim.AllDomIDs() {
		e := c11Dk.Entry(d)
		if e.note != "" {
			out.Note(fmt.Sprintf("domain key probe: spelling %d (%q): %s", d, vlim.Dom(d), strings.TrimSpace(e.note)))
		}
		if c11Dk.Unlawful(d) == "" {
			out.Stat("rem:key-law:ok:" + vlim.DomClass(d))
			continue
		}
		out.Stat("rem:key-law:broken:" + vlim.DomClass(d))
		var cases [][]string
		if e.close != e.take {
			cases = append(cases, []string{"s.1.1.1", fmt.Sprintf("a.1.%d.1.1", d), "x.1.commit"})
		}
		if e.undo != e.take {
			cases = append(cases, []string{"s.1.1.1", fmt.Sprintf("a.1.%d.1.0", d), "x.1.abort"})
		}
		for _, ops := range cases {
			c11RemRun(out, t, lawDst, vh.NewRng(1), ops)
		}
		if e.srcRel != e.src {
			c11RemRun(out, t, lawSrc, vh.NewRng(1), []string{fmt.Sprintf("s.1.1.%d", d), "x.1.abort"})
		}
	}
	n := vh.N(400) / 4
	for i := 0; i < n; i++ {
		r := vh.NewRng(vh.Seed()*1000003 + uint64(i) + 1300000)
		c11RemRun(out, t, c11RemCfg(r), r, nil)
	}
}

// concurrent deliveries through the real target: 1-64 goroutines, ending at every stage
func c11RemConcCase(out *vh.Out, t *testing.T, be *c11Backend, cfg vlim.Cfg, seed uint64, workers, nDom int) {
	opl := fmt.Sprintf("C11 remconc %s seed=%d workers=%d doms=%d", cfg.String(), seed, workers, nDom)
	g, p, err := vlim.NewGroup(cfg)
	if p != nil || err != nil {
		return
	}
	tgt := c11Target(t, g)
	// derived from the seed, so that the op line stays replayable: pool on/off, how often the next hop loses
	// the connection (421 / drop / time-out) at MAIL, RCPT, DATA
	c11Dk.Probe(t)
	cr := vh.NewRng(seed*77 + 5)
	apool := vlim.AddrPool(vh.NewRng(seed*31+5).Intn, 3)
	dpool := vlim.DomPool(vh.NewRng(seed*37+11).Intn, nDom)
	for _, d := range dpool {
		out.Stat("remconc:dom:" + vlim.DomClass(d))
	}
	tgt.connReuseLimit = []int{0, 2, 10}[cr.Intn(3)]
	lossy := []int{0, 20, 50}[cr.Intn(3)]
	out.Stat(fmt.Sprintf("remconc:pool:%d:lossy:%d", tgt.connReuseLimit, lossy))
	// an MX world that changes under the deliveries (derived from the seed as well): every worker now and then
	// sets what NEW connections meet from then on — DNS answers gone, connect refused, dead before the greeting,
	// policy failure — or repairs it, while connections opened earlier are in use and in the pool
	world := c11W(tgt)
	flaky := []int{0, 0, 12, 35}[cr.Intn(4)]
	out.Stat(fmt.Sprintf("remconc:flaky-world:%d", flaky))
	modes := []int32{c11F421, c11F421c, c11Drop, c11Tmo}
	var mu sync.Mutex
	hold := [4]map[int]int{{}, {}, {}, {}}
	viol := ""
	bump := func(sc, k, d int) {
		if sc != 0 && len(cfg.Scopes[sc]) == 0 {
			return
		}
		mu.Lock()
		defer mu.Unlock()
		hold[sc][k] += d
		if b := cfg.Bound(sc); b > 0 && hold[sc][k] > b {
			viol = fmt.Sprintf("C11/bound\x00scope %s key %d: %d deliveries hold a permit, concurrency %d configured", vlim.ScopeNames[sc], k, hold[sc][k], b)
		}
	}
	var wg sync.WaitGroup
	var nStart, nStartTO, nRcpt, nRcptFail int64
	for w := 0; w < workers; w++ {
		wg.Add(1)
		go func(w int) {
			defer wg.Done()
			defer func() {
				if p := recover(); p != nil {
					mu.Lock()
					viol = fmt.Sprintf("C11/panic\x00delivery goroutine panicked: %v", p)
					mu.Unlock()
				}
			}()
			r := vh.NewRng(seed*31 + uint64(w))
			for round := 0; round < 3; round++ {
				ip, dom := apool[r.Intn(3)], dpool[r.Intn(nDom)]
				ctx, cancel := context.WithTimeout(context.Background(), time.Duration(20+r.Intn(400))*time.Millisecond)
				meta := &module.MsgMetadata{ID: fmt.Sprintf("c11c-%d-%d", w, round), DontTraceSender: true,
					Conn: &module.ConnState{RemoteAddr: &net.TCPAddr{IP: vlim.Addr(ip, c11rV4), Port: 1}}}
				d, err := tgt.Start(ctx, meta, "s@"+c11rDom(dom))
				if err != nil {
					atomic.AddInt64(&nStartTO, 1)
					cancel()
					continue
				}
				atomic.AddInt64(&nStart, 1)
				bump(0, 0, 1)
				bump(1, vlim.MonID(ip), 1)
				bump(2, dom, 1)
				dests := map[int]bool{}
				for j := r.Intn(3); j > 0; j-- {
					dd := dpool[r.Intn(nDom)]
					mm := c11OK
					if r.Chance(20) {
						mm = c11Rej
						if r.Chance(lossy) {
							mm = modes[r.Intn(4)]
						}
					}
					be.mailMode.Store(mm)
					if flaky != 0 && r.Chance(flaky) {
						kind := "ok"
						if r.Chance(60) {
							kind = c11WorldKinds[1+r.Intn(len(c11WorldKinds)-1)]
						}
						world.Set(kind)
					}
					local := "rcpt"
					if r.Chance(lossy) {
						local += r.Pick("421", "421c", "drop", "tmo", "rej")
					}
					if err := d.AddRcpt(ctx, local+"@"+c11rDom(dd), smtp.RcptOptions{}); err != nil {
						atomic.AddInt64(&nRcptFail, 1)
						continue
					}
					atomic.AddInt64(&nRcpt, 1)
					if !dests[dd] {
						dests[dd] = true
						bump(3, dd, 1)
					}
				}
				for dd := range dests {
					bump(3, dd, -1)
				}
				bump(0, 0, -1)
				bump(1, vlim.MonID(ip), -1)
				bump(2, dom, -1)
				switch r.Intn(3) {
				case 0:
					d.Abort(context.Background())
				case 1:
					d.Commit(context.Background())
				default:
					dm := []int32{c11OK, c11Rej}[r.Intn(2)]
					if r.Chance(lossy) {
						dm = modes[r.Intn(4)]
					}
					be.dataMode.Store(dm)
					hdr := textproto.Header{}
					hdr.Add("Subject", "c11")
					if len(dests) > 0 {
						d.Body(context.Background(), hdr, buffer.MemoryBuffer{Slice: []byte("body\r\n")})
					}
					d.Abort(context.Background())
				}
				cancel()
			}
		}(w)
	}
	wg.Wait()
	out.StatN("remconc:start-ok", int(nStart))
	out.StatN("remconc:start-limit", int(nStartTO))
	out.StatN("remconc:rcpt-ok", int(nRcpt))
	out.StatN("remconc:rcpt-fail", int(nRcptFail))
	out.Stat(fmt.Sprintf("remconc:workers:%d", workers))
	if viol != "" {
		f := strings.SplitN(viol, "\x00", 2)
		out.Violation(f[0], opl, f[1])
	} else if snap := vlim.Snapshot(g, c11rKeyID); !vlim.Idle(cfg, snap) {
		out.Violation("C11/leak", opl, "every delivery ended but permits are still in use: "+snap)
	}
	tgt.Close()
	vlim.CloseGroup(g)
}

func c11rKV(f []string) map[string]int {
	m := map[string]int{}
	for _, x := range f {
		if kv := strings.SplitN(x, "=", 2); len(kv) == 2 {
			m[kv[0]], _ = strconv.Atoi(kv[1])
		}
	}
	return m
}

func TestVerifC11RemoteConc(t *testing.T) {
	out := vh.Open("c11_remote_conc")
	defer out.Close()
	be := c11Server(t)
	if rp := vh.Replay(); rp != nil {
		for _, l := range rp {
			f := strings.Fields(l)
			if len(f) < 4 || f[0] != "C11" || f[1] != "remconc" {
				continue
			}
			cfg, err := vlim.ParseCfg(f[2])
			if err != nil {
				t.Fatal(err)
			}
			kv := c11rKV(f[3:])
			for rep := 0; rep < 5; rep++ {
				c11RemConcCase(out, t, be, cfg, uint64(kv["seed"]), kv["workers"], kv["doms"])
			}
		}
		return
	}
	n := vh.N(400) / 60
	if n < 3 {
		n = 3
	}
	for i := 0; i < n; i++ {
		seed := vh.Seed()*1000003 + uint64(i) + 1700000
		r := vh.NewRng(seed)
		cfg := c11RemCfg(r)
		workers := []int{1, 4, 16, 32, 64}[r.Intn(5)]
		nDom := 1 + r.Intn(3)
		c11RemConcCase(out, t, be, cfg, seed, workers, nDom)
	}
}
