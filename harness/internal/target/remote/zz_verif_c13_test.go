package remote

// Verification harness for property C13 (DANE). Injected through `go test -overlay`; see
// /verif/BUILDING.md and /verif/notes/C13.md. It is not part of the repository.
//
//   - correspondence: the real verifyDANE / CheckConn / discoverTLSA vs the Lean model
//     (MaddyVerif/Model/Dane.lean) on the same inputs; the behaviour of the library primitives the
//     model is parametric in (TLSA-record/certificate matching, IsCA, x509 path validation, the
//     ExtResolver answers) is shipped in the op line as tables;
//   - monitor: the property itself, evaluated on the real executions from ground truth the harness
//     has by construction (which certificate every association datum was derived from, which
//     chains are valid, which zones are signed / failing), never from the model.

import (
	"bufio"
	"bytes"
	"context"
	"crypto/ecdsa"
	"crypto/elliptic"
	"crypto/rand"
	"crypto/sha256"
	"crypto/sha512"
	"crypto/tls"
	"crypto/x509"
	"crypto/x509/pkix"
	"encoding/hex"
	"encoding/pem"
	"errors"
	"fmt"
	"math/big"
	"net"
	"os"
	"path/filepath"
	"runtime"
	"strconv"
	"strings"
	"sync"
	"testing"
	"time"

	"github.com/foxcpp/maddy/framework/dns"
	"github.com/foxcpp/maddy/framework/exterrors"
	"github.com/foxcpp/maddy/framework/log"
	"github.com/foxcpp/maddy/framework/module"
	"github.com/foxcpp/maddy/internal/smtpconn"
	"github.com/foxcpp/maddy/internal/verifshim/vh"
	miekgdns "github.com/miekg/dns"
)

const (
	c13MX    = "mx.verif.test"
	c13MXFQ  = "mx.verif.test."
	c13Canon = "canon.verif.test."
	// a host name the wrong-name leaf (chain W) is issued for
	c13OtherName = "other.verif.test"
)

// c13Owners: the owner names a TLSA record can carry (index = the `owner` field of the record
// token; 0 = the name the RRset of the MX is published under). A TLSA RRset reached through a CNAME
// (`_25._tcp.mx CNAME _dane.example`) arrives with the alias target as owner; AuthLookupTLSA
// takes every TLSA RR of the answer section whatever its owner. The owner name is not an input of
// the DANE decision (C13_owner_relabel_invariant): names are chosen so that code deriving a
// reference identifier from it ends up with nothing, with a name the wrong-name leaf is valid
// for, or with the canonical name.
var c13Owners = []string{
	"_25._tcp." + c13MXFQ,
	"_25._tcp." + c13Canon,
	"_dane.verif.test.",          // shared RRset behind a CNAME; not of the _port._proto.host form
	"tlsa.verif.test.",           // no underscore label at all
	"_25._tcp.other.verif.test.", // base domain: a name the wrong-name leaf is issued for
	"_tlsa.dane.verif.test.",     // one underscore label; rest: a name the wrong-name leaf is issued for
	"_25._TCP.MX.Verif.Test.",    // the usual name in another spelling
	"mx.verif.test.",             // the host itself
	"_25._tcp._tcp.verif.test.",  // more underscore labels than expected
	".",                          // the root
	"_25._tcp.mx.verif.test",     // not fully qualified (in-memory records only)
	"",                           // empty (in-memory records only)
}

// owners that survive a trip over the wire unchanged
const c13WireOwners = 10

func c13OwnerIndex(name string) int {
	for i, o := range c13Owners {
		if o == name {
			return i
		}
	}
	return 99
}

// ---------------------------------------------------------------- certificates

type c13PKI struct {
	root, inter, leaf, expLeaf, wrongLeaf, canonLeaf, selfCA, foreign *x509.Certificate
	// a leaf for the MX host name issued by the foreign CA: the server of a domain whose TLSA records
	// pin the OTHER hierarchy (chains J, M)
	foreignLeaf *x509.Certificate
	// CA certificates with the SAME subject and key as `inter` / `root` (so `leaf` is signed by them
	// just as well) that are NOT good for a path: an intermediate that expired a month ago (the leaf
	// was issued while it was still good and is itself within its validity period), one that is not
	// valid yet, one that is no CA certificate (basicConstraints CA:FALSE), one restricted to TLS
	// client authentication (extended key usage), and a root certificate that expired a month ago
	// (chains P, Q, N, K, T); an intermediate whose name constraints exclude the MX host name and a root
	// certificate with a path length constraint of zero (it may issue end-entity certificates only:
	// a path through the intermediate is too long) (chains H, Y)
	expInter, futInter, nonCAInter, ekuInter, expRoot, ncInter, plRoot *x509.Certificate
	// leaves WITHOUT a subjectAltName DNS name, issued by `inter` (old-style certificates: the name is
	// in the Common Name only, which crypto/x509 does not read): for another customer's host, for the
	// MX host name itself, and one whose subjectAltName holds an IP address only (chains V, U, Z).
	// None of them identifies the MX host: a name check that is skipped or passes "because there is
	// no name to compare" lets any customer of the asserted trust anchor in.
	cnOtherLeaf, cnLeaf, ipLeaf *x509.Certificate
	// private keys of the certificates a server can present as its own (op `attempt`)
	keys map[*x509.Certificate]*ecdsa.PrivateKey
}

func c13Key(t *testing.T) *ecdsa.PrivateKey {
	k, err := ecdsa.GenerateKey(elliptic.P256(), rand.Reader)
	if err != nil {
		t.Fatal(err)
	}
	return k
}

var c13Serial int64 = 1000

func c13Sign(t *testing.T, tmpl, parent *x509.Certificate, key, parentKey *ecdsa.PrivateKey) *x509.Certificate {
	c, err := c13SignE(tmpl, parent, key, parentKey)
	if err != nil {
		t.Fatal(err)
	}
	return c
}

func c13SignE(tmpl, parent *x509.Certificate, key, parentKey *ecdsa.PrivateKey) (*x509.Certificate, error) {
	c13Serial++
	tmpl.SerialNumber = big.NewInt(c13Serial)
	if parent == nil {
		parent = tmpl
		parentKey = key
	}
	der, err := x509.CreateCertificate(rand.Reader, tmpl, parent, &key.PublicKey, parentKey)
	if err != nil {
		return nil, err
	}
	return x509.ParseCertificate(der)
}

// ---------------------------------------------------------------- the SYSTEM trust store of the test process
//
// A real MTA runs on a host whose system trust store holds the public CAs, and the servers it talks
// to mostly present chains that are valid under it. Code that hands crypto/x509 a nil root pool
// (x509.VerifyOptions.Roots, tls.Config.RootCAs) gets the SYSTEM pool — "no trust anchor" silently
// becomes "every public CA". To make that visible the two root CAs of the harness (c13PKI.root,
// c13PKI.foreign: the 'public' hierarchies, c13PKI.publicPool) ARE the system trust store of this
// test process: they are made once, in a package-level initialiser, written to a PEM file that
// SSL_CERT_FILE names (SSL_CERT_DIR: an empty directory), and the system pool is loaded at once
// (crypto/x509 loads it once per process, on first use) — before any test and any code under test
// can have touched it. Every test's PKI hangs under these two roots.
type c13SysRoots struct {
	root, foreign       *x509.Certificate
	rootKey, foreignKey *ecdsa.PrivateKey
	err                 error
}

var c13Sys = c13InstallSystemRoots()

func c13InstallSystemRoots() *c13SysRoots {
	sr := &c13SysRoots{}
	fail := func(err error) *c13SysRoots { sr.err = err; return sr }
	var err error
	if sr.rootKey, err = ecdsa.GenerateKey(elliptic.P256(), rand.Reader); err != nil {
		return fail(err)
	}
	if sr.foreignKey, err = ecdsa.GenerateKey(elliptic.P256(), rand.Reader); err != nil {
		return fail(err)
	}
	now := time.Now()
	if sr.root, err = c13SignE(c13CA("verif root", now), nil, sr.rootKey, nil); err != nil {
		return fail(err)
	}
	if sr.foreign, err = c13SignE(c13CA("verif foreign root", now), nil, sr.foreignKey, nil); err != nil {
		return fail(err)
	}
	dir, err := os.MkdirTemp("", "verif-c13-sysroots-")
	if err != nil {
		return fail(err)
	}
	defer os.RemoveAll(dir)
	var pemBytes []byte
	for _, c := range []*x509.Certificate{sr.root, sr.foreign} {
		pemBytes = append(pemBytes, pem.EncodeToMemory(&pem.Block{Type: "CERTIFICATE", Bytes: c.Raw})...)
	}
	file, empty := filepath.Join(dir, "roots.pem"), filepath.Join(dir, "empty")
	if err = os.WriteFile(file, pemBytes, 0o600); err != nil {
		return fail(err)
	}
	if err = os.Mkdir(empty, 0o700); err != nil {
		return fail(err)
	}
	os.Setenv("SSL_CERT_FILE", file)
	os.Setenv("SSL_CERT_DIR", empty)
	// load it now: from here on the process's system pool is these two certificates
	if _, err = x509.SystemCertPool(); err != nil {
		return fail(err)
	}
	return sr
}

// c13SystemPoolCheck: the system pool of this process is the two roots — a leaf under `root` verifies
// with Roots == nil for its name, one under neither does not. Fatal otherwise: the cases that tell
// "no trust anchor" from "system trust store" would be vacuous.
func c13SystemPoolCheck(t *testing.T, w *c13World) {
	if c13Sys.err != nil {
		t.Fatalf("c13: cannot install the harness roots as the system trust store of the test process: %v", c13Sys.err)
	}
	for _, ck := range c13ChainKinds {
		ch := w.chains[ck]
		if len(ch.certs) == 0 {
			continue
		}
		inters := x509.NewCertPool()
		for _, c := range ch.certs[1:] {
			inters.AddCert(c)
		}
		_, err := ch.certs[0].Verify(x509.VerifyOptions{DNSName: c13MX, Intermediates: inters}) // Roots nil: the system pool
		if (err == nil) != ch.pkix {
			t.Fatalf("c13 self-check: chain %s under the SYSTEM trust store of the test process: verifies=%v, expected %v "+
				"(the harness roots are not — or not alone — the system pool; SSL_CERT_FILE=%q)", ck, err == nil, ch.pkix, os.Getenv("SSL_CERT_FILE"))
		}
	}
}

func c13CA(cn string, now time.Time) *x509.Certificate {
	return &x509.Certificate{
		Subject:               pkix.Name{CommonName: cn},
		NotBefore:             now.Add(-365 * 24 * time.Hour),
		NotAfter:              now.Add(10 * 365 * 24 * time.Hour),
		IsCA:                  true,
		BasicConstraintsValid: true,
		KeyUsage:              x509.KeyUsageCertSign | x509.KeyUsageDigitalSignature,
	}
}

func c13Leaf(cn, name string, from, to time.Time) *x509.Certificate {
	return &x509.Certificate{
		Subject:               pkix.Name{CommonName: cn},
		DNSNames:              []string{name},
		NotBefore:             from,
		NotAfter:              to,
		BasicConstraintsValid: true,
		KeyUsage:              x509.KeyUsageDigitalSignature,
		ExtKeyUsage:           []x509.ExtKeyUsage{x509.ExtKeyUsageServerAuth},
	}
}

func c13MakePKI(t *testing.T) *c13PKI {
	now := time.Now()
	year := 365 * 24 * time.Hour
	p := &c13PKI{keys: map[*x509.Certificate]*ecdsa.PrivateKey{}}
	rootK, interK, foreignK, selfK := c13Key(t), c13Key(t), c13Key(t), c13Key(t)
	leafK, expK, wrongK, canonK, fleafK := c13Key(t), c13Key(t), c13Key(t), c13Key(t), c13Key(t)
	if c13Sys.err != nil {
		t.Fatalf("c13: cannot install the harness roots as the system trust store of the test process: %v", c13Sys.err)
	}
	// the two roots are the ones installed as the system trust store of this process
	rootK, foreignK = c13Sys.rootKey, c13Sys.foreignKey
	p.root, p.foreign = c13Sys.root, c13Sys.foreign
	p.inter = c13Sign(t, c13CA("verif intermediate", now), p.root, interK, rootK)
	p.leaf = c13Sign(t, c13Leaf("leaf", c13MX, now.Add(-year), now.Add(10*year)), p.inter, leafK, interK)
	month := 30 * 24 * time.Hour
	variant := func(from, to time.Time, edit func(c *x509.Certificate)) *x509.Certificate {
		c := c13CA("verif intermediate", now)
		c.NotBefore, c.NotAfter = from, to
		if edit != nil {
			edit(c)
		}
		return c
	}
	p.expInter = c13Sign(t, variant(now.Add(-2*year), now.Add(-month), nil), p.root, interK, rootK)
	p.futInter = c13Sign(t, variant(now.Add(month), now.Add(5*year), nil), p.root, interK, rootK)
	p.nonCAInter = c13Sign(t, variant(now.Add(-year), now.Add(10*year), func(c *x509.Certificate) {
		c.IsCA, c.KeyUsage = false, x509.KeyUsageDigitalSignature
	}), p.root, interK, rootK)
	p.ekuInter = c13Sign(t, variant(now.Add(-year), now.Add(10*year), func(c *x509.Certificate) {
		c.ExtKeyUsage = []x509.ExtKeyUsage{x509.ExtKeyUsageClientAuth}
	}), p.root, interK, rootK)
	expRoot := c13CA("verif root", now)
	expRoot.NotBefore, expRoot.NotAfter = now.Add(-2*year), now.Add(-month)
	p.expRoot = c13Sign(t, expRoot, nil, rootK, nil)
	p.ncInter = c13Sign(t, variant(now.Add(-year), now.Add(10*year), func(c *x509.Certificate) {
		c.PermittedDNSDomainsCritical, c.PermittedDNSDomains = true, []string{"elsewhere.test"}
	}), p.root, interK, rootK)
	plRoot := c13CA("verif root", now)
	plRoot.MaxPathLen, plRoot.MaxPathLenZero = 0, true
	p.plRoot = c13Sign(t, plRoot, nil, rootK, nil)
	p.foreignLeaf = c13Sign(t, c13Leaf("leaf of the foreign ca", c13MX, now.Add(-year), now.Add(10*year)), p.foreign, fleafK, foreignK)
	p.expLeaf = c13Sign(t, c13Leaf("expired leaf", c13MX, now.Add(-2*year), now.Add(-year)), p.inter, expK, interK)
	wrong := c13Leaf("wrong-name leaf", "other.verif.test", now.Add(-year), now.Add(10*year))
	// valid for the names around the MX name, not for it
	wrong.DNSNames = append(wrong.DNSNames, "dane.verif.test", "verif.test", "*.mx.verif.test", "tcp.verif.test", "test")
	p.wrongLeaf = c13Sign(t, wrong, p.inter, wrongK, interK)
	// issued for the canonical name an aliased MX name points to — not for the MX host name
	p.canonLeaf = c13Sign(t, c13Leaf("canonical-name leaf", strings.TrimSuffix(c13Canon, "."), now.Add(-year), now.Add(10*year)), p.inter, canonK, interK)
	self := c13CA("self-signed ca leaf", now)
	self.DNSNames = []string{c13MX}
	self.ExtKeyUsage = []x509.ExtKeyUsage{x509.ExtKeyUsageServerAuth}
	p.selfCA = c13Sign(t, self, nil, selfK, nil)
	p.keys[p.leaf], p.keys[p.expLeaf], p.keys[p.wrongLeaf], p.keys[p.canonLeaf], p.keys[p.selfCA] = leafK, expK, wrongK, canonK, selfK
	p.keys[p.foreignLeaf] = fleafK
	noSAN := func(cn string, edit func(c *x509.Certificate)) *x509.Certificate {
		k := c13Key(t)
		c := c13Leaf(cn, "", now.Add(-year), now.Add(10*year))
		c.DNSNames = nil
		if edit != nil {
			edit(c)
		}
		crt := c13Sign(t, c, p.inter, k, interK)
		if len(crt.DNSNames) != 0 {
			t.Fatalf("c13 self-check: leaf %q has subjectAltName DNS names", cn)
		}
		p.keys[crt] = k
		return crt
	}
	p.cnOtherLeaf = noSAN("mail.other-customer.test", nil)
	p.cnLeaf = noSAN(c13MX, nil)
	p.ipLeaf = noSAN("mail.other-customer.test", func(c *x509.Certificate) { c.IPAddresses = []net.IP{net.IPv4(192, 0, 2, 25)} })
	return p
}

// c13Chain is one presented chain with the ground truth the monitor uses: which certificates are
// CAs and to which of them (as the trust anchor, the other presented certificates being available
// as intermediates) the leaf validly chains for c13MX — known from how the chain was built.
type c13Chain struct {
	kind     string
	certs    []*x509.Certificate
	ca       []bool
	anchorOK []bool
	stated   bool // one of the five chains of the property's quantifier
	// the certificates record targets 'I' and 'R' stand for on this chain when they are not the usual
	// intermediate / root (the chain presents a variant of them)
	tI, tR *x509.Certificate
	// pkix (by construction): a client that trusts the two roots (c13PKI.publicPool) verifies this
	// chain for c13MX in the first handshake — the chain is complete, valid and issued for the name.
	// verified: what crypto/tls then reports as ConnectionState.VerifiedChains (nil when pkix is false)
	pkix     bool
	verified [][]*x509.Certificate
	// tables for the model, computed once with the real library primitives
	caBits string
	vBits  string
	// the same table for an empty reference identifier (crypto/x509 then checks no name) and for
	// c13OtherName: what verifyDANE would compute on a connection state with another ServerName
	vBitsNone, vBitsOther string
}

// chain kinds; the first five are the property's, the others widen the space
var c13ChainKinds = []string{"L", "LI", "LIR", "X", "W", "S", "F", "LR", "C", "G", "J", "M", "P", "Q", "T", "N", "K", "H", "Y", "V", "U", "Z", "E"}

// the chains whose leaf is good (right name, within its validity period, properly signed) and whose
// PATH is not: a CA certificate on it is outside its validity period, is no CA certificate, may not
// be used for server authentication, may not issue for the MX host name, or may not have a CA below it
var c13BadPathKinds = []string{"P", "Q", "T", "N", "K", "H", "Y"}

// the chains whose leaf has no subjectAltName DNS name (Common Name only, for another host / for the MX
// host; IP address only) and is properly issued under the intermediate and root that DANE-TA records pin
var c13NoSANKinds = []string{"V", "U", "Z"}

// the chains the flagship blocks pin with DANE-TA records of the chain's own CA certificates
var c13HardKinds = append(append([]string{}, c13NoSANKinds...), c13BadPathKinds...)

// the chains that pass ordinary (PKIX) verification for the MX host name at a client trusting both
// roots
var c13PKIXKinds = map[string]bool{"LI": true, "LIR": true, "G": true, "J": true, "M": true, "T": true, "Y": true}

// the root pool of a client with an ordinary CA store: both hierarchies are trusted
func (p *c13PKI) publicPool() *x509.CertPool {
	pool := x509.NewCertPool()
	pool.AddCert(p.root)
	pool.AddCert(p.foreign)
	return pool
}

func c13MakeChains(t *testing.T, p *c13PKI) map[string]*c13Chain {
	mk := func(kind string, stated bool, certs []*x509.Certificate, ca, ok []bool) *c13Chain {
		return &c13Chain{kind: kind, certs: certs, ca: ca, anchorOK: ok, stated: stated}
	}
	f, tr := false, true
	cs := []*c13Chain{
		mk("L", tr, []*x509.Certificate{p.leaf}, []bool{f}, []bool{f}),
		mk("LI", tr, []*x509.Certificate{p.leaf, p.inter}, []bool{f, tr}, []bool{f, tr}),
		mk("LIR", tr, []*x509.Certificate{p.leaf, p.inter, p.root}, []bool{f, tr, tr}, []bool{f, tr, tr}),
		mk("X", tr, []*x509.Certificate{p.expLeaf, p.inter, p.root}, []bool{f, tr, tr}, []bool{f, f, f}),
		mk("W", tr, []*x509.Certificate{p.wrongLeaf, p.inter, p.root}, []bool{f, tr, tr}, []bool{f, f, f}),
		// the server certificate is itself a (self-signed) CA certificate: it is its own anchor
		mk("S", f, []*x509.Certificate{p.selfCA}, []bool{tr}, []bool{tr}),
		// an unrelated CA certificate is presented next to the leaf
		mk("F", f, []*x509.Certificate{p.leaf, p.foreign}, []bool{f, tr}, []bool{f, f}),
		// the root is presented but the intermediate is missing: no path
		mk("LR", f, []*x509.Certificate{p.leaf, p.root}, []bool{f, tr}, []bool{f, f}),
		// the leaf is issued for the canonical name of an aliased MX, and chains to the anchors:
		// not valid for the MX host name
		mk("C", f, []*x509.Certificate{p.canonLeaf, p.inter, p.root}, []bool{f, tr, tr}, []bool{f, f, f}),
		// a PKIX-valid chain plus a STRAY CA certificate the leaf does not chain to — what a server
		// sends that wants a DANE-TA record for that CA to "match": the leaf of our hierarchy with the
		// self-signed foreign root appended,
		mk("G", f, []*x509.Certificate{p.leaf, p.inter, p.foreign}, []bool{f, tr, tr}, []bool{f, tr, f}),
		// the leaf of the foreign hierarchy, its root, and our intermediate appended,
		mk("J", f, []*x509.Certificate{p.foreignLeaf, p.foreign, p.inter}, []bool{f, tr, tr}, []bool{f, tr, f}),
		// the leaf of the foreign hierarchy (its root is in the client's store, not sent) with our
		// intermediate appended: no presented certificate is an anchor of the leaf
		mk("M", f, []*x509.Certificate{p.foreignLeaf, p.inter}, []bool{f, tr}, []bool{f, f}),
		// no certificate at all (what ConnectionState holds without TLS)
		mk("E", f, nil, nil, nil),
	}
	// properly issued under the pinned CA, no subjectAltName DNS name: not a certificate for the MX host
	for _, c := range []*c13Chain{
		mk("V", f, []*x509.Certificate{p.cnOtherLeaf, p.inter, p.root}, []bool{f, tr, tr}, []bool{f, f, f}),
		mk("U", f, []*x509.Certificate{p.cnLeaf, p.inter, p.root}, []bool{f, tr, tr}, []bool{f, f, f}),
		mk("Z", f, []*x509.Certificate{p.ipLeaf, p.inter, p.root}, []bool{f, tr, tr}, []bool{f, f, f}),
	} {
		cs = append(cs, c)
	}
	// a good leaf whose path to the anchors is NOT valid although every signature is: the intermediate
	// expired (the leaf was issued before that), is not valid yet, is no CA certificate, may not be used
	// for server authentication, is name-constrained to another domain; the root certificate expired, or
	// allows no CA below it (the intermediate, as the anchor, is fine; the system store holds the current
	// root certificate of the same key: ordinary verification passes)
	for _, c := range []*c13Chain{
		mk("P", f, []*x509.Certificate{p.leaf, p.expInter, p.root}, []bool{f, tr, tr}, []bool{f, f, f}),
		mk("Q", f, []*x509.Certificate{p.leaf, p.futInter, p.root}, []bool{f, tr, tr}, []bool{f, f, f}),
		mk("T", f, []*x509.Certificate{p.leaf, p.inter, p.expRoot}, []bool{f, tr, tr}, []bool{f, tr, f}),
		mk("N", f, []*x509.Certificate{p.leaf, p.nonCAInter, p.root}, []bool{f, f, tr}, []bool{f, f, f}),
		mk("K", f, []*x509.Certificate{p.leaf, p.ekuInter, p.root}, []bool{f, tr, tr}, []bool{f, f, f}),
		mk("H", f, []*x509.Certificate{p.leaf, p.ncInter, p.root}, []bool{f, tr, tr}, []bool{f, f, f}),
		mk("Y", f, []*x509.Certificate{p.leaf, p.inter, p.plRoot}, []bool{f, tr, tr}, []bool{f, tr, f}),
	} {
		c.tI, c.tR = c.certs[1], c.certs[2]
		cs = append(cs, c)
	}
	out := map[string]*c13Chain{}
	for _, c := range cs {
		n := len(c.certs)
		var ca strings.Builder
		for j, crt := range c.certs {
			if crt.IsCA != c.ca[j] {
				t.Fatalf("c13 self-check: chain %s cert %d IsCA=%v, constructed as %v", c.kind, j, crt.IsCA, c.ca[j])
			}
			ca.WriteString(c13b(crt.IsCA))
		}
		c.caBits = c13dash(ca.String())
		var v strings.Builder
		for mask := 0; mask < 1<<n; mask++ {
			if n == 0 {
				v.WriteString("0")
				break
			}
			roots, inters := x509.NewCertPool(), x509.NewCertPool()
			for j, crt := range c.certs {
				if mask&(1<<j) != 0 {
					roots.AddCert(crt)
				} else {
					inters.AddCert(crt)
				}
			}
			_, err := c.certs[0].Verify(x509.VerifyOptions{DNSName: c13MX, Roots: roots, Intermediates: inters})
			v.WriteString(c13b(err == nil))
		}
		c.vBits = v.String()
		for _, alt := range []struct {
			name string
			dst  *string
		}{{"", &c.vBitsNone}, {c13OtherName, &c.vBitsOther}} {
			var vb strings.Builder
			for mask := 0; mask < 1<<n; mask++ {
				if n == 0 {
					vb.WriteString("0")
					break
				}
				roots, inters := x509.NewCertPool(), x509.NewCertPool()
				for j, crt := range c.certs {
					if mask&(1<<j) != 0 {
						roots.AddCert(crt)
					} else {
						inters.AddCert(crt)
					}
				}
				_, err := c.certs[0].Verify(x509.VerifyOptions{DNSName: alt.name, Roots: roots, Intermediates: inters})
				vb.WriteString(c13b(err == nil))
			}
			*alt.dst = vb.String()
		}
		// the two laws C13_authenticates_iff_spec assumes of x509, observed on this chain: an empty
		// (non-nil) root pool verifies nothing; pools are sets (order and repetition of AddCert
		// calls do not matter)
		if c.vBits[0] != '0' {
			t.Fatalf("c13 self-check: chain %s verifies against an empty root pool", c.kind)
		}
		for mask := 1; mask < 1<<n; mask++ {
			roots, inters := x509.NewCertPool(), x509.NewCertPool()
			for rep := 0; rep < 2; rep++ {
				for j := n - 1; j >= 0; j-- {
					if mask&(1<<j) != 0 {
						roots.AddCert(c.certs[j])
					} else {
						inters.AddCert(c.certs[j])
					}
				}
			}
			_, err := c.certs[0].Verify(x509.VerifyOptions{DNSName: c13MX, Roots: roots, Intermediates: inters})
			if c13b(err == nil) != string(c.vBits[mask]) {
				t.Fatalf("c13 self-check: chain %s mask %d: x509 result depends on order/repetition of AddCert", c.kind, mask)
			}
			// a valid path ends at one root and stays valid when the other roots become intermediates
			// (hypothesis of C13_authenticated_chains_to_matched_anchor)
			if c.vBits[mask] == '1' {
				found := false
				for j := 0; j < n; j++ {
					if mask&(1<<j) != 0 && c.vBits[1<<j] == '1' {
						found = true
					}
				}
				if !found {
					t.Fatalf("c13 self-check: chain %s mask %d verifies but no single root of it does", c.kind, mask)
				}
			}
		}
		// self-check of the ground truth: per-anchor validation with the whole presented chain as
		// intermediates must agree with how the chain was constructed
		for j := range c.certs {
			if !c.ca[j] {
				continue
			}
			roots, inters := x509.NewCertPool(), x509.NewCertPool()
			roots.AddCert(c.certs[j])
			for _, crt := range c.certs {
				inters.AddCert(crt)
			}
			_, err := c.certs[0].Verify(x509.VerifyOptions{DNSName: c13MX, Roots: roots, Intermediates: inters})
			if (err == nil) != c.anchorOK[j] {
				t.Fatalf("c13 self-check: chain %s anchor %d: x509 says %v, constructed as %v", c.kind, j, err, c.anchorOK[j])
			}
		}
		// ordinary verification at a client that trusts both roots, as crypto/tls does it (roots = the
		// client's pool, intermediates = the other presented certificates, DNSName = the MX host)
		c.pkix = c13PKIXKinds[c.kind]
		if n > 0 {
			inters := x509.NewCertPool()
			for _, crt := range c.certs[1:] {
				inters.AddCert(crt)
			}
			vc, err := c.certs[0].Verify(x509.VerifyOptions{DNSName: c13MX, Roots: p.publicPool(), Intermediates: inters})
			if (err == nil) != c.pkix {
				t.Fatalf("c13 self-check: chain %s: PKIX verification says %v, constructed as %v", c.kind, err, c.pkix)
			}
			if err == nil {
				c.verified = vc
			}
		}
		out[c.kind] = c
	}
	return out
}

func c13b(b bool) string {
	if b {
		return "1"
	}
	return "0"
}

func c13dash(s string) string {
	if s == "" {
		return "-"
	}
	return s
}

func (c *c13Chain) token() string {
	return fmt.Sprintf("%d:%s:%s", len(c.certs), c.caBits, c.vBits)
}

// ---------------------------------------------------------------- records

// c13Rec is one TLSA record: its three parameters and where its association data comes from:
// target certificate (L = the presented leaf, I = intermediate, R = root, F = foreign CA,
// N = nothing) hashed/selected with (dsel, dmt) — which usually but not always equal the
// record's own selector and matching type.
type c13Rec struct {
	usage, sel, mt uint8
	target         byte
	dsel, dmt      uint8
	owner          uint8 // index into c13Owners
	// def: the association data is not what (dsel, dmt) yield but a deformation of it, of a length
	// no digest of that matching type has — 0 none; 't' last byte missing (31-byte "SHA-256"),
	// 'e' empty, 'o' one byte too many, 'h' first half only, 's' the digest of the other size
	// (SHA-512 where SHA-256 is declared and vice versa; a SHA-256 digest where the full data is).
	// Such a record can match nothing; it is a usable record all the same when its usage, selector
	// and matching type are (RFC 7672 §3.1).
	def byte
}

const c13Defs = "teohs"

func (r c13Rec) kind() string {
	if r.def != 0 {
		return fmt.Sprintf("%c%d%d%c", r.target, r.dsel, r.dmt, r.def)
	}
	return fmt.Sprintf("%c%d%d", r.target, r.dsel, r.dmt)
}

func c13Deform(b []byte, def byte, other []byte) []byte {
	switch def {
	case 't':
		return append([]byte(nil), b[:len(b)-1]...)
	case 'e':
		return nil
	case 'o':
		return append(append([]byte(nil), b...), 0x5a)
	case 'h':
		return append([]byte(nil), b[:len(b)/2]...)
	case 's':
		return other
	}
	return b
}

func c13Select(c *x509.Certificate, sel uint8) []byte {
	if sel == 1 {
		return c.RawSubjectPublicKeyInfo
	}
	return c.Raw
}

func c13Hash(b []byte, mt uint8) []byte {
	switch mt {
	case 1:
		h := sha256.Sum256(b)
		return h[:]
	case 2:
		h := sha512.Sum512(b)
		return h[:]
	}
	return b
}

type c13World struct {
	pki    *c13PKI
	chains map[string]*c13Chain
	dns    *c13DNS // only in the tests that need one
}

func (w *c13World) targetCert(r c13Rec, ch *c13Chain) *x509.Certificate {
	switch r.target {
	case 'L':
		if len(ch.certs) > 0 {
			return ch.certs[0]
		}
		return w.pki.leaf
	case 'I':
		if ch.tI != nil {
			return ch.tI
		}
		return w.pki.inter
	case 'R':
		if ch.tR != nil {
			return ch.tR
		}
		return w.pki.root
	case 'F':
		return w.pki.foreign
	}
	return nil
}

// association data of the record (bytes)
func (w *c13World) data(r c13Rec, ch *c13Chain) []byte {
	c := w.targetCert(r, ch)
	src := []byte("verif: no such certificate " + fmt.Sprintf("%c%d%d", r.target, r.dsel, r.dmt))
	dmt := map[uint8]uint8{0: 1, 1: 1, 2: 2}[r.dmt] // matches nothing: a digest of the right length of something that is no certificate
	if c != nil {
		src, dmt = c13Select(c, r.dsel%2), r.dmt%3
	}
	if r.def == 0 {
		return c13Hash(src, dmt)
	}
	return c13Deform(c13Hash(src, dmt), r.def, c13Hash(src, map[uint8]uint8{0: 1, 1: 2, 2: 1}[dmt]))
}

func (w *c13World) tlsa(r c13Rec, ch *c13Chain) dns.TLSA {
	return dns.TLSA{
		Hdr: miekgdns.RR_Header{
			Name:   c13Owners[r.owner],
			Class:  miekgdns.ClassINET,
			Rrtype: miekgdns.TypeTLSA,
			Ttl:    9999,
		},
		Usage:        r.usage,
		Selector:     r.sel,
		MatchingType: r.mt,
		Certificate:  hex.EncodeToString(w.data(r, ch)),
	}
}

// the harness' own notion of "usable" (RFC 7672 §3.1 / the property text)
func c13Usable(usage, sel, mt uint8) bool {
	return (usage == 2 || usage == 3) && sel <= 1 && mt <= 2
}

// c13Matches: does association data `data` of a record with parameters (sel, mt) match certificate
// c? Computed directly (RFC 6698 §2.1), not through miekg's TLSA.Verify.
func c13Matches(sel, mt uint8, data []byte, c *x509.Certificate) bool {
	if sel > 1 || mt > 2 {
		return false
	}
	return bytes.Equal(data, c13Hash(c13Select(c, sel), mt))
}

// bit mask of the presented certificates the record matches (bit j = certificate j)
func c13Tag(sel, mt uint8, data []byte, ch *c13Chain) int {
	tag := 0
	for j, c := range ch.certs {
		if c13Matches(sel, mt, data, c) {
			tag |= 1 << j
		}
	}
	return tag
}

func (w *c13World) recToken(r c13Rec, ch *c13Chain) string {
	data := w.data(r, ch)
	return fmt.Sprintf("%d.%d.%d.%s.%d.%d.%d", r.usage, r.sel, r.mt, r.kind(), c13Tag(r.sel, r.mt, data, ch), r.owner, len(data))
}

func c13ParseRec(tok string) (c13Rec, error) {
	p := strings.Split(tok, ".")
	if len(p) < 4 || (len(p[3]) != 3 && !(len(p[3]) == 4 && strings.IndexByte(c13Defs, p[3][3]) >= 0)) {
		return c13Rec{}, fmt.Errorf("bad record token %q", tok)
	}
	var v [3]uint8
	for i := 0; i < 3; i++ {
		x, err := strconv.ParseUint(p[i], 10, 8)
		if err != nil {
			return c13Rec{}, err
		}
		v[i] = uint8(x)
	}
	rec := c13Rec{usage: v[0], sel: v[1], mt: v[2], target: p[3][0], dsel: p[3][1] - '0', dmt: p[3][2] - '0'}
	if len(p[3]) == 4 {
		rec.def = p[3][3]
	}
	// usage.selector.mtype.kind.tag.owner.dlen (op tokens) or usage.selector.mtype.kind.o<owner> (zone codes)
	otok := ""
	if len(p) >= 6 {
		otok = p[5]
	} else if len(p) == 5 && strings.HasPrefix(p[4], "o") {
		otok = p[4][1:]
	}
	if otok != "" {
		x, err := strconv.ParseUint(otok, 10, 8)
		if err != nil || int(x) >= len(c13Owners) {
			return c13Rec{}, fmt.Errorf("bad owner in record token %q", tok)
		}
		rec.owner = uint8(x)
	}
	return rec, nil
}

// an owner name for a generated record: mostly the usual one
func c13RandOwner(r *vh.Rng, n int) uint8 {
	if r.Chance(60) {
		return 0
	}
	return uint8(r.Intn(n))
}

var (
	c13Usages    = []uint8{0, 1, 2, 3, 4, 255}
	c13Selectors = []uint8{0, 1, 2, 255}
	c13MTypes    = []uint8{0, 1, 2, 3, 255}
	c13Targets   = []byte{'L', 'I', 'R', 'N', 'F'}
)

func c13RandRec(r *vh.Rng) c13Rec {
	var rec c13Rec
	switch {
	case r.Chance(40):
		rec.usage = 3
	case r.Chance(60):
		rec.usage = 2
	default:
		rec.usage = c13Usages[r.Intn(len(c13Usages))]
	}
	if r.Chance(80) {
		rec.sel = uint8(r.Intn(2))
	} else {
		rec.sel = c13Selectors[r.Intn(len(c13Selectors))]
	}
	if r.Chance(80) {
		rec.mt = uint8(r.Intn(3))
	} else {
		rec.mt = c13MTypes[r.Intn(len(c13MTypes))]
	}
	if r.Chance(85) {
		rec.target = c13Targets[r.Intn(4)]
	} else {
		rec.target = 'F'
	}
	rec.dsel, rec.dmt = rec.sel%2, rec.mt%3
	if r.Chance(12) { // data derived with other parameters than the record declares
		rec.dsel, rec.dmt = uint8(r.Intn(2)), uint8(r.Intn(3))
	}
	rec.owner = c13RandOwner(r, len(c13Owners))
	if r.Chance(10) {
		rec.def = c13Defs[r.Intn(len(c13Defs))]
	}
	return rec
}

// the usable record types, association data from leaf / intermediate / root, under every deformation
func c13MalformedTypes() []c13Rec {
	var out []c13Rec
	for _, u := range []uint8{2, 3} {
		for _, s := range []uint8{0, 1} {
			for _, m := range []uint8{0, 1, 2} {
				for _, tg := range []byte{'L', 'I', 'R'} {
					for i := range c13Defs {
						out = append(out, c13Rec{usage: u, sel: s, mt: m, target: tg, dsel: s, dmt: m, def: c13Defs[i]})
					}
				}
			}
		}
	}
	return out
}

// the record types of the property's quantifier: usage 0-3 and out of range, selector 0-1 and out
// of range, matching type 0-2 and out of range, data matching leaf / intermediate / root / nothing
func c13StatedRecTypes() []c13Rec {
	var out []c13Rec
	for _, u := range []uint8{0, 1, 2, 3, 4} {
		for _, s := range []uint8{0, 1, 2} {
			for _, m := range []uint8{0, 1, 2, 3} {
				for _, tg := range []byte{'L', 'I', 'R', 'N'} {
					out = append(out, c13Rec{usage: u, sel: s, mt: m, target: tg, dsel: s % 2, dmt: m % 3})
				}
			}
		}
	}
	return out
}

// ---------------------------------------------------------------- ground truth for the monitor

type c13Truth struct {
	nrecs      int
	anyUsable  bool
	eeMatch    bool // a usable DANE-EE record matches the server's own certificate
	taMatch    bool // a usable DANE-TA record matches a CA certificate of the chain the leaf validly chains to
	anyTA      bool
	anyEE      bool
	taOnNonCA  bool
	taOnBadAnc bool
}

func (w *c13World) truth(recs []c13Rec, ch *c13Chain) c13Truth {
	tr := c13Truth{nrecs: len(recs)}
	for _, r := range recs {
		if !c13Usable(r.usage, r.sel, r.mt) {
			continue
		}
		tr.anyUsable = true
		data := w.data(r, ch)
		if r.usage == 3 {
			tr.anyEE = true
			if len(ch.certs) > 0 && c13Matches(r.sel, r.mt, data, ch.certs[0]) {
				tr.eeMatch = true
			}
		} else {
			tr.anyTA = true
			for j, c := range ch.certs {
				if !c13Matches(r.sel, r.mt, data, c) {
					continue
				}
				switch {
				case !ch.ca[j]:
					tr.taOnNonCA = true
				case ch.anchorOK[j]:
					tr.taMatch = true
				default:
					tr.taOnBadAnc = true
				}
			}
		}
	}
	return tr
}

func (tr c13Truth) matched() bool { return tr.eeMatch || tr.taMatch }

func (tr c13Truth) path(hs bool) string {
	switch {
	case tr.nrecs == 0:
		return "no-records"
	case !hs:
		return "no-tls"
	case !tr.anyUsable:
		return "unusable-only"
	case tr.eeMatch:
		return "ee-match"
	case tr.taMatch:
		return "ta-match"
	case !tr.anyTA:
		return "ee-only-no-match"
	case tr.taOnNonCA && !tr.taOnBadAnc:
		return "ta-matches-non-ca-only"
	case tr.taOnBadAnc:
		return "ta-anchor-but-no-valid-path"
	}
	return "ta-no-match"
}

// ---------------------------------------------------------------- verifyDANE

func c13ErrKind(err error) string {
	if err == nil {
		return "nil"
	}
	var se *exterrors.SMTPError
	if errors.As(err, &se) && se.Code == 550 {
		switch se.EnhancedCode {
		case exterrors.EnhancedCode{5, 7, 1}:
			return "tls"
		case exterrors.EnhancedCode{5, 7, 0}:
			return "nomatch"
		}
	}
	if exterrors.IsTemporary(err) {
		return "temp"
	}
	return "other-error"
}

func (w *c13World) connState(hs bool, ch *c13Chain) tls.ConnectionState {
	return tls.ConnectionState{HandshakeComplete: hs, ServerName: c13MX, PeerCertificates: ch.certs}
}

func c13CallVerify(recs []dns.TLSA, st tls.ConnectionState) (override bool, err error, panicked bool) {
	defer func() {
		if r := recover(); r != nil {
			panicked = true
		}
	}()
	override, err = verifyDANE(recs, st)
	return
}

func (w *c13World) verifyCase(out *vh.Out, recs []c13Rec, ck string, hs bool, stats bool) {
	w.verifyCaseV(out, recs, ck, hs, false, stats)
}

// vc: the connection state carries VerifiedChains — the handshake was made WITH certificate
// verification by a client trusting both roots and passed it (only possible for the chains with
// pkix). What crypto/tls verified is not an input of the DANE decision: the model does not get it
// (the `z=` token carries it for replay), the monitor's rules are the same.
func (w *c13World) verifyCaseV(out *vh.Out, recs []c13Rec, ck string, hs, vc bool, stats bool) {
	ch := w.chains[ck]
	vc = vc && hs && ch.verified != nil
	var toks []string
	var rrs []dns.TLSA
	for _, r := range recs {
		toks = append(toks, w.recToken(r, ch))
		rrs = append(rrs, w.tlsa(r, ch))
	}
	zk := ck
	if vc {
		zk += "+v"
	}
	op := fmt.Sprintf("C13 verify z=%s %s %s | %s", zk, c13b(hs), ch.token(), strings.Join(toks, " "))
	op = strings.TrimRight(op, " ")

	st := w.connState(hs, ch)
	if vc {
		st.VerifiedChains = ch.verified
	}
	override, err, panicked := c13CallVerify(rrs, st)
	obs := "panic"
	if !panicked {
		obs = "ret " + c13b(override) + " " + c13ErrKind(err)
	}
	out.Corr(op, obs)

	// ---- monitor: the property on the real execution
	tr := w.truth(recs, ch)
	inSpace := len(ch.certs) > 0 || !hs // a completed handshake has at least one peer certificate
	if panicked {
		if inSpace {
			out.Violation("C13/panic", op, "verifyDANE panicked")
		}
	} else if inSpace {
		detail := fmt.Sprintf("overridePKIX=%v err=%v; truth: records=%d usable=%v ee-match=%v ta-match=%v handshake=%v",
			override, err, tr.nrecs, tr.anyUsable, tr.eeMatch, tr.taMatch, hs)
		matched := hs && tr.matched()
		if override && err == nil && !matched {
			out.Violation("C13/authenticated-without-match", op, detail)
		}
		if override && err != nil {
			out.Violation("C13/override-reported-with-refusal", op, detail)
		}
		if tr.nrecs > 0 && !hs && err == nil {
			out.Violation("C13/no-tls-not-refused", op, detail)
		}
		if hs && tr.anyUsable && !tr.matched() && err == nil {
			out.Violation("C13/mismatch-not-refused", op, detail)
		}
		if !tr.anyUsable && (override || (hs && err != nil)) {
			out.Violation("C13/unusable-only-not-neutral", op, detail)
		}
	}
	if stats {
		n := len(recs)
		if n > 5 {
			n = 5
		}
		out.Stat(fmt.Sprintf("verify/records:%d", n))
		out.Stat("verify/chain:" + ck)
		if hs {
			out.Stat("verify/verified-chains:" + c13b(vc))
		}
		out.Stat("verify/path:" + tr.path(hs))
		out.Stat("verify/outcome:" + obs)
		for _, r := range recs {
			out.Stat(fmt.Sprintf("verify/rec-owner:%d", r.owner))
			if r.def != 0 {
				out.Stat("verify/rec-data:malformed-" + string(r.def))
			} else {
				out.Stat("verify/rec-data:well-formed")
			}
			switch {
			case c13Usable(r.usage, r.sel, r.mt) && r.usage == 3:
				out.Stat("verify/rec:usable-ee")
			case c13Usable(r.usage, r.sel, r.mt):
				out.Stat("verify/rec:usable-ta")
			case r.usage != 2 && r.usage != 3:
				out.Stat("verify/rec:unusable-usage")
			case r.sel > 1:
				out.Stat("verify/rec:unusable-selector")
			default:
				out.Stat("verify/rec:unusable-mtype")
			}
		}
	}
}

func c13ParseVerify(op string) (ck string, hs, vc bool, recs []c13Rec, err error) {
	toks := strings.Fields(op)
	if len(toks) < 5 || toks[0] != "C13" || toks[1] != "verify" || !strings.HasPrefix(toks[2], "z=") {
		return "", false, false, nil, fmt.Errorf("bad verify op %q", op)
	}
	ck = toks[2][2:]
	if strings.HasSuffix(ck, "+v") {
		ck, vc = strings.TrimSuffix(ck, "+v"), true
	}
	hs = toks[3] == "1"
	bar := false
	for _, tk := range toks[4:] {
		if tk == "|" {
			bar = true
			continue
		}
		if !bar {
			continue
		}
		r, e := c13ParseRec(tk)
		if e != nil {
			return "", false, false, nil, e
		}
		recs = append(recs, r)
	}
	return
}

func c13NewWorld(t *testing.T) *c13World {
	verifyDANETime = time.Time{}
	p := c13MakePKI(t)
	w := &c13World{pki: p, chains: c13MakeChains(t, p)}
	c13SystemPoolCheck(t, w)
	return w
}

func c13Shuffle(r *vh.Rng, recs []c13Rec) []c13Rec {
	out := append([]c13Rec(nil), recs...)
	for i := len(out) - 1; i > 0; i-- {
		j := r.Intn(i + 1)
		out[i], out[j] = out[j], out[i]
	}
	return out
}

func TestVerifC13Verify(t *testing.T) {
	out := vh.Open("c13_verify")
	defer out.Close()
	w := c13NewWorld(t)

	if rp := vh.Replay(); rp != nil {
		for _, op := range rp {
			if !strings.HasPrefix(op, "C13 verify ") {
				continue
			}
			ck, hs, vc, recs, err := c13ParseVerify(op)
			if err != nil || w.chains[ck] == nil {
				t.Fatalf("cannot replay %q: %v", op, err)
			}
			w.verifyCaseV(out, recs, ck, hs, vc, true)
		}
		return
	}

	rng := vh.NewRng(vh.Seed() + 1300).Fork() // Fork: consecutive seeds of vh.NewRng give the same stream shifted by one draw
	types := c13StatedRecTypes()
	stated := []string{"L", "LI", "LIR", "X", "W"}

	// (0) first of all the plainest case of every bad-path chain: `2 1 1` with the SPKI digest of the
	// chain's root certificate (the grids below contain it again; a violation report quotes the first
	// of the shortest failing op lines)
	for _, ck := range c13HardKinds {
		w.verifyCase(out, []c13Rec{{usage: 2, sel: 1, mt: 1, target: 'R', dsel: 1, dmt: 1}}, ck, true, true)
	}
	// (1) exhaustive: the stated space for multisets of size 0 and 1, all chains (extras included),
	// with and without a completed handshake
	for _, ck := range c13ChainKinds {
		for _, hs := range []bool{true, false} {
			w.verifyCase(out, nil, ck, hs, true)
			for _, a := range types {
				w.verifyCase(out, []c13Rec{a}, ck, hs, true)
			}
			// the same on a state that carries VerifiedChains (first handshake, verification passed)
			if hs && w.chains[ck].verified != nil {
				w.verifyCaseV(out, nil, ck, hs, true, true)
				for _, a := range types {
					w.verifyCaseV(out, []c13Rec{a}, ck, hs, true, true)
				}
			}
		}
	}
	out.Note(fmt.Sprintf("verify: exhaustive sizes 0-1 over %d record types x %d chains x handshake", len(types), len(c13ChainKinds)))

	// (1b) the owner name of the record: every usable record type under every other owner name
	// (CNAME'd RRsets, odd names), all chains — the leaf issued for another name that chains to
	// the matched anchor (W, C) among them
	cnt1b := 0
	badPath := map[string]bool{}
	for _, ck := range c13HardKinds {
		badPath[ck] = true
	}
	for o := 1; o < len(c13Owners); o++ {
		for ci, ck := range c13ChainKinds {
			if badPath[ck] && !vh.Thorough() && (o+ci+int(vh.Seed()))%3 != 0 {
				continue // quick: a third of the owner names (rotating) on these chains
			}
			for _, a := range types {
				if !c13Usable(a.usage, a.sel, a.mt) {
					continue
				}
				a.owner = uint8(o)
				w.verifyCaseV(out, []c13Rec{a}, ck, true, (o+cnt1b)%2 == 0, true)
				cnt1b++
			}
		}
	}
	out.Note(fmt.Sprintf("verify: usable record types x %d other owner names x %d chains: %d cases", len(c13Owners)-1, len(c13ChainKinds), cnt1b))

	// (1c) association data of a wrong length (truncated, empty, over-long, half, the other digest
	// size): every usable record type, alone — with and without a handshake — and next to a
	// well-formed record that does / does not match
	cnt1c := 0
	for _, a := range c13MalformedTypes() {
		for _, ck := range c13ChainKinds {
			if !vh.Thorough() && ck != "LIR" && ck != "L" && ck != "W" && ck != "S" {
				continue
			}
			w.verifyCase(out, []c13Rec{a}, ck, true, true)
			cnt1c++
		}
		w.verifyCase(out, []c13Rec{a}, "LIR", false, true)
		w.verifyCase(out, []c13Rec{a}, "E", false, true)
		good := c13Rec{usage: 2, sel: 1, mt: 1, target: 'R', dsel: 1, dmt: 1}
		bad := c13Rec{usage: 3, sel: 1, mt: 1, target: 'N', dsel: 1, dmt: 1}
		w.verifyCase(out, c13Shuffle(rng, []c13Rec{a, good}), "LIR", true, true)
		w.verifyCase(out, c13Shuffle(rng, []c13Rec{a, bad}), "LIR", true, true)
		cnt1c += 4
	}
	out.Note(fmt.Sprintf("verify: usable record types with malformed association data: %d cases", cnt1c))

	// (1d) a stray CA certificate in the presented chain: the chain passes ordinary verification (the
	// state carries VerifiedChains, or not: the InsecureSkipVerify retry) and ALSO contains a CA
	// certificate the leaf does not chain to. A DANE-TA record for that certificate matches a
	// presented CA certificate — and must not authenticate; a record for the CA that did issue the
	// leaf must. Every usable DANE-TA type x the CA certificates of both hierarchies, alone, in pairs,
	// and next to a non-matching DANE-EE record.
	cnt1d := 0
	var taTypes []c13Rec
	for _, s := range []uint8{0, 1} {
		for _, m := range []uint8{0, 1, 2} {
			for _, tg := range []byte{'I', 'R', 'F'} {
				taTypes = append(taTypes, c13Rec{usage: 2, sel: s, mt: m, target: tg, dsel: s, dmt: m})
			}
		}
	}
	eeMiss := c13Rec{usage: 3, sel: 1, mt: 1, target: 'N', dsel: 1, dmt: 1}
	for _, ck := range append([]string{"G", "J", "M", "LIR", "LI", "F", "LR"}, c13HardKinds...) {
		for _, vc := range []bool{true, false} {
			if vc && w.chains[ck].verified == nil {
				continue
			}
			for i, a := range taTypes {
				w.verifyCaseV(out, []c13Rec{a}, ck, true, vc, true)
				w.verifyCaseV(out, c13Shuffle(rng, []c13Rec{a, eeMiss}), ck, true, vc, true)
				b := taTypes[(i+1+rng.Intn(len(taTypes)-1))%len(taTypes)]
				w.verifyCaseV(out, []c13Rec{a, b}, ck, true, vc, true)
				cnt1d += 3
			}
		}
	}
	out.Note(fmt.Sprintf("verify: stray-anchor chains x usable DANE-TA types, with / without VerifiedChains: %d cases", cnt1d))

	// (1e) usable DANE-TA records none of which matches a CA certificate of the presented chain — a stale
	// pin (the CA rotated its intermediate: data of no presented certificate, or of a CA that is not in
	// the chain), a pin that matches only the non-CA leaf — while the chain IS valid for the MX name under
	// the SYSTEM trust store of the process (c13InstallSystemRoots: both roots of the harness; chains LI,
	// LIR, G, J, M) or is not (L, W, X, LR): no trust anchor is asserted, the connection is refused. An
	// implementation that lets crypto/x509 fall back to the system pool authenticates the first group.
	cnt1e := 0
	var stale []c13Rec
	for _, s := range []uint8{0, 1} {
		for _, m := range []uint8{0, 1, 2} {
			for _, tg := range []byte{'L', 'N', 'F'} {
				stale = append(stale, c13Rec{usage: 2, sel: s, mt: m, target: tg, dsel: s, dmt: m})
			}
		}
	}
	for _, ck := range []string{"LI", "LIR", "G", "J", "M", "L", "W", "X", "LR"} {
		for _, vc := range []bool{true, false} {
			if vc && w.chains[ck].verified == nil {
				continue
			}
			for i, a := range stale {
				if a.target == 'F' && (ck == "G" || ck == "J" || ck == "M") {
					continue // the foreign root is presented in these: block (1d)
				}
				w.verifyCaseV(out, []c13Rec{a}, ck, true, vc, true)
				w.verifyCaseV(out, c13Shuffle(rng, []c13Rec{a, eeMiss}), ck, true, vc, true)
				b := stale[(i+1+rng.Intn(len(stale)-1))%len(stale)]
				w.verifyCaseV(out, []c13Rec{a, b}, ck, true, vc, true)
				cnt1e += 3
			}
		}
	}
	out.Note(fmt.Sprintf("verify: DANE-TA records matching no presented CA certificate x chains valid / not valid under the system trust store: %d cases", cnt1e))

	// (1f) ORDERED pairs of usable records of one usage with different (selector, matching type): the
	// second record declares one form and carries the association data of the certificate under the
	// FIRST record's form (so it matches nothing), the first one is of that form and matches nothing /
	// matches. An implementation that keeps per-certificate association data between records (a cache
	// keyed by less than the pair) compares the second record with the wrong digest. Both orders.
	cnt1f := 0
	forms := [][2]uint8{{0, 0}, {0, 1}, {0, 2}, {1, 0}, {1, 1}, {1, 2}}
	for _, usage := range []uint8{2, 3} {
		tg := byte('L')
		if usage == 2 {
			tg = 'I'
		}
		for _, f1 := range forms {
			for _, f2 := range forms {
				if f1 == f2 {
					continue
				}
				first := c13Rec{usage: usage, sel: f1[0], mt: f1[1], target: 'N', dsel: f1[0], dmt: f1[1]}
				second := c13Rec{usage: usage, sel: f2[0], mt: f2[1], target: tg, dsel: f1[0], dmt: f1[1]}
				for _, ck := range []string{"LIR", "LI"} {
					w.verifyCaseV(out, []c13Rec{first, second}, ck, true, false, true)
					w.verifyCaseV(out, []c13Rec{second, first}, ck, true, false, true)
					cnt1f += 2
				}
				// the first one matches: authenticated either way; then a stale one of the other form in front
				first.target = tg
				w.verifyCaseV(out, []c13Rec{first, second}, "LIR", true, false, true)
				w.verifyCaseV(out, []c13Rec{second, first}, "LIR", true, false, true)
				cnt1f += 2
			}
		}
	}
	out.Note(fmt.Sprintf("verify: ordered pairs of record forms, the second carrying the data of the first one's form: %d cases", cnt1f))

	// (2) every multiset of size 2 over the stated record types, completed handshake (without a
	// handshake the verdict only depends on emptiness: sampled below): quick on the full chain,
	// thorough on all nine chains
	size2 := []string{"LIR"}
	if vh.Thorough() {
		size2 = c13ChainKinds
	}
	cnt := 0
	for i := range types {
		for j := i; j < len(types); j++ {
			pair := []c13Rec{types[i], types[j]}
			if rng.Bool() {
				pair[0], pair[1] = pair[1], pair[0]
			}
			if rng.Chance(25) { // the RRset lives under another name, or the two records under two names
				pair[0].owner = uint8(1 + rng.Intn(len(c13Owners)-1))
				pair[1].owner = pair[0].owner
				if rng.Chance(30) {
					pair[1].owner = uint8(rng.Intn(len(c13Owners)))
				}
			}
			for _, ck := range size2 {
				w.verifyCaseV(out, pair, ck, true, rng.Bool(), true)
				cnt++
			}
		}
	}
	out.Note(fmt.Sprintf("verify: exhaustive size 2 on chains %v: %d cases", size2, cnt))

	// (2b) thorough: every multiset of size 3 over a reduced alphabet (one unusable and the two
	// usable usages, all selectors classes, one usable and one unusable matching type, all four
	// data kinds), the five stated chains
	if vh.Thorough() {
		var red []c13Rec
		for _, r := range types {
			if (r.usage == 1 || r.usage == 2 || r.usage == 3) && (r.mt == 1 || r.mt == 3) {
				red = append(red, r)
			}
		}
		cnt = 0
		for i := range red {
			for j := i; j < len(red); j++ {
				for k := j; k < len(red); k++ {
					tri := c13Shuffle(rng, []c13Rec{red[i], red[j], red[k]})
					for _, ck := range stated {
						w.verifyCase(out, tri, ck, true, true)
						cnt++
					}
				}
			}
		}
		out.Note(fmt.Sprintf("verify: exhaustive size 3 over %d record types: %d cases", len(red), cnt))
	}

	// (3) sampled: sizes 0-6 (the property stops at 4), all chains, wider parameter values, data
	// derived with parameters other than the declared ones, foreign CA data
	n := vh.N(4000)
	for i := 0; i < n; i++ {
		var k int
		switch {
		case rng.Chance(70):
			k = 2 + rng.Intn(3)
		case rng.Chance(50):
			k = rng.Intn(2)
		default:
			k = 5 + rng.Intn(2)
		}
		var recs []c13Rec
		for j := 0; j < k; j++ {
			if rng.Chance(50) {
				recs = append(recs, types[rng.Intn(len(types))])
			} else {
				recs = append(recs, c13RandRec(rng))
			}
		}
		if k >= 2 && rng.Chance(15) { // a true multiset: the same record twice
			recs[1] = recs[0]
		}
		if k >= 1 && rng.Chance(35) { // one RRset, one owner name — not the usual one
			o := uint8(1 + rng.Intn(len(c13Owners)-1))
			for j := range recs {
				recs[j].owner = o
			}
		}
		var ck string
		if rng.Chance(70) {
			ck = stated[rng.Intn(len(stated))]
		} else {
			ck = c13ChainKinds[rng.Intn(len(c13ChainKinds))]
		}
		hs := rng.Chance(85)
		if !hs && rng.Chance(60) {
			ck = "E"
		}
		w.verifyCaseV(out, c13Shuffle(rng, recs), ck, hs, rng.Bool(), true)
	}
}

// ---------------------------------------------------------------- CheckConn with a given discovery result

func c13Level(l module.TLSLevel) string {
	switch l {
	case module.TLSNone:
		return "none"
	case module.TLSAuthenticated:
		return "auth"
	}
	return fmt.Sprintf("level%d", int(l))
}

// c13Deliv: the per-delivery object of the DANE policy, made the way the remote target makes it
// (danePolicy.Start) and used through the methods of module.DeliveryMXAuthPolicy ONLY — how the
// delivery keeps the pending discovery (one future, a table of them keyed by host, …) is its own
// business, and a harness reaching into it would decide that question instead of observing it.
func c13Deliv(pol *danePolicy) module.DeliveryMXAuthPolicy {
	return pol.Start(&module.MsgMetadata{ID: "c13"})
}

func c13CallCheckConn(d module.DeliveryMXAuthPolicy, st tls.ConnectionState) (lvl module.TLSLevel, err error, panicked bool) {
	return c13CallCheckConnMX(d, c13MX, st)
}

// mx: the MX host name as attemptMX hands it to PrepareConn AND CheckConn (record.Host, the same
// string both times)
func c13CallCheckConnMX(d module.DeliveryMXAuthPolicy, mx string, st tls.ConnectionState) (lvl module.TLSLevel, err error, panicked bool) {
	defer func() {
		if r := recover(); r != nil {
			panicked = true
		}
	}()
	ctx, cancel := context.WithTimeout(context.Background(), 30*time.Second)
	defer cancel()
	lvl, err = d.CheckConn(ctx, module.MXNone, module.TLSEncrypted, "verif.test", mx, st)
	return
}

// the ways a discovery can end in an error, each produced for real (the harness does not plant a result
// in the delivery object: PrepareConn runs the discovery against the scripted server); the class
// (nf / ot / na) of the error the discovery ends in is what the model sees
var c13FutErrs = []struct {
	name, class string
	zone        c13Zone // the world the scripted server answers from
	how         byte    // 0 the zone does it; g the server replies with garbage; d / c the context PrepareConn is handed is past its deadline / cancelled
}{
	{"rcode-nxdomain", "nf", c13Zone{a: "X", c: "-", q: "-", r: "X", m: "X", f: 2}, 0},
	{"canon-nxdomain", "nf", c13Zone{a: "-", c: "sX", q: "-", r: "X", m: "X", f: 2}, 0},
	{"rcode-servfail", "ot", c13Zone{a: "F", c: "-", q: "-", r: "X", m: "X", f: 2}, 0},
	{"rcode-refused", "ot", c13Zone{a: "F", c: "-", q: "-", r: "X", m: "X", f: 5}, 0},
	{"tlsa-servfail", "ot", c13Zone{a: "s", c: "-", q: "-", r: "X", m: "F", f: 2}, 0},
	{"tlsa-notimp", "ot", c13Zone{a: "6", c: "-", q: "-", r: "X", m: "F", f: 4}, 0},
	{"garbage-reply", "ot", c13Zone{a: "s", c: "-", q: "-", r: "X", m: "X", f: 2}, 'g'},
	{"ctx-deadline", "ot", c13Zone{a: "s", c: "-", q: "-", r: "X", m: "X", f: 2}, 'd'},
	{"ctx-canceled", "ot", c13Zone{a: "s", c: "-", q: "-", r: "X", m: "X", f: 2}, 'c'},
	{"no-address", "na", c13Zone{a: "N", c: "-", q: "-", r: "X", m: "X", f: 2}, 0},
}

// monitor shared by the CheckConn-level ops. lookupFailed: discovery ended in an error that is not
// "name does not exist".
func (w *c13World) connMonitor(out *vh.Out, op string, haveResolver, lookupFailed, haveRecs bool, recs []c13Rec, ch *c13Chain, hs bool,
	lvl module.TLSLevel, err error, panicked bool) {
	inSpace := len(ch.certs) > 0 || !hs
	if panicked {
		if inSpace {
			out.Violation("C13/panic", op, "CheckConn panicked")
		}
		return
	}
	if !inSpace || !haveResolver {
		if !haveResolver && (lvl != module.TLSNone || err != nil) {
			out.Violation("C13/conn-no-resolver-not-neutral", op, fmt.Sprintf("level=%v err=%v", lvl, err))
		}
		return
	}
	detail := fmt.Sprintf("level=%v err=%v", lvl, err)
	if lookupFailed {
		// fails closed: temporary refusal, whatever the TLS state
		if err == nil || !exterrors.IsTemporary(err) || lvl != module.TLSNone {
			out.Violation("C13/lookup-error-not-temporary-refusal", op, detail)
		}
		return
	}
	var tr c13Truth
	if haveRecs {
		tr = w.truth(recs, ch)
	}
	detail += fmt.Sprintf("; truth: records=%d usable=%v ee-match=%v ta-match=%v handshake=%v", tr.nrecs, tr.anyUsable, tr.eeMatch, tr.taMatch, hs)
	if lvl == module.TLSAuthenticated && !(hs && tr.matched()) {
		out.Violation("C13/authenticated-without-match", op, detail)
	}
	if lvl != module.TLSNone && err != nil {
		out.Violation("C13/conn-level-raised-with-error", op, detail)
	}
	if tr.nrecs > 0 && !hs && err == nil {
		out.Violation("C13/no-tls-not-refused", op, detail)
	}
	if hs && tr.anyUsable && !tr.matched() && err == nil {
		out.Violation("C13/mismatch-not-refused", op, detail)
	}
	if !tr.anyUsable && (lvl == module.TLSAuthenticated || (hs && err != nil)) {
		out.Violation("C13/unusable-only-not-neutral", op, detail)
	}
	// the authenticated RRset that governs this MX was treated as absent: the connection it
	// authenticates is let through without being authenticated (the same shortcut lets a plaintext or
	// non-matching connection through — the two rules above)
	if hs && tr.matched() && err == nil && lvl != module.TLSAuthenticated {
		out.Violation("C13/authenticated-records-ignored", op, detail)
	}
}

// op `check`: CheckConn after a discovery that ended in a given way — with the records `recs` (a signed
// RRset under the usual name of a secure host), or in one of c13FutErrs. The discovery is the real one,
// started by PrepareConn; host: the spelling of the MX host name both methods are handed.
func (w *c13World) checkCase(out *vh.Out, haveResolver bool, fut string, recs []c13Rec, ck string, hs bool, host int) {
	w.checkCaseA(out, haveResolver, fut, recs, ck, hs, host, "s")
}

// the address states of a host that is "secure": the address RRset the code consults is signed —
// whatever the AD bit of the other address answer (c13AddrStates)
const c13SecureLetters = "sdDPu68"

// astate: the address state of the secure host the RRset is published for (fut == "ok" only)
func (w *c13World) checkCaseA(out *vh.Out, haveResolver bool, fut string, recs []c13Rec, ck string, hs bool, host int, astate string) {
	ch := w.chains[ck]
	var toks []string
	for _, r := range recs {
		toks = append(toks, w.recToken(r, ch))
	}
	class := "ok"
	failing := false
	if st := c13AddrStates[astate]; len(astate) != 1 || !strings.Contains(c13SecureLetters, astate) || st.fails() || !st.consultedAD() {
		panic("check: not a secure address state: " + astate)
	}
	acode := ""
	if astate != "s" && fut == "ok" {
		acode = ";a" + astate
	}
	z := c13Zone{a: astate, c: "-", q: "-", r: "X", m: "s", f: 2, recsM: recs}
	if len(recs) == 0 {
		z.m = "e"
	}
	var how byte
	if fut != "ok" {
		for _, fe := range c13FutErrs {
			if fe.name == fut {
				class, z, how, failing = "e:"+fe.class, fe.zone, fe.how, true
			}
		}
		if !failing {
			panic("unknown fut " + fut)
		}
	}
	op := strings.TrimRight(fmt.Sprintf("C13 check z=%s;%s%s%s %s %s %s %s | %s", ck, fut, acode, c13SpellCode(host), c13b(haveResolver), class, c13b(hs), ch.token(), strings.Join(toks, " ")), " ")

	d := w.dns
	d.set(w.script(z, ch))
	d.setGarbage(how == 'g')
	defer d.setGarbage(false)
	pol := &danePolicy{log: log.Logger{Name: "remote/dane"}}
	if haveResolver {
		pol.extResolver = d.ext
	}
	dd := c13Deliv(pol)
	mx := c13HostSpellings[host]
	pctx, pcancel := context.WithTimeout(context.Background(), 30*time.Second)
	switch how {
	case 'd':
		pcancel()
		pctx, pcancel = context.WithDeadline(context.Background(), time.Unix(1, 0))
	case 'c':
		pcancel()
	}
	defer pcancel()
	dd.PrepareConn(pctx, mx)
	lvl, err, panicked := c13CallCheckConnMX(dd, mx, w.connState(hs, ch))
	obs := "panic"
	if !panicked {
		obs = "ret " + c13Level(lvl) + " " + c13ErrKind(err)
	}
	out.Corr(op, obs)
	w.connMonitor(out, op, haveResolver, failing && class != "e:nf", !failing, recs, ch, hs, lvl, err, panicked)
	out.Stat("check/fut:" + fut)
	if fut == "ok" {
		out.Stat("check/host-address-state:" + astate)
	}
	out.Stat("check/outcome:" + obs)
	out.Stat("check/resolver:" + c13b(haveResolver))
	out.Stat(fmt.Sprintf("check/host-spelling:%d", host))
}

func TestVerifC13CheckConn(t *testing.T) {
	out := vh.Open("c13_check")
	defer out.Close()
	w := c13NewWorld(t)
	w.dns = c13StartDNS(t)
	defer w.dns.Close()

	if rp := vh.Replay(); rp != nil {
		for _, op := range rp {
			if !strings.HasPrefix(op, "C13 check ") {
				continue
			}
			toks := strings.Fields(op)
			if len(toks) < 7 || !strings.HasPrefix(toks[2], "z=") {
				t.Fatalf("cannot replay %q", op)
			}
			z := strings.Split(toks[2][2:], ";")
			var recs []c13Rec
			if i := strings.Index(op, " | "); i >= 0 {
				for _, tk := range strings.Fields(op[i+3:]) {
					r, err := c13ParseRec(tk)
					if err != nil {
						t.Fatal(err)
					}
					recs = append(recs, r)
				}
			}
			z, host, perr := c13ParseSpell(z)
			astate := "s"
			if n := len(z); n == 3 && len(z[2]) == 2 && z[2][0] == 'a' && strings.Contains(c13SecureLetters, z[2][1:]) {
				astate, z = z[2][1:], z[:2]
			}
			if perr != nil || len(z) != 2 || w.chains[z[0]] == nil {
				t.Fatalf("cannot replay %q", op)
			}
			w.checkCaseA(out, toks[3] == "1", z[1], recs, z[0], toks[5] == "1", host, astate)
		}
		return
	}

	rng := vh.NewRng(vh.Seed() + 1301).Fork() // Fork: consecutive seeds of vh.NewRng give the same stream shifted by one draw
	types := c13StatedRecTypes()
	// every discovery error kind x TLS state x a few chains: the fail-closed table
	for fi, fe := range c13FutErrs {
		for _, hs := range []bool{true, false} {
			for _, ck := range []string{"LIR", "L", "E"} {
				for _, hr := range []bool{true, false} {
					w.checkCase(out, hr, fe.name, nil, ck, hs, 0)
				}
				if ck != "L" {
					// under another spelling of the host name (rotating)
					w.checkCase(out, true, fe.name, nil, ck, hs, 1+(fi+len(ck))%(len(c13HostSpellings)-1))
				}
			}
		}
	}
	// one AD bit per answer: the RRset of a host whose consulted address RRset is signed (dual-stack with
	// a DNS64-synthesised AAAA RRset, failing AAAA lookup, AAAA only, ...) — plaintext, a non-matching and
	// a matching certificate, unusable records only
	for li, a := range c13SecureLetters[1:] {
		h := (li + int(vh.Seed())) % len(c13HostSpellings)
		eeL := []c13Rec{{usage: 3, sel: 1, mt: 1, target: 'L', dsel: 1, dmt: 1}}
		eeN := []c13Rec{{usage: 3, sel: 0, mt: 2, target: 'N', dsel: 0, dmt: 2}}
		taI := []c13Rec{{usage: 2, sel: 0, mt: 1, target: 'I', dsel: 0, dmt: 1}}
		un := []c13Rec{{usage: 1, sel: 1, mt: 1, target: 'L', dsel: 1, dmt: 1}}
		w.checkCaseA(out, true, "ok", eeL, "E", false, 0, string(a))
		w.checkCaseA(out, true, "ok", un, "L", false, h, string(a))
		w.checkCaseA(out, true, "ok", eeN, "LIR", true, h, string(a))
		w.checkCaseA(out, true, "ok", eeL, "LIR", true, 0, string(a))
		w.checkCaseA(out, true, "ok", taI, "W", true, 0, string(a))
		w.checkCaseA(out, true, "ok", taI, "LI", true, h, string(a))
		w.checkCaseA(out, true, "ok", un, "LIR", true, 0, string(a))
	}
	// a good leaf on a path that is not valid (an expired / not yet valid / non-CA / wrong-purpose
	// intermediate, an expired root certificate): every usable DANE-TA form pinning the intermediate or
	// the root of the chain, alone and next to an unusable and a non-matching DANE-EE record; a DANE-EE
	// record for the leaf authenticates on every one of them
	for ci, ck := range c13HardKinds {
		for _, s := range []uint8{0, 1} {
			for _, m := range []uint8{0, 1, 2} {
				for ti, tg := range []byte{'I', 'R'} {
					ta := c13Rec{usage: 2, sel: s, mt: m, target: tg, dsel: s, dmt: m}
					h := 0
					if (ci+int(s)+int(m)+ti+int(vh.Seed()))%3 == 0 {
						h = (ci + int(m) + ti) % len(c13HostSpellings)
					}
					w.checkCase(out, true, "ok", []c13Rec{ta}, ck, true, h)
					if m == 1 {
						w.checkCase(out, true, "ok", c13Shuffle(rng, []c13Rec{
							{usage: 1, sel: 1, mt: 1, target: 'L', dsel: 1, dmt: 1},
							{usage: 3, sel: 1, mt: 1, target: 'N', dsel: 1, dmt: 1}, ta}), ck, true, 0)
					}
				}
			}
		}
		w.checkCase(out, true, "ok", []c13Rec{{usage: 3, sel: 1, mt: 1, target: 'L', dsel: 1, dmt: 1}}, ck, true, 0)
		w.checkCase(out, true, "ok", []c13Rec{{usage: 2, sel: 1, mt: 1, target: 'R', dsel: 1, dmt: 1}}, ck, false, 0)
	}
	n := vh.N(4000) / 4
	for i := 0; i < n; i++ {
		k := rng.Intn(5)
		var recs []c13Rec
		for j := 0; j < k; j++ {
			if rng.Chance(50) {
				recs = append(recs, types[rng.Intn(len(types))])
			} else {
				recs = append(recs, c13RandRec(rng))
			}
		}
		if k >= 1 && rng.Chance(35) {
			o := uint8(1 + rng.Intn(c13WireOwners-1))
			for j := range recs {
				recs[j].owner = o
			}
		}
		for j := range recs {
			if int(recs[j].owner) >= c13WireOwners {
				recs[j].owner = 0 // the RRset travels over the wire now
			}
		}
		ck := c13ChainKinds[rng.Intn(len(c13ChainKinds))]
		hs := rng.Chance(80)
		if !hs && rng.Chance(60) {
			ck = "E"
		}
		fut := "ok"
		if rng.Chance(15) {
			fut = c13FutErrs[rng.Intn(len(c13FutErrs))].name
			recs = nil
		}
		host := 0
		if rng.Chance(50) {
			host = rng.Intn(len(c13HostSpellings))
		}
		astate := "s"
		if fut == "ok" && rng.Chance(35) {
			astate = string(c13SecureLetters[1+rng.Intn(len(c13SecureLetters)-1)])
		}
		w.checkCaseA(out, !rng.Chance(8), fut, recs, ck, hs, host, astate)
	}
}

// ---------------------------------------------------------------- discovery against a DNS server

// c13Zone describes the DNS the MX host lives in.
//
//	a: state of the MX host name — F lookup fails, X does not exist, N exists without address,
//	   s address records signed (AD), i address records insecure, 6 AAAA only and signed,
//	   Q no A record and the AAAA lookup fails
//	   dual-stack and single-family hosts with ONE AD BIT PER ANSWER (c13AddrStates): d A and AAAA both
//	   signed, D signed A + AAAA without AD (DNS64 synthesis), b A without AD + signed AAAA, B both
//	   without AD, P / p signed / insecure A and the AAAA lookup fails, u signed A + empty AAAA answer
//	   without AD, v insecure A + empty AAAA answer with AD, 7 AAAA only without AD, 8 AAAA only and
//	   signed while the empty A answer has no AD, 9 the same with an insecure AAAA, R the A lookup
//	   fails while AAAA would answer
//	c: alias — "-" none, or two letters: is the alias record signed (s/i), and the state of the
//	   canonical name: s signed addresses, i insecure addresses, X does not exist, F lookup fails,
//	   or any other letter of `a`
//	q: the CNAME-type query for the MX name — "-" answers normally, F fails, X name error
//	r: TLSA RRset under the canonical name, m: TLSA RRset under the MX name —
//	   X no such name, F lookup fails, s signed with records, i insecure with records, e signed and empty
//	f: the RCODE a failing lookup ends in (2 SERVFAIL, 5 REFUSED, 4 NOTIMP, 1 FORMERR)
type c13Zone struct {
	a, c, q, r, m string
	f             int
	recsR         []c13Rec
	recsM         []c13Rec
}

func (z c13Zone) code() string {
	enc := func(rs []c13Rec) string {
		if len(rs) == 0 {
			return "-"
		}
		var p []string
		for _, r := range rs {
			p = append(p, fmt.Sprintf("%d.%d.%d.%s.o%d", r.usage, r.sel, r.mt, r.kind(), r.owner))
		}
		return strings.Join(p, ",")
	}
	return fmt.Sprintf("a%s_c%s_q%s_r%s_m%s_f%d;%s;%s", z.a, z.c, z.q, z.r, z.m, z.f, enc(z.recsR), enc(z.recsM))
}

func c13ParseZone(code string) (c13Zone, error) {
	parts := strings.Split(code, ";")
	if len(parts) < 3 {
		return c13Zone{}, fmt.Errorf("bad zone code %q", code)
	}
	f := strings.Split(parts[0], "_")
	if len(f) != 6 {
		return c13Zone{}, fmt.Errorf("bad zone code %q", code)
	}
	z := c13Zone{a: f[0][1:], c: f[1][1:], q: f[2][1:], r: f[3][1:], m: f[4][1:]}
	z.f, _ = strconv.Atoi(f[5][1:])
	dec := func(s string) ([]c13Rec, error) {
		if s == "-" {
			return nil, nil
		}
		var out []c13Rec
		for _, tk := range strings.Split(s, ",") {
			r, err := c13ParseRec(tk)
			if err != nil {
				return nil, err
			}
			out = append(out, r)
		}
		return out, nil
	}
	var err error
	if z.recsR, err = dec(parts[1]); err != nil {
		return z, err
	}
	if z.recsM, err = dec(parts[2]); err != nil {
		return z, err
	}
	return z, nil
}

// c13AddrSt: what the A question and the AAAA question for a host are answered with — each answer
// with its own AD bit, as a validating resolver reports it (RFC 4035 §3.2.3: AD covers the RRsets of
// THAT answer). aHas / sHas: the answer holds an address record; aFail / sFail: the lookup fails.
type c13AddrSt struct {
	aFail, aHas, aAD bool
	sFail, sHas, sAD bool
}

var c13AddrStates = map[string]c13AddrSt{
	"F": {aFail: true, sFail: true},
	"N": {aAD: true, sAD: true},
	"s": {aHas: true, aAD: true, sAD: true},
	"i": {aHas: true},
	"6": {aAD: true, sHas: true, sAD: true},
	"Q": {aAD: true, sFail: true, sAD: true},
	// one AD bit per answer
	"d": {aHas: true, aAD: true, sHas: true, sAD: true},
	"D": {aHas: true, aAD: true, sHas: true},
	"b": {aHas: true, sHas: true, sAD: true},
	"B": {aHas: true, sHas: true},
	"P": {aHas: true, aAD: true, sFail: true},
	"p": {aHas: true, sFail: true},
	"u": {aHas: true, aAD: true},
	"v": {aHas: true, sAD: true},
	"7": {aAD: true, sHas: true},
	"8": {sHas: true, sAD: true},
	"9": {sHas: true},
	"R": {aFail: true, sHas: true, sAD: true},
}

// the letters added with the per-answer AD bits (the others are the states c13AllZones enumerates)
const c13DualLetters = "dDbBPpuv789R"

// fails: the address lookup ends in an error (A fails; no A record and AAAA fails or is empty);
// consultedAD: the AD bit of the address RRset the code is documented to consult — the A RRset if the
// host has A records, else the AAAA RRset
func (st c13AddrSt) fails() bool       { return st.aFail || (!st.aHas && (st.sFail || !st.sHas)) }
func (st c13AddrSt) consultedAD() bool { return (st.aHas && st.aAD) || (!st.aHas && st.sAD) }

// c13Answer is the scripted response to one (name, type) question; questions without an entry get
// NXDOMAIN.
type c13Answer struct {
	rcode int
	ad    bool
	rrs   []miekgdns.RR
}

func c13QKey(name string, qtype uint16) string {
	return strings.ToLower(name) + "|" + strconv.Itoa(int(qtype))
}

// the script a validating resolver would answer with in the world z describes
func (w *c13World) script(z c13Zone, ch *c13Chain) map[string]c13Answer {
	sc := map[string]c13Answer{}
	fail := c13Answer{rcode: z.f}
	hdr := func(name string, t uint16) miekgdns.RR_Header {
		return miekgdns.RR_Header{Name: name, Rrtype: t, Class: miekgdns.ClassINET, Ttl: 9999}
	}
	aRR := func(name string) miekgdns.RR {
		return &miekgdns.A{Hdr: hdr(name, miekgdns.TypeA), A: net.ParseIP("127.0.0.1")}
	}
	aaaaRR := func(name string) miekgdns.RR {
		return &miekgdns.AAAA{Hdr: hdr(name, miekgdns.TypeAAAA), AAAA: net.ParseIP("::1")}
	}
	// address-type answers for a question asked at qname whose final owner is `owner` in state st;
	// pre = alias records leading there, adPre = are they signed
	addr := func(qname, owner, st string, pre []miekgdns.RR, adPre bool) {
		A, AAAA := c13QKey(qname, miekgdns.TypeA), c13QKey(qname, miekgdns.TypeAAAA)
		with := func(ad bool, rrs ...miekgdns.RR) c13Answer {
			return c13Answer{ad: ad && adPre, rrs: append(append([]miekgdns.RR(nil), pre...), rrs...)}
		}
		if st == "X" {
			return
		}
		as, known := c13AddrStates[st]
		if !known {
			panic("bad address state " + st)
		}
		one := func(failing, has, ad bool, rr miekgdns.RR) c13Answer {
			switch {
			case failing:
				return fail
			case has:
				return with(ad, rr)
			}
			return with(ad)
		}
		sc[A] = one(as.aFail, as.aHas, as.aAD, aRR(owner))
		sc[AAAA] = one(as.sFail, as.sHas, as.sAD, aaaaRR(owner))
	}
	cnameQ := c13QKey(c13MXFQ, miekgdns.TypeCNAME)
	if z.c == "-" {
		addr(c13MXFQ, c13MXFQ, z.a, nil, true)
		switch z.a {
		case "F":
			sc[cnameQ] = fail
		case "X":
		default:
			sc[cnameQ] = c13Answer{ad: c13AddrStates[z.a].consultedAD()}
		}
	} else {
		alias := &miekgdns.CNAME{Hdr: hdr(c13MXFQ, miekgdns.TypeCNAME), Target: c13Canon}
		signed := z.c[0] == 's'
		addr(c13MXFQ, c13Canon, string(z.c[1]), []miekgdns.RR{alias}, signed)
		sc[cnameQ] = c13Answer{ad: signed, rrs: []miekgdns.RR{alias}}
	}
	switch z.q {
	case "F":
		sc[cnameQ] = fail
	case "X":
		delete(sc, cnameQ)
	}
	// the RRset asked for at qname; when it lives under another name (owner of its first record) the
	// answer starts with the alias leading there
	tlsa := func(k, qname string, recs []c13Rec) {
		var rrs []miekgdns.RR
		if len(recs) > 0 && !strings.EqualFold(c13Owners[recs[0].owner], qname) {
			rrs = append(rrs, &miekgdns.CNAME{Hdr: hdr(qname, miekgdns.TypeCNAME), Target: c13Owners[recs[0].owner]})
		}
		for _, r := range recs {
			rr := w.tlsa(r, ch)
			rrs = append(rrs, &rr)
		}
		key := c13QKey(qname, miekgdns.TypeTLSA)
		switch k {
		case "X":
		case "F":
			sc[key] = fail
		case "s":
			sc[key] = c13Answer{ad: true, rrs: rrs}
		case "i":
			sc[key] = c13Answer{ad: false, rrs: rrs}
		case "e":
			sc[key] = c13Answer{ad: true}
		default:
			panic("bad tlsa state " + k)
		}
	}
	tlsa(z.m, "_25._tcp."+c13MXFQ, z.recsM)
	if z.c != "-" {
		tlsa(z.r, "_25._tcp."+c13Canon, z.recsR)
	}
	return sc
}

func c13LErr(err error) string {
	if dns.IsNotFound(err) {
		return "nf"
	}
	return "ot"
}

// token of a returned TLSA RRset for the model: usage.selector.mtype.kind.tag, the tag computed
// from the association data that came back over the wire
func (w *c13World) rrToken(rr dns.TLSA, ch *c13Chain) string {
	data, err := hex.DecodeString(rr.Certificate)
	if err != nil {
		return "bad-hex"
	}
	return fmt.Sprintf("%d.%d.%d.x.%d.%d.%d", rr.Usage, rr.Selector, rr.MatchingType, c13Tag(rr.Selector, rr.MatchingType, data, ch), c13OwnerIndex(rr.Hdr.Name), len(data))
}

func (w *c13World) rrKey(rr dns.TLSA, ch *c13Chain) string {
	data, _ := hex.DecodeString(rr.Certificate)
	return fmt.Sprintf("%d.%d.%d.%d.%d.%d", rr.Usage, rr.Selector, rr.MatchingType, c13Tag(rr.Selector, rr.MatchingType, data, ch), c13OwnerIndex(rr.Hdr.Name), len(data))
}

func (w *c13World) ansToken(ad bool, recs []dns.TLSA, err error, ch *c13Chain) string {
	e := "-"
	if err != nil {
		e = c13LErr(err)
	}
	var p []string
	for _, rr := range recs {
		p = append(p, w.rrToken(rr, ch))
	}
	return e + ":" + c13b(ad) + ":" + c13dash(strings.Join(p, ","))
}

// c13DNS is a scripted DNS server on loopback (UDP) and an ExtResolver pointed at it.
type c13DNS struct {
	mu      sync.Mutex
	garbage bool // every question is answered with three bytes that are no DNS message
	script  map[string]c13Answer
	srv    *miekgdns.Server
	ext    *dns.ExtResolver
}

func (d *c13DNS) ServeDNS(wr miekgdns.ResponseWriter, m *miekgdns.Msg) {
	reply := new(miekgdns.Msg)
	reply.SetReply(m)
	reply.RecursionAvailable = true
	q := m.Question[0]
	d.mu.Lock()
	ans, ok := d.script[c13QKey(q.Name, q.Qtype)]
	garbage := d.garbage
	d.mu.Unlock()
	if garbage {
		_, _ = wr.Write([]byte{0xde, 0xad, 0xbe})
		return
	}
	switch {
	case !ok:
		reply.Rcode = miekgdns.RcodeNameError
	case ans.rcode != 0:
		reply.Rcode = ans.rcode
	default:
		reply.AuthenticatedData = ans.ad
		reply.Answer = ans.rrs
	}
	_ = wr.WriteMsg(reply)
}

// addrTok: the scripted answer to an address question as the model's AddrAns token
// (`e:nf | e:ot | ok:<ad>:<E|S|O>`), and the owner name of its last address record. The server is on
// loopback, so the resolver keeps the AD bit it is sent.
func (d *c13DNS) addrTok(qname string, qtype uint16) (tok, owner string) {
	d.mu.Lock()
	ans, ok := d.script[c13QKey(qname, qtype)]
	d.mu.Unlock()
	switch {
	case !ok || ans.rcode == miekgdns.RcodeNameError:
		return "e:nf", ""
	case ans.rcode != 0:
		return "e:ot", ""
	}
	for _, rr := range ans.rrs {
		if rr.Header().Rrtype == qtype {
			owner = rr.Header().Name
		}
	}
	switch owner {
	case "":
		return "ok:" + c13b(ans.ad) + ":E", owner
	case qname:
		return "ok:" + c13b(ans.ad) + ":S", owner
	}
	return "ok:" + c13b(ans.ad) + ":O", owner
}

func (d *c13DNS) set(sc map[string]c13Answer) {
	d.mu.Lock()
	d.script = sc
	d.mu.Unlock()
}

func (d *c13DNS) setGarbage(on bool) {
	d.mu.Lock()
	d.garbage = on
	d.mu.Unlock()
}

func (d *c13DNS) Close() { _ = d.srv.Shutdown() }

func c13StartDNS(t *testing.T) *c13DNS {
	pc, err := net.ListenPacket("udp4", "127.0.0.1:0")
	if err != nil {
		t.Fatal(err)
	}
	d := &c13DNS{}
	started := make(chan struct{})
	d.srv = &miekgdns.Server{PacketConn: pc, Handler: d, NotifyStartedFunc: func() { close(started) }}
	go func() { _ = d.srv.ActivateAndServe() }()
	select {
	case <-started:
	case <-time.After(30 * time.Second):
		t.Fatal("c13: DNS server did not start")
	}
	ext, err := dns.NewExtResolver()
	if err != nil {
		t.Fatal(err)
	}
	addr := pc.LocalAddr().(*net.UDPAddr)
	ext.Cfg.Servers = []string{addr.IP.String()}
	ext.Cfg.Port = strconv.Itoa(addr.Port)
	d.ext = ext
	return d
}

// the resolver answers the model is parametric in, obtained by asking the same server through the
// real ExtResolver
func (w *c13World) oracle(d *c13DNS, ch *c13Chain) (ck, cn, trTok, tmTok string, rname string) {
	return w.oracleFor(d, ch, c13MXFQ)
}

// mxfq: the MX host name as the caller spells it (fully qualified)
func (w *c13World) oracleFor(d *c13DNS, ch *c13Chain, mxfq string) (ck, cn, trTok, tmTok string, rname string) {
	ctx, cancel := context.WithTimeout(context.Background(), 30*time.Second)
	defer cancel()
	// the two address answers as the script holds them, each with its own AD bit — NOT the result of
	// CheckCNAMEAD: how the two are combined is the model's (checkAddr) and the code's business
	aTok, aOwner := d.addrTok(mxfq, miekgdns.TypeA)
	sTok, sOwner := d.addrTok(mxfq, miekgdns.TypeAAAA)
	ck = "x/" + aTok + "/" + sTok
	rn := aOwner
	if rn == "" && strings.HasPrefix(aTok, "ok:") {
		rn = sOwner
	}
	if strings.HasPrefix(aTok, "e:") {
		rn = ""
	}
	rname = rn
	cad, _, err := d.ext.AuthLookupCNAME(ctx, mxfq)
	if err != nil {
		cn = "e:" + c13LErr(err)
	} else {
		cn = "ok:" + c13b(cad)
	}
	ad, recs, err := d.ext.AuthLookupTLSA(ctx, "25", "tcp", mxfq)
	tmTok = w.ansToken(ad, recs, err, ch)
	trTok = tmTok
	if rn != "" && rn != mxfq {
		ad, recs, err = d.ext.AuthLookupTLSA(ctx, "25", "tcp", rn)
		trTok = w.ansToken(ad, recs, err, ch)
	}
	return
}

// what the zone description says, for the monitor (independent of the resolver code)
type c13ZoneTruth struct {
	addrFails    bool // the address lookup of the MX name fails, or it has no address
	nameNotExist bool // the MX name (or its canonical name) does not exist
	resolvable   bool
	hostSecure   bool // address records (or the alias itself) are signed
	alias        bool
	lookupFails  bool // a lookup RFC 7672 requires (alias, TLSA) fails
	secureR      bool // signed, non-empty RRset under the canonical name, and it is the one to use
	incoherent   bool // the alias exists for address lookups but the CNAME-type query denies it
}

func c13ZoneTruthOf(z c13Zone) c13ZoneTruth { return c13ZoneTruthOfT(z, true) }

// trusted: the answers come from a resolver on loopback. From any other resolver nothing is
// DNSSEC-authenticated for us, whatever the zone is and whatever flags the answers carry.
func c13ZoneTruthOfT(z c13Zone, trusted bool) c13ZoneTruth {
	var t c13ZoneTruth
	t.alias = z.c != "-"
	final := z.a
	if t.alias {
		final = string(z.c[1])
	}
	as := c13AddrStates[final]
	t.nameNotExist = final == "X"
	t.addrFails = !t.nameNotExist && as.fails()
	t.resolvable = !t.nameNotExist && !t.addrFails
	if !t.resolvable {
		return t
	}
	// RFC 7672 §2.2: the host is "secure" iff its address records are authenticated — the RRset the
	// code is documented to consult: A if the host has A records, else AAAA. The AD bit of the other
	// answer (a DNS64-synthesised AAAA RRset, an empty answer) says nothing about it.
	finalSigned := trusted && as.consultedAD()
	if t.alias {
		aliasSigned := trusted && z.c[0] == 's'
		if !(aliasSigned && finalSigned) {
			// the chain is not signed end to end: the alias itself has to be looked up
			switch z.q {
			case "F":
				t.lookupFails = true
				return t
			case "X":
				t.incoherent = true
				return t
			}
		}
		t.hostSecure = aliasSigned // a signed alias is enough (RFC 7672 §2.2.2); an unsigned one: never
	} else {
		t.hostSecure = finalSigned
	}
	if !t.hostSecure {
		return t
	}
	if t.alias && z.r == "F" {
		t.lookupFails = true
		return t
	}
	t.secureR = t.alias && z.r == "s" && len(z.recsR) > 0
	if !t.secureR && z.m == "F" {
		t.lookupFails = true
	}
	return t
}

func (w *c13World) discCase(t *testing.T, out *vh.Out, z c13Zone) {
	ch := w.chains["LIR"]
	d := w.dns
	d.set(w.script(z, ch))
	ck, cn, trTok, tmTok, _ := w.oracle(d, ch)
	op := fmt.Sprintf("C13 disc z=%s %s %s %s %s", z.code(), ck, cn, trTok, tmTok)

	// One policy-delivery object serves every MX candidate (and recipient domain) of a message:
	// keep it for a few consecutive cases, as the remote target does, so that state left over
	// from an earlier PrepareConn/CheckConn would show.
	dd := c13SharedDelivery(d.ext)
	out.Stat(fmt.Sprintf("conn/delivery-reuse:%d", c13SharedDDUses))
	ctx, cancel := context.WithTimeout(context.Background(), 30*time.Second)
	defer cancel()
	disc, isDisc := dd.(interface {
		discoverTLSA(ctx context.Context, mx string) ([]dns.TLSA, error)
	})
	if !isDisc {
		t.Fatalf("c13: the delivery object of the DANE policy (%T) has no discoverTLSA(ctx, mx) method any more", dd)
	}
	recs, err := disc.discoverTLSA(ctx, c13MXFQ)
	var obs string
	switch {
	case err == nil:
		var p []string
		for _, rr := range recs {
			p = append(p, w.rrKey(rr, ch))
		}
		obs = "ok " + c13dash(strings.Join(p, ","))
	case dns.IsNotFound(err):
		obs = "err nf"
	case err.Error() == "no address associated with the host":
		obs = "err na"
	default:
		obs = "err ot"
	}
	out.Corr(op, obs)

	// ---- monitor
	zt := c13ZoneTruthOf(z)
	detail := fmt.Sprintf("records=%d err=%v", len(recs), err)
	if (zt.addrFails || zt.lookupFails) && err == nil {
		out.Violation("C13/lookup-failure-ignored", op, detail)
	}
	if !zt.incoherent {
		keys := func(rs []c13Rec) []string {
			var p []string
			for _, r := range rs {
				data := w.data(r, ch)
				p = append(p, fmt.Sprintf("%d.%d.%d.%d.%d.%d", r.usage, r.sel, r.mt, c13Tag(r.sel, r.mt, data, ch), r.owner, len(data)))
			}
			return p
		}
		var got []string
		for _, rr := range recs {
			got = append(got, w.rrKey(rr, ch))
		}
		// sub-multiset test, order kept
		within := func(part, whole []string) bool {
			i := 0
			for _, k := range whole {
				if i < len(part) && part[i] == k {
					i++
				}
			}
			return i == len(part)
		}
		if len(recs) > 0 {
			// the records must come from one of the two published RRsets, and that one must be signed,
			// and the host secure
			fromR := zt.alias && z.r == "s" && within(got, keys(z.recsR))
			fromM := z.m == "s" && within(got, keys(z.recsM))
			if !zt.hostSecure || !(fromR || fromM) {
				out.Violation("C13/insecure-rrset-used", op, detail)
			}
		}
		// the authenticated RRset that governs this MX reaches the decision whole: every record of it
		// — usable or not, with association data of whatever length — counts (a record forces TLS;
		// a usable one that matches nothing gets the connection refused)
		if err == nil && zt.hostSecure && !zt.addrFails && !zt.lookupFails {
			var gov []c13Rec
			switch {
			case zt.secureR:
				gov = z.recsR
			case z.m == "s":
				gov = z.recsM
			}
			if len(gov) > 0 && !within(keys(gov), got) {
				out.Violation("C13/published-record-not-delivered", op, fmt.Sprintf("published %v, delivered %v", keys(gov), got))
			}
			if len(gov) > 0 && len(got) == 0 {
				out.Violation("C13/authenticated-records-ignored", op, fmt.Sprintf("published %v (authenticated RRset of a host whose consulted address RRset is authenticated), delivered none", keys(gov)))
			}
		}
	}
	out.Stat("disc/zone-addr:" + z.a)
	out.Stat("disc/zone-alias:" + z.c)
	out.Stat("disc/zone-tlsa-canon:" + z.r)
	out.Stat("disc/zone-tlsa-mx:" + z.m)
	out.Stat("disc/zone-cname-query:" + z.q)
	out.Stat("disc/cn:" + cn)
	out.Stat(fmt.Sprintf("disc/zone-fail-rcode:%d", z.f))
	switch {
	case err != nil:
		out.Stat("disc/outcome:" + obs)
	case len(recs) > 0:
		out.Stat("disc/outcome:ok records")
	default:
		out.Stat("disc/outcome:ok none")
	}
	out.Stat("disc/ck:" + ck)
}

func c13AllZones() []c13Zone {
	var out []c13Zone
	tl := []string{"X", "F", "s", "i", "e"}
	for _, a := range []string{"F", "X", "N", "s", "i", "6", "Q"} {
		for _, m := range tl {
			out = append(out, c13Zone{a: a, c: "-", q: "-", r: "X", m: m, f: 2})
		}
	}
	for _, c := range []string{"ss", "si", "is", "ii", "sX", "iX", "sF", "iF"} {
		for _, r := range tl {
			for _, m := range tl {
				out = append(out, c13Zone{a: "-", c: c, q: "-", r: r, m: m, f: 2})
				if c[1] == 's' || c[1] == 'i' {
					// the CNAME-type query for the alias fails / is denied
					out = append(out, c13Zone{a: "-", c: c, q: "F", r: r, m: m, f: 2})
					out = append(out, c13Zone{a: "-", c: c, q: "X", r: r, m: m, f: 2})
				}
			}
		}
	}
	return out
}

// the zone shapes with one AD bit per address answer: every dual-stack / single-family state alone
// and behind a signed / unsigned alias, with the TLSA RRsets signed, unsigned, absent, failing
func c13DualZones() []c13Zone {
	var out []c13Zone
	for _, a := range c13DualLetters {
		for _, m := range []string{"X", "F", "s", "i", "e"} {
			out = append(out, c13Zone{a: string(a), c: "-", q: "-", r: "X", m: m, f: 2})
		}
	}
	for _, sg := range []string{"s", "i"} {
		for _, a := range c13DualLetters {
			c := sg + string(a)
			for _, rmq := range [][3]string{{"s", "s", "-"}, {"s", "X", "-"}, {"X", "s", "-"}, {"i", "s", "-"}, {"F", "s", "-"}, {"s", "s", "F"}, {"s", "s", "X"}} {
				out = append(out, c13Zone{a: "-", c: c, q: rmq[2], r: rmq[0], m: rmq[1], f: 2})
			}
		}
	}
	return out
}

var c13FailRcodes = []int{miekgdns.RcodeServerFailure, miekgdns.RcodeServerFailure, miekgdns.RcodeRefused, miekgdns.RcodeNotImplemented, miekgdns.RcodeFormatError}

func (w *c13World) fillZoneRecs(rng *vh.Rng, z *c13Zone) {
	types := c13StatedRecTypes()
	gen := func() []c13Rec {
		k := 1 + rng.Intn(3)
		var rs []c13Rec
		for i := 0; i < k; i++ {
			if rng.Chance(50) {
				// mostly usable, matching something
				rs = append(rs, c13Rec{usage: uint8(2 + rng.Intn(2)), sel: uint8(rng.Intn(2)), mt: uint8(1 + rng.Intn(2)), target: c13Targets[rng.Intn(4)]})
				rs[len(rs)-1].dsel, rs[len(rs)-1].dmt = rs[len(rs)-1].sel, rs[len(rs)-1].mt
			} else {
				rs = append(rs, types[rng.Intn(len(types))])
			}
		}
		return rs
	}
	// the owner name of the RRset: the name asked for, or (CNAME'd RRset) another one; now and then
	// a stray record under yet another name in the same answer
	own := func(rs []c13Rec, natural uint8) []c13Rec {
		o := natural
		if rng.Chance(40) {
			o = uint8(rng.Intn(c13WireOwners))
		}
		for i := range rs {
			rs[i].owner = o
			if i > 0 && rng.Chance(8) {
				rs[i].owner = uint8(rng.Intn(c13WireOwners))
			}
		}
		return rs
	}
	// association data of a length no digest has: the whole RRset (a zone editing mistake repeated
	// on every record), or one record next to well-formed ones; now and then an RRset of unusable
	// records only
	bend := func(rs []c13Rec) []c13Rec {
		switch {
		case rng.Chance(22):
			for i := range rs {
				if !c13Usable(rs[i].usage, rs[i].sel, rs[i].mt) {
					rs[i].usage, rs[i].sel, rs[i].mt = uint8(2+rng.Intn(2)), uint8(rng.Intn(2)), uint8(rng.Intn(3))
					rs[i].dsel, rs[i].dmt = rs[i].sel, rs[i].mt
				}
				rs[i].def = c13Defs[rng.Intn(len(c13Defs))]
			}
		case rng.Chance(15):
			rs[rng.Intn(len(rs))].def = c13Defs[rng.Intn(len(c13Defs))]
		case rng.Chance(10):
			for i := range rs {
				switch rng.Intn(3) {
				case 0:
					rs[i].usage = []uint8{0, 1, 4, 255}[rng.Intn(4)]
				case 1:
					rs[i].sel = []uint8{2, 255}[rng.Intn(2)]
				default:
					rs[i].mt = []uint8{3, 255}[rng.Intn(2)]
				}
			}
		}
		return rs
	}
	if z.r == "s" || z.r == "i" {
		z.recsR = own(bend(gen()), 1)
	}
	if z.m == "s" || z.m == "i" {
		z.recsM = own(bend(gen()), 0)
	}
	z.f = c13FailRcodes[rng.Intn(len(c13FailRcodes))]
}

func TestVerifC13Discover(t *testing.T) {
	out := vh.Open("c13_disc")
	defer out.Close()
	w := c13NewWorld(t)
	w.dns = c13StartDNS(t)
	defer w.dns.Close()

	if rp := vh.Replay(); rp != nil {
		for _, op := range rp {
			if !strings.HasPrefix(op, "C13 disc ") {
				continue
			}
			toks := strings.Fields(op)
			z, err := c13ParseZone(strings.TrimPrefix(toks[2], "z="))
			if err != nil {
				t.Fatal(err)
			}
			w.discCase(t, out, z)
		}
		return
	}
	rng := vh.NewRng(vh.Seed() + 1302).Fork() // Fork: consecutive seeds of vh.NewRng give the same stream shifted by one draw
	all := c13AllZones()
	// the zone shapes are few: all of them, every run (records inside vary with the seed)
	for _, z := range all {
		w.fillZoneRecs(rng, &z)
		w.discCase(t, out, z)
	}
	dual := c13DualZones()
	for _, z := range dual {
		w.fillZoneRecs(rng, &z)
		w.discCase(t, out, z)
	}
	all = append(all, dual...)
	if vh.Thorough() {
		for rep := 0; rep < 3; rep++ {
			for _, z := range all {
				w.fillZoneRecs(rng, &z)
				w.discCase(t, out, z)
			}
		}
	}
	// the zones in which records are actually found, more often
	good := c13GoodZones(all)
	n := vh.N(4000) / 40
	for i := 0; i < n; i++ {
		z := good[rng.Intn(len(good))]
		w.fillZoneRecs(rng, &z)
		w.discCase(t, out, z)
	}
}

// zones with a secure host and a signed RRset that is consulted
func c13GoodZones(all []c13Zone) []c13Zone {
	var good []c13Zone
	for _, z := range all {
		zt := c13ZoneTruthOf(z)
		if zt.hostSecure && !zt.lookupFails && (zt.secureR || z.m == "s") {
			good = append(good, z)
		}
	}
	return good
}

// ---------------------------------------------------------------- a TLSA discovery that crashes
//
// PrepareConn runs discoverTLSA in a goroutine of its own and recovers a panic there. Nothing is
// known about the TLSA records of the MX after a crash, so the connection must not be used: CheckConn
// has to end in a temporary refusal, as for any other failed discovery (the future is never
// completed; the wait ends with the context). c13Crash injects the panic:
//
//	E     the resolver has an empty server list: the lookup code dereferences the missing response
//	      (first lookup)
//	L     the output of the policy's debug log panics: a crash where discovery reports its decision,
//	      after the lookups have succeeded
//	D<k>  the context handed to PrepareConn panics in its k-th Deadline() call: a crash inside the
//	      resolver library (miekg dns.Client reads the deadline for every exchange), k-th step
//
// Whether the injection fired is observed (L, D) or known by construction (E) and shipped to the
// model as a primitive result.
type c13Crash struct {
	kind  byte // 0 nothing injected
	at    int
	mu    sync.Mutex
	calls int
	fired bool
}

func c13ParseCrash(code string) (*c13Crash, error) {
	switch {
	case code == "":
		return &c13Crash{}, nil
	case code == "E" || code == "L":
		return &c13Crash{kind: code[0]}, nil
	case len(code) >= 2 && code[0] == 'D':
		k, err := strconv.Atoi(code[1:])
		if err == nil && k >= 1 {
			return &c13Crash{kind: 'D', at: k}, nil
		}
	}
	return nil, fmt.Errorf("bad crash injection %q", code)
}

func (c *c13Crash) didFire() bool {
	c.mu.Lock()
	defer c.mu.Unlock()
	return c.fired
}

// log.Output
func (c *c13Crash) Write(stamp time.Time, debug bool, msg string) {
	if c.kind != 'L' {
		return
	}
	c.mu.Lock()
	c.fired = true
	c.mu.Unlock()
	panic("c13: injected crash of the log output")
}

func (c *c13Crash) Close() error { return nil }

type c13CrashCtx struct {
	context.Context
	c *c13Crash
}

func (x c13CrashCtx) Deadline() (time.Time, bool) {
	x.c.mu.Lock()
	x.c.calls++
	hit := x.c.calls == x.c.at
	if hit {
		x.c.fired = true
	}
	x.c.mu.Unlock()
	if hit {
		panic("c13: injected crash inside the resolver library")
	}
	return x.Context.Deadline()
}

// the context PrepareConn is handed
func (c *c13Crash) ctx(ctx context.Context) context.Context {
	if c.kind == 'D' {
		return c13CrashCtx{ctx, c}
	}
	return ctx
}

// the resolver the policy works with
func (c *c13Crash) resolver(ext *dns.ExtResolver) *dns.ExtResolver {
	if c.kind != 'E' || ext == nil {
		return ext
	}
	e := *ext
	cfg := *ext.Cfg
	cfg.Servers = nil
	e.Cfg = &cfg
	c.mu.Lock()
	c.fired = true // by construction: the first lookup of discovery has no response to read
	c.mu.Unlock()
	return &e
}

// the logger of the policy
func (c *c13Crash) logger(name string, quiet bool) log.Logger {
	if c.kind == 'L' {
		return log.Logger{Name: name, Debug: true, Out: c}
	}
	if quiet {
		return log.Logger{Name: name, Out: log.NopOutput{}}
	}
	return log.Logger{Name: name}
}

// c13LookupGone: is no goroutine started by PrepareConn left (the discovery has returned or crashed
// and every deferred handler of it has run)?
var (
	c13StackMu  sync.Mutex
	c13StackBuf = make([]byte, 4<<20)
)

func c13LookupGone() bool {
	c13StackMu.Lock()
	defer c13StackMu.Unlock()
	n := runtime.Stack(c13StackBuf, true)
	return !bytes.Contains(c13StackBuf[:n], []byte("created by github.com/foxcpp/maddy/internal/target/remote.(*daneDelivery).PrepareConn"))
}

// c13SettleLookup waits until no goroutine started by PrepareConn is left: the discovery has returned
// (and has handed over its result) or has crashed (and every deferred handler of it has run). From
// then on the state of the delivery is final. The delivery object is not looked into.
func c13SettleLookup() (gone bool) {
	start := time.Now()
	lastDump := start
	for {
		// pacing only (no verdict depends on these times): the goroutine dump stops the world — the
		// first one after 300 microseconds (a discovery that returns or crashes has usually done so by
		// then), then one per 300 microseconds; spin for the first milliseconds (a sleep is much longer
		// than a lookup), sleep afterwards
		now := time.Now()
		if now.Sub(start) > 300*time.Microsecond && now.Sub(lastDump) > 300*time.Microsecond {
			if c13LookupGone() {
				return true
			}
			lastDump = time.Now()
			if now.Sub(start) > 60*time.Second {
				return false
			}
		}
		if now.Sub(start) < 5*time.Millisecond {
			runtime.Gosched()
		} else {
			time.Sleep(50 * time.Microsecond)
		}
	}
}

// the recover handler of PrepareConn logs the panic with a stack trace through the default logger:
// keep that out of the test output
func c13SilenceDefaultLog() func() {
	old := log.DefaultLogger.Out
	log.DefaultLogger.Out = log.NopOutput{}
	return func() { log.DefaultLogger.Out = old }
}

// CheckConn after a discovery that may have crashed. When the injected panic was raised (observed /
// known by construction: `crashed`) and no lookup goroutine is left, nobody will ever deliver a
// discovery result, and a wait for one in CheckConn can only end with the delivery's context — which
// is over, then, when CheckConn is called (Future.GetContext looks at the value before it looks at the
// context: a result that WAS delivered — by a discovery that ended before the crash point, or by a
// patched-in recover handler — is seen all the same). No clock is involved.
func c13CheckConnAfter(d module.DeliveryMXAuthPolicy, mx string, haveResolver bool, crashed func() bool, st tls.ConnectionState) (lvl module.TLSLevel, err error, panicked bool) {
	defer func() {
		if r := recover(); r != nil {
			panicked = true
		}
	}()
	ctx, cancel := context.WithTimeout(context.Background(), 30*time.Second)
	defer cancel()
	if haveResolver && c13SettleLookup() && crashed() {
		cancel()
	}
	lvl, err = d.CheckConn(ctx, module.MXNone, module.TLSEncrypted, "verif.test", mx, st)
	return
}

// ---------------------------------------------------------------- PrepareConn + CheckConn against a DNS server

var (
	c13SharedPol    *danePolicy
	c13SharedDD     module.DeliveryMXAuthPolicy
	c13SharedDDUses int
)

// One policy-delivery object serves every MX candidate (and recipient domain) of a message: keep it
// for a few consecutive cases, as the remote target does, so that state left over from an earlier
// PrepareConn/CheckConn would show.
func c13SharedDelivery(ext *dns.ExtResolver) module.DeliveryMXAuthPolicy {
	if c13SharedDD == nil || c13SharedDDUses >= 3 {
		c13SharedPol = &danePolicy{extResolver: ext, log: log.Logger{Name: "remote/dane"}}
		c13SharedDD = c13Deliv(c13SharedPol)
		c13SharedDDUses = 0
	}
	c13SharedDDUses++
	c13SharedPol.extResolver = ext
	return c13SharedDD
}

// c13SpellCode / c13ParseSpell: the spelling of the MX host name (index into c13HostSpellings) as the
// last part of a z= code, "h<k>"; absent = 0
func c13SpellCode(host int) string {
	if host == 0 {
		return ""
	}
	return fmt.Sprintf(";h%d", host)
}

func c13ParseSpell(parts []string) ([]string, int, error) {
	if n := len(parts); n > 0 && len(parts[n-1]) >= 2 && parts[n-1][0] == 'h' {
		if k, err := strconv.Atoi(parts[n-1][1:]); err == nil {
			if k < 0 || k >= len(c13HostSpellings) {
				return nil, 0, fmt.Errorf("bad host spelling %q", parts[n-1])
			}
			return parts[:n-1], k, nil
		}
	}
	return parts, 0, nil
}

func (w *c13World) connCase(t *testing.T, out *vh.Out, z c13Zone, ck string, hs bool) {
	w.connCaseX(t, out, z, ck, hs, "", 0)
}

// inj: the crash injected into the discovery (c13Crash; "" = none, op `conn`; else op `cconn`, which
// carries whether the injection fired)
// host: the spelling of the MX host name PrepareConn and CheckConn are handed (c13HostSpellings)
func (w *c13World) connCaseX(t *testing.T, out *vh.Out, z c13Zone, ck string, hs bool, inj string, host int) {
	cr, cerr := c13ParseCrash(inj)
	if cerr != nil {
		t.Fatal(cerr)
	}
	ch := w.chains[ck]
	d := w.dns
	d.set(w.script(z, ch))
	mx := c13HostSpellings[host]
	ock, ocn, trTok, tmTok, _ := w.oracleFor(d, ch, dns.FQDN(mx))
	op := fmt.Sprintf("C13 conn z=%s;%s%s 1 %s %s %s %s %s %s", z.code(), ck, c13SpellCode(host), ock, ocn, trTok, tmTok, c13b(hs), ch.token())

	var dd module.DeliveryMXAuthPolicy
	if inj != "" {
		// a delivery object of its own: the future a crashed discovery leaves empty stays out of the
		// cases that follow
		dd = c13Deliv(&danePolicy{extResolver: cr.resolver(d.ext), log: cr.logger("remote/dane", false)})
	} else {
		dd = c13SharedDelivery(d.ext)
		out.Stat(fmt.Sprintf("conn/delivery-reuse:%d", c13SharedDDUses))
	}
	out.Stat(fmt.Sprintf("conn/host-spelling:%d", host))
	ctx, cancel := context.WithTimeout(context.Background(), 30*time.Second)
	defer cancel()
	dd.PrepareConn(cr.ctx(ctx), mx)
	var (
		lvl      module.TLSLevel
		err      error
		panicked bool
	)
	fired := false
	if inj == "" {
		lvl, err, panicked = c13CallCheckConnMX(dd, mx, w.connState(hs, ch))
	} else {
		lvl, err, panicked = c13CheckConnAfter(dd, mx, true, cr.didFire, w.connState(hs, ch))
		fired = cr.didFire()
		op = fmt.Sprintf("C13 cconn z=%s;%s;%s%s %s %s %s %s %s %s %s", z.code(), ck, inj, c13SpellCode(host), c13b(fired), ock, ocn, trTok, tmTok, c13b(hs), ch.token())
		out.Stat("cconn/injection:" + inj[:1] + " fired:" + c13b(fired))
	}
	obs := "panic"
	if !panicked {
		obs = "ret " + c13Level(lvl) + " " + c13ErrKind(err)
	}
	out.Corr(op, obs)

	// ---- monitor: from the zone description alone
	zt := c13ZoneTruthOf(z)
	lookupFailed := zt.addrFails || zt.lookupFails
	if fired {
		// a crashed discovery is a failed discovery, in every world
		w.connMonitor(out, op, true, true, false, nil, ch, hs, lvl, err, panicked)
		out.Stat("cconn/outcome:" + obs)
		return
	}
	var recs []c13Rec
	haveRecs := false
	if !lookupFailed && zt.hostSecure {
		switch {
		case zt.secureR:
			recs, haveRecs = z.recsR, true
		case z.m == "s":
			recs, haveRecs = z.recsM, true
		}
	}
	if zt.incoherent {
		// address lookups follow an alias the CNAME-type query denies: not a world the property
		// speaks about; correspondence only
		if panicked {
			out.Violation("C13/panic", op, "CheckConn panicked")
		}
	} else {
		w.connMonitor(out, op, true, lookupFailed, haveRecs, recs, ch, hs, lvl, err, panicked)
	}
	out.Stat("conn/outcome:" + obs)
	out.Stat("conn/chain:" + ck)
}

func TestVerifC13Conn(t *testing.T) {
	out := vh.Open("c13_conn")
	defer out.Close()
	w := c13NewWorld(t)
	w.dns = c13StartDNS(t)
	defer w.dns.Close()

	defer c13SilenceDefaultLog()()
	if rp := vh.Replay(); rp != nil {
		for _, op := range rp {
			isConn, isCrash := strings.HasPrefix(op, "C13 conn "), strings.HasPrefix(op, "C13 cconn ")
			if !isConn && !isCrash {
				continue
			}
			toks := strings.Fields(op)
			code := strings.TrimPrefix(toks[2], "z=")
			parts, host, perr := c13ParseSpell(strings.Split(code, ";"))
			z, err := c13ParseZone(code)
			if err != nil || perr != nil || (isConn && len(parts) != 4) || (isCrash && len(parts) != 5) || w.chains[parts[3]] == nil {
				t.Fatalf("cannot replay %q: %v %v", op, err, perr)
			}
			inj := ""
			if isCrash {
				inj = parts[4]
			}
			w.connCaseX(t, out, z, parts[3], toks[len(toks)-2] == "1", inj, host)
		}
		return
	}
	rng := vh.NewRng(vh.Seed() + 1303).Fork() // Fork: consecutive seeds of vh.NewRng give the same stream shifted by one draw
	all := append(c13AllZones(), c13DualZones()...)
	reps := 1
	if vh.Thorough() {
		reps = 4
	}
	for rep := 0; rep < reps; rep++ {
		for _, z := range all {
			w.fillZoneRecs(rng, &z)
			ck := c13ChainKinds[rng.Intn(len(c13ChainKinds))]
			hs := rng.Chance(80)
			if !hs && rng.Chance(60) {
				ck = "E"
			}
			host := 0
			if rng.Chance(30) {
				host = rng.Intn(len(c13HostSpellings))
			}
			w.connCaseX(t, out, z, ck, hs, "", host)
		}
	}
	// the zones in which records are actually found, more often: secure host, signed RRset
	good := c13GoodZones(all)
	n := vh.N(4000) / 20
	for i := 0; i < n; i++ {
		z := good[rng.Intn(len(good))]
		w.fillZoneRecs(rng, &z)
		ck := c13ChainKinds[rng.Intn(len(c13ChainKinds)-1)]
		host := 0
		if rng.Chance(50) {
			host = rng.Intn(len(c13HostSpellings))
		}
		w.connCaseX(t, out, z, ck, rng.Chance(90), "", host)
	}
	// the discovery crashes: empty server list, panicking log output (after the lookups), a panic
	// inside the resolver library at the k-th step — in the worlds where records would be found (the
	// patched-in "no records, no error" then accepts a connection the RRset forbids), and in any
	crashes := []string{"E", "L", "D1", "D2", "D3", "D4", "D5", "D6", "D7", "D8", "D9", "D12"}
	// first the plain ones: a signed RRset with a DANE-EE record exists; the connection is in plaintext
	// / presents another certificate / matches
	pinned := c13Zone{a: "s", c: "-", q: "-", r: "X", m: "s", f: 2, recsM: []c13Rec{{usage: 3, sel: 1, mt: 1, target: 'L', dsel: 1, dmt: 1}}}
	pinnedI := pinned
	pinnedI.recsM = []c13Rec{{usage: 3, sel: 1, mt: 1, target: 'I', dsel: 1, dmt: 1}}
	// the MX host name in every spelling the remote target can hand over (an MX record's target with
	// its trailing dot, in the zone's spelling; the implicit MX of a domain without MX RRset: the
	// recipient domain as typed, no dot): the RRset published for `_25._tcp.<mx>` in the signed zone
	// governs the connection whatever the spelling — plaintext and a non-matching certificate are refused,
	// the matching one is authenticated. Also under the canonical name of an aliased host, and with a
	// DANE-TA record.
	pinnedTA := pinned
	pinnedTA.recsM = []c13Rec{{usage: 2, sel: 0, mt: 1, target: 'I', dsel: 0, dmt: 1}}
	aliased := c13Zone{a: "-", c: "ss", q: "-", r: "s", m: "X", f: 2, recsR: pinned.recsM}
	for h := range c13HostSpellings {
		w.connCaseX(t, out, pinned, "E", false, "", h)
		w.connCaseX(t, out, pinnedI, "LIR", true, "", h)
		w.connCaseX(t, out, pinned, "LIR", true, "", h)
		w.connCaseX(t, out, pinnedTA, "W", true, "", h)
		w.connCaseX(t, out, pinnedTA, "LI", true, "", h)
		w.connCaseX(t, out, aliased, "E", false, "", h)
		w.connCaseX(t, out, aliased, "F", true, "", h)
	}
	// one AD bit per answer: the pinned RRset of a host whose consulted address RRset is signed is
	// enforced whatever the other address answer carries (DNS64-synthesised AAAA without AD, failing
	// AAAA lookup, empty answers); with the consulted RRset insecure the RRset is not used
	for li, a := range c13DualLetters {
		h := (li + int(vh.Seed())) % len(c13HostSpellings)
		for _, zz := range []c13Zone{pinned, pinnedI, pinnedTA, aliased} {
			z := zz
			if z.c == "-" {
				z.a = string(a)
			} else {
				z.c = "s" + string(a)
			}
			switch {
			case zz.recsM == nil: // aliased
				w.connCaseX(t, out, z, "E", false, "", h)
				w.connCaseX(t, out, z, "F", true, "", 0)
			case zz.recsM[0].usage == 2:
				w.connCaseX(t, out, z, "W", true, "", 0)
				w.connCaseX(t, out, z, "LI", true, "", h)
			case zz.recsM[0].target == 'I':
				w.connCaseX(t, out, z, "LIR", true, "", h)
			default:
				w.connCaseX(t, out, z, "E", false, "", 0)
				w.connCaseX(t, out, z, "L", false, "", h)
				w.connCaseX(t, out, z, "LIR", true, "", 0)
			}
		}
	}
	// a good leaf on a path that is not valid (c13BadPathKinds): the published DANE-TA record pins the
	// intermediate / the root of the presented chain
	for ci, ck := range c13HardKinds {
		for fi, f := range [][2]uint8{{1, 1}, {0, 1}, {0, 0}, {1, 2}} {
			for ti, tg := range []byte{'I', 'R'} {
				z := pinned
				z.recsM = []c13Rec{{usage: 2, sel: f[0], mt: f[1], target: tg, dsel: f[0], dmt: f[1]}}
				if (ci+fi+ti)%3 == 2 {
					z = c13Zone{a: "-", c: "ss", q: "-", r: "s", m: "X", f: 2, recsR: z.recsM}
				}
				w.connCaseX(t, out, z, ck, true, "", (ci+fi+ti+int(vh.Seed()))%len(c13HostSpellings))
			}
		}
	}
	for i, inj := range []string{"E", "L", "D1", "D3", "D5"} {
		w.connCaseX(t, out, pinned, "E", false, inj, 0)
		w.connCaseX(t, out, pinnedI, "LIR", true, inj, 0)
		w.connCaseX(t, out, pinned, "LIR", true, inj, 1+i%(len(c13HostSpellings)-1))
	}
	n = vh.N(4000) / 40
	for i := 0; i < n; i++ {
		z := good[rng.Intn(len(good))]
		if rng.Chance(25) {
			z = all[rng.Intn(len(all))]
		}
		w.fillZoneRecs(rng, &z)
		ck := c13ChainKinds[rng.Intn(len(c13ChainKinds))]
		hs := ck != "E" && rng.Chance(70)
		if !hs && rng.Chance(50) {
			ck = "E"
		}
		inj := crashes[i%len(crashes)]
		if i%3 == 0 {
			inj = crashes[i/3%2]
		}
		host := 0
		if rng.Chance(30) {
			host = rng.Intn(len(c13HostSpellings))
		}
		w.connCaseX(t, out, z, ck, hs, inj, host)
	}
}

// ---------------------------------------------------------------- the resolver: framework/dns/dnssec.go
//
// ops `res` (the three lookups DANE discovery is built on, through the real ExtResolver.exchange)
// and `rconn` (PrepareConn + CheckConn on top of them) against scripted DNS servers reachable
//   L1  127.0.0.1  loopback          listener A
//   N   0.0.0.0    NOT loopback      listener A (Linux delivers it to the local host)
//   L2  127.0.0.2  loopback          listener B
// each listening on UDP and TCP. A listener answers as a validating resolver would in the world a
// zone code describes, bent by a personality (c13Pers). The model gets every message of every
// configured server for the five questions discovery can ask, over both transports, and
// isLoopback(server) as known by construction.

// c13Pers: how a listener bends the answers of its zone.
//
//	base:  H as the zone says; A sets AD on every answer (a forger, or a resolver that does not
//	       validate); U never sets AD but sets the AA and CD bits on every answer (an authoritative
//	       server asked directly: nothing it says is validated); F fails every question (RCODE of
//	       the zone); G answers garbage (no usable reply)
//	trunc: - no truncation; e UDP answers have TC set and an empty answer section; p TC set and
//	       only the first RR; f TC set although the answer is complete
//	adp:   z AD as base says on both transports; u AD clear over UDP and set over TCP; b set on
//	       both; n set over UDP, clear over TCP
type c13Pers struct{ base, trunc, adp byte }

func (p c13Pers) String() string { return string([]byte{p.base, p.trunc, p.adp}) }

func c13ParsePers(s string) (c13Pers, error) {
	if len(s) != 3 || !strings.ContainsRune("HAUFG", rune(s[0])) || !strings.ContainsRune("-epf", rune(s[1])) || !strings.ContainsRune("zubn", rune(s[2])) {
		return c13Pers{}, fmt.Errorf("bad personality %q", s)
	}
	return c13Pers{s[0], s[1], s[2]}, nil
}

type c13Wire struct {
	garbage bool
	rcode   int
	ad, tc  bool
	aa      bool // AA and CD set: header bits that say nothing about DNSSEC validation
	rrs     []miekgdns.RR
}

type c13QA struct{ udp, tcp c13Wire }

func (p c13Pers) apply(ans c13Answer, ok bool, failRcode int) c13QA {
	switch {
	case p.base == 'G':
		return c13QA{c13Wire{garbage: true}, c13Wire{garbage: true}}
	case p.base == 'F':
		return c13QA{c13Wire{rcode: failRcode}, c13Wire{rcode: failRcode}}
	case !ok:
		return c13QA{c13Wire{rcode: miekgdns.RcodeNameError}, c13Wire{rcode: miekgdns.RcodeNameError}}
	case ans.rcode != 0:
		return c13QA{c13Wire{rcode: ans.rcode}, c13Wire{rcode: ans.rcode}}
	}
	full := c13Wire{ad: ans.ad || p.base == 'A', aa: p.base == 'U' || p.base == 'A', rrs: ans.rrs}
	qa := c13QA{full, full}
	adp := p.adp
	if p.base == 'U' {
		qa.udp.ad, qa.tcp.ad, adp = false, false, 'z'
	}
	switch adp {
	case 'u':
		qa.udp.ad, qa.tcp.ad = false, true
	case 'b':
		qa.udp.ad, qa.tcp.ad = true, true
	case 'n':
		qa.udp.ad, qa.tcp.ad = true, false
	}
	switch p.trunc {
	case 'e':
		qa.udp.tc, qa.udp.rrs = true, nil
	case 'p':
		qa.udp.tc = true
		if len(qa.udp.rrs) > 1 {
			qa.udp.rrs = qa.udp.rrs[:1]
		}
	case 'f':
		qa.udp.tc = true
	}
	return qa
}

// the five questions of discovery
var c13Questions = []struct {
	name  string
	qtype uint16
}{
	{c13MXFQ, miekgdns.TypeA},
	{c13MXFQ, miekgdns.TypeAAAA},
	{c13MXFQ, miekgdns.TypeCNAME},
	{"_25._tcp." + c13Canon, miekgdns.TypeTLSA},
	{"_25._tcp." + c13MXFQ, miekgdns.TypeTLSA},
}

// c13Listener is one scripted DNS server, UDP and TCP on the same address and port.
type c13Listener struct {
	mu         sync.Mutex
	pers       c13Pers
	failRcode  int
	script     map[string]c13Answer
	udp, tcp   *miekgdns.Server
	tcpQueries int
}

func (l *c13Listener) answer(name string, qtype uint16) c13QA {
	l.mu.Lock()
	defer l.mu.Unlock()
	ans, ok := l.script[c13QKey(name, qtype)]
	return l.pers.apply(ans, ok, l.failRcode)
}

func (l *c13Listener) ServeDNS(wr miekgdns.ResponseWriter, m *miekgdns.Msg) {
	_, isUDP := wr.RemoteAddr().(*net.UDPAddr)
	q := m.Question[0]
	qa := l.answer(q.Name, q.Qtype)
	wire := qa.udp
	if !isUDP {
		wire = qa.tcp
		l.mu.Lock()
		l.tcpQueries++
		l.mu.Unlock()
	}
	if wire.garbage {
		_, _ = wr.Write([]byte{0xde, 0xad, 0xbe})
		return
	}
	reply := new(miekgdns.Msg)
	reply.SetReply(m)
	reply.RecursionAvailable = true
	reply.Rcode = wire.rcode
	reply.AuthenticatedData = wire.ad
	reply.Truncated = wire.tc
	reply.Authoritative, reply.CheckingDisabled = wire.aa, wire.aa
	reply.Answer = wire.rrs
	_ = wr.WriteMsg(reply)
}

func (l *c13Listener) set(p c13Pers, failRcode int, sc map[string]c13Answer) {
	l.mu.Lock()
	l.pers, l.failRcode, l.script = p, failRcode, sc
	l.mu.Unlock()
}

type c13NetEnv struct {
	a, b *c13Listener
	port int
	ext  *dns.ExtResolver
}

func (e *c13NetEnv) Close() {
	for _, l := range []*c13Listener{e.a, e.b} {
		_ = l.udp.Shutdown()
		_ = l.tcp.Shutdown()
	}
}

// the resolver addresses: what ExtResolver is configured with, which listener is behind, and
// whether the address is a loopback address (ground truth, by construction)
var c13Addrs = map[string]struct {
	ip       string
	listener byte
	loopback bool
}{
	"L1": {"127.0.0.1", 'a', true},
	"N":  {"0.0.0.0", 'a', false},
	"L2": {"127.0.0.2", 'b', true},
}

func c13StartNet(t *testing.T) *c13NetEnv {
	var lastErr error
	for attempt := 0; attempt < 30; attempt++ {
		var open []interface{ Close() error }
		fail := func(err error) {
			lastErr = err
			for _, c := range open {
				_ = c.Close()
			}
		}
		tcpA, err := net.Listen("tcp4", "127.0.0.1:0")
		if err != nil {
			fail(err)
			continue
		}
		open = append(open, tcpA)
		port := tcpA.Addr().(*net.TCPAddr).Port
		udpA, err := net.ListenPacket("udp4", fmt.Sprintf("127.0.0.1:%d", port))
		if err != nil {
			fail(err)
			continue
		}
		open = append(open, udpA)
		tcpB, err := net.Listen("tcp4", fmt.Sprintf("127.0.0.2:%d", port))
		if err != nil {
			fail(err)
			continue
		}
		open = append(open, tcpB)
		udpB, err := net.ListenPacket("udp4", fmt.Sprintf("127.0.0.2:%d", port))
		if err != nil {
			fail(err)
			continue
		}
		e := &c13NetEnv{a: &c13Listener{}, b: &c13Listener{}, port: port}
		var wg sync.WaitGroup
		start := func(l *c13Listener, pc net.PacketConn, ln net.Listener) {
			wg.Add(2)
			l.udp = &miekgdns.Server{PacketConn: pc, Handler: l, NotifyStartedFunc: wg.Done}
			l.tcp = &miekgdns.Server{Listener: ln, Handler: l, NotifyStartedFunc: wg.Done}
			go func() { _ = l.udp.ActivateAndServe() }()
			go func() { _ = l.tcp.ActivateAndServe() }()
		}
		start(e.a, udpA, tcpA)
		start(e.b, udpB, tcpB)
		done := make(chan struct{})
		go func() { wg.Wait(); close(done) }()
		select {
		case <-done:
		case <-time.After(30 * time.Second):
			t.Fatal("c13: DNS servers did not start")
		}
		ext, err := dns.NewExtResolver()
		if err != nil {
			t.Fatal(err)
		}
		ext.Cfg.Port = strconv.Itoa(port)
		e.ext = ext
		return e
	}
	t.Fatalf("c13: cannot bind the DNS listeners (127.0.0.1 and 127.0.0.2, UDP+TCP, one port): %v", lastErr)
	return nil
}

// c13Net is one resolver world.
type c13Net struct {
	zA, zB  c13Zone
	pA, pB  c13Pers
	servers []string // keys of c13Addrs, in the order of Cfg.Servers
	ck      string
	hs      bool
}

func (n c13Net) code() string {
	return fmt.Sprintf("%s+%s+%s+%s+%s+%s", n.zA.code(), n.zB.code(), n.pA, n.pB, c13dash(strings.Join(n.servers, ",")), n.ck)
}

func c13ParseNet(code string) (c13Net, error) {
	p := strings.Split(code, "+")
	if len(p) != 6 {
		return c13Net{}, fmt.Errorf("bad resolver world %q", code)
	}
	var n c13Net
	var err error
	if n.zA, err = c13ParseZone(p[0]); err != nil {
		return n, err
	}
	if n.zB, err = c13ParseZone(p[1]); err != nil {
		return n, err
	}
	if n.pA, err = c13ParsePers(p[2]); err != nil {
		return n, err
	}
	if n.pB, err = c13ParsePers(p[3]); err != nil {
		return n, err
	}
	if p[4] != "-" {
		for _, s := range strings.Split(p[4], ",") {
			if _, ok := c13Addrs[s]; !ok {
				return n, fmt.Errorf("bad resolver address %q", s)
			}
			n.servers = append(n.servers, s)
		}
	}
	n.ck = p[5]
	return n, nil
}

func (w *c13World) wireToken(qi int, wire c13Wire, ch *c13Chain) string {
	if wire.garbage {
		return "x"
	}
	body := "-"
	switch qi {
	case 0, 1:
		body = "E"
		for _, rr := range wire.rrs {
			if (qi == 0 && rr.Header().Rrtype == miekgdns.TypeA) || (qi == 1 && rr.Header().Rrtype == miekgdns.TypeAAAA) {
				if rr.Header().Name == c13MXFQ {
					body = "S"
				} else {
					body = "O"
				}
			}
		}
	case 3, 4:
		var p []string
		for _, rr := range wire.rrs {
			if t, ok := rr.(*miekgdns.TLSA); ok {
				p = append(p, w.rrToken(*t, ch))
			}
		}
		body = c13dash(strings.Join(p, ","))
	}
	return fmt.Sprintf("%d:%s:%s:%s", wire.rcode, c13b(wire.ad), c13b(wire.tc), body)
}

// what one configured server is, for the model (token) and for the monitor
type c13SrvTruth struct {
	key      string
	loopback bool
	listener byte
	pers     c13Pers
	zone     c13Zone
	q        [5]c13QA
}

func (w *c13World) srvToken(s c13SrvTruth, ch *c13Chain) string {
	p := []string{c13b(s.loopback)}
	for qi := range c13Questions {
		p = append(p, w.wireToken(qi, s.q[qi].udp, ch)+"~"+w.wireToken(qi, s.q[qi].tcp, ch))
	}
	return strings.Join(p, "/")
}

func c13WireOK(wi c13Wire) bool { return !wi.garbage && wi.rcode == 0 }

// does a loopback server of the list deliver, over either transport, a successful answer to one of
// the questions qs with AD set and satisfying pred?
func c13TrustedAnswer(srvs []c13SrvTruth, pred func(s c13SrvTruth, qi int) bool, qs ...int) bool {
	for _, s := range srvs {
		if !s.loopback {
			continue
		}
		for _, qi := range qs {
			for _, wi := range []c13Wire{s.q[qi].udp, s.q[qi].tcp} {
				if c13WireOK(wi) && wi.ad && (pred == nil || pred(s, qi)) {
					return true
				}
			}
		}
	}
	return false
}

func (w *c13World) netCase(t *testing.T, out *vh.Out, env *c13NetEnv, n c13Net, doRes, doConn bool) {
	ch := w.chains[n.ck]
	env.a.set(n.pA, n.zA.f, w.script(n.zA, ch))
	env.b.set(n.pB, n.zB.f, w.script(n.zB, ch))
	var srvs []c13SrvTruth
	var ips, toks []string
	anyLoopback := false
	for _, key := range n.servers {
		a := c13Addrs[key]
		st := c13SrvTruth{key: key, loopback: a.loopback, listener: a.listener, pers: n.pA, zone: n.zA}
		l := env.a
		if a.listener == 'b' {
			l, st.pers, st.zone = env.b, n.pB, n.zB
		}
		for qi, q := range c13Questions {
			st.q[qi] = l.answer(q.name, q.qtype)
		}
		srvs = append(srvs, st)
		ips = append(ips, a.ip)
		toks = append(toks, w.srvToken(st, ch))
		anyLoopback = anyLoopback || a.loopback
	}
	ext := *env.ext
	cfg := *env.ext.Cfg
	cfg.Servers = ips
	ext.Cfg = &cfg
	ctx, cancel := context.WithTimeout(context.Background(), 30*time.Second)
	defer cancel()
	srvTok := strings.Join(toks, " ")
	out.Stat("res/servers:" + c13dash(strings.Join(n.servers, ",")))
	for _, s := range srvs {
		out.Stat("res/personality:" + s.pers.String())
	}

	if doRes {
		op := strings.TrimRight("C13 res z="+n.code()+" "+srvTok, " ")
		obs, viol := w.resCalls(ctx, &ext, ch, srvs, anyLoopback)
		out.Corr(op, obs)
		for _, v := range viol {
			out.Violation(v[0], op, v[1])
		}
		out.Stat("res/outcome:" + strings.Join(strings.Fields(obs)[:min(2, len(strings.Fields(obs)))], " "))
	}
	if !doConn {
		return
	}

	op := strings.TrimRight(fmt.Sprintf("C13 rconn z=%s %s %s %s", n.code(), c13b(n.hs), ch.token(), srvTok), " ")
	dd := c13Deliv(&danePolicy{extResolver: &ext, log: log.Logger{Name: "remote/dane"}})
	dd.PrepareConn(ctx, c13MX)
	var (
		lvl      module.TLSLevel
		err      error
		panicked bool
	)
	if len(srvs) == 0 {
		// no server configured: the discovery goroutine dereferences a nil response and dies; the
		// future is never completed, the wait ends with the delivery's context
		lvl, err, panicked = c13CheckConnAfter(dd, c13MX, true, func() bool { return true }, w.connState(n.hs, ch))
	} else {
		lvl, err, panicked = c13CallCheckConn(dd, w.connState(n.hs, ch))
	}
	obs := "panic"
	if !panicked {
		obs = "ret " + c13Level(lvl) + " " + c13ErrKind(err)
	}
	out.Corr(op, obs)
	out.Stat("rconn/outcome:" + obs)
	inSpace := len(ch.certs) > 0 || !n.hs
	if panicked {
		if inSpace {
			out.Violation("C13/panic", op, "CheckConn panicked")
		}
		return
	}
	if !inSpace {
		return
	}
	if len(srvs) == 0 {
		out.Stat("rconn/monitor:discovery-crashed")
		w.connMonitor(out, op, true, true, false, nil, ch, n.hs, lvl, err, false)
		return
	}

	// ---- monitor 1 (every world): a DANE decision needs a TLSA answer a LOOPBACK server delivered
	// with AD set — whatever the transport it came over
	detail := fmt.Sprintf("level=%v err=%v servers=%v", lvl, err, n.servers)
	kind := c13ErrKind(err)
	matches := func(s c13SrvTruth, qi int) bool {
		recs := s.zone.recsM
		if qi == 3 {
			recs = s.zone.recsR
		}
		return n.hs && w.truth(recs, ch).matched()
	}
	if lvl == module.TLSAuthenticated && !c13TrustedAnswer(srvs, matches, 3, 4) {
		if c13TrustedAnswer(srvs, nil, 3, 4) {
			out.Violation("C13/authenticated-without-match", op, detail)
		} else {
			out.Violation("C13/authenticated-on-unauthenticated-rrset", op, detail)
		}
	}
	if kind == "tls" || kind == "nomatch" {
		has := func(s c13SrvTruth, qi int) bool {
			recs := s.zone.recsM
			if qi == 3 {
				recs = s.zone.recsR
			}
			if kind == "tls" {
				return len(recs) > 0
			}
			return w.truth(recs, ch).anyUsable
		}
		if !c13TrustedAnswer(srvs, has, 3, 4) {
			out.Violation("C13/refused-on-unauthenticated-rrset", op, detail)
		}
	}
	if lvl != module.TLSNone && err != nil {
		out.Violation("C13/conn-level-raised-with-error", op, detail)
	}
	if err != nil && kind != "temp" && kind != "tls" && kind != "nomatch" {
		out.Violation("C13/lookup-error-not-temporary-refusal", op, detail)
	}

	// ---- monitor 2 (worlds where one server is the effective one for every question and what it
	// delivers does not depend on the transport): the whole property, from the zone description
	eff := -1
	allFail := false
	failing := func(s c13SrvTruth) bool { return s.pers.base == 'F' || s.pers.base == 'G' }
	sameListener := true
	for _, s := range srvs {
		sameListener = sameListener && s.listener == srvs[0].listener
	}
	switch {
	case sameListener && failing(srvs[0]):
		allFail = true
	case sameListener:
		eff = 0
	case failing(srvs[0]) && len(srvs) == 2 && failing(srvs[1]):
		allFail = true
	case failing(srvs[0]) && len(srvs) == 2:
		eff = 1
	}
	if allFail {
		out.Stat("rconn/monitor:all-servers-fail")
		w.connMonitor(out, op, true, true, false, nil, ch, n.hs, lvl, err, false)
		return
	}
	if eff < 0 {
		out.Stat("rconn/monitor:soundness-only")
		return
	}
	e := srvs[eff]
	// nothing is authenticated: the server is not on loopback, or it never sets AD
	trusted := e.loopback && e.pers.base != 'U'
	if !((e.pers.base == 'H' || e.pers.base == 'A' || e.pers.base == 'U') && (e.pers.trunc == '-' || e.pers.trunc == 'f')) ||
		(trusted && !(e.pers.base == 'H' && e.pers.adp == 'z')) {
		out.Stat("rconn/monitor:soundness-only")
		return
	}
	out.Stat("rconn/monitor:whole-property/trusted:" + c13b(trusted))
	zt := c13ZoneTruthOfT(e.zone, trusted)
	lookupFailed := zt.addrFails || zt.lookupFails
	var recs []c13Rec
	haveRecs := false
	if !lookupFailed && zt.hostSecure {
		switch {
		case zt.secureR:
			recs, haveRecs = e.zone.recsR, true
		case e.zone.m == "s":
			recs, haveRecs = e.zone.recsM, true
		}
	}
	if !zt.incoherent {
		w.connMonitor(out, op, true, lookupFailed, haveRecs, recs, ch, n.hs, lvl, err, false)
	}
}

// the three lookups, through the real ExtResolver; monitor: an AD flag is reported only when a
// loopback server delivered the answer with AD set
func (w *c13World) resCalls(ctx context.Context, ext *dns.ExtResolver, ch *c13Chain, srvs []c13SrvTruth, anyLoopback bool) (obs string, viol [][2]string) {
	defer func() {
		if r := recover(); r != nil {
			obs = "panic"
		}
	}()
	flag := func(what string, ad bool, qs ...int) {
		if !ad || c13TrustedAnswer(srvs, nil, qs...) {
			return
		}
		sig := "C13/ad-reported-without-trusted-ad"
		if !anyLoopback {
			sig = "C13/ad-trusted-from-non-loopback-resolver"
		}
		viol = append(viol, [2]string{sig, what + " reports ad=true"})
	}
	var ck, cn string
	adA, rn, err := ext.CheckCNAMEAD(ctx, c13MXFQ)
	switch {
	case err != nil:
		ck = "e:" + c13LErr(err)
	case rn == "":
		ck = "ok:" + c13b(adA) + ":E"
	case rn == c13MXFQ:
		ck = "ok:" + c13b(adA) + ":S"
	default:
		ck = "ok:" + c13b(adA) + ":O"
	}
	flag("CheckCNAMEAD", err == nil && adA, 0, 1)
	cad, _, err := ext.AuthLookupCNAME(ctx, c13MXFQ)
	if err != nil {
		cn = "e:" + c13LErr(err)
	} else {
		cn = "ok:" + c13b(cad)
	}
	flag("AuthLookupCNAME", err == nil && cad, 2)
	keyTok := func(ad bool, recs []dns.TLSA, err error) string {
		e := "-"
		if err != nil {
			e = c13LErr(err)
		}
		var p []string
		for _, rr := range recs {
			p = append(p, w.rrKey(rr, ch))
		}
		return e + ":" + c13b(ad) + ":" + c13dash(strings.Join(p, ","))
	}
	ad, recs, err := ext.AuthLookupTLSA(ctx, "25", "tcp", c13Canon)
	tr := keyTok(ad, recs, err)
	flag("AuthLookupTLSA(canonical name)", ad, 3)
	ad, recs, err = ext.AuthLookupTLSA(ctx, "25", "tcp", c13MXFQ)
	tm := keyTok(ad, recs, err)
	flag("AuthLookupTLSA(MX name)", ad, 4)
	return ck + " " + cn + " " + tr + " " + tm, viol
}

var (
	c13PersHonest  = []string{"H-z", "H-z", "Hfz", "Hez", "Hpz", "U-z", "Ufz"}
	c13PersForging = []string{"A-b", "Aeb", "Afb", "Apb", "Heu", "Hfu", "Hpu", "Aeu", "Afu", "H-u", "H-b", "Hen", "Afn", "Hez", "Hfz"}
	c13PersFailing = []string{"F-z", "G-z"}
	c13ServerLists = [][]string{{"L1"}, {"N"}, {"L2"}, {"N"}, {"N", "L2"}, {"L2", "N"}, {"L1", "L2"}, {"N", "L1"}, {"L2", "L1"}, {"N", "N"}}
)

func TestVerifC13Resolver(t *testing.T) {
	out := vh.Open("c13_res")
	defer out.Close()
	defer c13SilenceDefaultLog()()
	w := c13NewWorld(t)
	env := c13StartNet(t)
	defer env.Close()

	if rp := vh.Replay(); rp != nil {
		for _, op := range rp {
			isRes, isConn := strings.HasPrefix(op, "C13 res "), strings.HasPrefix(op, "C13 rconn ")
			if !isRes && !isConn {
				continue
			}
			toks := strings.Fields(op)
			n, err := c13ParseNet(strings.TrimPrefix(toks[2], "z="))
			if err != nil || w.chains[n.ck] == nil {
				t.Fatalf("cannot replay %q: %v", op, err)
			}
			if isConn {
				n.hs = toks[3] == "1"
			}
			w.netCase(t, out, env, n, isRes, isConn)
		}
		return
	}
	rng := vh.NewRng(vh.Seed() + 1304).Fork()
	all := append(c13AllZones(), c13DualZones()...)
	good := c13GoodZones(all)
	pers := func(list []string) c13Pers {
		p, err := c13ParsePers(list[rng.Intn(len(list))])
		if err != nil {
			t.Fatal(err)
		}
		return p
	}
	zone := func(pool []c13Zone) c13Zone {
		z := pool[rng.Intn(len(pool))]
		w.fillZoneRecs(rng, &z)
		return z
	}
	chain := func() (string, bool) {
		ck := c13ChainKinds[rng.Intn(len(c13ChainKinds)-1)]
		hs := rng.Chance(90)
		if !hs && rng.Chance(50) {
			ck = "E"
		}
		return ck, hs
	}

	// (0) no server configured: every lookup dereferences a nil response; PrepareConn + CheckConn:
	// the discovery goroutine crashes, the connection is refused (temporarily) whatever its TLS state
	for i, c := range []struct {
		ck string
		hs bool
	}{{"LIR", true}, {"L", true}, {"E", false}, {"LIR", false}, {"W", true}, {"S", true}, {"G", true}} {
		w.netCase(t, out, env, c13Net{zA: zone(good), zB: zone(good), pA: pers(c13PersHonest), pB: pers(c13PersHonest), ck: c.ck, hs: c.hs}, i == 0, true)
	}

	// (1) one server, answers that do not depend on the transport — every zone shape in turn behind
	// the non-loopback address (half of them with AD forged on), the loopback ones on the zones
	// where records are found: the whole property, from the zone description
	reps := 1
	if vh.Thorough() {
		reps = 4
	}
	for rep := 0; rep < reps; rep++ {
		for i, z := range all {
			if !vh.Thorough() && (i+int(vh.Seed()))%3 != 0 {
				continue
			}
			w.fillZoneRecs(rng, &z)
			ck, hs := chain()
			n := c13Net{zA: z, zB: zone(good), pA: pers([]string{"H-z", "A-b", "Hfu", "Afb"}), pB: pers(c13PersHonest), servers: []string{"N"}, ck: ck, hs: hs}
			w.netCase(t, out, env, n, true, true)
		}
		for _, z := range good {
			w.fillZoneRecs(rng, &z)
			ck, hs := chain()
			key := []string{"L1", "L2"}[rng.Intn(2)]
			n := c13Net{zA: z, zB: z, pA: pers([]string{"H-z", "Hfz", "H-z", "U-z"}), servers: []string{key}, ck: ck, hs: hs}
			n.pB = n.pA
			w.netCase(t, out, env, n, true, true)
		}
	}

	// (2) sampled worlds: server lists mixing the addresses, failing servers in front, forged AD
	// flags, truncated UDP answers with a differing TCP follow-up
	cnt := vh.N(4000) / 10
	for i := 0; i < cnt; i++ {
		pool := good
		if rng.Chance(25) {
			pool = all
		}
		n := c13Net{zA: zone(pool), zB: zone(good), servers: c13ServerLists[rng.Intn(len(c13ServerLists))]}
		n.ck, n.hs = chain()
		pick := func(first bool) c13Pers {
			switch {
			case first && len(n.servers) > 1 && rng.Chance(45):
				return pers(c13PersFailing)
			case rng.Chance(8):
				return pers(c13PersFailing)
			case rng.Chance(45):
				return pers(c13PersHonest)
			}
			return pers(c13PersForging)
		}
		firstIsA := c13Addrs[n.servers[0]].listener == 'a'
		n.pA, n.pB = pick(firstIsA), pick(!firstIsA)
		w.netCase(t, out, env, n, true, true)
	}
	out.Note(fmt.Sprintf("resolver: TCP queries received by the listeners: %d", env.a.tcpQueries+env.b.tcpQueries))
}

// ---------------------------------------------------------------- connect() in front of verifyDANE
//
// op `attempt`: the real remoteDelivery.attemptMX — PrepareConn (discovery through the real
// ExtResolver against the scripted DNS server), connect() (STARTTLS, the retry with
// InsecureSkipVerify after a verification error, the plaintext fall-back) against a scripted SMTP
// server that presents a runtime-generated chain, then CheckConn on the connection state the real
// code produced. The connection state verifyDANE sees is the one crypto/tls reports for the
// handshake connect() actually made — its ServerName is the reference identifier of the DANE-TA
// path validation.

// c13SMTP is a scripted SMTP server. Per connection of a case (in the order they arrive) a mode:
//
//	T  STARTTLS offered, the handshake is served with the case's chain
//	N  STARTTLS not offered
//	R  STARTTLS offered, the command answered 454
//	H  STARTTLS offered and accepted, the connection closed instead of a handshake
//	D  connection closed before the greeting
type c13SMTP struct {
	ln    net.Listener
	mu    sync.Mutex
	modes string
	cert  tls.Certificate
	conns []*c13SMTPConn
	wg    sync.WaitGroup
}

// what the server saw on one connection
type c13SMTPConn struct {
	mode    byte
	offered bool
	hsTried bool
	hsOK    bool
	sni     string
}

func c13StartSMTP(t *testing.T) *c13SMTP {
	ln, err := net.Listen("tcp4", "127.0.0.1:0")
	if err != nil {
		t.Fatal(err)
	}
	s := &c13SMTP{ln: ln}
	go func() {
		for {
			c, err := ln.Accept()
			if err != nil {
				return
			}
			s.mu.Lock()
			mode := byte('T')
			if k := len(s.conns); k < len(s.modes) {
				mode = s.modes[k]
			} else if len(s.modes) > 0 {
				mode = s.modes[len(s.modes)-1]
			}
			ev := &c13SMTPConn{mode: mode}
			s.conns = append(s.conns, ev)
			cert := s.cert
			s.wg.Add(1)
			s.mu.Unlock()
			go func() {
				defer s.wg.Done()
				s.serve(c, ev, cert)
			}()
		}
	}()
	return s
}

func (s *c13SMTP) Close() { _ = s.ln.Close() }

// arm: the script of the next case
func (s *c13SMTP) arm(modes string, cert tls.Certificate) {
	s.mu.Lock()
	s.modes, s.cert, s.conns = modes, cert, nil
	s.mu.Unlock()
}

// events: waits until every connection of the case is over
func (s *c13SMTP) events() []c13SMTPConn {
	s.wg.Wait()
	s.mu.Lock()
	defer s.mu.Unlock()
	var out []c13SMTPConn
	for _, c := range s.conns {
		out = append(out, *c)
	}
	return out
}

func (s *c13SMTP) serve(c net.Conn, ev *c13SMTPConn, cert tls.Certificate) {
	defer func() { _ = c.Close() }()
	_ = c.SetDeadline(time.Now().Add(2 * time.Minute))
	if ev.mode == 'D' {
		return
	}
	rd := bufio.NewReader(c)
	say := func(line string) bool {
		_, err := c.Write([]byte(line + "\r\n"))
		return err == nil
	}
	if !say("220 mx.verif.test ESMTP verif") {
		return
	}
	inTLS := false
	for {
		line, err := rd.ReadString('\n')
		if err != nil {
			return
		}
		cmd := strings.ToUpper(strings.TrimSpace(line))
		switch {
		case strings.HasPrefix(cmd, "EHLO"):
			offer := !inTLS && ev.mode != 'N'
			if offer {
				s.mu.Lock()
				ev.offered = true
				s.mu.Unlock()
				if !say("250-mx.verif.test") || !say("250-STARTTLS") || !say("250 8BITMIME") {
					return
				}
			} else if !say("250-mx.verif.test") || !say("250 8BITMIME") {
				return
			}
		case strings.HasPrefix(cmd, "HELO"):
			if !say("250 mx.verif.test") {
				return
			}
		case cmd == "STARTTLS":
			if inTLS || ev.mode == 'N' {
				if !say("503 5.5.1 no") {
					return
				}
				continue
			}
			if ev.mode == 'R' {
				if !say("454 4.7.0 TLS not available due to temporary reason") {
					return
				}
				continue
			}
			if !say("220 2.0.0 go ahead") {
				return
			}
			s.mu.Lock()
			ev.hsTried = true
			s.mu.Unlock()
			if ev.mode == 'H' {
				return
			}
			cfg := &tls.Config{
				Certificates: []tls.Certificate{cert},
				GetConfigForClient: func(h *tls.ClientHelloInfo) (*tls.Config, error) {
					s.mu.Lock()
					ev.sni = h.ServerName
					s.mu.Unlock()
					return nil, nil
				},
			}
			tc := tls.Server(c, cfg)
			if err := tc.Handshake(); err != nil {
				return
			}
			s.mu.Lock()
			ev.hsOK = true
			s.mu.Unlock()
			c, rd, inTLS = tc, bufio.NewReader(tc), true
		case cmd == "QUIT":
			say("221 2.0.0 bye")
			return
		default:
			if !say("250 2.0.0 ok") {
				return
			}
		}
	}
}

// c13Spy is a policy placed in front of the DANE policy: it records what attemptMX hands to
// CheckConn (the state of the connection connect() left) and never has an opinion.
type c13Spy struct {
	called bool
	st     tls.ConnectionState
	lvl    module.TLSLevel
	mx     string
	// before: run when CheckConn is reached, ahead of the DANE policy's CheckConn (crash cases: wait
	// for the discovery goroutine to be gone, then end the delivery's context)
	before func()
}

func (s *c13Spy) PrepareDomain(ctx context.Context, domain string) {}
func (s *c13Spy) PrepareConn(ctx context.Context, mx string)       {}
func (s *c13Spy) Reset(*module.MsgMetadata)                        {}
func (s *c13Spy) CheckMX(ctx context.Context, mxLevel module.MXLevel, domain, mx string, dnssec bool) (module.MXLevel, error) {
	return module.MXNone, nil
}

func (s *c13Spy) CheckConn(ctx context.Context, mxLevel module.MXLevel, tlsLevel module.TLSLevel, domain, mx string, st tls.ConnectionState) (module.TLSLevel, error) {
	s.called, s.st, s.lvl, s.mx = true, st, tlsLevel, mx
	if s.before != nil {
		s.before()
	}
	return module.TLSNone, nil
}

// spellings of the MX host name as attemptMX can be handed it (record.Host)
//
//	0  as an MX record gives it (lower case, trailing dot)
//	1  without the trailing dot: the implicit MX of a recipient domain without MX RRset is the domain as
//	   the address spells it (RFC 5321 §5.1; lookupMX: `Host: domain`)
//	2  an MX record target in the zone's own mixed-case spelling (DNS preserves case)
//	3  an implicit MX typed in capitals
//	4  mixed case, no dot
var c13HostSpellings = []string{"mx.verif.test.", "mx.verif.test", "MX.Verif.Test.", "MX.VERIF.TEST", "mX.veRif.Test"}

// c13Att is one `attempt` case.
//
//	modes: the server's behaviour on the 1st, 2nd, 3rd connection (c13SMTP)
//	pool:  p the client trusts no CA (private-CA world: the first handshake fails verification),
//	       t the client trusts the roots of both hierarchies (an ordinary CA store)
//	       s the same, through the SYSTEM trust store (no RootCAs in the configuration — as maddy runs)
//	base:  d rd.rt.tlsConfig as maddy builds it (no ServerName), o it carries ServerName =
//	       c13OtherName, n there is no TLS configuration (nil)
//	host:  index into c13HostSpellings
//	hr:    the DANE policy has a resolver
//	crash: the TLSA discovery PrepareConn starts crashes (c13Crash: E or L; "" = no injection)
type c13Att struct {
	zone  c13Zone
	ck    string
	modes string
	pool  byte
	base  byte
	host  int
	// src: where the *net.MX handed to attemptMX comes from — 0 the harness builds it (Host = the
	// spelling); i / x the REAL remoteDelivery.lookupMX, through the real ExtResolver against the
	// scripted server: i for a recipient domain WITHOUT MX RRset, spelled as c13HostSpellings[host] (RFC
	// 5321 §5.1 implicit MX: lookupMX answers `Host: domain`, as typed), x for the domain verif.test with
	// an MX RRset whose target is the spelling (as it comes off the wire: fully qualified)
	src   byte
	hr    bool
	crash string
}

func (a c13Att) code() string {
	s := fmt.Sprintf("%s;%s;%s;%c;%c;%d", a.zone.code(), a.ck, a.modes, a.pool, a.base, a.host)
	if a.src != 0 {
		s += string(a.src)
	}
	if a.crash != "" {
		s += ";" + a.crash
	}
	return s
}

func c13ParseAtt(code string, hr bool) (c13Att, error) {
	p := strings.Split(code, ";")
	crash := ""
	if len(p) == 9 && (p[8] == "E" || p[8] == "L") {
		crash, p = p[8], p[:8]
	}
	if len(p) != 8 || len(p[4]) != 3 || len(p[5]) != 1 || len(p[6]) != 1 {
		return c13Att{}, fmt.Errorf("bad attempt code %q", code)
	}
	z, err := c13ParseZone(code)
	if err != nil {
		return c13Att{}, err
	}
	var src byte
	if n := len(p[7]); n >= 2 && (p[7][n-1] == 'i' || p[7][n-1] == 'x') {
		src, p[7] = p[7][n-1], p[7][:n-1]
	}
	h, err := strconv.Atoi(p[7])
	if err != nil || h < 0 || h >= len(c13HostSpellings) || !strings.ContainsRune("pts", rune(p[5][0])) || !strings.ContainsRune("don", rune(p[6][0])) {
		return c13Att{}, fmt.Errorf("bad attempt code %q", code)
	}
	for _, m := range p[4] {
		if !strings.ContainsRune("TNRHD", m) {
			return c13Att{}, fmt.Errorf("bad attempt code %q", code)
		}
	}
	return c13Att{zone: z, ck: p[3], modes: p[4], pool: p[5][0], base: p[6][0], host: h, src: src, hr: hr, crash: crash}, nil
}

var c13QuietLog = log.Logger{Out: log.NopOutput{}, Name: "c13"}

// does crypto/tls' own verification of the presented chain pass, against `pool`, for `name`?
// (what the client does without InsecureSkipVerify: roots = RootCAs, intermediates = the other
// presented certificates, DNSName = Config.ServerName)
func c13PKIX(ch *c13Chain, pool *x509.CertPool, name string) bool {
	inters := x509.NewCertPool()
	for _, c := range ch.certs[1:] {
		inters.AddCert(c)
	}
	_, err := ch.certs[0].Verify(x509.VerifyOptions{DNSName: name, Roots: pool, Intermediates: inters})
	return err == nil
}

func (w *c13World) tlsCert(ch *c13Chain) tls.Certificate {
	var der [][]byte
	for _, c := range ch.certs {
		der = append(der, c.Raw)
	}
	return tls.Certificate{Certificate: der, PrivateKey: w.pki.keys[ch.certs[0]], Leaf: ch.certs[0]}
}

func c13CallAttempt(ctx context.Context, rd *remoteDelivery, conn *mxConn, record *net.MX) (err error, panicked bool) {
	defer func() {
		if r := recover(); r != nil {
			panicked = true
		}
	}()
	err = rd.attemptMX(ctx, conn, record)
	return
}

func c13CallLookupMX(ctx context.Context, rd *remoteDelivery, domain string) (dnssecOk bool, records []*net.MX, err error, panicked bool) {
	defer func() {
		if r := recover(); r != nil {
			panicked = true
		}
	}()
	dnssecOk, records, err = rd.lookupMX(ctx, domain)
	return
}

func c13TLSLevel(l module.TLSLevel) string {
	switch l {
	case module.TLSNone:
		return "none"
	case module.TLSEncrypted:
		return "enc"
	case module.TLSAuthenticated:
		return "auth"
	}
	return fmt.Sprintf("level%d", int(l))
}

// c13Sink: where a case writes (vh.Out, or a buffer flushed in case order when cases run on
// several workers)
type c13Sink interface {
	Corr(op, observed string)
	Violation(sig, op, detail string)
	Stat(key string)
}

type c13Buf struct{ items [][4]string }

func (b *c13Buf) Corr(op, observed string) { b.items = append(b.items, [4]string{"C", op, observed}) }
func (b *c13Buf) Violation(sig, op, detail string) {
	b.items = append(b.items, [4]string{"V", sig, op, detail})
}
func (b *c13Buf) Stat(key string) { b.items = append(b.items, [4]string{"S", key}) }
func (b *c13Buf) flush(out *vh.Out) {
	for _, it := range b.items {
		switch it[0] {
		case "C":
			out.Corr(it[1], it[2])
		case "V":
			out.Violation(it[1], it[2], it[3])
		case "S":
			out.Stat(it[1])
		}
	}
}

// one worker's servers
type c13AttEnv struct {
	dns *c13DNS
	srv *c13SMTP
}

func (w *c13World) attemptCase(out c13Sink, env *c13AttEnv, a c13Att) {
	ch := w.chains[a.ck]
	host := c13HostSpellings[a.host]
	srv := env.srv
	sc := w.script(a.zone, ch)
	domain := "verif.test"
	switch a.src {
	case 'i':
		// the recipient domain IS the host: it exists, it has no MX RRset
		domain = host
		sc[c13QKey(dns.FQDN(host), miekgdns.TypeMX)] = c13Answer{ad: true}
	case 'x':
		sc[c13QKey("verif.test.", miekgdns.TypeMX)] = c13Answer{ad: true, rrs: []miekgdns.RR{&miekgdns.MX{
			Hdr:        miekgdns.RR_Header{Name: "verif.test.", Rrtype: miekgdns.TypeMX, Class: miekgdns.ClassINET, Ttl: 9999},
			Preference: 10, Mx: dns.FQDN(host)}}}
	}
	env.dns.set(sc)
	ock, ocn, trTok, tmTok, _ := w.oracleFor(env.dns, ch, dns.FQDN(host))

	pool := x509.NewCertPool()
	switch a.pool {
	case 't':
		pool = w.pki.publicPool()
	case 's':
		// no RootCAs in the configuration — what maddy runs with: crypto/tls and crypto/x509 use the SYSTEM
		// trust store (here: the two roots of the harness, c13InstallSystemRoots)
		pool = nil
	}
	var base *tls.Config
	baseTok := "-"
	switch a.base {
	case 'd':
		base, baseTok = &tls.Config{RootCAs: pool}, "-:0"
	case 'o':
		base, baseTok = &tls.Config{RootCAs: pool, ServerName: c13OtherName}, "1:0"
	}
	var atts []string
	for i := 0; i < 3; i++ {
		atts = append(atts, map[byte]string{'T': "111T", 'N': "101T", 'R': "110T", 'H': "111H", 'D': "000T"}[a.modes[i]])
	}
	// the X.509 tables for the three reference identifiers and crypto/tls' own verdict for the two
	// names a configuration can carry
	chainN := fmt.Sprintf("%s:%s:%s:%s%s", ch.token(), ch.vBitsNone, ch.vBitsOther, c13b(c13PKIX(ch, pool, host)), c13b(c13PKIX(ch, pool, c13OtherName)))
	cr, cerr := c13ParseCrash(a.crash)
	if cerr != nil {
		panic(cerr)
	}

	srv.arm(a.modes, w.tlsCert(ch))
	addr := srv.ln.Addr().String()
	tgt := &Target{
		name:     "remote",
		hostname: "client.verif.test",
		dialer: func(ctx context.Context, network, _ string) (net.Conn, error) {
			return (&net.Dialer{}).DialContext(ctx, "tcp4", addr)
		},
		tlsConfig: base,
		Log:       c13QuietLog,
	}
	ctx, cancel := context.WithTimeout(context.Background(), 2*time.Minute)
	defer cancel()
	spy := &c13Spy{}
	pol := &danePolicy{log: cr.logger("c13", true)}
	if a.hr {
		pol.extResolver = cr.resolver(env.dns.ext)
	}
	dd := c13Deliv(pol)
	if a.crash != "" {
		// the discovery goroutine is gone by the time the policies are asked; when it crashed nobody
		// will deliver a result and a wait for one in CheckConn ends with the delivery's context
		spy.before = func() {
			if a.hr && c13SettleLookup() && cr.didFire() {
				cancel()
			}
		}
	}
	rd := &remoteDelivery{
		rt:       tgt,
		Log:      c13QuietLog,
		policies: []module.DeliveryMXAuthPolicy{spy, dd},
	}
	record := &net.MX{Host: host, Pref: 10}
	if a.src != 0 {
		// the candidate as the remote target itself derives it
		tgt.extResolver = env.dns.ext
		_, recs, lerr, lpanic := c13CallLookupMX(ctx, rd, domain)
		if lerr != nil || lpanic || len(recs) != 1 || !strings.EqualFold(dns.FQDN(recs[0].Host), dns.FQDN(host)) {
			panic(fmt.Sprintf("c13: lookupMX(%q) through the scripted server: %v records, err=%v panic=%v", domain, recs, lerr, lpanic))
		}
		record = recs[0]
		out.Stat("attempt/mx-source:" + string(a.src) + " record.Host dotted:" + c13b(strings.HasSuffix(record.Host, ".")))
	}
	conn := &mxConn{C: smtpconn.New(), domain: domain, reuseLimit: 1, lastUseAt: time.Now()}
	conn.Dialer = tgt.dialer
	conn.Log = c13QuietLog
	conn.Hostname = tgt.hostname
	conn.AddrInSMTPMsg = true

	err, panicked := c13CallAttempt(ctx, rd, conn, record)
	lvl := conn.tlsLevel
	fired := cr.didFire() && a.hr
	op := fmt.Sprintf("C13 attempt z=%s %s %s %s %s %s %s %s %s", a.code(), baseTok, strings.Join(atts, " "), c13b(a.hr), ock, ocn, trTok, tmTok, chainN)
	if a.crash != "" {
		op += " c" + c13b(fired)
		out.Stat("attempt/injection:" + a.crash + " fired:" + c13b(fired))
	}
	if conn.C != nil && conn.Client() != nil {
		if panicked {
			_ = conn.DirectClose() // no QUIT on a connection in an unknown state
		} else {
			_ = conn.Close()
		}
	}
	evs := srv.events()

	// ---- observation
	st := "-"
	if spy.called {
		name := "O"
		switch {
		case spy.st.ServerName == "":
			name = "E"
		case strings.EqualFold(spy.st.ServerName, strings.TrimSuffix(host, ".")):
			name = "H"
		}
		// last field: does the state carry VerifiedChains (the handshake passed crypto/tls' own verification)
		st = fmt.Sprintf("%s:%s:%s:%s", c13b(spy.st.HandshakeComplete), name, c13TLSLevel(spy.lvl), c13b(len(spy.st.VerifiedChains) != 0))
	}
	var obs string
	switch {
	case panicked:
		obs = "panic"
	case err == nil:
		obs = "ok " + c13TLSLevel(lvl)
	case !spy.called:
		obs = "connErr"
	default:
		obs = "refused " + c13ErrKind(err)
	}
	out.Corr(op, obs+" st="+st)

	// ---- monitor: the property on the real execution. Ground truth: the zone (which RRset governs
	// the MX), the records and the chain (by construction: what matches, to which anchors the leaf
	// validly chains FOR THE MX HOST NAME), and what the SERVER saw of the connection that was left
	// (did a handshake complete on it).
	detail := fmt.Sprintf("err=%v level=%s state=%s server-side=%s", err, c13TLSLevel(lvl), st, c13ConnsString(evs))
	if panicked {
		out.Violation("C13/panic", op, "attemptMX panicked")
		return
	}
	hs := len(evs) > 0 && evs[len(evs)-1].hsOK
	if spy.called {
		same := len(spy.st.PeerCertificates) == len(ch.certs)
		for i := 0; same && i < len(ch.certs); i++ {
			same = bytes.Equal(spy.st.PeerCertificates[i].Raw, ch.certs[i].Raw)
		}
		if spy.st.HandshakeComplete != hs || (hs && !same) || (!hs && len(spy.st.PeerCertificates) != 0) {
			out.Violation("C13/conn-state-not-of-the-connection", op, detail)
		}
	}
	zt := c13ZoneTruthOf(a.zone)
	lookupFailed := zt.addrFails || zt.lookupFails
	var recs []c13Rec
	if !lookupFailed && zt.hostSecure {
		switch {
		case zt.secureR:
			recs = a.zone.recsR
		case a.zone.m == "s":
			recs = a.zone.recsM
		}
	}
	tr := w.truth(recs, ch)
	// X.509 alone authenticates: the client trusts the root, the chain is complete and valid for
	// the MX host name, and the one handshake that was made completed
	pkix := a.base != 'n' && (a.pool == 't' || a.pool == 's') && ch.pkix && len(evs) == 1 && hs
	switch {
	case !spy.called:
		// connect() gave the MX up: nothing was decided
	case zt.incoherent:
	case !a.hr:
		if err != nil || (lvl == module.TLSAuthenticated && !pkix) {
			out.Violation("C13/conn-no-resolver-not-neutral", op, detail)
		}
	case lookupFailed || fired:
		// fails closed: a discovery that failed — or crashed — is a temporary refusal of the MX,
		// whatever the TLS state of the connection
		if err == nil || !exterrors.IsTemporary(err) {
			out.Violation("C13/lookup-error-not-temporary-refusal", op, detail)
		}
	default:
		detail += fmt.Sprintf("; truth: records=%d usable=%v ee-match=%v ta-match=%v handshake=%v pkix=%v", tr.nrecs, tr.anyUsable, tr.eeMatch, tr.taMatch, hs, pkix)
		if err == nil && lvl == module.TLSAuthenticated && !(hs && tr.matched()) && !pkix {
			out.Violation("C13/authenticated-without-match", op, detail)
		}
		if tr.nrecs > 0 && !hs && err == nil {
			out.Violation("C13/no-tls-not-refused", op, detail)
		}
		if hs && tr.anyUsable && !tr.matched() && err == nil {
			out.Violation("C13/mismatch-not-refused", op, detail)
		}
		if !tr.anyUsable && hs && err != nil {
			out.Violation("C13/unusable-only-not-neutral", op, detail)
		}
		if hs && tr.matched() && err == nil && lvl != module.TLSAuthenticated {
			out.Violation("C13/authenticated-records-ignored", op, detail)
		}
		if err == nil && lvl != module.TLSNone && !hs {
			out.Violation("C13/conn-level-raised-with-error", op, detail)
		}
	}
	out.Stat("attempt/outcome:" + obs)
	out.Stat("attempt/state:" + st)
	out.Stat("attempt/chain:" + a.ck)
	out.Stat("attempt/modes:" + a.modes)
	out.Stat(fmt.Sprintf("attempt/pool:%c base:%c host:%d resolver:%s", a.pool, a.base, a.host, c13b(a.hr)))
	out.Stat(fmt.Sprintf("attempt/connections:%d", len(evs)))
	out.Stat("attempt/server-side:" + c13ConnsString(evs))
	out.Stat("attempt/path:" + tr.path(hs))
}

// what the server saw, connection by connection: mode, then h (handshake completed) / x (handshake
// started, not completed) / p (plaintext only), then the SNI class (H the MX host, E none, O other)
func c13ConnsString(evs []c13SMTPConn) string {
	var p []string
	for _, e := range evs {
		s := string(e.mode)
		switch {
		case e.hsOK:
			s += "h"
		case e.hsTried:
			s += "x"
		default:
			s += "p"
		}
		if e.hsTried && e.mode != 'H' {
			switch {
			case e.sni == "":
				s += "E"
			case strings.EqualFold(e.sni, c13MX):
				s += "H"
			default:
				s += "O"
			}
		}
		p = append(p, s)
	}
	return c13dash(strings.Join(p, ","))
}

func TestVerifC13Attempt(t *testing.T) {
	out := vh.Open("c13_attempt")
	defer out.Close()
	defer c13SilenceDefaultLog()()
	w := c13NewWorld(t)
	// the cases are independent of each other: they run on a few workers, each with its own DNS and
	// SMTP server, and are written out in case order
	const workers = 4
	var envs []*c13AttEnv
	for i := 0; i < workers; i++ {
		e := &c13AttEnv{dns: c13StartDNS(t), srv: c13StartSMTP(t)}
		defer e.dns.Close()
		defer e.srv.Close()
		envs = append(envs, e)
	}
	var cases []c13Att
	runAll := func() {
		bufs := make([]c13Buf, len(cases))
		var wg sync.WaitGroup
		// the cases with a crashing discovery wait for "no lookup goroutine left": they run one at a
		// time, after the others
		var par, seq []int
		for i, a := range cases {
			if a.crash != "" {
				seq = append(seq, i)
			} else {
				par = append(par, i)
			}
		}
		for k := range envs {
			wg.Add(1)
			go func(k int) {
				defer wg.Done()
				for j := k; j < len(par); j += len(envs) {
					w.attemptCase(&bufs[par[j]], envs[k], cases[par[j]])
				}
			}(k)
		}
		wg.Wait()
		for _, i := range seq {
			w.attemptCase(&bufs[i], envs[0], cases[i])
		}
		for i := range bufs {
			bufs[i].flush(out)
		}
	}

	// self-check of the monitor's X.509 ground truth: with the roots trusted exactly the complete,
	// valid, right-name chains (c13Chain.pkix) pass crypto/tls' verification for the MX host name
	// (every spelling); with no CA trusted none does
	trusted, none := w.pki.publicPool(), x509.NewCertPool()
	for _, ck := range c13ChainKinds {
		if ck == "E" {
			continue
		}
		for _, h := range c13HostSpellings {
			if got, want := c13PKIX(w.chains[ck], trusted, h), w.chains[ck].pkix; got != want {
				t.Fatalf("c13 self-check: chain %s, root trusted, name %q: PKIX says %v, constructed as %v", ck, h, got, want)
			}
			if c13PKIX(w.chains[ck], none, h) {
				t.Fatalf("c13 self-check: chain %s verifies against an empty root pool", ck)
			}
		}
	}

	if rp := vh.Replay(); rp != nil {
		for _, op := range rp {
			if !strings.HasPrefix(op, "C13 attempt ") {
				continue
			}
			toks := strings.Fields(op)
			if len(toks) < 8 {
				t.Fatalf("cannot replay %q", op)
			}
			a, err := c13ParseAtt(strings.TrimPrefix(toks[2], "z="), toks[7] == "1")
			if err != nil || w.chains[a.ck] == nil || a.ck == "E" {
				t.Fatalf("cannot replay %q: %v", op, err)
			}
			cases = append(cases, a)
		}
		runAll()
		return
	}

	rng := vh.NewRng(vh.Seed() + 1305).Fork()
	chains := c13ChainKinds[:len(c13ChainKinds)-1] // every chain a server can present
	rec := func(usage, sel, mt uint8, target byte) c13Rec {
		return c13Rec{usage: usage, sel: sel, mt: mt, target: target, dsel: sel % 2, dmt: mt % 3}
	}
	zoneOf := func(recs ...c13Rec) c13Zone {
		z := c13Zone{a: "s", c: "-", q: "-", r: "X", m: "s", f: 2, recsM: recs}
		if len(recs) == 0 {
			z.m = "X"
		}
		return z
	}
	malformed := rec(3, 1, 1, 'L')
	malformed.def = 't'
	sets := [][]c13Rec{
		nil,
		{rec(2, 0, 1, 'I')},
		{rec(2, 1, 1, 'R')},
		{rec(2, 0, 0, 'R')},
		{rec(3, 1, 1, 'L')},
		{rec(3, 1, 1, 'N')},
		{rec(2, 1, 2, 'N')},
		{rec(1, 1, 1, 'L')},
		{rec(2, 0, 1, 'F')},
		{malformed},
		{rec(3, 0, 1, 'N'), rec(2, 1, 1, 'I')},
		{rec(2, 1, 1, 'L')},                    // 11: a DANE-TA record that matches only the non-CA leaf
		{rec(2, 0, 1, 'L'), rec(3, 1, 1, 'N')}, // 12: the same next to a non-matching DANE-EE record
	}
	run := func(a c13Att) { cases = append(cases, a) }

	// (1) the private-CA world: STARTTLS works, the first handshake fails verification, the second
	// one is made without — every chain x every record set
	for ci, ck := range chains {
		for si, rs := range sets {
			// quick: the full grid on the chains with a wrong-name / right-name leaf under the same
			// anchors, two thirds of it (rotating with the seed) on the others
			if !vh.Thorough() && ck != "W" && ck != "C" && ck != "LIR" && (ci+si+int(vh.Seed()))%3 == 0 {
				continue
			}
			run(c13Att{zone: zoneOf(rs...), ck: ck, modes: "TTT", pool: 'p', base: 'd', hr: true})
		}
	}
	// (2) the client trusts the root: the first handshake completes for the valid right-name chains,
	// fails verification for the others (expired, wrong name, incomplete)
	for _, ck := range chains {
		for _, i := range []int{0, 1, 4, 5, 7} {
			if !vh.Thorough() && (i == 4 || i == 7) && ck != "W" && ck != "LIR" {
				continue
			}
			run(c13Att{zone: zoneOf(sets[i]...), ck: ck, modes: "TTT", pool: 't', base: 'd', hr: true})
		}
	}
	// (2b) X.509 alone has authenticated the server (first handshake verified) and the RRset does not
	// match: DANE still refuses
	for _, ck := range []string{"LI", "LIR"} {
		for _, i := range []int{6, 8, 9} {
			run(c13Att{zone: zoneOf(sets[i]...), ck: ck, modes: "TTT", pool: 't', base: 'd', hr: true})
		}
	}
	// (2c) ordinary verification passes (the client trusts both roots: the state CheckConn is handed
	// carries VerifiedChains) and the presented chain ALSO contains a stray CA certificate the leaf does
	// not chain to. The RRset pins our intermediate (1), our root (2, 3), the foreign root (8), or holds
	// a non-matching DANE-EE record next to the pin of our intermediate (10): a pin on the stray
	// certificate matches a presented CA certificate and must not authenticate — the MX is refused;
	// a pin on the CA that issued the leaf authenticates. The same with no CA trusted (second
	// handshake, InsecureSkipVerify, no VerifiedChains) is block (1).
	for _, ck := range []string{"G", "J", "M"} {
		for _, i := range []int{1, 2, 3, 8, 10} {
			run(c13Att{zone: zoneOf(sets[i]...), ck: ck, modes: "TTT", pool: 't', base: 'd', hr: true})
		}
		run(c13Att{zone: zoneOf(sets[8]...), ck: ck, modes: "HTT", pool: 't', base: 'd', hr: true})
		run(c13Att{zone: zoneOf(sets[1]...), ck: ck, modes: "TTT", pool: 't', base: 'o', host: 2, hr: true})
	}
	for _, i := range []int{8, 2} {
		run(c13Att{zone: zoneOf(sets[i]...), ck: "LIR", modes: "TTT", pool: 't', base: 'd', hr: true})
	}
	// (2f) a good leaf on a path that is not valid (c13BadPathKinds: expired / not yet valid / non-CA /
	// wrong-purpose intermediate, expired root certificate): pins of the intermediate (1, 10) and of the
	// root (2, 3) of the presented chain, and one more DANE-TA form for each; the client trusts no CA / the
	// roots / the system store (block (1) has the full record-set grid with no CA trusted); first handshake
	// broken; another spelling of the host name
	for ci, ck := range c13HardKinds {
		for _, pool := range []byte{'t', 's'} {
			for _, i := range []int{1, 2, 3, 10} {
				run(c13Att{zone: zoneOf(sets[i]...), ck: ck, modes: "TTT", pool: pool, base: 'd', hr: true})
			}
		}
		run(c13Att{zone: zoneOf(rec(2, 1, 2, 'R')), ck: ck, modes: "TTT", pool: 'p', base: 'd', hr: true})
		run(c13Att{zone: zoneOf(rec(2, 1, 0, 'I')), ck: ck, modes: "TTT", pool: 'p', base: 'd', hr: true})
		run(c13Att{zone: zoneOf(sets[2]...), ck: ck, modes: "HTT", pool: 't', base: 'd', hr: true})
		run(c13Att{zone: zoneOf(sets[2]...), ck: ck, modes: "TTT", pool: 'p', base: 'd', host: 1 + (ci+int(vh.Seed()))%(len(c13HostSpellings)-1), hr: true})
	}
	// (2e) the server's chain is valid for the MX name under the SYSTEM trust store (the client has no
	// RootCAs of its own: first handshake verified by crypto/tls against the system pool), and the RRset
	// holds usable DANE-TA records none of which matches a CA certificate of the chain: a stale pin (6),
	// the pin of a CA that is not presented (8; for G/J the foreign root IS presented: the stray-anchor
	// case again), a pin matching only the leaf (11, 12). No trust anchor is asserted — the MX is
	// refused, however publicly trusted the chain. Pins of the issuing CA (1) authenticate. Also on the
	// InsecureSkipVerify retry (first handshake broken) and with an expired / wrong-name leaf.
	for _, ck := range []string{"LI", "LIR", "G", "J", "M"} {
		for _, i := range []int{6, 8, 11, 12, 1} {
			if !vh.Thorough() && i == 12 && ck != "LIR" && ck != "M" {
				continue
			}
			run(c13Att{zone: zoneOf(sets[i]...), ck: ck, modes: "TTT", pool: 's', base: 'd', hr: true})
		}
		run(c13Att{zone: zoneOf(sets[11]...), ck: ck, modes: "HTT", pool: 's', base: 'd', host: 1, hr: true})
	}
	for _, ck := range []string{"X", "W", "L"} {
		for _, i := range []int{6, 11} {
			run(c13Att{zone: zoneOf(sets[i]...), ck: ck, modes: "TTT", pool: 's', base: 'd', hr: true})
		}
	}
	// (2d) the TLSA discovery crashes (resolver without servers; panicking log output where discovery
	// reports its decision): nothing is known about the RRset — the MX is refused (temporarily),
	// whether the connection is in plaintext, encrypted, or authenticated by X.509
	for ci, ck := range []string{"LIR", "W", "G"} {
		for mi, modes := range []string{"TTT", "NNN", "HTT"} {
			for xi, crash := range []string{"E", "L"} {
				k := ci + mi + xi
				run(c13Att{zone: zoneOf(sets[[]int{1, 4, 0, 5}[k%4]]...), ck: ck, modes: modes, pool: "pt"[k%2], base: 'd', hr: true, crash: crash})
			}
		}
	}
	// (3) other handshake histories
	for _, modes := range []string{"NNN", "RRR", "HTT", "THT", "TNT", "TRT", "TDT", "DTT", "HHH", "HNT", "TTN"} {
		for _, ck := range []string{"LIR", "W", "L"} {
			for _, i := range []int{0, 1, 5} {
				if !vh.Thorough() && ck == "L" && i != 1 {
					continue
				}
				run(c13Att{zone: zoneOf(sets[i]...), ck: ck, modes: modes, pool: 'p', base: 'd', hr: true})
			}
		}
	}
	// (4) the base configuration, the spelling of the MX host name, no resolver, other zones
	for _, ck := range []string{"LIR", "W", "C", "LI"} {
		for _, i := range []int{0, 1, 4} {
			for _, pool := range []byte{'p', 't'} {
				run(c13Att{zone: zoneOf(sets[i]...), ck: ck, modes: "TTT", pool: pool, base: 'o', hr: true})
			}
			run(c13Att{zone: zoneOf(sets[i]...), ck: ck, modes: "TTT", pool: 'p', base: 'n', hr: true})
			for h := 1; h < len(c13HostSpellings); h++ {
				run(c13Att{zone: zoneOf(sets[i]...), ck: ck, modes: "TTT", pool: []byte{'p', 't'}[h%2], base: 'd', host: h, hr: true})
			}
			run(c13Att{zone: zoneOf(sets[i]...), ck: ck, modes: "TTT", pool: 't', base: 'd', hr: false})
		}
		// (4b) every spelling of the MX host name (c13HostSpellings: MX record target / implicit MX, with and
		// without the trailing dot, other case) x a server without STARTTLS / with a handshake, RRset not
		// matching (5, 6), matching (4, 1): the published RRset is enforced whatever the spelling
		if ck == "LIR" || ck == "W" {
			for h := 1; h < len(c13HostSpellings); h++ {
				for k, i := range []int{5, 4, 6, 1} {
					if !vh.Thorough() && k >= 2 && (h+k+int(vh.Seed()))%2 == 0 {
						continue
					}
					// the candidate comes from the real lookupMX: implicit MX for the spellings without a dot,
					// an MX record's target for those with one
					src := byte('i')
					if strings.HasSuffix(c13HostSpellings[h], ".") {
						src = 'x'
					}
					run(c13Att{zone: zoneOf(sets[i]...), ck: ck, modes: "NNN", pool: 'p', base: 'd', host: h, src: src, hr: true})
					run(c13Att{zone: zoneOf(sets[i]...), ck: ck, modes: "TTT", pool: "pt"[(h+k)%2], base: 'd', host: h, src: src, hr: true})
				}
			}
		}
		for _, z := range []c13Zone{
			{a: "s", c: "-", q: "-", r: "X", m: "F", f: 2},
			{a: "s", c: "-", q: "-", r: "X", m: "e", f: 2},
			{a: "i", c: "-", q: "-", r: "X", m: "s", f: 2, recsM: sets[5]},
			{a: "s", c: "-", q: "-", r: "X", m: "i", f: 2, recsM: sets[5]},
			{a: "N", c: "-", q: "-", r: "X", m: "s", f: 2, recsM: sets[1]},
			{a: "-", c: "ss", q: "-", r: "s", m: "s", f: 2, recsR: sets[1], recsM: sets[5]},
		} {
			run(c13Att{zone: z, ck: ck, modes: "TTT", pool: 'p', base: 'd', hr: true})
		}
	}
	// (4c) one AD bit per answer: dual-stack / single-family hosts whose consulted address RRset is signed
	// (the other answer without AD, failing, empty) — the pinned RRset is enforced on a server without
	// STARTTLS, with a non-matching and with a matching certificate; hosts whose consulted RRset is
	// insecure — the RRset is not used
	for li, a := range c13DualLetters {
		as := c13AddrStates[string(a)]
		h := (li + int(vh.Seed())) % len(c13HostSpellings)
		zl := func(i int) c13Zone {
			z := zoneOf(sets[i]...)
			z.a = string(a)
			return z
		}
		if as.fails() || !as.consultedAD() {
			run(c13Att{zone: zl(5), ck: "LIR", modes: "NNN", pool: 'p', base: 'd', hr: true})
			run(c13Att{zone: zl(5), ck: "LIR", modes: "TTT", pool: "pt"[li%2], base: 'd', host: h, hr: true})
			run(c13Att{zone: zl(4), ck: "LIR", modes: "TTT", pool: 'p', base: 'd', hr: true})
			continue
		}
		run(c13Att{zone: zl(5), ck: "LIR", modes: "NNN", pool: 'p', base: 'd', host: h, hr: true})
		run(c13Att{zone: zl(1), ck: "LI", modes: "NNN", pool: 's', base: 'd', hr: true})
		run(c13Att{zone: zl(5), ck: "LIR", modes: "TTT", pool: "pt"[li%2], base: 'd', hr: true})
		run(c13Att{zone: zl(4), ck: "LIR", modes: "TTT", pool: 'p', base: 'd', host: h, hr: true})
		run(c13Att{zone: zl(1), ck: "W", modes: "TTT", pool: 'p', base: 'd', hr: true})
		run(c13Att{zone: zl(1), ck: "LIR", modes: "TTT", pool: 'p', base: 'd', hr: true})
		run(c13Att{zone: zl(6), ck: "LI", modes: "TTT", pool: 's', base: 'd', hr: true})
		za := c13Zone{a: "-", c: "s" + string(a), q: "-", r: "s", m: "X", f: 2, recsR: sets[5]}
		run(c13Att{zone: za, ck: "LIR", modes: "HTT", pool: 'p', base: 'd', hr: true})
	}
	// (5) sampled
	all := append(c13AllZones(), c13DualZones()...)
	good := c13GoodZones(all)
	modeSets := []string{"TTT", "TTT", "TTT", "TTT", "NNN", "HTT", "THT", "TNT", "TRT", "TDT", "TTH", "NTT", "RTT", "DTT", "TTD"}
	n := vh.N(4000) / 60
	for i := 0; i < n; i++ {
		var z c13Zone
		switch {
		case rng.Chance(55):
			z = zoneOf()
			k := 1 + rng.Intn(3)
			for j := 0; j < k; j++ {
				r := rec(uint8(2+rng.Intn(2)), uint8(rng.Intn(2)), uint8(rng.Intn(3)), c13Targets[rng.Intn(len(c13Targets))])
				if rng.Chance(12) {
					r = c13RandRec(rng)
					r.owner = 0
				}
				z.recsM = append(z.recsM, r)
			}
			z.m = "s"
		case rng.Chance(70):
			z = good[rng.Intn(len(good))]
			w.fillZoneRecs(rng, &z)
		default:
			z = all[rng.Intn(len(all))]
			w.fillZoneRecs(rng, &z)
		}
		a := c13Att{zone: z, ck: chains[rng.Intn(len(chains))], modes: modeSets[rng.Intn(len(modeSets))], pool: 'p', base: 'd', hr: !rng.Chance(5)}
		if rng.Chance(50) {
			a.ck = []string{"W", "C", "LIR", "X"}[rng.Intn(4)]
		}
		if rng.Chance(35) {
			a.pool = "ts"[rng.Intn(2)]
		}
		if rng.Chance(12) {
			a.base = "on"[rng.Intn(2)]
		}
		if rng.Chance(30) {
			a.host = rng.Intn(len(c13HostSpellings))
			if rng.Chance(50) {
				a.src = 'i'
				if strings.HasSuffix(c13HostSpellings[a.host], ".") {
					a.src = 'x'
				}
			}
		}
		run(a)
	}
	runAll()
}
