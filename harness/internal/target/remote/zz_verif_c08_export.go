package remote

// Overlay-only export for the C08 harness (never part of the repository tree): the REAL remote
// target on top of a mock resolver, MX port redirected to the scripted next hop.

import (
	"crypto/tls"

	"github.com/foxcpp/go-mockdns"
	"github.com/foxcpp/maddy/framework/log"
	"github.com/foxcpp/maddy/internal/limits"
	"github.com/foxcpp/maddy/internal/smtpconn/pool"
)

func C08NewTarget(zones map[string]mockdns.Zone, port string) *Target {
	smtpPort = port
	resolver := &mockdns.Resolver{Zones: zones}
	return &Target{
		name:           "remote",
		hostname:       "mx.example.com",
		resolver:       resolver,
		dialer:         resolver.DialContext,
		tlsConfig:      &tls.Config{},
		Log:            log.Logger{Out: log.NopOutput{}},
		limits:         &limits.Group{},
		connReuseLimit: 10,
		pool: pool.New(pool.Config{
			MaxKeys:             5000,
			MaxConnsPerKey:      5,
			MaxConnLifetimeSec:  150,
			StaleKeyLifetimeSec: 60 * 5,
		}),
	}
}
