package remote

import (
	"bytes"
	"context"
	"errors"
	"fmt"
	"io"
	"net"
	"sort"
	"strconv"
	"strings"
	"sync"
	"testing"

	"github.com/emersion/go-message/textproto"
	"github.com/emersion/go-smtp"
	"github.com/foxcpp/go-mockdns"
	"github.com/foxcpp/maddy/framework/address"
	"github.com/foxcpp/maddy/framework/buffer"
	"github.com/foxcpp/maddy/framework/log"
	"github.com/foxcpp/maddy/framework/module"
	"github.com/foxcpp/maddy/internal/verifshim/vc09"
	"github.com/foxcpp/maddy/internal/verifshim/vh"
	"github.com/foxcpp/maddy/internal/verifshim/vsmtp"
	"golang.org/x/net/idna"
)

// recipient forms (the number in the local part is the MAILBOX number; several recipients of one
// transaction may be different spellings of one mailbox):
//   a = ASCII                      u1@d0.example
//   u = upper-case ASCII           U1@D0.EXAMPLE           (same mailbox as a)
//   U = upper-case local part only U1@d0.example           (same mailbox, same connection as a)
//   i = IDN domain, U-labels       u1@пример0.example      (convertible)
//   I = same, upper-case local     U1@пример0.example
//   x = the same domain, A-labels  u1@xn--0-itbmn9a5a.example  (same mailbox as i)
//   X = upper-case A-label form    U1@XN--0-ITBMN9A5A.EXAMPLE
//   l = non-ASCII local part       ю1@d0.example           (not convertible)
//   c / d = composed / decomposed  é1@d0.example           (NFC / NFD spelling of one mailbox)
//   C = upper-case composed        É1@d0.example
//   t = absolute domain (root dot) u1@d0.example.          (address.Split / CleanDomain keep the dot;
//   T = upper-case absolute        U1@D0.EXAMPLE.           a connection key of its own)
//   j = absolute U-label domain    u1@пример0.example.     (convertible)
//   y = absolute A-label domain    u1@xn--0-itbmn9a5a.example.
//   L = non-ASCII local part, U-label domain  ю1@пример0.example (not convertible; same connection as i)
//   z = non-ASCII local part, A-label domain  ю1@xn--0-itbmn9a5a.example (not convertible; same connection as x)
func c09IDN(dom int) string { return fmt.Sprintf("пример%d.example", dom) }

func c09Addr(mbox, dom int, form byte) string {
	switch form {
	case 'i':
		return fmt.Sprintf("u%d@%s", mbox, c09IDN(dom))
	case 'I':
		return fmt.Sprintf("U%d@%s", mbox, c09IDN(dom))
	case 'x':
		a, _ := idna.ToASCII(c09IDN(dom))
		return fmt.Sprintf("u%d@%s", mbox, a)
	case 'X':
		a, _ := idna.ToASCII(c09IDN(dom))
		return fmt.Sprintf("U%d@%s", mbox, strings.ToUpper(a))
	case 'l':
		return fmt.Sprintf("ю%d@d%d.example", mbox, dom)
	case 'L':
		return fmt.Sprintf("ю%d@%s", mbox, c09IDN(dom))
	case 'z':
		a, _ := idna.ToASCII(c09IDN(dom))
		return fmt.Sprintf("ю%d@%s", mbox, a)
	case 'c':
		return fmt.Sprintf("\u00e9%d@d%d.example", mbox, dom)
	case 'd':
		return fmt.Sprintf("e\u0301%d@d%d.example", mbox, dom)
	case 'C':
		return fmt.Sprintf("\u00c9%d@d%d.example", mbox, dom)
	case 't':
		return fmt.Sprintf("u%d@d%d.example.", mbox, dom)
	case 'T':
		return fmt.Sprintf("U%d@D%d.EXAMPLE.", mbox, dom)
	case 'j':
		return fmt.Sprintf("u%d@%s.", mbox, c09IDN(dom))
	case 'y':
		a, _ := idna.ToASCII(c09IDN(dom))
		return fmt.Sprintf("u%d@%s.", mbox, a)
	case 'u':
		return fmt.Sprintf("U%d@D%d.EXAMPLE", mbox, dom)
	case 'U':
		return fmt.Sprintf("U%d@d%d.example", mbox, dom)
	default:
		return fmt.Sprintf("u%d@d%d.example", mbox, dom)
	}
}

type c09Rcpt struct {
	id, dom int
	form    byte
	act     byte // vc09 action: 1 accept, 0 refuse 550, t refuse 451, 4/c/r/s connection fault under this RCPT
	mbox    int
}

type c09Tx struct {
	rcpts []c09Rcpt
	df    string // "0" no DATA failure, "1" everywhere, "d<digits>" for the listed domain numbers
	// the message body: "-" a buffer that works; "o<k>" Open works k times, then fails (the spool file
	// vanished, EMFILE, ...); "m<k>" the reader handed out by the k-th Open (0-based) fails mid-way;
	// "q" the message is quarantined after the recipients were added (BodyNonAtomic refuses it)
	buf string
	src string // "<rcpts>:<df>" as in the op
}

// c09Buffer is the message buffer of one transaction. BodyNonAtomic opens it once per connection,
// from one goroutine per connection: WHICH connection meets the failing Open / gets the failing reader
// is up to the scheduler. The harness observes it (the sentinel errors come back in the statuses) and
// passes it to the model as the oracle field of the op.
type c09Buffer struct {
	mu         sync.Mutex
	okOpens    int // -1: Open always works
	badReader  int // index of the Open whose reader fails mid-way, -1: none
	opens      int
	failedOpen int
	readErrs   int
}

var (
	errC09Open = errors.New("verif spool: cannot open the message body")
	errC09Read = errors.New("verif spool: read error in the message body")
)

// (8-bit content: what the next hop's 8BITMIME announcement - or its absence - is about)
var c09Body = []byte("first line\r\nsec\xc3\xb3nd line\r\n")

type c09BadReader struct {
	b    *c09Buffer
	sent bool
}

func (r *c09BadReader) Read(p []byte) (int, error) {
	if !r.sent {
		r.sent = true
		return copy(p, c09Body[:12]), nil
	}
	r.b.mu.Lock()
	r.b.readErrs++
	r.b.mu.Unlock()
	return 0, errC09Read
}
func (r *c09BadReader) Close() error { return nil }

func (b *c09Buffer) Open() (io.ReadCloser, error) {
	b.mu.Lock()
	defer b.mu.Unlock()
	i := b.opens
	b.opens++
	if b.okOpens >= 0 && i >= b.okOpens {
		b.failedOpen++
		return nil, errC09Open
	}
	if i == b.badReader {
		return &c09BadReader{b: b}, nil
	}
	return io.NopCloser(bytes.NewReader(c09Body)), nil
}
func (b *c09Buffer) Len() int      { return len(c09Body) }
func (b *c09Buffer) Remove() error { return nil }

func c09IsBodyErr(err error) bool {
	return err != nil && (errors.Is(err, errC09Open) || errors.Is(err, errC09Read) || strings.Contains(err.Error(), "verif spool:"))
}

// c09ConnKey is the key of remoteDelivery.connections as the model numbers it: the domain AS SPELLED
// (domain number * 16 + spelling class of the form).
func c09ConnKey(dom int, form byte) int {
	cls := 0
	switch form {
	case 'u':
		cls = 1
	case 'i', 'I', 'L':
		cls = 2
	case 'x', 'z':
		cls = 3
	case 'X':
		cls = 4
	case 't':
		cls = 5
	case 'T':
		cls = 6
	case 'j':
		cls = 7
	case 'y':
		cls = 8
	}
	return dom*16 + cls
}

func (tx c09Tx) dataFails(dom int) bool {
	switch {
	case tx.df == "1":
		return true
	case strings.HasPrefix(tx.df, "d"):
		return strings.Contains(tx.df[1:], strconv.Itoa(dom))
	}
	return false
}

type c09Collector struct {
	mu sync.Mutex
	st []string
}

// op: C09 remote <utf8> <tx>;<tx>
// utf8 = <srv>[n]: srv 0 = the next hop does not offer SMTPUTF8, 1 = it does, 2 = it does and enforces
// RFC 6531 section 3.4 (a non-ASCII address in RCPT TO is answered 553 unless MAIL FROM carried the SMTPUTF8
// parameter); "n" = the MESSAGE does not carry the SMTPUTF8 flag (MsgMetadata.SMTPOpts.UTF8 false: received
// without the extension, non-ASCII recipients come from alias rewriting), absent = it does.
// tx = <id>.<dom>.<form>.<act>[.<mbox>],...:<df>[:<buf>[:<oracle>]]
// (buf: see c09Tx; oracle = the connection keys hit by the failing Open / reader as OBSERVED in the run,
// "+"-separated, "-" = none: written by the harness into the op it reports, ignored on input)
// (mbox defaults to id). The same id may occur several times in one transaction: the very same
// address string is added again (exact duplicate), every occurrence with its own RCPT answer.
// The second result says whether the history uses anything the go-smtp based scripted server
// cannot do (positional answers, connection faults, per-domain DATA failure, exact duplicates).
func c09Parse(s string) ([]c09Tx, bool) {
	var out []c09Tx
	raw := false
	for _, ts := range strings.Split(s, ";") {
		parts := strings.Split(ts, ":")
		tx := c09Tx{df: parts[1], buf: "-", src: parts[0] + ":" + parts[1]}
		if tx.df != "0" && tx.df != "1" {
			raw = true
		}
		if len(parts) > 2 && parts[2] != "" && parts[2] != "-" {
			tx.buf = parts[2]
			raw = true
		}
		for _, rs := range strings.Split(parts[0], ",") {
			f := strings.Split(rs, ".")
			id, _ := strconv.Atoi(f[0])
			dom, _ := strconv.Atoi(f[1])
			r := c09Rcpt{id: id, dom: dom, form: f[2][0], act: f[3][0], mbox: id}
			if len(f) > 4 {
				r.mbox, _ = strconv.Atoi(f[4])
				raw = true
			}
			if !strings.ContainsRune("ailu", rune(r.form)) || (r.act != '0' && r.act != '1') {
				raw = true
			}
			for _, q := range tx.rcpts {
				if q.id == r.id {
					raw = true
				}
			}
			tx.rcpts = append(tx.rcpts, r)
		}
		out = append(out, tx)
	}
	return out, raw
}

// c09Wire maps an address as it arrived at the next hop to "<mailbox>@<domain number><i|a>[.]"
// (the final dot: the domain arrived in absolute form).
func c09Wire(a string) string {
	at := strings.LastIndex(a, "@")
	if at < 0 {
		return "?" + vh.HexRunes(a)
	}
	local, dom := a[:at], strings.ToLower(a[at+1:])
	abs := ""
	if strings.HasSuffix(dom, ".") {
		dom, abs = strings.TrimSuffix(dom, "."), "."
	}
	digits := strings.TrimLeftFunc(local, func(r rune) bool { return r < '0' || r > '9' })
	for d := 0; d < 4; d++ {
		ia, _ := idna.ToASCII(c09IDN(d))
		switch dom {
		case fmt.Sprintf("d%d.example", d):
			return fmt.Sprintf("%s@%da%s", digits, d, abs)
		case c09IDN(d), ia:
			return fmt.Sprintf("%s@%di%s", digits, d, abs)
		}
	}
	return "?" + vh.HexRunes(a)
}

func c09Zones() map[string]mockdns.Zone {
	z := map[string]mockdns.Zone{
		"mx.example.invalid.": {A: []string{"127.0.0.1"}},
	}
	for d := 0; d < 4; d++ {
		ia, _ := idna.ToASCII(c09IDN(d))
		for _, name := range []string{fmt.Sprintf("d%d.example", d), fmt.Sprintf("D%d.EXAMPLE", d), c09IDN(d), ia, strings.ToUpper(ia)} {
			mx := []net.MX{{Host: "mx.example.invalid.", Pref: 10}}
			z[name+"."] = mockdns.Zone{MX: mx}
			z[strings.ToLower(name)+"."] = mockdns.Zone{MX: mx}
			if a, err := idna.ToASCII(name); err == nil {
				z[a+"."] = mockdns.Zone{MX: mx}
			}
		}
	}
	return z
}

type statusFunc func(string, error)

func (f statusFunc) SetStatus(rcpt string, err error) { f(rcpt, err) }

// c09Hop is the scripted next hop of one history: either the go-smtp based vsmtp server
// (answers keyed by the canonical form of the address) or the positional raw server of vc09.
type c09Hop struct {
	v   *vsmtp.Server
	r   *vc09.Server
	txs int // number of server-side transactions seen before the current harness transaction
}

func (h *c09Hop) close() {
	if h.v != nil {
		h.v.Close()
	}
	if h.r != nil {
		h.r.Close()
	}
}

// completed returns the recipients (as received) of the server-side transactions that were
// opened since mark() and ended with 250 after the data.
func (h *c09Hop) completed() []string {
	var out []string
	if h.v != nil {
		h.v.Script.Set(func(s *vsmtp.Script) {
			for _, tx := range s.Txs[h.txs:] {
				if tx.Done {
					out = append(out, tx.To...)
				}
			}
		})
	} else {
		h.r.Set(func(s *vc09.Server) {
			for _, tx := range s.Txs[h.txs:] {
				if tx.Done {
					out = append(out, tx.To...)
				}
			}
		})
	}
	return out
}

func (h *c09Hop) mark() {
	if h.v != nil {
		h.v.Script.Set(func(s *vsmtp.Script) { h.txs = len(s.Txs) })
	} else {
		h.r.Set(func(s *vc09.Server) { h.txs = len(s.Txs) })
	}
}

func c09Remote(t *testing.T, out *vh.Out, op string) {
	toks := strings.Fields(op)
	utf8 := toks[2][0] != '0'
	strict := toks[2][0] == '2'
	capTok, sizeTok, _ := strings.Cut(toks[2], "/")
	msgUTF8 := !strings.HasSuffix(capTok, "n")
	txs, raw := c09Parse(toks[3])
	// RFC 1870: what the next hop announces as SIZE on the connections of a recipient domain, relative to the
	// message: s = a limit SMALLER than the message (the next hop enforces it: 552 after the data), e = exactly the
	// message size, b = far bigger, 0 = "SIZE 0" (no fixed limit); domains not listed: extension not offered;
	// 8 = no SIZE and the next hop does NOT announce 8BITMIME either (the message body has 8-bit content; it takes it anyway)
	sizeKind := map[int]byte{}
	for i := 0; i+1 < len(sizeTok); i += 2 {
		sizeKind[int(sizeTok[i]-'0')] = sizeTok[i+1]
	}
	sizeOf := func(dom int) (bool, int) {
		switch sizeKind[dom] {
		case 's':
			return true, len(c09Body) - 15
		case 'e':
			return true, len(c09Body)
		case 'b':
			return true, 10 << 20
		case '0':
			return true, 0
		}
		return false, 0
	}
	if sizeTok != "" {
		raw = true // the go-smtp server announces one SIZE for every connection
		out.Stat("remote.size.history-with-size-announcements")
	}
	if strict {
		raw = true // the go-smtp server never looks at the parameter
	}
	capName := fmt.Sprintf("srv%c.msg-flag-%v", toks[2][0], msgUTF8)
	out.Stat("remote.smtputf8." + capName)

	tgt := testTarget(t, c09Zones(), nil, nil)
	tgt.connReuseLimit = 10 // the configuration default; testTarget leaves 0 (= never reuse)
	tgt.Log = log.Logger{Out: log.NopOutput{}}
	hop := &c09Hop{}
	var err error
	for try := 0; try < 3; try++ {
		smtpPort = vsmtp.FreePort()
		if raw {
			hop.r, err = vc09.Start("127.0.0.1:"+smtpPort, utf8, false)
			if err == nil {
				hop.r.Strict = strict
			}
		} else {
			hop.v, err = vsmtp.Start("127.0.0.1:"+smtpPort, utf8, false)
		}
		if err == nil {
			break
		}
	}
	if err != nil {
		t.Fatal(err)
	}
	defer hop.close()
	if raw {
		st := vc09.NewStaller()
		hop.r.Staller = st
		tgt.dialer = st.Wrap(tgt.dialer)
		out.Stat("remote.backend.raw")
	} else {
		out.Stat("remote.backend.gosmtp")
	}
	defer tgt.Close()
	allAddr := map[string]bool{}

	// violations are reported with the op line that carries the observed oracle fields of ALL
	// transactions, so they are held back until the history is over
	type c09V struct{ sig, detail string }
	var pending []c09V
	violation := func(sig, detail string) { pending = append(pending, c09V{sig, detail}) }
	var opTxs []string

	var obs []string
	for _, tx := range txs {
		tx := tx
		if raw {
			hop.r.Set(func(s *vc09.Server) {
				s.OnData = func(to []string) int {
					if len(to) > 0 {
						w := c09Wire(to[0])
						if d, err := strconv.Atoi(strings.TrimRight(w[strings.Index(w, "@")+1:], "ia.")); err == nil {
							if sizeKind[d] == 's' {
								return 552 // the next hop enforces the limit it announced
							}
							if tx.dataFails(d) {
								return 451
							}
						}
					}
					return 0
				}
			})
		} else {
			hop.v.Script.Set(func(s *vsmtp.Script) {
				s.RejectRcpt = map[string]int{}
				s.DataFail = 0
				if tx.df == "1" {
					s.DataFail = 451
				}
				for _, r := range tx.rcpts {
					if r.act != '1' {
						k, _ := address.ForLookup(c09Addr(r.mbox, r.dom, r.form))
						s.RejectRcpt[k] = 550
					}
				}
			})
		}
		hop.mark()
		ctx := context.Background()
		meta := &module.MsgMetadata{ID: "verif", SMTPOpts: smtp.MailOptions{UTF8: msgUTF8}}
		d, err := tgt.Start(ctx, meta, "sender@example.com")
		if err != nil {
			t.Fatal(err)
		}
		byAddr := map[string]int{}
		addrOf := map[int]string{}
		var adds []string
		accepted := map[int]int{}
		faultSeen := false
		accOnConn := map[int]int{} // accepted so far, per connection key
		for _, r := range tx.rcpts {
			a := c09Addr(r.mbox, r.dom, r.form)
			if prev, dup := byAddr[a]; dup && prev != r.id {
				out.Note("generator produced the same address string under two ids in one transaction: " + op)
			}
			byAddr[a] = r.id
			addrOf[r.id] = a
			if raw {
				hop.r.NextRcpt(r.act)
				hop.r.NextSize(sizeOf(r.dom)) // a connection opened by this AddRcpt is one of domain r.dom
				hop.r.Next8Bit(sizeKind[r.dom] != '8')
			}
			err := d.AddRcpt(ctx, a, smtp.RcptOptions{})
			if !address.IsASCII(a) {
				// the internationalisation dimension: what kind of non-ASCII recipient comes after how many
				// accepted recipients of ITS connection, under which capability / message-flag combination
				kind := "idn-domain-only"
				if _, cerr := address.ToASCII(a); cerr != nil {
					kind = "non-ascii-local-part"
				}
				out.Stat(fmt.Sprintf("remote.smtputf8.%s.%s-after-%d-accepted-on-its-connection.%s", capName, kind, min(accOnConn[c09ConnKey(r.dom, r.form)], 2), map[bool]string{true: "accepted", false: "refused"}[err == nil]))
			}
			if err == nil {
				adds = append(adds, fmt.Sprintf("%d=o", r.id))
				accepted[r.id]++
				accOnConn[c09ConnKey(r.dom, r.form)]++
			} else {
				adds = append(adds, fmt.Sprintf("%d=f", r.id))
			}
			if vc09.IsFault(r.act) {
				faultSeen = true
				out.Stat("remote.fault." + string(r.act))
				if len(accepted) > 0 {
					out.Stat("remote.fault-after-accepted")
				}
			} else if faultSeen {
				out.Stat("remote.rcpt-after-fault")
			}
			if r.mbox != r.id {
				out.Stat("remote.respelled." + string(r.form))
			}
		}
		if raw {
			hop.r.NextRcpt(0)
		}
		occurs := map[int]int{}
		for _, r := range tx.rcpts {
			occurs[r.id]++
		}
		for id, n := range occurs {
			if n > 1 {
				out.Stat(fmt.Sprintf("remote.duplicate.same-address-%d-times", n))
				if accepted[id] > 1 {
					out.Stat("remote.duplicate.accepted-more-than-once")
				}
			}
		}
		if sizeTok != "" && len(accepted) > 0 {
			doms := map[int]bool{}
			small, other := 0, 0
			for _, r := range tx.rcpts {
				if accepted[r.id] > 0 && !doms[r.dom] {
					doms[r.dom] = true
					if sizeKind[r.dom] == 's' {
						small++
					} else {
						other++
					}
				}
			}
			out.Stat(fmt.Sprintf("remote.size.accepted-domains-with-too-small-limit-%d.others-%d", small, min(other, 2)))
			for d := range doms {
				k := sizeKind[d]
				if k == 0 {
					k = '-'
				}
				out.Stat("remote.size.domain-announces." + string(rune(k)))
			}
		}
		col := &c09Collector{}
		keyOf := map[int]int{}
		for _, r := range tx.rcpts {
			keyOf[r.id] = c09ConnKey(r.dom, r.form)
		}
		hitKeys := map[int]bool{} // connections whose recipients got the buffer's error
		bodyErrs := 0
		sc := statusFunc(func(rcpt string, err error) {
			col.mu.Lock()
			defer col.mu.Unlock()
			res := "o"
			if err != nil {
				res = "f"
			}
			if c09IsBodyErr(err) {
				bodyErrs++
				if id, ok := byAddr[rcpt]; ok {
					hitKeys[keyOf[id]] = true
				}
			}
			if id, ok := byAddr[rcpt]; ok {
				col.st = append(col.st, fmt.Sprintf("%d=%s", id, res))
			} else if allAddr[rcpt] {
				col.st = append(col.st, "EARLIER("+vh.HexRunes(rcpt)+")="+res)
			} else {
				col.st = append(col.st, "?"+vh.HexRunes(rcpt)+"="+res)
			}
		})
		hdr := textproto.Header{}
		hdr.Add("Subject", "x")
		var body buffer.Buffer = buffer.MemoryBuffer{Slice: c09Body}
		var cbuf *c09Buffer
		switch {
		case tx.buf == "q":
			meta.Quarantine = true // a check quarantined the message after the recipients were added
			out.Stat("remote.body.quarantined")
		case tx.buf != "-" && len(tx.buf) > 1:
			k, _ := strconv.Atoi(tx.buf[1:])
			cbuf = &c09Buffer{okOpens: -1, badReader: -1}
			if tx.buf[0] == 'o' {
				cbuf.okOpens = k
			} else {
				cbuf.badReader = k
			}
			body = cbuf
		}
		if len(accepted) > 0 {
			d.(module.PartialDelivery).BodyNonAtomic(ctx, sc, hdr, body)
			d.Commit(ctx)
		} else {
			d.Abort(ctx)
		}
		// the op as reported: with the oracle (which connections met the failing Open / reader)
		txOp := tx.src
		if tx.buf != "-" {
			txOp += ":" + tx.buf
			if cbuf != nil {
				var ks []int
				for k := range hitKeys {
					ks = append(ks, k)
				}
				sort.Ints(ks)
				var kss []string
				for _, k := range ks {
					kss = append(kss, strconv.Itoa(k))
				}
				if len(kss) == 0 {
					kss = []string{"-"}
				}
				txOp += ":" + strings.Join(kss, "+")
			}
		}
		opTxs = append(opTxs, txOp)
		if cbuf != nil && len(accepted) > 0 {
			nconn := map[int]bool{}
			for _, r := range tx.rcpts {
				nconn[c09ConnKey(r.dom, r.form)] = true
			}
			withRcpts := map[int]bool{}
			for id := range accepted {
				withRcpts[keyOf[id]] = true
			}
			out.Stat(fmt.Sprintf("remote.body.%s.connections-%d", tx.buf, min(len(nconn), 4)))
			switch {
			case len(hitKeys) == 0:
				out.Stat(fmt.Sprintf("remote.body.%c.failure-for-no-connection-with-recipients", tx.buf[0]))
			case len(hitKeys) < len(withRcpts):
				out.Stat(fmt.Sprintf("remote.body.%c.failure-for-some-connections-only", tx.buf[0]))
			default:
				out.Stat(fmt.Sprintf("remote.body.%c.failure-for-every-connection", tx.buf[0]))
			}
			// monitor: the buffer's error belongs to the connections that met it. Every failed Open() /
			// failing reader serves ONE connection: the error may show up in the results of at most that
			// many connections (whichever they are).
			events := cbuf.failedOpen + cbuf.readErrs
			if len(hitKeys) > events {
				violation("C09/remote-body-error-reported-for-connections-it-did-not-hit", fmt.Sprintf("the buffer failed %d times (Open %d, reader %d), its error was reported for recipients of %d connections; statuses %v", events, cbuf.failedOpen, cbuf.readErrs, len(hitKeys), col.st))
			}
		}
		sort.Strings(col.st)
		// ground truth: what the next hop holds in transactions it answered 250 to
		completed := hop.completed()
		var srvObs []string
		if len(accepted) > 0 {
			for _, w := range completed {
				srvObs = append(srvObs, c09Wire(w))
			}
		}
		sort.Strings(srvObs)
		obs = append(obs, "add:"+strings.Join(adds, ",")+" status:"+strings.Join(col.st, ",")+" srv:"+strings.Join(srvObs, ","))

		// monitor: exactly one result per accepted recipient, under the address given, none else
		got := map[string]int{}
		for _, s := range col.st {
			got[strings.SplitN(s, "=", 2)[0]]++
		}
		for id, n := range accepted {
			if got[strconv.Itoa(id)] != n {
				violation("C09/remote-missing-or-duplicate-status", fmt.Sprintf("recipient %d accepted %d times, %d results; statuses %v", id, n, got[strconv.Itoa(id)], col.st))
			}
		}
		for k, n := range got {
			id, err := strconv.Atoi(k)
			if err != nil && strings.HasPrefix(k, "EARLIER(") {
				violation("C09/remote-status-for-recipient-of-earlier-transaction", fmt.Sprintf("result reported under %s (%d times); statuses %v", k, n, col.st))
			} else if err != nil {
				violation("C09/remote-status-under-foreign-address", fmt.Sprintf("result reported under %s (%d times); statuses %v", k, n, col.st))
			} else if accepted[id] == 0 {
				violation("C09/remote-status-for-unaccepted-recipient", fmt.Sprintf("result for %d which was not accepted in this transaction; statuses %v", id, col.st))
			}
		}
		// monitor: a recipient that is not reported as failed was really handed to the next hop in a
		// transaction that ended with 250 (as given, or in the converted spelling)
		held := map[string]bool{}
		for _, w := range completed {
			held[w] = true
		}
		for _, s := range col.st {
			kv := strings.SplitN(s, "=", 2)
			id, err := strconv.Atoi(kv[0])
			if err != nil || kv[1] != "o" {
				continue
			}
			a := addrOf[id]
			conv, cerr := address.ToASCII(a)
			if !held[a] && !(cerr == nil && held[conv]) {
				violation("C09/remote-success-reported-for-recipient-the-next-hop-does-not-hold", fmt.Sprintf("recipient %d reported as delivered; completed transactions at the next hop hold %d recipients, not this one; statuses %v", id, len(completed), col.st))
			}
		}
		for a := range byAddr {
			allAddr[a] = true
		}
		out.StatN("remote.rcpts", len(tx.rcpts))
		out.StatN("remote.accepted", len(accepted))
	}
	if raw {
		hop.r.Set(func(s *vc09.Server) {
			out.StatN("remote.server_sessions", s.Sessions)
			out.StatN("remote.server_txs", len(s.Txs))
			out.StatN("remote.server_anomalies", len(s.Anomalies))
		})
	} else {
		hop.v.Script.Set(func(s *vsmtp.Script) { out.StatN("remote.server_sessions", s.Sessions); out.StatN("remote.server_txs", len(s.Txs)) })
	}
	op = strings.Join(toks[:3], " ") + " " + strings.Join(opTxs, ";")
	for _, v := range pending {
		out.Violation(v.sig, op, v.detail)
	}
	out.Corr(op, strings.Join(obs, " | "))
	out.Stat(fmt.Sprintf("remote.txs.%d", len(txs)))
}

func c09GenTx(r *vh.Rng, nextID *int) string {
	n := 1 + r.Intn(4)
	var rs []string
	for i := 0; i < n; i++ {
		*nextID++
		form := "aaiilu"[r.Intn(6)]
		acc := 1
		if r.Chance(20) {
			acc = 0
		}
		rs = append(rs, fmt.Sprintf("%d.%d.%c.%d", *nextID, r.Intn(3), form, acc))
	}
	df := 0
	if r.Chance(25) {
		df = 1
	}
	return strings.Join(rs, ",") + ":" + strconv.Itoa(df)
}

func c09Perm(r *vh.Rng, n int) []int {
	p := make([]int, n)
	for i := range p {
		p[i] = i
	}
	for i := n - 1; i > 0; i-- {
		j := r.Intn(i + 1)
		p[i], p[j] = p[j], p[i]
	}
	return p
}

// families of spellings of ONE mailbox (ForLookup-equal addresses)
var c09Families = []string{"auU", "aU", "iIxX", "cdC", "ix", "xi", "at", "tTa", "tuT", "ij", "yxj", "jyi"}

// c09GenTxRaw generates a transaction for the positional next hop: mailboxes spelled in several
// ways as different recipients, and/or a connection fault exactly under a RCPT that follows k
// accepted ones of the same connection and is followed by further recipients of that connection.
func c09GenTxRaw(r *vh.Rng, nextID *int, respell, fault, mix bool) string {
	var rs []string
	acts := func() byte {
		switch {
		case r.Chance(12):
			return '0'
		case r.Chance(5):
			return 't'
		}
		return '1'
	}
	insert := func(tok string) {
		i := r.Intn(len(rs) + 1)
		rs = append(rs, "")
		copy(rs[i+1:], rs[i:])
		rs[i] = tok
	}
	if fault {
		dom := r.Intn(3)
		// forms that share one connection key (the domain spelled the same way)
		forms := r.Pick("a", "a", "alcU", "u", "iI", "x", "t", "j", "y")
		k := r.Intn(3)
		after := r.Intn(3)
		if k == 0 && after == 0 {
			k = 1
		}
		for i := 0; i < k+1+after; i++ {
			*nextID++
			act := byte('1')
			if i == k {
				act = "4crs"[r.Intn(4)]
			} else if r.Chance(10) {
				act = '0'
			}
			rs = append(rs, fmt.Sprintf("%d.%d.%c.%c", *nextID, dom, forms[r.Intn(len(forms))], act))
		}
	}
	if respell {
		groups := 1 + r.Intn(2)
		for g := 0; g < groups; g++ {
			fam := c09Families[r.Intn(len(c09Families))]
			dom := r.Intn(3)
			perm := c09Perm(r, len(fam))
			cnt := 2
			if len(fam) > 2 && r.Chance(40) {
				cnt = 3
			}
			mbox := *nextID + 1
			for i := 0; i < cnt; i++ {
				*nextID++
				tok := fmt.Sprintf("%d.%d.%c.%c", *nextID, dom, fam[perm[i]], acts())
				if *nextID != mbox {
					tok += "." + strconv.Itoa(mbox)
				}
				if fault || r.Chance(50) {
					insert(tok)
				} else {
					rs = append(rs, tok) // adjacent spellings
				}
			}
		}
	}
	if mix {
		// ONE connection that sees k accepted ASCII (or IDN-domain-only, convertible) recipients first, THEN a
		// recipient whose LOCAL PART is not ASCII (no ASCII form), then 0..2 more of either kind — in that
		// order (70 %) or shuffled, interleaved with whatever else the transaction has. What the connection
		// does with it depends on the message's SMTPUTF8 flag and the capability of the next hop (op token 2).
		dom := r.Intn(3)
		plain, local := "aaU", "llcdC"
		switch {
		case r.Chance(30):
			plain, local = "iI", "L" // the connection of the U-label spelling
		case r.Chance(12):
			plain, local = "x", "z" // the connection of the A-label spelling
		}
		k := 1 + r.Intn(3)
		after := r.Intn(3)
		var seq []string
		for i := 0; i < k+1+after; i++ {
			*nextID++
			form := plain[r.Intn(len(plain))]
			if i == k || (i > k && r.Chance(50)) {
				form = local[r.Intn(len(local))]
			}
			act := byte('1')
			switch {
			case i == k && r.Chance(15):
				act = '0' // the next hop refuses exactly this one (whatever was done to get it through)
			case i == k && r.Chance(8):
				act = 't'
			case r.Chance(10):
				act = acts()
			}
			seq = append(seq, fmt.Sprintf("%d.%d.%c.%c", *nextID, dom, form, act))
		}
		if r.Chance(30) {
			p := c09Perm(r, len(seq))
			sh := make([]string, len(seq))
			for i, j := range p {
				sh[i] = seq[j]
			}
			seq = sh
		}
		pos := 0
		for _, tok := range seq {
			pos += r.Intn(len(rs) - pos + 1)
			rs = append(rs, "")
			copy(rs[pos+1:], rs[pos:])
			rs[pos] = tok
			pos++
		}
	}
	extra := r.Intn(3)
	if len(rs) == 0 {
		extra = 1 + r.Intn(3)
	}
	for i := 0; i < extra; i++ {
		*nextID++
		insert(fmt.Sprintf("%d.%d.%c.%c", *nextID, r.Intn(3), "aaailuxcCtTjyLz"[r.Intn(15)], acts()))
	}
	// the message body: a buffer that can be opened k times only (k = 0: not at all), a reader that
	// fails mid-way for the one connection that gets it, a message quarantined after the recipients were
	// added; mostly with accepted recipients in several domains (one connection and one Open() each)
	buf := ""
	switch {
	case r.Chance(20):
		buf = ":o" + strconv.Itoa(r.Intn(4))
	case r.Chance(9):
		buf = ":m" + strconv.Itoa(r.Intn(3))
	case r.Chance(5):
		buf = ":q"
	}
	if buf != "" {
		for d := 0; d < 3; d++ {
			if r.Chance(65) {
				*nextID++
				insert(fmt.Sprintf("%d.%d.%c.1", *nextID, d, "aaaitx"[r.Intn(6)]))
			}
		}
	}
	// exact duplicates: one of the recipients is added again (once or twice more) with the very same
	// address string, next to the first occurrence or anywhere later, each with its own RCPT answer
	if r.Chance(35) {
		k := r.Intn(len(rs))
		orig := strings.Split(rs[k], ".")
		if !vc09.IsFault(orig[3][0]) {
			at := k
			for n := 1 + r.Intn(100)/65; n > 0; n-- {
				cp := append([]string{}, orig...)
				cp[3] = string(rune(acts()))
				if r.Chance(60) {
					cp[3] = "1"
				}
				at = at + 1 + r.Intn(len(rs)-at)
				if r.Chance(40) {
					at = k + 1
				}
				rs = append(rs, "")
				copy(rs[at+1:], rs[at:])
				rs[at] = strings.Join(cp, ".")
			}
		}
	}
	df := "0"
	switch {
	case r.Chance(12):
		df = "1"
	case r.Chance(30):
		df = "d"
		for d := 0; d < 3; d++ {
			if r.Chance(45) {
				df += strconv.Itoa(d)
			}
		}
		if df == "d" {
			df = "d" + strconv.Itoa(r.Intn(3))
		}
	}
	return strings.Join(rs, ",") + ":" + df + buf
}

func TestVerifC09Remote(t *testing.T) {
	out := vh.Open("c09_remote")
	defer out.Close()
	if ops := vh.Replay(); ops != nil {
		for _, op := range ops {
			if strings.HasPrefix(op, "C09 remote") {
				c09Remote(t, out, op)
			}
		}
		return
	}
	r := vh.NewRng(vh.Seed() + 909)
	n := vh.N(150)
	for i := 0; i < n; i++ {
		ntx := 1 + r.Intn(4)
		id := 0
		var txs []string
		// 1/3 of the histories: the original input space against the go-smtp based next hop; the rest:
		// positional next hop with respelled mailboxes and connection faults (first transaction =
		// fresh connections, later ones = pooled connections)
		classic := i%3 == 0
		for j := 0; j < ntx; j++ {
			if classic {
				txs = append(txs, c09GenTx(r, &id))
			} else {
				txs = append(txs, c09GenTxRaw(r, &id, r.Chance(55), r.Chance(45), r.Chance(35)))
			}
		}
		// the next hop: no SMTPUTF8 / SMTPUTF8 / SMTPUTF8 enforced (positional next hop only); the message
		// with or without the SMTPUTF8 flag
		utf8 := "001122"[r.Intn(6)]
		if classic && utf8 == '2' {
			utf8 = '1'
		}
		flag := ""
		if r.Chance(50) {
			flag = "n"
		}
		// RFC 1870 SIZE announcements per recipient domain (positional next hop only): smaller than the message
		// (enforced), exactly its size, bigger, no fixed limit, not offered
		size := ""
		if !classic && r.Chance(45) {
			for d := 0; d < 3; d++ {
				if k := "sssseb08--"[r.Intn(10)]; k != '-' {
					size += fmt.Sprintf("%d%c", d, k)
				}
			}
			if size != "" {
				size = "/" + size
			}
		}
		c09Remote(t, out, fmt.Sprintf("C09 remote %c%s%s %s", utf8, flag, size, strings.Join(txs, ";")))
	}
}
