package remote

import (
	"context"
	"fmt"
	"net"
	"sort"
	"strconv"
	"strings"
	"sync"
	"testing"

	"github.com/emersion/go-message/textproto"
	"github.com/emersion/go-smtp"
	"github.com/foxcpp/go-mockdns"
	"github.com/foxcpp/maddy/framework/address"
	"github.com/foxcpp/maddy/framework/buffer"
	"github.com/foxcpp/maddy/framework/module"
	"github.com/foxcpp/maddy/internal/verifshim/vh"
	"github.com/foxcpp/maddy/internal/verifshim/vsmtp"
	"golang.org/x/net/idna"
)

// recipient forms: a = ASCII, i = IDN domain (convertible), l = non-ASCII local part (not
// convertible), u = upper-case ASCII spelling
func c09Addr(id, dom int, form byte) string {
	switch form {
	case 'i':
		return fmt.Sprintf("u%d@пример%d.example", id, dom)
	case 'l':
		return fmt.Sprintf("ю%d@d%d.example", id, dom)
	case 'u':
		return fmt.Sprintf("U%d@D%d.EXAMPLE", id, dom)
	default:
		return fmt.Sprintf("u%d@d%d.example", id, dom)
	}
}

type c09Rcpt struct {
	id, dom int
	form    byte
	accept  bool
}

type c09Tx struct {
	rcpts    []c09Rcpt
	dataFail bool
}

type c09Collector struct {
	mu sync.Mutex
	st []string
}

// op: C09 remote <utf8> <tx>;<tx>   tx = <id>.<dom>.<form>.<accept>,...:<dataFail>
func c09Parse(s string) []c09Tx {
	var out []c09Tx
	for _, ts := range strings.Split(s, ";") {
		parts := strings.Split(ts, ":")
		tx := c09Tx{dataFail: parts[1] == "1"}
		for _, rs := range strings.Split(parts[0], ",") {
			f := strings.Split(rs, ".")
			id, _ := strconv.Atoi(f[0])
			dom, _ := strconv.Atoi(f[1])
			tx.rcpts = append(tx.rcpts, c09Rcpt{id, dom, f[2][0], f[3] == "1"})
		}
		out = append(out, tx)
	}
	return out
}

func c09Zones() map[string]mockdns.Zone {
	z := map[string]mockdns.Zone{
		"mx.example.invalid.": {A: []string{"127.0.0.1"}},
	}
	for d := 0; d < 4; d++ {
		for _, name := range []string{fmt.Sprintf("d%d.example", d), fmt.Sprintf("D%d.EXAMPLE", d), fmt.Sprintf("пример%d.example", d)} {
			mx := []net.MX{{Host: "mx.example.invalid.", Pref: 10}}
			z[name+"."] = mockdns.Zone{MX: mx}
			z[strings.ToLower(name)+"."] = mockdns.Zone{MX: mx}
			if a, err := idna.ToASCII(name); err == nil {
				z[a+"."] = mockdns.Zone{MX: mx}
			}
		}
	}
	return z
}

type statusFunc func(string, error)

func (f statusFunc) SetStatus(rcpt string, err error) { f(rcpt, err) }

func c09Remote(t *testing.T, out *vh.Out, op string) {
	toks := strings.Fields(op)
	utf8 := toks[2] == "1"
	txs := c09Parse(toks[3])

	smtpPort = vsmtp.FreePort()
	srv, err := vsmtp.Start("127.0.0.1:"+smtpPort, utf8, false)
	if err != nil {
		smtpPort = vsmtp.FreePort()
		srv, err = vsmtp.Start("127.0.0.1:"+smtpPort, utf8, false)
	}
	if err != nil {
		t.Fatal(err)
	}
	defer srv.Close()
	tgt := testTarget(t, c09Zones(), nil, nil)
	tgt.connReuseLimit = 10 // the configuration default; testTarget leaves 0 (= never reuse)
	defer tgt.Close()
	allAddr := map[string]bool{}

	var obs []string
	for _, tx := range txs {
		srv.Script.Set(func(s *vsmtp.Script) {
			s.RejectRcpt = map[string]int{}
			s.DataFail = 0
			if tx.dataFail {
				s.DataFail = 451
			}
			for _, r := range tx.rcpts {
				if !r.accept {
					k, _ := address.ForLookup(c09Addr(r.id, r.dom, r.form))
					s.RejectRcpt[k] = 550
				}
			}
		})
		ctx := context.Background()
		meta := &module.MsgMetadata{ID: "verif", SMTPOpts: smtp.MailOptions{UTF8: true}}
		d, err := tgt.Start(ctx, meta, "sender@example.com")
		if err != nil {
			t.Fatal(err)
		}
		byAddr := map[string]int{}
		var adds []string
		accepted := map[int]int{}
		for _, r := range tx.rcpts {
			a := c09Addr(r.id, r.dom, r.form)
			byAddr[a] = r.id
			err := d.AddRcpt(ctx, a, smtp.RcptOptions{})
			if err == nil {
				adds = append(adds, fmt.Sprintf("%d=o", r.id))
				accepted[r.id]++
			} else {
				adds = append(adds, fmt.Sprintf("%d=f", r.id))
			}
		}
		col := &c09Collector{}
		sc := statusFunc(func(rcpt string, err error) {
			col.mu.Lock()
			defer col.mu.Unlock()
			res := "o"
			if err != nil {
				res = "f"
			}
			if id, ok := byAddr[rcpt]; ok {
				col.st = append(col.st, fmt.Sprintf("%d=%s", id, res))
			} else if allAddr[rcpt] {
				col.st = append(col.st, "EARLIER("+vh.HexRunes(rcpt)+")="+res)
			} else {
				col.st = append(col.st, "?"+vh.HexRunes(rcpt)+"="+res)
			}
		})
		hdr := textproto.Header{}
		hdr.Add("Subject", "x")
		if len(accepted) > 0 {
			d.(module.PartialDelivery).BodyNonAtomic(ctx, sc, hdr, buffer.MemoryBuffer{Slice: []byte("hi\r\n")})
			d.Commit(ctx)
		} else {
			d.Abort(ctx)
		}
		sort.Strings(col.st)
		obs = append(obs, "add:"+strings.Join(adds, ",")+" status:"+strings.Join(col.st, ","))

		// monitor: exactly one result per accepted recipient, under the address given, none else
		got := map[string]int{}
		for _, s := range col.st {
			got[strings.SplitN(s, "=", 2)[0]]++
		}
		for id, n := range accepted {
			if got[strconv.Itoa(id)] != n {
				out.Violation("C09/remote-missing-or-duplicate-status", op, fmt.Sprintf("recipient %d accepted %d times, %d results; statuses %v", id, n, got[strconv.Itoa(id)], col.st))
			}
		}
		for k, n := range got {
			id, err := strconv.Atoi(k)
			if err != nil && strings.HasPrefix(k, "EARLIER(") {
				out.Violation("C09/remote-status-for-recipient-of-earlier-transaction", op, fmt.Sprintf("result reported under %s (%d times); statuses %v", k, n, col.st))
			} else if err != nil {
				out.Violation("C09/remote-status-under-foreign-address", op, fmt.Sprintf("result reported under %s (%d times); statuses %v", k, n, col.st))
			} else if accepted[id] == 0 {
				out.Violation("C09/remote-status-for-unaccepted-recipient", op, fmt.Sprintf("result for %d which was not accepted in this transaction; statuses %v", id, col.st))
			}
		}
		for a := range byAddr {
			allAddr[a] = true
		}
		out.StatN("remote.rcpts", len(tx.rcpts))
		out.StatN("remote.accepted", len(accepted))
	}
	srv.Script.Set(func(s *vsmtp.Script) { out.StatN("remote.server_sessions", s.Sessions); out.StatN("remote.server_txs", len(s.Txs)) })
	out.Corr(op, strings.Join(obs, " | "))
	out.Stat(fmt.Sprintf("remote.txs.%d", len(txs)))
}

func c09GenTx(r *vh.Rng, nextID *int) string {
	n := 1 + r.Intn(4)
	var rs []string
	for i := 0; i < n; i++ {
		*nextID++
		form := "aaiilu"[r.Intn(6)]
		acc := 1
		if r.Chance(20) {
			acc = 0
		}
		rs = append(rs, fmt.Sprintf("%d.%d.%c.%d", *nextID, r.Intn(3), form, acc))
	}
	df := 0
	if r.Chance(25) {
		df = 1
	}
	return strings.Join(rs, ",") + ":" + strconv.Itoa(df)
}

func TestVerifC09Remote(t *testing.T) {
	out := vh.Open("c09_remote")
	defer out.Close()
	if ops := vh.Replay(); ops != nil {
		for _, op := range ops {
			if strings.HasPrefix(op, "C09 remote") {
				c09Remote(t, out, op)
			}
		}
		return
	}
	r := vh.NewRng(vh.Seed() + 909)
	n := vh.N(150)
	for i := 0; i < n; i++ {
		ntx := 1 + r.Intn(4)
		id := 0
		var txs []string
		for j := 0; j < ntx; j++ {
			txs = append(txs, c09GenTx(r, &id))
		}
		utf8 := r.Intn(2)
		c09Remote(t, out, fmt.Sprintf("C09 remote %d %s", utf8, strings.Join(txs, ";")))
	}
}
